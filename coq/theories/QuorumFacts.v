(* QuorumFacts.v — proofs about Quorum.v: the C06 laws for every committee whose total fits in 64 bits. *)
From LH Require Import Prims Quorum.
Open Scope N_scope.

(* plain (unbounded) sums *)
Fixpoint psum (ws : list N) : N := match ws with [] => 0 | w :: r => w + psum r end.

Definition total (cm : committee) : N := psum (weights cm).

(* weight of the committee entries whose id satisfies P *)
Fixpoint wsum (P : N -> bool) (cm : committee) : N :=
  match cm with [] => 0 | m :: r => (if P (fst m) then snd m else 0) + wsum P r end.


Lemma fold_add64_mod ws a : a < W64 -> fold_left add64 ws a = (a + psum ws) mod W64.
Proof.
  revert a; induction ws as [|w r IH]; intros a Ha; cbn [fold_left psum].
  - rewrite N.add_0_r. symmetry; apply N.mod_small; exact Ha.
  - rewrite IH by apply wrap64_lt. unfold add64, wrap64.
    rewrite N.add_mod_idemp_l by discriminate. f_equal. lia.
Qed.

Lemma sum64_mod ws : sum64 ws = psum ws mod W64.
Proof. unfold sum64. rewrite fold_add64_mod by reflexivity. reflexivity. Qed.

Lemma sum64_small ws : psum ws < W64 -> sum64 ws = psum ws.
Proof. intro H. rewrite sum64_mod. apply N.mod_small; exact H. Qed.

Lemma psum_filter_wsum P cm : psum (map snd (filter (fun m => P (fst m)) cm)) = wsum P cm.
Proof.
  induction cm as [|m r IH]; cbn [filter map psum wsum]; [reflexivity|].
  destruct (P (fst m)); cbn [map psum]; rewrite IH; lia.
Qed.

Lemma wsum_le_total P cm : wsum P cm <= total cm.
Proof.
  unfold total, weights. induction cm as [|m r IH]; cbn [wsum map psum]; [lia|].
  destruct (P (fst m)); lia.
Qed.

Lemma subsetWeight_wsum S cm : total cm < W64 -> subsetWeight S cm = wsum (fun i => memN i S) cm.
Proof.
  intro H. unfold subsetWeight.
  pose proof (psum_filter_wsum (fun i => memN i S) cm) as E. cbv beta in E.
  pose proof (wsum_le_total (fun i => memN i S) cm).
  rewrite sum64_small; rewrite E; [reflexivity|lia].
Qed.

Lemma sum64_total cm : total cm < W64 -> sum64 (weights cm) = total cm.
Proof. intro H. apply sum64_small. exact H. Qed.

(* inclusion–exclusion on indicator sums *)
Lemma wsum_incl_excl P Q cm :
  wsum P cm + wsum Q cm = wsum (fun i => P i && Q i) cm + wsum (fun i => P i || Q i) cm.
Proof.
  induction cm as [|m r IH]; cbn [wsum]; [reflexivity|].
  destruct (P (fst m)), (Q (fst m)); cbn [andb orb]; lia.
Qed.

Lemma wsum_ext P Q cm : (forall i, In i (ids cm) -> P i = Q i) -> wsum P cm = wsum Q cm.
Proof.
  unfold ids. induction cm as [|m r IH]; cbn [wsum map In]; intro H; [reflexivity|].
  rewrite (H (fst m)) by auto. rewrite IH; auto.
Qed.

Lemma wsum_mono P Q cm : (forall i, P i = true -> Q i = true) -> wsum P cm <= wsum Q cm.
Proof.
  intro H. induction cm as [|m r IH]; cbn [wsum]; [lia|].
  destruct (P (fst m)) eqn:EP; [rewrite (H _ EP)|destruct (Q (fst m))]; lia.
Qed.

Lemma wsum_compl P cm : wsum P cm + wsum (fun i => negb (P i)) cm = total cm.
Proof.
  unfold total, weights. induction cm as [|m r IH]; cbn [wsum map psum]; [reflexivity|].
  destruct (P (fst m)); cbn [negb]; lia.
Qed.

(* the specification's quantities: W, f = floor((W-1)/3) as an integer, Q = W - f *)
Definition specF (cm : committee) : Z := ((Z.of_N (total cm) - 1) / 3)%Z.
Definition specQ (cm : committee) : Z := (Z.of_N (total cm) - specF cm)%Z.

Lemma calcQ_spec cm : total cm < W64 -> Z.of_N (calcQuorumWeight (weights cm)) = specQ cm.
Proof.
  intro H. unfold calcQuorumWeight, specQ, specF, calcF. rewrite sum64_total by exact H.
  destruct (N.eqb_spec (total cm) 0) as [E|E]; [rewrite E; reflexivity|]. lia.
Qed.

Lemma calcByz_spec cm : total cm < W64 -> 0 < total cm ->
  Z.of_N (calcByzMaxWeight (weights cm)) = specF cm.
Proof.
  intros H H0. unfold calcByzMaxWeight, specF, calcF. rewrite sum64_total by exact H.
  destruct (N.eqb_spec (total cm) 0) as [E|E]; lia.
Qed.

Lemma isQ_spec S cm : total cm < W64 ->
  isQ S cm = true <-> (specQ cm <= Z.of_N (wsum (fun i => memN i S) cm))%Z.
Proof.
  intro H. unfold isQ, isQuorum. cbn [fst]. rewrite subsetWeight_wsum by exact H.
  rewrite <- calcQ_spec by exact H. rewrite N.leb_le. lia.
Qed.

Lemma hasH_spec S cm : total cm < W64 -> 0 < total cm ->
  hasH S cm = true <-> (specF cm < Z.of_N (wsum (fun i => memN i S) cm))%Z.
Proof.
  intros H H0. unfold hasH, hasHonest. cbn [fst]. rewrite subsetWeight_wsum by exact H.
  rewrite <- calcByz_spec by assumption. rewrite N.ltb_lt. lia.
Qed.

(* intersection of two id lists *)
Definition interN (A B : list N) : list N := filter (fun a => memN a B) A.

Lemma memN_interN i A B : memN i (interN A B) = memN i A && memN i B.
Proof.
  unfold interN. destruct (memN i A) eqn:EA, (memN i B) eqn:EB; cbn [andb].
  - apply memN_In. apply filter_In. split; [apply memN_In; exact EA|exact EB].
  - apply memN_false_In. intro H. apply filter_In in H. destruct H as [_ H].
    assert (memN i B = true) by exact H. congruence.
  - apply memN_false_In. intro H. apply filter_In in H. destruct H as [H _].
    apply memN_In in H. congruence.
  - apply memN_false_In. intro H. apply filter_In in H. destruct H as [H _].
    apply memN_In in H. congruence.
Qed.

(* 1. two quorums share more than f *)
Theorem quorum_intersection A B cm : total cm < W64 ->
  isQ A cm = true -> isQ B cm = true ->
  (specF cm < Z.of_N (subsetWeight (interN A B) cm))%Z.
Proof.
  intros H HA HB. rewrite subsetWeight_wsum by exact H.
  apply isQ_spec in HA; [|exact H]. apply isQ_spec in HB; [|exact H].
  rewrite (wsum_ext _ (fun i => memN i A && memN i B)) by (intros; apply memN_interN).
  pose proof (wsum_incl_excl (fun i => memN i A) (fun i => memN i B) cm) as IE.
  pose proof (wsum_le_total (fun i => memN i A || memN i B) cm) as LE.
  unfold specQ, specF in *. lia.
Qed.

(* 2. a quorum passes the has-honest test *)
Theorem quorum_has_honest A cm : total cm < W64 -> isQ A cm = true -> hasH A cm = true.
Proof.
  intros H HA. destruct (N.eq_dec (total cm) 0) as [E|E].
  - (* all-zero committee: no subset is a quorum *)
    exfalso. apply isQ_spec in HA; [|exact H].
    pose proof (wsum_le_total (fun i => memN i A) cm). unfold specQ, specF in HA. lia.
  - apply hasH_spec; [exact H|lia|]. apply isQ_spec in HA; [|exact H]. unfold specQ, specF in *. lia.
Qed.

(* 3. the members outside any subset of weight <= f form a quorum *)
Definition complN (S : list N) (cm : committee) : list N := filter (fun i => negb (memN i S)) (ids cm).

Lemma memN_complN i S cm : In i (ids cm) -> memN i (complN S cm) = negb (memN i S).
Proof.
  intro Hi. unfold complN. destruct (memN i S) eqn:E; cbn [negb].
  - apply memN_false_In. intro H. apply filter_In in H. destruct H as [_ H]. rewrite E in H. discriminate.
  - apply memN_In. apply filter_In. split; [exact Hi|]. rewrite E. reflexivity.
Qed.

Theorem complement_is_quorum S cm : total cm < W64 ->
  (Z.of_N (subsetWeight S cm) <= specF cm)%Z -> isQ (complN S cm) cm = true.
Proof.
  intros H HS. rewrite subsetWeight_wsum in HS by exact H. apply isQ_spec; [exact H|].
  rewrite (wsum_ext _ (fun i => negb (memN i S))) by (intros; apply memN_complN; assumption).
  pose proof (wsum_compl (fun i => memN i S) cm). unfold specQ. lia.
Qed.

(* 4. duplicates, outsiders and zero-weight members add nothing *)
Theorem weight_duplicate a A cm : In a A -> subsetWeight (a :: A) cm = subsetWeight A cm.
Proof.
  intro Ha. unfold subsetWeight. f_equal. f_equal. apply filter_ext. intro m. cbn [memN].
  destruct (N.eqb_spec (fst m) a) as [->|]; [|reflexivity]. symmetry. apply memN_In. exact Ha.
Qed.

Theorem weight_outsider a A cm : ~ In a (ids cm) -> subsetWeight (a :: A) cm = subsetWeight A cm.
Proof.
  intro Ha. unfold subsetWeight. f_equal. f_equal. apply filter_ext_in. intros m Hm. cbn [memN].
  destruct (N.eqb_spec (fst m) a) as [E|]; [|reflexivity]. exfalso. apply Ha. rewrite <- E.
  unfold ids. apply in_map. exact Hm.
Qed.

Lemma wsum_cons_zero a A cm :
  (forall w, In (a, w) cm -> w = 0) ->
  wsum (fun i => memN i (a :: A)) cm = wsum (fun i => memN i A) cm.
Proof.
  intro Hz. induction cm as [|[i w] r IH]; cbn [wsum fst snd]; [reflexivity|].
  rewrite IH by (intros w' Hw'; apply Hz; right; exact Hw').
  cbn [memN]. destruct (N.eqb_spec i a) as [->|]; [|reflexivity].
  rewrite (Hz w) by (left; reflexivity). destruct (memN a A); reflexivity.
Qed.

Theorem weight_zero_member a A cm : total cm < W64 ->
  (forall w, In (a, w) cm -> w = 0) -> subsetWeight (a :: A) cm = subsetWeight A cm.
Proof. intros H Hz. rewrite !subsetWeight_wsum by exact H. apply wsum_cons_zero. exact Hz. Qed.

(* 5. monotonicity in the subset *)
Lemma weight_mono A B cm : total cm < W64 -> incl A B -> subsetWeight A cm <= subsetWeight B cm.
Proof.
  intros H HI. rewrite !subsetWeight_wsum by exact H. apply wsum_mono.
  intros i Hi. apply memN_In. apply HI. apply memN_In. exact Hi.
Qed.

Theorem isQ_mono A B cm : total cm < W64 -> incl A B -> isQ A cm = true -> isQ B cm = true.
Proof.
  intros H HI HA. pose proof (weight_mono A B cm H HI). unfold isQ, isQuorum in *. cbn [fst] in *.
  rewrite N.leb_le in *. lia.
Qed.

Theorem hasH_mono A B cm : total cm < W64 -> incl A B -> hasH A cm = true -> hasH B cm = true.
Proof.
  intros H HI HA. pose proof (weight_mono A B cm H HI). unfold hasH, hasHonest in *. cbn [fst] in *.
  rewrite N.ltb_lt in *. lia.
Qed.

(* the single place where the code's byzantine bound (0) and the specification's f (-1) differ *)
Lemma zero_total_hasH S cm : total cm = 0 -> hasH S cm = false /\ isQ S cm = false.
Proof.
  intro E. assert (H : total cm < W64) by (rewrite E; reflexivity).
  pose proof (wsum_le_total (fun i => memN i S) cm) as L.
  unfold hasH, hasHonest, isQ, isQuorum. cbn [fst]. rewrite subsetWeight_wsum by exact H.
  unfold calcByzMaxWeight, calcQuorumWeight. rewrite sum64_total by exact H. rewrite E. cbn.
  split; [apply N.ltb_ge|apply N.leb_gt]; lia.
Qed.

(* the code's quantities coincide with the specification's for every total that fits in 64 bits *)
Theorem calcF_is_spec W : 0 < W -> Z.of_N (calcF W) = ((Z.of_N W - 1) / 3)%Z.
Proof. intro H. unfold calcF. lia. Qed.

(* regression witness: the float64 formula of the unrepaired code is not the specified function *)
Theorem calcF_float_refuted : exists W, W < W64 /\ calcF_float W <> calcF W.
Proof. exists (2^53 + 2). split; [reflexivity|]. vm_compute. discriminate. Qed.

(* non-vacuity: a concrete committee meeting the hypotheses, with two distinct intersecting quorums *)
Example c06_nonvacuous :
  let cm := [(1, 5); (2, 1); (3, 1); (4, 3); (5, 0)] in
  total cm < W64 /\ isQ [1; 2; 4] cm = true /\ isQ [1; 3; 4] cm = true /\ isQ [2; 3; 4] cm = false.
Proof. vm_compute. repeat split; reflexivity. Qed.
