(* Prims.v — 64-bit arithmetic conventions and small list helpers shared by the model. *)
From Coq Require Export List NArith ZArith Lia Bool.
From Coq Require Export ZifyBool ZifyN ZifyNat.
Export ListNotations.
Open Scope N_scope.

Ltac Zify.zify_post_hook ::= Z.div_mod_to_equations.

Definition W64 : N := 18446744073709551616.        (* 2^64 *)
Definition MAXI64 : N := 9223372036854775807.     (* 2^63-1 = math.MaxInt64 *)
Definition u64 (x : N) : Prop := x < W64.
Definition wrap64 (x : N) : N := x mod W64.
Definition add64 (a b : N) : N := wrap64 (a + b).

Lemma W64_pos : 0 < W64. Proof. reflexivity. Qed.
Lemma wrap64_small x : x < W64 -> wrap64 x = x.
Proof. intro H. unfold wrap64. apply N.mod_small. exact H. Qed.
Lemma wrap64_lt x : wrap64 x < W64.
Proof. unfold wrap64. apply N.mod_lt. discriminate. Qed.

(* membership of an id in an id list, as a boolean *)
Fixpoint memN (x : N) (l : list N) : bool :=
  match l with [] => false | y :: r => if N.eqb x y then true else memN x r end.

Lemma memN_In x l : memN x l = true <-> In x l.
Proof.
  induction l as [|y r IH]; cbn [memN In].
  - split; [discriminate|tauto].
  - destruct (N.eqb_spec x y) as [->|Hne].
    + split; auto.
    + rewrite IH. split; [auto|]. intros [H|H]; [congruence|exact H].
Qed.

Lemma memN_false_In x l : memN x l = false <-> ~ In x l.
Proof. rewrite <- memN_In. destruct (memN x l); split; congruence. Qed.

Fixpoint nodupN (l : list N) : bool :=
  match l with [] => true | x :: r => negb (memN x r) && nodupN r end.

Lemma nodupN_NoDup l : nodupN l = true <-> NoDup l.
Proof.
  induction l as [|x r IH]; cbn [nodupN].
  - split; [constructor|auto].
  - rewrite andb_true_iff, negb_true_iff, memN_false_In, IH.
    split; [intros [A B]; constructor; auto | intro H; inversion H; auto].
Qed.
