(* WireLHFacts.v — C20: for every lean-helix message the builders can produce, parsing the built bytes yields the same
   type, instance, height, view, hash, sender, share, nested proofs and votes; the signed header a verifier reads out
   of a message is byte-identical to the standalone encoding the signer signed; the same for block proofs. *)
From LH Require Import Prims Wire WireFacts WireLH.
Open Scope N_scope.

Definition small (b : bytes) : Prop := blen b < 2 ^ 32.

Definition wf_sig (s : wsig) : Prop := small (ws_id s) /\ small (ws_sig s) /\ small (enc_sig s).
Definition wf_ref (r : wref) : Prop :=
  wr_inst r < 2 ^ 64 /\ wr_type r < 2 ^ 16 /\ wr_height r < 2 ^ 64 /\ wr_view r < 2 ^ 64 /\ small (wr_hash r) /\ small (enc_ref r).
Definition wf_proof (p : wproof) : Prop :=
  wf_ref (wp_ppref p) /\ wf_sig (wp_ppsnd p) /\ wf_ref (wp_pref p) /\ Forall wf_sig (wp_psnds p) /\
  small (arr_body (map enc_sig (wp_psnds p))) /\ small (enc_proof (Some p)).
Definition wf_oproof (op : option wproof) : Prop := match op with Some p => wf_proof p | None => True end.
Definition wf_vote (v : wvote) : Prop :=
  wv_inst v < 2 ^ 64 /\ wv_type v < 2 ^ 16 /\ wv_height v < 2 ^ 64 /\ wv_view v < 2 ^ 64 /\ wf_oproof (wv_proof v) /\
  wf_sig (wv_snd v) /\ small (enc_vchdr v) /\ small (enc_vote v).
Definition wf_msg (m : wmsg) : Prop :=
  match m with
  | WPP r s | WP r s => wf_ref r /\ wf_sig s /\ small (enc_ppcontent r s)
  | WC r s sh => wf_ref r /\ wf_sig s /\ small sh /\ small (encode [VMsg (enc_ref r); VMsg (enc_sig s); VBytes sh])
  | WVC v => wf_vote v
  | WNV i t h v vs s pp pps =>
      i < 2 ^ 64 /\ t < 2 ^ 16 /\ h < 2 ^ 64 /\ v < 2 ^ 64 /\ Forall wf_vote vs /\ small (arr_body (map enc_vote vs)) /\
      small (enc_nvhdr i t h v vs) /\ wf_sig s /\ wf_ref pp /\ wf_sig pps /\ small (enc_ppcontent pp pps) /\
      small (encode [VMsg (enc_nvhdr i t h v vs); VMsg (enc_sig s); VMsg (enc_ppcontent pp pps)])
  end.
Definition wf_blockproof (p : wblockproof) : Prop :=
  wf_ref (bp_ref p) /\ Forall wf_sig (bp_nodes p) /\ small (arr_body (map enc_sig (bp_nodes p))) /\ small (bp_seed p).

Ltac wfv := repeat (apply Forall_cons; [cbn [wf_val]; unfold small in *; first [assumption|tauto]|]); apply Forall_nil.

Theorem sig_roundtrip s : wf_sig s -> dec_sig (enc_sig s) = s.
Proof.
  intros (A & B & C). unfold dec_sig, enc_sig. change SIG_SCH with (map ty_of [VBytes (ws_id s); VBytes (ws_sig s)]).
  rewrite (get_dyn_encode _ 0%nat (VBytes (ws_id s))) by (first [wfv|reflexivity]).
  rewrite (get_dyn_encode _ 1%nat (VBytes (ws_sig s))) by (first [wfv|reflexivity]).
  destruct s; reflexivity.
Qed.

Theorem ref_roundtrip r : wf_ref r -> dec_ref (enc_ref r) = r.
Proof.
  intros (A & B & C & D & E & F). unfold dec_ref, enc_ref.
  set (vs := [VU64 (wr_inst r); VU16 (wr_type r); VU64 (wr_height r); VU64 (wr_view r); VBytes (wr_hash r)]).
  change REF_SCH with (map ty_of vs). assert (W : Forall wf_val vs) by (subst vs; wfv).
  rewrite (get_u64_encode vs 0%nat (wr_inst r) W eq_refl), (get_u16_encode vs 1%nat (wr_type r) W eq_refl),
          (get_u64_encode vs 2%nat (wr_height r) W eq_refl), (get_u64_encode vs 3%nat (wr_view r) W eq_refl),
          (get_dyn_encode vs 4%nat (VBytes (wr_hash r)) W eq_refl eq_refl).
  destruct r; reflexivity.
Qed.

Lemma map_sig_roundtrip l : Forall wf_sig l -> map dec_sig (map enc_sig l) = l.
Proof. induction 1 as [|s l Hs Hl IH]; cbn [map]; [reflexivity|]. rewrite sig_roundtrip by exact Hs. rewrite IH. reflexivity. Qed.

Lemma enc_small_list {A} (enc : A -> bytes) (wf : A -> Prop) l : (forall a, wf a -> small (enc a)) -> Forall wf l ->
  Forall (fun e => blen e < 2 ^ 32) (map enc l).
Proof. intros H F. induction F as [|a l Ha Hl IH]; cbn [map]; constructor; [apply H; exact Ha|exact IH]. Qed.

Lemma encode_nonempty_cons v vs : encode (v :: vs) <> [].
Proof.
  unfold encode. cbn [fold_left]. destruct (enc_from_prefix vs (put [] v)) as [t E]. unfold enc_from in E. rewrite E.
  rewrite put_shape. pose proof (field_bytes_nonempty v). destruct (field_bytes v); [cbn in H; lia|].
  intro C. apply (f_equal (@length N)) in C. rewrite !app_length in C. cbn in C. lia.
Qed.

Theorem proof_roundtrip op : wf_oproof op -> dec_proof (enc_proof op) = op.
Proof.
  destruct op as [p|]; [|reflexivity]. intros (A & B & C & D & E & F). cbn [enc_proof].
  set (vs := [VMsg (enc_ref (wp_ppref p)); VMsg (enc_sig (wp_ppsnd p)); VMsg (enc_ref (wp_pref p)); VMsgArr (map enc_sig (wp_psnds p))]).
  assert (W : Forall wf_val vs).
  { subst vs. destruct A as (_ & _ & _ & _ & _ & A6), B as (_ & _ & B3), C as (_ & _ & _ & _ & _ & C6). wfv. }
  unfold dec_proof. destruct (encode vs) as [|b0 bs0] eqn:Een; [exfalso; subst vs; eapply encode_nonempty_cons; exact Een|]. rewrite <- Een.
  change PROOF_SCH with (map ty_of vs).
  rewrite (get_dyn_encode vs 0%nat _ W eq_refl eq_refl), (get_dyn_encode vs 1%nat _ W eq_refl eq_refl),
          (get_dyn_encode vs 2%nat _ W eq_refl eq_refl). cbn [dyn_content].
  rewrite (get_arr_encode vs 3%nat (map enc_sig (wp_psnds p)) W eq_refl) by (apply (enc_small_list enc_sig wf_sig); [intros a (_ & _ & H); exact H|exact D]).
  rewrite !ref_roundtrip, sig_roundtrip, map_sig_roundtrip by assumption. destruct p; reflexivity.
Qed.

Theorem vote_roundtrip v : wf_vote v -> dec_vote (enc_vote v) = v.
Proof.
  intros (A & B & C & D & E & F & G & H). unfold dec_vote, enc_vote.
  set (vs := [VMsg (enc_vchdr v); VMsg (enc_sig (wv_snd v))]).
  assert (W : Forall wf_val vs) by (subst vs; destruct F as (_ & _ & F3); wfv).
  change VOTE_SCH with (map ty_of vs).
  rewrite (get_dyn_encode vs 0%nat _ W eq_refl eq_refl), (get_dyn_encode vs 1%nat _ W eq_refl eq_refl). cbn [dyn_content].
  unfold enc_vchdr.
  set (hs := [VU64 (wv_inst v); VU16 (wv_type v); VU64 (wv_height v); VU64 (wv_view v); VMsg (enc_proof (wv_proof v))]).
  assert (Wh : Forall wf_val hs).
  { subst hs. repeat (apply Forall_cons; [cbn [wf_val]; first [assumption|destruct (wv_proof v) as [p|]; [destruct E as (_ & _ & _ & _ & _ & E6); exact E6|reflexivity]]|]). apply Forall_nil. }
  change VCHDR_SCH with (map ty_of hs).
  rewrite (get_u64_encode hs 0%nat _ Wh eq_refl), (get_u16_encode hs 1%nat _ Wh eq_refl), (get_u64_encode hs 2%nat _ Wh eq_refl),
          (get_u64_encode hs 3%nat _ Wh eq_refl), (get_dyn_encode hs 4%nat _ Wh eq_refl eq_refl). cbn [dyn_content].
  rewrite proof_roundtrip, sig_roundtrip by assumption. destruct v; reflexivity.
Qed.

Lemma map_vote_roundtrip l : Forall wf_vote l -> map dec_vote (map enc_vote l) = l.
Proof. induction 1 as [|s l Hs Hl IH]; cbn [map]; [reflexivity|]. rewrite vote_roundtrip by exact Hs. rewrite IH. reflexivity. Qed.

(* the signed header read out of a content is byte-identical to the standalone encoding that was signed *)
Theorem nested_header_is_signed_bytes r s : wf_ref r -> wf_sig s -> get_dyn (enc_ppcontent r s) PP_SCH 0 = enc_ref r.
Proof.
  intros (_ & _ & _ & _ & _ & A) (_ & _ & B). unfold enc_ppcontent.
  set (vs := [VMsg (enc_ref r); VMsg (enc_sig s)]). assert (W : Forall wf_val vs) by (subst vs; wfv).
  change PP_SCH with (map ty_of vs). rewrite (get_dyn_encode vs 0%nat _ W eq_refl eq_refl). reflexivity.
Qed.

Theorem nested_vote_header_is_signed_bytes v : wf_vote v -> get_dyn (enc_vote v) VOTE_SCH 0 = enc_vchdr v.
Proof.
  intros (A & B & C & D & E & F & G & H). unfold enc_vote.
  set (vs := [VMsg (enc_vchdr v); VMsg (enc_sig (wv_snd v))]).
  assert (W : Forall wf_val vs) by (subst vs; destruct F as (_ & _ & F3); wfv).
  change VOTE_SCH with (map ty_of vs). rewrite (get_dyn_encode vs 0%nat _ W eq_refl eq_refl). reflexivity.
Qed.

Lemma ppcontent_roundtrip r s : wf_ref r -> wf_sig s ->
  dec_ref (get_dyn (enc_ppcontent r s) PP_SCH 0) = r /\ dec_sig (get_dyn (enc_ppcontent r s) PP_SCH 1) = s.
Proof.
  intros Wr Ws. rewrite nested_header_is_signed_bytes by assumption. split; [apply ref_roundtrip; exact Wr|].
  unfold enc_ppcontent. set (vs := [VMsg (enc_ref r); VMsg (enc_sig s)]).
  assert (W : Forall wf_val vs) by (subst vs; destruct Wr as (_ & _ & _ & _ & _ & A), Ws as (_ & _ & B); wfv).
  change PP_SCH with (map ty_of vs). rewrite (get_dyn_encode vs 1%nat _ W eq_refl eq_refl). apply sig_roundtrip. exact Ws.
Qed.

Theorem msg_roundtrip m : wf_msg m -> dec_msg (enc_msg m) = Some m.
Proof.
  destruct m as [r s|r s|r s sh|v|i t h v vs s pp pps]; cbn [wf_msg enc_msg]; unfold dec_msg.
  - intros (Wr & Ws & Sm). rewrite decode_union_encode by (first [reflexivity|exact Sm]). cbn [N.eqb].
    destruct (ppcontent_roundtrip r s Wr Ws) as [-> ->]. reflexivity.
  - intros (Wr & Ws & Sm). rewrite decode_union_encode by (first [reflexivity|exact Sm]). cbn [N.eqb Pos.eqb].
    destruct (ppcontent_roundtrip r s Wr Ws) as [-> ->]. reflexivity.
  - intros (Wr & Ws & Ssh & Sm). rewrite decode_union_encode by (first [reflexivity|exact Sm]). cbn [N.eqb Pos.eqb].
    set (cs := [VMsg (enc_ref r); VMsg (enc_sig s); VBytes sh]).
    assert (W : Forall wf_val cs) by (subst cs; destruct Wr as (_ & _ & _ & _ & _ & A), Ws as (_ & _ & B); wfv).
    change C_SCH with (map ty_of cs).
    rewrite (get_dyn_encode cs 0%nat _ W eq_refl eq_refl), (get_dyn_encode cs 1%nat _ W eq_refl eq_refl), (get_dyn_encode cs 2%nat _ W eq_refl eq_refl).
    cbn [dyn_content]. rewrite ref_roundtrip, sig_roundtrip by assumption. reflexivity.
  - intros Wv. assert (Sm : small (enc_vote v)) by (destruct Wv as (_ & _ & _ & _ & _ & _ & _ & H); exact H).
    rewrite decode_union_encode by (first [reflexivity|exact Sm]). cbn [N.eqb Pos.eqb]. rewrite vote_roundtrip by exact Wv. reflexivity.
  - intros (A & B & C & D & Wvs & Sab & Snh & Ws & Wpp & Wpps & Spc & Sm).
    rewrite decode_union_encode by (first [reflexivity|exact Sm]). cbn [N.eqb Pos.eqb].
    set (cs := [VMsg (enc_nvhdr i t h v vs); VMsg (enc_sig s); VMsg (enc_ppcontent pp pps)]).
    assert (W : Forall wf_val cs) by (subst cs; destruct Ws as (_ & _ & Ws3); wfv).
    change NV_SCH with (map ty_of cs).
    rewrite (get_dyn_encode cs 0%nat _ W eq_refl eq_refl), (get_dyn_encode cs 1%nat _ W eq_refl eq_refl), (get_dyn_encode cs 2%nat _ W eq_refl eq_refl).
    cbn [dyn_content]. unfold enc_nvhdr.
    set (hs := [VU64 i; VU16 t; VU64 h; VU64 v; VMsgArr (map enc_vote vs)]).
    assert (Wh : Forall wf_val hs) by (subst hs; wfv).
    change NVHDR_SCH with (map ty_of hs).
    rewrite (get_u64_encode hs 0%nat _ Wh eq_refl), (get_u16_encode hs 1%nat _ Wh eq_refl), (get_u64_encode hs 2%nat _ Wh eq_refl),
            (get_u64_encode hs 3%nat _ Wh eq_refl).
    rewrite (get_arr_encode hs 4%nat (map enc_vote vs) Wh eq_refl) by (apply (enc_small_list enc_vote wf_vote); [intros a (_ & _ & _ & _ & _ & _ & _ & H); exact H|exact Wvs]).
    rewrite map_vote_roundtrip, sig_roundtrip by assumption.
    destruct (ppcontent_roundtrip pp pps Wpp Wpps) as [-> ->]. reflexivity.
Qed.

Theorem blockproof_roundtrip p : wf_blockproof p -> dec_blockproof (enc_blockproof p) = p.
Proof.
  intros (A & B & C & D). unfold dec_blockproof, enc_blockproof.
  set (vs := [VMsg (enc_ref (bp_ref p)); VMsgArr (map enc_sig (bp_nodes p)); VBytes (bp_seed p)]).
  assert (W : Forall wf_val vs) by (subst vs; destruct A as (_ & _ & _ & _ & _ & A6); wfv).
  change BP_SCH with (map ty_of vs).
  rewrite (get_dyn_encode vs 0%nat _ W eq_refl eq_refl), (get_dyn_encode vs 2%nat _ W eq_refl eq_refl). cbn [dyn_content].
  rewrite (get_arr_encode vs 1%nat (map enc_sig (bp_nodes p)) W eq_refl) by (apply (enc_small_list enc_sig wf_sig); [intros a (_ & _ & H); exact H|exact B]).
  rewrite ref_roundtrip, map_sig_roundtrip by assumption. destruct p; reflexivity.
Qed.

(* the block proof's reference (rebuilt from the first commit's fields) is byte-identical to what every commit
   sender signed, provided all commits of the bucket carry the same canonical header fields *)
Theorem blockproof_ref_is_signed_bytes p : wf_blockproof p -> get_dyn (enc_blockproof p) BP_SCH 0 = enc_ref (bp_ref p).
Proof.
  intros (A & B & C & D). unfold enc_blockproof.
  set (vs := [VMsg (enc_ref (bp_ref p)); VMsgArr (map enc_sig (bp_nodes p)); VBytes (bp_seed p)]).
  assert (W : Forall wf_val vs) by (subst vs; destruct A as (_ & _ & _ & _ & _ & A6); wfv).
  change BP_SCH with (map ty_of vs). rewrite (get_dyn_encode vs 0%nat _ W eq_refl eq_refl). reflexivity.
Qed.

(* the reader accepts encodings the builder never produces: trailing bytes inside a signed header still parse to the
   same fields, so "decode then re-encode" does not reproduce the received bytes (finding F11) *)
Definition noncanonical_ref : bytes := enc_ref {| wr_inst := 7; wr_type := 2; wr_height := 1; wr_view := 0; wr_hash := [1; 2; 3] |} ++ [0; 0; 0; 0].
Theorem reencode_is_not_identity : dec_ref noncanonical_ref = {| wr_inst := 7; wr_type := 2; wr_height := 1; wr_view := 0; wr_hash := [1; 2; 3] |}
  /\ enc_ref (dec_ref noncanonical_ref) <> noncanonical_ref.
Proof. split; [vm_compute; reflexivity|vm_compute; discriminate]. Qed.

Example c20_nonvacuous :
  wf_msg (WC {| wr_inst := 7; wr_type := 3; wr_height := 18446744073709551615; wr_view := 9223372036854775808; wr_hash := [255; 0; 1] |}
             {| ws_id := [109; 48]; ws_sig := [] |} [1; 2; 3; 4; 5]).
Proof. cbn [wf_msg wf_ref wf_sig small]. unfold small, blen. vm_compute. repeat split; reflexivity. Qed.
