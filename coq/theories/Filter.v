(* Filter.v — executable model of services/rawmessagesfilter/raw_message_filter.go together with the
   part of the worker it interacts with: the State height and the installation of a new term handler
   (WorkerLoop.onNewConsensusRound -> SetHeightAndResetView -> ConsumeCacheMessages).
   The handler is abstract: it records each delivery and, when it is handed a message flagged
   [m_trigger] and its term has not committed yet, commits and starts the next height *from inside
   the delivery* (exactly what TermInCommittee.checkCommitted -> onCommit -> onNewConsensusRound does).
   Model of the code as repaired (finding F12): the drain stops once the node has left the height. *)
From LH Require Import Prims.
Open Scope N_scope.

Record fmsg := { m_height : N; m_inst : N; m_sender : N; m_tag : N; m_trigger : bool }.

Record fstate := {
  f_h : N;                               (* state.Height() *)
  f_handler : option N;                  (* consensusMessagesHandler: the term (height) it belongs to *)
  f_cache : list (N * list fmsg);        (* futureCache: height -> messages in arrival order *)
  f_latest : N;                          (* latestFutureBlockHeight *)
  f_committed : list N;                  (* terms whose handler already committed (ghost of the abstract handler) *)
  f_out : list (N * fmsg);               (* deliveries (handler term, message), newest first *)
  f_oof : bool                           (* fuel exhausted (never happens for the fuel used by fstep, FilterFacts.fstep_no_oof) *)
}.

Definition f_init : fstate :=
  {| f_h := 0; f_handler := None; f_cache := []; f_latest := 0; f_committed := []; f_out := []; f_oof := false |}.

Fixpoint lookup (h : N) (c : list (N * list fmsg)) : list fmsg :=
  match c with [] => [] | (k, l) :: r => if N.eqb k h then l else lookup h r end.
Definition remove_key (h : N) (c : list (N * list fmsg)) := filter (fun e => negb (N.eqb (fst e) h)) c.
Definition clear_earlier (h : N) (c : list (N * list fmsg)) := filter (fun e => negb (N.ltb (fst e) h)) c.
Fixpoint append_at (h : N) (m : fmsg) (c : list (N * list fmsg)) : list (N * list fmsg) :=
  match c with
  | [] => [(h, [m])]
  | (k, l) :: r => if N.eqb k h then (k, l ++ [m]) :: r else (k, l) :: append_at h m r
  end.

Definition set_cache c s := {| f_h := f_h s; f_handler := f_handler s; f_cache := c; f_latest := f_latest s; f_committed := f_committed s; f_out := f_out s; f_oof := f_oof s |}.
Definition emit t m s := {| f_h := f_h s; f_handler := f_handler s; f_cache := f_cache s; f_latest := f_latest s; f_committed := f_committed s; f_out := (t, m) :: f_out s; f_oof := f_oof s |}.
Definition mark_committed t s := {| f_h := f_h s; f_handler := f_handler s; f_cache := f_cache s; f_latest := f_latest s; f_committed := t :: f_committed s; f_out := f_out s; f_oof := f_oof s |}.
Definition set_oof s := {| f_h := f_h s; f_handler := f_handler s; f_cache := f_cache s; f_latest := f_latest s; f_committed := f_committed s; f_out := f_out s; f_oof := true |}.
Definition start_height h s := {| f_h := h; f_handler := Some h; f_cache := clear_earlier h (f_cache s); f_latest := f_latest s; f_committed := f_committed s; f_out := f_out s; f_oof := f_oof s |}.

(* processConsensusMessage + the abstract handler; [adv] is the continuation used when the handler commits *)
Definition process (adv : fstate -> N -> fstate) (m : fmsg) (s : fstate) : fstate :=
  match f_handler s with
  | None => s
  | Some t =>
      let s1 := emit t m s in
      if m_trigger m && negb (memN t (f_committed s1)) then adv (mark_committed t s1) (t + 1) else s1
  end.

(* the loop of ConsumeCacheMessages over the messages captured at its start (repaired: stop once the height moved) *)
Fixpoint drain_loop (adv : fstate -> N -> fstate) (h : N) (msgs : list fmsg) (s : fstate) : fstate :=
  match msgs with
  | [] => s
  | m :: r => if N.eqb (f_h s) h then drain_loop adv h r (process adv m s) else s
  end.

(* onNewConsensusRound(h): SetHeightAndResetView fails unless newer; ConsumeCacheMessages *)
Fixpoint advance (fuel : nat) (s : fstate) (h : N) {struct fuel} : fstate :=
  match fuel with
  | O => set_oof s
  | S f =>
      if N.leb h (f_h s) then s else
      let s1 := start_height h s in
      let s2 := drain_loop (advance f) h (lookup h (f_cache s1)) s1 in
      set_cache (remove_key h (f_cache s2)) s2
  end.

Definition push_to_cache (m : fmsg) (s : fstate) : fstate :=
  let h := m_height m in
  if N.ltb h (f_latest s) then s else
  let s1 := if N.ltb (f_latest s) h
            then {| f_h := f_h s; f_handler := f_handler s; f_cache := clear_earlier h (f_cache s); f_latest := h;
                    f_committed := f_committed s; f_out := f_out s; f_oof := f_oof s |}
            else s in
  set_cache (append_at h m (f_cache s1)) s1.

(* HandleConsensusRawMessage *)
Definition receive (fuel : nat) (me inst : N) (m : fmsg) (s : fstate) : fstate :=
  if N.eqb (m_sender m) me then s
  else if N.ltb (m_height m) (f_h s) then s
  else if negb (N.eqb (m_inst m) inst) then s
  else if N.ltb (f_h s) (m_height m) then push_to_cache m s
  else process (advance fuel) m s.

Inductive fop := FReceive (m : fmsg) | FAdvance (h : N).

Definition fuel_for (s : fstate) : nat := S (S (length (f_cache s))).

Definition fstep (me inst : N) (s : fstate) (o : fop) : fstate :=
  match o with
  | FReceive m => receive (fuel_for s) me inst m s
  | FAdvance h => advance (fuel_for s) s h
  end.

Definition frun (me inst : N) (ops : list fop) : fstate := fold_left (fstep me inst) ops f_init.
