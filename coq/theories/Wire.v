(* Wire.v — a flat model of the membuffers wire format (github.com/orbs-network/membuffers v0.3.2, go/builder.go,
   go/message.go, go/iterator.go) for the field kinds the lean-helix schemas use: uint16, uint64, bytes, nested
   message, message array, and the one-field union of LeanhelixContent.
   Builder: [put] appends one field to the bytes written so far (padding with zeros to the field's alignment);
   nested messages are values that are already encoded (a nested message is written at a 4-aligned offset, so its
   bytes are exactly its standalone encoding). Reader: [offsets] is _lazyCalcOffsets, the accessors read through it.
   Offsets are nat (they index lists); every size word read from the wire is compared with the buffer length as N
   before it is turned into a nat. The uint32 wrap-around of the Go Offset type is not modelled: the theorems
   concern buffers below 2^32 bytes, and hostile size words are the business of C12 (recover guards). *)
From LH Require Import Prims.
Open Scope N_scope.

Definition bytes := list N.

Fixpoint le (k : nat) (n : N) : bytes :=
  match k with O => [] | S k' => (n mod 256) :: le k' (n / 256) end.
Fixpoint unle (bs : bytes) : N :=
  match bs with [] => 0 | b :: r => b + 256 * unle r end.

Definition zeros (k : nat) : bytes := repeat 0 k.
(* number of padding bytes that bring offset [off] to a multiple of [a] *)
Definition padlen (off a : nat) : nat := ((a - off mod a) mod a)%nat.
Definition padto (acc : bytes) (a : nat) : bytes := acc ++ zeros (padlen (length acc) a).
Definition alignN (off a : nat) : nat := (off + padlen off a)%nat.

Definition blen (b : bytes) : N := N.of_nat (length b).

Inductive fval :=
| VU16 (n : N)
| VU64 (n : N)
| VBytes (b : bytes)
| VMsg (b : bytes)              (* nested message: its own encoding *)
| VMsgArr (l : list bytes).     (* message array: encodings of the elements *)

Inductive fty := TU16 | TU64 | TBytes | TMsg | TMsgArr.
Definition ty_of (v : fval) : fty :=
  match v with VU16 _ => TU16 | VU64 _ => TU64 | VBytes _ => TBytes | VMsg _ => TMsg | VMsgArr _ => TMsgArr end.

(* WriteMessage for one array element, relative to the array content (which starts 4-aligned) *)
Definition put_elem (acc : bytes) (e : bytes) : bytes := padto acc 4 ++ le 4 (blen e) ++ e.
Definition arr_body (l : list bytes) : bytes := fold_left put_elem l [].

Definition put (acc : bytes) (v : fval) : bytes :=
  match v with
  | VU16 n => padto acc 2 ++ le 2 n
  | VU64 n => padto acc 4 ++ le 8 n
  | VBytes b => padto acc 4 ++ le 4 (blen b) ++ b
  | VMsg b => padto acc 4 ++ le 4 (blen b) ++ b
  | VMsgArr l => padto acc 4 ++ le 4 (blen (arr_body l)) ++ arr_body l
  end.

Definition encode (vs : list fval) : bytes := fold_left put vs [].

(* LeanhelixContent: a single union field; index (uint16), then the chosen message as a message field *)
Definition encode_union (idx : N) (m : bytes) : bytes := put (le 2 idx) (VMsg m).

(* ---- reader ---- *)
Definition sub (bs : bytes) (off len : nat) : bytes := firstn len (skipn off bs).
Definition rd (bs : bytes) (off k : nat) : option N :=
  if Nat.leb (off + k) (length bs) then Some (unle (sub bs off k)) else None.

Definition falign (t : fty) : nat := match t with TU16 => 2 | _ => 4 end%nat.

(* _lazyCalcOffsets over a buffer of [size] = length bs. Returns None for "invalid". *)
Fixpoint offsets_from (bs : bytes) (off : nat) (sch : list fty) : option (list nat * nat) :=
  match sch with
  | [] => Some ([], off)
  | t :: r =>
    if Nat.eqb off (length bs) then Some ([], off) else
    let o := alignN off (falign t) in
    if Nat.ltb (length bs) o then None else
    match t with
    | TU16 => match offsets_from bs (o + 2) r with Some (l, e) => Some (o :: l, e) | None => None end
    | TU64 => match offsets_from bs (o + 8) r with Some (l, e) => Some (o :: l, e) | None => None end
    | TBytes | TMsg | TMsgArr =>
        match rd bs o 4 with
        | None => None
        | Some sz =>
          if N.ltb (blen bs) (N.of_nat (o + 4) + sz) then None else
          match offsets_from bs (o + 4 + N.to_nat sz) r with Some (l, e) => Some (o :: l, e) | None => None end
        end
    end
  end.

Definition offsets (bs : bytes) (sch : list fty) : option (list nat) :=
  match offsets_from bs 0 sch with
  | Some (l, e) => if Nat.ltb (length bs) e || Nat.eqb e 0 then None else Some l
  | None => None
  end.

(* accessors: defaults when the buffer is invalid or the field is absent *)
Definition get_scalar (bs : bytes) (sch : list fty) (i k : nat) : N :=
  match offsets bs sch with
  | Some l => match nth_error l i with Some o => match rd bs o k with Some n => n | None => 0 end | None => 0 end
  | None => 0
  end.
Definition get_u16 bs sch i := get_scalar bs sch i 2.
Definition get_u64 bs sch i := get_scalar bs sch i 8.
(* GetBytes / GetMessage: content of a dynamic field *)
Definition get_dyn (bs : bytes) (sch : list fty) (i : nat) : bytes :=
  match offsets bs sch with
  | Some l => match nth_error l i with
              | Some o => match rd bs o 4 with
                          | Some sz => if N.ltb (blen bs) (N.of_nat (o + 4) + sz) then [] else sub bs (o + 4) (N.to_nat sz)
                          | None => [] end
              | None => [] end
  | None => []
  end.

(* message array iterator over the content of an array field: NextMessage until the cursor reaches the end *)
Fixpoint iter_msgs (fuel : nat) (body : bytes) (cur : nat) : list bytes :=
  match fuel with
  | O => []
  | S f =>
    if Nat.leb (length body) cur then [] else
    match rd body cur 4 with
    | None => [[]]                                  (* cursor + 4 > end: cursor := end, an empty element is returned *)
    | Some sz =>
      if N.ltb (blen body) (N.of_nat (cur + 4) + sz) then [[]]
      else sub body (cur + 4) (N.to_nat sz) :: iter_msgs f body (alignN (cur + 4 + N.to_nat sz) 4)
    end
  end.
Definition get_arr (bs : bytes) (sch : list fty) (i : nat) : list bytes :=
  let body := get_dyn bs sch i in iter_msgs (S (length body)) body 0.

(* union reader of LeanhelixContent: index and the message bytes (None: not a valid content) *)
Definition decode_union (bs : bytes) : option (N * bytes) :=
  match rd bs 0 2 with
  | None => None
  | Some idx =>
    if N.leb 5 idx then None else
    match rd bs 4 4 with
    | None => None
    | Some sz => if N.ltb (blen bs) (8 + sz) then None else Some (idx, sub bs 8 (N.to_nat sz))
    end
  end.
