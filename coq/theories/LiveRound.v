(* LiveRound.v — C05: timeouts in lockstep reach a view that commits.
   Correct members Q of quorum weight, none of them prepared, sit in one view u. As long as the leader of the next view
   is not one of them their votes are lost and their timers fire again, all together (the synchronised regime whose
   arithmetic is Sync.v); the first view led by a member of Q commits (LiveElect). By round robin (Leader.v) such a view
   is among the next n. *)
From Coq Require Import Lia.
From LH Require Import Prims Quorum QuorumFacts Leader Contexts Msg Term TermFacts AbsSafety Own Accept World Live LiveWorld Elect LiveElect.
Open Scope N_scope.

Section LR.
Variable H : N.
Variable cm : committee.
Hypothesis Hw : total cm < W64.
Variable honest : N -> bool.
Variable cfg : N -> ncfg.
Hypothesis cfg_me : forall i, c_me (cfg i) = i.
Variable st_wm : N -> option hv.
Variable st_shut : N -> bool.
Variable st_fresh : N -> N.
Variable st_lead : N -> bool.

Local Notation nstate := (World.nstate H cm cfg st_wm st_shut st_fresh st_lead).
Local Notation wrun := (World.wrun H cm honest cfg st_wm st_shut st_fresh st_lead).
Local Notation good := (World.good cm honest).
Local Notation node_inv := (World.node_inv H cm Hw honest cfg cfg_me st_wm st_shut st_fresh st_lead).

Variable Q : list N.
Hypothesis Qnd : NoDup Q.
Hypothesis Qgood : forall i, In i Q -> good i.
Hypothesis Qquorum : isQ_ids cm Q = true.
Hypothesis Qinst : forall i j, In i Q -> In j Q -> c_inst (cfg i) = c_inst (cfg j).
Hypothesis Qthree : forall i l, In i Q -> exists j, In j Q /\ j <> i /\ j <> l.

(* the members of Q are in view u, unprepared, and none of them holds a vote for a view above u *)
Definition idle (u : N) (run : list (N * tev)) : Prop :=
  forall i, In i Q -> tc_v (nstate i run) = u /\ t_prepared (tc_t (nstate i run)) = None /\
                      forall w, u < w -> votes_of (tc_t (nstate i run)) w = [].

Lemma idle_after_timeouts u run : wrun run -> u + 1 < W64 -> idle u run -> ~ In (leaderOf cm (u + 1)) Q ->
  wrun (run ++ timeouts H u Q) /\ idle (u + 1) (run ++ timeouts H u Q).
Proof.
  intros Hr Hu Hi Hnl.
  destruct (fire_all H cm Hw honest cfg cfg_me st_wm st_shut st_fresh st_lead u Q run Hr Qnd Qgood) as (R1 & _ & R3 & _).
  split; [exact R1|]. intros i Hq. rewrite (R3 i Hq).
  destruct (Hi i Hq) as (Hv & Hp & Hvotes). destruct (node_inv run i Hr (Qgood i Hq)) as (TI & SI & Hh & Hcm & _).
  set (x := nstate i run) in *.
  assert (Hl : leaderOf (t_cm (tc_t x)) (tc_v x + 1) <> c_me (cfg i)).
  { rewrite Hcm, Hv, cfg_me. intro E0. apply Hnl. rewrite E0. exact Hq. }
  assert (Hs : tc_v x + 1 < W64) by (rewrite Hv; exact Hu).
  destruct (timeout_follower (cfg i) None false x SI TI Hs Hl) as (A1 & A2 & _). cbn zeta in *.
  rewrite Hh, Hv in A1, A2. rewrite A1, A2. split; [reflexivity|]. split; [exact Hp|].
  intros w Hlt. apply Hvotes. lia.
Qed.

Lemma fresh_here u run : wrun run -> u + 1 < W64 -> idle u run -> In (leaderOf cm (u + 1)) Q ->
  exists ext, wrun (run ++ ext) /\ (forall g, In g ext -> In (fst g) Q) /\
    forall i, In i Q -> t_committed (tc_t (nstate i (run ++ ext))) = true.
Proof.
  intros Hr Hu Hi HL.
  refine (synchronised_view_change_commits_fresh H cm Hw honest cfg cfg_me st_wm st_shut st_fresh st_lead Q u Hu Qnd Qgood Qquorum HL _ _ run Hr _ _).
  - intros i Hq. apply Qinst; assumption.
  - intros i Hq. apply Qthree. exact Hq.
  - intros i Hq. destruct (Hi i Hq) as (A & B & _). split; assumption.
  - destruct (Hi _ HL) as (_ & _ & C0). apply C0. lia.
Qed.

Theorem lockstep_timeouts_reach_a_commit : forall K u run, wrun run -> u + N.of_nat K + 1 < W64 -> idle u run ->
  In (leaderOf cm (u + N.of_nat K + 1)) Q ->
  exists ext, wrun (run ++ ext) /\ (forall g, In g ext -> In (fst g) Q) /\
    forall i, In i Q -> t_committed (tc_t (nstate i (run ++ ext))) = true.
Proof.
  induction K as [|K IH]; intros u run Hr Hu Hi HL.
  - replace (u + N.of_nat 0 + 1) with (u + 1) in * by lia. apply (fresh_here u run); assumption.
  - destruct (in_dec N.eq_dec (leaderOf cm (u + 1)) Q) as [Hin|Hnin].
    + apply (fresh_here u run); try assumption. lia.
    + destruct (idle_after_timeouts u run Hr ltac:(lia) Hi Hnin) as [R1 I1].
      destruct (IH (u + 1) (run ++ timeouts H u Q) R1) as (ext & A & B & C0).
      * lia.
      * exact I1.
      * replace (u + 1 + N.of_nat K + 1) with (u + N.of_nat (S K) + 1) by lia. exact HL.
      * exists (timeouts H u Q ++ ext). rewrite app_assoc. split; [exact A|]. split; [|exact C0].
        intros g Hg. apply in_app_or in Hg. destruct Hg as [Hg|Hg]; [|apply B; exact Hg].
        unfold timeouts in Hg. apply in_map_iff in Hg. destruct Hg as (i & <- & Hq). exact Hq.
Qed.

(* ... and a member of Q leads one of the next n views (round robin over the ordered committee, Leader.v) *)
Lemma a_member_leads_soon u : Q <> [] -> exists K, (K < length cm)%nat /\ In (leaderOf cm (u + N.of_nat K + 1)) Q.
Proof.
  intro Hne. destruct Q as [|q Q'] eqn:EQ; [congruence|].
  assert (Hq : In q Q) by (rewrite EQ; left; reflexivity). rewrite <- EQ in *.
  destruct (Qgood q Hq) as [_ Hm]. unfold isMember in Hm. apply memN_In in Hm.
  destruct (In_nth_error _ _ Hm) as (k & Hk).
  assert (Hcm : cm <> []) by (intro E0; rewrite E0 in Hm; destruct Hm).
  assert (Hkl : (k < length cm)%nat).
  { assert (nth_error (ids cm) k <> None) by congruence. apply nth_error_Some in H0. unfold ids in H0. rewrite map_length in H0. exact H0. }
  destruct (round_robin_exactly_once cm (u + 1) Hcm (length cm) k eq_refl Hkl) as (j & Hj & Ej & _).
  exists j. split; [exact Hj|]. unfold leaderOf, leader.
  replace (u + N.of_nat j + 1) with (u + 1 + N.of_nat j) by lia. rewrite Ej, Hk. exact Hq.
Qed.

Theorem lockstep_timeouts_commit_within_n_views u run : wrun run -> Q <> [] -> u + N.of_nat (length cm) + 1 < W64 -> idle u run ->
  exists ext, wrun (run ++ ext) /\ (forall g, In g ext -> In (fst g) Q) /\
    forall i, In i Q -> t_committed (tc_t (nstate i (run ++ ext))) = true.
Proof.
  intros Hr Hne Hu Hi. destruct (a_member_leads_soon u Hne) as (K & HK & HL).
  apply (lockstep_timeouts_reach_a_commit K u run); try assumption. lia.
Qed.
End LR.
