(* Loops.v — interleaving model of the two goroutines of the runtime (mainloop.go, workerloop.go): the main loop with
   its context bookkeeping, the three channels to the worker (messages: buffered; node-sync and election: one slot
   each, overwritten by the newest), the worker's select, SPI calls that block on their context, the Run context and
   shutdown. The worker's protocol logic is abstracted to what matters for C14-C16: its (height, view), whether it is
   inside an SPI call and with which context key. A run is any sequence of labels; [lstep] returns None when the
   label is not enabled in that state. *)
From LH Require Import Prims Contexts.
Open Scope N_scope.

Inductive mainpc := MSelect | MFwdSync (hb : N) | MFwdTrig (h v : N) | MExited.
Inductive workerpc := WSelect | WBusy (k : hv) | WExited.

Definition MSG_CAP : nat := 1000.

Record lstate := {
  l_cancelled : bool;                 (* the context given to Run *)
  l_main : mainpc;
  l_worker : workerpc;
  l_wh : N; l_wv : N;                 (* State: written by the worker only *)
  l_armed : option (N * N);           (* the election timer is armed for this pair (None: stopped / never armed) *)
  l_reg : registry;
  l_maxsync : option N;               (* main loop: maxBlockHeightBySync *)
  l_upd : option N;                   (* workerUpdateStateChannel, capacity 1: height of the queued sync block *)
  l_elect : option (N * N);           (* worker electionChannel, capacity 1 *)
  l_msgs : nat;                       (* worker MessagesChannel: number of queued messages *)
  l_rounds : list N                   (* heights of the rounds the worker started, newest first (ghost) *)
}.

Definition l_init : lstate :=
  {| l_cancelled := false; l_main := MSelect; l_worker := WSelect; l_wh := 0; l_wv := 0; l_armed := None;
     l_reg := reg_init; l_maxsync := None; l_upd := None; l_elect := None; l_msgs := 0; l_rounds := [] |}.

(* what processing a message can do to the worker (the protocol decides which; the theorems hold for all) *)
Inductive weffect :=
| ENothing
| EView (v : N)                 (* a NEW_VIEW moved the node to view v (>= current): the timer is re-armed *)
| ECommitNext (block : option hv) (* the height was committed, the next round starts (its leader may block in RequestNewBlockProposal) *)
| EBlockOn (k : hv).            (* an SPI call (validate / propose / commit callback) blocks on the context of key k *)

Inductive label :=
| LCancel                               (* the application cancels the Run context *)
| LApiSync (hb : N)                     (* the main loop receives UpdateState(block of height hb) *)
| LApiMsg                               (* the main loop receives a consensus message *)
| LTimerTrig                            (* the armed timer hands its trigger to the main loop *)
| LTimerStale (h v : N)                 (* a superseded timer instance, cancelled between the two selects of triggerElections,
                                           still hands over its trigger for an older pair (Timer.v, timer_select_race) *)
| LMainFwd                              (* the main loop completes a pending forward to the worker *)
| LMainFwdAbort                         (* ... or gives it up because the Run context is done *)
| LMainExit
| LWorkerExit
| LWorkerMsg (e : weffect)
| LWorkerElect (block : option hv)      (* the worker takes the queued trigger; if elected leader it may block in RequestNewBlockProposal *)
| LWorkerSync (block : option hv)       (* the worker takes the queued sync *)
| LSpiReturn (e : weffect)              (* the SPI call returns by itself; the handler that made it goes on with effect e *)
| LSpiReleased (e : weffect).           (* the SPI call returns because its context is done; likewise *)

Definition set_main p s := {| l_cancelled := l_cancelled s; l_main := p; l_worker := l_worker s; l_wh := l_wh s; l_wv := l_wv s; l_armed := l_armed s;
  l_reg := l_reg s; l_maxsync := l_maxsync s; l_upd := l_upd s; l_elect := l_elect s; l_msgs := l_msgs s; l_rounds := l_rounds s |}.
Definition set_reg r s := {| l_cancelled := l_cancelled s; l_main := l_main s; l_worker := l_worker s; l_wh := l_wh s; l_wv := l_wv s; l_armed := l_armed s;
  l_reg := r; l_maxsync := l_maxsync s; l_upd := l_upd s; l_elect := l_elect s; l_msgs := l_msgs s; l_rounds := l_rounds s |}.
Definition set_worker p s := {| l_cancelled := l_cancelled s; l_main := l_main s; l_worker := p; l_wh := l_wh s; l_wv := l_wv s; l_armed := l_armed s;
  l_reg := l_reg s; l_maxsync := l_maxsync s; l_upd := l_upd s; l_elect := l_elect s; l_msgs := l_msgs s; l_rounds := l_rounds s |}.

(* every main-loop iteration starts with GcOldContexts *)
Definition gc (s : lstate) : lstate := set_reg (reg_cancel_older (l_wh s, 0) (l_reg s)) s.

(* the worker enters an SPI call with the context of key k: Contexts.For(k) must succeed *)
Definition enter_spi (k : hv) (s : lstate) : option lstate :=
  let fr := reg_for k (l_reg s) in
  if fst fr then Some (set_worker (WBusy k) (set_reg (snd fr) s)) else None.

Definition maybe_block (b : option hv) (s : lstate) : option lstate :=
  match b with None => Some s | Some k => enter_spi k s end.

(* onNewConsensusRound(h): For((h,0)) and SetHeightAndResetView must succeed *)
Definition new_round (h : N) (s : lstate) : lstate :=
  let fr := reg_for (h, 0) (l_reg s) in
  if negb (fst fr) then s else
  if N.leb h (l_wh s) then set_reg (snd fr) s else
  {| l_cancelled := l_cancelled s; l_main := l_main s; l_worker := l_worker s; l_wh := h; l_wv := 0; l_armed := Some (h, 0);
     l_reg := snd fr; l_maxsync := l_maxsync s; l_upd := l_upd s; l_elect := l_elect s; l_msgs := l_msgs s; l_rounds := h :: l_rounds s |}.

(* what a handler does to the worker's state (s has l_worker = WSelect) *)
Definition apply_effect (e : weffect) (s : lstate) : option lstate :=
  match e with
  | ENothing => Some s
  | EView v => if N.ltb v (l_wv s) then None else
      Some {| l_cancelled := l_cancelled s; l_main := l_main s; l_worker := WSelect; l_wh := l_wh s; l_wv := v; l_armed := Some (l_wh s, v);
              l_reg := l_reg s; l_maxsync := l_maxsync s; l_upd := l_upd s; l_elect := l_elect s; l_msgs := l_msgs s; l_rounds := l_rounds s |}
  | ECommitNext b =>
      let s' := new_round (l_wh s + 1) s in
      match b with None => Some s' | Some k => if N.eqb (fst k) (l_wh s') then enter_spi k s' else None end
  | EBlockOn k => if N.eqb (fst k) (l_wh s) then enter_spi k s else None     (* contexts are of the current height *)
  end.

Definition lstep (s : lstate) (l : label) : option lstate :=
  match l with
  | LCancel => Some {| l_cancelled := true; l_main := l_main s; l_worker := l_worker s; l_wh := l_wh s; l_wv := l_wv s; l_armed := l_armed s;
                       l_reg := l_reg s; l_maxsync := l_maxsync s; l_upd := l_upd s; l_elect := l_elect s; l_msgs := l_msgs s; l_rounds := l_rounds s |}
  | LApiSync hb =>
      match l_main s with
      | MSelect =>
        let s := gc s in
        if match l_maxsync s with Some mx => N.leb hb mx | None => false end then Some s else
        let r1 := reg_cancel_older (hb + 1, 0) (l_reg s) in
        let fr := reg_for (hb + 1, 0) r1 in
        if fst fr then Some (set_main (MFwdSync hb) (set_reg (snd fr) s)) else Some (set_reg r1 s)
      | _ => None
      end
  | LApiMsg =>
      match l_main s with
      | MSelect => let s := gc s in
          Some {| l_cancelled := l_cancelled s; l_main := MSelect; l_worker := l_worker s; l_wh := l_wh s; l_wv := l_wv s; l_armed := l_armed s;
                  l_reg := l_reg s; l_maxsync := l_maxsync s; l_upd := l_upd s; l_elect := l_elect s;
                  l_msgs := if Nat.ltb (l_msgs s) MSG_CAP then S (l_msgs s) else l_msgs s; l_rounds := l_rounds s |}
      | _ => None
      end
  | LTimerTrig =>
      match l_main s, l_armed s with
      | MSelect, Some (h, v) =>
        let s := gc s in
        let r1 := reg_cancel_older (h, v + 1) (l_reg s) in
        let fr := reg_for (h, v + 1) r1 in
        (* the timer instance has fired and handed over its trigger: it is not armed any more *)
        let s' := {| l_cancelled := l_cancelled s; l_main := l_main s; l_worker := l_worker s; l_wh := l_wh s; l_wv := l_wv s; l_armed := None;
                     l_reg := l_reg s; l_maxsync := l_maxsync s; l_upd := l_upd s; l_elect := l_elect s; l_msgs := l_msgs s; l_rounds := l_rounds s |} in
        if fst fr then Some (set_main (MFwdTrig h v) (set_reg (snd fr) s')) else Some (set_reg r1 s')
      | _, _ => None
      end
  | LTimerStale h v =>
      match l_main s with
      | MSelect =>
        if negb (hv_lt (h, v) (l_wh s, l_wv s)) then None else
        let s := gc s in
        let r1 := reg_cancel_older (h, v + 1) (l_reg s) in
        let fr := reg_for (h, v + 1) r1 in
        if fst fr then Some (set_main (MFwdTrig h v) (set_reg (snd fr) s)) else Some (set_reg r1 s)
      | _ => None
      end
  | LMainFwd =>
      match l_main s with
      | MFwdSync hb => Some {| l_cancelled := l_cancelled s; l_main := MSelect; l_worker := l_worker s; l_wh := l_wh s; l_wv := l_wv s; l_armed := l_armed s;
                               l_reg := l_reg s; l_maxsync := Some hb; l_upd := Some hb; l_elect := l_elect s; l_msgs := l_msgs s; l_rounds := l_rounds s |}
      | MFwdTrig h v => Some {| l_cancelled := l_cancelled s; l_main := MSelect; l_worker := l_worker s; l_wh := l_wh s; l_wv := l_wv s; l_armed := l_armed s;
                               l_reg := l_reg s; l_maxsync := l_maxsync s; l_upd := l_upd s; l_elect := Some (h, v); l_msgs := l_msgs s; l_rounds := l_rounds s |}
      | _ => None
      end
  | LMainFwdAbort =>
      if l_cancelled s then match l_main s with MFwdSync _ | MFwdTrig _ _ => Some (set_main MSelect s) | _ => None end else None
  | LMainExit =>
      if l_cancelled s then match l_main s with MSelect => Some (set_main MExited (set_reg (reg_shutdown (l_reg s)) s)) | _ => None end else None
  | LWorkerExit =>
      if l_cancelled s then match l_worker s with
        | WSelect => Some {| l_cancelled := true; l_main := l_main s; l_worker := WExited; l_wh := l_wh s; l_wv := l_wv s; l_armed := None;
                             l_reg := l_reg s; l_maxsync := l_maxsync s; l_upd := l_upd s; l_elect := l_elect s; l_msgs := l_msgs s; l_rounds := l_rounds s |}
        | _ => None end
      else None
  | LWorkerMsg e =>
      match l_worker s, l_msgs s with
      | WSelect, S k =>
        let s := {| l_cancelled := l_cancelled s; l_main := l_main s; l_worker := WSelect; l_wh := l_wh s; l_wv := l_wv s; l_armed := l_armed s;
                    l_reg := l_reg s; l_maxsync := l_maxsync s; l_upd := l_upd s; l_elect := l_elect s; l_msgs := k; l_rounds := l_rounds s |} in
        apply_effect e s
      | _, _ => None
      end
  | LWorkerElect b =>
      match l_worker s, l_elect s with
      | WSelect, Some (h, v) =>
        let s := {| l_cancelled := l_cancelled s; l_main := l_main s; l_worker := WSelect; l_wh := l_wh s; l_wv := l_wv s; l_armed := l_armed s;
                    l_reg := l_reg s; l_maxsync := l_maxsync s; l_upd := l_upd s; l_elect := None; l_msgs := l_msgs s; l_rounds := l_rounds s |} in
        if N.eqb h (l_wh s) && N.eqb v (l_wv s) then
          let s' := {| l_cancelled := l_cancelled s; l_main := l_main s; l_worker := WSelect; l_wh := l_wh s; l_wv := v + 1; l_armed := Some (h, v + 1);
                       l_reg := l_reg s; l_maxsync := l_maxsync s; l_upd := l_upd s; l_elect := None; l_msgs := l_msgs s; l_rounds := l_rounds s |} in
          match b with None => Some s' | Some k => if N.eqb (fst k) h then enter_spi k s' else None end
        else match b with None => Some s | Some _ => None end     (* stale trigger: ignored *)
      | _, _ => None
      end
  | LWorkerSync b =>
      match l_worker s, l_upd s with
      | WSelect, Some hb =>
        let s := {| l_cancelled := l_cancelled s; l_main := l_main s; l_worker := WSelect; l_wh := l_wh s; l_wv := l_wv s; l_armed := l_armed s;
                    l_reg := l_reg s; l_maxsync := l_maxsync s; l_upd := None; l_elect := l_elect s; l_msgs := l_msgs s; l_rounds := l_rounds s |} in
        if N.leb (l_wh s) hb then
          let s' := new_round (hb + 1) s in
          match b with None => Some s' | Some k => if N.eqb (fst k) (l_wh s') then enter_spi k s' else None end
        else match b with None => Some s | Some _ => None end     (* stale sync: ignored *)
      | _, _ => None
      end
  | LSpiReturn e => match l_worker s with WBusy _ => apply_effect e (set_worker WSelect s) | _ => None end
  | LSpiReleased e => match l_worker s with WBusy k => if ctx_done (l_reg s) k then apply_effect e (set_worker WSelect s) else None | _ => None end
  end.

Fixpoint lrun (s : lstate) (ls : list label) : option lstate :=
  match ls with [] => Some s | l :: r => match lstep s l with Some s' => lrun s' r | None => None end end.
