(* NodeFacts.v — the node as a whole (Term.step over arbitrary event sequences): heights and views only move
   forward, each height is committed at most once, rounds are reported in increasing order (C13). *)
From Coq Require Import Permutation.
From LH Require Import Prims Quorum QuorumFacts Leader Contexts Msg Term TermFacts.
Open Scope N_scope.

(* ---------- what one term event does to the commit flag, the commit output and the view ---------- *)
Definition commits_of (l : list out) : list block :=
  flat_map (fun o => match o with OCommit b _ _ _ => [b] | _ => [] end) l.
Definition rounds_of (l : list out) : list N :=
  flat_map (fun o => match o with ONewRound h _ _ => [h] | _ => [] end) l.

Definition cneutral (x x' : tc) : Prop :=
  tc_commit x' = tc_commit x /\ t_committed (tc_t x') = t_committed (tc_t x) /\
  commits_of (tc_out x') = commits_of (tc_out x) /\ rounds_of (tc_out x') = rounds_of (tc_out x) /\ tc_v x <= tc_v x'.

(* either nothing about committing changed, or the term committed exactly now: flag false -> true, one OCommit b
   output, tc_commit = Some b, and b is the block of a stored proposal *)
Definition cstep (x x' : tc) : Prop :=
  rounds_of (tc_out x') = rounds_of (tc_out x) /\ tc_v x <= tc_v x' /\
  ((tc_commit x' = tc_commit x /\ t_committed (tc_t x') = t_committed (tc_t x) /\ commits_of (tc_out x') = commits_of (tc_out x))
   \/ (exists b v e, t_committed (tc_t x) = false /\ t_committed (tc_t x') = true /\ tc_commit x' = Some b /\
         commits_of (tc_out x') = b :: commits_of (tc_out x) /\ get_pp (tc_t x') v = Some e /\ pe_blk e = Some b)).

Lemma cneutral_refl x : cneutral x x.
Proof. unfold cneutral. repeat split; auto. lia. Qed.
Lemma cneutral_trans a b d : cneutral a b -> cneutral b d -> cneutral a d.
Proof. unfold cneutral. intros (A1 & A2 & A3 & A4 & A5) (B1 & B2 & B3 & B4 & B5). repeat split; try congruence. lia. Qed.
Lemma cneutral_cstep a b : cneutral a b -> cstep a b.
Proof. intros (A1 & A2 & A3 & A4 & A5). split; [exact A4|]. split; [exact A5|]. left. auto. Qed.
Lemma cneutral_then_cstep a b d : cneutral a b -> cstep b d -> cstep a d.
Proof.
  intros (A1 & A2 & A3 & A4 & A5) (B1 & B2 & B3). split; [congruence|]. split; [lia|].
  destruct B3 as [(C1 & C2 & C3)|(bb & v & e & C1 & C2 & C3 & C4 & C5 & C6)].
  - left. repeat split; congruence.
  - right. exists bb, v, e. repeat split; try congruence.
Qed.

Section CommitDiscipline.
Variable c : ncfg.
Variable wm : option hv.
Variable shut : bool.

Ltac neutral_tac :=
  unfold cneutral;
  repeat match goal with
  | |- context [if ?b then _ else _] => destruct b
  | |- context [match ?b with Some _ => _ | None => _ end] => destruct b
  | |- context [match ?b with (_, _) => _ end] => destruct b
  | |- context [match ?b with [] => _ | _ :: _ => _ end] => destruct b
  end;
  cbn [tc_commit tc_t tc_out tc_v tc_emit tc_set_t tc_set_v tc_bump send_all commits_of rounds_of flat_map app
       t_committed store_p store_c set_prepared set_latest];
  repeat split; try reflexivity; try lia.

Lemma store_pp_committed v e t : t_committed (store_pp v e t) = t_committed t.
Proof. unfold store_pp. destruct (get_pp t v); reflexivity. Qed.
Lemma store_vc_committed v vt b t : t_committed (store_vc v vt b t) = t_committed t.
Proof. unfold store_vc. destruct (memN _ _); reflexivity. Qed.

Lemma check_committed_cstep x v h : cstep x (check_committed c wm shut x v h).
Proof.
  unfold check_committed. destruct (t_committed (tc_t x)) eqn:Ec; [apply cneutral_cstep, cneutral_refl|].
  destruct (is_preprepared (tc_t x) v h) as [e|] eqn:Ep; [|apply cneutral_cstep, cneutral_refl].
  destruct (is_preprepared_some _ _ _ _ Ep) as (G1 & G2 & b & Gb).
  destruct (negb _); [apply cneutral_cstep, cneutral_refl|]. destruct (negb _); [apply cneutral_cstep, cneutral_refl|].
  rewrite Gb. split; [|split].
  - destruct (memN _ _); reflexivity.
  - destruct (memN _ _); cbn; lia.
  - right. exists b, v, e. destruct (memN _ _); cbn [tc_committed tc_emit tc_set_t send_all tc_t tc_commit tc_out set_committed t_committed commits_of flat_map app];
      repeat split; auto.
Qed.

Lemma check_prepared_cstep x v h : cstep x (check_prepared c wm shut x v h).
Proof.
  unfold check_prepared.
  destruct (match t_prepared (tc_t x) with Some pv => pv =? v | None => false end); [apply cneutral_cstep, cneutral_refl|].
  destruct (is_preprepared (tc_t x) v h); [|apply cneutral_cstep, cneutral_refl].
  destruct (isQ_ids _ _); [|apply cneutral_cstep, cneutral_refl].
  eapply cneutral_then_cstep; [|apply check_committed_cstep]. unfold send_all. neutral_tac.
Qed.

Lemma process_pp_cstep x r s b : cstep x (process_pp c wm shut x r s b).
Proof.
  unfold process_pp. destruct (negb _); [apply cneutral_cstep, cneutral_refl|].
  eapply cneutral_then_cstep; [|apply check_prepared_cstep]. unfold send_all.
  unfold cneutral. cbn [tc_commit tc_t tc_out tc_v tc_emit tc_set_t store_p t_committed]. rewrite store_pp_committed.
  destruct (has_p _ _ _ _), (has_pp _ _); cbn [tc_commit tc_t tc_out tc_v tc_emit commits_of rounds_of flat_map app]; repeat split; try reflexivity; lia.
Qed.

Lemma on_elected_neutral x v vs : cneutral x (on_elected c wm shut x v vs).
Proof.
  unfold on_elected, init_view. cbn [tc_set_t tc_v].
  destruct (N.ltb_spec v (tc_v x)); [neutral_tac|].
  destruct (latest_block vs) as [[b h]|]; [|destruct (negb _)];
    unfold send_all, cneutral; cbn [tc_commit tc_t tc_out tc_v tc_emit tc_set_t tc_set_v tc_bump]; rewrite ?store_pp_committed;
    repeat match goal with |- context [if ?q then _ else _] => destruct q end;
    cbn [tc_commit tc_t tc_out tc_v tc_emit tc_set_t tc_set_v tc_bump commits_of rounds_of flat_map app set_latest t_committed]; repeat split; try reflexivity; try lia.
Qed.
Lemma check_elected_neutral x v : cneutral x (check_elected c wm shut x v).
Proof.
  unfold check_elected. destruct (N.leb _ _); [apply cneutral_refl|]. destruct (votes_of _ _); [apply cneutral_refl|].
  destruct (isQ_ids _ _); [apply on_elected_neutral|apply cneutral_refl].
Qed.

Theorem thandle_cstep x m : cstep x (thandle c wm shut x m).
Proof.
  destruct m; cbn [thandle].
  - unfold handle_pp. repeat (match goal with |- cstep _ (if ?b then _ else _) => destruct b; [apply cneutral_cstep, cneutral_refl|] end). apply process_pp_cstep.
  - unfold handle_p. repeat (match goal with |- cstep _ (if ?b then _ else _) => destruct b; [apply cneutral_cstep, cneutral_refl|] end).
    eapply cneutral_then_cstep; [|apply check_prepared_cstep]. neutral_tac.
  - unfold handle_c. repeat (match goal with |- cstep _ (if ?b then _ else _) => destruct b; [apply cneutral_cstep, cneutral_refl|] end).
    eapply cneutral_then_cstep; [|apply check_committed_cstep]. neutral_tac.
  - apply cneutral_cstep. unfold handle_vc. repeat (match goal with |- cneutral _ (if ?b then _ else _) => destruct b; [apply cneutral_refl|] end).
    assert (A : cneutral x (check_elected c wm shut
      (tc_set_t (store_vc (v_view v) v b (tc_t x))
         (if has_vc (tc_t x) (v_view v) (s_id (v_snd v)) then x
          else tc_emit (OStore T_VIEW_CHANGE (t_h (tc_t x)) (v_view v) 0 (s_id (v_snd v))) x)) (v_view v))).
    { eapply cneutral_trans; [|apply check_elected_neutral]. unfold cneutral. cbn [tc_commit tc_t tc_out tc_v tc_set_t]. rewrite store_vc_committed.
      destruct (has_vc _ _ _); cbn [tc_commit tc_t tc_out tc_v tc_emit commits_of rounds_of flat_map app]; repeat split; try reflexivity; lia. }
    destruct b, (v_proof v); try apply cneutral_refl; try exact A. destruct (commitsTo _ _ _); [exact A|apply cneutral_refl].
  - unfold handle_nv. repeat (match goal with |- cstep _ (if ?b then _ else _) => destruct b; [apply cneutral_cstep, cneutral_refl|] end).
    assert (C : cstep x (if negb (validate_pp c (tc_t x) pp pps) then x else
                    match init_view nview (tc_set_t (set_latest nview (tc_t x)) x) with
                    | None => tc_set_t (set_latest nview (tc_t x)) x
                    | Some x1 => process_pp c wm shut x1 pp pps b end)).
    { destruct (negb _); [apply cneutral_cstep, cneutral_refl|]. unfold init_view. cbn [tc_set_t tc_v].
      destruct (N.ltb_spec nview (tc_v x)); [apply cneutral_cstep; neutral_tac|].
      eapply cneutral_then_cstep; [|apply process_pp_cstep]. neutral_tac. }
    destruct (latest_vote votes) as [lv|].
    + destruct (v_proof lv); [|apply cneutral_cstep, cneutral_refl].
      repeat (match goal with |- cstep _ (if ?b then _ else _) => destruct b; [apply cneutral_cstep, cneutral_refl|] end). exact C.
    + repeat (match goal with |- cstep _ (if ?b then _ else _) => destruct b; [apply cneutral_cstep, cneutral_refl|] end). exact C.
Qed.

Theorem move_neutral x h v : cneutral x (move_to_next_leader c wm shut x h v).
Proof.
  unfold move_to_next_leader, init_view. destruct (negb _); [apply cneutral_refl|].
  destruct (N.ltb_spec (wrap64 (v + 1)) (tc_v x)); [apply cneutral_refl|]. destruct (snd _); [neutral_tac|].
  cbn [tc_v tc_emit tc_set_v]. destruct (N.eqb _ (c_me c)); [|neutral_tac].
  eapply cneutral_trans; [|apply check_elected_neutral]. unfold cneutral. cbn [tc_commit tc_t tc_out tc_v tc_set_t]. rewrite store_vc_committed.
  destruct (has_vc _ _ _); cbn [tc_commit tc_t tc_out tc_v tc_emit tc_set_v commits_of rounds_of flat_map app]; repeat split; try reflexivity; lia.
Qed.

Theorem start_term_neutral x lead : cneutral x (start_term c wm shut x lead).
Proof.
  unfold start_term, init_view. destruct (N.ltb_spec 0 (tc_v x)); [apply cneutral_refl|].
  unfold cneutral. repeat match goal with |- context [if ?q then _ else _] => destruct q end;
    cbn [tc_commit tc_t tc_out tc_v tc_emit tc_set_t tc_set_v tc_bump commits_of rounds_of flat_map app]; rewrite ?store_pp_committed; repeat split; try reflexivity; try lia.
Qed.
End CommitDiscipline.

(* ---------- the node ---------- *)
Definition cfg_ok (c : ncfg) : Prop := forall h, total (committee_at c h) < W64.

(* outputs are newest first: a new-round report is for a height above every earlier commit and report;
   a commit is for a height above every earlier commit and not below any earlier report *)
Fixpoint wf_out (l : list out) : Prop :=
  match l with
  | [] => True
  | o :: r =>
     match o with
     | ONewRound h _ _ => Forall (fun b => b_height b < h) (commits_of r) /\ Forall (fun h' => h' < h) (rounds_of r)
     | OCommit b _ _ _ => Forall (fun b' => b_height b' < b_height b) (commits_of r) /\ Forall (fun h' => h' <= b_height b) (rounds_of r)
     | _ => True
     end /\ wf_out r
  end.

Record NInv (c : ncfg) (n : node) : Prop := {
  ni_term : forall t, n_term n = Some t -> t_h t = n_h n /\ SInv c (tc_of n t);
  ni_wf : wf_out (n_out n);
  ni_rounds : Forall (fun h => h <= n_h n) (rounds_of (n_out n));
  ni_commits : Forall (fun b => b_height b <= n_h n) (commits_of (n_out n));
  ni_committed : forall b, In b (commits_of (n_out n)) -> b_height b = n_h n -> exists t, n_term n = Some t /\ t_committed t = true
}.

Definition hv_le (n n' : node) : Prop := n_h n < n_h n' \/ (n_h n = n_h n' /\ n_v n <= n_v n').
Lemma hv_le_refl n : hv_le n n. Proof. unfold hv_le. lia. Qed.
Lemma hv_le_trans a b d : hv_le a b -> hv_le b d -> hv_le a d. Proof. unfold hv_le. lia. Qed.

Lemma commits_of_app a b : commits_of (a ++ b) = commits_of a ++ commits_of b.
Proof. unfold commits_of. apply flat_map_app. Qed.
Lemma rounds_of_app a b : rounds_of (a ++ b) = rounds_of a ++ rounds_of b.
Proof. unfold rounds_of. apply flat_map_app. Qed.

Lemma wf_out_app_neutral nw old : rounds_of nw = [] -> commits_of nw = [] -> wf_out old -> wf_out (nw ++ old).
Proof.
  induction nw as [|o r IH]; intros Hr Hc W; [exact W|]. cbn [app wf_out].
  destruct o; cbn [rounds_of commits_of flat_map app] in Hr, Hc; try discriminate; (split; [exact I|apply IH; assumption]).
Qed.

Lemma wf_out_app_commit nw old b : rounds_of nw = [] -> commits_of nw = [b] -> wf_out old ->
  Forall (fun b' => b_height b' < b_height b) (commits_of old) -> Forall (fun h' => h' <= b_height b) (rounds_of old) -> wf_out (nw ++ old).
Proof.
  induction nw as [|o r IH]; intros Hr Hc W Fc Fr; [discriminate|]. cbn [app wf_out].
  destruct o; cbn [rounds_of commits_of flat_map app] in Hr, Hc; try discriminate; try (split; [exact I|apply IH; assumption]).
  inversion Hc; subst. split; [|apply wf_out_app_neutral; assumption].
  fold (commits_of r) in *. fold (rounds_of r) in *. rewrite commits_of_app, rounds_of_app, H1, Hr. cbn [app]. split; assumption.
Qed.

Lemma SInv_ext c x y : tc_t y = tc_t x -> tc_v y = tc_v x -> SInv c x -> SInv c y.
Proof. intros Et Ev [H1 H2 H3 H4 H5 H6 H7]. constructor; rewrite ?Et, ?Ev; auto. Qed.

Lemma NInv_cache c n cch lat : NInv c n -> NInv c (set_cacheM cch lat n).
Proof. intros [H1 H2 H3 H4 H5]. constructor; auto. Qed.
Lemma NInv_cancel_older c n k : NInv c n -> NInv c (cancel_older k n).
Proof. intros [H1 H2 H3 H4 H5]. constructor; auto. Qed.
Lemma NInv_maxsync c n x : NInv c n -> NInv c (set_maxsync x n).
Proof. intros [H1 H2 H3 H4 H5]. constructor; auto. Qed.

(* writing back the result of a term event *)
Lemma write_back_inv c n t x' : NInv c n -> n_term n = Some t -> cstep (tc_of n t) x' -> SInv c x' -> t_h (tc_t x') = t_h t ->
  NInv c (write_back x' n) /\ hv_le n (write_back x' n) /\
  (forall b, tc_commit x' = Some b -> b_height b = n_h n).
Proof.
  intros [H1 H2 H3 H4 H5] Et (CR & CV & CC) SI Eh. destruct (H1 t Et) as [Eth _].
  cbn [tc_of tc_out tc_commit tc_t tc_v rounds_of commits_of flat_map] in *.
  assert (Hhv : hv_le n (write_back x' n)) by (right; cbn [write_back n_h n_v]; split; [reflexivity|exact CV]).
  destruct CC as [(C1 & C2 & C3)|(b & v & e & C1 & C2 & C3 & C4 & C5 & C6)].
  - split; [|split; [exact Hhv|intros b Hb; congruence]].
    constructor; cbn [write_back n_term n_h n_out n_v n_fresh]; auto.
    + intros t' Et'. inversion Et'; subst. split; [congruence|]. apply (SInv_ext c x'); [reflexivity|reflexivity|exact SI].
    + apply wf_out_app_neutral; assumption.
    + rewrite rounds_of_app, CR. exact H3.
    + rewrite commits_of_app, C3. exact H4.
    + intros b Hb Ehb. rewrite commits_of_app, C3 in Hb. destruct (H5 b Hb Ehb) as [t0 [Et0 Ect0]]. rewrite Et in Et0. inversion Et0; subst.
      exists (tc_t x'). split; [reflexivity|congruence].
  - assert (Hb : b_height b = n_h n).
    { destruct (si_pp _ _ SI v e C5) as [[_ _ _ _ _ _ P7] _]. specialize (P7 b C6). unfold commitsTo in P7.
      rewrite andb_true_iff, N.eqb_eq in P7. destruct P7 as [P7 _]. congruence. }
    assert (Hold : Forall (fun b' => b_height b' < b_height b) (commits_of (n_out n))).
    { rewrite Forall_forall in *. intros b' Hb'. specialize (H4 b' Hb'). cbv beta in H4.
      destruct (N.eq_dec (b_height b') (n_h n)) as [E|E]; [|lia].
      destruct (H5 b' Hb' E) as [t0 [Et0 Ect0]]. rewrite Et in Et0. inversion Et0; subst. congruence. }
    split; [|split; [exact Hhv|intros b0 Hb0; rewrite C3 in Hb0; inversion Hb0; subst; exact Hb]].
    constructor; cbn [write_back n_term n_h n_out n_v n_fresh]; auto.
    + intros t' Et'. inversion Et'; subst. split; [congruence|]. apply (SInv_ext c x'); [reflexivity|reflexivity|exact SI].
    + eapply wf_out_app_commit; eauto. rewrite Hb. exact H3.
    + rewrite rounds_of_app, CR. exact H3.
    + rewrite commits_of_app, C4. cbn [app]. constructor; [lia|exact H4].
    + intros b0 Hb0 Ehb0. exists (tc_t x'). split; [reflexivity|exact C2].
Qed.

Section NodeInduction.
Variable c : ncfg.
Hypothesis Hcfg : cfg_ok c.

Definition next_ok (next : node -> block -> node) : Prop :=
  forall n b, NInv c n -> NInv c (next n b) /\ hv_le n (next n b).

Lemma term_handle_inv next n m : next_ok next -> NInv c n -> msg_height m = n_h n -> msg_sender m <> c_me c ->
  NInv c (term_handle c next n m) /\ hv_le n (term_handle c next n m).
Proof.
  intros Hn I Hh Hs. unfold term_handle. destruct (n_term n) as [t|] eqn:Et; [|split; [exact I|apply hv_le_refl]].
  destruct (ni_term _ _ I t Et) as [Eth SI0].
  set (x' := thandle c (n_wm n) (n_shut n) (tc_of n t) m).
  assert (CS : cstep (tc_of n t) x') by apply thandle_cstep.
  assert (SI : SInv c x') by (apply thandle_sinv; [exact SI0|cbn [tc_of tc_t]; congruence|exact Hs]).
  assert (Eh : t_h (tc_t x') = t_h t) by (destruct (thandle_hc c (n_wm n) (n_shut n) (tc_of n t) m) as [A _]; exact A).
  destruct (write_back_inv c n t x' I Et CS SI Eh) as (I' & L' & Hb).
  unfold finish. destruct (tc_commit x') as [b|]; [|split; assumption].
  destruct (memN _ _); [split; assumption|].
  destruct (Hn (write_back x' n) b I') as [I'' L'']. split; [exact I''|eapply hv_le_trans; eassumption].
Qed.

Lemma filter_handle_inv next n m : next_ok next -> NInv c n ->
  NInv c (filter_handle c next n m) /\ hv_le n (filter_handle c next n m).
Proof.
  intros Hn I. unfold filter_handle.
  destruct (N.eqb_spec (msg_sender m) (c_me c)); [split; [exact I|apply hv_le_refl]|].
  destruct (N.ltb_spec (msg_height m) (n_h n)); [split; [exact I|apply hv_le_refl]|].
  destruct (negb _); [split; [exact I|apply hv_le_refl]|].
  destruct (N.ltb_spec (n_h n) (msg_height m)).
  - unfold push_cache. destruct (N.ltb _ _); [split; [exact I|apply hv_le_refl]|]. split; [apply NInv_cache; exact I|right; cbn; lia].
  - destruct (n_hasterm n); cbn [negb]; [|split; [exact I|apply hv_le_refl]].
    apply term_handle_inv; auto. lia.
Qed.

Lemma drain_inv next h : next_ok next -> forall msgs n, NInv c n ->
  NInv c (drain (filter_handle c next) h msgs n) /\ hv_le n (drain (filter_handle c next) h msgs n).
Proof.
  intros Hn. induction msgs as [|m r IH]; intros n I; cbn [drain]; [split; [exact I|apply hv_le_refl]|].
  destruct (N.eqb (n_h n) h); [|split; [exact I|apply hv_le_refl]].
  destruct (filter_handle_inv next n m Hn I) as [I1 L1]. destruct (IH _ I1) as [I2 L2].
  split; [exact I2|eapply hv_le_trans; eassumption].
Qed.

Lemma NInv_emit_neutral n o : NInv c n -> commits_of [o] = [] -> rounds_of [o] = [] -> NInv c (emit o n).
Proof.
  intros [H1 H2 H3 H4 H5] Hc Hr. constructor; cbn [emit n_term n_h n_out]; auto.
  - change (o :: n_out n) with ([o] ++ n_out n). apply wf_out_app_neutral; assumption.
  - change (o :: n_out n) with ([o] ++ n_out n). rewrite rounds_of_app, Hr. exact H3.
  - change (o :: n_out n) with ([o] ++ n_out n). rewrite commits_of_app, Hc. exact H4.
  - intros b Hb. change (o :: n_out n) with ([o] ++ n_out n) in Hb. rewrite commits_of_app, Hc in Hb. apply H5. exact Hb.
Qed.

Lemma isMember_committee h : isMember (committee_at c h) (c_me c) = true -> total (committee_at c h) < W64.
Proof. intros _. apply Hcfg. Qed.

Theorem new_round_inv fuel : forall n prev lead, NInv c n ->
  NInv c (new_round fuel c n prev lead) /\ hv_le n (new_round fuel c n prev lead).
Proof.
  induction fuel as [|f IH]; intros n prev lead I; cbn [new_round].
  - split; [destruct I as [H1 H2 H3 H4 H5]; constructor; auto|right; cbn; lia].
  - set (h := wrap64 (match prev with Some b => b_height b | None => 0 end + 1)).
    destruct (negb (ctx_for n (h, 0))); [split; [exact I|apply hv_le_refl]|].
    destruct (N.leb_spec h (n_h n)) as [Hle|Hlt]; [split; [exact I|apply hv_le_refl]|].
    set (n0 := match n_term n with Some _ => emit OStop n | None => n end).
    assert (I0 : NInv c n0 /\ n_h n0 = n_h n /\ n_v n0 = n_v n).
    { subst n0. destruct (n_term n); [|auto]. split; [apply NInv_emit_neutral; [exact I|reflexivity|reflexivity]|split; reflexivity]. }
    destruct I0 as (I0 & E0h & E0v).
    set (n1 := install h true None n0).
    assert (I1 : NInv c n1).
    { destruct I0 as [H1 H2 H3 H4 H5]. constructor; cbn [n1 install n_term n_h n_out]; auto.
      - intros t Et. discriminate.
      - eapply Forall_impl; [|exact H3]. cbv beta. intros; lia.
      - eapply Forall_impl; [|exact H4]. cbv beta. intros; lia.
      - intros b Hb Ehb. rewrite Forall_forall in H4. specialize (H4 b Hb). cbv beta in H4. lia. }
    set (cm := committee_at c h).
    set (part := ctx_for n1 (h, MAXVIEW) && isMember cm (c_me c)).
    set (n2 := if part then write_back (start_term c (n_wm n1) (n_shut n1) (tc_of n1 (new_tstate h cm)) lead) n1 else n1).
    assert (I2 : NInv c n2 /\ n_h n2 = h).
    { subst n2. destruct part eqn:Ep; [|split; [exact I1|reflexivity]].
      apply andb_true_iff in Ep. destruct Ep as [_ Em].
      set (x' := start_term c (n_wm n1) (n_shut n1) (tc_of n1 (new_tstate h cm)) lead).
      assert (CN : cneutral (tc_of n1 (new_tstate h cm)) x') by apply start_term_neutral.
      destruct CN as (C1 & C2 & C3 & C4 & C5). cbn [tc_of tc_commit tc_t tc_out tc_v commits_of rounds_of flat_map new_tstate t_committed] in *.
      assert (SI : SInv c x').
      { subst x'. unfold tc_of. cbn [n1 install n_v n_fresh]. apply start_term_sinv; cbn [new_tstate t_cm t_pp t_p t_vc t_prepared]; auto. apply Hcfg. }
      assert (Eh : t_h (tc_t x') = h) by (destruct (start_term_hc c (n_wm n1) (n_shut n1) (tc_of n1 (new_tstate h cm)) lead) as [A _]; exact A).
      split; [|reflexivity]. destruct I1 as [H1 H2 H3 H4 H5]. constructor; cbn [write_back n_term n_h n_out]; auto.
      - intros t Et. inversion Et; subst. split; [exact Eh|]. apply (SInv_ext c x'); [reflexivity|reflexivity|exact SI].
      - apply wf_out_app_neutral; assumption.
      - rewrite rounds_of_app, C4. exact H3.
      - rewrite commits_of_app, C3. exact H4.
      - intros b Hb Ehb. rewrite commits_of_app, C3 in Hb. destruct (H5 b Hb Ehb) as [t0 [Et0 _]]. discriminate. }
    destruct I2 as [I2 E2h].
    set (n3 := emit (ONewRound h prev lead) n2).
    assert (I3 : NInv c n3 /\ n_h n3 = h).
    { split; [|exact E2h]. subst n3.
      assert (Rold : Forall (fun h' => h' < h) (rounds_of (n_out n2)) /\ Forall (fun b => b_height b < h) (commits_of (n_out n2))).
      { subst n2. destruct part.
        - cbn [write_back n_out]. destruct (start_term_neutral c (n_wm n1) (n_shut n1) (tc_of n1 (new_tstate h cm)) lead) as (_ & _ & C3 & C4 & _).
          cbn [tc_of tc_out commits_of rounds_of flat_map] in C3, C4. rewrite rounds_of_app, commits_of_app, C3, C4. cbn [app n1 install n_out].
          destruct I0 as [_ _ H3 H4 _]. split; (eapply Forall_impl; [|eassumption]; cbv beta; intros; lia).
        - cbn [n1 install n_out]. destruct I0 as [_ _ H3 H4 _]. split; (eapply Forall_impl; [|eassumption]; cbv beta; intros; lia). }
      destruct Rold as [Ro Co]. destruct I2 as [H1 H2 H3 H4 H5]. constructor; cbn [emit n_term n_h n_out]; auto.
      - cbn [wf_out]. split; [split; assumption|exact H2].
      - cbn [rounds_of flat_map app]. constructor; [lia|exact H3]. }
    destruct I3 as [I3 E3h].
    set (cch := filter (fun e => negb (fst e <? h)) (n_cache n3)).
    set (n4 := set_cacheM cch (n_latest n3) n3).
    assert (I4 : NInv c n4) by (apply NInv_cache; exact I3).
    assert (Hnext : next_ok (fun n' b => new_round f c n' (Some b) true)) by (intros n' b I'; apply IH; exact I').
    destruct (drain_inv _ h Hnext (lookupM h cch) n4 I4) as [I5 L5].
    split; [apply NInv_cache; exact I5|].
    assert (L04 : hv_le n n4) by (left; cbn [n4 set_cacheM n_h]; rewrite E3h; exact Hlt).
    eapply hv_le_trans; [exact L04|]. destruct L5 as [L5|[L5a L5b]]; [left; cbn; exact L5|right; cbn; auto].
Qed.

Lemma sync_main_inv n prev : NInv c n -> NInv c (fst (sync_main n prev)) /\ hv_le n (fst (sync_main n prev)).
Proof.
  intro I. unfold sync_main. cbn zeta.
  set (hb := match prev with Some b => b_height b | None => 0 end).
  assert (G : NInv c (fst (let n1 := cancel_older (wrap64 (hb + 1), 0) n in
                           if negb (ctx_for n1 (wrap64 (hb + 1), 0)) then (n1, false) else (set_maxsync hb n1, true))) /\
              hv_le n (fst (let n1 := cancel_older (wrap64 (hb + 1), 0) n in
                           if negb (ctx_for n1 (wrap64 (hb + 1), 0)) then (n1, false) else (set_maxsync hb n1, true)))).
  { cbn zeta. set (n1 := cancel_older _ n). assert (I1 : NInv c n1) by (apply NInv_cancel_older; exact I).
    assert (L1 : hv_le n n1) by (right; cbn; lia).
    destruct (negb (ctx_for n1 _)); cbn [fst]; [split; assumption|].
    split; [apply NInv_maxsync; exact I1|]. apply (hv_le_trans _ _ _ L1). right. cbn. lia. }
  destruct (n_maxsync n) as [mx|]; [|exact G].
  destruct (N.leb hb mx); [cbn [fst]; split; [exact I|apply hv_le_refl]|exact G].
Qed.

Lemma sync_worker_inv fuel n prev : NInv c n -> NInv c (sync_worker fuel c n prev) /\ hv_le n (sync_worker fuel c n prev).
Proof.
  intro I. unfold sync_worker. destruct (N.leb _ _); [apply new_round_inv; exact I|split; [exact I|apply hv_le_refl]].
Qed.

Theorem step_inv n e : NInv c n -> NInv c (step c n e) /\ hv_le n (step c n e).
Proof.
  intro I. unfold step.
  assert (Hnext : forall fuel, next_ok (fun n' b => new_round fuel c n' (Some b) true)) by (intros fuel n' b I'; apply new_round_inv; exact I').
  set (ng := cancel_older (n_h n, 0) n).
  assert (Ig : NInv c ng) by (apply NInv_cancel_older; exact I).
  assert (Lg : hv_le n ng) by (right; cbn; lia).
  assert (G : forall n', NInv c n' /\ hv_le ng n' -> NInv c n' /\ hv_le n n') by (intros n' [A B]; split; [exact A|exact (hv_le_trans _ _ _ Lg B)]).
  destruct e as [m|h v|prev| |prev|prev].
  - apply G. apply filter_handle_inv; [apply Hnext|exact Ig].
  - apply G. set (n1 := cancel_older (h, wrap64 (v + 1)) ng).
    assert (I1 : NInv c n1) by (apply NInv_cancel_older; exact Ig).
    assert (L1 : hv_le ng n1) by (right; cbn; lia).
    destruct (negb (ctx_for n1 _)); [split; assumption|]. destruct (negb _); [split; assumption|].
    destruct (n_term n1) as [t|] eqn:Et; [|split; assumption].
    destruct (ni_term _ _ I1 t Et) as [Eth SI0].
    set (x' := move_to_next_leader c (n_wm n1) (n_shut n1) (tc_of n1 t) h v).
    assert (CS : cstep (tc_of n1 t) x') by (apply cneutral_cstep, move_neutral).
    assert (SI : SInv c x') by (apply move_sinv; exact SI0).
    assert (Eh : t_h (tc_t x') = t_h t) by (destruct (move_hc c (n_wm n1) (n_shut n1) (tc_of n1 t) h v) as [A _]; exact A).
    destruct (write_back_inv c n1 t x' I1 Et CS SI Eh) as (I' & L' & _).
    split; [exact I'|exact (hv_le_trans _ _ _ L1 L')].
  - apply G. fold ng. destruct (sync_main_inv ng prev Ig) as [I1 L1]. cbn zeta.
    destruct (snd (sync_main ng prev)); [|split; assumption].
    destruct (sync_worker_inv (fuel_of n) (fst (sync_main ng prev)) prev I1) as [I2 L2].
    split; [exact I2|exact (hv_le_trans _ _ _ L1 L2)].
  - split; [exact Ig|exact Lg].
  - apply G. fold ng. apply sync_main_inv. exact Ig.
  - apply sync_worker_inv. exact I.
Qed.
End NodeInduction.

(* ---------- C13 ---------- *)
Definition nrun (c : ncfg) (evs : list event) : node := fold_left (step c) evs node_init.

Lemma NInv_init c : NInv c node_init.
Proof. constructor; cbn; try constructor; try (intros; discriminate); try (intros; contradiction). Qed.

Theorem nrun_inv c evs : cfg_ok c -> NInv c (nrun c evs).
Proof.
  intro H. unfold nrun. induction evs as [|e evs IH] using rev_ind; [apply NInv_init|].
  rewrite fold_left_app. cbn [fold_left]. apply step_inv; assumption.
Qed.

Lemma wf_out_desc l : wf_out l -> strictly_desc (map b_height (commits_of l)) /\ strictly_desc (rounds_of l).
Proof.
  induction l as [|o r IH]; cbn [wf_out]; [intros _; split; exact Logic.I|]. intros [Ho Wr]. destruct (IH Wr) as [IC IR].
  destruct o; cbn [commits_of rounds_of flat_map app map]; fold (commits_of r); fold (rounds_of r); try (split; assumption).
  - destruct Ho as [Hc Hr]. split; [|exact IR]. apply strictly_desc_cons; [|exact IC]. rewrite Forall_forall in *. intros x Hx.
    apply in_map_iff in Hx. destruct Hx as [b' [<- Hb']]. apply Hc. exact Hb'.
  - destruct Ho as [Hc Hr]. split; [exact IC|]. apply strictly_desc_cons; assumption.
Qed.

(* the heights handed to the commit callback strictly increase (the output list is newest first) *)
Theorem commit_heights_strictly_increase c evs : cfg_ok c -> strictly_desc (map b_height (commits_of (n_out (nrun c evs)))).
Proof. intro H. apply wf_out_desc. apply (ni_wf _ _ (nrun_inv c evs H)). Qed.

(* the heights handed to the new-round callback strictly increase *)
Theorem round_heights_strictly_increase c evs : cfg_ok c -> strictly_desc (rounds_of (n_out (nrun c evs))).
Proof. intro H. apply wf_out_desc. apply (ni_wf _ _ (nrun_inv c evs H)). Qed.

(* a commit callback for height h is only ever followed by rounds for heights above h *)
Lemma wf_out_split a o r : wf_out (a ++ o :: r) -> wf_out (o :: r) /\
  (forall b rr ss oo, o = OCommit b rr ss oo -> Forall (fun h => b_height b < h) (rounds_of a)).
Proof.
  induction a as [|x a IH]; cbn [app]; intro W; [split; [exact W|intros; constructor]|].
  cbn [wf_out] in W. destruct W as [Hx Wa]. destruct (IH Wa) as [W1 W2]. split; [exact W1|].
  intros b rr ss oo E. specialize (W2 b rr ss oo E). destruct x; cbn [rounds_of flat_map app]; try exact W2.
  fold (rounds_of a). constructor; [|exact W2]. destruct Hx as [Hc _]. rewrite Forall_forall in Hc. apply Hc.
  rewrite commits_of_app. apply in_or_app. right. subst o. left. reflexivity.
Qed.

Theorem rounds_after_commit_are_higher c evs a b rr ss oo r : cfg_ok c ->
  n_out (nrun c evs) = a ++ OCommit b rr ss oo :: r -> Forall (fun h => b_height b < h) (rounds_of a).
Proof.
  intros H E. pose proof (ni_wf _ _ (nrun_inv c evs H)) as W. rewrite E in W.
  destruct (wf_out_split _ _ _ W) as [_ W2]. eapply W2. reflexivity.
Qed.

(* the observable (height, view) never decreases lexicographically, event by event *)
Theorem state_never_decreases c evs e : cfg_ok c -> hv_le (nrun c evs) (nrun c (evs ++ [e])).
Proof. intro H. unfold nrun at 2. rewrite fold_left_app. cbn [fold_left]. apply step_inv; [exact H|apply nrun_inv; exact H]. Qed.

(* a committed block has the height the node was deciding *)
Theorem committed_heights_bounded c evs : cfg_ok c -> Forall (fun b => b_height b <= n_h (nrun c evs)) (commits_of (n_out (nrun c evs))).
Proof. intro H. apply (ni_commits _ _ (nrun_inv c evs H)). Qed.

(* the term of a height belongs to that height: there is one term per height (heights of terms only increase) *)
Theorem term_height_is_state_height c evs t : cfg_ok c -> n_term (nrun c evs) = Some t -> t_h t = n_h (nrun c evs).
Proof. intros H E. apply (ni_term _ _ (nrun_inv c evs H) t E). Qed.

(* the term a node has installed is the term of the node's height, after every sequence of events - deliveries,
   elections, whole syncs, and syncs whose two halves (main loop, worker) are separated by anything else *)
Theorem installed_term_height c evs t : cfg_ok c -> n_term (nrun c evs) = Some t -> t_h t = n_h (nrun c evs).
Proof. intros H Ht. destruct (ni_term _ _ (nrun_inv c evs H) t Ht) as [A _]. exact A. Qed.

(* a whole sync is its two halves back to back *)
Lemma sync_is_its_halves c n prev : snd (sync_main (cancel_older (n_h n, 0) n) prev) = true ->
  step c n (ESync prev) = sync_worker (fuel_of n) c (step c n (ESyncMain prev)) prev.
Proof. intro H. unfold step. cbn zeta. rewrite H. reflexivity. Qed.
