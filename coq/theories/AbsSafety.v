(* AbsSafety.v — agreement for one height, on abstract histories.
   A history is the sequence (newest first) of the protocol-relevant actions of the CORRECT committee members of one
   height: endorsing a proposal (the leader's PREPREPARE or a PREPARE), becoming prepared ("lock"), signing a COMMIT,
   signing a VIEW_CHANGE with the lock it carries, and deciding. [valid] says each action respected the guards of the
   protocol at the moment it happened; Byzantine members are unconstrained: a certificate only constrains its correct
   signers. World.v shows that the executable node model (Term.v) under the unforgeability discipline produces valid
   histories, as long as no correct node adopts a standalone PREPREPARE in a view above 0 (known finding KF-1). *)
From LH Require Import Prims Quorum QuorumFacts.
Open Scope N_scope.

Section Abs.
Variable cm : committee.
Hypothesis Hw : total cm < W64.
Variable honest : N -> bool.
(* the Byzantine members hold at most f = floor((W-1)/3) of the weight *)
Hypothesis Hbyz : (Z.of_N (wsum (fun i => negb (honest i)) cm) <= specF cm)%Z.

Inductive aev :=
| AEndorse (i v x : N)
| ALock (i v x : N)
| ACom (i v x : N)
| AVote (i v : N) (lk : option (N * N))
| ADecide (i v x : N).

Definition hist := list aev.

(* certificates: only the correct signers are constrained *)
Definition pcert (h : hist) (v x : N) : Prop :=
  exists S, isQ S cm = true /\ forall i, In i S -> In i (ids cm) -> honest i = true -> In (AEndorse i v x) h.
Definition ccert (h : hist) (v x : N) : Prop :=
  exists S, isQ S cm = true /\ forall i, In i S -> In i (ids cm) -> honest i = true -> In (ACom i v x) h.
Definition lcert (h : hist) (v x : N) : Prop :=
  exists S, isQ S cm = true /\ forall i, In i S -> In i (ids cm) -> honest i = true -> In (ALock i v x) h.

(* a NEW_VIEW certificate for (v, x): votes for v by a quorum, every lock they carry is backed by a prepared
   certificate of an earlier view, and x is the hash of a lock of maximal view (or nobody is locked) *)
Definition nvcert (h : hist) (v x : N) : Prop :=
  exists V : list (N * option (N * N)),
    isQ (map fst V) cm = true /\
    (forall i lk, In (i, lk) V -> In i (ids cm) -> honest i = true -> In (AVote i v lk) h) /\
    (forall i u y, In (i, Some (u, y)) V -> u < v /\ pcert h u y) /\
    ((exists i u, In (i, Some (u, x)) V /\ forall j u' y', In (j, Some (u', y')) V -> u' <= u)
     \/ (forall i lk, In (i, lk) V -> lk = None)).

(* the most recent lock of i *)
Fixpoint last_lock (i : N) (h : hist) : option (N * N) :=
  match h with
  | [] => None
  | ALock j v x :: r => if N.eqb j i then Some (v, x) else last_lock i r
  | _ :: r => last_lock i r
  end.

Definition guard (h : hist) (e : aev) : Prop :=
  match e with
  | AEndorse i v x =>
      (forall y, In (AEndorse i v y) h -> y = x) /\
      (0 < v -> nvcert h v x)
  | ALock i v x =>
      pcert h v x /\
      (forall u y, In (ALock i u y) h -> u <= v) /\
      (forall v' lk, In (AVote i v' lk) h -> v' <= v)
  | ACom i v x => In (ALock i v x) h \/ ccert h v x
  | AVote i v lk =>
      lk = last_lock i h /\
      (forall u y, In (ALock i u y) h -> u < v) /\
      (forall v' lk', In (AVote i v' lk') h -> v' < v)
  | ADecide i v x => ccert h v x
  end.

Inductive valid : hist -> Prop :=
| valid_nil : valid []
| valid_cons e h : valid h -> guard h e -> valid (e :: h).

(* ---- quorum facts ---- *)
Lemma honest_in_both A B : isQ A cm = true -> isQ B cm = true ->
  exists i, In i A /\ In i B /\ In i (ids cm) /\ honest i = true.
Proof.
  intros HA HB. pose proof (quorum_intersection A B cm Hw HA HB) as HI.
  rewrite subsetWeight_wsum in HI by exact Hw.
  destruct (existsb (fun m => memN (fst m) A && memN (fst m) B && honest (fst m)) cm) eqn:E.
  - apply existsb_exists in E. destruct E as [m [Hm E]]. apply andb_true_iff in E. destruct E as [E E3]. apply andb_true_iff in E. destruct E as [E1 E2].
    exists (fst m). rewrite memN_In in E1, E2. repeat split; auto. apply in_map. exact Hm.
  - exfalso.
    assert (L : wsum (fun i => memN i (interN A B)) cm <= wsum (fun i => negb (honest i)) cm).
    { assert (G : forall m, In m cm -> memN (fst m) A && memN (fst m) B && honest (fst m) = false).
      { intros m Hm. destruct (memN (fst m) A && memN (fst m) B && honest (fst m)) eqn:E'; [|reflexivity].
        assert (existsb (fun m => memN (fst m) A && memN (fst m) B && honest (fst m)) cm = true) by (apply existsb_exists; exists m; auto). congruence. }
      clear - G. induction cm as [|m r IH]; cbn [wsum]; [lia|].
      assert (Gm := G m (or_introl eq_refl)). assert (IH' := IH (fun m' H' => G m' (or_intror H'))).
      rewrite memN_interN. destruct (memN (fst m) A && memN (fst m) B) eqn:E1; cbn [andb] in Gm; [rewrite Gm; cbn [negb]; lia|].
      destruct (negb (honest (fst m))); lia. }
    lia.
Qed.

Lemma quorum_has_honest_member A : isQ A cm = true -> exists i, In i A /\ In i (ids cm) /\ honest i = true.
Proof. intro HA. destruct (honest_in_both A A HA HA) as (i & H1 & _ & H3 & H4). exists i. auto. Qed.

(* ---- monotonicity in the history ---- *)
Lemma pcert_mono h e v x : pcert h v x -> pcert (e :: h) v x.
Proof. intros (S & Q & F). exists S. split; [exact Q|]. intros i A B C. right. apply F; assumption. Qed.
Lemma suffix_in (h h' : hist) (e : aev) : (exists p, h' = p ++ h) -> In e h -> In e h'.
Proof. intros [p ->] H. apply in_or_app. right. exact H. Qed.
Lemma pcert_suffix h h' v x : (exists p, h' = p ++ h) -> pcert h v x -> pcert h' v x.
Proof. intros Hs (S & Q & F). exists S. split; [exact Q|]. intros i A B C. apply (suffix_in h h' _ Hs). apply F; assumption. Qed.

(* every event of a valid history satisfied its guard at its time *)
Lemma valid_guard h : valid h -> forall e, In e h -> exists h0, (exists p, h = p ++ e :: h0) /\ valid h0 /\ guard h0 e.
Proof.
  induction 1 as [|e0 h Hv IH Hg]; intros e Hin; [destruct Hin|].
  destruct Hin as [<-|Hin].
  - exists h. split; [exists []; reflexivity|]. auto.
  - destruct (IH e Hin) as (h0 & [p Ep] & V0 & G0). exists h0. split; [exists (e0 :: p); rewrite Ep; reflexivity|]. auto.
Qed.

(* G1 lifted: one endorsement per member and view *)
Lemma endorse_unique h : valid h -> forall i v x y, In (AEndorse i v x) h -> In (AEndorse i v y) h -> x = y.
Proof.
  induction 1 as [|e h Hv IH Hg]; intros i v x y Hx Hy; [destruct Hx|].
  destruct Hx as [Ex|Hx], Hy as [Ey|Hy].
  - congruence.
  - subst e. destruct Hg as [G1 _]. symmetry. apply G1. exact Hy.
  - subst e. destruct Hg as [G1 _]. apply G1. exact Hx.
  - eapply IH; eauto.
Qed.

Theorem pcert_unique h v x y : valid h -> pcert h v x -> pcert h v y -> x = y.
Proof.
  intros Hv (A & QA & FA) (B & QB & FB). destruct (honest_in_both A B QA QB) as (i & IA & IB & Im & Ih).
  apply (endorse_unique h Hv i v x y); auto.
Qed.

(* (∀ j ∈ l, A j ∨ L) → (∀ j ∈ l, A j) ∨ L *)
Lemma forall_or_common {T} (l : list T) (A : T -> Prop) (L : Prop) :
  (forall j, In j l -> A j \/ L) -> (forall j, In j l -> A j) \/ L.
Proof.
  induction l as [|a r IH]; intro H; [left; intros j []|].
  destruct (H a (or_introl eq_refl)) as [Ha|HL]; [|right; exact HL].
  destruct (IH (fun j Hj => H j (or_intror Hj))) as [Hr|HL]; [|right; exact HL].
  left. intros j [<-|Hj]; auto.
Qed.

Lemma lcert_mono h e v x : lcert h v x -> lcert (e :: h) v x.
Proof. intros (S & Q & F). exists S. split; [exact Q|]. intros i A B C. right. apply F; assumption. Qed.

(* the first commit quorum is made of members that were prepared *)
Lemma com_locked_or_lcert h : valid h -> forall i v x, In (ACom i v x) h -> In (ALock i v x) h \/ lcert h v x.
Proof.
  induction 1 as [|e h Hv IH Hg]; intros i v x Hin; [destruct Hin|].
  destruct Hin as [->|Hin].
  - cbn [guard] in Hg. destruct Hg as [Hl|(S & Q & F)]; [left; right; exact Hl|].
    assert (G : (forall j, In j S -> (In j (ids cm) -> honest j = true -> In (ALock j v x) h)) \/ lcert h v x).
    { apply forall_or_common. intros j Hj. destruct (memN j (ids cm)) eqn:Em; [|left; intros Hm; apply memN_In in Hm; congruence].
      destruct (honest j) eqn:Eh; [|left; intros; discriminate]. apply memN_In in Em.
      destruct (IH j v x (F j Hj Em Eh)) as [A|B]; [left; intros; exact A|right; exact B]. }
    destruct G as [G|G]; [|right; apply lcert_mono; exact G].
    right. exists S. split; [exact Q|]. intros j A B C. right. apply G; assumption.
  - destruct (IH i v x Hin) as [A|B]; [left; right; exact A|right; apply lcert_mono; exact B].
Qed.

Theorem ccert_lcert h v x : valid h -> ccert h v x -> lcert h v x.
Proof.
  intros Hv (S & Q & F).
  assert (G : (forall j, In j S -> (In j (ids cm) -> honest j = true -> In (ALock j v x) h)) \/ lcert h v x).
  { apply forall_or_common. intros j Hj. destruct (memN j (ids cm)) eqn:Em; [|left; intros Hm; apply memN_In in Hm; congruence].
    destruct (honest j) eqn:Eh; [|left; intros; discriminate]. apply memN_In in Em.
    destruct (com_locked_or_lcert h Hv j v x (F j Hj Em Eh)) as [A|B]; [left; intros; exact A|right; exact B]. }
  destruct G as [G|G]; [|exact G]. exists S. split; [exact Q|]. intros j A B C. apply G; assumption.
Qed.

(* a lock is backed by a prepared certificate *)
Lemma lock_pcert h : valid h -> forall i v x, In (ALock i v x) h -> pcert h v x.
Proof.
  intros Hv i v x Hin. destruct (valid_guard h Hv _ Hin) as (h0 & [p Ep] & V0 & G0). destruct G0 as [P _].
  apply (pcert_suffix h0 h); [exists (p ++ [ALock i v x]); rewrite Ep, <- app_assoc; reflexivity|exact P].
Qed.

(* locks of one member: views never decrease along the history, and the last lock is the highest *)
Lemma last_lock_max h : valid h -> forall i u y, In (ALock i u y) h -> exists u' y', last_lock i h = Some (u', y') /\ u <= u'.
Proof.
  induction 1 as [|e h Hv IH Hg]; intros i u y Hin; [destruct Hin|].
  destruct Hin as [->|Hin].
  - cbn [last_lock]. rewrite N.eqb_refl. exists u, y. split; [reflexivity|lia].
  - destruct e as [j v x|j v x|j v x|j v lk|j v x]; cbn [last_lock]; try (apply (IH i u y); exact Hin).
    destruct (N.eqb_spec j i) as [->|Hne]; [|apply (IH i u y); exact Hin].
    exists v, x. split; [reflexivity|]. destruct Hg as (_ & M & _). apply (M u y Hin).
Qed.

Lemma last_lock_in h i u y : last_lock i h = Some (u, y) -> In (ALock i u y) h.
Proof.
  induction h as [|e h IH]; cbn [last_lock]; [discriminate|].
  destruct e as [j v x|j v x|j v x|j v lk|j v x]; try (intro H; right; apply IH; exact H).
  destruct (N.eqb_spec j i) as [->|Hne]; [intro H; inversion H; subst; left; reflexivity|intro H; right; apply IH; exact H].
Qed.

(* a vote for a view above a lock of the same member carries a lock at least as high *)
Lemma vote_after_lock h : valid h -> forall i v x v' lk, In (ALock i v x) h -> In (AVote i v' lk) h -> v < v' ->
  exists u y, lk = Some (u, y) /\ v <= u /\ u < v' /\ In (ALock i u y) h.
Proof.
  induction 1 as [|e h Hv IH Hg]; intros i v x v' lk HL HV Hlt; [destruct HL|].
  destruct HL as [EL|HL], HV as [EV|HV].
  - congruence.
  - (* the lock is the newest event: the vote is older, but then its view is at most v *)
    subst e. destruct Hg as (_ & _ & M). specialize (M v' lk HV). lia.
  - (* the vote is the newest event *)
    subst e. destruct Hg as (E & M & _). destruct (last_lock_max h Hv i v x HL) as (u & y & El & Hle).
    exists u, y. rewrite E, El. split; [reflexivity|]. pose proof (last_lock_in h i u y El) as Hin. split; [exact Hle|]. split; [apply (M u y Hin)|right; exact Hin].
  - destruct (IH i v x v' lk HL HV Hlt) as (u & y & A & B & C & D). exists u, y. repeat split; auto. right; exact D.
Qed.

(* ---- the lock theorem: once a quorum of correct members' locks exists for (v, x), every prepared certificate of
   a view >= v is for x ---- *)
Theorem locked_value h : valid h -> forall v x, lcert h v x -> forall v' y, v <= v' -> pcert h v' y -> y = x.
Proof.
  intros Hv v x HL v'. induction v' as [v' IHv] using (well_founded_induction N.lt_wf_0). intros y Hle HP.
  destruct HL as (S & QS & FS).
  destruct (N.eq_dec v' v) as [->|Hne].
  - destruct (quorum_has_honest_member S QS) as (i & Hi & Hm & Hh).
    apply (pcert_unique h v y x Hv HP). apply (lock_pcert h Hv i). apply FS; assumption.
  - assert (Hlt : v < v') by lia.
    destruct HP as (P & QP & FP). destruct (quorum_has_honest_member P QP) as (j & Hj & Hjm & Hjh).
    pose proof (FP j Hj Hjm Hjh) as HE.
    destruct (valid_guard h Hv _ HE) as (h0 & [p Ep] & V0 & G0). destruct G0 as (_ & G2).
    assert (Hs : exists q, h = q ++ h0) by (exists (p ++ [AEndorse j v' y]); rewrite Ep, <- app_assoc; reflexivity).
    destruct (G2 ltac:(lia)) as (V & QV & FV & LV & XV).
    destruct (honest_in_both (map fst V) S QV QS) as (i & HiV & HiS & Him & Hih).
    apply in_map_iff in HiV. destruct HiV as ([i' lk] & Ei & HiV). cbn in Ei. subst i'.
    pose proof (suffix_in h0 h _ Hs (FV i lk HiV Him Hih)) as HVote.
    pose proof (FS i HiS Him Hih) as HLock.
    destruct (vote_after_lock h Hv i v x v' lk HLock HVote Hlt) as (u & yu & -> & Hvu & Huv & _).
    (* the maximal lock among the counted votes has a view in [v, v') and is backed by a certificate: it is for x *)
    destruct XV as [(i2 & u2 & Hin2 & Hmax)|Hnone]; [|specialize (Hnone i _ HiV); discriminate].
    specialize (Hmax i u yu HiV). destruct (LV i2 u2 y Hin2) as [Hu2 HP2].
    apply (IHv u2 ltac:(lia) y ltac:(lia)). apply (pcert_suffix h0 h _ _ Hs HP2).
Qed.

(* ---- agreement ---- *)
Theorem abs_agreement h : valid h -> forall i v x j v' x', In (ADecide i v x) h -> In (ADecide j v' x') h -> x = x'.
Proof.
  intros Hv i v x j v' x' H1 H2.
  assert (C : forall i v x, In (ADecide i v x) h -> ccert h v x).
  { intros i0 v0 x0 Hin. destruct (valid_guard h Hv _ Hin) as (h0 & [p Ep] & V0 & (S & Q & F)).
    exists S. split; [exact Q|]. intros k A B D. rewrite Ep. apply in_or_app. right. right. apply F; assumption. }
  pose proof (ccert_lcert h v x Hv (C _ _ _ H1)) as L1. pose proof (ccert_lcert h v' x' Hv (C _ _ _ H2)) as L2.
  assert (P : forall v x, lcert h v x -> pcert h v x).
  { intros v0 x0 (S & Q & F). destruct (quorum_has_honest_member S Q) as (k & Hk & Hm & Hh). apply (lock_pcert h Hv k). apply F; assumption. }
  destruct (N.le_ge_cases v v') as [Hle|Hle].
  - symmetry. apply (locked_value h Hv v x L1 v' x' Hle (P _ _ L2)).
  - apply (locked_value h Hv v' x' L2 v x Hle (P _ _ L1)).
Qed.

End Abs.
