(* Contexts.v — executable model of state/view_contexts.go (ViewContexts) and state/state.go (State).
   A context is identified by the (height, view) it was created for: the registry creates at most one
   context per key for the whole run (ContextsFacts.one_context_per_key), so the key is the identity. *)
From LH Require Import Prims.
Open Scope N_scope.

Definition hv := (N * N)%type.                          (* height, view *)
Definition hv_lt (a b : hv) : bool :=                   (* HeightView.OlderThan *)
  N.ltb (fst a) (fst b) || (N.eqb (fst a) (fst b) && N.ltb (snd a) (snd b)).
Definition hv_eqb (a b : hv) : bool := N.eqb (fst a) (fst b) && N.eqb (snd a) (snd b).

Fixpoint memHV (x : hv) (l : list hv) : bool :=
  match l with [] => false | y :: r => hv_eqb x y || memHV x r end.

Record registry := {
  live : list hv;          (* hvToContext: contexts handed out and not yet deleted *)
  wm : option hv;          (* newestHvCanceledOlder *)
  shut : bool;             (* shutdown *)
  cancelled : list hv;     (* contexts whose cancel func has run (ghost: what ctx.Err() != nil reports, apart from shutdown) *)
  issued : list hv         (* ghost: every key a context was ever created for *)
}.

Definition reg_init : registry := {| live := []; wm := None; shut := false; cancelled := []; issued := [] |}.

Inductive rop := RFor (k : hv) | RCancelOlder (k : hv) | RShutdown.

(* For: error if shut down or stale; otherwise the (possibly new) context of k *)
Definition reg_for (k : hv) (r : registry) : bool * registry :=
  if shut r then (false, r)
  else match wm r with
       | Some w => if hv_lt k w then (false, r) else
           (true, if memHV k (live r) then r else
              {| live := k :: live r; wm := wm r; shut := shut r; cancelled := cancelled r; issued := k :: issued r |})
       | None =>
           (true, if memHV k (live r) then r else
              {| live := k :: live r; wm := wm r; shut := shut r; cancelled := cancelled r; issued := k :: issued r |})
       end.

Definition reg_cancel_older (k : hv) (r : registry) : registry :=
  {| live := filter (fun c => negb (hv_lt c k)) (live r);
     wm := match wm r with None => Some k | Some w => if hv_lt w k then Some k else Some w end;
     shut := shut r;
     cancelled := filter (fun c => hv_lt c k) (live r) ++ cancelled r;
     issued := issued r |}.

Definition reg_shutdown (r : registry) : registry :=
  {| live := live r; wm := wm r; shut := true; cancelled := cancelled r; issued := issued r |}.

Definition reg_step (r : registry) (o : rop) : registry :=
  match o with
  | RFor k => snd (reg_for k r)
  | RCancelOlder k => reg_cancel_older k r
  | RShutdown => reg_shutdown r
  end.

Definition reg_run (ops : list rop) : registry := fold_left reg_step ops reg_init.

(* ctx.Err() != nil for the context created for k (children of the parent are cancelled by Shutdown) *)
Definition ctx_done (r : registry) (k : hv) : bool := memHV k (cancelled r) || (shut r && memHV k (issued r)).

(* ---- State: height/view with the two production setters ---- *)
Record hvstate := { st_h : N; st_v : N }.
Definition st_init : hvstate := {| st_h := 0; st_v := 0 |}.
Inductive sop := SSetHeight (h : N) | SSetView (v : N).

(* SetHeightAndResetView: error unless strictly newer *)
Definition st_set_height (nh : N) (s : hvstate) : bool * hvstate :=
  if N.leb nh (st_h s) then (false, s) else (true, {| st_h := nh; st_v := 0 |}).
(* SetView: error if it would decrease *)
Definition st_set_view (nv : N) (s : hvstate) : bool * hvstate :=
  if N.ltb nv (st_v s) then (false, s) else (true, {| st_h := st_h s; st_v := nv |}).
Definition st_step (s : hvstate) (o : sop) : hvstate :=
  match o with SSetHeight h => snd (st_set_height h s) | SSetView v => snd (st_set_view v s) end.
