(* WorldKF1.v — the fork that known finding KF-1 allows, as a run of the World model: four members of weight 1, one
   Byzantine (member 1, the leader of view 1). Member 2 commits the proposal of view 0; the Byzantine leader of view 1
   then sends a standalone PREPREPARE for another block to members 0 and 3, who adopt it although member 0 is locked
   on the first block, and member 3 commits it. Every signature of a correct member in the run is genuine. *)
From LH Require Import Prims Quorum QuorumFacts Contexts Msg Term TermFacts AbsSafety Own World.
Open Scope N_scope.

Definition cm4 : committee := [(0, 1); (1, 1); (2, 1); (3, 1)].
Definition honest4 (i : N) : bool := negb (N.eqb i 1).
Definition cfg4 (i : N) : ncfg := {| c_me := i; c_inst := 7; c_base := cm4; c_rot := 0; c_excl := []; c_failcommit := [] |}.
Definition nowm (_ : N) : option hv := None.
Definition noshut (_ : N) : bool := false.
Definition fresh0 (_ : N) : N := 0.
Definition lead1 (_ : N) : bool := true.

Definition sg (i : N) : ssig := {| s_id := i; s_ok := true |}.
Definition hA : N := fresh_id 0 0.
Definition blkA : block := {| b_height := 1; b_id := hA; b_bad := [] |}.
Definition blkB : block := {| b_height := 1; b_id := 777; b_bad := [] |}.
Definition rf (ty v h : N) : bref := {| r_type := ty; r_inst := 7; r_height := 1; r_view := v; r_hash := h |}.
Definition ev (i : N) (m : msg) : N * tev := (i, TMsg m None false).
Definition el (i v : N) : N * tev := (i, TElect 1 v None false).

Definition fork_run : list (N * tev) :=
  ((((((((((((([] ++ [ev 2 (MPP (rf T_PREPREPARE 0 hA) (sg 0) (Some blkA))])
    ++ [ev 0 (MP (rf T_PREPARE 0 hA) (sg 2))])
    ++ [ev 0 (MP (rf T_PREPARE 0 hA) (sg 1))])
    ++ [ev 2 (MP (rf T_PREPARE 0 hA) (sg 1))])
    ++ [ev 2 (MC (rf T_COMMIT 0 hA) (sg 0) true)])
    ++ [ev 2 (MC (rf T_COMMIT 0 hA) (sg 1) true)])
    ++ [el 0 0])
    ++ [el 3 0])
    ++ [ev 3 (MPP (rf T_PREPREPARE 1 777) (sg 1) (Some blkB))])
    ++ [ev 0 (MPP (rf T_PREPREPARE 1 777) (sg 1) (Some blkB))])
    ++ [ev 3 (MP (rf T_PREPARE 1 777) (sg 0))])
    ++ [ev 0 (MP (rf T_PREPARE 1 777) (sg 3))])
    ++ [ev 3 (MC (rf T_COMMIT 1 777) (sg 0) true)])
    ++ [ev 3 (MC (rf T_COMMIT 1 777) (sg 1) true)].

Definition st4 (i : N) (run : list (N * tev)) : tc := nstate 1 cm4 cfg4 nowm noshut fresh0 lead1 i run.

Lemma fork_commits : tc_commit (nstate 1 cm4 cfg4 nowm noshut fresh0 lead1 2 fork_run) = Some blkA /\ tc_commit (nstate 1 cm4 cfg4 nowm noshut fresh0 lead1 3 fork_run) = Some blkB.
Proof. vm_compute. split; reflexivity. Qed.

(* deciding "this node signed r" on a concrete state *)
Definition signed_refb (x : tc) (r : bref) : bool :=
  existsb (fun o => match o with
                    | OSend _ (MPP r' _ _) | OSend _ (MP r' _) | OSend _ (MC r' _ _) => bref_eqb r' r
                    | OSend _ (MNV _ _ _ _ _ _ r' _ _) => bref_eqb r' r
                    | _ => false end) (tc_out x).
Lemma bref_eqb_eq a b : bref_eqb a b = true -> a = b.
Proof.
  unfold bref_eqb. rewrite !andb_true_iff, !N.eqb_eq. intros [[[[A B] C0] D0] E0]. destruct a, b. cbn in *. congruence.
Qed.
Lemma signed_refb_sound x r : signed_refb x r = true -> signed_ref x r.
Proof.
  unfold signed_refb, signed_ref. rewrite existsb_exists. intros (o & Hin & Ho).
  destruct o as [to m| | | | | |]; try discriminate. exists to.
  destruct m as [r' s b|r' s|r' s o'|vt b|ty i h v vs s' r' pps b]; try discriminate; apply bref_eqb_eq in Ho; subst r'.
  - left. eauto.
  - right; left. eauto.
  - right; right; left. eauto.
  - right; right; right. do 8 eexists. exact Hin.
Qed.

Ltac genuine := apply signed_refb_sound; vm_compute; reflexivity.
Ltac wstep :=
  apply wrun_snoc;
  [ | split; reflexivity
    | first [exact Logic.I | split; [reflexivity|discriminate]]
    | intros m wm' sh' Em; inversion Em; subst; clear Em; cbn [auth_msg]; unfold auth_ref; intros Hok [Hh Hm];
      first [discriminate Hh | genuine] ].
Lemma fork_is_a_run : wrun 1 cm4 honest4 cfg4 nowm noshut fresh0 lead1 fork_run.
Proof. unfold fork_run. do 14 wstep. apply wrun_nil. Qed.

Lemma byzantine_weight_within_f : (Z.of_N (wsum (fun i => negb (honest4 i)) cm4) <= specF cm4)%Z.
Proof. vm_compute. discriminate. Qed.

(* the full statement of C01 is false of the model (and of the code: the same script forks the real nodes, harness
   stream "worldkf1") *)
Theorem agreement_refuted :
  exists H cm honest cfg st_wm st_shut st_fresh st_lead run i j b1 b2,
    total cm < W64 /\ (Z.of_N (wsum (fun i => negb (honest i)) cm) <= specF cm)%Z /\ (forall k, c_me (cfg k) = k) /\
    wrun H cm honest cfg st_wm st_shut st_fresh st_lead run /\ good cm honest i /\ good cm honest j /\
    tc_commit (nstate H cm cfg st_wm st_shut st_fresh st_lead i run) = Some b1 /\
    tc_commit (nstate H cm cfg st_wm st_shut st_fresh st_lead j run) = Some b2 /\ b_id b1 <> b_id b2.
Proof.
  exists 1, cm4, honest4, cfg4, nowm, noshut, fresh0, lead1, fork_run, 2, 3, blkA, blkB.
  split; [vm_compute; reflexivity|]. split; [exact byzantine_weight_within_f|]. split; [reflexivity|].
  split; [exact fork_is_a_run|]. split; [split; reflexivity|]. split; [split; reflexivity|].
  destruct fork_commits as [A B]. split; [exact A|]. split; [exact B|]. vm_compute. discriminate.
Qed.

(* ... and the run is exactly one the hypothesis of the partial theorem excludes *)
Lemma fork_run_has_standalone_preprepare : ~ no_standalone_preprepare_above_view0 fork_run.
Proof.
  intro NK. assert (r_view (rf T_PREPREPARE 1 777) = 0).
  { apply (NK 3 (rf T_PREPREPARE 1 777) (sg 1) (Some blkB) None false). unfold fork_run. do 5 (apply in_or_app; left). apply in_or_app; right. left; reflexivity. }
  discriminate.
Qed.

(* non-vacuity for C03: the committers of the run above do hand over certificates, and the strict validator model accepts them *)
From LH Require Import VBC Cert.
Example fork_commit_certificates :
  match commits_out (tc_out (nstate 1 cm4 cfg4 nowm noshut fresh0 lead1 2 fork_run)) with
  | [(b, r, sgs, so)] => vbc {| vc_inst := 7; vc_committee := Some cm4 |} false (Some b) false
                            (Some {| ap_ref := r; ap_nodes := sgs; ap_seed_nonempty := true; ap_seed_ok := so |}) false = true /\ length sgs = 3%nat
  | _ => False
  end.
Proof. vm_compute. split; reflexivity. Qed.
