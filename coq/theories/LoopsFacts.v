(* LoopsFacts.v — invariants of the two-goroutine model for every interleaving (C14, C15 part b, C16, C12 supervision). *)
From Coq Require Import Sorted.
From LH Require Import Prims Contexts ContextsFacts Loops.
Open Scope N_scope.

Definition reach (s : lstate) : Prop := exists ls, lrun l_init ls = Some s.

Definition wm_ge (r : registry) (k : hv) : Prop := exists w, wm r = Some w /\ hv_lt w k = false.

Record LInv (s : lstate) : Prop := {
  li_exit : l_main s = MExited -> l_cancelled s = true /\ shut (l_reg s) = true;
  li_shut : shut (l_reg s) = true -> l_main s = MExited;
  li_slot : forall hb, l_upd s = Some hb -> l_maxsync s = Some hb;
  li_wm_sync : forall hb, (l_upd s = Some hb \/ l_main s = MFwdSync hb) -> wm_ge (l_reg s) (hb + 1, 0);
  li_wm_trig : forall h v, (l_elect s = Some (h, v) \/ l_main s = MFwdTrig h v) -> wm_ge (l_reg s) (h, v + 1);
  li_regops : exists ops, l_reg s = reg_run ops;
  li_busy : forall k, l_worker s = WBusy k -> fst k = l_wh s /\ In k (issued (l_reg s));
  li_wexit : l_worker s = WExited -> l_cancelled s = true /\ l_armed s = None
}.

Lemma wm_ge_cancel_older r k k' : wm_ge r k -> wm_ge (reg_cancel_older k' r) k.
Proof.
  intros (w & Ew & Hw). unfold wm_ge, reg_cancel_older. cbn [wm]. rewrite Ew.
  destruct (hv_lt w k') eqn:E; eexists; split; try reflexivity; [|exact Hw].
  rewrite hv_lt_false in *. rewrite hv_lt_spec in E. lia.
Qed.
Lemma wm_ge_cancel_self r k : wm_ge (reg_cancel_older k r) k.
Proof.
  unfold wm_ge, reg_cancel_older. cbn [wm]. destruct (wm r) as [w|].
  - destruct (hv_lt w k) eqn:E; eexists; split; try reflexivity; [rewrite hv_lt_false; lia|exact E].
  - eexists; split; [reflexivity|]. rewrite hv_lt_false. lia.
Qed.
Lemma wm_for k r : wm (snd (reg_for k r)) = wm r.
Proof. destruct (reg_for_new_state k r) as [E|(_ & _ & _ & E)]; rewrite E; reflexivity. Qed.
Lemma shut_for k r : shut (snd (reg_for k r)) = shut r.
Proof. destruct (reg_for_new_state k r) as [E|(_ & _ & _ & E)]; rewrite E; reflexivity. Qed.
Lemma wm_ge_for r k k' : wm_ge r k -> wm_ge (snd (reg_for k' r)) k.
Proof. unfold wm_ge. rewrite wm_for. auto. Qed.
Lemma for_true_not_shut k r : fst (reg_for k r) = true -> shut r = false.
Proof. unfold reg_for. destruct (shut r); [discriminate|reflexivity]. Qed.
Lemma issued_for k r : incl (issued r) (issued (snd (reg_for k r))).
Proof. destruct (reg_for_new_state k r) as [E|(_ & _ & _ & E)]; rewrite E; [apply incl_refl|]. cbn [issued]. apply incl_tl, incl_refl. Qed.
Lemma issued_for_in k r : fst (reg_for k r) = true -> In k (issued (snd (reg_for k r))) \/ In k (live r).
Proof.
  intro H. unfold reg_for in *. destruct (shut r); [discriminate|].
  destruct (wm r) as [w|]; [destruct (hv_lt k w); [discriminate|]|]; cbn [snd];
    (destruct (memHV k (live r)) eqn:Em; [right; apply memHV_In; exact Em|left; cbn [issued]; left; reflexivity]).
Qed.

Lemma regops_step r o : (exists ops, r = reg_run ops) -> exists ops, reg_step r o = reg_run ops.
Proof. intros [ops E]. exists (ops ++ [o]). unfold reg_run. rewrite fold_left_app. cbn [fold_left]. rewrite E. reflexivity. Qed.

Lemma LInv_init : LInv l_init.
Proof. constructor; cbn; try (intros; discriminate); try (intros ? [H|H]; discriminate); try (intros ? ? [H|H]; discriminate). exists []. reflexivity. Qed.

Ltac fields := cbn [l_cancelled l_main l_worker l_wh l_wv l_armed l_reg l_maxsync l_upd l_elect l_msgs l_rounds set_main set_reg set_worker gc] in *.

Lemma live_in_issued r k : (exists ops, r = reg_run ops) -> In k (live r) -> In k (issued r).
Proof. intros [ops ->] H. apply (inv_live_issued _ _ (reg_inv_reachable ops)). exact H. Qed.

Ltac wm_tac H4 H5 :=
  first
  [ apply wm_ge_for; wm_tac H4 H5
  | apply wm_ge_cancel_self
  | apply wm_ge_cancel_older; wm_tac H4 H5
  | (apply H4; auto; fail)
  | (apply H5; auto; fail)
  | (eapply H4; eauto; fail)
  | (eapply H5; eauto; fail) ].

(* closes the routine goals of an LInv record after a step; H1..H8 are the fields of the invariant before the step *)
Ltac linv_close H1 H2 H3 H4 H5 H6 H7 H8 :=
  fields; rewrite ?shut_for in *;
  try (intros; discriminate);
  try (auto; fail);
  try (let Hh := fresh "Hh" in intros ? [Hh|Hh]; try discriminate; try (inversion Hh; subst); try (wm_tac H4 H5); fail);
  try (let Hh := fresh "Hh" in intros ? ? [Hh|Hh]; try discriminate; try (inversion Hh; subst); try (wm_tac H4 H5); fail);
  try (let Hk := fresh "Hk" in intros ? Hk; destruct (H7 _ Hk) as [? ?]; split; [assumption|apply issued_for; assumption]; fail);
  try (let Hx := fresh "Hx" in intro Hx; destruct (H1 Hx); auto; fail);
  try (let Hx := fresh "Hx" in intro Hx; destruct (H8 Hx); auto; fail);
  try (let Hx := fresh "Hx" in intro Hx; specialize (H2 Hx); congruence; fail).

Lemma LInv_gc s : LInv s -> LInv (gc s).
Proof.
  intros [H1 H2 H3 H4 H5 H6 H7 H8]. constructor; linv_close H1 H2 H3 H4 H5 H6 H7 H8.
  apply (regops_step _ (RCancelOlder (l_wh s, 0))). exact H6.
Qed.

Lemma enter_spi_inv k s s' : LInv s -> fst k = l_wh s -> enter_spi k s = Some s' -> LInv s'.
Proof.
  intros [H1 H2 H3 H4 H5 H6 H7 H8] Hk E. unfold enter_spi in E. destruct (fst (reg_for k (l_reg s))) eqn:Ef; [|discriminate]. inversion E; subst; clear E.
  constructor; linv_close H1 H2 H3 H4 H5 H6 H7 H8.
  - apply (regops_step _ (RFor k)). exact H6.
  - intros k' Ek. inversion Ek; subst. split; [exact Hk|]. destruct (issued_for_in _ _ Ef) as [A|A]; [exact A|].
    apply issued_for. apply live_in_issued; assumption.
Qed.

Lemma new_round_inv h s : LInv s -> l_worker s = WSelect -> LInv (new_round h s).
Proof.
  intros [H1 H2 H3 H4 H5 H6 H7 H8] Hw. unfold new_round. destruct (fst (reg_for (h, 0) (l_reg s))) eqn:Ef; cbn [negb]; [|constructor; auto].
  assert (R : exists ops, snd (reg_for (h, 0) (l_reg s)) = reg_run ops) by (apply (regops_step _ (RFor (h, 0))); exact H6).
  destruct (N.leb h (l_wh s)); constructor; linv_close H1 H2 H3 H4 H5 H6 H7 H8; try exact R; try (intros k Ek; congruence); try (intro Hx; congruence).
Qed.

Lemma step_cancel s s' : LInv s -> lstep s LCancel = Some s' -> LInv s'.
Proof. intros [H1 H2 H3 H4 H5 H6 H7 H8] E. cbn in E. inversion E; subst; clear E. constructor; linv_close H1 H2 H3 H4 H5 H6 H7 H8. Qed.

Lemma step_api_sync hb s s' : LInv s -> lstep s (LApiSync hb) = Some s' -> LInv s'.
Proof.
  intros I E. cbn [lstep] in E. destruct (l_main s) eqn:Em; try discriminate. pose proof (LInv_gc s I) as Ig.
  destruct (match l_maxsync (gc s) with Some mx => hb <=? mx | None => false end); [inversion E; subst; exact Ig|].
  destruct Ig as [H1 H2 H3 H4 H5 H6 H7 H8].
  set (r1 := reg_cancel_older (hb + 1, 0) (l_reg (gc s))) in *.
  assert (R1 : exists ops, r1 = reg_run ops) by (apply (regops_step _ (RCancelOlder (hb + 1, 0))); exact H6).
  assert (Emg : l_main (gc s) = MSelect) by exact Em.
  destruct (fst (reg_for (hb + 1, 0) r1)) eqn:Ef; inversion E; subst; clear E; constructor; linv_close H1 H2 H3 H4 H5 H6 H7 H8.
  all: try (apply (regops_step _ (RFor (hb + 1, 0))); exact R1); try exact R1.
  all: try (rewrite Emg; discriminate).
  all: try (intros ? [Hh|Hh]; [wm_tac H4 H5|rewrite Emg in Hh; discriminate]).
  all: try (intros ? ? [Hh|Hh]; [wm_tac H4 H5|rewrite Emg in Hh; discriminate]).
Qed.

Lemma step_api_msg s s' : LInv s -> lstep s LApiMsg = Some s' -> LInv s'.
Proof.
  intros I E. cbn [lstep] in E. destruct (l_main s) eqn:Em; try discriminate. inversion E; subst; clear E.
  destruct (LInv_gc s I) as [H1 H2 H3 H4 H5 H6 H7 H8]. constructor; linv_close H1 H2 H3 H4 H5 H6 H7 H8.
Qed.

Lemma step_timer s s' : LInv s -> lstep s LTimerTrig = Some s' -> LInv s'.
Proof.
  intros I E. cbn [lstep] in E. destruct (l_main s) eqn:Em; try discriminate. destruct (l_armed s) as [[h v]|] eqn:Ea; try discriminate.
  destruct (LInv_gc s I) as [H1 H2 H3 H4 H5 H6 H7 H8].
  set (r1 := reg_cancel_older (h, v + 1) (l_reg (gc s))) in *.
  assert (R1 : exists ops, r1 = reg_run ops) by (apply (regops_step _ (RCancelOlder (h, v + 1))); exact H6).
  assert (Emg : l_main (gc s) = MSelect) by exact Em.
  destruct (fst (reg_for (h, v + 1) r1)) eqn:Ef; inversion E; subst; clear E; constructor; linv_close H1 H2 H3 H4 H5 H6 H7 H8.
  all: try (apply (regops_step _ (RFor (h, v + 1))); exact R1); try exact R1.
  all: try (rewrite Emg; discriminate).
  all: try (intros ? [Hh|Hh]; [wm_tac H4 H5|rewrite Emg in Hh; discriminate]).
  all: try (intros ? ? [Hh|Hh]; [wm_tac H4 H5|rewrite Emg in Hh; discriminate]).
Qed.

Lemma step_timer_stale h v s s' : LInv s -> lstep s (LTimerStale h v) = Some s' -> LInv s'.
Proof.
  intros I E. cbn [lstep] in E. destruct (l_main s) eqn:Em; try discriminate. destruct (negb (hv_lt (h, v) (l_wh s, l_wv s))); [discriminate|].
  destruct (LInv_gc s I) as [H1 H2 H3 H4 H5 H6 H7 H8].
  set (r1 := reg_cancel_older (h, v + 1) (l_reg (gc s))) in *.
  assert (R1 : exists ops, r1 = reg_run ops) by (apply (regops_step _ (RCancelOlder (h, v + 1))); exact H6).
  assert (Emg : l_main (gc s) = MSelect) by exact Em.
  destruct (fst (reg_for (h, v + 1) r1)) eqn:Ef; inversion E; subst; clear E; constructor; linv_close H1 H2 H3 H4 H5 H6 H7 H8.
  all: try (apply (regops_step _ (RFor (h, v + 1))); exact R1); try exact R1.
  all: try (rewrite Emg; discriminate).
  all: try (intros ? [Hh|Hh]; [wm_tac H4 H5|rewrite Emg in Hh; discriminate]).
  all: try (intros ? ? [Hh|Hh]; [wm_tac H4 H5|rewrite Emg in Hh; discriminate]).
Qed.

Lemma step_main_fwd s s' : LInv s -> lstep s LMainFwd = Some s' -> LInv s'.
Proof.
  intros [H1 H2 H3 H4 H5 H6 H7 H8] E. cbn [lstep] in E.
  destruct (l_main s) eqn:Em; try discriminate; inversion E; subst; clear E; constructor; linv_close H1 H2 H3 H4 H5 H6 H7 H8.
  all: try (intro Hx; specialize (H2 Hx); congruence).
  all: try (intros ? Hh; inversion Hh; subst; reflexivity).
  all: try (intros ? [Hh|Hh]; try discriminate; inversion Hh; subst; apply H4; right; reflexivity).
  all: try (intros ? ? [Hh|Hh]; try discriminate; inversion Hh; subst; apply H5; right; reflexivity).
Qed.

Lemma step_main_abort s s' : LInv s -> lstep s LMainFwdAbort = Some s' -> LInv s'.
Proof.
  intros [H1 H2 H3 H4 H5 H6 H7 H8] E. cbn [lstep] in E. destruct (l_cancelled s) eqn:Ec; [|discriminate].
  destruct (l_main s) eqn:Em; try discriminate; inversion E; subst; clear E; constructor; linv_close H1 H2 H3 H4 H5 H6 H7 H8.
  all: try (intro Hx; specialize (H2 Hx); congruence).
Qed.

Lemma step_main_exit s s' : LInv s -> lstep s LMainExit = Some s' -> LInv s'.
Proof.
  intros [H1 H2 H3 H4 H5 H6 H7 H8] E. cbn [lstep] in E. destruct (l_cancelled s) eqn:Ec; [|discriminate].
  destruct (l_main s) eqn:Em; try discriminate. inversion E; subst; clear E.
  constructor; fields; cbn [reg_shutdown shut wm issued live cancelled]; auto; try (intros; discriminate).
  - intros hb [Hh|Hh]; [|discriminate]. destruct (H4 hb (or_introl Hh)) as (w & A & B). exists w. auto.
  - intros h v [Hh|Hh]; [|discriminate]. destruct (H5 h v (or_introl Hh)) as (w & A & B). exists w. auto.
  - apply (regops_step _ RShutdown). exact H6.
  - rewrite Ec. exact H8.
Qed.

Lemma step_worker_exit s s' : LInv s -> lstep s LWorkerExit = Some s' -> LInv s'.
Proof.
  intros [H1 H2 H3 H4 H5 H6 H7 H8] E. cbn [lstep] in E. destruct (l_cancelled s) eqn:Ec; [|discriminate].
  destruct (l_worker s) eqn:Ew; try discriminate. inversion E; subst; clear E. constructor; linv_close H1 H2 H3 H4 H5 H6 H7 H8.
Qed.

Lemma apply_effect_inv e s s' : LInv s -> l_worker s = WSelect -> apply_effect e s = Some s' -> LInv s'.
Proof.
  intros I0 Hw E. destruct e as [|v|b|k']; cbn [apply_effect] in E.
  - inversion E; subst; exact I0.
  - destruct (N.ltb v (l_wv s)); [discriminate|]. inversion E; subst s'; clear E.
    destruct I0 as [H1 H2 H3 H4 H5 H6 H7 H8]. constructor; linv_close H1 H2 H3 H4 H5 H6 H7 H8.
  - assert (I1 : LInv (new_round (l_wh s + 1) s)) by (apply new_round_inv; assumption).
    destruct b as [k|]; [|inversion E; subst; exact I1].
    destruct (N.eqb (fst k) (l_wh (new_round (l_wh s + 1) s))) eqn:Ek; [|discriminate]. apply N.eqb_eq in Ek. eapply enter_spi_inv; eauto.
  - destruct (N.eqb (fst k') (l_wh s)) eqn:Eh; [|discriminate]. apply N.eqb_eq in Eh. eapply enter_spi_inv; eauto.
Qed.

Lemma step_worker_msg e s s' : LInv s -> lstep s (LWorkerMsg e) = Some s' -> LInv s'.
Proof.
  intros I E. cbn [lstep] in E. destruct (l_worker s) eqn:Ew; try discriminate. destruct (l_msgs s) as [|k] eqn:Ek; try discriminate.
  set (s0 := {| l_cancelled := l_cancelled s; l_main := l_main s; l_worker := WSelect; l_wh := l_wh s; l_wv := l_wv s; l_armed := l_armed s;
                l_reg := l_reg s; l_maxsync := l_maxsync s; l_upd := l_upd s; l_elect := l_elect s; l_msgs := k; l_rounds := l_rounds s |}) in *.
  assert (I0 : LInv s0).
  { destruct I as [H1 H2 H3 H4 H5 H6 H7 H8]. subst s0. constructor; linv_close H1 H2 H3 H4 H5 H6 H7 H8. }
  eapply apply_effect_inv; [exact I0|reflexivity|exact E].
Qed.

Lemma step_worker_elect b s s' : LInv s -> lstep s (LWorkerElect b) = Some s' -> LInv s'.
Proof.
  intros I E. cbn [lstep] in E. destruct (l_worker s) eqn:Ew; try discriminate. destruct (l_elect s) as [[h v]|] eqn:Ee; try discriminate.
  fields.
  destruct (N.eqb h (l_wh s) && N.eqb v (l_wv s)) eqn:Ehv.
  - apply andb_true_iff in Ehv. destruct Ehv as [Eh Ev]. apply N.eqb_eq in Eh, Ev. subst h v.
    set (s1 := {| l_cancelled := l_cancelled s; l_main := l_main s; l_worker := WSelect; l_wh := l_wh s; l_wv := l_wv s + 1; l_armed := Some (l_wh s, l_wv s + 1);
                  l_reg := l_reg s; l_maxsync := l_maxsync s; l_upd := l_upd s; l_elect := None; l_msgs := l_msgs s; l_rounds := l_rounds s |}) in *.
    assert (I1 : LInv s1).
    { destruct I as [H1 H2 H3 H4 H5 H6 H7 H8]. subst s1. constructor; linv_close H1 H2 H3 H4 H5 H6 H7 H8.
      all: try (intros ? ? [Hh|Hh]; try discriminate; apply H5; right; exact Hh). }
    destruct b as [k|]; [|inversion E; subst; exact I1].
    destruct (N.eqb (fst k) (l_wh s)) eqn:Ek; [|discriminate]. apply N.eqb_eq in Ek. eapply enter_spi_inv; eauto.
  - destruct b; [discriminate|]. inversion E; subst; clear E.
    destruct I as [H1 H2 H3 H4 H5 H6 H7 H8]. constructor; linv_close H1 H2 H3 H4 H5 H6 H7 H8.
    all: try (intros ? ? [Hh|Hh]; try discriminate; apply H5; right; exact Hh).
Qed.

Lemma step_worker_sync b s s' : LInv s -> lstep s (LWorkerSync b) = Some s' -> LInv s'.
Proof.
  intros I E. cbn [lstep] in E. destruct (l_worker s) eqn:Ew; try discriminate. destruct (l_upd s) as [hb|] eqn:Eu; try discriminate.
  set (s0 := {| l_cancelled := l_cancelled s; l_main := l_main s; l_worker := WSelect; l_wh := l_wh s; l_wv := l_wv s; l_armed := l_armed s;
                l_reg := l_reg s; l_maxsync := l_maxsync s; l_upd := None; l_elect := l_elect s; l_msgs := l_msgs s; l_rounds := l_rounds s |}) in *.
  assert (I0 : LInv s0).
  { destruct I as [H1 H2 H3 H4 H5 H6 H7 H8]. subst s0. constructor; linv_close H1 H2 H3 H4 H5 H6 H7 H8.
    all: try (intros ? [Hh|Hh]; try discriminate; apply H4; right; exact Hh). }
  destruct (N.leb (l_wh s0) hb).
  - assert (I1 : LInv (new_round (hb + 1) s0)) by (apply new_round_inv; [exact I0|reflexivity]).
    destruct b as [k|]; [|inversion E; subst; exact I1].
    destruct (N.eqb (fst k) (l_wh (new_round (hb + 1) s0))) eqn:Ek; [|discriminate]. apply N.eqb_eq in Ek. eapply enter_spi_inv; eauto.
  - destruct b; [discriminate|]. inversion E; subst; exact I0.
Qed.

Lemma unbusy_inv s : LInv s -> LInv (set_worker WSelect s).
Proof. intros [H1 H2 H3 H4 H5 H6 H7 H8]. constructor; linv_close H1 H2 H3 H4 H5 H6 H7 H8. Qed.

Lemma step_spi_return e s s' : LInv s -> lstep s (LSpiReturn e) = Some s' -> LInv s'.
Proof.
  intros I E. cbn [lstep] in E. destruct (l_worker s) eqn:Ew; try discriminate.
  eapply apply_effect_inv; [apply unbusy_inv; exact I|reflexivity|exact E].
Qed.

Lemma step_spi_released e s s' : LInv s -> lstep s (LSpiReleased e) = Some s' -> LInv s'.
Proof.
  intros I E. cbn [lstep] in E. destruct (l_worker s) eqn:Ew; try discriminate. destruct (ctx_done (l_reg s) k); [|discriminate].
  eapply apply_effect_inv; [apply unbusy_inv; exact I|reflexivity|exact E].
Qed.

Lemma lstep_inv s l s' : LInv s -> lstep s l = Some s' -> LInv s'.
Proof.
  intros I E. destruct l.
  - eapply step_cancel; eauto.
  - eapply step_api_sync; eauto.
  - eapply step_api_msg; eauto.
  - eapply step_timer; eauto.
  - eapply step_timer_stale; eauto.
  - eapply step_main_fwd; eauto.
  - eapply step_main_abort; eauto.
  - eapply step_main_exit; eauto.
  - eapply step_worker_exit; eauto.
  - eapply step_worker_msg; eauto.
  - eapply step_worker_elect; eauto.
  - eapply step_worker_sync; eauto.
  - eapply step_spi_return; eauto.
  - eapply step_spi_released; eauto.
Qed.

Lemma lrun_inv ls : forall s s', LInv s -> lrun s ls = Some s' -> LInv s'.
Proof.
  induction ls as [|l r IH]; intros s s' I E; cbn [lrun] in E; [inversion E; subst; exact I|].
  destruct (lstep s l) as [s1|] eqn:E1; [|discriminate]. eapply IH; [eapply lstep_inv; eauto|exact E].
Qed.

Theorem reach_inv s : reach s -> LInv s.
Proof. intros [ls E]. eapply lrun_inv; [exact LInv_init|exact E]. Qed.

(* ---- second invariant: upper bounds (what the watermark, the slots and the timer can hold) ---- *)
Definition hvle (a b : hv) : Prop := fst a < fst b \/ (fst a = fst b /\ snd a <= snd b).

Definition syncbound (s : lstate) : option N :=
  match l_main s with MFwdSync mx => Some mx | _ => l_maxsync s end.

Record LInv2 (s : lstate) : Prop := {
  l2_armed : forall h v, l_armed s = Some (h, v) -> h = l_wh s /\ v = l_wv s;
  l2_elect : forall h v, l_elect s = Some (h, v) -> hvle (h, v) (l_wh s, l_wv s);
  l2_trig : forall h v, l_main s = MFwdTrig h v -> hvle (h, v) (l_wh s, l_wv s);
  l2_syncnew : forall hb mx, l_main s = MFwdSync hb -> l_maxsync s = Some mx -> mx < hb;
  l2_wm : forall w, wm (l_reg s) = Some w ->
          hvle w (l_wh s, l_wv s + 1) \/ (exists mx, syncbound s = Some mx /\ hvle w (mx + 1, 0)) \/ l_cancelled s = true;
  l2_rounds : forall x, In x (l_rounds s) -> x <= l_wh s;
  l2_sorted : StronglySorted (fun a b => b < a) (l_rounds s)
}.

Lemma LInv2_init : LInv2 l_init.
Proof. constructor; cbn; try (intros; discriminate); try (intros ? []). constructor. Qed.

Lemma wm_cancel_older k r w : wm (reg_cancel_older k r) = Some w -> (w = k /\ (forall w0, wm r = Some w0 -> hv_lt w0 k = true)) \/ wm r = Some w.
Proof.
  unfold reg_cancel_older. cbn [wm]. destruct (wm r) as [w0|].
  - destruct (hv_lt w0 k) eqn:E; intro H; inversion H; subst; [left; split; [reflexivity|intros ? Hx; inversion Hx; subst; exact E]|right; reflexivity].
  - intro H; inversion H; subst. left. split; [reflexivity|intros; discriminate].
Qed.

Ltac hvle_tac := unfold hvle in *; cbn [fst snd] in *; lia.

Lemma LInv2_gc s : LInv2 s -> LInv2 (gc s).
Proof.
  intros [A B C D E F G]. constructor; fields; auto.
  intros w Hw. destruct (wm_cancel_older _ _ _ Hw) as [[-> _]|Hw']; [left; hvle_tac|]. unfold syncbound in *. fields. auto.
Qed.

Ltac sb := unfold syncbound in *; fields.

Lemma enter_spi_inv2 k s s' : LInv2 s -> enter_spi k s = Some s' -> LInv2 s'.
Proof.
  intros [A B C D E F G] H. unfold enter_spi in H. destruct (fst (reg_for k (l_reg s))); [|discriminate]. inversion H; subst; clear H.
  constructor; sb; rewrite ?wm_for; auto.
Qed.

Lemma new_round_inv2 h s : LInv2 s -> LInv2 (new_round h s).
Proof.
  intros [A B C D E F G]. unfold new_round. destruct (fst (reg_for (h, 0) (l_reg s))); cbn [negb]; [|constructor; auto].
  destruct (N.leb_spec h (l_wh s)) as [Hle|Hlt]; constructor; sb; rewrite ?wm_for; auto.
  - intros h' v' Hx. inversion Hx; subst. auto.
  - intros h' v' Hx. specialize (B _ _ Hx). hvle_tac.
  - intros h' v' Hx. specialize (C _ _ Hx). hvle_tac.
  - intros w Hw. destruct (E w Hw) as [X|[X|X]]; auto. left. hvle_tac.
  - intros x [<-|Hx]; [lia|]. specialize (F x Hx). lia.
  - constructor; [exact G|]. apply Forall_forall. intros x Hx. specialize (F x Hx). lia.
Qed.

Lemma for_after_cancel_self k r : shut r = false -> fst (reg_for k (reg_cancel_older k r)) = false ->
  exists w, wm r = Some w /\ hv_lt k w = true /\ wm (reg_cancel_older k r) = Some w.
Proof.
  intros Hs Hf. unfold reg_for in Hf. cbn [shut wm reg_cancel_older] in Hf. rewrite Hs in Hf.
  destruct (wm r) as [w0|] eqn:Ew.
  - destruct (hv_lt w0 k) eqn:E.
    + exfalso. replace (hv_lt k k) with false in Hf by (symmetry; apply hv_lt_false; lia). cbn in Hf; try discriminate; destruct (memHV _ _); discriminate.
    + destruct (hv_lt k w0) eqn:E2; [|cbn in Hf; try discriminate; destruct (memHV _ _); discriminate].
      exists w0. split; [reflexivity|]. split; [exact E2|]. unfold reg_cancel_older. cbn [wm]. rewrite Ew, E. reflexivity.
  - exfalso. replace (hv_lt k k) with false in Hf by (symmetry; apply hv_lt_false; lia). cbn in Hf; try discriminate; destruct (memHV _ _); discriminate.
Qed.

Lemma apply_effect_inv2 e s s' : LInv2 s -> apply_effect e s = Some s' -> LInv2 s'.
Proof.
  intros I0 H. destruct e as [|v|b|k']; cbn [apply_effect] in H.
  - inversion H; subst; exact I0.
  - destruct (N.ltb_spec v (l_wv s)) as [Hlt|Hge]; [discriminate|]. inversion H; subst s'; clear H.
    destruct I0 as [A B C D E F G]. constructor; sb; auto.
    + intros h' v' Hx. inversion Hx; subst. auto.
    + intros h' v' Hx. specialize (B _ _ Hx). hvle_tac.
    + intros h' v' Hx. specialize (C _ _ Hx). hvle_tac.
    + intros w Hw. destruct (E w Hw) as [X|[X|X]]; auto. left. hvle_tac.
  - pose proof (new_round_inv2 (l_wh s + 1) s I0) as I1.
    destruct b as [k|]; [|inversion H; subst; exact I1].
    destruct (N.eqb (fst k) (l_wh (new_round (l_wh s + 1) s))); [|discriminate]. eapply enter_spi_inv2; eauto.
  - destruct (N.eqb (fst k') (l_wh s)); [|discriminate]. eapply enter_spi_inv2; eauto.
Qed.

Lemma lstep_inv2 s l s' : LInv s -> LInv2 s -> lstep s l = Some s' -> LInv2 s'.
Proof.
  intros I I2 H. destruct l; cbn [lstep] in H.
  - (* LCancel *) inversion H; subst; clear H. destruct I2 as [A B C D E F G]. constructor; sb; auto.
  - (* LApiSync *) destruct (l_main s) eqn:Em; try discriminate. pose proof (LInv2_gc s I2) as Ig. pose proof (LInv_gc s I) as Ig1.
    assert (Emg : l_main (gc s) = MSelect) by exact Em. remember (gc s) as s0 eqn:Es0. clear Es0 I I2 Em s.
    destruct (match l_maxsync s0 with Some mx => hb <=? mx | None => false end) eqn:Eb; [inversion H; subst; exact Ig|].
    assert (Hnew : forall mx, l_maxsync s0 = Some mx -> mx < hb).
    { intros mx Hx. rewrite Hx in Eb. apply N.leb_gt in Eb. exact Eb. }
    assert (Hs : shut (l_reg s0) = false).
    { destruct (shut (l_reg s0)) eqn:Es; [|reflexivity]. apply (li_shut _ Ig1) in Es. congruence. }
    destruct Ig as [A B C D E F G].
    destruct (fst (reg_for (hb + 1, 0) (reg_cancel_older (hb + 1, 0) (l_reg s0)))) eqn:Ef; inversion H; subst; clear H; constructor; sb; rewrite ?wm_for; auto;
      try (intros; discriminate); try (intros ? ? Hx; rewrite Emg in Hx; discriminate).
    + intros hb' mx' Hx Hy. inversion Hx; subst. auto.
    + intros w Hw. destruct (wm_cancel_older _ _ _ Hw) as [[-> _]|Hw']; [right; left; exists hb; split; [reflexivity|hvle_tac]|].
      destruct (E w Hw') as [X|[(mx' & X1 & X2)|X]]; auto. right; left. exists hb. split; [reflexivity|]. rewrite Emg in X1. specialize (Hnew _ X1). hvle_tac.
    + intros w Hw. destruct (for_after_cancel_self _ _ Hs Ef) as (w0 & W1 & W2 & W3). rewrite W3 in Hw. inversion Hw; subst. rewrite Emg in *. auto.
  - (* LApiMsg *) destruct (l_main s) eqn:Em; try discriminate. inversion H; subst; clear H.
    destruct (LInv2_gc s I2) as [A B C D E F G]. constructor; sb; auto; try (intros; discriminate). rewrite Em in E. exact E.
  - (* LTimerTrig *) destruct (l_main s) eqn:Em; try discriminate. destruct (l_armed s) as [[h v]|] eqn:Ea; try discriminate.
    pose proof (LInv2_gc s I2) as Ig. pose proof (LInv_gc s I) as Ig1.
    assert (Emg : l_main (gc s) = MSelect) by exact Em. assert (Eag : l_armed (gc s) = Some (h, v)) by exact Ea.
    remember (gc s) as s0 eqn:Es0. clear Es0 I I2 Em Ea s.
    assert (Hs : shut (l_reg s0) = false).
    { destruct (shut (l_reg s0)) eqn:Es; [|reflexivity]. apply (li_shut _ Ig1) in Es. congruence. }
    destruct Ig as [A B C D E F G]. destruct (A _ _ Eag) as [-> ->].
    destruct (fst (reg_for (l_wh s0, l_wv s0 + 1) (reg_cancel_older (l_wh s0, l_wv s0 + 1) (l_reg s0)))) eqn:Ef; inversion H; subst; clear H; constructor; sb; rewrite ?wm_for; auto;
      try (intros; discriminate); try (intros ? ? Hx; rewrite Emg in Hx; discriminate).
    + intros h' v' Hx. inversion Hx; subst. hvle_tac.
    + intros w Hw. destruct (wm_cancel_older _ _ _ Hw) as [[-> _]|Hw']; [left; hvle_tac|]. rewrite Emg in E. auto.
    + intros w Hw. destruct (wm_cancel_older _ _ _ Hw) as [[-> _]|Hw']; [left; hvle_tac|]. rewrite Emg in *. auto.
  - (* LTimerStale *) destruct (l_main s) eqn:Em; try discriminate. destruct (hv_lt (h, v) (l_wh s, l_wv s)) eqn:Eold; cbn [negb] in H; [|discriminate].
    pose proof (LInv2_gc s I2) as Ig. pose proof (LInv_gc s I) as Ig1.
    assert (Emg : l_main (gc s) = MSelect) by exact Em. assert (Eo : hv_lt (h, v) (l_wh (gc s), l_wv (gc s)) = true) by exact Eold.
    remember (gc s) as s0 eqn:Es0. clear Es0 I I2 Em Eold s. apply hv_lt_spec in Eo.
    destruct Ig as [A B C D E F G].
    destruct (fst (reg_for (h, v + 1) (reg_cancel_older (h, v + 1) (l_reg s0)))) eqn:Ef; inversion H; subst; clear H; constructor; sb; rewrite ?wm_for; auto;
      try (intros; discriminate); try (intros ? ? Hx; rewrite Emg in Hx; discriminate).
    + intros h' v' Hx. inversion Hx; subst. hvle_tac.
    + intros w Hw. destruct (wm_cancel_older _ _ _ Hw) as [[-> _]|Hw']; [left; hvle_tac|]. rewrite Emg in E. auto.
    + intros w Hw. destruct (wm_cancel_older _ _ _ Hw) as [[-> _]|Hw']; [left; hvle_tac|]. rewrite Emg in *. auto.
  - (* LMainFwd *) destruct I2 as [A B C D E F G].
    destruct (l_main s) eqn:Em; try discriminate; inversion H; subst; clear H; constructor; sb; auto; try (intros; discriminate).
    + intros w Hw. rewrite Em in E. destruct (E w Hw) as [X|[X|X]]; auto.
    + intros h' v' Hx. inversion Hx; subst. apply C. reflexivity.
    + rewrite Em in E. exact E.
  - (* LMainFwdAbort *) destruct I2 as [A B C D E F G]. destruct (l_cancelled s) eqn:Ec; [|discriminate].
    destruct (l_main s) eqn:Em; try discriminate; inversion H; subst; clear H; constructor; sb; auto; try (intros; discriminate).
  - (* LMainExit *) destruct I2 as [A B C D E F G]. destruct (l_cancelled s) eqn:Ec; [|discriminate].
    destruct (l_main s) eqn:Em; try discriminate; inversion H; subst; clear H; constructor; sb; auto; try (intros; discriminate).
  - (* LWorkerExit *) destruct I2 as [A B C D E F G]. destruct (l_cancelled s) eqn:Ec; [|discriminate].
    destruct (l_worker s) eqn:Ew; try discriminate; inversion H; subst; clear H; constructor; sb; auto; try (intros; discriminate).
  - (* LWorkerMsg *) destruct (l_worker s) eqn:Ew; try discriminate. destruct (l_msgs s) as [|k] eqn:Ek; try discriminate.
    eapply apply_effect_inv2; [|exact H]. destruct I2 as [A B C D E F G]; constructor; auto.
  - (* LWorkerElect *) destruct (l_worker s) eqn:Ew; try discriminate. destruct (l_elect s) as [[h v]|] eqn:Ee; try discriminate. fields.
    destruct (N.eqb h (l_wh s) && N.eqb v (l_wv s)) eqn:Ehv.
    + apply andb_true_iff in Ehv. destruct Ehv as [Eh Ev]. apply N.eqb_eq in Eh, Ev. subst h v.
      set (s1 := {| l_cancelled := l_cancelled s; l_main := l_main s; l_worker := WSelect; l_wh := l_wh s; l_wv := l_wv s + 1; l_armed := Some (l_wh s, l_wv s + 1);
                    l_reg := l_reg s; l_maxsync := l_maxsync s; l_upd := l_upd s; l_elect := None; l_msgs := l_msgs s; l_rounds := l_rounds s |}) in *.
      assert (I1 : LInv2 s1).
      { destruct I2 as [A B C D E F G]. subst s1. constructor; sb; auto; try (intros; discriminate).
        * intros h' v' Hx. inversion Hx; subst. auto.
        * intros h' v' Hx. specialize (C _ _ Hx). hvle_tac.
        * intros w Hw. destruct (E w Hw) as [X|[X|X]]; auto. left. hvle_tac. }
      destruct block as [k|]; [|inversion H; subst; exact I1].
      destruct (N.eqb (fst k) (l_wh s)); [|discriminate]. eapply enter_spi_inv2; eauto.
    + destruct block; [discriminate|]. inversion H; subst; clear H. destruct I2 as [A B C D E F G]. constructor; sb; auto; try (intros; discriminate).
  - (* LWorkerSync *) destruct (l_worker s) eqn:Ew; try discriminate. destruct (l_upd s) as [hb|] eqn:Eu; try discriminate.
    set (s0 := {| l_cancelled := l_cancelled s; l_main := l_main s; l_worker := WSelect; l_wh := l_wh s; l_wv := l_wv s; l_armed := l_armed s;
                  l_reg := l_reg s; l_maxsync := l_maxsync s; l_upd := None; l_elect := l_elect s; l_msgs := l_msgs s; l_rounds := l_rounds s |}) in *.
    assert (I0 : LInv2 s0) by (destruct I2 as [A B C D E F G]; constructor; auto).
    destruct (N.leb (l_wh s0) hb).
    * pose proof (new_round_inv2 (hb + 1) s0 I0) as I1.
      destruct block as [k|]; [|inversion H; subst; exact I1].
      destruct (N.eqb (fst k) (l_wh (new_round (hb + 1) s0))); [|discriminate]. eapply enter_spi_inv2; eauto.
    * destruct block; [discriminate|]. inversion H; subst; exact I0.
  - (* LSpiReturn *) destruct (l_worker s) eqn:Ew; try discriminate.
    eapply apply_effect_inv2; [|exact H]. destruct I2 as [A B C D E F G]; constructor; sb; auto.
  - (* LSpiReleased *) destruct (l_worker s) eqn:Ew; try discriminate. destruct (ctx_done (l_reg s) k); [|discriminate].
    eapply apply_effect_inv2; [|exact H]. destruct I2 as [A B C D E F G]; constructor; sb; auto.
Qed.

Lemma lrun_inv2 ls : forall s s', LInv s -> LInv2 s -> lrun s ls = Some s' -> LInv2 s'.
Proof.
  induction ls as [|l r IH]; intros s s' I I2 E; cbn [lrun] in E; [inversion E; subst; exact I2|].
  destruct (lstep s l) as [s1|] eqn:E1; [|discriminate]. eapply IH; [eapply lstep_inv; eauto|eapply lstep_inv2; eauto|exact E].
Qed.

Theorem reach_inv2 s : reach s -> LInv2 s.
Proof. intros [ls E]. eapply lrun_inv2; [exact LInv_init|exact LInv2_init|exact E]. Qed.

(* ================= theorems about every interleaving ================= *)

Lemma done_below_wm r k w : (exists ops, r = reg_run ops) -> In k (issued r) -> wm r = Some w -> hv_lt k w = true -> ctx_done r k = true.
Proof.
  intros [ops ->] Hi Hw Hlt. apply (ctx_done_iff ops k Hi). right. intro Hl.
  pose proof (inv_live_fresh _ _ (reg_inv_reachable ops) _ _ Hl Hw). congruence.
Qed.

Lemma for_fails_why k r : fst (reg_for k r) = false -> shut r = true \/ exists w, wm r = Some w /\ hv_lt k w = true.
Proof.
  unfold reg_for. destruct (shut r); [left; reflexivity|]. destruct (wm r) as [w|].
  - destruct (hv_lt k w) eqn:E; [right; exists w; auto|]. cbn [fst]. discriminate.
  - cbn [fst]. discriminate.
Qed.

(* --- C16 / C12: the terminal flag of the context registry is only ever set by the main loop's exit, which needs the Run
   context to be cancelled: no input (message, trigger, sync) can disable the node --- *)
Theorem shutdown_flag_only_after_cancel s : reach s -> shut (l_reg s) = true -> l_main s = MExited /\ l_cancelled s = true.
Proof. intros R H. pose proof (reach_inv s R) as I. pose proof (li_shut _ I H) as E. split; [exact E|]. apply (li_exit _ I E). Qed.

(* --- C16: from every reachable state in which the Run context is cancelled, the loops' own exit steps are enabled and
   at most four of them end both loops, whatever the worker is doing (idle, or inside an SPI call that waits on its context) --- *)
Definition own_exit_label (l : label) : bool :=
  match l with LMainFwdAbort | LMainExit | LSpiReleased ENothing | LWorkerExit => true | _ => false end.

Theorem shutdown_completes s : reach s -> l_cancelled s = true ->
  exists ls s', lrun s ls = Some s' /\ (length ls <= 4)%nat /\ forallb own_exit_label ls = true /\ l_main s' = MExited /\ l_worker s' = WExited.
Proof.
  intros R Hc.
  (* phase 1: the main loop reaches MExited *)
  assert (P1 : exists ls s1, lrun s ls = Some s1 /\ (length ls <= 2)%nat /\ forallb own_exit_label ls = true /\ l_main s1 = MExited /\ l_cancelled s1 = true /\ l_worker s1 = l_worker s).
  { destruct (l_main s) eqn:Em.
    - exists [LMainExit]. eexists. cbn [lrun lstep]. rewrite Hc, Em. split; [reflexivity|]. cbn. repeat split; auto.
    - exists [LMainFwdAbort; LMainExit]. eexists. cbn [lrun lstep]. rewrite Hc, Em. fields. rewrite Hc. split; [reflexivity|]. cbn. repeat split; auto.
    - exists [LMainFwdAbort; LMainExit]. eexists. cbn [lrun lstep]. rewrite Hc, Em. fields. rewrite Hc. split; [reflexivity|]. cbn. repeat split; auto.
    - exists []. exists s. cbn. repeat split; auto. }
  destruct P1 as (ls1 & s1 & R1 & L1 & F1 & M1 & C1 & W1).
  assert (Rs1 : reach s1).
  { destruct R as [ls0 R0]. exists (ls0 ++ ls1). clear - R0 R1. revert R0. generalize l_init. induction ls0 as [|l r IH]; intros s0 R0; cbn [lrun app] in *; [inversion R0; subst; exact R1|].
    destruct (lstep s0 l); [apply IH; exact R0|discriminate]. }
  pose proof (reach_inv s1 Rs1) as I1.
  assert (P2 : exists ls s2, lrun s1 ls = Some s2 /\ (length ls <= 2)%nat /\ forallb own_exit_label ls = true /\ l_main s2 = MExited /\ l_worker s2 = WExited).
  { destruct (l_worker s1) eqn:Ew.
    - exists [LWorkerExit]. eexists. cbn [lrun lstep]. rewrite C1, Ew. split; [reflexivity|]. cbn. repeat split; auto.
    - assert (D : ctx_done (l_reg s1) k = true).
      { unfold ctx_done. destruct (li_exit _ I1 M1) as [_ Hs]. rewrite Hs. destruct (li_busy _ I1 _ Ew) as [_ Hi].
        apply memHV_In in Hi. rewrite Hi. cbn. apply orb_true_r. }
      exists [LSpiReleased ENothing; LWorkerExit]. eexists. cbn [lrun lstep apply_effect]. rewrite Ew, D. fields. rewrite C1. split; [reflexivity|]. cbn. repeat split; auto.
    - exists []. exists s1. cbn. repeat split; auto. }
  destruct P2 as (ls2 & s2 & R2 & L2 & F2 & M2 & W2).
  exists (ls1 ++ ls2), s2. split; [|split; [rewrite app_length; lia|split; [rewrite forallb_app, F1, F2; reflexivity|auto]]].
  clear - R1 R2. revert R1. generalize s. induction ls1 as [|l r IH]; intros s0 R0; cbn [lrun app] in *; [inversion R0; subst; exact R2|].
  destruct (lstep s0 l); [apply IH; exact R0|discriminate].
Qed.

(* --- C16: once both loops have exited nothing happens any more: no worker step is enabled (so no callback, no send,
   no timer arming), the timer is stopped, and the state is frozen --- *)
Definition worker_label (l : label) : bool :=
  match l with LWorkerMsg _ | LWorkerElect _ | LWorkerSync _ | LSpiReturn _ | LSpiReleased _ | LWorkerExit => true | _ => false end.

Theorem nothing_after_shutdown s : reach s -> l_worker s = WExited ->
  l_armed s = None /\ l_cancelled s = true /\
  (forall l, worker_label l = true -> lstep s l = None) /\
  (forall l s', lstep s l = Some s' -> l_worker s' = WExited /\ l_wh s' = l_wh s /\ l_wv s' = l_wv s /\ l_rounds s' = l_rounds s /\ l_armed s' = None).
Proof.
  intros R Hw. pose proof (reach_inv s R) as I. destruct (li_wexit _ I Hw) as [Hc Ha]. split; [exact Ha|]. split; [exact Hc|]. split.
  - intros l Hl. destruct l; try discriminate; cbn [lstep]; rewrite Hw; try reflexivity. destruct (l_cancelled s); reflexivity.
  - intros l s' H. destruct l; cbn [lstep] in H; rewrite ?Hw in H; try discriminate.
    + inversion H; subst. cbn. auto.
    + destruct (l_main s); try discriminate.
      destruct (match l_maxsync (gc s) with Some mx => hb <=? mx | None => false end); [inversion H; subst; cbn; auto|].
      destruct (fst (reg_for _ _)); inversion H; subst; cbn; auto.
    + destruct (l_main s); try discriminate. inversion H; subst; cbn; auto.
    + destruct (l_main s); try discriminate. rewrite Ha in H. discriminate.
    + destruct (l_main s); try discriminate. destruct (negb _); [discriminate|].
      destruct (fst (reg_for _ _)); inversion H; subst; cbn; auto.
    + destruct (l_main s); try discriminate; inversion H; subst; cbn; auto.
    + destruct (l_cancelled s); [|discriminate]. destruct (l_main s); try discriminate; inversion H; subst; cbn; auto.
    + destruct (l_cancelled s); [|discriminate]. destruct (l_main s); try discriminate; inversion H; subst; cbn; auto.
    + destruct (l_cancelled s); discriminate.
Qed.

(* --- C14 / C16: the main loop never blocks on the worker: a pending forward can always complete, whatever the worker is
   doing, and in its select state every API input is accepted --- *)
Theorem main_never_blocks s : l_main s <> MExited ->
  (l_main s = MSelect /\ (forall hb, lstep s (LApiSync hb) <> None) /\ lstep s LApiMsg <> None) \/
  (exists s', lstep s LMainFwd = Some s' /\ l_main s' = MSelect /\ l_worker s' = l_worker s).
Proof.
  intro Hne. destruct (l_main s) eqn:Em; try congruence.
  - left. split; [reflexivity|]. split.
    + intro hb. cbn [lstep]. rewrite Em. destruct (match l_maxsync (gc s) with Some mx => hb <=? mx | None => false end); [discriminate|].
      destruct (fst (reg_for _ _)); discriminate.
    + cbn [lstep]. rewrite Em. discriminate.
  - right. eexists. cbn [lstep]. rewrite Em. split; [reflexivity|]. cbn. auto.
  - right. eexists. cbn [lstep]. rewrite Em. split; [reflexivity|]. cbn. auto.
Qed.

(* --- C14: what accepting UpdateState(block of height hb) does. Either the sync is on its way to the worker, or it is
   superseded: a sync at least as new was forwarded before, the worker is already above hb, or the node is shutting down --- *)
Theorem sync_accepted_or_superseded s hb s1 : reach s -> lstep s (LApiSync hb) = Some s1 ->
  l_main s1 = MFwdSync hb \/ (exists mx, l_maxsync s1 = Some mx /\ hb <= mx) \/ hb < l_wh s1 \/ l_cancelled s1 = true.
Proof.
  intros R H. assert (R1 : reach s1).
  { destruct R as [ls0 R0]. exists (ls0 ++ [LApiSync hb]). clear - R0 H. revert R0. generalize l_init. induction ls0 as [|l r IH]; intros s0 R0; cbn [lrun app] in *.
    - inversion R0; subst. rewrite H. reflexivity.
    - destruct (lstep s0 l); [apply IH; exact R0|discriminate]. }
  pose proof (reach_inv2 s1 R1) as I2. pose proof (reach_inv s R) as I. pose proof (LInv_gc s I) as Ig.
  cbn [lstep] in H. destruct (l_main s) eqn:Em; try discriminate.
  assert (Emg : l_main (gc s) = MSelect) by exact Em. remember (gc s) as s0 eqn:Es0. clear Es0.
  destruct (l_maxsync s0) as [mx|] eqn:Emx.
  - destruct (N.leb_spec hb mx) as [Hle|Hlt].
    + inversion H; subst. right; left. exists mx. auto.
    + destruct (fst (reg_for (hb + 1, 0) (reg_cancel_older (hb + 1, 0) (l_reg s0)))) eqn:Ef; inversion H; subst; clear H; [left; reflexivity|].
      assert (Hs : shut (l_reg s0) = false) by (destruct (shut (l_reg s0)) eqn:Es; [apply (li_shut _ Ig) in Es; congruence|reflexivity]).
      destruct (for_after_cancel_self _ _ Hs Ef) as (w & W1 & W2 & W3).
      destruct (l2_wm _ I2 w) as [X|[(mx' & X1 & X2)|X]]; fields; auto.
      * apply hv_lt_spec in W2. right; right; left. hvle_tac.
      * unfold syncbound in X1. fields. rewrite Emg, Emx in X1. inversion X1; subst. apply hv_lt_spec in W2. exfalso. hvle_tac.
  - destruct (fst (reg_for (hb + 1, 0) (reg_cancel_older (hb + 1, 0) (l_reg s0)))) eqn:Ef; inversion H; subst; clear H; [left; reflexivity|].
    assert (Hs : shut (l_reg s0) = false) by (destruct (shut (l_reg s0)) eqn:Es; [apply (li_shut _ Ig) in Es; congruence|reflexivity]).
    destruct (for_after_cancel_self _ _ Hs Ef) as (w & W1 & W2 & W3).
    destruct (l2_wm _ I2 w) as [X|[(mx' & X1 & X2)|X]]; fields; auto.
    * apply hv_lt_spec in W2. right; right; left. hvle_tac.
    * unfold syncbound in X1. fields. rewrite Emg, Emx in X1. discriminate.
Qed.

Lemma lrun_app s ls1 ls2 s1 : lrun s ls1 = Some s1 -> lrun s (ls1 ++ ls2) = lrun s1 ls2.
Proof.
  revert s. induction ls1 as [|l r IH]; intros s0 R0; cbn [lrun app] in *; [inversion R0; subst; reflexivity|].
  destruct (lstep s0 l); [apply IH; exact R0|discriminate].
Qed.
Lemma reach_step s l s' : reach s -> lstep s l = Some s' -> reach s'.
Proof. intros [ls R] H. exists (ls ++ [l]). rewrite (lrun_app _ _ _ _ R). cbn [lrun]. rewrite H. reflexivity. Qed.

(* the forward itself: the slot and the filter now hold hb (an older pending sync is overwritten) *)
Theorem sync_forward_fills_slot s hb : l_main s = MFwdSync hb ->
  exists s', lstep s LMainFwd = Some s' /\ l_upd s' = Some hb /\ l_maxsync s' = Some hb /\ l_main s' = MSelect.
Proof. intro Em. eexists. cbn [lstep]. rewrite Em. split; [reflexivity|]. cbn. auto. Qed.

(* the slot always holds the newest sync ever forwarded, and that maximum never decreases *)
Theorem slot_holds_newest s hb : reach s -> l_upd s = Some hb -> l_maxsync s = Some hb.
Proof. intros R H. exact (li_slot _ (reach_inv s R) hb H). Qed.

Theorem maxsync_monotone s l s' mx : reach s -> lstep s l = Some s' -> l_maxsync s = Some mx -> exists mx', l_maxsync s' = Some mx' /\ mx <= mx'.
Proof.
  intros R H Hm. pose proof (reach_inv2 s R) as I2.
  assert (K : forall b, maybe_block b s = Some s' -> l_maxsync s' = l_maxsync s).
  { intros [k|]; cbn [maybe_block]; [|intro E; inversion E; reflexivity]. unfold enter_spi. destruct (fst _); [|discriminate]. intro E; inversion E; reflexivity. }
  assert (KE : forall k x y, enter_spi k x = Some y -> l_maxsync y = l_maxsync x).
  { intros k x y. unfold enter_spi. destruct (fst _); [|discriminate]. intro E; inversion E; reflexivity. }
  assert (KN : forall h x, l_maxsync (new_round h x) = l_maxsync x).
  { intros h x. unfold new_round. destruct (negb _); [reflexivity|]. destruct (N.leb _ _); reflexivity. }
  assert (KA : forall e x y, apply_effect e x = Some y -> l_maxsync y = l_maxsync x).
  { intros e x y. destruct e as [|v|b|k]; cbn [apply_effect].
    - intro E; inversion E; reflexivity.
    - destruct (N.ltb _ _); [discriminate|]. intro E; inversion E; reflexivity.
    - destruct b as [k|]; [|intro E; inversion E; apply KN]. destruct (N.eqb _ _); [|discriminate]. intro E. rewrite (KE _ _ _ E). apply KN.
    - destruct (N.eqb _ _); [|discriminate]. apply KE. }
  destruct l; cbn [lstep] in H.
  - inversion H; subst. exists mx. cbn. split; [exact Hm|lia].
  - destruct (l_main s); try discriminate. destruct (match l_maxsync (gc s) with Some mx0 => hb <=? mx0 | None => false end); [inversion H; subst; exists mx; split; [exact Hm|lia]|].
    destruct (fst (reg_for _ _)); inversion H; subst; exists mx; (split; [exact Hm|lia]).
  - destruct (l_main s); try discriminate. inversion H; subst. exists mx. split; [exact Hm|lia].
  - destruct (l_main s); try discriminate. destruct (l_armed s) as [[h v]|]; try discriminate.
    destruct (fst (reg_for _ _)); inversion H; subst; exists mx; (split; [exact Hm|lia]).
  - destruct (l_main s); try discriminate. destruct (negb _); [discriminate|].
    destruct (fst (reg_for _ _)); inversion H; subst; exists mx; (split; [exact Hm|lia]).
  - destruct (l_main s) eqn:Em; try discriminate; inversion H; subst; cbn.
    + exists hb. split; [reflexivity|]. pose proof (l2_syncnew _ I2 hb mx Em Hm). lia.
    + exists mx. split; [exact Hm|lia].
  - destruct (l_cancelled s); [|discriminate]. destruct (l_main s); try discriminate; inversion H; subst; exists mx; (split; [exact Hm|lia]).
  - destruct (l_cancelled s); [|discriminate]. destruct (l_main s); try discriminate; inversion H; subst; exists mx; (split; [exact Hm|lia]).
  - destruct (l_cancelled s); [|discriminate]. destruct (l_worker s); try discriminate; inversion H; subst; exists mx; (split; [exact Hm|lia]).
  - destruct (l_worker s); try discriminate. destruct (l_msgs s); try discriminate. rewrite (KA _ _ _ H). exists mx. split; [exact Hm|lia].
  - destruct (l_worker s); try discriminate. destruct (l_elect s) as [[h v]|]; try discriminate. fields.
    destruct (N.eqb h (l_wh s) && N.eqb v (l_wv s)).
    + destruct block as [k|]; [|inversion H; subst; exists mx; split; [exact Hm|lia]].
      destruct (N.eqb _ _); [|discriminate]. rewrite (KE _ _ _ H). exists mx. split; [exact Hm|lia].
    + destruct block; [discriminate|]. inversion H; subst. exists mx. split; [exact Hm|lia].
  - destruct (l_worker s); try discriminate. destruct (l_upd s); try discriminate. fields. destruct (N.leb _ _).
    + destruct block as [k|]; [|inversion H; subst; rewrite KN; exists mx; split; [exact Hm|lia]].
      destruct (N.eqb _ _); [|discriminate]. rewrite (KE _ _ _ H), KN. exists mx. split; [exact Hm|lia].
    + destruct block; [discriminate|]. inversion H; subst. exists mx. split; [exact Hm|lia].
  - destruct (l_worker s); try discriminate. rewrite (KA _ _ _ H). exists mx. split; [exact Hm|lia].
  - destruct (l_worker s); try discriminate. destruct (ctx_done _ _); [|discriminate]. rewrite (KA _ _ _ H). exists mx. split; [exact Hm|lia].
Qed.

(* --- C14: an idle worker can always take the pending sync, and afterwards it works on a height above the block -
   unless a still newer sync has been accepted meanwhile (which is then subject to the same theorem) or the node is
   shutting down --- *)
Theorem pending_sync_takes_effect s hb : reach s -> l_upd s = Some hb -> l_worker s = WSelect ->
  exists s', lstep s (LWorkerSync None) = Some s' /\ l_upd s' = None /\
    (hb < l_wh s' \/ (exists mx, syncbound s' = Some mx /\ hb < mx) \/ l_cancelled s' = true).
Proof.
  intros R Hu Hw. pose proof (reach_inv s R) as I. pose proof (reach_inv2 s R) as I2.
  cbn [lstep]. rewrite Hw, Hu. fields. destruct (N.leb_spec (l_wh s) hb) as [Hle|Hgt].
  - eexists. split; [reflexivity|]. unfold new_round. fields.
    destruct (fst (reg_for (hb + 1, 0) (l_reg s))) eqn:Ef; cbn [negb].
    + destruct (N.leb_spec (hb + 1) (l_wh s)); [lia|]. fields. split; [reflexivity|]. left. lia.
    + fields. split; [reflexivity|]. destruct (for_fails_why _ _ Ef) as [Hs|(w & W1 & W2)].
      * right; right. apply (li_shut _ I) in Hs. apply (li_exit _ I Hs).
      * apply hv_lt_spec in W2. destruct (l2_wm _ I2 w W1) as [X|[(mx & X1 & X2)|X]]; auto.
        -- exfalso. hvle_tac.
        -- right; left. exists mx. split; [exact X1|]. hvle_tac.
  - eexists. split; [reflexivity|]. fields. split; [reflexivity|]. left. exact Hgt.
Qed.

(* a sync below the worker's height, taken from the slot, changes nothing but the slot *)
Theorem stale_sync_changes_nothing s hb s' block : l_upd s = Some hb -> hb < l_wh s -> lstep s (LWorkerSync block) = Some s' ->
  block = None /\ l_wh s' = l_wh s /\ l_wv s' = l_wv s /\ l_rounds s' = l_rounds s /\ l_armed s' = l_armed s /\ l_reg s' = l_reg s /\ l_worker s' = WSelect.
Proof.
  intros Hu Hlt H. cbn [lstep] in H. destruct (l_worker s); try discriminate. rewrite Hu in H. fields.
  destruct (N.leb_spec (l_wh s) hb); [lia|]. destruct block; [discriminate|]. inversion H; subst. cbn. auto 10.
Qed.

(* a trigger that is not for the worker's current (height, view) changes nothing but the slot *)
Theorem stale_trigger_changes_nothing s h v s' block : l_elect s = Some (h, v) -> (h, v) <> (l_wh s, l_wv s) -> lstep s (LWorkerElect block) = Some s' ->
  block = None /\ l_wh s' = l_wh s /\ l_wv s' = l_wv s /\ l_rounds s' = l_rounds s /\ l_armed s' = l_armed s /\ l_reg s' = l_reg s /\ l_worker s' = WSelect.
Proof.
  intros He Hne H. cbn [lstep] in H. destruct (l_worker s); try discriminate. rewrite He in H. fields.
  destruct (N.eqb h (l_wh s) && N.eqb v (l_wv s)) eqn:E.
  - apply andb_true_iff in E. destruct E as [E1 E2]. apply N.eqb_eq in E1, E2. subst. congruence.
  - destruct block; [discriminate|]. inversion H; subst. cbn. auto 10.
Qed.

(* --- C15 (b): an SPI call in flight is released - its context is done, so LSpiReleased is enabled - as soon as the main
   loop has processed a sync to a higher height, an election trigger for its (height, view) or a later one, or has exited.
   This holds before the worker has even seen the event (the main loop cancels, then forwards). --- *)
Theorem spi_released_by_sync s k hb : reach s -> l_worker s = WBusy k -> (l_upd s = Some hb \/ l_main s = MFwdSync hb) ->
  hv_lt k (hb + 1, 0) = true -> ctx_done (l_reg s) k = true /\ exists s', lstep s (LSpiReleased ENothing) = Some s' /\ l_worker s' = WSelect.
Proof.
  intros R Hb Hs Hlt. pose proof (reach_inv s R) as I. destruct (li_wm_sync _ I hb Hs) as (w & W1 & W2). destruct (li_busy _ I k Hb) as [_ Hi].
  assert (D : ctx_done (l_reg s) k = true).
  { apply (done_below_wm _ _ w (li_regops _ I) Hi W1). apply hv_lt_spec. apply hv_lt_spec in Hlt. apply hv_lt_false in W2. lia. }
  split; [exact D|]. eexists. cbn [lstep]. rewrite Hb, D. split; [reflexivity|]. reflexivity.
Qed.

Theorem spi_released_by_election s k h v : reach s -> l_worker s = WBusy k -> (l_elect s = Some (h, v) \/ l_main s = MFwdTrig h v) ->
  hv_lt k (h, v + 1) = true -> ctx_done (l_reg s) k = true /\ exists s', lstep s (LSpiReleased ENothing) = Some s' /\ l_worker s' = WSelect.
Proof.
  intros R Hb Hs Hlt. pose proof (reach_inv s R) as I. destruct (li_wm_trig _ I h v Hs) as (w & W1 & W2). destruct (li_busy _ I k Hb) as [_ Hi].
  assert (D : ctx_done (l_reg s) k = true).
  { apply (done_below_wm _ _ w (li_regops _ I) Hi W1). apply hv_lt_spec. apply hv_lt_spec in Hlt. apply hv_lt_false in W2. lia. }
  split; [exact D|]. eexists. cbn [lstep]. rewrite Hb, D. split; [reflexivity|]. reflexivity.
Qed.

Theorem spi_released_by_shutdown s k : reach s -> l_worker s = WBusy k -> l_main s = MExited ->
  ctx_done (l_reg s) k = true /\ exists s', lstep s (LSpiReleased ENothing) = Some s' /\ l_worker s' = WSelect.
Proof.
  intros R Hb Hm. pose proof (reach_inv s R) as I. destruct (li_exit _ I Hm) as [_ Hs]. destruct (li_busy _ I k Hb) as [_ Hi].
  assert (D : ctx_done (l_reg s) k = true) by (unfold ctx_done; rewrite Hs; apply memHV_In in Hi; rewrite Hi; apply orb_true_r).
  split; [exact D|]. eexists. cbn [lstep]. rewrite Hb, D. split; [reflexivity|]. reflexivity.
Qed.

(* the context of an SPI call in flight always belongs to the worker's current height, and was handed out by the registry *)
Theorem spi_context_is_current s k : reach s -> l_worker s = WBusy k -> fst k = l_wh s /\ In k (issued (l_reg s)).
Proof. intros R Hb. exact (li_busy _ (reach_inv s R) k Hb). Qed.

(* --- C13 at the level of the loops: rounds are reported in strictly increasing height order, and the timer is only
   ever armed for the worker's current position --- *)
Theorem rounds_strictly_increase s : reach s -> StronglySorted (fun a b => b < a) (l_rounds s) /\ forall x, In x (l_rounds s) -> x <= l_wh s.
Proof. intros R. pose proof (reach_inv2 s R) as I2. split; [exact (l2_sorted _ I2)|exact (l2_rounds _ I2)]. Qed.

Theorem timer_armed_for_current_position s h v : reach s -> l_armed s = Some (h, v) -> h = l_wh s /\ v = l_wv s.
Proof. intros R H. exact (l2_armed _ (reach_inv2 s R) h v H). Qed.

(* non-vacuity: a run in which a sync overtakes a blocked SPI call and the node then shuts down from inside another *)
Example loops_witness :
  exists s, lrun l_init [LApiSync 0; LMainFwd; LWorkerSync (Some (1, 0)); LApiSync 5; LSpiReleased ENothing; LMainFwd; LWorkerSync (Some (6, 0)); LCancel; LMainExit; LSpiReleased ENothing; LWorkerExit] = Some s
    /\ l_wh s = 6 /\ l_rounds s = [6; 1] /\ l_main s = MExited /\ l_worker s = WExited /\ l_armed s = None.
Proof. eexists. vm_compute. repeat split. Qed.
