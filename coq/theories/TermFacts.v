(* TermFacts.v — facts about the term state machine of Term.v that hold for every input (C07, C08, C09, C10). *)
From Coq Require Import Permutation.
From LH Require Import Prims Quorum QuorumFacts Leader Contexts Msg Term.
Open Scope N_scope.

(* ---------- storage lemmas ---------- *)
Lemma find_app {A} (f : A -> bool) l1 l2 :
  find f (l1 ++ l2) = match find f l1 with Some x => Some x | None => find f l2 end.
Proof. induction l1 as [|a l1 IH]; cbn; [reflexivity|]. destruct (f a); [reflexivity|exact IH]. Qed.

Lemma get_pp_store_pp t v e v' :
  get_pp (store_pp v e t) v' =
  match get_pp t v with
  | Some _ => get_pp t v'
  | None => if N.eqb v' v then Some e else get_pp t v'
  end.
Proof.
  unfold store_pp. destruct (get_pp t v) as [e0|] eqn:E; [reflexivity|].
  unfold get_pp in *. cbn [t_pp]. rewrite find_app. cbn [find fst snd].
  destruct (find (fun e1 => fst e1 =? v') (t_pp t)) as [p|] eqn:F.
  - destruct (N.eqb_spec v' v) as [->|]; [|reflexivity]. rewrite F in E. discriminate.
  - rewrite N.eqb_sym. destruct (v' =? v); reflexivity.
Qed.

Lemma get_pp_store_p t v h s v' : get_pp (store_p v h s t) v' = get_pp t v'. Proof. reflexivity. Qed.
Lemma get_pp_store_c t v h s v' : get_pp (store_c v h s t) v' = get_pp t v'. Proof. reflexivity. Qed.
Lemma get_pp_store_vc t v vt b v' : get_pp (store_vc v vt b t) v' = get_pp t v'.
Proof. unfold store_vc. destruct (memN _ _); reflexivity. Qed.

(* a stored PREPREPARE is never replaced *)
Definition pp_stable (t t' : tstate) : Prop := forall v e, get_pp t v = Some e -> get_pp t' v = Some e.

Lemma pp_stable_refl t : pp_stable t t. Proof. intros v e H; exact H. Qed.
Lemma pp_stable_trans a b d : pp_stable a b -> pp_stable b d -> pp_stable a d.
Proof. intros H1 H2 v e H. apply H2, H1, H. Qed.
Lemma pp_stable_store_pp t v e : pp_stable t (store_pp v e t).
Proof.
  intros v' e' H. rewrite get_pp_store_pp. destruct (get_pp t v) eqn:E; [exact H|].
  destruct (N.eqb_spec v' v) as [->|]; [congruence|exact H].
Qed.

Lemma bucket_store_in_incl l v h s v' h' : incl (bucket l v' h') (bucket (store_in l v h s) v' h').
Proof.
  unfold store_in. destruct (memN _ _); [apply incl_refl|].
  unfold bucket. rewrite filter_app, map_app. apply incl_appl, incl_refl.
Qed.

(* ---------- what a term has sent ---------- *)
Definition sent_of (l : list out) : list msg :=
  flat_map (fun o => match o with OSend _ m => [m] | _ => [] end) l.
Definition vc_view_of (m : msg) : list N := match m with MVC vt _ => [v_view vt] | _ => [] end.
Definition prop_of (m : msg) : list (N * N) :=
  match m with
  | MPP r _ _ => [(r_view r, r_hash r)]
  | MNV _ _ _ _ _ _ pp _ _ => [(r_view pp, r_hash pp)]
  | _ => []
  end.
Definition phase_view_of (m : msg) : list N :=
  match m with MPP r _ _ | MP r _ => [r_view r] | MNV _ _ _ _ _ _ pp _ _ => [r_view pp] | _ => [] end.
Definition mvc_views (l : list out) : list N := flat_map vc_view_of (sent_of l).
Definition props (l : list out) : list (N * N) := flat_map prop_of (sent_of l).
Definition phase_views (l : list out) : list N := flat_map phase_view_of (sent_of l).

(* lists are newest first *)
Fixpoint strictly_desc (l : list N) : Prop :=
  match l with a :: (b :: _) as r => b < a /\ strictly_desc r | _ => True end.
Fixpoint weakly_desc (l : list N) : Prop :=
  match l with a :: (b :: _) as r => b <= a /\ weakly_desc r | _ => True end.

Lemma strictly_desc_cons a l : Forall (fun b => b < a) l -> strictly_desc l -> strictly_desc (a :: l).
Proof. intros F S. destruct l as [|b r]; cbn; [exact I|]. inversion F; subst. split; assumption. Qed.
Lemma weakly_desc_cons a l : Forall (fun b => b <= a) l -> weakly_desc l -> weakly_desc (a :: l).
Proof. intros F S. destruct l as [|b r]; cbn; [exact I|]. inversion F; subst. split; assumption. Qed.
Lemma strictly_desc_bound l a : strictly_desc (a :: l) -> Forall (fun b => b < a) l.
Proof.
  revert a. induction l as [|b r IH]; intros a S; [constructor|].
  cbn [strictly_desc] in S. destruct S as [Hlt S]. constructor; [exact Hlt|].
  eapply Forall_impl; [|apply (IH b S)]. cbv beta. intros; lia.
Qed.
Lemma strictly_desc_tail a l : strictly_desc (a :: l) -> strictly_desc l.
Proof. destruct l; cbn; tauto. Qed.
Lemma strictly_desc_NoDup l : strictly_desc l -> NoDup l.
Proof.
  induction l as [|a r IH]; intro S; [constructor|]. constructor; [|apply IH; eapply strictly_desc_tail; eauto].
  intro Hi. pose proof (strictly_desc_bound _ _ S) as B. rewrite Forall_forall in B. specialize (B a Hi). cbv beta in B. lia.
Qed.

Section TermInv.
Variable c : ncfg.

Definition certP (t : tstate) (v h : N) : Prop :=
  exists e, get_pp t v = Some e /\ isQ_ids (t_cm t) (map s_id (bucket (t_p t) v h) ++ [s_id (pe_snd e)]) = true.
Definition certC (t : tstate) (v h : N) : Prop := isQ_ids (t_cm t) (map s_id (bucket (t_c t) v h)) = true.

Definition pp_at (t : tstate) (v h : N) : Prop := exists e, get_pp t v = Some e /\ r_hash (pe_ref e) = h.

(* a PREPARE this node sent: for the proposal it stored from that view's leader, who is somebody else *)
Definition mp_ok (t : tstate) (r : bref) : Prop :=
  r_type r = T_PREPARE /\ r_height r = t_h t /\ r_inst r = c_inst c /\
  exists e, get_pp t (r_view r) = Some e /\ r_hash (pe_ref e) = r_hash r /\
            s_id (pe_snd e) = leaderOf (t_cm t) (r_view r) /\ leaderOf (t_cm t) (r_view r) <> c_me c.
(* a COMMIT this node sent: for the stored proposal's hash, holding a prepared certificate or a commit quorum *)
Definition mc_ok (t : tstate) (r : bref) : Prop :=
  r_type r = T_COMMIT /\ r_height r = t_h t /\ r_inst r = c_inst c /\
  pp_at t (r_view r) (r_hash r) /\ (certP t (r_view r) (r_hash r) \/ certC t (r_view r) (r_hash r)).

Record TInv (x : tc) : Prop := {
  ti_mp : forall to r s, In (OSend to (MP r s)) (tc_out x) -> mp_ok (tc_t x) r;
  ti_mc : forall to r s o, In (OSend to (MC r s o)) (tc_out x) -> mc_ok (tc_t x) r;
  ti_vc_desc : strictly_desc (mvc_views (tc_out x));
  ti_vc_le : Forall (fun v => v <= tc_v x) (mvc_views (tc_out x));
  ti_prop_desc : strictly_desc (map fst (props (tc_out x)));
  ti_prop_le : Forall (fun v => v <= t_latest (tc_t x)) (map fst (props (tc_out x)));
  ti_latest : t_latest (tc_t x) <= tc_v x;
  ti_phase_desc : weakly_desc (phase_views (tc_out x));
  ti_phase_le : Forall (fun v => v <= tc_v x) (phase_views (tc_out x));
  ti_total : total (t_cm (tc_t x)) < W64
}.

(* growth of the term's storage *)
Record tmono (t t' : tstate) : Prop := {
  tm_pp : pp_stable t t';
  tm_h : t_h t' = t_h t;
  tm_cm : t_cm t' = t_cm t;
  tm_latest : t_latest t <= t_latest t';
  tm_p : forall v h, incl (bucket (t_p t) v h) (bucket (t_p t') v h);
  tm_c : forall v h, incl (bucket (t_c t) v h) (bucket (t_c t') v h)
}.

Lemma tmono_refl t : tmono t t.
Proof. constructor; try reflexivity; try (intros; apply incl_refl). apply pp_stable_refl. Qed.
Lemma tmono_trans a b d : tmono a b -> tmono b d -> tmono a d.
Proof.
  intros [A1 A2 A3 A4 A5 A6] [B1 B2 B3 B4 B5 B6]. constructor; try congruence; try lia.
  - eapply pp_stable_trans; eauto.
  - intros v h. eapply incl_tran; [apply A5|apply B5].
  - intros v h. eapply incl_tran; [apply A6|apply B6].
Qed.
Lemma tmono_store_pp t v e : tmono t (store_pp v e t).
Proof.
  constructor; try (intros; apply incl_refl).
  - apply pp_stable_store_pp.
  - unfold store_pp; destruct (get_pp t v); reflexivity.
  - unfold store_pp; destruct (get_pp t v); reflexivity.
  - unfold store_pp; destruct (get_pp t v); cbn; lia.
  - intros v' h. unfold store_pp; destruct (get_pp t v); apply incl_refl.
  - intros v' h. unfold store_pp; destruct (get_pp t v); apply incl_refl.
Qed.
Lemma tmono_store_p t v h s : tmono t (store_p v h s t).
Proof.
  constructor; try reflexivity; try (intros; apply incl_refl).
  - intros v' e H; exact H.
  - intros; cbn [store_p t_p]. apply bucket_store_in_incl.
Qed.
Lemma tmono_store_c t v h s : tmono t (store_c v h s t).
Proof.
  constructor; try reflexivity; try (intros; apply incl_refl).
  - intros v' e H; exact H.
  - intros; cbn [store_c t_c]. apply bucket_store_in_incl.
Qed.
Lemma tmono_store_vc t v vt b : tmono t (store_vc v vt b t).
Proof. unfold store_vc. destruct (memN _ _); [apply tmono_refl|]. constructor; try reflexivity; try (intros; apply incl_refl). intros v' e H; exact H. Qed.
Lemma tmono_set_prepared t v : tmono t (set_prepared v t).
Proof. constructor; try reflexivity; try (intros; apply incl_refl). intros v' e H; exact H. Qed.
Lemma tmono_set_committed t : tmono t (set_committed t).
Proof. constructor; try reflexivity; try (intros; apply incl_refl). intros v' e H; exact H. Qed.
Lemma tmono_set_latest t v : t_latest t <= v -> tmono t (set_latest v t).
Proof. intro H. constructor; try reflexivity; try (intros; apply incl_refl); [intros v' e H'; exact H'|exact H]. Qed.

Lemma isQ_ids_mono cm A B : total cm < W64 -> incl A B -> isQ_ids cm A = true -> isQ_ids cm B = true.
Proof. intros. unfold isQ_ids in *. eapply isQ_mono; eauto. Qed.

Lemma mp_ok_mono t t' r : tmono t t' -> mp_ok t r -> mp_ok t' r.
Proof.
  intros [M1 M2 M3 _ _ _] (A & B & C & e & E1 & E2 & E3 & E4). unfold mp_ok. rewrite M2, M3.
  repeat split; auto. exists e. repeat split; auto.
Qed.

Lemma mc_ok_mono t t' r : total (t_cm t) < W64 -> tmono t t' -> mc_ok t r -> mc_ok t' r.
Proof.
  intros Hw [M1 M2 M3 _ M5 M6] (A & B & C & (e & E1 & E2) & D). unfold mc_ok. rewrite M2.
  repeat split; auto.
  - exists e. split; auto.
  - destruct D as [(e' & P1 & P2)|Q].
    + left. exists e'. split; [apply M1; exact P1|]. rewrite M3.
      eapply isQ_ids_mono; [exact Hw| |exact P2]. apply incl_app; [apply incl_appl|apply incl_appr, incl_refl].
      apply incl_map. apply M5.
    + right. unfold certC in *. rewrite M3. eapply isQ_ids_mono; [exact Hw| |exact Q]. apply incl_map. apply M6.
Qed.

(* ---------- primitive steps ---------- *)
Definition is_send (o : out) : bool := match o with OSend _ _ => true | _ => false end.

Lemma sent_of_cons_nonsend o l : is_send o = false -> sent_of (o :: l) = sent_of l.
Proof. destruct o; cbn; try reflexivity; discriminate. Qed.

Lemma sent_of_send to m l : sent_of (OSend to m :: l) = m :: sent_of l.
Proof. reflexivity. Qed.

Lemma TInv_emit_nonsend x o : is_send o = false -> TInv x -> TInv (tc_emit o x).
Proof.
  intros Ho [H1 H2 H3 H4 H5 H6 H7 H8 H9 H10].
  constructor; cbn [tc_emit tc_out tc_t tc_v]; unfold mvc_views, props, phase_views in *; rewrite ?(sent_of_cons_nonsend o _ Ho); auto.
  - intros to r s [E|Hi]; [subst o; discriminate|eauto].
  - intros to r s o' [E|Hi]; [subst o; discriminate|eauto].
Qed.

Lemma TInv_set_t x t' : TInv x -> tmono (tc_t x) t' -> t_latest t' <= tc_v x -> TInv (tc_set_t t' x).
Proof.
  intros [H1 H2 H3 H4 H5 H6 H7 H8 H9 H10] M L.
  constructor; cbn [tc_set_t tc_out tc_t tc_v]; auto.
  - intros to r s Hi. eapply mp_ok_mono; eauto.
  - intros to r s o Hi. eapply mc_ok_mono; eauto.
  - eapply Forall_impl; [|exact H6]. cbv beta. intros a Ha. destruct M. lia.
  - destruct M as [_ _ M3 _ _ _]. rewrite M3. exact H10.
Qed.

Lemma TInv_set_v x v : tc_v x <= v -> TInv x -> TInv (tc_set_v v x).
Proof.
  intros L [H1 H2 H3 H4 H5 H6 H7 H8 H9 H10].
  constructor; cbn [tc_set_v tc_out tc_t tc_v]; auto; try lia;
    (eapply Forall_impl; [|eassumption]; cbv beta; intros; lia).
Qed.

Lemma TInv_bump x : TInv x -> TInv (tc_bump x).
Proof. intros [H1 H2 H3 H4 H5 H6 H7 H8 H9 H10]. constructor; cbn [tc_bump tc_out tc_t tc_v]; auto. Qed.

Lemma TInv_committed x b : TInv x -> TInv (tc_committed b x).
Proof. intros [H1 H2 H3 H4 H5 H6 H7 H8 H9 H10]. constructor; cbn [tc_committed tc_out tc_t tc_v]; auto. Qed.

Lemma TInv_send_mp x to r s : TInv x -> mp_ok (tc_t x) r -> r_view r = tc_v x -> TInv (tc_emit (OSend to (MP r s)) x).
Proof.
  intros [H1 H2 H3 H4 H5 H6 H7 H8 H9 H10] Hok Hv.
  constructor; cbn [tc_emit tc_out tc_t tc_v]; auto.
  - intros to' r' s' [E|Hi]; [inversion E; subst; exact Hok|eauto].
  - intros to' r' s' o [E|Hi]; [discriminate|eauto].
  - unfold phase_views in *. cbn [sent_of flat_map app phase_view_of]. apply weakly_desc_cons; [|exact H8].
    rewrite Hv. exact H9.
  - unfold phase_views in *. cbn [sent_of flat_map app phase_view_of]. constructor; [lia|exact H9].
Qed.

Lemma TInv_send_mc x to r s o : TInv x -> mc_ok (tc_t x) r -> TInv (tc_emit (OSend to (MC r s o)) x).
Proof.
  intros [H1 H2 H3 H4 H5 H6 H7 H8 H9 H10] Hok.
  constructor; cbn [tc_emit tc_out tc_t tc_v]; auto.
  - intros to' r' s' [E|Hi]; [discriminate|eauto].
  - intros to' r' s' o' [E|Hi]; [inversion E; subst; exact Hok|eauto].
Qed.

Lemma TInv_send_vc x to vt b : TInv x -> Forall (fun v' => v' < v_view vt) (mvc_views (tc_out x)) -> v_view vt <= tc_v x ->
  TInv (tc_emit (OSend to (MVC vt b)) x).
Proof.
  intros [H1 H2 H3 H4 H5 H6 H7 H8 H9 H10] Hnew Hle.
  constructor; cbn [tc_emit tc_out tc_t tc_v]; auto.
  - intros to' r' s' [E|Hi]; [discriminate|eauto].
  - intros to' r' s' o' [E|Hi]; [discriminate|eauto].
  - unfold mvc_views in *. cbn [sent_of flat_map app vc_view_of]. apply strictly_desc_cons; assumption.
  - unfold mvc_views in *. cbn [sent_of flat_map app vc_view_of]. constructor; assumption.
Qed.

(* a proposal (PREPREPARE as first leader, or NEW_VIEW) for view v *)
Lemma TInv_send_prop x to m v h : TInv x -> prop_of m = [(v, h)] -> phase_view_of m = [v] -> vc_view_of m = [] ->
  (forall r s, m <> MP r s) -> (forall r s o, m <> MC r s o) ->
  Forall (fun v' => v' < v) (map fst (props (tc_out x))) -> v <= t_latest (tc_t x) -> v = tc_v x ->
  TInv (tc_emit (OSend to m) x).
Proof.
  intros [H1 H2 H3 H4 H5 H6 H7 H8 H9 H10] Hp Hph Hvc Hnmp Hnmc Hnew Hle Hv.
  constructor; cbn [tc_emit tc_out tc_t tc_v]; auto.
  - intros to' r' s' [E|Hi]; [inversion E; subst; exfalso; eapply Hnmp; reflexivity|eauto].
  - intros to' r' s' o' [E|Hi]; [inversion E; subst; exfalso; eapply Hnmc; reflexivity|eauto].
  - unfold mvc_views in *. rewrite sent_of_send; cbn [flat_map]. rewrite Hvc. cbn [app]. exact H3.
  - unfold mvc_views in *. rewrite sent_of_send; cbn [flat_map]. rewrite Hvc. cbn [app]. exact H4.
  - unfold props in *. rewrite sent_of_send; cbn [flat_map]. rewrite Hp. cbn [app map fst]. apply strictly_desc_cons; assumption.
  - unfold props in *. rewrite sent_of_send; cbn [flat_map]. rewrite Hp. cbn [app map fst]. constructor; assumption.
  - unfold phase_views in *. rewrite sent_of_send; cbn [flat_map]. rewrite Hph. cbn [app]. apply weakly_desc_cons; [|exact H8].
    rewrite Hv. exact H9.
  - unfold phase_views in *. rewrite sent_of_send; cbn [flat_map]. rewrite Hph. cbn [app]. constructor; [lia|exact H9].
Qed.

(* ---------- the handlers preserve the invariant ---------- *)
Variable wm : option hv.
Variable shut : bool.

Lemma is_preprepared_some t v h e : is_preprepared t v h = Some e ->
  get_pp t v = Some e /\ r_hash (pe_ref e) = h /\ exists b, pe_blk e = Some b.
Proof.
  unfold is_preprepared. destruct (get_pp t v) as [e0|]; [|discriminate].
  destruct (pe_blk e0) as [b|] eqn:Eb; [|discriminate].
  destruct (N.eqb_spec (r_hash (pe_ref e0)) h); [|discriminate].
  intro H; inversion H; subst. repeat split; auto. exists b; exact Eb.
Qed.

Lemma props_emit_nonsend o l : is_send o = false -> props (o :: l) = props l.
Proof. intro H. unfold props. rewrite sent_of_cons_nonsend by exact H. reflexivity. Qed.
Lemma mvc_emit_nonsend o l : is_send o = false -> mvc_views (o :: l) = mvc_views l.
Proof. intro H. unfold mvc_views. rewrite sent_of_cons_nonsend by exact H. reflexivity. Qed.

Ltac brk :=
  match goal with
  | |- TInv _ (if negb ?b then _ else _) => let E := fresh "E" in destruct b eqn:E; cbn [negb]; [|assumption]
  | |- TInv _ (if ?b then _ else _) => let E := fresh "E" in destruct b eqn:E; [assumption|]
  end.

Lemma check_committed_inv x v h : TInv x -> TInv (check_committed c wm shut x v h).
Proof.
  intro I. unfold check_committed. destruct (t_committed (tc_t x)); [exact I|].
  destruct (is_preprepared (tc_t x) v h) as [e|] eqn:Ep; [|exact I].
  destruct (is_preprepared_some _ _ _ _ Ep) as (G1 & G2 & b & Gb).
  destruct (isQ_ids (t_cm (tc_t x)) (map s_id (bucket (t_c (tc_t x)) v h))) eqn:Eq; cbn [negb]; [|exact I].
  destruct (ctx_ok wm shut (t_h (tc_t x), MAXVIEW)); cbn [negb]; [|exact I].
  rewrite Gb.
  assert (Hmc : mc_ok (tc_t x) (mk_ref T_COMMIT c (t_h (tc_t x)) v h)).
  { unfold mc_ok, mk_ref; cbn [r_type r_height r_inst r_view r_hash]. repeat split; auto.
    all: try (exists e; split; assumption); try (right; exact Eq). }
  apply TInv_committed. apply TInv_emit_nonsend; [reflexivity|].
  set (x1 := if memN (c_me c) _ then x else _).
  assert (I1 : TInv x1).
  { subst x1. destruct (memN (c_me c) _); [exact I|]. unfold send_all. apply TInv_send_mc; assumption. }
  apply TInv_set_t; [exact I1| |].
  - replace (tc_t x1) with (tc_t x) by (subst x1; destruct (memN _ _); reflexivity). apply tmono_set_committed.
  - replace (tc_v x1) with (tc_v x) by (subst x1; destruct (memN _ _); reflexivity). cbn. apply (ti_latest _ I).
Qed.

Lemma check_prepared_inv x v h : TInv x -> TInv (check_prepared c wm shut x v h).
Proof.
  intro I. unfold check_prepared.
  destruct (match t_prepared (tc_t x) with Some pv => pv =? v | None => false end); [exact I|].
  destruct (is_preprepared (tc_t x) v h) as [e|] eqn:Ep; [|exact I].
  destruct (is_preprepared_some _ _ _ _ Ep) as (G1 & G2 & b & Gb).
  destruct (isQ_ids _ _) eqn:Eq; [|exact I].
  apply check_committed_inv. unfold send_all.
  set (t1 := store_c v h (my_sig c) (set_prepared v (tc_t x))).
  set (x0 := if has_c (tc_t x) v h (c_me c) then x else _).
  assert (I0 : TInv x0) by (subst x0; destruct (has_c _ _ _ _); [exact I|apply TInv_emit_nonsend; [reflexivity|exact I]]).
  assert (E0 : tc_t x0 = tc_t x /\ tc_v x0 = tc_v x) by (subst x0; destruct (has_c _ _ _ _); split; reflexivity).
  destruct E0 as [E0t E0v].
  assert (M : tmono (tc_t x) t1) by (subst t1; eapply tmono_trans; [apply tmono_set_prepared|apply tmono_store_c]).
  assert (I1 : TInv (tc_set_t t1 x0)).
  { apply TInv_set_t; [exact I0|rewrite E0t; exact M|]. rewrite E0v. subst t1. cbn. apply (ti_latest _ I). }
  apply TInv_send_mc; [exact I1|]. cbn [tc_set_t tc_t].
  unfold mc_ok, mk_ref; cbn [r_type r_height r_inst r_view r_hash].
  assert (G1' : get_pp t1 v = Some e) by (apply (tm_pp _ _ M); exact G1).
  split; [reflexivity|]. split; [subst t1; reflexivity|]. split; [reflexivity|].
  split; [exists e; split; assumption|]. left. exists e. split; [exact G1'|]. exact Eq.
Qed.

Lemma process_pp_inv x r s b : TInv x -> get_pp (tc_t x) (r_view r) = None -> r_height r = t_h (tc_t x) ->
  s_id s = leaderOf (t_cm (tc_t x)) (r_view r) -> s_id s <> c_me c -> TInv (process_pp c wm shut x r s b).
Proof.
  intros I Hn Hh Hl Hme. unfold process_pp.
  destruct (N.eqb_spec (tc_v x) (r_view r)) as [Ev|Ev]; cbn [negb]; [|exact I].
  apply check_prepared_inv. unfold send_all.
  set (t0 := store_pp (r_view r) {| pe_ref := r; pe_snd := s; pe_blk := b |} (tc_t x)).
  set (t1 := store_p (r_view r) (r_hash r) (my_sig c) t0).
  set (x0 := if has_pp (tc_t x) (r_view r) then x else _).
  set (x0' := if has_p t0 (r_view r) (r_hash r) (c_me c) then x0 else _).
  assert (I0 : TInv x0 /\ tc_t x0 = tc_t x /\ tc_v x0 = tc_v x).
  { subst x0. destruct (has_pp _ _); [auto|]. split; [apply TInv_emit_nonsend; [reflexivity|exact I]|split; reflexivity]. }
  destruct I0 as (I0 & E0t & E0v).
  assert (I0' : TInv x0' /\ tc_t x0' = tc_t x /\ tc_v x0' = tc_v x).
  { subst x0'. destruct (has_p _ _ _ _); [auto|]. split; [apply TInv_emit_nonsend; [reflexivity|exact I0]|split; assumption]. }
  destruct I0' as (I0' & E0t' & E0v').
  assert (M : tmono (tc_t x) t1) by (subst t1 t0; eapply tmono_trans; [apply tmono_store_pp|apply tmono_store_p]).
  assert (I1 : TInv (tc_set_t t1 x0')).
  { apply TInv_set_t; [exact I0'|rewrite E0t'; exact M|]. rewrite E0v'. pose proof (ti_latest _ I) as L.
    subst t1 t0. cbn [store_p t_latest]. unfold store_pp. rewrite Hn. cbn. exact L. }
  apply TInv_send_mp; [exact I1| |].
  - cbn [tc_set_t tc_t]. unfold mp_ok, mk_ref; cbn [r_type r_height r_inst r_view r_hash].
    destruct M as [_ M2 M3 _ _ _]. rewrite M2, M3. repeat split; auto.
    exists {| pe_ref := r; pe_snd := s; pe_blk := b |}. cbn [pe_ref pe_snd].
    split; [|split; [reflexivity|split; [exact Hl|rewrite <- Hl; exact Hme]]].
    subst t1 t0. rewrite get_pp_store_p, get_pp_store_pp, Hn, N.eqb_refl. reflexivity.
  - cbn [tc_set_t tc_v mk_ref r_view]. rewrite E0v'. symmetry; exact Ev.
Qed.

Lemma validate_pp_true t r s : validate_pp c t r s = true ->
  get_pp t (r_view r) = None /\ r_type r = T_PREPREPARE /\ r_inst r = c_inst c /\ s_ok s = true /\ s_id s = leaderOf (t_cm t) (r_view r).
Proof.
  unfold validate_pp. destruct (get_pp t (r_view r)); [discriminate|].
  rewrite !andb_true_iff, !N.eqb_eq. tauto.
Qed.

Lemma handle_pp_inv x r s b : TInv x -> r_height r = t_h (tc_t x) -> s_id s <> c_me c -> TInv (handle_pp c wm shut x r s b).
Proof.
  intros I Hh Hme. unfold handle_pp.
  destruct (validate_pp c (tc_t x) r s) eqn:Ev; cbn [negb]; [|exact I].
  destruct (validate_pp_true _ _ _ Ev) as (V1 & V2 & V3 & V4 & V5).
  destruct (N.eqb (tc_v x) (r_view r)); cbn [negb]; [|exact I].
  destruct (ctx_ok wm shut _); cbn [negb]; [|exact I].
  destruct (validProposal _ _ _ _); cbn [negb]; [|exact I].
  apply process_pp_inv; auto.
Qed.

Lemma handle_p_inv x r s : TInv x -> TInv (handle_p c wm shut x r s).
Proof.
  intros I. unfold handle_p.
  destruct (N.eqb (r_type r) T_PREPARE); cbn [negb]; [|exact I].
  destruct (isMember _ _); cbn [negb]; [|exact I].
  destruct (s_ok s); cbn [negb]; [|exact I].
  destruct (N.ltb (r_view r) (tc_v x)); [exact I|].
  destruct (N.eqb (s_id s) _); [exact I|].
  apply check_prepared_inv.
  set (x0 := if has_p _ _ _ _ then x else _).
  assert (I0 : TInv x0 /\ tc_t x0 = tc_t x /\ tc_v x0 = tc_v x).
  { subst x0. destruct (has_p _ _ _ _); [auto|]. split; [apply TInv_emit_nonsend; [reflexivity|exact I]|split; reflexivity]. }
  destruct I0 as (I0 & E0t & E0v).
  apply TInv_set_t; [exact I0|rewrite E0t; apply tmono_store_p|]. rewrite E0v. cbn. apply (ti_latest _ I).
Qed.

Lemma handle_c_inv x r s o : TInv x -> TInv (handle_c c wm shut x r s o).
Proof.
  intros I. unfold handle_c.
  destruct o; cbn [negb]; [|exact I].
  destruct (N.eqb (r_type r) T_COMMIT); cbn [negb]; [|exact I].
  destruct (isMember _ _); cbn [negb]; [|exact I].
  destruct (s_ok s); cbn [negb]; [|exact I].
  apply check_committed_inv.
  set (x0 := if has_c _ _ _ _ then x else _).
  assert (I0 : TInv x0 /\ tc_t x0 = tc_t x /\ tc_v x0 = tc_v x).
  { subst x0. destruct (has_c _ _ _ _); [auto|]. split; [apply TInv_emit_nonsend; [reflexivity|exact I]|split; reflexivity]. }
  destruct I0 as (I0 & E0t & E0v).
  apply TInv_set_t; [exact I0|rewrite E0t; apply tmono_store_c|]. rewrite E0v. cbn. apply (ti_latest _ I).
Qed.

(* raise the view and the "latest processed" marker together *)
Lemma TInv_set_v_latest x v : TInv x -> tc_v x <= v -> TInv (tc_set_v v (tc_set_t (set_latest v (tc_t x)) x)).
Proof.
  intros [H1 H2 H3 H4 H5 H6 H7 H8 H9 H10] L.
  assert (M : tmono (tc_t x) (set_latest v (tc_t x))) by (apply tmono_set_latest; lia).
  constructor; cbn [tc_set_v tc_set_t tc_out tc_t tc_v set_latest t_latest t_cm]; auto; try lia.
  all: try (intros to r s Hi; eapply mp_ok_mono; eauto; fail).
  all: try (intros to r s o Hi; eapply mc_ok_mono; eauto; fail).
  - eapply Forall_impl; [|exact H4]. cbv beta. intros; lia.
  - eapply Forall_impl; [|exact H6]. cbv beta. intros; lia.
  - eapply Forall_impl; [|exact H9]. cbv beta. intros; lia.
Qed.

Lemma on_elected_inv x v vs : TInv x -> t_latest (tc_t x) < v -> TInv (on_elected c wm shut x v vs).
Proof.
  intros I Hl. unfold on_elected.
  assert (Hold : Forall (fun v' => v' < v) (map fst (props (tc_out x)))).
  { eapply Forall_impl; [|apply (ti_prop_le _ I)]. cbv beta. intros; lia. }
  unfold init_view. cbn [tc_set_t tc_v].
  destruct (N.ltb_spec v (tc_v x)) as [Hv|Hv].
  - (* SetView refuses: only the marker moved *)
    apply TInv_set_t; [exact I|apply tmono_set_latest; lia|cbn; lia].
  - set (x1 := tc_emit (OArm _ v) (tc_set_v v (tc_set_t (set_latest v (tc_t x)) x))).
    assert (I1 : TInv x1) by (apply TInv_emit_nonsend; [reflexivity|apply TInv_set_v_latest; assumption]).
    assert (P1 : props (tc_out x1) = props (tc_out x)) by (subst x1; cbn [tc_emit tc_out tc_set_v tc_set_t]; apply props_emit_nonsend; reflexivity).
    assert (go_ok : forall b h x2, TInv x2 -> props (tc_out x2) = props (tc_out x) -> t_latest (tc_t x2) = v -> tc_v x2 = v ->
       TInv (let t1 := tc_t x2 in
             let ppr := mk_ref T_PREPREPARE c (t_h t1) v h in
             let nv := MNV T_NEW_VIEW (c_inst c) (t_h t1) v (map fst vs) (my_sig c) ppr (my_sig c) (Some b) in
             let t2 := store_pp v {| pe_ref := ppr; pe_snd := my_sig c; pe_blk := Some b |} t1 in
             let x3 := if has_pp t1 v then x2 else tc_emit (OStore T_PREPREPARE (t_h t1) v h (c_me c)) x2 in
             send_all c nv (tc_set_t t2 x3))).
    { intros b h x2 I2 P2 L2 V2. cbn zeta. unfold send_all.
      set (x3 := if has_pp (tc_t x2) v then x2 else _).
      assert (I3 : TInv x3 /\ tc_t x3 = tc_t x2 /\ tc_v x3 = tc_v x2 /\ props (tc_out x3) = props (tc_out x2)).
      { subst x3. destruct (has_pp _ _); [auto|]. split; [apply TInv_emit_nonsend; [reflexivity|exact I2]|].
        split; [reflexivity|]. split; [reflexivity|]. cbn [tc_emit tc_out]. apply props_emit_nonsend. reflexivity. }
      destruct I3 as (I3 & E3t & E3v & P3).
      set (t2 := store_pp v _ (tc_t x2)).
      assert (M2 : tmono (tc_t x2) t2) by apply tmono_store_pp.
      assert (L2' : t_latest t2 = v) by (subst t2; unfold store_pp; destruct (get_pp _ _); cbn; exact L2).
      assert (I4 : TInv (tc_set_t t2 x3)) by (apply TInv_set_t; [exact I3|rewrite E3t; exact M2|rewrite E3v, L2', V2; lia]).
      eapply TInv_send_prop with (v := v) (h := h); try reflexivity; try exact I4; try discriminate.
      - cbn [tc_set_t tc_out]. rewrite P3, P2. exact Hold.
      - cbn [tc_set_t tc_t]. rewrite L2'. lia.
      - cbn [tc_set_t tc_v]. rewrite E3v. symmetry; exact V2. }
    destruct (latest_block vs) as [[b h]|].
    + apply go_ok; [exact I1|exact P1|reflexivity|reflexivity].
    + destruct (ctx_ok wm shut _); cbn [negb]; [|exact I1].
      apply go_ok; [apply TInv_bump; exact I1|exact P1|reflexivity|reflexivity].
Qed.

Lemma check_elected_inv x v : TInv x -> TInv (check_elected c wm shut x v).
Proof.
  intro I. unfold check_elected. destruct (N.leb_spec v (t_latest (tc_t x))); [exact I|].
  destruct (votes_of (tc_t x) v) as [|e r] eqn:Ev; [exact I|].
  destruct (isQ_ids _ _); [|exact I]. apply on_elected_inv; assumption.
Qed.

Lemma handle_vc_inv x vt b : TInv x -> TInv (handle_vc c wm shut x vt b).
Proof.
  intro I. unfold handle_vc.
  destruct (N.eqb _ (c_me c)); cbn [negb]; [|exact I].
  destruct (N.ltb (v_view vt) (tc_v x)); [exact I|].
  destruct (vote_valid _ _ _ _); cbn [negb]; [|exact I].
  assert (A : TInv (check_elected c wm shut
      (tc_set_t (store_vc (v_view vt) vt b (tc_t x))
         (if has_vc (tc_t x) (v_view vt) (s_id (v_snd vt)) then x
          else tc_emit (OStore T_VIEW_CHANGE (t_h (tc_t x)) (v_view vt) 0 (s_id (v_snd vt))) x)) (v_view vt))).
  { apply check_elected_inv.
    set (x0 := if has_vc _ _ _ then x else _).
    assert (I0 : TInv x0 /\ tc_t x0 = tc_t x /\ tc_v x0 = tc_v x).
    { subst x0. destruct (has_vc _ _ _); [auto|]. split; [apply TInv_emit_nonsend; [reflexivity|exact I]|split; reflexivity]. }
    destruct I0 as (I0 & E0t & E0v).
    apply TInv_set_t; [exact I0|rewrite E0t; apply tmono_store_vc|]. rewrite E0v.
    unfold store_vc. destruct (memN _ _); cbn; apply (ti_latest _ I). }
  destruct b as [bb|], (v_proof vt) as [p|]; try exact I; try exact A.
  destruct (commitsTo _ _ _); [exact A|exact I].
Qed.

Lemma handle_nv_inv x nty ninst nh nvw vs s pp pps b :
  TInv x -> nh = t_h (tc_t x) -> s_id s <> c_me c -> TInv (handle_nv c wm shut x nty ninst nh nvw vs s pp pps b).
Proof.
  intros I Hh Hme. unfold handle_nv.
  destruct (N.ltb_spec nvw (tc_v x)) as [Hv|Hv]; [exact I|].
  destruct (N.eqb nty T_NEW_VIEW); cbn [negb]; [|exact I].
  destruct (s_ok s); cbn [negb]; [|exact I].
  destruct (N.eqb_spec (s_id s) (leaderOf (t_cm (tc_t x)) nvw)) as [El|El]; cbn [negb]; [|exact I].
  destruct (votes_ok _ _ _ _); cbn [negb]; [|exact I].
  destruct (N.eqb_spec (r_view pp) nvw) as [Epv|Epv]; cbn [negb]; [|exact I].
  destruct (N.eqb_spec (r_height pp) nh) as [Eph|Eph]; cbn [negb]; [|exact I].
  destruct (forallb _ vs); cbn [negb]; [|exact I].
  assert (C : TInv (if negb (validate_pp c (tc_t x) pp pps) then x else
                    match init_view nvw (tc_set_t (set_latest nvw (tc_t x)) x) with
                    | None => tc_set_t (set_latest nvw (tc_t x)) x
                    | Some x1 => process_pp c wm shut x1 pp pps b end)).
  { destruct (validate_pp c (tc_t x) pp pps) eqn:Ev; cbn [negb]; [|exact I].
    destruct (validate_pp_true _ _ _ Ev) as (V1 & V2 & V3 & V4 & V5).
    unfold init_view. cbn [tc_set_t tc_v]. assert (N.ltb nvw (tc_v x) = false) as -> by (apply N.ltb_ge; exact Hv).
    apply process_pp_inv.
    - apply TInv_emit_nonsend; [reflexivity|]. apply TInv_set_v_latest; assumption.
    - cbn. exact V1.
    - cbn. congruence.
    - cbn. exact V5.
    - rewrite V5, Epv, <- El. exact Hme. }
  destruct (latest_vote vs) as [lv|].
  - destruct (v_proof lv) as [p|]; [|exact I].
    destruct (commitsTo _ _ _); cbn [negb]; [|exact I].
    destruct (N.eqb (r_hash pp) _); cbn [negb]; [|exact I]. exact C.
  - destruct (ctx_ok wm shut _); cbn [negb]; [|exact I].
    destruct (validProposal _ _ _ _); cbn [negb]; [|exact I]. exact C.
Qed.

Lemma wrap64_succ_ge v : v <= wrap64 (v + 1) -> wrap64 (v + 1) = v + 1.
Proof.
  unfold wrap64. intro H. destruct (N.lt_ge_cases (v + 1) W64) as [L|L]; [apply N.mod_small; exact L|].
  exfalso. pose proof (N.mod_lt (v + 1) W64 ltac:(discriminate)) as M.
  pose proof (N.div_mod (v + 1) W64 ltac:(discriminate)) as D.
  assert (1 <= (v + 1) / W64) by (apply N.div_le_lower_bound; [discriminate|lia]).
  assert (W64 * 1 <= W64 * ((v + 1) / W64)) by (apply N.mul_le_mono_l; assumption). unfold W64 in *. lia.
Qed.

Lemma move_inv x h v : TInv x -> TInv (move_to_next_leader c wm shut x h v).
Proof.
  intro I. unfold move_to_next_leader.
  destruct (N.eqb_spec h (t_h (tc_t x))) as [Eh|Eh]; cbn [andb negb]; [|exact I].
  destruct (N.eqb_spec v (tc_v x)) as [Ev|Ev]; cbn [negb]; [|exact I].
  unfold init_view. destruct (N.ltb_spec (wrap64 (v + 1)) (tc_v x)) as [Hw|Hw]; [exact I|].
  assert (Ew : wrap64 (v + 1) = v + 1) by (apply wrap64_succ_ge; lia).
  set (x1 := tc_emit (OArm _ _) (tc_set_v (wrap64 (v + 1)) x)).
  assert (I1 : TInv x1) by (apply TInv_emit_nonsend; [reflexivity|apply TInv_set_v; [exact Hw|exact I]]).
  destruct (snd _); [apply TInv_emit_nonsend; [reflexivity|exact I1]|].
  cbn [tc_v x1 tc_emit tc_set_v].
  destruct (N.eqb _ (c_me c)).
  - apply check_elected_inv.
    set (x2 := if has_vc _ _ _ then x1 else _).
    assert (I2 : TInv x2 /\ tc_t x2 = tc_t x /\ tc_v x2 = wrap64 (v + 1)).
    { subst x2. destruct (has_vc _ _ _); [auto|]. split; [apply TInv_emit_nonsend; [reflexivity|exact I1]|split; reflexivity]. }
    destruct I2 as (I2 & E2t & E2v).
    apply TInv_set_t; [exact I2|rewrite E2t; apply tmono_store_vc|]. rewrite E2v.
    unfold store_vc. destruct (memN _ _); cbn; pose proof (ti_latest _ I); lia.
  - apply TInv_send_vc; [exact I1| |].
    + cbn [v_view]. subst x1. cbn [tc_emit tc_out tc_set_v]. rewrite mvc_emit_nonsend by reflexivity.
      eapply Forall_impl; [|apply (ti_vc_le _ I)]. cbv beta. intros a Ha. lia.
    + cbn [v_view]. subst x1. cbn. lia.
Qed.

Lemma thandle_inv x m : TInv x -> msg_height m = t_h (tc_t x) -> msg_sender m <> c_me c -> TInv (thandle c wm shut x m).
Proof.
  intros I Hh Hs. destruct m; cbn [thandle msg_height msg_sender] in *.
  - apply handle_pp_inv; assumption.
  - apply handle_p_inv; assumption.
  - apply handle_c_inv; assumption.
  - apply handle_vc_inv; assumption.
  - apply handle_nv_inv; auto.
Qed.

Lemma start_term_inv t lead fresh : total (t_cm t) < W64 -> t_pp t = [] -> t_latest t = 0 ->
  TInv (start_term c wm shut {| tc_t := t; tc_v := 0; tc_fresh := fresh; tc_out := []; tc_commit := None |} lead).
Proof.
  intros Hw Hpp Hl.
  set (x := {| tc_t := t; tc_v := 0; tc_fresh := fresh; tc_out := []; tc_commit := None |}).
  assert (I : TInv x).
  { constructor; cbn; try constructor; try (intros; contradiction); try lia; exact Hw. }
  unfold start_term, init_view. cbn [tc_v x]. cbn [N.ltb N.compare].
  set (x1 := tc_emit _ (tc_set_v 0 x)).
  assert (I1 : TInv x1) by (apply TInv_emit_nonsend; [reflexivity|apply TInv_set_v; [cbn; lia|exact I]]).
  destruct (_ && _); [exact I1|].
  destruct (N.eqb _ (c_me c)); cbn [negb]; [|exact I1].
  destruct (ctx_ok wm shut _); cbn [negb]; [|exact I1].
  eapply TInv_send_prop with (v := 0) (h := fresh_id (c_me c) (tc_fresh x1)); try reflexivity; try discriminate.
  - apply TInv_emit_nonsend; [reflexivity|]. apply TInv_set_t; [apply TInv_bump; exact I1|apply tmono_store_pp|].
    cbn. unfold store_pp. destruct (get_pp _ _); cbn; lia.
  - cbn. constructor.
  - cbn. lia.
Qed.
End TermInv.

(* ---------- frame: height and committee of a term never change ---------- *)
Section Frame.
Variable c : ncfg.
Variable wm : option hv.
Variable shut : bool.

Definition same_hc (x x' : tc) : Prop := t_h (tc_t x') = t_h (tc_t x) /\ t_cm (tc_t x') = t_cm (tc_t x).

Lemma store_pp_hc v e t : t_h (store_pp v e t) = t_h t /\ t_cm (store_pp v e t) = t_cm t.
Proof. unfold store_pp. destruct (get_pp t v); split; reflexivity. Qed.
Lemma store_vc_hc v vt b t : t_h (store_vc v vt b t) = t_h t /\ t_cm (store_vc v vt b t) = t_cm t.
Proof. unfold store_vc. destruct (memN _ _); split; reflexivity. Qed.

Ltac frame_tac :=
  unfold same_hc;
  repeat match goal with
  | |- context [if ?b then _ else _] => destruct b
  | |- context [match ?b with Some _ => _ | None => _ end] => destruct b
  | |- context [match ?b with (_, _) => _ end] => destruct b
  | |- context [match ?b with [] => _ | _ :: _ => _ end] => destruct b
  end;
  cbn [tc_t tc_emit tc_set_t tc_set_v tc_bump tc_committed send_all t_h t_cm store_p store_c set_prepared set_latest set_committed];
  rewrite ?(proj1 (store_pp_hc _ _ _)), ?(proj2 (store_pp_hc _ _ _)), ?(proj1 (store_vc_hc _ _ _ _)), ?(proj2 (store_vc_hc _ _ _ _));
  auto.

Lemma check_committed_hc x v h : same_hc x (check_committed c wm shut x v h).
Proof. unfold check_committed. frame_tac. Qed.
Lemma same_hc_trans a b d : same_hc a b -> same_hc b d -> same_hc a d.
Proof. unfold same_hc. intros [A1 A2] [B1 B2]. split; congruence. Qed.
Lemma check_prepared_hc x v h : same_hc x (check_prepared c wm shut x v h).
Proof.
  unfold check_prepared.
  destruct (match t_prepared (tc_t x) with Some pv => pv =? v | None => false end); [split; reflexivity|].
  destruct (is_preprepared (tc_t x) v h); [|split; reflexivity].
  destruct (isQ_ids _ _); [|split; reflexivity].
  eapply same_hc_trans; [|apply check_committed_hc]. frame_tac.
Qed.
Lemma process_pp_hc x r s b : same_hc x (process_pp c wm shut x r s b).
Proof.
  unfold process_pp. destruct (negb _); [split; reflexivity|].
  eapply same_hc_trans; [|apply check_prepared_hc]. frame_tac.
Qed.
Lemma on_elected_hc x v vs : same_hc x (on_elected c wm shut x v vs).
Proof. unfold on_elected, init_view. frame_tac. Qed.
Lemma check_elected_hc x v : same_hc x (check_elected c wm shut x v).
Proof.
  unfold check_elected. destruct (N.leb _ _); [split; reflexivity|].
  destruct (votes_of _ _); [split; reflexivity|]. destruct (isQ_ids _ _); [apply on_elected_hc|split; reflexivity].
Qed.
Lemma thandle_hc x m : same_hc x (thandle c wm shut x m).
Proof.
  destruct m; cbn [thandle].
  - unfold handle_pp. destruct (negb _); [split; reflexivity|]. destruct (negb _); [split; reflexivity|]. destruct (negb _); [split; reflexivity|].
    destruct (negb _); [split; reflexivity|]. apply process_pp_hc.
  - unfold handle_p. repeat (match goal with |- same_hc _ (if ?b then _ else _) => destruct b; [split; reflexivity|] end).
    eapply same_hc_trans; [|apply check_prepared_hc]. frame_tac.
  - unfold handle_c. repeat (match goal with |- same_hc _ (if ?b then _ else _) => destruct b; [split; reflexivity|] end).
    eapply same_hc_trans; [|apply check_committed_hc]. frame_tac.
  - unfold handle_vc. repeat (match goal with |- same_hc _ (if ?b then _ else _) => destruct b; [split; reflexivity|] end).
    assert (A : same_hc x (check_elected c wm shut
      (tc_set_t (store_vc (v_view v) v b (tc_t x))
         (if has_vc (tc_t x) (v_view v) (s_id (v_snd v)) then x
          else tc_emit (OStore T_VIEW_CHANGE (t_h (tc_t x)) (v_view v) 0 (s_id (v_snd v))) x)) (v_view v))).
    { eapply same_hc_trans; [|apply check_elected_hc]. frame_tac. }
    destruct b, (v_proof v); try (split; reflexivity); try exact A. destruct (commitsTo _ _ _); [exact A|split; reflexivity].
  - unfold handle_nv. repeat (match goal with |- same_hc _ (if ?b then _ else _) => destruct b; [split; reflexivity|] end).
    assert (C : same_hc x (if negb (validate_pp c (tc_t x) pp pps) then x else
                    match init_view nview (tc_set_t (set_latest nview (tc_t x)) x) with
                    | None => tc_set_t (set_latest nview (tc_t x)) x
                    | Some x1 => process_pp c wm shut x1 pp pps b end)).
    { destruct (negb _); [split; reflexivity|]. unfold init_view. destruct (N.ltb _ _); [split; reflexivity|].
      eapply same_hc_trans; [|apply process_pp_hc]. split; reflexivity. }
    destruct (latest_vote votes) as [lv|].
    + destruct (v_proof lv); [|split; reflexivity].
      repeat (match goal with |- same_hc _ (if ?b then _ else _) => destruct b; [split; reflexivity|] end). exact C.
    + repeat (match goal with |- same_hc _ (if ?b then _ else _) => destruct b; [split; reflexivity|] end). exact C.
Qed.
Lemma move_hc x h v : same_hc x (move_to_next_leader c wm shut x h v).
Proof.
  unfold move_to_next_leader, init_view. destruct (negb _); [split; reflexivity|].
  destruct (N.ltb _ _); [split; reflexivity|]. destruct (snd _); [split; reflexivity|].
  destruct (N.eqb _ (c_me c)); [|split; reflexivity].
  eapply same_hc_trans; [|apply check_elected_hc]. frame_tac.
Qed.
Lemma start_term_hc x lead : same_hc x (start_term c wm shut x lead).
Proof. unfold start_term, init_view. frame_tac. Qed.
End Frame.

(* ---------- a term's whole life: startTerm, then any sequence of deliveries and election triggers ---------- *)
Inductive tev :=
| TMsg (m : msg) (wm : option hv) (shut : bool)
| TElect (h v : N) (wm : option hv) (shut : bool).

Definition tstep (c : ncfg) (x : tc) (e : tev) : tc :=
  match e with
  | TMsg m wm shut => thandle c wm shut x m
  | TElect h v wm shut => move_to_next_leader c wm shut x h v
  end.

(* what the raw message filter guarantees about a message it hands to the term of height H *)
Definition tev_ok (c : ncfg) (H : N) (e : tev) : Prop :=
  match e with TMsg m _ _ => msg_height m = H /\ msg_sender m <> c_me c | TElect _ _ _ _ => True end.

Definition tstart (c : ncfg) (wm : option hv) (shut : bool) (H : N) (cm : committee) (fresh : N) (lead : bool) : tc :=
  start_term c wm shut {| tc_t := new_tstate H cm; tc_v := 0; tc_fresh := fresh; tc_out := []; tc_commit := None |} lead.

Definition trun (c : ncfg) (wm : option hv) (shut : bool) (H : N) (cm : committee) (fresh : N) (lead : bool) (evs : list tev) : tc :=
  fold_left (tstep c) evs (tstart c wm shut H cm fresh lead).

Lemma tstep_hc c x e : same_hc x (tstep c x e).
Proof. destruct e; cbn [tstep]; [apply thandle_hc|apply move_hc]. Qed.

Theorem trun_inv c wm shut H cm fresh lead evs : total cm < W64 -> Forall (tev_ok c H) evs ->
  TInv c (trun c wm shut H cm fresh lead evs) /\ t_h (tc_t (trun c wm shut H cm fresh lead evs)) = H
  /\ t_cm (tc_t (trun c wm shut H cm fresh lead evs)) = cm.
Proof.
  intros Hw. unfold trun.
  assert (S0 : TInv c (tstart c wm shut H cm fresh lead) /\ t_h (tc_t (tstart c wm shut H cm fresh lead)) = H
               /\ t_cm (tc_t (tstart c wm shut H cm fresh lead)) = cm).
  { split; [apply start_term_inv; auto|]. destruct (start_term_hc c wm shut {| tc_t := new_tstate H cm; tc_v := 0; tc_fresh := fresh; tc_out := []; tc_commit := None |} lead) as [A B].
    split; [exact A|exact B]. }
  revert S0. generalize (tstart c wm shut H cm fresh lead). induction evs as [|e evs IH]; intros x S0 F; cbn [fold_left]; [exact S0|].
  inversion F as [|? ? Fe Fr]; subst. apply IH; [|exact Fr].
  destruct S0 as (I & Eh & Ec). destruct (tstep_hc c x e) as [A B]. split; [|split; congruence].
  destruct e as [m wm' shut'|h v wm' shut']; cbn [tstep].
  - destruct Fe as [F1 F2]. apply thandle_inv; [exact I|congruence|exact F2].
  - apply move_inv. exact I.
Qed.

(* ---------- C10: consequences of the invariant ---------- *)
Section C10.
Variable c : ncfg.

Lemma NoDup_map_fst_inj {B} (l : list (N * B)) v h1 h2 : NoDup (map fst l) -> In (v, h1) l -> In (v, h2) l -> h1 = h2.
Proof.
  induction l as [|[a b] r IH]; cbn [map fst]; intros ND H1 H2; [contradiction|].
  inversion ND as [|? ? Hn Hd]; subst. destruct H1 as [E1|H1], H2 as [E2|H2].
  - congruence.
  - inversion E1; subst. exfalso. apply Hn. apply (in_map fst) in H2. exact H2.
  - inversion E2; subst. exfalso. apply Hn. apply (in_map fst) in H1. exact H1.
  - eauto.
Qed.

Theorem prepare_once_per_view x to1 r1 s1 to2 r2 s2 : TInv c x ->
  In (OSend to1 (MP r1 s1)) (tc_out x) -> In (OSend to2 (MP r2 s2)) (tc_out x) -> r_view r1 = r_view r2 -> r_hash r1 = r_hash r2.
Proof.
  intros I H1 H2 Ev. destruct (ti_mp _ _ I _ _ _ H1) as (_ & _ & _ & e1 & A1 & B1 & _).
  destruct (ti_mp _ _ I _ _ _ H2) as (_ & _ & _ & e2 & A2 & B2 & _). rewrite Ev in A1. congruence.
Qed.

Theorem commit_once_per_view x to1 r1 s1 o1 to2 r2 s2 o2 : TInv c x ->
  In (OSend to1 (MC r1 s1 o1)) (tc_out x) -> In (OSend to2 (MC r2 s2 o2)) (tc_out x) -> r_view r1 = r_view r2 -> r_hash r1 = r_hash r2.
Proof.
  intros I H1 H2 Ev. destruct (ti_mc _ _ I _ _ _ _ H1) as (_ & _ & _ & (e1 & A1 & B1) & _).
  destruct (ti_mc _ _ I _ _ _ _ H2) as (_ & _ & _ & (e2 & A2 & B2) & _). rewrite Ev in A1. congruence.
Qed.

Theorem proposal_once_per_view x v h1 h2 : TInv c x -> In (v, h1) (props (tc_out x)) -> In (v, h2) (props (tc_out x)) -> h1 = h2.
Proof. intros I. apply NoDup_map_fst_inj. apply strictly_desc_NoDup. apply (ti_prop_desc _ _ I). Qed.

(* a PREPARE and a COMMIT of one view are for the same hash too (both are for the stored proposal) *)
Theorem prepare_commit_same_hash x to1 r1 s1 to2 r2 s2 o2 : TInv c x ->
  In (OSend to1 (MP r1 s1)) (tc_out x) -> In (OSend to2 (MC r2 s2 o2)) (tc_out x) -> r_view r1 = r_view r2 -> r_hash r1 = r_hash r2.
Proof.
  intros I H1 H2 Ev. destruct (ti_mp _ _ I _ _ _ H1) as (_ & _ & _ & e1 & A1 & B1 & _).
  destruct (ti_mc _ _ I _ _ _ _ H2) as (_ & _ & _ & (e2 & A2 & B2) & _). rewrite Ev in A1. congruence.
Qed.
End C10.

(* ---------- C08 / C07: what the guards of the handlers imply (reference predicates, stated independently of the code) ---------- *)
Section Guards.
Variable c : ncfg.

(* a prepared proof as C08 describes it: valid signatures over one (instance, height, earlier view, hash) by that
   view's leader and by pairwise distinct other committee members, together passing the quorum test *)
Record proof_spec (cm : committee) (h target : N) (p : pproof) : Prop := {
  ps_types : r_type (pf_ppref p) = T_PREPREPARE /\ r_type (pf_pref p) = T_PREPARE;
  ps_inst : r_inst (pf_ppref p) = c_inst c /\ r_inst (pf_pref p) = c_inst c;
  ps_height : r_height (pf_ppref p) = h /\ r_height (pf_pref p) = h;
  ps_same : r_view (pf_pref p) = r_view (pf_ppref p) /\ r_hash (pf_pref p) = r_hash (pf_ppref p);
  ps_earlier : r_view (pf_ppref p) < target;
  ps_leader : s_ok (pf_ppsnd p) = true /\ s_id (pf_ppsnd p) = leaderOf cm (r_view (pf_ppref p));
  ps_preparers : forall s, In s (pf_psnds p) -> s_ok s = true /\ isMember cm (s_id s) = true /\ s_id s <> s_id (pf_ppsnd p);
  ps_distinct : NoDup (map s_id (pf_psnds p));
  ps_quorum : isQ_ids cm (map s_id (pf_psnds p) ++ [s_id (pf_ppsnd p)]) = true
}.

Record vote_spec (cm : committee) (h view : N) (vt : vote) : Prop := {
  vs_type : v_type vt = T_VIEW_CHANGE;
  vs_inst : v_inst vt = c_inst c;
  vs_member : isMember cm (s_id (v_snd vt)) = true;
  vs_sig : s_ok (v_snd vt) = true;
  vs_proof : forall p, v_proof vt = Some p -> proof_spec cm h view p
}.

Lemma vote_valid_sound cm h vt : vote_valid c cm h vt = true -> vote_spec cm h (v_view vt) vt.
Proof.
  unfold vote_valid. rewrite !andb_true_iff, !N.eqb_eq. intros [[[[[A B] C] D] E] F].
  constructor; auto. intros p Hp. rewrite Hp in C, F. unfold validate_proof in F.
  rewrite !andb_true_iff, !N.eqb_eq, N.ltb_lt in F.
  destruct F as [[[[[[[[[[[[F1 F2] F3] F4] F5] F6] F7] F8] F9] F10] F11] F12] F13].
  apply N.eqb_eq in C. rewrite forallb_forall in F12. apply nodupN_NoDup in F13.
  constructor; auto; try (split; congruence).
  intros s Hs. specialize (F12 s Hs). rewrite !andb_true_iff, negb_true_iff, N.eqb_neq in F12. tauto.
Qed.

(* the filter's part of C08: what reaches the term is for this instance and height and not our own message *)
Lemma filter_guard next n m : n_hasterm n = true ->
  filter_handle c next n m <> n -> ~ (n_h n < msg_height m) ->
  msg_sender m <> c_me c /\ msg_height m = n_h n /\ msg_inst m = c_inst c.
Proof.
  intros Ht Hne Hnf. unfold filter_handle in Hne.
  destruct (N.eqb_spec (msg_sender m) (c_me c)); [congruence|].
  destruct (N.ltb_spec (msg_height m) (n_h n)); [congruence|].
  destruct (N.eqb_spec (msg_inst m) (c_inst c)); cbn [negb] in Hne; [|congruence].
  repeat split; auto. lia.
Qed.

(* a committee's leader is one of its members *)
Lemma leader_is_member cm v : cm <> [] -> isMember cm (leaderOf cm v) = true.
Proof.
  intro Hne. unfold isMember, leaderOf. destruct (leader_total cm v Hne) as [id [E Hi]]. rewrite E.
  apply memN_In. exact Hi.
Qed.

Variable wm : option hv.
Variable shut : bool.

(* the reference predicate of C08 for the term (height and instance are the filter's business, above) *)
Definition accept_spec (x : tc) (m : msg) : Prop :=
  let t := tc_t x in let cm := t_cm t in
  match m with
  | MPP r s b => r_type r = T_PREPREPARE /\ r_inst r = c_inst c /\ s_ok s = true /\ s_id s = leaderOf cm (r_view r)
  | MP r s => r_type r = T_PREPARE /\ isMember cm (s_id s) = true /\ s_ok s = true /\ tc_v x <= r_view r /\ s_id s <> leaderOf cm (r_view r)
  | MC r s o => o = true /\ r_type r = T_COMMIT /\ isMember cm (s_id s) = true /\ s_ok s = true
  | MVC vt b => leaderOf cm (v_view vt) = c_me c /\ tc_v x <= v_view vt /\ vote_spec cm (t_h t) (v_view vt) vt
  | MNV ty i h v vs s pp pps b => tc_v x <= v /\ ty = T_NEW_VIEW /\ s_ok s = true /\ s_id s = leaderOf cm v
  end.

Theorem influence_sound x m : thandle c wm shut x m <> x -> accept_spec x m.
Proof.
  intro Hne. destruct m; cbn [thandle accept_spec] in *.
  - unfold handle_pp in Hne. destruct (validate_pp c (tc_t x) r s) eqn:Ev; cbn [negb] in Hne; [|congruence].
    destruct (validate_pp_true _ _ _ _ Ev) as (V1 & V2 & V3 & V4 & V5). auto.
  - unfold handle_p in Hne.
    destruct (N.eqb_spec (r_type r) T_PREPARE); cbn [negb] in Hne; [|congruence].
    destruct (isMember _ _) eqn:Em; cbn [negb] in Hne; [|congruence].
    destruct (s_ok s) eqn:Es; cbn [negb] in Hne; [|congruence].
    destruct (N.ltb_spec (r_view r) (tc_v x)); [congruence|].
    destruct (N.eqb_spec (s_id s) (leaderOf (t_cm (tc_t x)) (r_view r))); [congruence|]. auto.
  - unfold handle_c in Hne. destruct share_ok; cbn [negb] in Hne; [|congruence].
    destruct (N.eqb_spec (r_type r) T_COMMIT); cbn [negb] in Hne; [|congruence].
    destruct (isMember _ _) eqn:Em; cbn [negb] in Hne; [|congruence].
    destruct (s_ok s) eqn:Es; cbn [negb] in Hne; [|congruence]. auto.
  - unfold handle_vc in Hne.
    destruct (N.eqb_spec (leaderOf (t_cm (tc_t x)) (v_view v)) (c_me c)); cbn [negb] in Hne; [|congruence].
    destruct (N.ltb_spec (v_view v) (tc_v x)); [congruence|].
    destruct (vote_valid c _ _ v) eqn:Ev; cbn [negb] in Hne; [|congruence].
    split; [assumption|]. split; [assumption|]. apply vote_valid_sound. exact Ev.
  - unfold handle_nv in Hne.
    destruct (N.ltb_spec nview (tc_v x)); [congruence|].
    destruct (N.eqb_spec nty T_NEW_VIEW); cbn [negb] in Hne; [|congruence].
    destruct (s_ok s) eqn:Es; cbn [negb] in Hne; [|congruence].
    destruct (N.eqb_spec (s_id s) (leaderOf (t_cm (tc_t x)) nview)); cbn [negb] in Hne; [|congruence]. auto.
Qed.
End Guards.

(* ---------- C07: a PREPARE appears only through HandleNewView (valid certificate) or a standalone PREPREPARE ---------- *)
Section C07.
Variable c : ncfg.
Variable wm : option hv.
Variable shut : bool.

Definition is_mp (o : out) : bool := match o with OSend _ (MP _ _) => true | _ => false end.
Definition no_new_mp (x x' : tc) : Prop := forall o, is_mp o = true -> In o (tc_out x') -> In o (tc_out x).

Lemma no_new_mp_refl x : no_new_mp x x. Proof. intros o _ H; exact H. Qed.
Lemma no_new_mp_trans a b d : no_new_mp a b -> no_new_mp b d -> no_new_mp a d.
Proof. intros H1 H2 o Ho Hi. apply H1; auto. Qed.

Ltac nomp_tac :=
  repeat match goal with
  | |- context [if ?b then _ else _] => destruct b
  | |- context [match ?b with Some _ => _ | None => _ end] => destruct b
  | |- context [match ?b with (_, _) => _ end] => destruct b
  | |- context [match ?b with [] => _ | _ :: _ => _ end] => destruct b
  end;
  let o' := fresh "o" in let Ho := fresh "Ho" in let Hi := fresh "Hi" in
  intros o' Ho Hi;
  cbn [tc_out tc_emit tc_set_t tc_set_v tc_bump tc_committed send_all In] in Hi;
  repeat (destruct Hi as [Hi|Hi]; [subst o'; discriminate Ho|]); try exact Hi.

Lemma check_committed_nomp x v h : no_new_mp x (check_committed c wm shut x v h).
Proof. unfold check_committed. nomp_tac. Qed.
Lemma check_prepared_nomp x v h : no_new_mp x (check_prepared c wm shut x v h).
Proof.
  unfold check_prepared.
  destruct (match t_prepared (tc_t x) with Some pv => pv =? v | None => false end); [apply no_new_mp_refl|].
  destruct (is_preprepared (tc_t x) v h); [|apply no_new_mp_refl].
  destruct (isQ_ids _ _); [|apply no_new_mp_refl].
  eapply no_new_mp_trans; [|apply check_committed_nomp]. unfold send_all. nomp_tac.
Qed.
Lemma on_elected_nomp x v vs : no_new_mp x (on_elected c wm shut x v vs).
Proof. unfold on_elected, init_view. nomp_tac. Qed.
Lemma check_elected_nomp x v : no_new_mp x (check_elected c wm shut x v).
Proof.
  unfold check_elected. destruct (N.leb _ _); [apply no_new_mp_refl|].
  destruct (votes_of _ _); [apply no_new_mp_refl|]. destruct (isQ_ids _ _); [apply on_elected_nomp|apply no_new_mp_refl].
Qed.
Lemma handle_p_nomp x r s : no_new_mp x (handle_p c wm shut x r s).
Proof.
  unfold handle_p. repeat (match goal with |- no_new_mp _ (if ?b then _ else _) => destruct b; [apply no_new_mp_refl|] end).
  eapply no_new_mp_trans; [|apply check_prepared_nomp]. nomp_tac.
Qed.
Lemma handle_c_nomp x r s o : no_new_mp x (handle_c c wm shut x r s o).
Proof.
  unfold handle_c. repeat (match goal with |- no_new_mp _ (if ?b then _ else _) => destruct b; [apply no_new_mp_refl|] end).
  eapply no_new_mp_trans; [|apply check_committed_nomp]. nomp_tac.
Qed.
Lemma handle_vc_nomp x vt b : no_new_mp x (handle_vc c wm shut x vt b).
Proof.
  unfold handle_vc. repeat (match goal with |- no_new_mp _ (if ?b then _ else _) => destruct b; [apply no_new_mp_refl|] end).
  assert (A : no_new_mp x (check_elected c wm shut
      (tc_set_t (store_vc (v_view vt) vt b (tc_t x))
         (if has_vc (tc_t x) (v_view vt) (s_id (v_snd vt)) then x
          else tc_emit (OStore T_VIEW_CHANGE (t_h (tc_t x)) (v_view vt) 0 (s_id (v_snd vt))) x)) (v_view vt))).
  { eapply no_new_mp_trans; [|apply check_elected_nomp]. nomp_tac. }
  destruct b, (v_proof vt); try apply no_new_mp_refl; try exact A. destruct (commitsTo _ _ _); [exact A|apply no_new_mp_refl].
Qed.
Lemma move_nomp x h v : no_new_mp x (move_to_next_leader c wm shut x h v).
Proof.
  unfold move_to_next_leader, init_view. destruct (negb _); [apply no_new_mp_refl|].
  destruct (N.ltb _ _); [apply no_new_mp_refl|]. destruct (snd _); [nomp_tac|].
  destruct (N.eqb _ (c_me c)); [|nomp_tac].
  eapply no_new_mp_trans; [|apply check_elected_nomp]. nomp_tac.
Qed.

(* latest_vote picks a vote of the list carrying a proof whose view is maximal among all proofs of the list *)
Lemma latest_vote_spec vs :
  match latest_vote vs with
  | Some lv => In lv vs /\ exists p, v_proof lv = Some p /\
               forall vt q, In vt vs -> v_proof vt = Some q -> r_view (pf_ppref q) <= r_view (pf_ppref p)
  | None => forall vt, In vt vs -> v_proof vt = None
  end.
Proof.
  induction vs as [|vt r IH]; cbn [latest_vote]; [intros vt []|].
  destruct (v_proof vt) as [p|] eqn:Ep.
  - destruct (latest_vote r) as [w|].
    + destruct IH as (Hw & q & Eq & Hmax). rewrite Eq.
      destruct (N.ltb_spec (r_view (pf_ppref p)) (r_view (pf_ppref q))).
      * split; [right; exact Hw|]. exists q. split; [exact Eq|]. intros vt' q' [<-|Hi] E'; [rewrite Ep in E'; inversion E'; subst; lia|eauto].
      * split; [left; reflexivity|]. exists p. split; [exact Ep|]. intros vt' q' [<-|Hi] E'; [rewrite Ep in E'; inversion E'; subst; lia|].
        specialize (Hmax vt' q' Hi E'). lia.
    + split; [left; reflexivity|]. exists p. split; [exact Ep|]. intros vt' q' [<-|Hi] E'; [rewrite Ep in E'; inversion E'; subst; lia|].
      rewrite (IH vt' Hi) in E'. discriminate.
  - destruct (latest_vote r) as [w|].
    + destruct IH as (Hw & q & Eq & Hmax). split; [right; exact Hw|]. exists q. split; [exact Eq|].
      intros vt' q' [<-|Hi] E'; [congruence|eauto].
    + intros vt' [<-|Hi]; [exact Ep|auto].
Qed.

(* the NEW_VIEW certificate of C07, stated independently of the code *)
Record nv_cert (x : tc) (nty ninst nh nvw : N) (vs : list vote) (s : ssig) (pp : bref) (pps : ssig) (b : option block) : Prop := {
  nc_type : nty = T_NEW_VIEW;
  nc_leader : s_ok s = true /\ s_id s = leaderOf (t_cm (tc_t x)) nvw;
  nc_quorum : isQ_ids (t_cm (tc_t x)) (map (fun vt => s_id (v_snd vt)) vs) = true;
  nc_distinct : NoDup (map (fun vt => s_id (v_snd vt)) vs);
  nc_votes : forall vt, In vt vs -> v_height vt = nh /\ v_view vt = nvw /\ vote_spec c (t_cm (tc_t x)) (t_h (tc_t x)) nvw vt;
  nc_proposal : r_type pp = T_PREPREPARE /\ r_inst pp = c_inst c /\ r_view pp = nvw /\ r_height pp = nh /\
                s_ok pps = true /\ s_id pps = leaderOf (t_cm (tc_t x)) nvw;
  nc_block :
    (exists lv p, In lv vs /\ v_proof lv = Some p /\
        (forall vt q, In vt vs -> v_proof vt = Some q -> r_view (pf_ppref q) <= r_view (pf_ppref p)) /\
        r_hash pp = r_hash (pf_ppref p) /\ commitsTo nh b (r_hash (pf_ppref p)) = true)
    \/ ((forall vt, In vt vs -> v_proof vt = None) /\ validProposal (c_me c) (r_height pp) b (r_hash pp) = true)
}.

(* whenever handling a message makes the node send a PREPARE it had not sent before, the message is either a
   NEW_VIEW carrying a valid certificate for the PREPARE's view and hash, or a standalone PREPREPARE from the
   leader of that view (the latter, in a view above 0, is known finding KF-1) *)
Theorem prepare_needs_newview x m to r s :
  In (OSend to (MP r s)) (tc_out (thandle c wm shut x m)) -> ~ In (OSend to (MP r s)) (tc_out x) ->
  (exists nty ninst nh vs sg pp pps b, m = MNV nty ninst nh (r_view r) vs sg pp pps b /\ r_hash r = r_hash pp /\
        nv_cert x nty ninst nh (r_view r) vs sg pp pps b)
  \/ (exists r' s' b, m = MPP r' s' b /\ r_view r' = r_view r /\ r_hash r' = r_hash r /\
        validate_pp c (tc_t x) r' s' = true /\ validProposal (c_me c) (r_height r') b (r_hash r') = true).
Proof.
  intros Hin Hnot.
  assert (PP : forall x0 r0 s0 b0, In (OSend to (MP r s)) (tc_out (process_pp c wm shut x0 r0 s0 b0)) ->
               ~ In (OSend to (MP r s)) (tc_out x0) -> r_view r = r_view r0 /\ r_hash r = r_hash r0).
  { intros x0 r0 s0 b0 Hi Hn. unfold process_pp in Hi. destruct (negb _); [contradiction|].
    apply (check_prepared_nomp _ _ _ (OSend to (MP r s)) eq_refl) in Hi. unfold send_all in Hi. cbn [tc_out tc_emit tc_set_t In] in Hi.
    destruct Hi as [E|Hi].
    - inversion E; subst. cbn. split; reflexivity.
    - exfalso. apply Hn.
      destruct (has_p _ _ _ _); [destruct (has_pp _ _)|destruct (has_pp _ _)];
        cbn [tc_out tc_emit In] in Hi; repeat (destruct Hi as [Hi|Hi]; [discriminate Hi|]); exact Hi. }
  destruct m; cbn [thandle] in Hin.
  - right. unfold handle_pp in Hin.
    destruct (validate_pp c (tc_t x) r0 s0) eqn:Ev; cbn [negb] in Hin; [|contradiction].
    destruct (N.eqb (tc_v x) (r_view r0)); cbn [negb] in Hin; [|contradiction].
    destruct (ctx_ok wm shut _); cbn [negb] in Hin; [|contradiction].
    destruct (validProposal _ _ _ _) eqn:Evp; cbn [negb] in Hin; [|contradiction].
    destruct (PP _ _ _ _ Hin Hnot) as [A B]. exists r0, s0, b. repeat split; auto.
  - exfalso. apply Hnot. apply (handle_p_nomp _ _ _ (OSend to (MP r s)) eq_refl Hin).
  - exfalso. apply Hnot. apply (handle_c_nomp _ _ _ _ (OSend to (MP r s)) eq_refl Hin).
  - exfalso. apply Hnot. apply (handle_vc_nomp _ _ _ (OSend to (MP r s)) eq_refl Hin).
  - left. unfold handle_nv in Hin.
    destruct (N.ltb nview (tc_v x)); [contradiction|].
    destruct (N.eqb_spec nty T_NEW_VIEW) as [Ety|]; cbn [negb] in Hin; [|contradiction].
    destruct (s_ok s0) eqn:Es; cbn [negb] in Hin; [|contradiction].
    destruct (N.eqb_spec (s_id s0) (leaderOf (t_cm (tc_t x)) nview)) as [El|]; cbn [negb] in Hin; [|contradiction].
    destruct (votes_ok (tc_t x) nheight nview votes) eqn:Evo; cbn [negb] in Hin; [|contradiction].
    destruct (N.eqb_spec (r_view pp) nview) as [Epv|]; cbn [negb] in Hin; [|contradiction].
    destruct (N.eqb_spec (r_height pp) nheight) as [Eph|]; cbn [negb] in Hin; [|contradiction].
    destruct (forallb (vote_valid c (t_cm (tc_t x)) (t_h (tc_t x))) votes) eqn:Efa; cbn [negb] in Hin; [|contradiction].
    unfold votes_ok in Evo. rewrite !andb_true_iff in Evo. destruct Evo as [[Q1 Q2] Q3].
    rewrite forallb_forall in Q2, Efa. apply nodupN_NoDup in Q3.
    assert (CONT : In (OSend to (MP r s)) (tc_out
               (if negb (validate_pp c (tc_t x) pp pps) then x else
                match init_view nview (tc_set_t (set_latest nview (tc_t x)) x) with
                | None => tc_set_t (set_latest nview (tc_t x)) x
                | Some x1 => process_pp c wm shut x1 pp pps b end)) ->
            validate_pp c (tc_t x) pp pps = true /\ r_view r = r_view pp /\ r_hash r = r_hash pp).
    { intro Hc. destruct (validate_pp c (tc_t x) pp pps) eqn:Ev; cbn [negb] in Hc; [|contradiction].
      split; [reflexivity|]. unfold init_view in Hc. destruct (N.ltb _ _); [contradiction|].
      apply (PP _ _ _ _ Hc). cbn [tc_out tc_emit tc_set_v tc_set_t In]. intros [E|E]; [discriminate|contradiction]. }
    pose proof (latest_vote_spec votes) as LV.
    assert (FIN : forall (Hblock : (exists lv p, In lv votes /\ v_proof lv = Some p /\
        (forall vt q, In vt votes -> v_proof vt = Some q -> r_view (pf_ppref q) <= r_view (pf_ppref p)) /\
        r_hash pp = r_hash (pf_ppref p) /\ commitsTo nheight b (r_hash (pf_ppref p)) = true)
        \/ ((forall vt, In vt votes -> v_proof vt = None) /\ validProposal (c_me c) (r_height pp) b (r_hash pp) = true)),
        validate_pp c (tc_t x) pp pps = true /\ r_view r = r_view pp /\ r_hash r = r_hash pp ->
        exists nty0 ninst0 nh vs sg pp0 pps0 b0, MNV nty ninst nheight nview votes s0 pp pps b = MNV nty0 ninst0 nh (r_view r) vs sg pp0 pps0 b0 /\
          r_hash r = r_hash pp0 /\ nv_cert x nty0 ninst0 nh (r_view r) vs sg pp0 pps0 b0).
    { intros Hblock (Vp & Rv & Rh). destruct (validate_pp_true _ _ _ _ Vp) as (V1 & V2 & V3 & V4 & V5).
      assert (Evw : r_view r = nview) by congruence.
      exists nty, ninst, nheight, votes, s0, pp, pps, b. rewrite Evw. split; [reflexivity|]. split; [exact Rh|].
      constructor; auto.
      - intros vt Hv. specialize (Q2 vt Hv). rewrite andb_true_iff, !N.eqb_eq in Q2. destruct Q2 as [Q2a Q2b].
        split; [exact Q2a|]. split; [exact Q2b|]. rewrite <- Q2b. apply vote_valid_sound. apply Efa. exact Hv.
      - repeat split; auto; congruence. }
    destruct (latest_vote votes) as [lv|].
    + destruct LV as (Hlv & p & Ep & Hmax). rewrite Ep in Hin.
      destruct (commitsTo nheight b (r_hash (pf_ppref p))) eqn:Ec; cbn [negb] in Hin; [|contradiction].
      destruct (N.eqb_spec (r_hash pp) (r_hash (pf_ppref p))) as [Eh|]; cbn [negb] in Hin; [|contradiction].
      apply FIN; [|apply CONT; exact Hin]. left. exists lv, p. repeat split; auto.
    + destruct (ctx_ok wm shut _); cbn [negb] in Hin; [|contradiction].
      destruct (validProposal _ _ _ _) eqn:Evp; cbn [negb] in Hin; [|contradiction].
      apply FIN; [|apply CONT; exact Hin]. right. split; [exact LV|first [reflexivity|assumption]].
Qed.

(* regression / known finding KF-1: a standalone PREPREPARE in view 1 makes a node that reached view 1 by timeout prepare *)
Definition kf1_cfg : ncfg := {| c_me := 2; c_inst := 7; c_base := [(0,1);(1,1);(2,1);(3,1)]; c_rot := 0; c_excl := []; c_failcommit := [] |}.
Definition kf1_state : tc :=
  {| tc_t := new_tstate 1 (c_base kf1_cfg); tc_v := 1; tc_fresh := 0; tc_out := []; tc_commit := None |}.
Definition kf1_msg : msg :=
  MPP {| r_type := T_PREPREPARE; r_inst := 7; r_height := 1; r_view := 1; r_hash := 99 |} {| s_id := 1; s_ok := true |}
      (Some {| b_height := 1; b_id := 99; b_bad := [] |}).
Theorem standalone_preprepare_adopted_in_view_1 :
  exists to r s, In (OSend to (MP r s)) (tc_out (thandle kf1_cfg None false kf1_state kf1_msg)) /\ r_view r = 1 /\ r_hash r = 99.
Proof. eexists _, _, _. split; [vm_compute; left; reflexivity|]. split; reflexivity. Qed.
End C07.

(* ---------- named projections used by props/ ---------- *)
Lemma prepare_justified c x to r s : TInv c x -> In (OSend to (MP r s)) (tc_out x) -> mp_ok c (tc_t x) r.
Proof. intros I. exact (ti_mp c x I to r s). Qed.
Lemma commit_justified c x to r s o : TInv c x -> In (OSend to (MC r s o)) (tc_out x) -> mc_ok c (tc_t x) r.
Proof. intros I. exact (ti_mc c x I to r s o). Qed.
Lemma vc_views_increase c x : TInv c x -> strictly_desc (mvc_views (tc_out x)).
Proof. intros I. exact (ti_vc_desc c x I). Qed.
Lemma phase_order c x : TInv c x ->
  weakly_desc (phase_views (tc_out x)) /\ Forall (fun v => v <= tc_v x) (phase_views (tc_out x)).
Proof. intros I. split; [exact (ti_phase_desc c x I)|exact (ti_phase_le c x I)]. Qed.
Lemma others_never_prepare c wm shut x :
  (forall r s, no_new_mp x (handle_p c wm shut x r s)) /\ (forall r s o, no_new_mp x (handle_c c wm shut x r s o)) /\
  (forall vt b, no_new_mp x (handle_vc c wm shut x vt b)) /\ (forall h v, no_new_mp x (move_to_next_leader c wm shut x h v)).
Proof. split; [|split; [|split]]; intros. apply handle_p_nomp. apply handle_c_nomp. apply handle_vc_nomp. apply move_nomp. Qed.

(* ====================================================================================================
   Storage invariant: everything the term has stored is verified, role-correct and consistent (C09, C11)
   ==================================================================================================== *)
Section StorageInv.
Variable c : ncfg.

Definition blk_commits (H : N) (e : ppent) : Prop :=
  forall b, pe_blk e = Some b -> commitsTo H (Some b) (r_hash (pe_ref e)) = true.

Record pp_good (t : tstate) (v : N) (e : ppent) : Prop := {
  pg_view : r_view (pe_ref e) = v;
  pg_type : r_type (pe_ref e) = T_PREPREPARE;
  pg_inst : r_inst (pe_ref e) = c_inst c;
  pg_height : r_height (pe_ref e) = t_h t;
  pg_sig : s_ok (pe_snd e) = true;
  pg_leader : s_id (pe_snd e) = leaderOf (t_cm t) v;
  pg_blk : blk_commits (t_h t) e
}.

Definition p_good (t : tstate) (v : N) (s : ssig) : Prop :=
  s_ok s = true /\ isMember (t_cm t) (s_id s) = true /\ s_id s <> leaderOf (t_cm t) v.

Definition vc_good (t : tstate) (v : N) (vt : vote) (b : option block) : Prop :=
  v_view vt = v /\ v_height vt = t_h t /\ vote_spec c (t_cm t) (t_h t) v vt /\
  match b, v_proof vt with
  | None, None => True
  | Some bb, Some p => commitsTo (t_h t) b (r_hash (pf_ppref p)) = true
  | _, _ => False
  end.

Record SInv (x : tc) : Prop := {
  si_pp : forall v e, get_pp (tc_t x) v = Some e -> pp_good (tc_t x) v e /\ v <= tc_v x;
  si_p : forall v h s, In (v, h, s) (t_p (tc_t x)) -> p_good (tc_t x) v s;
  si_p_nodup : forall v h, NoDup (map s_id (bucket (t_p (tc_t x)) v h));
  si_prep : forall pv, t_prepared (tc_t x) = Some pv ->
      exists e b, get_pp (tc_t x) pv = Some e /\ pe_blk e = Some b /\
        bucket (t_p (tc_t x)) pv (r_hash (pe_ref e)) <> [] /\
        isQ_ids (t_cm (tc_t x)) (map s_id (bucket (t_p (tc_t x)) pv (r_hash (pe_ref e))) ++ [s_id (pe_snd e)]) = true;
  si_vc : forall v vt b, In (v, (vt, b)) (t_vc (tc_t x)) -> vc_good (tc_t x) v vt b;
  si_me : isMember (t_cm (tc_t x)) (c_me c) = true;
  si_total : total (t_cm (tc_t x)) < W64
}.

Lemma In_bucket l v h s : In s (bucket l v h) <-> In (v, h, s) l.
Proof.
  unfold bucket. rewrite in_map_iff. split.
  - intros [[[v' h'] s'] [E Hi]]. cbn in E. subst s'. apply filter_In in Hi. destruct Hi as [Hi Hc].
    cbn [fst snd] in Hc. rewrite andb_true_iff, !N.eqb_eq in Hc. destruct Hc; subst. exact Hi.
  - intro Hi. exists (v, h, s). split; [reflexivity|]. apply filter_In. split; [exact Hi|].
    cbn [fst snd]. rewrite !N.eqb_refl. reflexivity.
Qed.

Lemma In_store_in l v h s v' h' s' : In (v', h', s') (store_in l v h s) -> In (v', h', s') l \/ (v', h', s') = (v, h, s).
Proof. unfold store_in. destruct (memN _ _); [auto|]. intro Hi. apply in_app_or in Hi. destruct Hi as [Hi|[Hi|[]]]; auto. Qed.

Lemma bucket_store_in_other l v h s v' h' : (v', h') <> (v, h) -> bucket (store_in l v h s) v' h' = bucket l v' h'.
Proof.
  intro Hne. unfold store_in. destruct (memN _ _); [reflexivity|]. unfold bucket. rewrite filter_app, map_app. cbn [filter fst snd].
  destruct (N.eqb_spec v v'); destruct (N.eqb_spec h h'); cbn [andb map]; try apply app_nil_r. subst. congruence.
Qed.

Lemma bucket_store_in_same l v h s :
  bucket (store_in l v h s) v h = if memN (s_id s) (map s_id (bucket l v h)) then bucket l v h else bucket l v h ++ [s].
Proof.
  unfold store_in. destruct (memN _ _); [reflexivity|]. unfold bucket at 1. rewrite filter_app, map_app. cbn [filter fst snd].
  rewrite !N.eqb_refl. reflexivity.
Qed.

Lemma NoDup_app_one {A} (l : list A) a : NoDup l -> ~ In a l -> NoDup (l ++ [a]).
Proof.
  induction l as [|x r IH]; cbn; intros ND Hn; [constructor; [intros []|constructor]|].
  inversion ND; subst. constructor.
  - intro Hi. apply in_app_or in Hi. destruct Hi as [Hi|[Hi|[]]]; [contradiction|]. apply Hn. left. symmetry; exact Hi.
  - apply IH; [assumption|]. intro Hi. apply Hn. right. exact Hi.
Qed.

Lemma nodup_bucket_store_in l v h s v' h' :
  NoDup (map s_id (bucket l v' h')) -> NoDup (map s_id (bucket (store_in l v h s) v' h')).
Proof.
  intro ND. destruct (N.eq_dec v' v) as [->|Nv]; [destruct (N.eq_dec h' h) as [->|Nh]|].
  - rewrite bucket_store_in_same. destruct (memN (s_id s) _) eqn:Em; [exact ND|].
    rewrite map_app. cbn [map]. apply NoDup_app_one; [exact ND|]. apply memN_false_In. exact Em.
  - rewrite bucket_store_in_other by congruence. exact ND.
  - rewrite bucket_store_in_other by congruence. exact ND.
Qed.
End StorageInv.

Section StorageInvProofs.
Variable c : ncfg.
Variable wm : option hv.
Variable shut : bool.

(* sort_by is a permutation *)
Lemma insert_by_perm {A} (key : A -> N) a l : Permutation (insert_by key a l) (a :: l).
Proof.
  induction l as [|y r IH]; cbn [insert_by]; [apply Permutation_refl|].
  destruct (N.leb (key a) (key y)); [apply Permutation_refl|].
  eapply Permutation_trans; [apply perm_skip; exact IH|apply perm_swap].
Qed.
Lemma sort_by_perm {A} (key : A -> N) l : Permutation (sort_by key l) l.
Proof.
  unfold sort_by. induction l as [|a r IH]; cbn [fold_right]; [apply Permutation_refl|].
  eapply Permutation_trans; [apply insert_by_perm|apply perm_skip; exact IH].
Qed.

(* SInv only looks at the proposal / prepare / vote storage, the prepared flag, height, committee and the view *)
Definition storage_eq (t t' : tstate) : Prop :=
  t_pp t' = t_pp t /\ t_p t' = t_p t /\ t_vc t' = t_vc t /\ t_prepared t' = t_prepared t /\ t_h t' = t_h t /\ t_cm t' = t_cm t.

Lemma get_pp_ext t t' v : t_pp t' = t_pp t -> get_pp t' v = get_pp t v.
Proof. intro E. unfold get_pp. rewrite E. reflexivity. Qed.

Lemma pp_good_ext t t' v e : t_h t' = t_h t -> t_cm t' = t_cm t -> pp_good c t v e -> pp_good c t' v e.
Proof. intros Eh Ec [A1 A2 A3 A4 A5 A6 A7]. constructor; auto; try congruence. unfold blk_commits in *. rewrite Eh. exact A7. Qed.

Lemma SInv_storage_eq x t' : SInv c x -> storage_eq (tc_t x) t' -> SInv c (tc_set_t t' x).
Proof.
  intros [H1 H2 H3 H4 H5 H6 H7] (E1 & E2 & E3 & E4 & E5 & E6).
  constructor; cbn [tc_set_t tc_t tc_v]; rewrite ?E2, ?E3, ?E4, ?E5, ?E6; auto.
  - intros v e He. rewrite (get_pp_ext _ _ _ E1) in He. destruct (H1 v e He) as [G L]. split; [|exact L].
    eapply pp_good_ext; eauto.
  - intros v h s Hi. destruct (H2 v h s Hi) as (A & B & C). unfold p_good. rewrite E6. auto.
  - intros pv Hp. destruct (H4 pv Hp) as (e & b & G1 & G2 & G3 & G4). exists e, b. rewrite (get_pp_ext _ _ _ E1). auto.
  - intros v vt b Hi. destruct (H5 v vt b Hi) as (A & B & C & D). unfold vc_good. rewrite E5, E6. auto.
Qed.

Lemma SInv_emit x o : SInv c x -> SInv c (tc_emit o x).
Proof. intros [H1 H2 H3 H4 H5 H6 H7]. constructor; auto. Qed.
Lemma SInv_bump x : SInv c x -> SInv c (tc_bump x).
Proof. intros [H1 H2 H3 H4 H5 H6 H7]. constructor; auto. Qed.
Lemma SInv_committed x b : SInv c x -> SInv c (tc_committed b x).
Proof. intros [H1 H2 H3 H4 H5 H6 H7]. constructor; auto. Qed.
Lemma SInv_set_v x v : tc_v x <= v -> SInv c x -> SInv c (tc_set_v v x).
Proof.
  intros L [H1 H2 H3 H4 H5 H6 H7]. constructor; cbn [tc_set_v tc_t tc_v]; auto.
  intros v' e He. destruct (H1 v' e He) as [G L']. split; [exact G|lia].
Qed.

Lemma SInv_store_c x v h s : SInv c x -> SInv c (tc_set_t (store_c v h s (tc_t x)) x).
Proof. intro I. apply SInv_storage_eq; [exact I|]. repeat split; reflexivity. Qed.
Lemma SInv_set_committed x : SInv c x -> SInv c (tc_set_t (set_committed (tc_t x)) x).
Proof. intro I. apply SInv_storage_eq; [exact I|]. repeat split; reflexivity. Qed.
Lemma SInv_set_latest x v : SInv c x -> SInv c (tc_set_t (set_latest v (tc_t x)) x).
Proof. intro I. apply SInv_storage_eq; [exact I|]. repeat split; reflexivity. Qed.

Lemma SInv_store_p x v h s : SInv c x -> p_good (tc_t x) v s -> SInv c (tc_set_t (store_p v h s (tc_t x)) x).
Proof.
  intros [H1 H2 H3 H4 H5 H6 H7] G. constructor; cbn [tc_set_t tc_t tc_v store_p t_p t_cm t_h t_prepared t_vc]; auto.
  - intros v' e He. destruct (H1 v' e He) as [A L]. split; [|exact L]. eapply pp_good_ext; [| |exact A]; reflexivity.
  - intros v' h' s' Hi. apply In_store_in in Hi. destruct Hi as [Hi|E]; [exact (H2 _ _ _ Hi)|inversion E; subst; exact G].
  - intros v' h'. apply nodup_bucket_store_in. apply H3.
  - intros pv Hp. destruct (H4 pv Hp) as (e & b & G1 & G2 & G3 & G4). exists e, b. split; [exact G1|]. split; [exact G2|].
    pose proof (bucket_store_in_incl (t_p (tc_t x)) v h s pv (r_hash (pe_ref e))) as Hincl. split.
    + intro E. destruct (bucket (t_p (tc_t x)) pv (r_hash (pe_ref e))) as [|a l] eqn:Eb; [congruence|].
      specialize (Hincl a (or_introl eq_refl)). rewrite E in Hincl. exact Hincl.
    + eapply isQ_ids_mono; [exact H7| |exact G4]. apply incl_app; [apply incl_appl, incl_map, Hincl|apply incl_appr, incl_refl].
Qed.

Lemma SInv_store_pp x v e : SInv c x -> pp_good c (tc_t x) v e -> v <= tc_v x -> SInv c (tc_set_t (store_pp v e (tc_t x)) x).
Proof.
  intros I G L. destruct (get_pp (tc_t x) v) as [e0|] eqn:En.
  - replace (store_pp v e (tc_t x)) with (tc_t x) by (unfold store_pp; rewrite En; reflexivity).
    destruct x; exact I.
  - destruct I as [H1 H2 H3 H4 H5 H6 H7].
    assert (Es : store_pp v e (tc_t x) = {| t_h := t_h (tc_t x); t_cm := t_cm (tc_t x); t_pp := t_pp (tc_t x) ++ [(v, e)]; t_p := t_p (tc_t x); t_c := t_c (tc_t x);
                 t_vc := t_vc (tc_t x); t_prepared := t_prepared (tc_t x); t_latest := t_latest (tc_t x); t_committed := t_committed (tc_t x) |})
      by (unfold store_pp; rewrite En; reflexivity).
    assert (Eg : forall v', get_pp (store_pp v e (tc_t x)) v' = if N.eqb v' v then Some e else get_pp (tc_t x) v')
      by (intro v'; rewrite get_pp_store_pp, En; reflexivity).
    constructor; cbn [tc_set_t tc_t tc_v]; rewrite ?Es; cbn [t_p t_cm t_h t_prepared t_vc]; auto.
    + intros v' e' He. rewrite <- Es, Eg in He. destruct (N.eqb_spec v' v) as [->|].
      * inversion He; subst. split; [|exact L]. eapply pp_good_ext; [| |exact G]; reflexivity.
      * destruct (H1 v' e' He) as [A L']. split; [|exact L']. eapply pp_good_ext; [| |exact A]; reflexivity.
    + intros pv Hp. destruct (H4 pv Hp) as (e' & b & G1 & G2 & G3 & G4). exists e', b. rewrite <- Es, Eg.
      destruct (N.eqb_spec pv v) as [->|]; [congruence|]. auto.
Qed.

Lemma SInv_store_vc x v vt b : SInv c x -> vc_good c (tc_t x) v vt b -> SInv c (tc_set_t (store_vc v vt b (tc_t x)) x).
Proof.
  intros I G. unfold store_vc. destruct (memN _ _); [destruct x; exact I|].
  destruct I as [H1 H2 H3 H4 H5 H6 H7]. constructor; cbn [tc_set_t tc_t tc_v t_p t_cm t_h t_prepared t_vc]; auto.
  - intros v' e He. destruct (H1 v' e He) as [A L]. split; [|exact L]. eapply pp_good_ext; [| |exact A]; reflexivity.
  - intros v' vt' b' Hi. apply in_app_or in Hi. destruct Hi as [Hi|[E|[]]]; [exact (H5 _ _ _ Hi)|inversion E; subst; exact G].
Qed.

Lemma SInv_set_prepared x v : SInv c x ->
  (exists e b, get_pp (tc_t x) v = Some e /\ pe_blk e = Some b /\ bucket (t_p (tc_t x)) v (r_hash (pe_ref e)) <> [] /\
     isQ_ids (t_cm (tc_t x)) (map s_id (bucket (t_p (tc_t x)) v (r_hash (pe_ref e))) ++ [s_id (pe_snd e)]) = true) ->
  SInv c (tc_set_t (set_prepared v (tc_t x)) x).
Proof.
  intros [H1 H2 H3 H4 H5 H6 H7] W. constructor; cbn [tc_set_t tc_t tc_v set_prepared t_p t_cm t_h t_prepared t_vc]; auto.
  - intros v' e He. destruct (H1 v' e He) as [A L]. split; [|exact L]. eapply pp_good_ext; [| |exact A]; reflexivity.
  - intros pv Hp. inversion Hp; subst. exact W.
Qed.

(* ---- handlers ---- *)
Lemma check_committed_sinv x v h : SInv c x -> SInv c (check_committed c wm shut x v h).
Proof.
  intro I. unfold check_committed. destruct (t_committed (tc_t x)); [exact I|].
  destruct (is_preprepared (tc_t x) v h) as [e|]; [|exact I].
  destruct (negb _); [exact I|]. destruct (negb _); [exact I|]. destruct (pe_blk e); [|exact I].
  apply SInv_committed, SInv_emit.
  set (x1 := if memN (c_me c) _ then x else _).
  assert (I1 : SInv c x1 /\ tc_t x1 = tc_t x) by (subst x1; destruct (memN _ _); [auto|split; [apply SInv_emit; exact I|reflexivity]]).
  destruct I1 as [I1 E1]. rewrite <- E1. apply SInv_set_committed. exact I1.
Qed.

Lemma check_prepared_sinv x v h : SInv c x -> bucket (t_p (tc_t x)) v h <> [] -> SInv c (check_prepared c wm shut x v h).
Proof.
  intros I Hb. unfold check_prepared.
  destruct (match t_prepared (tc_t x) with Some pv => pv =? v | None => false end); [exact I|].
  destruct (is_preprepared (tc_t x) v h) as [e|] eqn:Ep; [|exact I].
  destruct (is_preprepared_some _ _ _ _ Ep) as (G1 & G2 & b & Gb).
  destruct (isQ_ids _ _) eqn:Eq; [|exact I].
  apply check_committed_sinv. unfold send_all. apply SInv_emit.
  set (x0 := if has_c _ _ _ _ then x else _).
  assert (I0 : SInv c x0 /\ tc_t x0 = tc_t x) by (subst x0; destruct (has_c _ _ _ _); [auto|split; [apply SInv_emit; exact I|reflexivity]]).
  destruct I0 as [I0 E0].
  assert (Ip : SInv c (tc_set_t (set_prepared v (tc_t x0)) x0)).
  { apply SInv_set_prepared; [exact I0|]. rewrite E0. exists e, b. rewrite G2. auto. }
  pose proof (SInv_store_c _ v h (my_sig c) Ip) as Ic. cbn [tc_set_t tc_t] in Ic. rewrite E0 in Ic. exact Ic.
Qed.

Lemma bucket_nonempty_after_store l v h s : bucket (store_in l v h s) v h <> [].
Proof.
  rewrite bucket_store_in_same. destruct (memN (s_id s) (map s_id (bucket l v h))) eqn:Em.
  - intro E. rewrite E in Em. discriminate.
  - intro E. apply app_eq_nil in E. destruct E; discriminate.
Qed.

Lemma process_pp_sinv x r s b : SInv c x -> get_pp (tc_t x) (r_view r) = None ->
  r_type r = T_PREPREPARE -> r_inst r = c_inst c -> r_height r = t_h (tc_t x) -> s_ok s = true ->
  s_id s = leaderOf (t_cm (tc_t x)) (r_view r) -> s_id s <> c_me c ->
  (forall bb, b = Some bb -> commitsTo (t_h (tc_t x)) b (r_hash r) = true) ->
  SInv c (process_pp c wm shut x r s b).
Proof.
  intros I Hn Ht Hi Hh Hs Hl Hme Hb. unfold process_pp.
  destruct (N.eqb_spec (tc_v x) (r_view r)) as [Ev|Ev]; cbn [negb]; [|exact I].
  set (e := {| pe_ref := r; pe_snd := s; pe_blk := b |}).
  set (t0 := store_pp (r_view r) e (tc_t x)).
  set (x0 := if has_pp _ _ then x else _).
  set (x0' := if has_p t0 _ _ _ then x0 else _).
  assert (I0 : SInv c x0' /\ tc_t x0' = tc_t x /\ tc_v x0' = tc_v x).
  { subst x0' x0. destruct (has_p _ _ _ _), (has_pp _ _); (split; [repeat apply SInv_emit; exact I|split; reflexivity]). }
  destruct I0 as (I0 & E0t & E0v).
  assert (G : pp_good c (tc_t x) (r_view r) e).
  { constructor; cbn [e pe_ref pe_snd pe_blk]; auto. intros bb Ebb. rewrite <- Ebb. apply (Hb bb Ebb). }
  assert (I1 : SInv c (tc_set_t t0 x0')).
  { subst t0. rewrite <- E0t. apply SInv_store_pp; [exact I0|rewrite E0t; exact G|rewrite E0v; lia]. }
  assert (Ecm : t_cm t0 = t_cm (tc_t x) /\ t_h t0 = t_h (tc_t x)) by (subst t0; destruct (store_pp_hc (r_view r) e (tc_t x)); auto).
  assert (I2 : SInv c (tc_set_t (store_p (r_view r) (r_hash r) (my_sig c) t0) x0')).
  { pose proof (SInv_store_p _ (r_view r) (r_hash r) (my_sig c) I1) as P. cbn [tc_set_t tc_t] in P. apply P.
    unfold p_good. destruct Ecm as [Ec _]. rewrite Ec. cbn [my_sig s_ok s_id]. split; [reflexivity|]. split; [apply (si_me _ _ I)|].
    rewrite <- Hl. auto. }
  apply check_prepared_sinv.
  - unfold send_all. apply SInv_emit. exact I2.
  - unfold send_all. cbn [tc_emit tc_t tc_set_t store_p t_p]. apply bucket_nonempty_after_store.
Qed.

Lemma validProposal_commits me h b x : validProposal me h b x = true -> forall bb, b = Some bb -> commitsTo h b x = true.
Proof.
  intros H bb ->. unfold validProposal, commitsTo in *. rewrite !andb_true_iff in H. destruct H as [[_ A] B].
  rewrite A, B. reflexivity.
Qed.

Lemma handle_pp_sinv x r s b : SInv c x -> r_height r = t_h (tc_t x) -> s_id s <> c_me c -> SInv c (handle_pp c wm shut x r s b).
Proof.
  intros I Hh Hme. unfold handle_pp.
  destruct (validate_pp c (tc_t x) r s) eqn:Ev; cbn [negb]; [|exact I].
  destruct (validate_pp_true _ _ _ _ Ev) as (V1 & V2 & V3 & V4 & V5).
  destruct (N.eqb (tc_v x) (r_view r)); cbn [negb]; [|exact I].
  destruct (ctx_ok wm shut _); cbn [negb]; [|exact I].
  destruct (validProposal _ _ _ _) eqn:Evp; cbn [negb]; [|exact I].
  apply process_pp_sinv; auto. rewrite <- Hh. apply (validProposal_commits _ _ _ _ Evp).
Qed.

Lemma handle_p_sinv x r s : SInv c x -> SInv c (handle_p c wm shut x r s).
Proof.
  intros I. unfold handle_p.
  destruct (N.eqb (r_type r) T_PREPARE); cbn [negb]; [|exact I].
  destruct (isMember _ _) eqn:Em; cbn [negb]; [|exact I].
  destruct (s_ok s) eqn:Es; cbn [negb]; [|exact I].
  destruct (N.ltb (r_view r) (tc_v x)); [exact I|].
  destruct (N.eqb_spec (s_id s) (leaderOf (t_cm (tc_t x)) (r_view r))) as [|Nl]; [exact I|].
  set (x0 := if has_p _ _ _ _ then x else _).
  assert (I0 : SInv c x0 /\ tc_t x0 = tc_t x) by (subst x0; destruct (has_p _ _ _ _); [auto|split; [apply SInv_emit; exact I|reflexivity]]).
  destruct I0 as [I0 E0].
  apply check_prepared_sinv.
  - rewrite <- E0. apply SInv_store_p; [exact I0|]. rewrite E0. repeat split; auto.
  - cbn [tc_set_t tc_t store_p t_p]. apply bucket_nonempty_after_store.
Qed.

Lemma handle_c_sinv x r s o : SInv c x -> SInv c (handle_c c wm shut x r s o).
Proof.
  intros I. unfold handle_c.
  destruct o; cbn [negb]; [|exact I].
  destruct (N.eqb (r_type r) T_COMMIT); cbn [negb]; [|exact I].
  destruct (isMember _ _); cbn [negb]; [|exact I].
  destruct (s_ok s); cbn [negb]; [|exact I].
  apply check_committed_sinv.
  set (x0 := if has_c _ _ _ _ then x else _).
  assert (I0 : SInv c x0 /\ tc_t x0 = tc_t x) by (subst x0; destruct (has_c _ _ _ _); [auto|split; [apply SInv_emit; exact I|reflexivity]]).
  destruct I0 as [I0 E0]. rewrite <- E0. apply SInv_store_c. exact I0.
Qed.

(* GetLatestBlockFromViewChangeMessages: a vote of the list that carries a block and a proof of maximal view among
   the votes that carry both; None iff no vote carries both *)
Lemma latest_block_aux_spec vs :
  match latest_block_aux vs with
  | Some (vt, p, b) => In (vt, Some b) vs /\ v_proof vt = Some p /\
       forall vt' b' q, In (vt', Some b') vs -> v_proof vt' = Some q -> r_view (pf_ppref q) <= r_view (pf_ppref p)
  | None => forall vt' b' q, In (vt', Some b') vs -> v_proof vt' = Some q -> False
  end.
Proof.
  induction vs as [|[vt ob] r IH]; cbn [latest_block_aux]; [intros ? ? ? []|].
  destruct ob as [b|].
  - destruct (v_proof vt) as [p|] eqn:Ep.
    + destruct (latest_block_aux r) as [[[w q] b']|].
      * destruct IH as (Hw & Eq & Hmax).
        destruct (N.ltb_spec (r_view (pf_ppref p)) (r_view (pf_ppref q))).
        -- split; [right; exact Hw|]. split; [exact Eq|]. intros vt' b'' q' [E|Hi] E'; [inversion E; subst; rewrite Ep in E'; inversion E'; subst; lia|eauto].
        -- split; [left; reflexivity|]. split; [exact Ep|]. intros vt' b'' q' [E|Hi] E'; [inversion E; subst; rewrite Ep in E'; inversion E'; subst; lia|].
           specialize (Hmax _ _ _ Hi E'). lia.
      * split; [left; reflexivity|]. split; [exact Ep|]. intros vt' b'' q' [E|Hi] E'; [inversion E; subst; rewrite Ep in E'; inversion E'; subst; lia|].
        exfalso. eapply IH; eauto.
    + destruct (latest_block_aux r) as [[[w q] b']|].
      * destruct IH as (Hw & Eq & Hmax). split; [right; exact Hw|]. split; [exact Eq|].
        intros vt' b'' q' [E|Hi] E'; [inversion E; subst; congruence|eauto].
      * intros vt' b'' q' [E|Hi] E'; [inversion E; subst; congruence|eauto].
  - destruct (latest_block_aux r) as [[[w q] b']|].
    + destruct IH as (Hw & Eq & Hmax). split; [right; exact Hw|]. split; [exact Eq|].
      intros vt' b'' q' [E|Hi] E'; [inversion E|eauto].
    + intros vt' b'' q' [E|Hi] E'; [inversion E|eauto].
Qed.

Lemma votes_of_In t v vt b : In (vt, b) (votes_of t v) -> In (v, (vt, b)) (t_vc t).
Proof.
  unfold votes_of. intro Hi. apply in_map_iff in Hi. destruct Hi as [[v' p] [E Hi]]. cbn in E. subst p.
  apply filter_In in Hi. destruct Hi as [Hi Hc]. cbn in Hc. apply N.eqb_eq in Hc. subst. exact Hi.
Qed.

Lemma on_elected_sinv x v : SInv c x -> leaderOf (t_cm (tc_t x)) v = c_me c -> SInv c (on_elected c wm shut x v (votes_of (tc_t x) v)).
Proof.
  intros I Hl. unfold on_elected, init_view. cbn [tc_set_t tc_v].
  assert (I0 : SInv c (tc_set_t (set_latest v (tc_t x)) x)) by (apply SInv_set_latest; exact I).
  destruct (N.ltb_spec v (tc_v x)) as [Hv|Hv]; [exact I0|].
  set (x1 := tc_emit _ (tc_set_v v (tc_set_t (set_latest v (tc_t x)) x))).
  assert (I1 : SInv c x1) by (apply SInv_emit, SInv_set_v; [exact Hv|exact I0]).
  assert (go_ok : forall b h x2, SInv c x2 -> tc_v x2 = v -> t_h (tc_t x2) = t_h (tc_t x) -> t_cm (tc_t x2) = t_cm (tc_t x) ->
       commitsTo (t_h (tc_t x)) (Some b) h = true ->
       SInv c (let t1 := tc_t x2 in
             let ppr := mk_ref T_PREPREPARE c (t_h t1) v h in
             let nv := MNV T_NEW_VIEW (c_inst c) (t_h t1) v (map fst (votes_of (tc_t x) v)) (my_sig c) ppr (my_sig c) (Some b) in
             let t2 := store_pp v {| pe_ref := ppr; pe_snd := my_sig c; pe_blk := Some b |} t1 in
             let x3 := if has_pp t1 v then x2 else tc_emit (OStore T_PREPREPARE (t_h t1) v h (c_me c)) x2 in
             send_all c nv (tc_set_t t2 x3))).
  { intros b h x2 I2 V2 Eh Ec Hc. cbn zeta. unfold send_all. apply SInv_emit.
    set (x3 := if has_pp (tc_t x2) v then x2 else _).
    assert (I3 : SInv c x3 /\ tc_t x3 = tc_t x2 /\ tc_v x3 = tc_v x2) by (subst x3; destruct (has_pp _ _); [auto|split; [apply SInv_emit; exact I2|split; reflexivity]]).
    destruct I3 as (I3 & E3t & E3v). rewrite <- E3t. apply SInv_store_pp; [exact I3| |lia].
    rewrite E3t. constructor; cbn [pe_ref pe_snd pe_blk mk_ref r_view r_type r_inst r_height r_hash my_sig s_ok s_id]; auto.
    - rewrite Ec. symmetry; exact Hl.
    - intros bb Ebb. inversion Ebb; subst. cbn [pe_ref mk_ref r_hash]. rewrite Eh. exact Hc. }
  pose proof (latest_block_aux_spec (votes_of (tc_t x) v)) as LB. unfold latest_block.
  destruct (latest_block_aux (votes_of (tc_t x) v)) as [[[vt p] b]|].
  - destruct LB as (Hin & Ep & _). apply votes_of_In in Hin. destruct (si_vc _ _ I _ _ _ Hin) as (_ & _ & VS & BC).
    rewrite Ep in BC. destruct (vs_proof _ _ _ _ _ VS p Ep) as [_ _ _ [_ Sh] _ _ _ _ _].
    apply go_ok; auto. rewrite Sh. exact BC.
  - destruct (ctx_ok wm shut _); cbn [negb]; [|exact I1].
    apply go_ok; auto; [apply SInv_bump; exact I1|].
    unfold commitsTo. cbn [b_height b_id]. rewrite !N.eqb_refl. reflexivity.
Qed.

Lemma check_elected_sinv x v : SInv c x -> leaderOf (t_cm (tc_t x)) v = c_me c -> SInv c (check_elected c wm shut x v).
Proof.
  intros I Hl. unfold check_elected. destruct (N.leb _ _); [exact I|].
  destruct (votes_of (tc_t x) v) as [|e r] eqn:Ev; [exact I|].
  destruct (isQ_ids _ _); [|exact I]. rewrite <- Ev. apply on_elected_sinv; assumption.
Qed.

Lemma handle_vc_sinv x vt b : SInv c x -> v_height vt = t_h (tc_t x) -> SInv c (handle_vc c wm shut x vt b).
Proof.
  intros I Hh. unfold handle_vc.
  destruct (N.eqb_spec (leaderOf (t_cm (tc_t x)) (v_view vt)) (c_me c)) as [El|]; cbn [negb]; [|exact I].
  destruct (N.ltb (v_view vt) (tc_v x)); [exact I|].
  destruct (vote_valid _ _ _ _) eqn:Ev; cbn [negb]; [|exact I].
  pose proof (vote_valid_sound _ _ _ _ Ev) as VS.
  assert (A : vc_good c (tc_t x) (v_view vt) vt b -> SInv c (check_elected c wm shut
      (tc_set_t (store_vc (v_view vt) vt b (tc_t x))
         (if has_vc (tc_t x) (v_view vt) (s_id (v_snd vt)) then x
          else tc_emit (OStore T_VIEW_CHANGE (t_h (tc_t x)) (v_view vt) 0 (s_id (v_snd vt))) x)) (v_view vt))).
  { intro G. set (x0 := if has_vc _ _ _ then x else _).
    assert (I0 : SInv c x0 /\ tc_t x0 = tc_t x) by (subst x0; destruct (has_vc _ _ _); [auto|split; [apply SInv_emit; exact I|reflexivity]]).
    destruct I0 as [I0 E0]. apply check_elected_sinv.
    - rewrite <- E0. apply SInv_store_vc; [exact I0|rewrite E0; exact G].
    - cbn [tc_set_t tc_t]. destruct (store_vc_hc (v_view vt) vt b (tc_t x)) as [_ Ec]. rewrite Ec. exact El. }
  destruct b as [bb|], (v_proof vt) as [p|] eqn:Ep; try exact I.
  - destruct (commitsTo _ _ _) eqn:Ec; [|exact I]. apply A. unfold vc_good. rewrite Ep. rewrite Hh in Ec. auto.
  - apply A. unfold vc_good. rewrite Ep. auto.
Qed.

Lemma handle_nv_sinv x nty ninst nh nvw vs s pp pps b :
  SInv c x -> nh = t_h (tc_t x) -> s_id s <> c_me c -> SInv c (handle_nv c wm shut x nty ninst nh nvw vs s pp pps b).
Proof.
  intros I Hh Hme. unfold handle_nv.
  destruct (N.ltb_spec nvw (tc_v x)) as [Hv|Hv]; [exact I|].
  destruct (N.eqb nty T_NEW_VIEW); cbn [negb]; [|exact I].
  destruct (s_ok s); cbn [negb]; [|exact I].
  destruct (N.eqb_spec (s_id s) (leaderOf (t_cm (tc_t x)) nvw)) as [El|El]; cbn [negb]; [|exact I].
  destruct (votes_ok _ _ _ _); cbn [negb]; [|exact I].
  destruct (N.eqb_spec (r_view pp) nvw) as [Epv|Epv]; cbn [negb]; [|exact I].
  destruct (N.eqb_spec (r_height pp) nh) as [Eph|Eph]; cbn [negb]; [|exact I].
  destruct (forallb _ vs); cbn [negb]; [|exact I].
  assert (C : (forall bb, b = Some bb -> commitsTo (t_h (tc_t x)) b (r_hash pp) = true) ->
              SInv c (if negb (validate_pp c (tc_t x) pp pps) then x else
                    match init_view nvw (tc_set_t (set_latest nvw (tc_t x)) x) with
                    | None => tc_set_t (set_latest nvw (tc_t x)) x
                    | Some x1 => process_pp c wm shut x1 pp pps b end)).
  { intro Hb. destruct (validate_pp c (tc_t x) pp pps) eqn:Ev; cbn [negb]; [|exact I].
    destruct (validate_pp_true _ _ _ _ Ev) as (V1 & V2 & V3 & V4 & V5).
    unfold init_view. cbn [tc_set_t tc_v]. assert (N.ltb nvw (tc_v x) = false) as -> by (apply N.ltb_ge; exact Hv).
    apply process_pp_sinv; cbn [tc_emit tc_set_v tc_set_t tc_t set_latest t_h t_cm]; auto.
    - apply SInv_emit, SInv_set_v; [exact Hv|]. apply SInv_set_latest. exact I.
    - congruence.
    - rewrite V5, Epv, <- El. exact Hme. }
  destruct (latest_vote vs) as [lv|].
  - destruct (v_proof lv) as [p|]; [|exact I].
    destruct (commitsTo nh b (r_hash (pf_ppref p))) eqn:Ec; cbn [negb]; [|exact I].
    destruct (N.eqb_spec (r_hash pp) (r_hash (pf_ppref p))) as [Eh|]; cbn [negb]; [|exact I].
    apply C. intros bb _. rewrite Eh, <- Hh. exact Ec.
  - destruct (ctx_ok wm shut _); cbn [negb]; [|exact I].
    destruct (validProposal _ _ _ _) eqn:Evp; cbn [negb]; [|exact I].
    apply C. rewrite <- Hh, <- Eph. apply (validProposal_commits _ _ _ _ Evp).
Qed.
End StorageInvProofs.

Section StorageInvProofs2.
Variable c : ncfg.
Variable wm : option hv.
Variable shut : bool.

(* C09, first sentence: the proof a prepared node puts into its VIEW_CHANGE is valid for any later view, and comes
   with the block it certifies; the extractor never fails and never panics in a state satisfying the invariant *)
Lemma extract_proof_spec x pv target : SInv c x -> t_prepared (tc_t x) = Some pv -> pv < target ->
  exists p b, extract_proof c (tc_t x) pv = (Some (p, Some b), false) /\
              proof_spec c (t_cm (tc_t x)) (t_h (tc_t x)) target p /\ r_view (pf_ppref p) = pv /\
              commitsTo (t_h (tc_t x)) (Some b) (r_hash (pf_ppref p)) = true.
Proof.
  intros I Hp Hlt. destruct (si_prep _ _ I pv Hp) as (e & b & G1 & G2 & G3 & G4).
  destruct (si_pp _ _ I pv e G1) as [[P1 P2 P3 P4 P5 P6 P7] _].
  unfold extract_proof. rewrite G1, G4. cbn [negb].
  set (ps := bucket (t_p (tc_t x)) pv (r_hash (pe_ref e))) in *.
  assert (Hex : existsb (fun en => fst (fst en) =? pv) (t_p (tc_t x)) = true).
  { assert (exists s0, In s0 ps) as [s0 Hs0] by (destruct ps as [|s0 l]; [congruence|exists s0; left; reflexivity]).
    apply existsb_exists. subst ps. apply In_bucket in Hs0.
    exists (pv, r_hash (pe_ref e), s0). split; [exact Hs0|]. cbn. apply N.eqb_refl. }
  rewrite Hex. cbn [negb].
  assert (Hm : forall (A : Type) (u w : A), match ps with [] => u | _ :: _ => w end = w) by (intros A u w; destruct ps; [congruence|reflexivity]).
  rewrite Hm.
  eexists _, b. rewrite G2. split; [reflexivity|]. cbn [pf_ppref pf_ppsnd pf_pref pf_psnds r_view r_hash].
  split; [|split; [exact P1|]].
  - constructor; cbn [pf_ppref pf_ppsnd pf_pref pf_psnds r_type r_inst r_height r_view r_hash]; auto.
    + rewrite P1. exact Hlt.
    + rewrite P1. auto.
    + intros s Hs. apply (Permutation_in _ (sort_by_perm s_id ps)) in Hs. subst ps. apply In_bucket in Hs.
      destruct (si_p _ _ I _ _ _ Hs) as (A & B & C). repeat split; auto. rewrite P6. exact C.
    + apply (Permutation_NoDup (l := map s_id ps)); [apply Permutation_map, Permutation_sym, sort_by_perm|]. subst ps. apply (si_p_nodup _ _ I).
    + eapply isQ_ids_mono; [apply (si_total _ _ I)| |exact G4]. apply incl_app; [apply incl_appl|apply incl_appr, incl_refl].
      apply incl_map. intros a Ha. apply (Permutation_in _ (Permutation_sym (sort_by_perm s_id ps))). exact Ha.
  - apply (P7 b G2).
Qed.

Lemma move_sinv x h v : SInv c x -> SInv c (move_to_next_leader c wm shut x h v).
Proof.
  intros I. unfold move_to_next_leader.
  destruct (N.eqb_spec h (t_h (tc_t x))) as [Eh|Eh]; cbn [andb negb]; [|exact I].
  destruct (N.eqb_spec v (tc_v x)) as [Ev|Ev]; cbn [negb]; [|exact I].
  unfold init_view. destruct (N.ltb_spec (wrap64 (v + 1)) (tc_v x)) as [Hw|Hw]; [exact I|].
  assert (Ew : wrap64 (v + 1) = v + 1) by (apply wrap64_succ_ge; lia).
  set (x1 := tc_emit (OArm _ _) (tc_set_v (wrap64 (v + 1)) x)).
  assert (I1 : SInv c x1) by (apply SInv_emit, SInv_set_v; [exact Hw|exact I]).
  destruct (snd _); [apply SInv_emit; exact I1|].
  cbn [tc_v x1 tc_emit tc_set_v].
  destruct (N.eqb_spec (leaderOf (t_cm (tc_t x)) (wrap64 (v + 1))) (c_me c)) as [El|]; [|apply SInv_emit; exact I1].
  set (x2 := if has_vc _ _ _ then x1 else _).
  assert (I2 : SInv c x2 /\ tc_t x2 = tc_t x) by (subst x2; destruct (has_vc _ _ _); [auto|split; [apply SInv_emit; exact I1|reflexivity]]).
  destruct I2 as [I2 E2].
  apply check_elected_sinv.
  - rewrite <- E2. apply SInv_store_vc; [exact I2|]. rewrite E2. unfold vc_good. cbn [v_view v_height v_proof v_snd].
    split; [reflexivity|]. split; [reflexivity|].
    destruct (t_prepared (tc_t x)) as [pv|] eqn:Ep.
    + assert (Hpv : pv < wrap64 (v + 1)).
      { destruct (si_prep _ _ I pv Ep) as (e & b & G1 & _). destruct (si_pp _ _ I pv e G1) as [_ L]. lia. }
      destruct (extract_proof_spec x pv (wrap64 (v + 1)) I Ep Hpv) as (p & b & E & PS & Pv & Cm). rewrite E. cbn [fst snd].
      split; [|exact Cm]. constructor; cbn [v_type v_inst v_snd my_sig s_id s_ok v_proof]; auto.
      * apply (si_me _ _ I).
      * intros p' Ep'. inversion Ep'; subst. exact PS.
    + cbn [fst snd]. split; [|exact Logic.I]. constructor; cbn [v_type v_inst v_snd my_sig s_id s_ok v_proof]; auto.
      * apply (si_me _ _ I).
      * intros p' Ep'. discriminate.
  - cbn [tc_set_t tc_t]. destruct (store_vc_hc (wrap64 (v + 1)) {| v_type := T_VIEW_CHANGE; v_inst := c_inst c; v_height := t_h (tc_t x); v_view := wrap64 (v + 1);
        v_proof := match fst (match t_prepared (tc_t x) with Some pv => extract_proof c (tc_t x) pv | None => (None, false) end) with Some (p, _) => Some p | None => None end;
        v_snd := my_sig c |} (match fst (match t_prepared (tc_t x) with Some pv => extract_proof c (tc_t x) pv | None => (None, false) end) with Some (_, ob) => ob | None => None end) (tc_t x)) as [_ Ec].
    rewrite Ec. exact El.
Qed.

Lemma thandle_sinv x m : SInv c x -> msg_height m = t_h (tc_t x) -> msg_sender m <> c_me c -> SInv c (thandle c wm shut x m).
Proof.
  intros I Hh Hs. destruct m; cbn [thandle msg_height msg_sender] in *.
  - apply handle_pp_sinv; assumption.
  - apply handle_p_sinv; assumption.
  - apply handle_c_sinv; assumption.
  - apply handle_vc_sinv; assumption.
  - apply handle_nv_sinv; auto.
Qed.

Lemma start_term_sinv t lead fresh : total (t_cm t) < W64 -> isMember (t_cm t) (c_me c) = true ->
  t_pp t = [] -> t_p t = [] -> t_vc t = [] -> t_prepared t = None ->
  SInv c (start_term c wm shut {| tc_t := t; tc_v := 0; tc_fresh := fresh; tc_out := []; tc_commit := None |} lead).
Proof.
  intros Hw Hm Hpp Hp Hvc Hprep.
  set (x := {| tc_t := t; tc_v := 0; tc_fresh := fresh; tc_out := []; tc_commit := None |}).
  assert (I : SInv c x).
  { constructor; cbn [x tc_t tc_v]; auto.
    - intros v e He. unfold get_pp in He. rewrite Hpp in He. discriminate.
    - intros v h s Hi. rewrite Hp in Hi. destruct Hi.
    - intros v h. rewrite Hp. constructor.
    - intros pv Hpv. congruence.
    - intros v vt b Hi. rewrite Hvc in Hi. destruct Hi. }
  unfold start_term, init_view. cbn [tc_v x]. cbn [N.ltb N.compare].
  set (x1 := tc_emit _ (tc_set_v 0 x)).
  assert (I1 : SInv c x1) by (apply SInv_emit, SInv_set_v; [cbn; lia|exact I]).
  destruct (_ && _); [exact I1|].
  destruct (N.eqb_spec (leaderOf (t_cm (tc_t x)) 0) (c_me c)) as [El|]; cbn [negb]; [|exact I1].
  destruct (ctx_ok wm shut _); cbn [negb]; [|exact I1].
  apply SInv_emit, SInv_emit.
  pose proof (SInv_store_pp c (tc_bump x1) 0 {| pe_ref := mk_ref T_PREPREPARE c (t_h (tc_t x)) 0 (fresh_id (c_me c) (tc_fresh x1));
       pe_snd := my_sig c; pe_blk := Some {| b_height := t_h (tc_t x); b_id := fresh_id (c_me c) (tc_fresh x1); b_bad := [] |} |} (SInv_bump _ _ I1)) as P.
  apply P; [|cbn; lia].
  constructor; cbn [pe_ref pe_snd pe_blk mk_ref r_view r_type r_inst r_height r_hash my_sig s_ok s_id tc_bump tc_t x1 tc_emit tc_set_v x]; auto.
  intros bb Ebb. inversion Ebb; subst. unfold commitsTo. cbn. rewrite !N.eqb_refl. reflexivity.
Qed.

End StorageInvProofs2.

Theorem trun_sinv c wm0 shut0 H cm fresh lead evs : total cm < W64 -> isMember cm (c_me c) = true -> Forall (tev_ok c H) evs ->
  SInv c (trun c wm0 shut0 H cm fresh lead evs).
Proof.
  intros Hw Hm F.
  unfold trun in *.
  assert (S0 : SInv c (tstart c wm0 shut0 H cm fresh lead) /\ TInv c (tstart c wm0 shut0 H cm fresh lead) /\
               t_h (tc_t (tstart c wm0 shut0 H cm fresh lead)) = H).
  { split; [apply start_term_sinv; auto|]. split; [apply start_term_inv; auto|].
    destruct (start_term_hc c wm0 shut0 {| tc_t := new_tstate H cm; tc_v := 0; tc_fresh := fresh; tc_out := []; tc_commit := None |} lead) as [A _]. exact A. }
  revert S0 F. generalize (tstart c wm0 shut0 H cm fresh lead). clear Hw Hm.
  induction evs as [|e evs IH]; intros x (SI & TI & Eh) F; cbn [fold_left]; [exact SI|].
  inversion F as [|? ? Fe Fr]; subst. apply IH; [|exact Fr].
  destruct (tstep_hc c x e) as [A _].
  destruct e as [m wm' shut'|h v wm' shut']; cbn [tstep] in *.
  - destruct Fe as [F1 F2]. split; [apply thandle_sinv; auto; congruence|]. split; [apply thandle_inv; auto; congruence|congruence].
  - split; [apply move_sinv; assumption|]. split; [apply move_inv; assumption|congruence].
Qed.

(* ====================================================================================================
   C09: the view change carries the lock
   ==================================================================================================== *)
Section C09.
Variable c : ncfg.
Variable wm : option hv.
Variable shut : bool.

Definition is_mvc (o : out) : bool := match o with OSend _ (MVC _ _) => true | _ => false end.
Definition no_new_mvc (x x' : tc) : Prop := forall o, is_mvc o = true -> In o (tc_out x') -> In o (tc_out x).

Ltac nomvc_tac :=
  repeat match goal with
  | |- context [if ?b then _ else _] => destruct b
  | |- context [match ?b with Some _ => _ | None => _ end] => destruct b
  | |- context [match ?b with (_, _) => _ end] => destruct b
  | |- context [match ?b with [] => _ | _ :: _ => _ end] => destruct b
  end;
  let o' := fresh "o" in let Ho := fresh "Ho" in let Hi := fresh "Hi" in
  intros o' Ho Hi;
  cbn [tc_out tc_emit tc_set_t tc_set_v tc_bump tc_committed send_all In] in Hi;
  repeat (destruct Hi as [Hi|Hi]; [subst o'; discriminate Ho|]); try exact Hi.

Lemma on_elected_nomvc x v vs : no_new_mvc x (on_elected c wm shut x v vs).
Proof. unfold on_elected, init_view. nomvc_tac. Qed.
Lemma check_elected_nomvc x v : no_new_mvc x (check_elected c wm shut x v).
Proof.
  unfold check_elected. destruct (N.leb _ _); [intros o _ H; exact H|].
  destruct (votes_of _ _); [intros o _ H; exact H|]. destruct (isQ_ids _ _); [apply on_elected_nomvc|intros o _ H; exact H].
Qed.

(* first sentence: the VIEW_CHANGE a node sends when its timer fires carries a valid proof of its prepared view
   together with the matching block (and no proof, no block, if it is not prepared) *)
Theorem vote_carries_lock x h v to vt blk : SInv c x ->
  In (OSend to (MVC vt blk)) (tc_out (move_to_next_leader c wm shut x h v)) -> ~ In (OSend to (MVC vt blk)) (tc_out x) ->
  v_view vt = tc_v x + 1 /\ v_height vt = t_h (tc_t x) /\ v_type vt = T_VIEW_CHANGE /\ v_inst vt = c_inst c /\
  v_snd vt = my_sig c /\ to = [leaderOf (t_cm (tc_t x)) (v_view vt)] /\
  match t_prepared (tc_t x) with
  | Some pv => exists p b, v_proof vt = Some p /\ proof_spec c (t_cm (tc_t x)) (t_h (tc_t x)) (v_view vt) p /\
                           r_view (pf_ppref p) = pv /\ blk = Some b /\ commitsTo (t_h (tc_t x)) blk (r_hash (pf_ppref p)) = true
  | None => v_proof vt = None /\ blk = None
  end.
Proof.
  intros I Hin Hnot. unfold move_to_next_leader in Hin.
  destruct (N.eqb_spec h (t_h (tc_t x))) as [Eh|Eh]; cbn [andb negb] in Hin; [|contradiction].
  destruct (N.eqb_spec v (tc_v x)) as [Ev|Ev]; cbn [negb] in Hin; [|contradiction].
  unfold init_view in Hin. destruct (N.ltb_spec (wrap64 (v + 1)) (tc_v x)) as [Hw|Hw]; [contradiction|].
  assert (Ew : wrap64 (v + 1) = tc_v x + 1) by (rewrite Ev in *; apply wrap64_succ_ge; lia).
  set (res := match t_prepared (tc_t x) with Some pv => extract_proof c (tc_t x) pv | None => (None, false) end) in *.
  assert (Hres : match t_prepared (tc_t x) with
                 | Some pv => exists p b, res = (Some (p, Some b), false) /\
                       proof_spec c (t_cm (tc_t x)) (t_h (tc_t x)) (wrap64 (v + 1)) p /\ r_view (pf_ppref p) = pv /\
                       commitsTo (t_h (tc_t x)) (Some b) (r_hash (pf_ppref p)) = true
                 | None => res = (None, false) end).
  { subst res. destruct (t_prepared (tc_t x)) as [pv|] eqn:Ep; [|reflexivity].
    assert (Hpv : pv < wrap64 (v + 1)).
    { destruct (si_prep _ _ I pv Ep) as (e & b & G1 & _). destruct (si_pp _ _ I pv e G1) as [_ L]. lia. }
    apply extract_proof_spec; assumption. }
  assert (Hsnd : snd res = false) by (destruct (t_prepared (tc_t x)); [destruct Hres as (p & b & E & _); rewrite E|rewrite Hres]; reflexivity).
  rewrite Hsnd in Hin. cbn [tc_v tc_emit tc_set_v] in Hin.
  destruct (N.eqb _ (c_me c)).
  - exfalso. apply Hnot. apply (check_elected_nomvc _ _ (OSend to (MVC vt blk)) eq_refl) in Hin.
    cbn [tc_out tc_set_t] in Hin. destruct (has_vc _ _ _); cbn [tc_out tc_emit tc_set_v In] in Hin;
      repeat (destruct Hin as [Hin|Hin]; [discriminate Hin|]); exact Hin.
  - cbn [tc_out tc_emit tc_set_v In] in Hin. destruct Hin as [E|[E|Hin]]; [|discriminate E|contradiction].
    inversion E; subst to vt blk. cbn [v_view v_height v_type v_inst v_snd v_proof]. rewrite Ew.
    repeat (split; [reflexivity|]).
    destruct (t_prepared (tc_t x)) as [pv|].
    + destruct Hres as (p & b & Er & PS & Pv & Cm). rewrite Er. cbn [fst]. exists p, b. rewrite Ew in PS. auto.
    + rewrite Hres. cbn [fst]. auto.
Qed.

(* second sentence: the NEW_VIEW a node sends when elected embeds exactly the votes it has stored for that view, and
   proposes the block of a stored vote whose prepared proof has the highest view; it asks the consumer for a fresh
   block only if no stored vote carries a proof *)
Theorem newview_embeds_counted_votes x v to ty i h nv vs s pp pps b : SInv c x ->
  In (OSend to (MNV ty i h nv vs s pp pps b)) (tc_out (check_elected c wm shut x v)) ->
  ~ In (OSend to (MNV ty i h nv vs s pp pps b)) (tc_out x) ->
  nv = v /\ vs = map fst (votes_of (tc_t x) v) /\ ty = T_NEW_VIEW /\ i = c_inst c /\ h = t_h (tc_t x) /\ s = my_sig c /\ pps = my_sig c /\
  isQ_ids (t_cm (tc_t x)) (map (fun e => s_id (v_snd (fst e))) (votes_of (tc_t x) v)) = true /\
  r_type pp = T_PREPREPARE /\ r_view pp = v /\ r_height pp = t_h (tc_t x) /\
  ((exists vt p bb, In (vt, Some bb) (votes_of (tc_t x) v) /\ v_proof vt = Some p /\
        (forall vt' q, In vt' (map fst (votes_of (tc_t x) v)) -> v_proof vt' = Some q -> r_view (pf_ppref q) <= r_view (pf_ppref p)) /\
        r_hash pp = r_hash (pf_ppref p) /\ b = Some bb /\ commitsTo (t_h (tc_t x)) b (r_hash pp) = true)
   \/ ((forall vt', In vt' (map fst (votes_of (tc_t x) v)) -> v_proof vt' = None) /\
       b = Some {| b_height := t_h (tc_t x); b_id := fresh_id (c_me c) (tc_fresh x); b_bad := [] |} /\ r_hash pp = fresh_id (c_me c) (tc_fresh x))).
Proof.
  intros I Hin Hnot. unfold check_elected in Hin.
  destruct (N.leb _ _); [contradiction|].
  destruct (votes_of (tc_t x) v) as [|e0 r0] eqn:Evs; [contradiction|].
  destruct (isQ_ids _ _) eqn:Eq; [|contradiction]. rewrite <- Evs in *.
  unfold on_elected, init_view in Hin. cbn [tc_set_t tc_v] in Hin.
  destruct (N.ltb v (tc_v x)); [cbn in Hin; contradiction|].
  pose proof (latest_block_aux_spec (votes_of (tc_t x) v)) as LB. unfold latest_block in Hin.
  assert (VG : forall vt ob, In (vt, ob) (votes_of (tc_t x) v) -> vc_good c (tc_t x) v vt ob)
    by (intros vt ob Hi; apply (si_vc _ _ I); apply votes_of_In; exact Hi).
  destruct (latest_block_aux (votes_of (tc_t x) v)) as [[[vt p] bb]|].
  - destruct LB as (Hvin & Ep & Hmax).
    cbn [tc_out tc_emit tc_set_t tc_set_v send_all tc_t set_latest t_h] in Hin.
    assert (Hin' : MNV T_NEW_VIEW (c_inst c) (t_h (tc_t x)) v (map fst (votes_of (tc_t x) v)) (my_sig c)
           (mk_ref T_PREPREPARE c (t_h (tc_t x)) v (r_hash (pf_pref p))) (my_sig c) (Some bb) = MNV ty i h nv vs s pp pps b).
    { destruct (has_pp _ _); cbn [tc_out tc_emit tc_set_t tc_set_v In] in Hin;
        repeat (destruct Hin as [Hin|Hin]; [first [inversion Hin; reflexivity|discriminate Hin]|]); contradiction. }
    inversion Hin'; subst. cbn [mk_ref r_type r_view r_height r_hash].
    destruct (VG _ _ Hvin) as (_ & _ & VS & BC). rewrite Ep in BC.
    destruct (vs_proof _ _ _ _ _ VS p Ep) as [_ _ _ [_ Sh] _ _ _ _ _].
    repeat (split; [first [reflexivity|assumption]|]). left. exists vt, p, bb.
    split; [exact Hvin|]. split; [exact Ep|]. split.
    + intros vt' q Hi' Eq'. apply in_map_iff in Hi'. destruct Hi' as [[vt'' ob] [E1 Hi']]. cbn in E1. subst vt''.
      destruct (VG _ _ Hi') as (_ & _ & _ & BC'). rewrite Eq' in BC'. destruct ob as [b'|]; [|contradiction].
      eapply Hmax; eauto.
    + split; [exact Sh|]. split; [reflexivity|]. rewrite Sh. exact BC.
  - destruct (ctx_ok wm shut _); cbn [negb] in Hin; [|cbn in Hin; destruct Hin as [E|Hin]; [discriminate E|contradiction]].
    cbn [tc_out tc_emit tc_set_t tc_set_v tc_bump send_all tc_t tc_fresh set_latest t_h b_id] in Hin.
    assert (Hin' : MNV T_NEW_VIEW (c_inst c) (t_h (tc_t x)) v (map fst (votes_of (tc_t x) v)) (my_sig c)
           (mk_ref T_PREPREPARE c (t_h (tc_t x)) v (fresh_id (c_me c) (tc_fresh x))) (my_sig c)
           (Some {| b_height := t_h (tc_t x); b_id := fresh_id (c_me c) (tc_fresh x); b_bad := [] |}) = MNV ty i h nv vs s pp pps b).
    { destruct (has_pp _ _); cbn [tc_out tc_emit tc_set_t tc_set_v tc_bump In] in Hin;
        repeat (destruct Hin as [Hin|Hin]; [first [inversion Hin; reflexivity|discriminate Hin]|]); contradiction. }
    inversion Hin'; subst. cbn [mk_ref r_type r_view r_height r_hash].
    repeat (split; [first [reflexivity|assumption]|]). right. split; [|split; reflexivity].
    intros vt' Hi'. apply in_map_iff in Hi'. destruct Hi' as [[vt'' ob] [E1 Hi']]. cbn in E1. subst vt''.
    destruct (VG _ _ Hi') as (_ & _ & _ & BC'). destruct (v_proof vt') as [q|] eqn:Eq'; [|reflexivity].
    destruct ob as [b'|]; [|contradiction]. exfalso. eapply LB; eauto.
Qed.
End C09.

Lemma counted_votes_valid c x v vt b : SInv c x -> In (v, (vt, b)) (t_vc (tc_t x)) -> vc_good c (tc_t x) v vt b.
Proof. intros I. exact (si_vc c x I v vt b). Qed.

(* ====================================================================================================
   C12 (field level): no input makes the term logic panic — every partial operation of the Go code
   (leader index, prepareMessages[0], commitMessages[0]) is modelled as OPanic and is unreachable
   ==================================================================================================== *)
Section NoPanic.
Variable c : ncfg.
Variable wm : option hv.
Variable shut : bool.

Definition is_panic (o : out) : bool := match o with OPanic => true | _ => false end.
Definition no_new_panic (x x' : tc) : Prop := In OPanic (tc_out x') -> In OPanic (tc_out x).

Ltac nopanic_tac :=
  unfold no_new_panic;
  repeat match goal with
  | |- context [if ?b then _ else _] => destruct b
  | |- context [match ?b with Some _ => _ | None => _ end] => destruct b
  | |- context [match ?b with (_, _) => _ end] => destruct b
  | |- context [match ?b with [] => _ | _ :: _ => _ end] => destruct b
  end;
  let Hi := fresh "Hi" in
  intros Hi;
  cbn [tc_out tc_emit tc_set_t tc_set_v tc_bump tc_committed send_all In] in Hi;
  repeat (destruct Hi as [Hi|Hi]; [discriminate Hi|]); try exact Hi.

Lemma nnp_trans a b d : no_new_panic a b -> no_new_panic b d -> no_new_panic a d.
Proof. unfold no_new_panic. auto. Qed.
Lemma nnp_refl a : no_new_panic a a.
Proof. unfold no_new_panic. auto. Qed.

Lemma check_committed_nopanic x v h : no_new_panic x (check_committed c wm shut x v h).
Proof. unfold check_committed. nopanic_tac. Qed.
Lemma check_prepared_nopanic x v h : no_new_panic x (check_prepared c wm shut x v h).
Proof.
  unfold check_prepared.
  destruct (match t_prepared (tc_t x) with Some pv => pv =? v | None => false end); [apply nnp_refl|].
  destruct (is_preprepared (tc_t x) v h); [|apply nnp_refl]. destruct (isQ_ids _ _); [|apply nnp_refl].
  eapply nnp_trans; [|apply check_committed_nopanic]. unfold send_all. nopanic_tac.
Qed.
Lemma process_pp_nopanic x r s b : no_new_panic x (process_pp c wm shut x r s b).
Proof.
  unfold process_pp. destruct (negb _); [apply nnp_refl|].
  eapply nnp_trans; [|apply check_prepared_nopanic]. unfold send_all. nopanic_tac.
Qed.
Lemma on_elected_nopanic x v vs : no_new_panic x (on_elected c wm shut x v vs).
Proof. unfold on_elected, init_view. nopanic_tac. Qed.
Lemma check_elected_nopanic x v : no_new_panic x (check_elected c wm shut x v).
Proof.
  unfold check_elected. destruct (N.leb _ _); [apply nnp_refl|].
  destruct (votes_of _ _); [apply nnp_refl|]. destruct (isQ_ids _ _); [apply on_elected_nopanic|apply nnp_refl].
Qed.

Theorem thandle_never_panics x m : no_new_panic x (thandle c wm shut x m).
Proof.
  destruct m; cbn [thandle].
  - unfold handle_pp. repeat (match goal with |- no_new_panic _ (if ?b then _ else _) => destruct b; [apply nnp_refl|] end). apply process_pp_nopanic.
  - unfold handle_p. repeat (match goal with |- no_new_panic _ (if ?b then _ else _) => destruct b; [apply nnp_refl|] end).
    eapply nnp_trans; [|apply check_prepared_nopanic]. nopanic_tac.
  - unfold handle_c. repeat (match goal with |- no_new_panic _ (if ?b then _ else _) => destruct b; [apply nnp_refl|] end).
    eapply nnp_trans; [|apply check_committed_nopanic]. nopanic_tac.
  - unfold handle_vc. repeat (match goal with |- no_new_panic _ (if ?b then _ else _) => destruct b; [apply nnp_refl|] end).
    assert (A : no_new_panic x (check_elected c wm shut
      (tc_set_t (store_vc (v_view v) v b (tc_t x))
         (if has_vc (tc_t x) (v_view v) (s_id (v_snd v)) then x
          else tc_emit (OStore T_VIEW_CHANGE (t_h (tc_t x)) (v_view v) 0 (s_id (v_snd v))) x)) (v_view v))).
    { eapply nnp_trans; [|apply check_elected_nopanic]. nopanic_tac. }
    destruct b, (v_proof v); try apply nnp_refl; try exact A. destruct (commitsTo _ _ _); [exact A|apply nnp_refl].
  - unfold handle_nv. repeat (match goal with |- no_new_panic _ (if ?b then _ else _) => destruct b; [apply nnp_refl|] end).
    assert (C : no_new_panic x (if negb (validate_pp c (tc_t x) pp pps) then x else
                    match init_view nview (tc_set_t (set_latest nview (tc_t x)) x) with
                    | None => tc_set_t (set_latest nview (tc_t x)) x
                    | Some x1 => process_pp c wm shut x1 pp pps b end)).
    { destruct (negb _); [apply nnp_refl|]. unfold init_view. destruct (N.ltb _ _); [unfold no_new_panic; cbn; auto|].
      eapply nnp_trans; [|apply process_pp_nopanic]. nopanic_tac. }
    destruct (latest_vote votes) as [lv|].
    + destruct (v_proof lv); [|apply nnp_refl].
      repeat (match goal with |- no_new_panic _ (if ?b then _ else _) => destruct b; [apply nnp_refl|] end). exact C.
    + repeat (match goal with |- no_new_panic _ (if ?b then _ else _) => destruct b; [apply nnp_refl|] end). exact C.
Qed.

Theorem move_never_panics x h v : SInv c x -> no_new_panic x (move_to_next_leader c wm shut x h v).
Proof.
  intro I. unfold move_to_next_leader.
  destruct (N.eqb_spec h (t_h (tc_t x))) as [Eh|Eh]; cbn [andb negb]; [|apply nnp_refl].
  destruct (N.eqb_spec v (tc_v x)) as [Ev|Ev]; cbn [negb]; [|apply nnp_refl].
  unfold init_view. destruct (N.ltb_spec (wrap64 (v + 1)) (tc_v x)) as [Hw|Hw]; [apply nnp_refl|].
  assert (Ew : wrap64 (v + 1) = v + 1) by (apply wrap64_succ_ge; lia).
  assert (Hsnd : snd (match t_prepared (tc_t x) with Some pv => extract_proof c (tc_t x) pv | None => (None, false) end) = false).
  { destruct (t_prepared (tc_t x)) as [pv|] eqn:Ep; [|reflexivity].
    assert (Hpv : pv < wrap64 (v + 1)).
    { destruct (si_prep _ _ I pv Ep) as (e & b & G1 & _). destruct (si_pp _ _ I pv e G1) as [_ L]. lia. }
    destruct (extract_proof_spec c x pv (wrap64 (v + 1)) I Ep Hpv) as (p & b & E & _). rewrite E. reflexivity. }
  rewrite Hsnd. cbn [tc_v tc_emit tc_set_v].
  destruct (N.eqb _ (c_me c)).
  - eapply nnp_trans; [|apply check_elected_nopanic]. nopanic_tac.
  - nopanic_tac.
Qed.
End NoPanic.

Theorem trun_never_panics c wm shut H cm fresh lead evs : total cm < W64 -> isMember cm (c_me c) = true ->
  Forall (tev_ok c H) evs -> ~ In OPanic (tc_out (trun c wm shut H cm fresh lead evs)).
Proof.
  intros Hw Hm F.
  assert (G : forall pre, (exists post, evs = pre ++ post) -> ~ In OPanic (tc_out (trun c wm shut H cm fresh lead pre))).
  { intros pre. induction pre as [|e pre IH] using rev_ind; intros [post E].
    - unfold trun, tstart. cbn [fold_left]. unfold start_term, init_view. cbn [tc_v]. cbn [N.ltb N.compare].
      repeat match goal with |- context [if ?b then _ else _] => destruct b end;
        cbn [tc_out tc_emit tc_set_t tc_set_v tc_bump In]; intuition discriminate.
    - assert (Fp : Forall (tev_ok c H) pre).
      { rewrite E in F. apply Forall_app in F. destruct F as [F1 _]. apply Forall_app in F1. tauto. }
      assert (Ex : exists post0, evs = pre ++ post0) by (exists (e :: post); rewrite E, <- app_assoc; reflexivity).
      specialize (IH Ex).
      unfold trun in *. rewrite fold_left_app. cbn [fold_left]. intro Hp. apply IH.
      destruct e as [m wm' shut'|h v wm' shut']; cbn [tstep] in Hp.
      + apply (thandle_never_panics c wm' shut' _ m Hp).
      + apply (move_never_panics c wm' shut' _ h v); [|exact Hp]. apply (trun_sinv c wm shut H cm fresh lead pre Hw Hm Fp). }
  apply (G evs). exists []. symmetry. apply app_nil_r.
Qed.

(* unreadable content bytes have no effect on the node beyond the main loop's routine context GC *)
Lemma garbage_has_no_effect c n : step c n EGarbage = cancel_older (n_h n, 0) n.
Proof. reflexivity. Qed.

(* C14: a round entered by node sync (canBeFirstLeader = false) above height 1 starts without a proposal, whoever
   the leader of view 0 is: startTerm only arms the election timer *)
Theorem sync_round_sends_no_proposal c wm shut (x : tc) : 1 < t_h (tc_t x) -> tc_v x = 0 ->
  tc_out (start_term c wm shut x false) = OArm (t_h (tc_t x)) 0 :: tc_out x /\ tc_t (start_term c wm shut x false) = tc_t x.
Proof.
  intros Hh Hv. unfold start_term, init_view. rewrite Hv. cbn [N.ltb N.compare].
  apply N.ltb_lt in Hh. cbn [tc_t tc_emit tc_set_v]. rewrite Hh. cbn. auto.
Qed.

(* ... while a round entered by a commit (canBeFirstLeader = true) proposes at once when this node leads view 0 *)
Theorem commit_round_leader_proposes c wm shut (x : tc) : tc_v x = 0 -> leaderOf (t_cm (tc_t x)) 0 = c_me c ->
  ctx_ok wm shut (t_h (tc_t x), 0) = true ->
  exists r b, In (OSend (others c (t_cm (tc_t x))) (MPP r (my_sig c) (Some b))) (tc_out (start_term c wm shut x true)) /\ r_view r = 0 /\ r_height r = t_h (tc_t x).
Proof.
  intros Hv Hl Hc. unfold start_term, init_view. rewrite Hv. cbn [N.ltb N.compare]. cbn [tc_t tc_emit tc_set_v negb].
  rewrite andb_false_r. rewrite Hl, N.eqb_refl. cbn [negb]. rewrite Hc. cbn [negb].
  eexists. eexists. cbn [tc_out tc_emit]. split; [left; reflexivity|]. cbn. auto.
Qed.

(* ---- the consumer's verdict on a block is used only under a live context of the position the node is in (C15, F15) ---- *)
Section SpiContext.
Variable c : ncfg. Variable wm : option hv. Variable shut : bool.

(* a PREPREPARE has an effect only in its own view and under a live context of that position *)
Lemma handle_pp_effect x r s b : handle_pp c wm shut x r s b <> x ->
  tc_v x = r_view r /\ ctx_ok wm shut (r_height r, tc_v x) = true /\ validProposal (c_me c) (r_height r) b (r_hash r) = true.
Proof.
  unfold handle_pp. destruct (negb (validate_pp c (tc_t x) r s)); [congruence|].
  destruct (N.eqb_spec (tc_v x) (r_view r)) as [E|E]; cbn [negb]; [|congruence]. rewrite <- E.
  destruct (ctx_ok wm shut (r_height r, tc_v x)); cbn [negb]; [|congruence].
  destruct (validProposal _ _ _ _); cbn [negb]; [|congruence]. auto.
Qed.

(* a NEW_VIEW whose votes carry no lock has an effect only if the consumer accepted the fresh block under a live
   context of the position the node is in when it validates *)
Lemma handle_nv_fresh_effect x nty ninst nh nvw vs sg pp pps b :
  latest_vote vs = None -> handle_nv c wm shut x nty ninst nh nvw vs sg pp pps b <> x ->
  ctx_ok wm shut (t_h (tc_t x), tc_v x) = true /\ validProposal (c_me c) (r_height pp) b (r_hash pp) = true.
Proof.
  intros L. unfold handle_nv. rewrite L.
  destruct (ctx_ok wm shut (t_h (tc_t x), tc_v x)); [|intro Hc; exfalso; apply Hc; repeat (cbn [negb]; match goal with |- (if ?g then x else _) = x => first [reflexivity | destruct g; [reflexivity|]] end); reflexivity].
  destruct (validProposal _ _ _ _); [auto|].
  intro Hc; exfalso; apply Hc. cbn [negb]. repeat (cbn [negb]; match goal with |- (if ?g then x else _) = x => first [reflexivity | destruct g; [reflexivity|]] end); reflexivity.
Qed.
End SpiContext.
