(* Timer.v — state-machine model of services/electiontrigger/timer_based_election_trigger.go.
   Every RegisterOnElection that (re)arms creates a timer *instance* (time.AfterFunc + its triggerCancelled channel).
   An instance is Pending until the Go runtime fires it (at most once, never after timer.Stop() returned true),
   then Running (the goroutine has entered triggerElections), then - if the first select does not see its
   triggerCancelled channel closed - Sending (parked in, or about to evaluate, the second select), then Done.
   While Sending it either hands its trigger (h, v) to the reader of the election channel or gives up because
   triggerCancelled was closed. When the channel is closed after the first select and a reader is waiting, both cases
   of the second select are ready and Go picks either: the model therefore lets a Sending instance deliver even when
   it has been cancelled meanwhile (that late trigger carries the old pair and is discarded by the worker's
   comparison with its current (height, view), Loops.v).
   Time itself is not modelled: "not before the timeout" and "eventually fires" are properties of time.AfterFunc. *)
From LH Require Import Prims.
Open Scope N_scope.

Inductive tphase := TPending | TStoppedBeforeFire | TRunning | TSending | TDone.

Record tinst := { ti_h : N; ti_v : N; ti_phase : tphase; ti_cancelled : bool; ti_sent : bool }.

Record tstate := {
  tm_handler : bool;                  (* electionHandler != nil *)
  tm_h : N; tm_v : N;                 (* the pair of the last arming *)
  tm_cur : option nat;                (* t.timer: index of the current instance *)
  tm_insts : list tinst;              (* all instances ever created, oldest first *)
  tm_delivered : list (nat * N * N)   (* triggers handed to the channel reader: (instance, h, v), newest first *)
}.

Definition tm_init : tstate :=
  {| tm_handler := false; tm_h := 0; tm_v := 0; tm_cur := None; tm_insts := []; tm_delivered := [] |}.

Fixpoint upd {A} (l : list A) (i : nat) (f : A -> A) : list A :=
  match l, i with
  | [], _ => []
  | x :: r, O => f x :: r
  | x :: r, S j => x :: upd r j f
  end.

Definition set_phase p (x : tinst) := {| ti_h := ti_h x; ti_v := ti_v x; ti_phase := p; ti_cancelled := ti_cancelled x; ti_sent := ti_sent x |}.
Definition set_cancelled (x : tinst) := {| ti_h := ti_h x; ti_v := ti_v x; ti_phase := ti_phase x; ti_cancelled := true; ti_sent := ti_sent x |}.
Definition set_sent (x : tinst) := {| ti_h := ti_h x; ti_v := ti_v x; ti_phase := TDone; ti_cancelled := ti_cancelled x; ti_sent := true |}.

(* Stop(): handler := nil; if a timer exists: timer.Stop() succeeds on a Pending instance (it will never fire),
   otherwise (already fired) its triggerCancelled channel is closed; t.timer := nil *)
Definition tm_stop (s : tstate) : tstate :=
  match tm_cur s with
  | None => {| tm_handler := false; tm_h := tm_h s; tm_v := tm_v s; tm_cur := None; tm_insts := tm_insts s; tm_delivered := tm_delivered s |}
  | Some i =>
    let f x := match ti_phase x with TPending => set_phase TStoppedBeforeFire x | _ => set_cancelled x end in
    {| tm_handler := false; tm_h := tm_h s; tm_v := tm_v s; tm_cur := None; tm_insts := upd (tm_insts s) i f; tm_delivered := tm_delivered s |}
  end.

(* RegisterOnElection(h, v, cb) *)
Definition tm_register (h v : N) (s : tstate) : tstate :=
  if tm_handler s && N.eqb (tm_v s) v && N.eqb (tm_h s) h then s else
  let s1 := tm_stop s in
  {| tm_handler := true; tm_h := h; tm_v := v; tm_cur := Some (length (tm_insts s1));
     tm_insts := tm_insts s1 ++ [{| ti_h := h; ti_v := v; ti_phase := TPending; ti_cancelled := false; ti_sent := false |}];
     tm_delivered := tm_delivered s1 |}.

Inductive top :=
| TRegister (h v : N)
| TStop
| TFire (i : nat)        (* the runtime fires instance i (enabled only while Pending) *)
| TCheck (i : nat)       (* first select of triggerElections: give up if already cancelled, else go on to the send *)
| TDeliver (i : nat)     (* the channel reader takes instance i's trigger (enabled while Sending) *)
| TAbort (i : nat).      (* instance i sees its triggerCancelled closed and gives up (enabled while Sending and cancelled) *)

Definition tm_step (s : tstate) (o : top) : tstate :=
  match o with
  | TRegister h v => tm_register h v s
  | TStop => tm_stop s
  | TFire i =>
      match nth_error (tm_insts s) i with
      | Some x => match ti_phase x with
                  | TPending => {| tm_handler := tm_handler s; tm_h := tm_h s; tm_v := tm_v s; tm_cur := tm_cur s;
                                   tm_insts := upd (tm_insts s) i (set_phase TRunning); tm_delivered := tm_delivered s |}
                  | _ => s end
      | None => s
      end
  | TCheck i =>
      match nth_error (tm_insts s) i with
      | Some x => match ti_phase x with
                  | TRunning => {| tm_handler := tm_handler s; tm_h := tm_h s; tm_v := tm_v s; tm_cur := tm_cur s;
                                   tm_insts := upd (tm_insts s) i (set_phase (if ti_cancelled x then TDone else TSending));
                                   tm_delivered := tm_delivered s |}
                  | _ => s end
      | None => s
      end
  | TDeliver i =>
      match nth_error (tm_insts s) i with
      | Some x => match ti_phase x with
                  | TSending => {| tm_handler := tm_handler s; tm_h := tm_h s; tm_v := tm_v s; tm_cur := tm_cur s;
                                   tm_insts := upd (tm_insts s) i set_sent; tm_delivered := (i, ti_h x, ti_v x) :: tm_delivered s |}
                  | _ => s end
      | None => s
      end
  | TAbort i =>
      match nth_error (tm_insts s) i with
      | Some x => match ti_phase x with
                  | TSending => if ti_cancelled x then
                                {| tm_handler := tm_handler s; tm_h := tm_h s; tm_v := tm_v s; tm_cur := tm_cur s;
                                   tm_insts := upd (tm_insts s) i (set_phase TDone); tm_delivered := tm_delivered s |}
                                else s
                  | _ => s end
      | None => s
      end
  end.

Definition tm_run (ops : list top) : tstate := fold_left tm_step ops tm_init.

(* ---- the trigger as its user sees it (engine `trigger`): register / stop in quick succession, then let time pass
   until everything that is armed has fired and been read. [tm_settle] runs the current instance, if it is still
   pending, through fire / check / deliver; stopped and superseded instances never fire. The observable is the list of
   pairs the channel reader received, oldest first. *)
Inductive pop := PRegister (h v : N) | PStop | PSettle | PFire | PResume | PGiveUp.
Definition tm_settle (s : tstate) : tstate :=
  match tm_cur s with
  | Some i => match nth_error (tm_insts s) i with
              | Some x => match ti_phase x with
                          | TPending => tm_step (tm_step (tm_step s (TFire i)) (TCheck i)) (TDeliver i)
                          | _ => s end
              | None => s end
  | None => s
  end.
(* time passes while nobody reads the channel: the current instance, if pending, fires and parks in the send *)
Definition tm_fire_noreader (s : tstate) : tstate :=
  match tm_cur s with
  | Some i => match nth_error (tm_insts s) i with
              | Some x => match ti_phase x with
                          | TPending => tm_step (tm_step s (TFire i)) (TCheck i)
                          | _ => s end
              | None => s end
  | None => s
  end.
(* the reader comes back: every parked instance that was cancelled meanwhile has given up (nobody was reading when its
   channel was closed, so only that case of its select was ready); a parked instance that was not cancelled delivers *)
Fixpoint tm_resume_from (k : nat) (l : list tinst) (s : tstate) : tstate :=
  match l with
  | [] => s
  | x :: r =>
      let s' := match ti_phase x with
                | TSending => if ti_cancelled x then tm_step s (TAbort k) else tm_step s (TDeliver k)
                | _ => s end in
      tm_resume_from (S k) r s'
  end.
Definition tm_resume (s : tstate) : tstate := tm_resume_from 0 (tm_insts s) s.
(* time passes and the reader does NOT come back (shutdown: the main loop is gone): a parked instance whose cancel channel
   was closed sees that and returns; one that was not cancelled stays parked in its send for ever *)
Fixpoint tm_giveup_from (k : nat) (l : list tinst) (s : tstate) : tstate :=
  match l with
  | [] => s
  | x :: r =>
      let s' := match ti_phase x with
                | TSending => if ti_cancelled x then tm_step s (TAbort k) else s
                | _ => s end in
      tm_giveup_from (S k) r s'
  end.
Definition tm_giveup (s : tstate) : tstate := tm_giveup_from 0 (tm_insts s) s.
Definition tm_pstep (s : tstate) (o : pop) : tstate :=
  match o with
  | PRegister h v => tm_register h v s | PStop => tm_stop s | PSettle => tm_settle s
  | PFire => tm_fire_noreader s | PResume => tm_resume s | PGiveUp => tm_giveup s
  end.
Definition tm_public_run (ops : list pop) : list (N * N) :=
  rev (map (fun d => (snd (fst d), snd d)) (tm_delivered (fold_left tm_pstep ops tm_init))).
(* nothing is left parked once the trigger was stopped and the reader came back (C16: no goroutine of the trigger outlives it) *)
Definition tm_parked (s : tstate) : nat := length (filter (fun x => match ti_phase x with TSending | TRunning => true | _ => false end) (tm_insts s)).
Definition tm_public_parked (ops : list pop) : nat := tm_parked (fold_left tm_pstep ops tm_init).
