(* Runtime.v — what one node's worker goroutine lets the outside see, in order: callbacks, SPI calls, timer arming and
   elections acted upon. [rt_step] is the acceptor evaluated on the observation sequences recorded from the real
   runtime (harness engine "runtime"); RuntimeFacts.v proves that every run of the two-goroutine model (Loops.v)
   projects to an accepted sequence, i.e. the acceptor demands nothing the model does not guarantee. *)
From LH Require Import Prims.
Open Scope N_scope.

Inductive robs :=
| RNewRound (h : N) (lead : bool)   (* OnNewConsensusRoundCallback(h, _, canBeFirstLeader) *)
| RCommit (h : N)                   (* OnCommitCallback(block of height h) *)
| RArm (h v : N)                    (* RegisterOnElection(h, v) that (re)arms the timer *)
| RStop                             (* ElectionScheduler.Stop() *)
| RAct (h v : N)                    (* the worker runs the election for trigger (h, v) *)
| RSpi (h : N)                      (* a BlockUtils call or the commit callback is entered, for height h *)
| RExited.                          (* WaitUntilShutdown returned *)

Record rstate := {
  r_h : N; r_v : N;
  r_armed : option (N * N);
  r_pending : option N;             (* the term of this height has been created, its new-round callback is still to come *)
  r_exited : bool
}.
Definition r_init : rstate := {| r_h := 0; r_v := 0; r_armed := None; r_pending := None; r_exited := false |}.

Definition rt_step (r : rstate) (o : robs) : option rstate :=
  if r_exited r then None else
  match o with
  | RArm h v =>
      if N.eqb h (r_h r) then
        if N.ltb v (r_v r) then None else Some {| r_h := h; r_v := v; r_armed := Some (h, v); r_pending := r_pending r; r_exited := false |}
      else if N.ltb (r_h r) h && N.eqb v 0 && match r_pending r with None => true | Some _ => false end then
        Some {| r_h := h; r_v := 0; r_armed := Some (h, 0); r_pending := Some h; r_exited := false |}
      else None
  | RNewRound h lead =>
      match r_pending r with
      | Some p => if N.eqb p h then Some {| r_h := r_h r; r_v := r_v r; r_armed := r_armed r; r_pending := None; r_exited := false |} else None
      | None => if N.ltb (r_h r) h then Some {| r_h := h; r_v := 0; r_armed := r_armed r; r_pending := None; r_exited := false |} else None
      end
  | RCommit h => if N.eqb h (r_h r) && match r_pending r with None => true | Some _ => false end then Some r else None
  | RStop => Some {| r_h := r_h r; r_v := r_v r; r_armed := None; r_pending := r_pending r; r_exited := false |}
  | RAct h v =>
      match r_armed r with
      | Some (h', v') => if N.eqb h h' && N.eqb v v' && N.eqb h (r_h r) && N.eqb v (r_v r)
                         then Some {| r_h := r_h r; r_v := r_v r; r_armed := None; r_pending := r_pending r; r_exited := false |} else None
      | None => None
      end
  | RSpi h => if N.eqb h (r_h r) then Some r else None
  | RExited =>
      match r_armed r, r_pending r with
      | None, None => Some {| r_h := r_h r; r_v := r_v r; r_armed := None; r_pending := None; r_exited := true |}
      | _, _ => None
      end
  end.

Fixpoint rt_run (r : rstate) (os : list robs) : option rstate :=
  match os with [] => Some r | o :: rest => match rt_step r o with Some r' => rt_run r' rest | None => None end end.

Definition rt_check (os : list robs) : bool := match rt_run r_init os with Some _ => true | None => false end.
