(* Msg.v — protocol-level messages of lean-helix as the node logic sees them.
   Byte strings are interned to tokens by the harness (member ids, block hashes); the byte level is Wire.v.
   Signatures: every (signed header, sender signature) pair carries the boolean [s_ok] = "this signature
   verifies, under the key of the claimed sender [s_id], over exactly these header bytes for the header's
   height" — i.e. the result KeyManager.VerifyConsensusMessage returns for that pair. For received messages
   the harness computes the flag with its key manager; for the global theorems the flag of an honest signer
   is tied to what that signer actually signed (World.v). *)
From LH Require Import Prims.
Open Scope N_scope.

(* protocol.MessageType *)
Definition T_PREPREPARE : N := 1.
Definition T_PREPARE : N := 2.
Definition T_COMMIT : N := 3.
Definition T_NEW_VIEW : N := 4.
Definition T_VIEW_CHANGE : N := 5.

Definition MAXVIEW : N := 18446744073709551615.

Record ssig := { s_id : N; s_ok : bool }.                                   (* SenderSignature *)
Record bref := { r_type : N; r_inst : N; r_height : N; r_view : N; r_hash : N }.   (* BlockRef *)
Record pproof := { pf_ppref : bref; pf_ppsnd : ssig; pf_pref : bref; pf_psnds : list ssig }.  (* PreparedProof *)
(* ViewChangeMessageContent: signed header (type, instance, height, view, proof; None = empty proof) + sender *)
Record vote := { v_type : N; v_inst : N; v_height : N; v_view : N; v_proof : option pproof; v_snd : ssig }.

(* interfaces.Block as the harness's consumer sees it: height, identity (= token of its hash), and the
   members whose ValidateBlockProposal rejects it *)
Record block := { b_height : N; b_id : N; b_bad : list N }.

Inductive msg :=
| MPP (r : bref) (s : ssig) (b : option block)
| MP (r : bref) (s : ssig)
| MC (r : bref) (s : ssig) (share_ok : bool)          (* share_ok: VerifyRandomSeed of the share under the sender *)
| MVC (v : vote) (b : option block)
| MNV (nty ninst nheight nview : N) (votes : list vote) (s : ssig) (pp : bref) (pps : ssig) (b : option block).

(* what the raw filter reads: ConsensusMessage.{BlockHeight, InstanceId, SenderMemberId, View} *)
Definition msg_height (m : msg) : N :=
  match m with MPP r _ _ | MP r _ | MC r _ _ => r_height r | MVC v _ => v_height v | MNV _ _ h _ _ _ _ _ _ => h end.
Definition msg_inst (m : msg) : N :=
  match m with MPP r _ _ | MP r _ | MC r _ _ => r_inst r | MVC v _ => v_inst v | MNV _ i _ _ _ _ _ _ _ => i end.
Definition msg_sender (m : msg) : N :=
  match m with MPP _ s _ | MP _ s | MC _ s _ => s_id s | MVC v _ => s_id (v_snd v) | MNV _ _ _ _ _ s _ _ _ => s_id s end.
Definition msg_view (m : msg) : N :=
  match m with MPP r _ _ | MP r _ | MC r _ _ => r_view r | MVC v _ => v_view v | MNV _ _ _ w _ _ _ _ _ => w end.

(* ---- boolean equalities (used by the correspondence checker and by decidable reasoning) ---- *)
Definition ssig_eqb (a b : ssig) : bool := N.eqb (s_id a) (s_id b) && Bool.eqb (s_ok a) (s_ok b).
Definition bref_eqb (a b : bref) : bool :=
  N.eqb (r_type a) (r_type b) && N.eqb (r_inst a) (r_inst b) && N.eqb (r_height a) (r_height b)
  && N.eqb (r_view a) (r_view b) && N.eqb (r_hash a) (r_hash b).
Fixpoint list_eqb {A} (eq : A -> A -> bool) (a b : list A) : bool :=
  match a, b with [], [] => true | x :: r, y :: s => eq x y && list_eqb eq r s | _, _ => false end.
Definition opt_eqb {A} (eq : A -> A -> bool) (a b : option A) : bool :=
  match a, b with None, None => true | Some x, Some y => eq x y | _, _ => false end.
Definition pproof_eqb (a b : pproof) : bool :=
  bref_eqb (pf_ppref a) (pf_ppref b) && ssig_eqb (pf_ppsnd a) (pf_ppsnd b) && bref_eqb (pf_pref a) (pf_pref b)
  && list_eqb ssig_eqb (pf_psnds a) (pf_psnds b).
Definition vote_eqb (a b : vote) : bool :=
  N.eqb (v_type a) (v_type b) && N.eqb (v_inst a) (v_inst b) && N.eqb (v_height a) (v_height b)
  && N.eqb (v_view a) (v_view b) && opt_eqb pproof_eqb (v_proof a) (v_proof b) && ssig_eqb (v_snd a) (v_snd b).
Definition block_eqb (a b : block) : bool :=
  N.eqb (b_height a) (b_height b) && N.eqb (b_id a) (b_id b) && list_eqb N.eqb (b_bad a) (b_bad b).
Definition msg_eqb (a b : msg) : bool :=
  match a, b with
  | MPP r s k, MPP r' s' k' => bref_eqb r r' && ssig_eqb s s' && opt_eqb block_eqb k k'
  | MP r s, MP r' s' => bref_eqb r r' && ssig_eqb s s'
  | MC r s o, MC r' s' o' => bref_eqb r r' && ssig_eqb s s' && Bool.eqb o o'
  | MVC v k, MVC v' k' => vote_eqb v v' && opt_eqb block_eqb k k'
  | MNV t i h w vs s p ps k, MNV t' i' h' w' vs' s' p' ps' k' =>
      N.eqb t t' && N.eqb i i' && N.eqb h h' && N.eqb w w' && list_eqb vote_eqb vs vs' && ssig_eqb s s'
      && bref_eqb p p' && ssig_eqb ps ps' && opt_eqb block_eqb k k'
  | _, _ => false
  end.

(* sorting by sender id: canonical order for everything that comes out of a Go map *)
Fixpoint insert_by {A} (key : A -> N) (x : A) (l : list A) : list A :=
  match l with [] => [x] | y :: r => if N.leb (key x) (key y) then x :: l else y :: insert_by key x r end.
Definition sort_by {A} (key : A -> N) (l : list A) : list A := fold_right (insert_by key) [] l.
