(* Sync.v — the arithmetic core of view synchronisation (the half of C05 that World.v cannot express: it has no clock).
   Abstract timed picture: a correct member that armed its election timer for view u at time s and leaves views only
   by its own timeouts enters view u+1 at s + T(u), view u+2 at s + T(u) + T(u+1), ...  with T = CalcTimeout (Timeout.v,
   tied to the code by the `timeout` engine). Then (1) the distance between two members' entry times into a view is the
   same for every view both walk into - whatever T is; (2) since T grows (doubling up to the int64 saturation), from
   some view on every member's stay in the view outlasts the last arrival by any required amount: the window in which
   all of them are in the view together and the leader's proposal can be prepared and committed (LiveWorld.v).
   Not modelled here: members that jump ahead on a NEW_VIEW (they only arrive earlier in a view other correct members
   already timed into), message delays (folded into the required amount [need]), drifting clocks. *)
From Coq Require Import ZArith Lia List.
From LH Require Import Prims Timeout.
Import ListNotations.
Open Scope Z_scope.

Section Sync.
Variable base : Z.
Hypothesis Hb : 0 < base.
Hypothesis Hm : base <= MAXD.

Definition T (v : nat) : Z := calcTimeout base (N.of_nat v).

Lemma T_pos v : 0 < T v.
Proof. unfold T. destruct (calcTimeout_props base (N.of_nat v) (N.of_nat v) Hb Hm) as (A & _); [lia|exact A]. Qed.
Lemma T_mono v w : (v <= w)%nat -> T v <= T w.
Proof. intro H. unfold T. destruct (calcTimeout_props base (N.of_nat v) (N.of_nat w) Hb Hm) as (_ & A & _); [lia|exact A]. Qed.

(* a member: the view its timer is armed for, and when it was armed *)
Definition member := (nat * Z)%type.
Fixpoint walk (u : nat) (s : Z) (k : nat) : Z := match k with O => s | S k' => walk u s k' + T (u + k') end.
Definition enter (m : member) (v : nat) : Z := walk (fst m) (snd m) (v - fst m).

Lemma enter_own m : enter m (fst m) = snd m.
Proof. unfold enter. rewrite Nat.sub_diag. reflexivity. Qed.
Lemma enter_succ m v : (fst m <= v)%nat -> enter m (S v) = enter m v + T v.
Proof.
  intro H. unfold enter. replace (S v - fst m)%nat with (S (v - fst m)) by lia. cbn [walk].
  replace (fst m + (v - fst m))%nat with v by lia. reflexivity.
Qed.
Lemma enter_mono m v : (fst m <= v)%nat -> enter m v < enter m (S v).
Proof. intro H. rewrite enter_succ by exact H. pose proof (T_pos v). lia. Qed.

(* (1) the spread between two members is the same in every view both walk into *)
Theorem spread_constant a b v w : (fst a <= v)%nat -> (fst b <= v)%nat -> (v <= w)%nat ->
  enter a w - enter b w = enter a v - enter b v.
Proof.
  intros Ha Hb' Hvw. induction Hvw as [|w Hvw IH]; [reflexivity|].
  rewrite !enter_succ by lia. lia.
Qed.

(* the window: the last arrival in view v, plus what the view needs, is before the first departure from v *)
Definition window (ms : list member) (v : nat) (need : Z) : Prop :=
  forall a b, In a ms -> In b ms -> enter a v + need <= enter b (S v).

(* (2) once the timeout covers the spread plus the need, the window is open ... *)
Theorem window_opens ms V D need : (forall m, In m ms -> (fst m <= V)%nat) ->
  (forall a b, In a ms -> In b ms -> enter a V - enter b V <= D) ->
  forall v, (V <= v)%nat -> D + need <= T v -> window ms v need.
Proof.
  intros HV HD v Hv HT a b Ha Hb'. rewrite (enter_succ b) by (specialize (HV b Hb'); lia).
  pose proof (spread_constant a b V v (HV a Ha) (HV b Hb') Hv) as S. specialize (HD a b Ha Hb'). lia.
Qed.
(* ... and stays open in every later view *)
Theorem window_stays ms V D need : (forall m, In m ms -> (fst m <= V)%nat) ->
  (forall a b, In a ms -> In b ms -> enter a V - enter b V <= D) ->
  forall v w, (V <= v)%nat -> (v <= w)%nat -> D + need <= T v -> window ms w need.
Proof.
  intros HV HD v w Hv Hw HT. apply (window_opens ms V D need HV HD); [lia|]. pose proof (T_mono v w Hw). lia.
Qed.

(* below the int64 saturation the timeout is base * 2^v, so the window opens after logarithmically many views; at the
   saturation it is MaxInt64 ns (292 years), which covers every spread and need that fit in a Duration at all *)
Theorem timeout_reaches n : n <= MAXD -> n <= T 63.
Proof.
  intro Hn. unfold T. rewrite calcTimeout_is_spec by assumption. unfold specTimeout.
  assert (2 ^ 63 <= base * 2 ^ Z.of_N (N.of_nat 63)) by (change (Z.of_N (N.of_nat 63)) with 63; nia).
  assert (MAXD < 2 ^ 63) by reflexivity. rewrite Z.min_r; lia.
Qed.
Theorem timeout_exact v : base * 2 ^ Z.of_nat v <= MAXD -> T v = base * 2 ^ Z.of_nat v.
Proof.
  intro H. unfold T. rewrite calcTimeout_is_spec by assumption. unfold specTimeout.
  replace (Z.of_N (N.of_nat v)) with (Z.of_nat v) by lia. rewrite Z.min_l; lia.
Qed.

Corollary window_eventually ms V D need : (forall m, In m ms -> (fst m <= V)%nat) ->
  (forall a b, In a ms -> In b ms -> enter a V - enter b V <= D) -> D + need <= MAXD ->
  forall w, (V <= w)%nat -> (63 <= w)%nat -> window ms w need.
Proof.
  intros HV HD Hn w Hw H63. apply (window_opens ms V D need HV HD w Hw).
  pose proof (timeout_reaches (D + need) Hn). pose proof (T_mono 63 w H63). lia.
Qed.

(* how large the spread can be when the members start out in different views: a member that is k views behind needs
   less than T(V) to catch up as long as timeouts double, so the spread at V is below (arming spread) + T(V) *)
Lemma walk_bound u s k : base * 2 ^ Z.of_nat (u + k) <= MAXD -> walk u s k <= s + T (u + k) - T u.
Proof.
  induction k as [|k IH]; intro Hsat; cbn [walk]; [replace (u + 0)%nat with u by lia; lia|].
  assert (Hle : base * 2 ^ Z.of_nat (u + k) <= base * 2 ^ Z.of_nat (u + S k))
    by (apply Z.mul_le_mono_nonneg_l; [lia|apply Z.pow_le_mono_r; lia]).
  specialize (IH ltac:(lia)). rewrite (timeout_exact (u + S k)) by exact Hsat. rewrite (timeout_exact (u + k)) in * by lia.
  replace (Z.of_nat (u + S k)) with (Z.of_nat (u + k) + 1) by lia. rewrite Z.pow_add_r by lia. change (2 ^ 1) with 2. lia.
Qed.
Theorem catch_up m V : (fst m <= V)%nat -> base * 2 ^ Z.of_nat V <= MAXD -> enter m V <= snd m + T V - T (fst m).
Proof.
  intros H Hs. unfold enter. pose proof (walk_bound (fst m) (snd m) (V - fst m)) as W.
  replace (fst m + (V - fst m))%nat with V in W by lia. apply W. exact Hs.
Qed.
End Sync.

Example window_example :
  (* base 1 s; one member armed for view 0 at time 0, one for view 3 at time 2 s (in ns); the view needs 4 s *)
  let ms := [(0%nat, 0); (3%nat, 2000000000)] in window 1000000000 ms 5 4000000000.
Proof. cbv zeta. intros a b [<-|[<-|[]]] [<-|[<-|[]]]; vm_compute; discriminate. Qed.
