(* Term.v — executable model of one lean-helix node as driven sequentially: the worker side of
   workerloop.go (message / election / sync events, onCommit, onNewConsensusRound), the main loop's context
   bookkeeping for those events, rawmessagesfilter, leanhelixterm (committee, share filter),
   termincommittee/term_in_committee.go, proofsvalidator, preparedmessages, blockextractor, blockproof and
   the in-memory storage — as repaired by the fix: commits (DESIGN.md §7). One function per Go function,
   checks in the order of the code (Appendix A of DESIGN.md, updated). *)
From LH Require Import Prims Quorum Leader Contexts Msg.
Open Scope N_scope.

(* ---- configuration of a node (what the SPI fakes of the harness implement) ---- *)
Record ncfg := {
  c_me : N;
  c_inst : N;
  c_base : committee;            (* ordered committee of height 0; Membership rotates it by height*c_rot *)
  c_rot : N;
  c_excl : list N;               (* heights at which Membership leaves this node out of the committee *)
  c_failcommit : list N          (* heights at which the consumer's commit callback returns an error *)
}.

Definition rotate {A} (k : nat) (l : list A) : list A := skipn k l ++ firstn k l.
Definition committee_at (c : ncfg) (h : N) : committee :=
  match c_base c with
  | [] => []
  | _ =>
    let cm := rotate (N.to_nat ((h * c_rot c) mod N.of_nat (length (c_base c)))) (c_base c) in
    if memN h (c_excl c) then filter (fun m => negb (N.eqb (fst m) (c_me c))) cm else cm
  end.

Definition leaderOf (cm : committee) (v : N) : N := match leader cm v with Some i => i | None => 0 end.
Definition isMember (cm : committee) (i : N) : bool := memN i (ids cm).

(* SPI fakes *)
Definition validProposal (me h : N) (ob : option block) (x : N) : bool :=       (* ValidateBlockProposal = nil *)
  match ob with None => false | Some b => negb (memN me (b_bad b)) && N.eqb (b_height b) h && N.eqb (b_id b) x end.
Definition commitsTo (h : N) (ob : option block) (x : N) : bool :=              (* ValidateBlockCommitment *)
  match ob with None => false | Some b => N.eqb (b_height b) h && N.eqb (b_id b) x end.
Definition fresh_id (me k : N) : N := 1000000 + me * 1000 + k.

(* ---- storage (in_memory_storage.go), one term's worth ---- *)
Record ppent := { pe_ref : bref; pe_snd : ssig; pe_blk : option block }.

Record tstate := {
  t_h : N;
  t_cm : committee;
  t_pp : list (N * ppent);                       (* view -> PREPREPARE, first wins *)
  t_p : list (N * N * ssig);                     (* (view, hash, sender), first wins per (view, hash, id) *)
  t_c : list (N * N * ssig);                     (* commits likewise *)
  t_vc : list (N * (vote * option block));       (* (view, vote), first wins per (view, id) *)
  t_prepared : option N;
  t_latest : N;                                  (* latestViewThatProcessedVCMOrNVM *)
  t_committed : bool
}.

Definition get_pp (t : tstate) (v : N) : option ppent :=
  match find (fun e => N.eqb (fst e) v) (t_pp t) with Some e => Some (snd e) | None => None end.
Definition store_pp (v : N) (e : ppent) (t : tstate) : tstate :=
  match get_pp t v with
  | Some _ => t
  | None => {| t_h := t_h t; t_cm := t_cm t; t_pp := t_pp t ++ [(v, e)]; t_p := t_p t; t_c := t_c t; t_vc := t_vc t;
               t_prepared := t_prepared t; t_latest := t_latest t; t_committed := t_committed t |}
  end.
Definition bucket (l : list (N * N * ssig)) (v x : N) : list ssig :=
  map snd (filter (fun e => N.eqb (fst (fst e)) v && N.eqb (snd (fst e)) x) l).
Definition store_in (l : list (N * N * ssig)) (v x : N) (s : ssig) : list (N * N * ssig) :=
  if memN (s_id s) (map s_id (bucket l v x)) then l else l ++ [(v, x, s)].
Definition store_p v x s t :=
  {| t_h := t_h t; t_cm := t_cm t; t_pp := t_pp t; t_p := store_in (t_p t) v x s; t_c := t_c t; t_vc := t_vc t;
     t_prepared := t_prepared t; t_latest := t_latest t; t_committed := t_committed t |}.
Definition store_c v x s t :=
  {| t_h := t_h t; t_cm := t_cm t; t_pp := t_pp t; t_p := t_p t; t_c := store_in (t_c t) v x s; t_vc := t_vc t;
     t_prepared := t_prepared t; t_latest := t_latest t; t_committed := t_committed t |}.
Definition votes_of (t : tstate) (v : N) : list (vote * option block) :=
  map snd (filter (fun e => N.eqb (fst e) v) (t_vc t)).
Definition store_vc (v : N) (vt : vote) (b : option block) (t : tstate) : tstate :=
  if memN (s_id (v_snd vt)) (map (fun e => s_id (v_snd (fst e))) (votes_of t v)) then t else
  {| t_h := t_h t; t_cm := t_cm t; t_pp := t_pp t; t_p := t_p t; t_c := t_c t; t_vc := t_vc t ++ [(v, (vt, b))];
     t_prepared := t_prepared t; t_latest := t_latest t; t_committed := t_committed t |}.
Definition set_prepared v t :=
  {| t_h := t_h t; t_cm := t_cm t; t_pp := t_pp t; t_p := t_p t; t_c := t_c t; t_vc := t_vc t;
     t_prepared := Some v; t_latest := t_latest t; t_committed := t_committed t |}.
Definition set_latest v t :=
  {| t_h := t_h t; t_cm := t_cm t; t_pp := t_pp t; t_p := t_p t; t_c := t_c t; t_vc := t_vc t;
     t_prepared := t_prepared t; t_latest := v; t_committed := t_committed t |}.
Definition set_committed t :=
  {| t_h := t_h t; t_cm := t_cm t; t_pp := t_pp t; t_p := t_p t; t_c := t_c t; t_vc := t_vc t;
     t_prepared := t_prepared t; t_latest := t_latest t; t_committed := true |}.
Definition has_p (t : tstate) (v x i : N) : bool := memN i (map s_id (bucket (t_p t) v x)).
Definition has_c (t : tstate) (v x i : N) : bool := memN i (map s_id (bucket (t_c t) v x)).
Definition has_vc (t : tstate) (v i : N) : bool := memN i (map (fun e => s_id (v_snd (fst e))) (votes_of t v)).
Definition has_pp (t : tstate) (v : N) : bool := match get_pp t v with Some _ => true | None => false end.
Definition new_tstate (h : N) (cm : committee) : tstate :=
  {| t_h := h; t_cm := cm; t_pp := []; t_p := []; t_c := []; t_vc := []; t_prepared := None; t_latest := 0; t_committed := false |}.

(* ---- observable outputs ---- *)
Inductive out :=
| OSend (to : list N) (m : msg)
| OCommit (b : block) (r : bref) (signers : list ssig) (seed_ok : bool)    (* commit callback: block + decoded proof *)
| ONewRound (h : N) (prev : option block) (lead : bool)                   (* new-consensus-round callback *)
| OArm (h v : N)                                                          (* electionTrigger.RegisterOnElection *)
| OStop                                                                   (* electionTrigger.Stop (term disposed) *)
| OStore (kind height view hash sender : N)                                      (* Storage.Store* returned true (kind = message type) *)
| OPanic.

Record node := {
  n_h : N; n_v : N;                         (* State *)
  n_wm : option hv; n_shut : bool;          (* ViewContexts: watermark, shutdown *)
  n_maxsync : option N;                     (* main loop: maxBlockHeightBySync *)
  n_hasterm : bool;                         (* a LeanHelixTerm is installed as the filter's handler *)
  n_term : option tstate;                   (* its TermInCommittee, when this node is in the committee *)
  n_cache : list (N * list msg); n_latest : N;     (* futureCache, latestFutureBlockHeight *)
  n_fresh : N;                              (* number of RequestNewBlockProposal calls so far *)
  n_out : list out;                         (* newest first *)
  n_oof : bool
}.

Definition node_init : node :=
  {| n_h := 0; n_v := 0; n_wm := None; n_shut := false; n_maxsync := None; n_hasterm := false; n_term := None;
     n_cache := []; n_latest := 0; n_fresh := 0; n_out := []; n_oof := false |}.

Definition upd_term (t : option tstate) (n : node) : node :=
  {| n_h := n_h n; n_v := n_v n; n_wm := n_wm n; n_shut := n_shut n; n_maxsync := n_maxsync n; n_hasterm := n_hasterm n;
     n_term := t; n_cache := n_cache n; n_latest := n_latest n; n_fresh := n_fresh n; n_out := n_out n; n_oof := n_oof n |}.
Definition emit (o : out) (n : node) : node :=
  {| n_h := n_h n; n_v := n_v n; n_wm := n_wm n; n_shut := n_shut n; n_maxsync := n_maxsync n; n_hasterm := n_hasterm n;
     n_term := n_term n; n_cache := n_cache n; n_latest := n_latest n; n_fresh := n_fresh n; n_out := o :: n_out n; n_oof := n_oof n |}.
Definition set_view (v : N) (n : node) : node :=
  {| n_h := n_h n; n_v := v; n_wm := n_wm n; n_shut := n_shut n; n_maxsync := n_maxsync n; n_hasterm := n_hasterm n;
     n_term := n_term n; n_cache := n_cache n; n_latest := n_latest n; n_fresh := n_fresh n; n_out := n_out n; n_oof := n_oof n |}.
Definition set_oof (n : node) : node :=
  {| n_h := n_h n; n_v := n_v n; n_wm := n_wm n; n_shut := n_shut n; n_maxsync := n_maxsync n; n_hasterm := n_hasterm n;
     n_term := n_term n; n_cache := n_cache n; n_latest := n_latest n; n_fresh := n_fresh n; n_out := n_out n; n_oof := true |}.
Definition bump_fresh (n : node) : node :=
  {| n_h := n_h n; n_v := n_v n; n_wm := n_wm n; n_shut := n_shut n; n_maxsync := n_maxsync n; n_hasterm := n_hasterm n;
     n_term := n_term n; n_cache := n_cache n; n_latest := n_latest n; n_fresh := n_fresh n + 1; n_out := n_out n; n_oof := n_oof n |}.
Definition cancel_older (k : hv) (n : node) : node :=
  {| n_h := n_h n; n_v := n_v n;
     n_wm := match n_wm n with None => Some k | Some w => if hv_lt w k then Some k else Some w end;
     n_shut := n_shut n; n_maxsync := n_maxsync n; n_hasterm := n_hasterm n;
     n_term := n_term n; n_cache := n_cache n; n_latest := n_latest n; n_fresh := n_fresh n; n_out := n_out n; n_oof := n_oof n |}.

(* Contexts.For succeeds *)
Definition ctx_for (n : node) (k : hv) : bool :=
  negb (n_shut n) && match n_wm n with Some w => negb (hv_lt k w) | None => true end.

Definition others (c : ncfg) (cm : committee) : list N := filter (fun i => negb (N.eqb i (c_me c))) (ids cm).
Definition my_sig (c : ncfg) : ssig := {| s_id := c_me c; s_ok := true |}.
Definition mk_ref (ty : N) (c : ncfg) (h v x : N) : bref := {| r_type := ty; r_inst := c_inst c; r_height := h; r_view := v; r_hash := x |}.

Definition isQ_ids (cm : committee) (l : list N) : bool := isQ l cm.

(* proofsvalidator.ValidatePreparedProof *)
Definition validate_proof (cm : committee) (h target : N) (op : option pproof) : bool :=
  match op with
  | None => true
  | Some p =>
    let pp := pf_ppref p in let pr := pf_pref p in
    N.eqb (r_type pp) T_PREPREPARE && N.eqb (r_type pr) T_PREPARE && N.eqb (r_inst pr) (r_inst pp)
    && N.eqb (r_height pp) h
    && N.ltb (r_view pp) target
    && isQ_ids cm (map s_id (pf_psnds p) ++ [s_id (pf_ppsnd p)])
    && s_ok (pf_ppsnd p)
    && N.eqb (leaderOf cm (r_view pp)) (s_id (pf_ppsnd p))
    && N.eqb (r_hash pr) (r_hash pp) && N.eqb (r_height pr) (r_height pp) && N.eqb (r_view pr) (r_view pp)
    && forallb (fun s => s_ok s && negb (N.eqb (s_id s) (s_id (pf_ppsnd p))) && isMember cm (s_id s)) (pf_psnds p)
    && nodupN (map s_id (pf_psnds p))
  end.

(* TermInCommittee.isViewChangeValid *)
Definition vote_valid (c : ncfg) (cm : committee) (h : N) (vt : vote) : bool :=
  N.eqb (v_type vt) T_VIEW_CHANGE && N.eqb (v_inst vt) (c_inst c)
  && match v_proof vt with Some p => N.eqb (r_inst (pf_ppref p)) (c_inst c) | None => true end
  && isMember cm (s_id (v_snd vt))
  && s_ok (v_snd vt)
  && validate_proof cm h (v_view vt) (v_proof vt).

(* the vote with a proof of maximal preprepare view (first such in the given order) *)
Fixpoint latest_vote (vs : list vote) : option vote :=
  match vs with
  | [] => None
  | vt :: r =>
    match v_proof vt with
    | None => latest_vote r
    | Some p => match latest_vote r with
                | Some w => match v_proof w with
                            | Some q => if N.ltb (r_view (pf_ppref p)) (r_view (pf_ppref q)) then Some w else Some vt
                            | None => Some vt end
                | None => Some vt end
    end
  end.

(* blockextractor.GetLatestBlockFromViewChangeMessages: among votes carrying a block, maximal proof view *)
Fixpoint latest_block_aux (vs : list (vote * option block)) : option (vote * pproof * block) :=
  match vs with
  | [] => None
  | (vt, ob) :: r =>
    match ob, v_proof vt with
    | Some b, Some p =>
        match latest_block_aux r with
        | Some (w, q, b') => if N.ltb (r_view (pf_ppref p)) (r_view (pf_ppref q)) then Some (w, q, b') else Some (vt, p, b)
        | None => Some (vt, p, b)
        end
    | _, _ => latest_block_aux r
    end
  end.
Definition latest_block (vs : list (vote * option block)) : option (block * N) :=
  match latest_block_aux vs with Some (_, q, b) => Some (b, r_hash (pf_pref q)) | None => None end.

Definition canon_proof (p : pproof) : pproof :=
  {| pf_ppref := pf_ppref p; pf_ppsnd := pf_ppsnd p; pf_pref := pf_pref p; pf_psnds := sort_by s_id (pf_psnds p) |}.
Definition canon_vote (vt : vote) : vote :=
  {| v_type := v_type vt; v_inst := v_inst vt; v_height := v_height vt; v_view := v_view vt;
     v_proof := match v_proof vt with Some p => Some (canon_proof p) | None => None end; v_snd := v_snd vt |}.
(* canonical form of an output for comparison with the implementation (Go map iteration order is arbitrary) *)
Definition canon_msg (m : msg) : msg :=
  match m with
  | MVC vt b => MVC (canon_vote vt) b
  | MNV t i h v vs s pp pps b => MNV t i h v (sort_by (fun vt => s_id (v_snd vt)) (map canon_vote vs)) s pp pps b
  | _ => m
  end.

(* ---- the term as a pure state machine ----
   [tc] is what a handler of TermInCommittee reads and writes: the term's storage and flags, the State view,
   the count of RequestNewBlockProposal calls, the outputs produced so far (newest first) and, once the term
   has committed, the committed block. Committing is the last thing any handler does (checkCommitted is in tail
   position everywhere), so the start of the next round is applied by the node after the handler returns. *)
Record tc := { tc_t : tstate; tc_v : N; tc_fresh : N; tc_out : list out; tc_commit : option block }.

Definition tc_emit (o : out) (x : tc) : tc :=
  {| tc_t := tc_t x; tc_v := tc_v x; tc_fresh := tc_fresh x; tc_out := o :: tc_out x; tc_commit := tc_commit x |}.
Definition tc_set_t (t : tstate) (x : tc) : tc :=
  {| tc_t := t; tc_v := tc_v x; tc_fresh := tc_fresh x; tc_out := tc_out x; tc_commit := tc_commit x |}.
Definition tc_set_v (v : N) (x : tc) : tc :=
  {| tc_t := tc_t x; tc_v := v; tc_fresh := tc_fresh x; tc_out := tc_out x; tc_commit := tc_commit x |}.
Definition tc_bump (x : tc) : tc :=
  {| tc_t := tc_t x; tc_v := tc_v x; tc_fresh := tc_fresh x + 1; tc_out := tc_out x; tc_commit := tc_commit x |}.
Definition tc_committed (b : block) (x : tc) : tc :=
  {| tc_t := tc_t x; tc_v := tc_v x; tc_fresh := tc_fresh x; tc_out := tc_out x; tc_commit := Some b |}.

Section Handlers.
Variable c : ncfg.
(* the context registry as the worker sees it during one event *)
Variable wm : option hv.
Variable shut : bool.

Definition ctx_ok (k : hv) : bool :=
  negb shut && match wm with Some w => negb (hv_lt k w) | None => true end.

(* initView: State.SetView + RegisterOnElection; None when SetView refuses *)
Definition init_view (v : N) (x : tc) : option tc :=
  if N.ltb v (tc_v x) then None else Some (tc_emit (OArm (t_h (tc_t x)) v) (tc_set_v v x)).

Definition send_all (m : msg) (x : tc) : tc := tc_emit (OSend (others c (t_cm (tc_t x))) m) x.

(* isPreprepared *)
Definition is_preprepared (t : tstate) (v h : N) : option ppent :=
  match get_pp t v with
  | Some e => match pe_blk e with Some _ => if N.eqb (r_hash (pe_ref e)) h then Some e else None | None => None end
  | None => None
  end.

(* checkCommitted *)
Definition check_committed (x : tc) (v h : N) : tc :=
  let t := tc_t x in
  if t_committed t then x else
  match is_preprepared t v h with
  | None => x
  | Some e =>
    let cs := bucket (t_c t) v h in
    if negb (isQ_ids (t_cm t) (map s_id cs)) then x else
    if negb (ctx_ok (t_h t, MAXVIEW)) then x else
    match pe_blk e with
    | None => x
    | Some b =>
      let cref := mk_ref T_COMMIT c (t_h t) v h in
      let x1 := if memN (c_me c) (map s_id cs) then x else send_all (MC cref (my_sig c) true) x in
      tc_committed b (tc_emit (OCommit b cref (sort_by s_id cs) true) (tc_set_t (set_committed t) x1))
    end
  end.

(* checkPreparedLocally + onPreparedLocally *)
Definition check_prepared (x : tc) (v h : N) : tc :=
  let t := tc_t x in
  if match t_prepared t with Some pv => N.eqb pv v | None => false end then x else
  match is_preprepared t v h with
  | None => x
  | Some e =>
    if isQ_ids (t_cm t) (map s_id (bucket (t_p t) v h) ++ [s_id (pe_snd e)]) then
      let t1 := store_c v h (my_sig c) (set_prepared v t) in
      let x0 := if has_c t v h (c_me c) then x else tc_emit (OStore T_COMMIT (t_h t) v h (c_me c)) x in
      let x1 := send_all (MC (mk_ref T_COMMIT c (t_h t) v h) (my_sig c) true) (tc_set_t t1 x0) in
      check_committed x1 v h
    else x
  end.

(* processPreprepare *)
Definition process_pp (x : tc) (r : bref) (s : ssig) (b : option block) : tc :=
  let t := tc_t x in
  if negb (N.eqb (tc_v x) (r_view r)) then x else
  let t0 := store_pp (r_view r) {| pe_ref := r; pe_snd := s; pe_blk := b |} t in
  let t1 := store_p (r_view r) (r_hash r) (my_sig c) t0 in
  let x0 := if has_pp t (r_view r) then x else tc_emit (OStore T_PREPREPARE (t_h t) (r_view r) (r_hash r) (s_id s)) x in
  let x0' := if has_p t0 (r_view r) (r_hash r) (c_me c) then x0 else tc_emit (OStore T_PREPARE (t_h t) (r_view r) (r_hash r) (c_me c)) x0 in
  let x1 := send_all (MP (mk_ref T_PREPARE c (r_height r) (r_view r) (r_hash r)) (my_sig c)) (tc_set_t t1 x0') in
  check_prepared x1 (r_view r) (r_hash r).

(* validatePreprepare *)
Definition validate_pp (t : tstate) (r : bref) (s : ssig) : bool :=
  match get_pp t (r_view r) with Some _ => false | None =>
    N.eqb (r_type r) T_PREPREPARE && N.eqb (r_inst r) (c_inst c) && s_ok s
    && N.eqb (s_id s) (leaderOf (t_cm t) (r_view r)) end.

(* HandlePrePrepare *)
Definition handle_pp (x : tc) (r : bref) (s : ssig) (b : option block) : tc :=
  if negb (validate_pp (tc_t x) r s) then x else
  if negb (N.eqb (tc_v x) (r_view r)) then x else      (* a proposal of another view is dropped before ValidateBlockProposal *)
  if negb (ctx_ok (r_height r, r_view r)) then x else
  if negb (validProposal (c_me c) (r_height r) b (r_hash r)) then x else
  process_pp x r s b.

(* HandlePrepare *)
Definition handle_p (x : tc) (r : bref) (s : ssig) : tc :=
  let t := tc_t x in
  if negb (N.eqb (r_type r) T_PREPARE) then x else
  if negb (isMember (t_cm t) (s_id s)) then x else
  if negb (s_ok s) then x else
  if N.ltb (r_view r) (tc_v x) then x else
  if N.eqb (s_id s) (leaderOf (t_cm t) (r_view r)) then x else
  let x0 := if has_p t (r_view r) (r_hash r) (s_id s) then x else tc_emit (OStore T_PREPARE (t_h t) (r_view r) (r_hash r) (s_id s)) x in
  check_prepared (tc_set_t (store_p (r_view r) (r_hash r) s t) x0) (r_view r) (r_hash r).

(* share filter (ConsensusMessagesFilter) + HandleCommit *)
Definition handle_c (x : tc) (r : bref) (s : ssig) (share_ok : bool) : tc :=
  let t := tc_t x in
  if negb share_ok then x else
  if negb (N.eqb (r_type r) T_COMMIT) then x else
  if negb (isMember (t_cm t) (s_id s)) then x else
  if negb (s_ok s) then x else
  let x0 := if has_c t (r_view r) (r_hash r) (s_id s) then x else tc_emit (OStore T_COMMIT (t_h t) (r_view r) (r_hash r) (s_id s)) x in
  check_committed (tc_set_t (store_c (r_view r) (r_hash r) s t) x0) (r_view r) (r_hash r).

(* preparedmessages.ExtractPreparedMessages + CreatePreparedProofBuilderFromPreparedMessages; the bool is "panicked" *)
Definition extract_proof (t : tstate) (pv : N) : option (pproof * option block) * bool :=
  match get_pp t pv with
  | None => (None, false)
  | Some e =>
    let h := r_hash (pe_ref e) in
    let ps := bucket (t_p t) pv h in
    if negb (isQ_ids (t_cm t) (map s_id ps ++ [s_id (pe_snd e)])) then (None, false) else
    if negb (existsb (fun en => N.eqb (fst (fst en)) pv) (t_p t)) then (None, false) else   (* GetPrepareMessages: !ok *)
    match ps with
    | [] => (None, true)                                                                    (* prepareMessages[0] *)
    | _ =>
      (Some ({| pf_ppref := {| r_type := T_PREPREPARE; r_inst := r_inst (pe_ref e); r_height := r_height (pe_ref e);
                               r_view := r_view (pe_ref e); r_hash := h |};
                pf_ppsnd := pe_snd e;
                pf_pref := {| r_type := T_PREPARE; r_inst := c_inst c; r_height := t_h t; r_view := pv; r_hash := h |};
                pf_psnds := sort_by s_id ps |}, pe_blk e), false)
    end
  end.

(* onElectedByViewChange *)
Definition on_elected (x : tc) (v : N) (vs : list (vote * option block)) : tc :=
  let x0 := tc_set_t (set_latest v (tc_t x)) x in
  match init_view v x0 with
  | None => x0
  | Some x1 =>
    let go (b : block) (h : N) (x2 : tc) : tc :=
      let t1 := tc_t x2 in
      let ppr := mk_ref T_PREPREPARE c (t_h t1) v h in
      let nv := MNV T_NEW_VIEW (c_inst c) (t_h t1) v (map fst vs) (my_sig c) ppr (my_sig c) (Some b) in
      let t2 := store_pp v {| pe_ref := ppr; pe_snd := my_sig c; pe_blk := Some b |} t1 in
      let x3 := if has_pp t1 v then x2 else tc_emit (OStore T_PREPREPARE (t_h t1) v h (c_me c)) x2 in
      send_all nv (tc_set_t t2 x3) in
    match latest_block vs with
    | Some (b, h) => go b h x1
    | None =>
      if negb (ctx_ok (t_h (tc_t x1), tc_v x1)) then x1 else
      let b := {| b_height := t_h (tc_t x1); b_id := fresh_id (c_me c) (tc_fresh x1); b_bad := [] |} in
      go b (b_id b) (tc_bump x1)
    end
  end.

(* checkElected *)
Definition check_elected (x : tc) (v : N) : tc :=
  let t := tc_t x in
  if N.leb v (t_latest t) then x else
  let vs := votes_of t v in
  match vs with
  | [] => x
  | _ => if isQ_ids (t_cm t) (map (fun e => s_id (v_snd (fst e))) vs) then on_elected x v vs else x
  end.

(* HandleViewChange *)
Definition handle_vc (x : tc) (vt : vote) (b : option block) : tc :=
  let t := tc_t x in
  if negb (N.eqb (leaderOf (t_cm t) (v_view vt)) (c_me c)) then x else
  if N.ltb (v_view vt) (tc_v x) then x else
  if negb (vote_valid c (t_cm t) (t_h t) vt) then x else
  let accept :=
    let x0 := if has_vc t (v_view vt) (s_id (v_snd vt)) then x else tc_emit (OStore T_VIEW_CHANGE (t_h t) (v_view vt) 0 (s_id (v_snd vt))) x in
    check_elected (tc_set_t (store_vc (v_view vt) vt b t) x0) (v_view vt) in
  match b, v_proof vt with
  | None, Some _ => x
  | Some _, None => x                                     (* ValidateBlockCommitment against the empty hash *)
  | Some _, Some p => if commitsTo (v_height vt) b (r_hash (pf_ppref p)) then accept else x
  | None, None => accept
  end.

(* validateViewChangeVotes *)
Definition votes_ok (t : tstate) (h v : N) (vs : list vote) : bool :=
  isQ_ids (t_cm t) (map (fun vt => s_id (v_snd vt)) vs)
  && forallb (fun vt => N.eqb (v_height vt) h && N.eqb (v_view vt) v) vs
  && nodupN (map (fun vt => s_id (v_snd vt)) vs).

(* HandleNewView *)
Definition handle_nv (x : tc) (nty ninst nh nvw : N) (vs : list vote) (s : ssig) (pp : bref) (pps : ssig) (b : option block) : tc :=
  let t := tc_t x in
  if N.ltb nvw (tc_v x) then x else
  if negb (N.eqb nty T_NEW_VIEW) then x else
  if negb (s_ok s) then x else
  if negb (N.eqb (s_id s) (leaderOf (t_cm t) nvw)) then x else
  if negb (votes_ok t nh nvw vs) then x else
  if negb (N.eqb (r_view pp) nvw) then x else
  if negb (N.eqb (r_height pp) nh) then x else
  if negb (forallb (vote_valid c (t_cm t) (t_h t)) vs) then x else
  let cont :=
    if negb (validate_pp t pp pps) then x else
    let x0 := tc_set_t (set_latest nvw t) x in
    match init_view nvw x0 with
    | None => x0
    | Some x1 => process_pp x1 pp pps b
    end in
  match latest_vote vs with
  | Some lv =>
    match v_proof lv with
    | Some p =>
      let h := r_hash (pf_ppref p) in
      if negb (commitsTo nh b h) then x else
      if negb (N.eqb (r_hash pp) h) then x else cont
    | None => x
    end
  | None =>
    if negb (ctx_ok (t_h t, tc_v x)) then x else      (* validated under the context of the position the node is in *)
    if negb (validProposal (c_me c) (r_height pp) b (r_hash pp)) then x else cont
  end.

(* moveToNextLeaderByElection(h, v) *)
Definition move_to_next_leader (x : tc) (h v : N) : tc :=
  let t := tc_t x in
  if negb (N.eqb h (t_h t) && N.eqb v (tc_v x)) then x else
  match init_view (wrap64 (v + 1)) x with
  | None => x
  | Some x1 =>
    let v1 := tc_v x1 in
    let res := match t_prepared t with Some pv => extract_proof t pv | None => (None, false) end in
    if snd res then tc_emit OPanic x1 else
    let prf := match fst res with Some (p, _) => Some p | None => None end in
    let blk := match fst res with Some (_, ob) => ob | None => None end in
    let vt := {| v_type := T_VIEW_CHANGE; v_inst := c_inst c; v_height := t_h t; v_view := v1; v_proof := prf; v_snd := my_sig c |} in
    if N.eqb (leaderOf (t_cm t) v1) (c_me c)
    then let x2 := if has_vc t v1 (c_me c) then x1 else tc_emit (OStore T_VIEW_CHANGE (t_h t) v1 0 (c_me c)) x1 in
         check_elected (tc_set_t (store_vc v1 vt blk t) x2) v1
    else tc_emit (OSend [leaderOf (t_cm t) v1] (MVC vt blk)) x1
  end.

(* ConsensusMessagesFilter.HandleConsensusMessage: dispatch on the envelope kind *)
Definition thandle (x : tc) (m : msg) : tc :=
  match m with
  | MPP r s b => handle_pp x r s b
  | MP r s => handle_p x r s
  | MC r s o => handle_c x r s o
  | MVC vt b => handle_vc x vt b
  | MNV ty i h v vs s pp pps b => handle_nv x ty i h v vs s pp pps b
  end.

(* startTerm *)
Definition start_term (x : tc) (lead : bool) : tc :=
  let t := tc_t x in
  match init_view 0 x with
  | None => x
  | Some x1 =>
    if N.ltb 1 (t_h t) && negb lead then x1 else
    if negb (N.eqb (leaderOf (t_cm t) 0) (c_me c)) then x1 else
    if negb (ctx_ok (t_h t, 0)) then x1 else
    let b := {| b_height := t_h t; b_id := fresh_id (c_me c) (tc_fresh x1); b_bad := [] |} in
    let ppr := mk_ref T_PREPREPARE c (t_h t) 0 (b_id b) in
    let t1 := store_pp 0 {| pe_ref := ppr; pe_snd := my_sig c; pe_blk := Some b |} t in
    tc_emit (OSend (others c (t_cm t)) (MPP ppr (my_sig c) (Some b)))
      (tc_emit (OStore T_PREPREPARE (t_h t) 0 (b_id b) (c_me c)) (tc_set_t t1 (tc_bump x1)))
  end.
End Handlers.

(* ---- node-level glue: run a term handler on the node's current term and write the result back ---- *)
Definition tc_of (n : node) (t : tstate) : tc :=
  {| tc_t := t; tc_v := n_v n; tc_fresh := n_fresh n; tc_out := []; tc_commit := None |}.
Definition write_back (x : tc) (n : node) : node :=
  {| n_h := n_h n; n_v := tc_v x; n_wm := n_wm n; n_shut := n_shut n; n_maxsync := n_maxsync n; n_hasterm := n_hasterm n;
     n_term := Some (tc_t x); n_cache := n_cache n; n_latest := n_latest n; n_fresh := tc_fresh x;
     n_out := tc_out x ++ n_out n; n_oof := n_oof n |}.
(* WorkerLoop.onCommit: the commit callback was invoked (OCommit is in the outputs); on success the next round starts *)
Definition finish (c : ncfg) (next : node -> block -> node) (x : tc) (n : node) : node :=
  let n' := write_back x n in
  match tc_commit x with
  | Some b => if memN (b_height b) (c_failcommit c) then n' else next n' b
  | None => n'
  end.
Definition term_handle (c : ncfg) (next : node -> block -> node) (n : node) (m : msg) : node :=
  match n_term n with
  | None => n                                                   (* out of committee *)
  | Some t => finish c next (thandle c (n_wm n) (n_shut n) (tc_of n t) m) n
  end.

(* ---- raw message filter at node level (as Filter.v, with real messages) ---- *)
Fixpoint lookupM (h : N) (cch : list (N * list msg)) : list msg :=
  match cch with [] => [] | (k, l) :: r => if N.eqb k h then l else lookupM h r end.
Fixpoint append_atM (h : N) (m : msg) (cch : list (N * list msg)) : list (N * list msg) :=
  match cch with
  | [] => [(h, [m])]
  | (k, l) :: r => if N.eqb k h then (k, l ++ [m]) :: r else (k, l) :: append_atM h m r
  end.
Definition set_cacheM (cch : list (N * list msg)) (lat : N) (n : node) : node :=
  {| n_h := n_h n; n_v := n_v n; n_wm := n_wm n; n_shut := n_shut n; n_maxsync := n_maxsync n; n_hasterm := n_hasterm n;
     n_term := n_term n; n_cache := cch; n_latest := lat; n_fresh := n_fresh n; n_out := n_out n; n_oof := n_oof n |}.

Definition push_cache (m : msg) (n : node) : node :=
  let h := msg_height m in
  if N.ltb h (n_latest n) then n else
  let cch := if N.ltb (n_latest n) h then filter (fun e => negb (N.ltb (fst e) h)) (n_cache n) else n_cache n in
  set_cacheM (append_atM h m cch) (if N.ltb (n_latest n) h then h else n_latest n) n.

Definition filter_handle (c : ncfg) (next : node -> block -> node) (n : node) (m : msg) : node :=
  if N.eqb (msg_sender m) (c_me c) then n
  else if N.ltb (msg_height m) (n_h n) then n
  else if negb (N.eqb (msg_inst m) (c_inst c)) then n
  else if N.ltb (n_h n) (msg_height m) then push_cache m n
  else if negb (n_hasterm n) then n
  else term_handle c next n m.

(* ---- worker: onNewConsensusRound ---- *)
Definition install (h : N) (hasterm : bool) (t : option tstate) (n : node) : node :=
  {| n_h := h; n_v := 0; n_wm := n_wm n; n_shut := n_shut n; n_maxsync := n_maxsync n; n_hasterm := hasterm;
     n_term := t; n_cache := n_cache n; n_latest := n_latest n; n_fresh := n_fresh n; n_out := n_out n; n_oof := n_oof n |}.

Fixpoint drain (hd : node -> msg -> node) (h : N) (msgs : list msg) (n : node) : node :=
  match msgs with
  | [] => n
  | m :: r => if N.eqb (n_h n) h then drain hd h r (hd n m) else n
  end.

(* onNewConsensusRound(prevBlock, proof, canBeFirstLeader); the height of a nil block is 0 *)
Fixpoint new_round (fuel : nat) (c : ncfg) (n : node) (prev : option block) (lead : bool) {struct fuel} : node :=
  match fuel with
  | O => set_oof n
  | S f =>
    let h := wrap64 (match prev with Some b => b_height b | None => 0 end + 1) in
    if negb (ctx_for n (h, 0)) then n else
    if N.leb h (n_h n) then n else                                      (* SetHeightAndResetView refuses *)
    let n0 := match n_term n with Some _ => emit OStop n | None => n end in       (* Dispose of the previous term *)
    let n1 := install h true None n0 in
    let cm := committee_at c h in
    let participating := ctx_for n1 (h, MAXVIEW) && isMember cm (c_me c) in
    let next := fun n' b => new_round f c n' (Some b) true in
    let n2 := if participating
              then write_back (start_term c (n_wm n1) (n_shut n1) (tc_of n1 (new_tstate h cm)) lead) n1 else n1 in
    let n3 := emit (ONewRound h prev lead) n2 in
    (* ConsumeCacheMessages *)
    let cch := filter (fun e => negb (N.ltb (fst e) h)) (n_cache n3) in
    let n4 := set_cacheM cch (n_latest n3) n3 in
    let n5 := drain (filter_handle c next) h (lookupM h cch) n4 in
    set_cacheM (filter (fun e => negb (N.eqb (fst e) h)) (n_cache n5)) (n_latest n5) n5
  end.

(* ---- events of the sequential drive (verif hooks in /repo/verif_hooks.go) ---- *)
Inductive event :=
| EDeliver (m : msg)                      (* WorkerLoop: ToConsensusMessage + filter.HandleConsensusRawMessage *)
| EElection (h v : N)                     (* main loop's trigger handling, then the worker's stale check + callback *)
| ESync (prev : option block)             (* main loop's UpdateState handling, then worker.handleUpdateState *)
| EGarbage                                (* content bytes that are none of the five kinds or that the readers panic on: dropped by parseConsensusMessage *)
| ESyncMain (prev : option block)         (* the main loop's half of UpdateState alone: the block waits in the worker's channel *)
| ESyncWorker (prev : option block).      (* the worker takes that block from its channel: handleUpdateState (no main-loop iteration) *)
(* between an ESyncMain and its ESyncWorker the worker may handle anything else: the interleaving of the two loops *)

Definition set_maxsync (x : N) (n : node) : node :=
  {| n_h := n_h n; n_v := n_v n; n_wm := n_wm n; n_shut := n_shut n; n_maxsync := Some x; n_hasterm := n_hasterm n;
     n_term := n_term n; n_cache := n_cache n; n_latest := n_latest n; n_fresh := n_fresh n; n_out := n_out n; n_oof := n_oof n |}.

Definition fuel_of (n : node) : nat := S (S (length (n_cache n))).

(* the main loop's half of an UpdateState: de-duplication, cancel what is older, refuse if shutting down *)
Definition sync_main (n : node) (prev : option block) : node * bool :=
  let hb := match prev with Some b => b_height b | None => 0 end in
  let go := let n1 := cancel_older (wrap64 (hb + 1), 0) n in
            if negb (ctx_for n1 (wrap64 (hb + 1), 0)) then (n1, false) else (set_maxsync hb n1, true) in
  match n_maxsync n with
  | Some mx => if N.leb hb mx then (n, false) else go
  | None => go
  end.
(* the worker's half: handleUpdateState *)
Definition sync_worker (fuel : nat) (c : ncfg) (n : node) (prev : option block) : node :=
  let hb := match prev with Some b => b_height b | None => 0 end in
  if N.leb (n_h n) hb then new_round fuel c n prev false else n.

Definition step (c : ncfg) (n : node) (e : event) : node :=
  let fuel := fuel_of n in
  let next := fun n' b => new_round fuel c n' (Some b) true in
  (* every main-loop iteration starts with GcOldContexts; the worker's half of a sync is no main-loop iteration *)
  let n := match e with ESyncWorker _ => n | _ => cancel_older (n_h n, 0) n end in
  match e with
  | EGarbage => n
  | EDeliver m => filter_handle c next n m
  | EElection h v =>
      let n1 := cancel_older (h, wrap64 (v + 1)) n in
      if negb (ctx_for n1 (h, wrap64 (v + 1))) then n1 else
      if negb (N.eqb h (n_h n1) && N.eqb v (n_v n1)) then n1 else
      match n_term n1 with
      | Some t => write_back (move_to_next_leader c (n_wm n1) (n_shut n1) (tc_of n1 t) h v) n1
      | None => n1
      end
  | ESync prev => let r := sync_main n prev in if snd r then sync_worker fuel c (fst r) prev else fst r
  | ESyncMain prev => fst (sync_main n prev)
  | ESyncWorker prev => sync_worker fuel c n prev
  end.

Definition clear_out (n : node) : node :=
  {| n_h := n_h n; n_v := n_v n; n_wm := n_wm n; n_shut := n_shut n; n_maxsync := n_maxsync n; n_hasterm := n_hasterm n;
     n_term := n_term n; n_cache := n_cache n; n_latest := n_latest n; n_fresh := n_fresh n; n_out := []; n_oof := n_oof n |}.
