(* Elect.v — C05, the election half at one node: what a timeout and a quorum of votes do.
   (1) A member whose timer fires in view u moves to view u+1 and, unless it leads u+1 itself, sends its vote to the
       leader of u+1 (timeout_votes).
   (2) The leader of v that stores a vote completing quorum weight among the stored voters - its view not above v, not
       elected for v yet, its context for v alive - enters v, stores its own proposal for v and sends the NEW_VIEW
       (quorum_vote_elects); nothing is sent or stored while the stored voters stay below quorum (handle_vc_shape).
   Together with Accept.honest_view_change_is_counted (the vote is counted) and Live.honest_new_view_is_accepted (the
   NEW_VIEW is accepted) these are the steps of a view change among correct members; LiveElect.v chains them on the
   global model. *)
From Coq Require Import Lia.
From LH Require Import Prims Quorum QuorumFacts Contexts Msg Term TermFacts Own Accept Live.
Open Scope N_scope.

Section Elect.
Variable c : ncfg.
Variable wm : option hv.
Variable shut : bool.

Definition voters (t : tstate) (v : N) : list N := map (fun e => s_id (v_snd (fst e))) (votes_of t v).

Lemma has_vc_voters t v i : has_vc t v i = true <-> In i (voters t v).
Proof. unfold has_vc, voters. apply memN_In. Qed.

Lemma votes_of_store_vc t v vt b :
  votes_of (store_vc v vt b t) v = if memN (s_id (v_snd vt)) (voters t v) then votes_of t v else votes_of t v ++ [(vt, b)].
Proof.
  unfold store_vc, voters. destruct (memN _ _); [reflexivity|].
  unfold votes_of. cbn [t_vc]. rewrite filter_app, map_app. cbn [filter fst]. rewrite N.eqb_refl. reflexivity.
Qed.

Lemma voters_store_vc t v vt b :
  voters (store_vc v vt b t) v = if memN (s_id (v_snd vt)) (voters t v) then voters t v else voters t v ++ [s_id (v_snd vt)].
Proof.
  unfold voters at 1. rewrite votes_of_store_vc. fold (voters t v). destruct (memN _ _); [reflexivity|].
  rewrite map_app. reflexivity.
Qed.

Lemma voters_store_vc_incl t v vt b : incl (s_id (v_snd vt) :: voters t v) (voters (store_vc v vt b t) v).
Proof.
  rewrite voters_store_vc. destruct (memN _ _) eqn:Em.
  - intros i [<-|Hi]; [apply memN_In; exact Em|exact Hi].
  - intros i [<-|Hi]; apply in_or_app; [right; left; reflexivity|left; exact Hi].
Qed.

Lemma store_vc_other t v vt b : t_pp (store_vc v vt b t) = t_pp t /\ t_latest (store_vc v vt b t) = t_latest t /\
  t_prepared (store_vc v vt b t) = t_prepared t /\ t_committed (store_vc v vt b t) = t_committed t.
Proof. unfold store_vc. destruct (memN _ _); repeat split; reflexivity. Qed.

(* ---- on_elected when nothing stands in its way ---- *)
Definition nv_of (x : tc) (v : N) (vs : list (vote * option block)) (h : N) (b : block) : msg :=
  MNV T_NEW_VIEW (c_inst c) (t_h (tc_t x)) v (map fst vs) (my_sig c) (mk_ref T_PREPREPARE c (t_h (tc_t x)) v h) (my_sig c) (Some b).

Lemma on_elected_elects x v vs : tc_v x <= v -> get_pp (tc_t x) v = None ->
  (latest_block vs = None -> ctx_ok wm shut (t_h (tc_t x), v) = true) ->
  let x' := on_elected c wm shut x v vs in
  tc_v x' = v /\ t_latest (tc_t x') = v /\ t_h (tc_t x') = t_h (tc_t x) /\ t_cm (tc_t x') = t_cm (tc_t x) /\
  exists h b,
    is_preprepared (tc_t x') v h = Some {| pe_ref := mk_ref T_PREPREPARE c (t_h (tc_t x)) v h; pe_snd := my_sig c; pe_blk := Some b |} /\
    In (OSend (others c (t_cm (tc_t x))) (nv_of x v vs h b)) (tc_out x') /\
    (latest_block vs = None -> b_bad b = [] /\ b_height b = t_h (tc_t x) /\ b_id b = h).
Proof.
  intros Hv Hnone Hctx. cbn zeta. unfold on_elected, init_view. cbn [tc_set_t tc_v tc_t].
  destruct (N.ltb_spec v (tc_v x)) as [Hlt|_]; [lia|].
  set (x1 := tc_emit (OArm _ v) (tc_set_v v (tc_set_t (set_latest v (tc_t x)) x))).
  assert (X1 : tc_v x1 = v /\ tc_t x1 = set_latest v (tc_t x)) by (subst x1; split; reflexivity).
  destruct X1 as [V1 T1].
  assert (G : forall b h x2, tc_v x2 = v -> tc_t x2 = set_latest v (tc_t x) ->
    let x' := (let t1 := tc_t x2 in
        let ppr := mk_ref T_PREPREPARE c (t_h t1) v h in
        let nv := MNV T_NEW_VIEW (c_inst c) (t_h t1) v (map fst vs) (my_sig c) ppr (my_sig c) (Some b) in
        let t2 := store_pp v {| pe_ref := ppr; pe_snd := my_sig c; pe_blk := Some b |} t1 in
        let x3 := if has_pp t1 v then x2 else tc_emit (OStore T_PREPREPARE (t_h t1) v h (c_me c)) x2 in
        send_all c nv (tc_set_t t2 x3)) in
    tc_v x' = v /\ t_latest (tc_t x') = v /\ t_h (tc_t x') = t_h (tc_t x) /\ t_cm (tc_t x') = t_cm (tc_t x) /\
    is_preprepared (tc_t x') v h = Some {| pe_ref := mk_ref T_PREPREPARE c (t_h (tc_t x)) v h; pe_snd := my_sig c; pe_blk := Some b |} /\
    In (OSend (others c (t_cm (tc_t x))) (nv_of x v vs h b)) (tc_out x')).
  { intros b h x2 V2 T2. cbn zeta. rewrite T2. cbn [set_latest t_h t_cm].
    assert (Hp : has_pp (set_latest v (tc_t x)) v = false) by (unfold has_pp, get_pp in *; cbn [set_latest t_pp]; rewrite Hnone; reflexivity).
    rewrite Hp. unfold send_all. cbn [tc_emit tc_set_t tc_v tc_t tc_out].
    assert (Hg : get_pp (set_latest v (tc_t x)) v = None) by (unfold get_pp in *; cbn [set_latest t_pp]; exact Hnone).
    set (en := {| pe_ref := mk_ref T_PREPREPARE c (t_h (tc_t x)) v h; pe_snd := my_sig c; pe_blk := Some b |}).
    assert (S : t_latest (store_pp v en (set_latest v (tc_t x))) = v /\ t_h (store_pp v en (set_latest v (tc_t x))) = t_h (tc_t x) /\
                t_cm (store_pp v en (set_latest v (tc_t x))) = t_cm (tc_t x)) by (unfold store_pp; rewrite Hg; repeat split; reflexivity).
    destruct S as (S1 & S2 & S3).
    repeat split; auto.
    - unfold is_preprepared. rewrite get_pp_store_pp, Hg, N.eqb_refl. subst en. cbn [pe_blk pe_ref mk_ref r_hash]. rewrite N.eqb_refl. reflexivity.
    - left. rewrite S3. reflexivity. }
  destruct (latest_block vs) as [[b h]|] eqn:Elb.
  - destruct (G b h x1 V1 T1) as (A1 & A2 & A3 & A4 & A5 & A6). repeat split; auto. exists h, b. split; [assumption|]. split; [assumption|]. discriminate.
  - rewrite V1, T1. cbn [set_latest t_h]. rewrite (Hctx eq_refl). cbn [negb].
    set (b := {| b_height := t_h (tc_t x); b_id := fresh_id (c_me c) (tc_fresh x1); b_bad := [] |}).
    destruct (G b (b_id b) (tc_bump x1)) as (A1 & A2 & A3 & A4 & A5 & A6); [exact V1|exact T1|].
    repeat split; auto. exists (b_id b), b. split; [assumption|]. split; [assumption|]. intros _. subst b. cbn [b_bad b_height b_id]. auto.
Qed.

Lemma latest_block_none (vs : list (vote * option block)) : (forall vt, In vt (map fst vs) -> v_proof vt = None) -> latest_block vs = None.
Proof.
  intro Hn. unfold latest_block. assert (E : latest_block_aux vs = None).
  { induction vs as [|[vt ob] r IH]; cbn [latest_block_aux]; [reflexivity|].
    rewrite (Hn vt (or_introl eq_refl)). destruct ob; apply IH; intros vt' Hvt'; apply Hn; right; exact Hvt'. }
  rewrite E. reflexivity.
Qed.
End Elect.

Section Elect2.
Variable c : ncfg.
Variable wm : option hv.
Variable shut : bool.

(* HandleViewChange at the leader of the vote's view, for a vote that passes the validator and whose block matches its
   proof: the vote is stored and checkElected runs on the result *)
Definition after_store (x : tc) (vt : vote) (b : option block) : tc :=
  tc_set_t (store_vc (v_view vt) vt b (tc_t x))
    (if has_vc (tc_t x) (v_view vt) (s_id (v_snd vt)) then x
     else tc_emit (OStore T_VIEW_CHANGE (t_h (tc_t x)) (v_view vt) 0 (s_id (v_snd vt))) x).

Lemma handle_vc_shape x vt b : leaderOf (t_cm (tc_t x)) (v_view vt) = c_me c -> tc_v x <= v_view vt ->
  vote_spec c (t_cm (tc_t x)) (t_h (tc_t x)) (v_view vt) vt ->
  match b, v_proof vt with
  | None, None => True
  | Some _, Some p => commitsTo (v_height vt) b (r_hash (pf_ppref p)) = true
  | _, _ => False
  end ->
  handle_vc c wm shut x vt b = check_elected c wm shut (after_store x vt b) (v_view vt).
Proof.
  intros Hl Hv VS Hb. unfold handle_vc. rewrite Hl, N.eqb_refl. cbn [negb].
  destruct (N.ltb_spec (v_view vt) (tc_v x)); [lia|]. rewrite (vote_spec_valid _ _ _ _ VS). cbn [negb].
  unfold after_store. destruct b as [bb|], (v_proof vt) as [p|]; try contradiction; [rewrite Hb|]; reflexivity.
Qed.

Lemma after_store_facts x vt b :
  tc_v (after_store x vt b) = tc_v x /\ t_h (tc_t (after_store x vt b)) = t_h (tc_t x) /\ t_cm (tc_t (after_store x vt b)) = t_cm (tc_t x) /\
  t_pp (tc_t (after_store x vt b)) = t_pp (tc_t x) /\ t_latest (tc_t (after_store x vt b)) = t_latest (tc_t x) /\
  incl (tc_out x) (tc_out (after_store x vt b)) /\
  (forall o, In o (tc_out (after_store x vt b)) -> is_mnv o = true -> In o (tc_out x)) /\
  incl (s_id (v_snd vt) :: voters (tc_t x) (v_view vt)) (voters (tc_t (after_store x vt b)) (v_view vt)).
Proof.
  unfold after_store. destruct (store_vc_hc (v_view vt) vt b (tc_t x)) as [A B].
  destruct (store_vc_other (tc_t x) (v_view vt) vt b) as (P & L & _ & _).
  destruct (has_vc _ _ _); cbn [tc_set_t tc_t tc_v tc_emit tc_out]; repeat split; auto; try apply incl_refl; try apply voters_store_vc_incl.
  - apply incl_tl, incl_refl.
  - intros o [<-|Hi] Ho; [discriminate Ho|exact Hi].
Qed.

(* the two outcomes of checkElected for a leader that has not processed view v yet and has at least one vote for it *)
Lemma check_elected_cases x v : t_latest (tc_t x) < v -> voters (tc_t x) v <> [] ->
  (isQ_ids (t_cm (tc_t x)) (voters (tc_t x) v) = false /\ check_elected c wm shut x v = x) \/
  (isQ_ids (t_cm (tc_t x)) (voters (tc_t x) v) = true /\ check_elected c wm shut x v = on_elected c wm shut x v (votes_of (tc_t x) v)).
Proof.
  intros Hl Hne. unfold check_elected. destruct (N.leb_spec v (t_latest (tc_t x))); [lia|].
  unfold voters in *. destruct (votes_of (tc_t x) v) as [|e0 r0] eqn:Ev; [cbn in Hne; congruence|]. rewrite <- Ev in *.
  destruct (isQ_ids _ _); [right|left]; split; reflexivity.
Qed.
End Elect2.

Section Elect3.
Variable c : ncfg.
Variable wm : option hv.
Variable shut : bool.

Lemma In_mvc_views l to vt b : In (OSend to (MVC vt b)) l -> In (v_view vt) (mvc_views l).
Proof.
  intro Hi. unfold mvc_views, sent_of. apply in_flat_map. exists (MVC vt b). split; [|left; reflexivity].
  apply in_flat_map. exists (OSend to (MVC vt b)). split; [exact Hi|left; reflexivity].
Qed.

Lemma In_props l to ty i h v vs sg pp pps b : In (OSend to (MNV ty i h v vs sg pp pps b)) l -> In (r_view pp) (map fst (props l)).
Proof.
  intro Hi. apply in_map_iff. exists (r_view pp, r_hash pp). split; [reflexivity|]. unfold props, sent_of. apply in_flat_map.
  exists (MNV ty i h v vs sg pp pps b). split; [|left; reflexivity].
  apply in_flat_map. exists (OSend to (MNV ty i h v vs sg pp pps b)). split; [exact Hi|left; reflexivity].
Qed.

Definition vote_res (x : tc) :=
  match t_prepared (tc_t x) with Some pv => extract_proof c (tc_t x) pv | None => (None, false) end.
Definition own_vote (x : tc) : vote :=
  {| v_type := T_VIEW_CHANGE; v_inst := c_inst c; v_height := t_h (tc_t x); v_view := tc_v x + 1;
     v_proof := match fst (vote_res x) with Some (p, _) => Some p | None => None end; v_snd := my_sig c |}.
Definition own_vote_block (x : tc) : option block := match fst (vote_res x) with Some (_, ob) => ob | None => None end.

Lemma vote_res_nopanic x : SInv c x -> tc_v x + 1 < W64 -> snd (vote_res x) = false.
Proof.
  intros I Hs. unfold vote_res. destruct (t_prepared (tc_t x)) as [pv|] eqn:Ep; [|reflexivity].
  assert (Hpv : pv < tc_v x + 1).
  { destruct (si_prep _ _ I pv Ep) as (e & b & G1 & _). destruct (si_pp _ _ I pv e G1) as [_ L]. lia. }
  destruct (extract_proof_spec c x pv (tc_v x + 1) I Ep Hpv) as (p & b & E & _). rewrite E. reflexivity.
Qed.

(* the timer of view u fires at a member that does not lead u+1: it enters u+1 and sends its vote to that view's leader *)
Lemma timeout_follower x : SInv c x -> TInv c x -> tc_v x + 1 < W64 -> leaderOf (t_cm (tc_t x)) (tc_v x + 1) <> c_me c ->
  let x' := move_to_next_leader c wm shut x (t_h (tc_t x)) (tc_v x) in
  tc_v x' = tc_v x + 1 /\ tc_t x' = tc_t x /\
  tc_out x' = OSend [leaderOf (t_cm (tc_t x)) (tc_v x + 1)] (MVC (own_vote x) (own_vote_block x)) :: OArm (t_h (tc_t x)) (tc_v x + 1) :: tc_out x /\
  ~ In (OSend [leaderOf (t_cm (tc_t x)) (tc_v x + 1)] (MVC (own_vote x) (own_vote_block x))) (tc_out x).
Proof.
  intros I TI Hs Hl. cbn zeta. unfold move_to_next_leader. rewrite !N.eqb_refl. cbn [andb negb].
  rewrite (wrap64_small _ Hs). unfold init_view. destruct (N.ltb_spec (tc_v x + 1) (tc_v x)); [lia|].
  fold (vote_res x). rewrite (vote_res_nopanic x I Hs). cbn [tc_v tc_emit tc_set_v tc_t].
  destruct (N.eqb_spec (leaderOf (t_cm (tc_t x)) (tc_v x + 1)) (c_me c)); [contradiction|].
  cbn [tc_emit tc_set_v tc_v tc_t tc_out]. repeat split; auto.
  intro Hi. apply In_mvc_views in Hi. cbn [own_vote v_view] in Hi.
  pose proof (ti_vc_le _ _ TI) as F. rewrite Forall_forall in F. specialize (F _ Hi). cbn beta in F. lia.
Qed.

(* ... and at the member that leads u+1: it enters u+1, stores its own vote and runs checkElected *)
Definition after_own_vote (x : tc) : tc :=
  let x1 := tc_emit (OArm (t_h (tc_t x)) (tc_v x + 1)) (tc_set_v (tc_v x + 1) x) in
  tc_set_t (store_vc (tc_v x + 1) (own_vote x) (own_vote_block x) (tc_t x))
    (if has_vc (tc_t x) (tc_v x + 1) (c_me c) then x1 else tc_emit (OStore T_VIEW_CHANGE (t_h (tc_t x)) (tc_v x + 1) 0 (c_me c)) x1).

Lemma timeout_leader x : SInv c x -> tc_v x + 1 < W64 -> leaderOf (t_cm (tc_t x)) (tc_v x + 1) = c_me c ->
  move_to_next_leader c wm shut x (t_h (tc_t x)) (tc_v x) = check_elected c wm shut (after_own_vote x) (tc_v x + 1).
Proof.
  intros I Hs Hl. unfold move_to_next_leader. rewrite !N.eqb_refl. cbn [andb negb].
  rewrite (wrap64_small _ Hs). unfold init_view. destruct (N.ltb_spec (tc_v x + 1) (tc_v x)); [lia|].
  fold (vote_res x). rewrite (vote_res_nopanic x I Hs). cbn [tc_v tc_emit tc_set_v tc_t].
  rewrite Hl, N.eqb_refl. reflexivity.
Qed.

Lemma after_own_vote_facts x :
  tc_v (after_own_vote x) = tc_v x + 1 /\ t_h (tc_t (after_own_vote x)) = t_h (tc_t x) /\ t_cm (tc_t (after_own_vote x)) = t_cm (tc_t x) /\
  t_pp (tc_t (after_own_vote x)) = t_pp (tc_t x) /\ t_latest (tc_t (after_own_vote x)) = t_latest (tc_t x) /\
  incl (tc_out x) (tc_out (after_own_vote x)) /\
  (forall o, In o (tc_out (after_own_vote x)) -> is_mnv o = true -> In o (tc_out x)) /\
  incl (c_me c :: voters (tc_t x) (tc_v x + 1)) (voters (tc_t (after_own_vote x)) (tc_v x + 1)).
Proof.
  unfold after_own_vote. cbn zeta. destruct (store_vc_hc (tc_v x + 1) (own_vote x) (own_vote_block x) (tc_t x)) as [A B].
  destruct (store_vc_other (tc_t x) (tc_v x + 1) (own_vote x) (own_vote_block x)) as (P & L & _ & _).
  pose proof (voters_store_vc_incl (tc_t x) (tc_v x + 1) (own_vote x) (own_vote_block x)) as V. cbn [own_vote v_snd my_sig s_id] in V.
  destruct (has_vc _ _ _); cbn [tc_set_t tc_t tc_v tc_emit tc_set_v tc_out]; repeat split; auto.
  - apply incl_tl, incl_refl.
  - intros o [<-|Hi] Ho; [discriminate Ho|exact Hi].
  - apply incl_tl, incl_tl, incl_refl.
  - intros o [<-|[<-|Hi]] Ho; [discriminate Ho|discriminate Ho|exact Hi].
Qed.

(* the node's own vote is a vote the validators accept *)
Lemma own_vote_good x : SInv c x -> tc_v x + 1 < W64 -> vc_good c (tc_t x) (tc_v x + 1) (own_vote x) (own_vote_block x).
Proof.
  intros I Hs. unfold vc_good, own_vote, own_vote_block, vote_res. cbn [v_view v_height v_proof v_snd].
  split; [reflexivity|]. split; [reflexivity|].
  destruct (t_prepared (tc_t x)) as [pv|] eqn:Ep.
  - assert (Hpv : pv < tc_v x + 1).
    { destruct (si_prep _ _ I pv Ep) as (e & b & G1 & _). destruct (si_pp _ _ I pv e G1) as [_ L]. lia. }
    destruct (extract_proof_spec c x pv (tc_v x + 1) I Ep Hpv) as (p & b & E & PS & Pv & Cm). rewrite E. cbn [fst snd].
    split; [|exact Cm]. constructor; cbn [v_type v_inst v_snd my_sig s_id s_ok v_proof]; auto.
    + apply (si_me _ _ I).
    + intros p' Ep'. inversion Ep'; subst. exact PS.
  - cbn [fst snd]. split; [|exact Logic.I]. constructor; cbn [v_type v_inst v_snd my_sig s_id s_ok v_proof]; auto.
    + apply (si_me _ _ I).
    + intros p' Ep'. discriminate.
Qed.

Lemma after_own_vote_sinv x : SInv c x -> tc_v x + 1 < W64 -> SInv c (after_own_vote x).
Proof.
  intros I Hs. unfold after_own_vote. cbn zeta.
  set (x1 := tc_emit (OArm _ _) (tc_set_v (tc_v x + 1) x)).
  assert (I1 : SInv c x1) by (apply SInv_emit, SInv_set_v; [lia|exact I]).
  set (x2 := if has_vc _ _ _ then x1 else _).
  assert (I2 : SInv c x2 /\ tc_t x2 = tc_t x) by (subst x2; destruct (has_vc _ _ _); [auto|split; [apply SInv_emit; exact I1|reflexivity]]).
  destruct I2 as [I2 E2]. rewrite <- E2. apply SInv_store_vc; [exact I2|]. rewrite E2. apply own_vote_good; assumption.
Qed.

Lemma after_store_sinv x vt b : SInv c x -> vc_good c (tc_t x) (v_view vt) vt b -> SInv c (after_store x vt b).
Proof.
  intros I G. unfold after_store.
  set (x2 := if has_vc _ _ _ then x else _).
  assert (I2 : SInv c x2 /\ tc_t x2 = tc_t x) by (subst x2; destruct (has_vc _ _ _); [auto|split; [apply SInv_emit; exact I|reflexivity]]).
  destruct I2 as [I2 E2]. rewrite <- E2. apply SInv_store_vc; [exact I2|]. rewrite E2. exact G.
Qed.
End Elect3.
