(* Timeout.v — model of TimerBasedElectionTrigger.CalcTimeout, as repaired (saturating shift)
   and as originally coded (int64(math.Pow(2, float64(view))) * base with wrap-around). *)
From LH Require Import Prims.
Open Scope Z_scope.

Definition MAXD : Z := 9223372036854775807.   (* time.Duration(math.MaxInt64) *)

(* if base <= 0 return base; if view >= 63 || base > MaxInt64>>view return MaxInt64; return base<<view *)
Definition calcTimeout (base : Z) (v : N) : Z :=
  if base <=? 0 then base
  else if N.leb 63 v then MAXD          (* evaluated first: the shift below is never run for a huge view *)
  else if Z.shiftr MAXD (Z.of_N v) <? base then MAXD
  else Z.shiftl base (Z.of_N v).

(* the specification: min(base * 2^v, MaxInt64) *)
Definition specTimeout (base : Z) (v : N) : Z := Z.min (base * 2 ^ Z.of_N v) MAXD.

(* v0: time.Duration(int64(math.Pow(2, float64(view)))) * minTimeout
   amd64: float -> int64 conversion of a value >= 2^63 (or +Inf) yields math.MinInt64;
   the Duration product wraps modulo 2^64 (two's complement). *)
Definition sint64 (x : Z) : Z := (x + 2^63) mod 2^64 - 2^63.
Definition pow_i64_v0 (v : N) : Z := if N.ltb v 63 then 2 ^ Z.of_N v else - 2^63.
Definition calcTimeout_v0 (base : Z) (v : N) : Z := sint64 (pow_i64_v0 v * base).

Lemma shiftr_MAXD_le v base : 0 <= v -> (base <= Z.shiftr MAXD v <-> base * 2 ^ v <= MAXD).
Proof.
  intro Hv. rewrite Z.shiftr_div_pow2 by exact Hv.
  assert (0 < 2 ^ v) by (apply Z.pow_pos_nonneg; lia).
  split; intro H1.
  - pose proof (Z.mul_div_le MAXD (2 ^ v) ltac:(lia)). nia.
  - apply Z.div_le_lower_bound; lia.
Qed.

Theorem calcTimeout_is_spec base v : 0 < base -> base <= MAXD -> calcTimeout base v = specTimeout base v.
Proof.
  intros Hb Hm. unfold calcTimeout, specTimeout.
  destruct (Z.leb_spec base 0) as [|_]; [lia|].
  destruct (N.leb_spec 63 v) as [Hv|Hv].
  - assert (2 ^ 63 <= 2 ^ Z.of_N v) by (apply Z.pow_le_mono_r; lia).
    assert (MAXD < 2 ^ 63) by reflexivity. rewrite Z.min_r; [reflexivity|nia].
  - destruct (Z.ltb_spec (Z.shiftr MAXD (Z.of_N v)) base) as [Hs|Hs].
    + rewrite Z.min_r; [reflexivity|].
      destruct (Z.le_gt_cases (base * 2 ^ Z.of_N v) MAXD) as [Hc|Hc]; [|lia].
      apply shiftr_MAXD_le in Hc; lia.
    + rewrite Z.shiftl_mul_pow2 by lia. apply shiftr_MAXD_le in Hs; [|lia]. rewrite Z.min_l; lia.
Qed.

Theorem specTimeout_positive base v : 0 < base -> 0 < specTimeout base v.
Proof.
  intro Hb. unfold specTimeout. assert (0 < 2 ^ Z.of_N v) by (apply Z.pow_pos_nonneg; lia).
  apply Z.min_glb_lt; [nia|reflexivity].
Qed.

Theorem specTimeout_monotone base v v' : 0 < base -> (v <= v')%N -> specTimeout base v <= specTimeout base v'.
Proof.
  intros Hb Hv. unfold specTimeout.
  assert (2 ^ Z.of_N v <= 2 ^ Z.of_N v') by (apply Z.pow_le_mono_r; lia).
  apply Z.min_le_compat_r. nia.
Qed.

Theorem specTimeout_doubles base v : 0 < base -> specTimeout base (v + 1) < MAXD ->
  specTimeout base (v + 1) = 2 * specTimeout base v.
Proof.
  intros Hb Hs. unfold specTimeout in *.
  replace (Z.of_N (v + 1)) with (Z.of_N v + 1) in * by lia.
  rewrite Z.pow_add_r in * by lia. change (2 ^ 1) with 2 in *.
  assert (0 < 2 ^ Z.of_N v) by (apply Z.pow_pos_nonneg; lia). lia.
Qed.

Theorem calcTimeout_props base v v' : 0 < base -> base <= MAXD -> (v <= v')%N ->
  0 < calcTimeout base v /\ calcTimeout base v <= calcTimeout base v' /\ calcTimeout base v <= MAXD
  /\ calcTimeout base 0 = base.
Proof.
  intros Hb Hm Hv. rewrite !calcTimeout_is_spec by assumption.
  split; [apply specTimeout_positive; assumption|].
  split; [apply specTimeout_monotone; assumption|].
  split; [apply Z.le_min_r|]. unfold specTimeout. cbn. lia.
Qed.

Theorem calcTimeout_v0_refuted :
  exists base v, 0 < base /\ calcTimeout_v0 base v < 0 /\ exists v', calcTimeout_v0 base v' = 0.
Proof. exists 4000000000, 32%N. split; [reflexivity|]. split; [reflexivity|]. exists 62%N. reflexivity. Qed.

Example timeout_nonvacuous : calcTimeout 4000000000 3 = 32000000000 /\ calcTimeout 4000000000 32 = MAXD /\ calcTimeout 1 62 = 2^62 /\ calcTimeout 1 63 = MAXD.
Proof. repeat split; reflexivity. Qed.
