(* Corr.v — correspondence checkers: compare the model's executable definitions with behaviour
   observed on the implementation (cases written by /verif/harness). Evaluated with vm_compute. *)
From LH Require Import Prims Quorum Leader Timeout.
Open Scope N_scope.

Fixpoint mismatches {A} (ok : A -> bool) (start : N) (l : list A) : list N :=
  match l with
  | [] => []
  | x :: r => if ok x then mismatches ok (start + 1) r else start :: mismatches ok (start + 1) r
  end.

Definition eqb_triple (a b : bool * N * N) : bool :=
  Bool.eqb (fst (fst a)) (fst (fst b)) && N.eqb (snd (fst a)) (snd (fst b)) && N.eqb (snd a) (snd b).

(* quorum: committee, subset ids, observed (IsQuorum triple, HasHonest triple, CalcQuorumWeight, CalcByzMaxWeight) *)
Definition qcase := (committee * list N * ((bool * N * N) * (bool * N * N) * N * N))%type.
Definition q_ok (c : qcase) : bool :=
  let '(cm, sub, (oq, oh, q, b)) := c in
  eqb_triple (isQuorum sub cm) oq && eqb_triple (hasHonest sub cm) oh
  && N.eqb (calcQuorumWeight (weights cm)) q && N.eqb (calcByzMaxWeight (weights cm)) b.

(* leader: committee size, view, observed index (None = panic) *)
Definition lcase := (N * N * option N)%type.
Definition eqb_optN (a b : option N) : bool :=
  match a, b with None, None => true | Some x, Some y => N.eqb x y | _, _ => false end.
Definition l_ok (c : lcase) : bool :=
  let '(n, v, o) := c in
  eqb_optN (match leaderIndex (N.to_nat n) v with None => None | Some i => Some (N.of_nat i) end) o.

(* timeout: base (ns), view, observed duration (ns) *)
Definition tcase := (Z * N * Z)%type.
Definition t_ok (c : tcase) : bool := let '(b, v, o) := c in Z.eqb (calcTimeout b v) o.
