(* Corr.v — correspondence checkers: compare the model's executable definitions with behaviour
   observed on the implementation (cases written by /verif/harness). Evaluated with vm_compute. *)
From LH Require Import Prims Quorum Leader Timeout.
Open Scope N_scope.

Fixpoint mismatches {A} (ok : A -> bool) (start : N) (l : list A) : list N :=
  match l with
  | [] => []
  | x :: r => if ok x then mismatches ok (start + 1) r else start :: mismatches ok (start + 1) r
  end.

Definition eqb_triple (a b : bool * N * N) : bool :=
  Bool.eqb (fst (fst a)) (fst (fst b)) && N.eqb (snd (fst a)) (snd (fst b)) && N.eqb (snd a) (snd b).

(* quorum: committee, subset ids, observed (IsQuorum triple, HasHonest triple, CalcQuorumWeight, CalcByzMaxWeight) *)
Definition qcase := (committee * list N * ((bool * N * N) * (bool * N * N) * N * N))%type.
Definition q_ok (c : qcase) : bool :=
  let '(cm, sub, (oq, oh, q, b)) := c in
  eqb_triple (isQuorum sub cm) oq && eqb_triple (hasHonest sub cm) oh
  && N.eqb (calcQuorumWeight (weights cm)) q && N.eqb (calcByzMaxWeight (weights cm)) b.

(* leader: committee size, view, observed index (None = panic) *)
Definition lcase := (N * N * option N)%type.
Definition eqb_optN (a b : option N) : bool :=
  match a, b with None, None => true | Some x, Some y => N.eqb x y | _, _ => false end.
Definition l_ok (c : lcase) : bool :=
  let '(n, v, o) := c in
  eqb_optN (match leaderIndex (N.to_nat n) v with None => None | Some i => Some (N.of_nat i) end) o.

(* timeout: base (ns), view, observed duration (ns) *)
Definition tcase := (Z * N * Z)%type.
Definition t_ok (c : tcase) : bool := let '(b, v, o) := c in Z.eqb (calcTimeout b v) o.

(* ---- registry / state (Contexts.v) ---- *)
From LH Require Import Contexts.

Fixpoint list_eqb {A} (eq : A -> A -> bool) (a b : list A) : bool :=
  match a, b with [] , [] => true | x :: r, y :: s => eq x y && list_eqb eq r s | _, _ => false end.

(* observation after each op: did For succeed (true for other ops); done flag of every context issued so far, in issue order *)
Fixpoint reg_trace (r : registry) (ops : list rop) : list (bool * list bool) :=
  match ops with
  | [] => []
  | o :: rest =>
      let ok := match o with RFor k => fst (reg_for k r) | _ => true end in
      let r' := reg_step r o in
      (ok, map (ctx_done r') (rev (issued r'))) :: reg_trace r' rest
  end.
Definition rcase := (list rop * list (bool * list bool))%type.
Definition r_ok (c : rcase) : bool :=
  list_eqb (fun a b => Bool.eqb (fst a) (fst b) && list_eqb Bool.eqb (snd a) (snd b)) (reg_trace reg_init (fst c)) (snd c).

(* State: observation after each op: (ok, height, view) *)
Fixpoint st_trace (s : hvstate) (ops : list sop) : list (bool * N * N) :=
  match ops with
  | [] => []
  | o :: rest =>
      let res := match o with SSetHeight h => st_set_height h s | SSetView v => st_set_view v s end in
      (fst res, st_h (snd res), st_v (snd res)) :: st_trace (snd res) rest
  end.
Definition scase := (list sop * list (bool * N * N))%type.
Definition s_ok (c : scase) : bool := list_eqb eqb_triple (st_trace st_init (fst c)) (snd c).

(* ---- filter (Filter.v) ---- *)
From LH Require Import Filter.
(* case: me, inst, ops, observed deliveries in order (handler term, tag) *)
Definition fcase := (N * N * list fop * list (N * N))%type.
Definition f_ok (c : fcase) : bool :=
  let '(me, inst, ops, obs) := c in
  let s := frun me inst ops in
  negb (f_oof s) &&
  list_eqb (fun a b => N.eqb (fst a) (fst b) && N.eqb (snd a) (snd b))
           (map (fun d => (fst d, m_tag (snd d))) (rev (f_out s))) obs.
Definition FM (h i s t : N) (tr : bool) : fmsg := {| m_height := h; m_inst := i; m_sender := s; m_tag := t; m_trigger := tr |}.

(* ---- node traces (Term.v) ---- *)
From LH Require Import Msg Term.
Definition SG i o := {| s_id := i; s_ok := o |}.
Definition RF t i h v x := {| r_type := t; r_inst := i; r_height := h; r_view := v; r_hash := x |}.
Definition PF a b c d := {| pf_ppref := a; pf_ppsnd := b; pf_pref := c; pf_psnds := d |}.
Definition VT t i h v p s := {| v_type := t; v_inst := i; v_height := h; v_view := v; v_proof := p; v_snd := s |}.
Definition BK h i bad := {| b_height := h; b_id := i; b_bad := bad |}.
Definition CFG me inst base rot excl fc := {| c_me := me; c_inst := inst; c_base := base; c_rot := rot; c_excl := excl; c_failcommit := fc |}.

Definition out_eqb (a b : out) : bool :=
  match a, b with
  | OSend t m, OSend t' m' => Msg.list_eqb N.eqb t t' && msg_eqb (canon_msg m) m'
  | OCommit k r s o, OCommit k' r' s' o' => block_eqb k k' && bref_eqb r r' && Msg.list_eqb ssig_eqb s s' && Bool.eqb o o'
  | ONewRound h p l, ONewRound h' p' l' => N.eqb h h' && opt_eqb block_eqb p p' && Bool.eqb l l'
  | OArm h v, OArm h' v' => N.eqb h h' && N.eqb v v'
  | OStop, OStop => true
  | OStore k h v x i, OStore k' h' v' x' i' => N.eqb k k' && N.eqb h h' && N.eqb v v' && N.eqb x x' && N.eqb i i'
  | OPanic, OPanic => true
  | _, _ => false
  end.

(* observable state: height, view, handler installed, and for a node in committee: prepared view, latest, committed *)
Definition sobs := (N * N * bool * option (option N * N * bool))%type.
Definition node_obs (n : node) : sobs :=
  (n_h n, n_v n, n_hasterm n, match n_term n with Some t => Some (t_prepared t, t_latest t, t_committed t) | None => None end).
Definition sobs_eqb (a b : sobs) : bool :=
  let '(h, v, ht, t) := a in let '(h', v', ht', t') := b in
  N.eqb h h' && N.eqb v v' && Bool.eqb ht ht' &&
  opt_eqb (fun x y => opt_eqb N.eqb (fst (fst x)) (fst (fst y)) && N.eqb (snd (fst x)) (snd (fst y)) && Bool.eqb (snd x) (snd y)) t t'.

Definition tstep := (event * list out * sobs)%type.
Fixpoint run_trace (c : ncfg) (n : node) (evs : list tstep) : bool :=
  match evs with
  | [] => true
  | (e, outs, so) :: r =>
      let n' := step c (clear_out n) e in
      if negb (n_oof n') && Msg.list_eqb out_eqb (rev (n_out n')) outs && sobs_eqb (node_obs n') so then run_trace c n' r else false
  end.
Definition ncase := (ncfg * list tstep)%type.
Definition n_ok (cs : ncase) : bool := run_trace (fst cs) node_init (snd cs).

(* debugging aid: index of the first diverging event with the model's outputs and state there *)
Fixpoint diagnose (c : ncfg) (n : node) (i : N) (evs : list tstep) : option (N * list out * sobs * bool) :=
  match evs with
  | [] => None
  | (e, outs, so) :: r =>
      let n' := step c (clear_out n) e in
      if negb (n_oof n') && Msg.list_eqb out_eqb (rev (n_out n')) outs && sobs_eqb (node_obs n') so then diagnose c n' (i + 1) r
      else Some (i, map (fun o => match o with OSend t m => OSend t (canon_msg m) | _ => o end) (rev (n_out n')), node_obs n', n_oof n')
  end.

(* ---- wire (Wire.v, WireLH.v) ---- *)
From LH Require Import Wire WireLH.
Definition bytes_eqb (a b : bytes) : bool := Msg.list_eqb N.eqb a b.
Definition wsig_eqb (a b : wsig) : bool := bytes_eqb (ws_id a) (ws_id b) && bytes_eqb (ws_sig a) (ws_sig b).
Definition wref_eqb (a b : wref) : bool :=
  N.eqb (wr_inst a) (wr_inst b) && N.eqb (wr_type a) (wr_type b) && N.eqb (wr_height a) (wr_height b)
  && N.eqb (wr_view a) (wr_view b) && bytes_eqb (wr_hash a) (wr_hash b).
Definition wproof_eqb (a b : wproof) : bool :=
  wref_eqb (wp_ppref a) (wp_ppref b) && wsig_eqb (wp_ppsnd a) (wp_ppsnd b) && wref_eqb (wp_pref a) (wp_pref b)
  && Msg.list_eqb wsig_eqb (wp_psnds a) (wp_psnds b).
Definition wvote_eqb (a b : wvote) : bool :=
  N.eqb (wv_inst a) (wv_inst b) && N.eqb (wv_type a) (wv_type b) && N.eqb (wv_height a) (wv_height b)
  && N.eqb (wv_view a) (wv_view b) && opt_eqb wproof_eqb (wv_proof a) (wv_proof b) && wsig_eqb (wv_snd a) (wv_snd b).
Definition wmsg_eqb (a b : wmsg) : bool :=
  match a, b with
  | WPP r s, WPP r' s' => wref_eqb r r' && wsig_eqb s s'
  | WP r s, WP r' s' => wref_eqb r r' && wsig_eqb s s'
  | WC r s h, WC r' s' h' => wref_eqb r r' && wsig_eqb s s' && bytes_eqb h h'
  | WVC v, WVC v' => wvote_eqb v v'
  | WNV i t h v vs s pp pps, WNV i' t' h' v' vs' s' pp' pps' =>
      N.eqb i i' && N.eqb t t' && N.eqb h h' && N.eqb v v' && Msg.list_eqb wvote_eqb vs vs' && wsig_eqb s s'
      && wref_eqb pp pp' && wsig_eqb pps pps'
  | _, _ => false
  end.
Definition WS i s := {| ws_id := i; ws_sig := s |}.
Definition WR i t h v x := {| wr_inst := i; wr_type := t; wr_height := h; wr_view := v; wr_hash := x |}.
Definition WPF a b c d := {| wp_ppref := a; wp_ppsnd := b; wp_pref := c; wp_psnds := d |}.
Definition WV i t h v p s := {| wv_inst := i; wv_type := t; wv_height := h; wv_view := v; wv_proof := p; wv_snd := s |}.
Definition WBP r n s := {| bp_ref := r; bp_nodes := n; bp_seed := s |}.

(* built message: the factory's bytes must equal the model's encoding byte for byte, and the model's reader must
   return what the Go readers returned on those bytes *)
Definition wcase := (wmsg * bytes * option wmsg)%type.
Definition w_ok (c : wcase) : bool :=
  let '(m, bs, godec) := c in bytes_eqb (enc_msg m) bs && opt_eqb wmsg_eqb (dec_msg bs) godec.
(* arbitrary bytes (mutated / truncated): only the readers are compared *)
Definition wdcase := (bytes * option wmsg)%type.
Definition wd_ok (c : wdcase) : bool := opt_eqb wmsg_eqb (dec_msg (fst c)) (snd c).
(* block proofs *)
Definition wbcase := (wblockproof * bytes * wblockproof)%type.
Definition wb_ok (c : wbcase) : bool :=
  let '(p, bs, godec) := c in
  bytes_eqb (enc_blockproof p) bs &&
  let d := dec_blockproof bs in wref_eqb (bp_ref d) (bp_ref godec) && Msg.list_eqb wsig_eqb (bp_nodes d) (bp_nodes godec) && bytes_eqb (bp_seed d) (bp_seed godec).

(* ---- ValidateBlockConsensus (VBC.v) ---- *)
From LH Require Import VBC.
Definition AP r n se so := {| ap_ref := r; ap_nodes := n; ap_seed_nonempty := se; ap_seed_ok := so |}.
Definition VC i cm := {| vc_inst := i; vc_committee := cm |}.
Definition vcase := (vbc_cfg * bool * option block * bool * option aproof * bool * bool * option (list N))%type.
Definition v_ok (c : vcase) : bool :=
  let '(cfg, cc, blk, pe, pr, soft, obs, ids) := c in
  Bool.eqb (vbc cfg cc blk pe pr soft) obs &&
  (* member ids are compared when the proof bytes are readable as a whole; on unreadable bytes the real function
     returns whatever its node iterator yields or an error (it must not panic: a harness monitor checks that) *)
  match pr with Some _ => opt_eqb (Msg.list_eqb N.eqb) (member_ids pe pr) ids | None => true end.

(* ---- election trigger as its user sees it (Timer.v): public ops, triggers read from the channel in order ---- *)
From LH Require Import Timer.
Definition tgcase := (list pop * list (N * N) * N)%type.   (* ops, pairs read from the channel, goroutines of the trigger left at the end *)
Definition tg_ok (c : tgcase) : bool :=
  let '(ops, got, parked) := c in
  list_eqb (fun a b => N.eqb (fst a) (fst b) && N.eqb (snd a) (snd b)) (tm_public_run ops) got
  && N.eqb (N.of_nat (tm_public_parked ops)) parked.

(* ---- prepared-proof validator on its own (engine `proofs`): committee, height, target view, proof, observed verdict ---- *)
Definition pvcase := (committee * N * N * option pproof * bool)%type.
Definition pv_ok (c : pvcase) : bool :=
  let '(cm, h, target, p, o) := c in Bool.eqb (validate_proof cm h target p) o.
