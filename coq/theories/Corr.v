(* Corr.v — correspondence checkers: compare the model's executable definitions with behaviour
   observed on the implementation (cases written by /verif/harness). Evaluated with vm_compute. *)
From LH Require Import Prims Quorum Leader Timeout.
Open Scope N_scope.

Fixpoint mismatches {A} (ok : A -> bool) (start : N) (l : list A) : list N :=
  match l with
  | [] => []
  | x :: r => if ok x then mismatches ok (start + 1) r else start :: mismatches ok (start + 1) r
  end.

Definition eqb_triple (a b : bool * N * N) : bool :=
  Bool.eqb (fst (fst a)) (fst (fst b)) && N.eqb (snd (fst a)) (snd (fst b)) && N.eqb (snd a) (snd b).

(* quorum: committee, subset ids, observed (IsQuorum triple, HasHonest triple, CalcQuorumWeight, CalcByzMaxWeight) *)
Definition qcase := (committee * list N * ((bool * N * N) * (bool * N * N) * N * N))%type.
Definition q_ok (c : qcase) : bool :=
  let '(cm, sub, (oq, oh, q, b)) := c in
  eqb_triple (isQuorum sub cm) oq && eqb_triple (hasHonest sub cm) oh
  && N.eqb (calcQuorumWeight (weights cm)) q && N.eqb (calcByzMaxWeight (weights cm)) b.

(* leader: committee size, view, observed index (None = panic) *)
Definition lcase := (N * N * option N)%type.
Definition eqb_optN (a b : option N) : bool :=
  match a, b with None, None => true | Some x, Some y => N.eqb x y | _, _ => false end.
Definition l_ok (c : lcase) : bool :=
  let '(n, v, o) := c in
  eqb_optN (match leaderIndex (N.to_nat n) v with None => None | Some i => Some (N.of_nat i) end) o.

(* timeout: base (ns), view, observed duration (ns) *)
Definition tcase := (Z * N * Z)%type.
Definition t_ok (c : tcase) : bool := let '(b, v, o) := c in Z.eqb (calcTimeout b v) o.

(* ---- registry / state (Contexts.v) ---- *)
From LH Require Import Contexts.

Fixpoint list_eqb {A} (eq : A -> A -> bool) (a b : list A) : bool :=
  match a, b with [] , [] => true | x :: r, y :: s => eq x y && list_eqb eq r s | _, _ => false end.

(* observation after each op: did For succeed (true for other ops); done flag of every context issued so far, in issue order *)
Fixpoint reg_trace (r : registry) (ops : list rop) : list (bool * list bool) :=
  match ops with
  | [] => []
  | o :: rest =>
      let ok := match o with RFor k => fst (reg_for k r) | _ => true end in
      let r' := reg_step r o in
      (ok, map (ctx_done r') (rev (issued r'))) :: reg_trace r' rest
  end.
Definition rcase := (list rop * list (bool * list bool))%type.
Definition r_ok (c : rcase) : bool :=
  list_eqb (fun a b => Bool.eqb (fst a) (fst b) && list_eqb Bool.eqb (snd a) (snd b)) (reg_trace reg_init (fst c)) (snd c).

(* State: observation after each op: (ok, height, view) *)
Fixpoint st_trace (s : hvstate) (ops : list sop) : list (bool * N * N) :=
  match ops with
  | [] => []
  | o :: rest =>
      let res := match o with SSetHeight h => st_set_height h s | SSetView v => st_set_view v s end in
      (fst res, st_h (snd res), st_v (snd res)) :: st_trace (snd res) rest
  end.
Definition scase := (list sop * list (bool * N * N))%type.
Definition s_ok (c : scase) : bool := list_eqb eqb_triple (st_trace st_init (fst c)) (snd c).

(* ---- filter (Filter.v) ---- *)
From LH Require Import Filter.
(* case: me, inst, ops, observed deliveries in order (handler term, tag) *)
Definition fcase := (N * N * list fop * list (N * N))%type.
Definition f_ok (c : fcase) : bool :=
  let '(me, inst, ops, obs) := c in
  let s := frun me inst ops in
  negb (f_oof s) &&
  list_eqb (fun a b => N.eqb (fst a) (fst b) && N.eqb (snd a) (snd b))
           (map (fun d => (fst d, m_tag (snd d))) (rev (f_out s))) obs.
Definition FM (h i s t : N) (tr : bool) : fmsg := {| m_height := h; m_inst := i; m_sender := s; m_tag := t; m_trigger := tr |}.
