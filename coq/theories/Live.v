(* Live.v — the core of C05: once a correct member has joined a view and holds its leader's proposal, the PREPAREs and
   COMMITs of a quorum make it prepare and commit, whatever else it has stored. (How the members get into one view -
   view synchronisation through the exponential timeouts - is not part of this file.) *)
From LH Require Import Prims Quorum QuorumFacts Contexts Msg Term TermFacts Own Accept.
Open Scope N_scope.

Section Live.
Variable c : ncfg. Variable wm : option hv. Variable shut : bool.
Notation me := (c_me c).

Lemma handle_c_committed_stays x r s o : t_committed (tc_t x) = true -> t_committed (tc_t (handle_c c wm shut x r s o)) = true.
Proof.
  intro Hc. unfold handle_c. repeat (match goal with |- context [if ?b then _ else _] => destruct b end); try exact Hc;
  unfold check_committed; cbn [tc_set_t tc_t store_c t_committed]; rewrite Hc; cbn [tc_set_t tc_t store_c t_committed]; exact Hc.
Qed.

Lemma is_preprepared_ext t t' v h : t_pp t' = t_pp t -> is_preprepared t' v h = is_preprepared t v h.
Proof. intro E0. unfold is_preprepared. rewrite (get_pp_ext _ _ v E0). reflexivity. Qed.

(* COMMIT phase, one delivery: the commit is stored; if the stored commits of (v, h) now weigh a quorum and the proposal
   is there, the term commits *)
Lemma handle_c_step x r s : r_type r = T_COMMIT -> isMember (t_cm (tc_t x)) (s_id s) = true -> s_ok s = true ->
  let x' := handle_c c wm shut x r s true in
  t_pp (tc_t x') = t_pp (tc_t x) /\ t_cm (tc_t x') = t_cm (tc_t x) /\ t_h (tc_t x') = t_h (tc_t x) /\
  (forall v h i, has_c (tc_t x) v h i = true -> has_c (tc_t x') v h i = true) /\
  has_c (tc_t x') (r_view r) (r_hash r) (s_id s) = true /\
  (t_committed (tc_t x) = true -> t_committed (tc_t x') = true) /\
  (forall en, is_preprepared (tc_t x) (r_view r) (r_hash r) = Some en -> ctx_ok wm shut (t_h (tc_t x), MAXVIEW) = true ->
     isQ_ids (t_cm (tc_t x)) (map s_id (bucket (t_c (tc_t x')) (r_view r) (r_hash r))) = true ->
     t_committed (tc_t x') = true /\ (t_committed (tc_t x) = false -> In (r_view r, r_hash r) (D x'))) /\
  incl (D x) (D x').
Proof.
  intros Ty Mem Sok. cbn zeta.
  pose proof (handle_c_own c wm shut x r s true None false) as S.
  destruct (ss_hc _ _ _ _ S) as [Hh Hcm].
  split.
  { unfold handle_c. cbn [negb]. rewrite Ty, N.eqb_refl, Mem, Sok. cbn [negb]. set (xa := tc_set_t _ _).
    destruct (check_committed_own c wm shut xa (r_view r) (r_hash r)) as ([_ _ _ _ _ P _ _ _] & _). cbn zeta in P. rewrite P. subst xa. reflexivity. }
  split; [exact Hcm|]. split; [exact Hh|]. split.
  { intros v h i Hc. unfold has_c in *. apply memN_In. apply memN_In in Hc. apply in_map_iff in Hc. destruct Hc as (s0 & E0 & Hs0).
    apply in_map_iff. exists s0. split; [exact E0|]. apply In_bucket. apply (ss_cmono _ _ _ _ S). apply In_bucket. exact Hs0. }
  split; [apply commit_counted; assumption|]. split; [apply handle_c_committed_stays|].
  split; [|intros q Hq; unfold D in *; apply in_flat_map in Hq; destruct Hq as (o & Ho & Hq); apply in_flat_map; exists o; split; [apply (ss_out _ _ _ _ S); exact Ho|exact Hq]].
  intros en Hpp Hctx Q. unfold handle_c in *. cbn [negb] in *. rewrite Ty, N.eqb_refl, Mem, Sok in *. cbn [negb] in *.
  set (xa := tc_set_t _ _) in *.
  assert (Tc : t_c (tc_t (check_committed c wm shut xa (r_view r) (r_hash r))) = t_c (tc_t xa)) by (destruct (check_committed_own c wm shut xa (r_view r) (r_hash r)) as (_ & Tc & _); exact Tc).
  rewrite Tc in Q. unfold check_committed.
  assert (Ec0 : t_committed (tc_t xa) = t_committed (tc_t x)) by (subst xa; reflexivity).
  destruct (t_committed (tc_t xa)) eqn:Ec; [split; [exact Ec|intro Hf; rewrite Hf in Ec0; discriminate]|].
  assert (Hpa : is_preprepared (tc_t xa) (r_view r) (r_hash r) = Some en) by (subst xa; cbn [tc_set_t tc_t]; rewrite (is_preprepared_ext (tc_t x)); [exact Hpp|reflexivity]).
  rewrite Hpa. destruct (is_preprepared_some _ _ _ _ Hpa) as (_ & _ & b & Gb).
  assert (Ecm : t_cm (tc_t xa) = t_cm (tc_t x)) by (subst xa; reflexivity). assert (Eh : t_h (tc_t xa) = t_h (tc_t x)) by (subst xa; reflexivity).
  rewrite Ecm, Q, Eh, Hctx, Gb. cbn [negb]. split; [reflexivity|]. intros _. unfold D, tc_committed. cbn [tc_out tc_emit flat_map decided_of mk_ref r_view r_hash app]. left. reflexivity.
Qed.

Lemma handle_c_commits_vh x r s : r_type r = T_COMMIT -> isMember (t_cm (tc_t x)) (s_id s) = true -> s_ok s = true ->
  t_committed (tc_t x) = false -> t_committed (tc_t (handle_c c wm shut x r s true)) = true -> In (r_view r, r_hash r) (D (handle_c c wm shut x r s true)).
Proof.
  intros Ty Mem Sok Ec0. unfold handle_c. cbn [negb]. rewrite Ty, N.eqb_refl, Mem, Sok. cbn [negb].
  set (xa := tc_set_t _ _). unfold check_committed. assert (Ea : t_committed (tc_t xa) = false) by (subst xa; exact Ec0). rewrite Ea.
  destruct (is_preprepared (tc_t xa) (r_view r) (r_hash r)) as [e0|]; [|congruence].
  destruct (negb (isQ_ids _ _)); [congruence|]. destruct (negb (ctx_ok _ _ _)); [congruence|]. destruct (pe_blk e0); [|congruence].
  intros _. unfold D, tc_committed. cbn [tc_out tc_emit flat_map decided_of mk_ref r_view r_hash app]. left. reflexivity.
Qed.

(* COMMIT phase: the COMMITs [ds] (reference, signature) for (v, h), delivered in any order, duplicates allowed *)
Definition is_for (ty v h : N) (q : bref * ssig) : Prop := r_type (fst q) = ty /\ r_view (fst q) = v /\ r_hash (fst q) = h.
Definition deliver_commits (x : tc) (ds : list (bref * ssig)) : tc := fold_left (fun x q => handle_c c wm shut x (fst q) (snd q) true) ds x.

Lemma deliver_commits_facts v h ds : forall x,
  (forall q, In q ds -> is_for T_COMMIT v h q /\ isMember (t_cm (tc_t x)) (s_id (snd q)) = true /\ s_ok (snd q) = true) ->
  let x' := deliver_commits x ds in
  t_pp (tc_t x') = t_pp (tc_t x) /\ t_cm (tc_t x') = t_cm (tc_t x) /\ t_h (tc_t x') = t_h (tc_t x) /\
  (forall v h i, has_c (tc_t x) v h i = true -> has_c (tc_t x') v h i = true) /\
  (forall q, In q ds -> has_c (tc_t x') v h (s_id (snd q)) = true) /\
  (t_committed (tc_t x) = true -> t_committed (tc_t x') = true) /\ incl (D x) (D x').
Proof.
  induction ds as [|[r s] ds IH]; intros x Hds; cbn zeta; cbn [deliver_commits fold_left].
  - repeat split; auto; try apply incl_refl; intros s [].
  - destruct (Hds (r, s) (or_introl eq_refl)) as ((Ty & Ev & Eh) & Mem & Sok). cbn [fst snd] in *.
    destruct (handle_c_step x r s Ty Mem Sok) as (A1 & A2 & A3 & A4 & A5 & A6 & _ & A8). cbn zeta in *. rewrite Ev, Eh in A5.
    set (x1 := handle_c c wm shut x r s true) in *.
    assert (Hds1 : forall q, In q ds -> is_for T_COMMIT v h q /\ isMember (t_cm (tc_t x1)) (s_id (snd q)) = true /\ s_ok (snd q) = true) by (intros q H0; rewrite A2; apply Hds; right; exact H0).
    destruct (IH x1 Hds1) as (B1 & B2 & B3 & B4 & B5 & B6 & B7). cbn zeta in *. fold (deliver_commits x1 ds).
    split; [congruence|]. split; [congruence|]. split; [congruence|]. split; [auto|]. split; [|split; [auto|eapply incl_tran; eauto]].
    intros q [<-|H0]; [apply B4; exact A5|apply B5; exact H0].
Qed.

(* ... and if, together with the member's own stored commit, they weigh a quorum, the proposal is there and the term's
   context is live, the term has committed - and committed (v, h) if it had not committed before *)
Theorem commit_quorum_commits x v h ds en : ds <> [] ->
  (forall q, In q ds -> is_for T_COMMIT v h q /\ isMember (t_cm (tc_t x)) (s_id (snd q)) = true /\ s_ok (snd q) = true) ->
  is_preprepared (tc_t x) v h = Some en -> ctx_ok wm shut (t_h (tc_t x), MAXVIEW) = true ->
  has_c (tc_t x) v h me = true ->
  isQ_ids (t_cm (tc_t x)) (me :: map (fun q => s_id (snd q)) ds) = true -> total (t_cm (tc_t x)) < W64 ->
  t_committed (tc_t (deliver_commits x ds)) = true /\ (t_committed (tc_t x) = false -> In (v, h) (D (deliver_commits x ds))).
Proof.
  intros Hne Hds Hpp Hctx Hown Q Hw.
  destruct (exists_last Hne) as (ds0 & [rl sl] & ->).
  unfold deliver_commits. rewrite fold_left_app. cbn [fold_left fst snd]. fold (deliver_commits x ds0).
  assert (Hds0 : forall q, In q ds0 -> is_for T_COMMIT v h q /\ isMember (t_cm (tc_t x)) (s_id (snd q)) = true /\ s_ok (snd q) = true) by (intros q H0; apply Hds; apply in_or_app; left; exact H0).
  destruct (deliver_commits_facts v h ds0 x Hds0) as (B1 & B2 & B3 & B4 & B5 & B6 & B7). cbn zeta in *.
  set (x1 := deliver_commits x ds0) in *.
  assert (Hsl : In (rl, sl) (ds0 ++ [(rl, sl)])) by (apply in_or_app; right; left; reflexivity).
  destruct (Hds _ Hsl) as ((Ty & Ev & Eh) & Mem & Sok). cbn [fst snd] in *. rewrite <- B2 in Mem.
  destruct (handle_c_step x1 rl sl Ty Mem Sok) as (A1 & A2 & A3 & A4 & A5 & A6 & A7 & A8). cbn zeta in *. rewrite Ev, Eh in *.
  destruct (t_committed (tc_t x)) eqn:Ec0.
  { split; [apply A6; apply B6; reflexivity|discriminate]. }
  destruct (A7 en) as [R1 R2].
  - rewrite (is_preprepared_ext (tc_t x)); [exact Hpp|exact B1].
  - rewrite B3. exact Hctx.
  - rewrite B2. eapply isQ_mono; [exact Hw| |exact Q]. intros i Hi. apply memN_In.
    assert (HC : has_c (tc_t (handle_c c wm shut x1 rl sl true)) v h i = true).
    { destruct Hi as [<-|Hi].
      - apply A4. apply B4. exact Hown.
      - apply in_map_iff in Hi. destruct Hi as (q & <- & Hs). apply in_app_or in Hs. destruct Hs as [Hs|[<-|[]]]; [apply A4; apply B5; exact Hs|exact A5]. }
    unfold has_c in HC. exact HC.
  - split; [exact R1|]. intros _. destruct (t_committed (tc_t x1)) eqn:Ec1; [|apply R2; reflexivity].
    (* committed during the earlier deliveries: by the same argument on the prefix that committed *)
    apply A8. clear - Ec0 Ec1 Hds0 Hpp Hctx. subst x1. revert x Ec0 Ec1 Hds0 Hpp Hctx.
    induction ds0 as [|[r s] ds0 IH]; intros x Ec0 Ec1 Hds0 Hpp Hctx; cbn [deliver_commits fold_left] in *; [congruence|].
    destruct (Hds0 (r, s) (or_introl eq_refl)) as ((Ty & Ev & Eh) & Mem & Sok). cbn [fst snd] in *.
    destruct (handle_c_step x r s Ty Mem Sok) as (A1 & A2 & A3 & A4 & A5 & A6 & A7 & A8). cbn zeta in *. rewrite Ev, Eh in *.
    set (x1 := handle_c c wm shut x r s true) in *. fold (deliver_commits x1 ds0) in *.
    assert (Hds1 : forall q, In q ds0 -> is_for T_COMMIT v h q /\ isMember (t_cm (tc_t x1)) (s_id (snd q)) = true /\ s_ok (snd q) = true) by (intros q H0; rewrite A2; apply Hds0; right; exact H0).
    destruct (t_committed (tc_t x1)) eqn:Ec2.
    + destruct (deliver_commits_facts v h ds0 x1 Hds1) as (_ & _ & _ & _ & _ & _ & B7). apply B7.
      pose proof (handle_c_commits_vh x r s Ty Mem Sok Ec0 Ec2) as HH. rewrite Ev, Eh in HH. exact HH.
    + apply (IH x1 Ec2 Ec1 Hds1); [rewrite (is_preprepared_ext (tc_t x)); [exact Hpp|exact A1]|rewrite A3; exact Hctx].
Qed.

(* PREPARE phase, one delivery *)
Lemma handle_p_step x r s : r_type r = T_PREPARE -> isMember (t_cm (tc_t x)) (s_id s) = true -> s_ok s = true ->
  tc_v x <= r_view r -> s_id s <> leaderOf (t_cm (tc_t x)) (r_view r) ->
  let x' := handle_p c wm shut x r s in
  t_pp (tc_t x') = t_pp (tc_t x) /\ t_cm (tc_t x') = t_cm (tc_t x) /\ t_h (tc_t x') = t_h (tc_t x) /\ tc_v x' = tc_v x /\
  (forall v h i, has_p (tc_t x) v h i = true -> has_p (tc_t x') v h i = true) /\
  has_p (tc_t x') (r_view r) (r_hash r) (s_id s) = true /\
  (lockv x = Some (r_view r) -> lockv x' = Some (r_view r)) /\
  (forall en, is_preprepared (tc_t x) (r_view r) (r_hash r) = Some en ->
     isQ_ids (t_cm (tc_t x)) (map s_id (bucket (t_p (tc_t x')) (r_view r) (r_hash r)) ++ [s_id (pe_snd en)]) = true -> lockv x' = Some (r_view r)) /\
  (forall v h i, has_c (tc_t x) v h i = true -> has_c (tc_t x') v h i = true) /\
  (lockv x' = Some (r_view r) -> (lockv x = Some (r_view r) -> has_c (tc_t x) (r_view r) (r_hash r) me = true) ->
     has_c (tc_t x') (r_view r) (r_hash r) me = true) /\
  incl (tc_out x) (tc_out x') /\ (t_committed (tc_t x) = true -> t_committed (tc_t x') = true).
Proof.
  intros Ty Mem Sok Hv Hl. cbn zeta.
  assert (UN : handle_p c wm shut x r s = check_prepared c wm shut (tc_set_t (store_p (r_view r) (r_hash r) s (tc_t x))
      (if has_p (tc_t x) (r_view r) (r_hash r) (s_id s) then x else tc_emit (OStore T_PREPARE (t_h (tc_t x)) (r_view r) (r_hash r) (s_id s)) x)) (r_view r) (r_hash r)).
  { unfold handle_p. rewrite Ty, N.eqb_refl, Mem, Sok. cbn [negb]. destruct (N.ltb_spec (r_view r) (tc_v x)); [lia|].
    destruct (N.eqb_spec (s_id s) (leaderOf (t_cm (tc_t x)) (r_view r))); [contradiction|reflexivity]. }
  rewrite UN. set (xa := tc_set_t _ _).
  assert (Ea : t_pp (tc_t xa) = t_pp (tc_t x) /\ t_cm (tc_t xa) = t_cm (tc_t x) /\ t_h (tc_t xa) = t_h (tc_t x) /\ tc_v xa = tc_v x /\ lockv xa = lockv x /\
               t_p (tc_t xa) = store_in (t_p (tc_t x)) (r_view r) (r_hash r) s /\ t_c (tc_t xa) = t_c (tc_t x) /\ t_committed (tc_t xa) = t_committed (tc_t x)).
  { subst xa. unfold lockv. cbn [tc_set_t tc_t tc_v store_p t_pp t_cm t_h t_prepared t_p t_c t_committed]. destruct (has_p _ _ _ _); cbn [tc_emit tc_v]; auto 10. }
  destruct Ea as (E1 & E2 & E3 & E4 & E5 & E6 & E7 & E8).
  destruct (check_prepared_own c wm shut xa (r_view r) (r_hash r)) as (_ & P2 & _ & _ & P5 & P6 & [P7 P7'] & _ & _ & _ & Pout & P11). cbn zeta in *.
  split; [congruence|]. split; [congruence|]. split; [congruence|]. split; [congruence|]. split.
  { intros v h i Hc. unfold has_p in *. rewrite P6, E6. apply memN_In. apply memN_In in Hc. apply in_map_iff in Hc. destruct Hc as (s0 & E0 & Hs0).
    apply in_map_iff. exists s0. split; [exact E0|]. apply In_bucket. apply incl_store_in. apply In_bucket. exact Hs0. }
  split. { unfold has_p. rewrite P6, E6. apply in_bucket_after_store. }
  split.
  { intro Hlk. destruct P11 as [(Q1 & _)|(_ & Q2 & _)]; [rewrite Q1, E5; exact Hlk|exact Q2]. }
  split.
  { intros en Hpp Q. unfold check_prepared.
    destruct (match t_prepared (tc_t xa) with Some pv => pv =? r_view r | None => false end) eqn:Epv.
    { unfold lockv. destruct (t_prepared (tc_t xa)) as [pv|]; [|discriminate]. apply N.eqb_eq in Epv. subst pv. reflexivity. }
    assert (Hpa : is_preprepared (tc_t xa) (r_view r) (r_hash r) = Some en) by (rewrite (is_preprepared_ext (tc_t x)); [exact Hpp|exact E1]).
    rewrite Hpa. rewrite P6 in Q. rewrite E2, Q.
    match goal with |- lockv (check_committed _ _ _ ?xx _ _) = _ => destruct (check_committed_own c wm shut xx (r_view r) (r_hash r)) as ([_ _ SL _ _ _ _ _ _] & _) end.
    cbn zeta in SL. rewrite SL. unfold lockv, send_all. cbn [tc_emit tc_set_t tc_t store_c set_prepared t_prepared]. reflexivity. }
  split.
  { intros v h i Hc. unfold has_c in *. apply memN_In. apply memN_In in Hc. apply in_map_iff in Hc. destruct Hc as (s0 & E0 & Hs0).
    apply in_map_iff. exists s0. split; [exact E0|]. apply In_bucket. apply In_bucket in Hs0. rewrite <- E7 in Hs0.
    destruct P11 as [(_ & Q2 & _)|(_ & _ & _ & _ & _ & _ & Q7 & _)]; [rewrite Q2; exact Hs0|apply Q7; exact Hs0]. }
  split.
  { intros Hlk Hold. destruct P11 as [(Q1 & Q2 & _)|(_ & _ & _ & _ & _ & _ & _ & Q8)].
    - unfold has_c. rewrite Q2, E7. apply Hold. rewrite <- E5, <- Q1. exact Hlk.
    - unfold has_c. rewrite Q8. apply (in_bucket_after_store _ (r_view r) (r_hash r) (my_sig c)). }
  split; [eapply incl_tran; [|exact Pout]; subst xa; cbn [tc_set_t tc_out]; destruct (has_p _ _ _ _); [apply incl_refl|cbn [tc_emit tc_out]; apply incl_tl, incl_refl]|].
  intro Hc. rewrite <- E8 in Hc. revert Hc. generalize xa. intros y Hc. unfold check_prepared.
  repeat (match goal with |- context [if ?b then _ else _] => destruct b | |- context [match ?b with Some _ => _ | None => _ end] => destruct b end); try exact Hc.
  all: unfold check_committed, send_all; cbn [tc_emit tc_set_t tc_t store_c set_prepared t_committed]; rewrite Hc; cbn [tc_emit tc_set_t tc_t store_c set_prepared t_committed]; exact Hc.
Qed.

Lemma handle_p_commits_vh x r s : t_committed (tc_t x) = false -> t_committed (tc_t (handle_p c wm shut x r s)) = true ->
  In (r_view r, r_hash r) (D (handle_p c wm shut x r s)).
Proof.
  intros Ec0. unfold handle_p.
  repeat (match goal with |- context [if ?b then _ else _] => destruct b end); try congruence.
  all: unfold check_prepared; cbn [tc_set_t tc_t store_p t_prepared].
  all: repeat (match goal with |- context [if ?b then _ else _] => destruct b | |- context [match ?b with Some _ => _ | None => _ end] => destruct b end);
       cbn [tc_set_t tc_t tc_emit store_p t_committed]; try congruence.
  all: unfold check_committed, send_all; cbn [tc_set_t tc_t tc_emit store_p store_c set_prepared t_committed]; rewrite ?Ec0.
  all: repeat (match goal with |- context [if ?b then _ else _] => destruct b | |- context [match ?b with Some _ => _ | None => _ end] => destruct b end);
       cbn [tc_set_t tc_t tc_emit store_p store_c set_prepared t_committed]; try congruence.
  all: intros _; unfold D, tc_committed; cbn [tc_out tc_emit tc_set_t flat_map decided_of mk_ref r_view r_hash app]; left; reflexivity.
Qed.

Definition deliver_prepares (x : tc) (ds : list (bref * ssig)) : tc := fold_left (fun x q => handle_p c wm shut x (fst q) (snd q)) ds x.

Definition p_ok (x : tc) (v h : N) (q : bref * ssig) : Prop :=
  is_for T_PREPARE v h q /\ isMember (t_cm (tc_t x)) (s_id (snd q)) = true /\ s_ok (snd q) = true /\ s_id (snd q) <> leaderOf (t_cm (tc_t x)) v.

Lemma deliver_prepares_facts v h ds : forall x,
  tc_v x <= v -> (forall q, In q ds -> p_ok x v h q) ->
  let x' := deliver_prepares x ds in
  t_pp (tc_t x') = t_pp (tc_t x) /\ t_cm (tc_t x') = t_cm (tc_t x) /\ t_h (tc_t x') = t_h (tc_t x) /\ tc_v x' = tc_v x /\
  (forall v h i, has_p (tc_t x) v h i = true -> has_p (tc_t x') v h i = true) /\
  (forall q, In q ds -> has_p (tc_t x') v h (s_id (snd q)) = true) /\
  (lockv x = Some v -> lockv x' = Some v) /\
  (forall v h i, has_c (tc_t x) v h i = true -> has_c (tc_t x') v h i = true) /\
  ((lockv x = Some v -> has_c (tc_t x) v h me = true) -> (lockv x' = Some v -> has_c (tc_t x') v h me = true)) /\
  incl (tc_out x) (tc_out x') /\ (t_committed (tc_t x) = true -> t_committed (tc_t x') = true) /\
  (t_committed (tc_t x) = false -> t_committed (tc_t x') = true -> In (v, h) (D x')).
Proof.
  induction ds as [|[r s] ds IH]; intros x Hv Hds; cbn zeta; cbn [deliver_prepares fold_left].
  - repeat split; auto; try apply incl_refl; try congruence; intros s [].
  - destruct (Hds (r, s) (or_introl eq_refl)) as ((Ty & Ev & Eh) & Mem & Sok & Nl). cbn [fst snd] in *. subst v h.
    destruct (handle_p_step x r s Ty Mem Sok Hv Nl) as (A1 & A2 & A3 & A4 & A5 & A6 & A7 & _ & A9 & A10 & A11 & A12). cbn zeta in *.
    set (x1 := handle_p c wm shut x r s) in *.
    assert (Hds1 : forall q, In q ds -> p_ok x1 (r_view r) (r_hash r) q) by (intros q H0; unfold p_ok; rewrite A2; apply Hds; right; exact H0).
    assert (Hv1 : tc_v x1 <= r_view r) by (rewrite A4; exact Hv).
    destruct (IH x1 Hv1 Hds1) as (B1 & B2 & B3 & B4 & B5 & B6 & B7 & B8 & B9 & B10 & B11 & B12). cbn zeta in *. fold (deliver_prepares x1 ds).
    split; [congruence|]. split; [congruence|]. split; [congruence|]. split; [congruence|]. split; [auto|]. split.
    { intros q [<-|H0]; [apply B5; exact A6|apply B6; exact H0]. }
    split; [auto|]. split; [auto|]. split; [|split; [eapply incl_tran; eauto|split; [auto|]]].
    { intros Hold Hlk. apply B9; [|exact Hlk]. intro Hlk1. apply A10; assumption. }
    intros Ec0 Ec1. destruct (t_committed (tc_t x1)) eqn:Ec2; [|apply B12; [reflexivity|exact Ec1]].
    pose proof (handle_p_commits_vh x r s Ec0 Ec2) as HH. fold x1 in HH.
    unfold D in *. apply in_flat_map in HH. destruct HH as (o & Ho & HH). apply in_flat_map. exists o. split; [apply B10; exact Ho|exact HH].
Qed.

(* PREPARE phase: a member in view v that holds the proposal (v, h) and receives the PREPAREs of members that, together
   with itself and the proposal's leader, weigh a quorum, is prepared in v afterwards - and has stored its own COMMIT *)
Theorem prepare_quorum_prepares x v h ds en : ds <> [] -> tc_v x <= v ->
  (forall q, In q ds -> p_ok x v h q) ->
  is_preprepared (tc_t x) v h = Some en ->
  (me <> s_id (pe_snd en) -> has_p (tc_t x) v h me = true) ->
  isQ_ids (t_cm (tc_t x)) (me :: map (fun q => s_id (snd q)) ds ++ [s_id (pe_snd en)]) = true -> total (t_cm (tc_t x)) < W64 ->
  lockv (deliver_prepares x ds) = Some v /\
  ((lockv x = Some v -> has_c (tc_t x) v h me = true) -> has_c (tc_t (deliver_prepares x ds)) v h me = true).
Proof.
  intros Hne Hv Hds Hpp Hown Q Hw.
  assert (L : lockv (deliver_prepares x ds) = Some v).
  { destruct (exists_last Hne) as (ds0 & [rl sl] & ->).
    unfold deliver_prepares. rewrite fold_left_app. cbn [fold_left fst snd]. fold (deliver_prepares x ds0).
    assert (Hds0 : forall q, In q ds0 -> p_ok x v h q) by (intros q H0; apply Hds; apply in_or_app; left; exact H0).
    destruct (deliver_prepares_facts v h ds0 x Hv Hds0) as (B1 & B2 & B3 & B4 & B5 & B6 & B7 & _). cbn zeta in *.
    set (x1 := deliver_prepares x ds0) in *.
    assert (Hsl : In (rl, sl) (ds0 ++ [(rl, sl)])) by (apply in_or_app; right; left; reflexivity).
    destruct (Hds _ Hsl) as ((Ty & Ev & Eh) & Mem & Sok & Nl). cbn [fst snd] in *. subst v h. rewrite <- B2 in Mem, Nl.
    assert (Hv1 : tc_v x1 <= r_view rl) by (rewrite B4; exact Hv).
    destruct (handle_p_step x1 rl sl Ty Mem Sok Hv1 Nl) as (A1 & A2 & A3 & A4 & A5 & A6 & A7 & A8 & _). cbn zeta in *.
    apply (A8 en).
    - rewrite (is_preprepared_ext (tc_t x)); [exact Hpp|exact B1].
    - rewrite B2. eapply isQ_mono; [exact Hw| |exact Q]. intros i Hi. apply in_or_app.
      destruct (N.eq_dec i (s_id (pe_snd en))) as [->|Hnl]; [right; left; reflexivity|left].
      assert (HP : has_p (tc_t (handle_p c wm shut x1 rl sl)) (r_view rl) (r_hash rl) i = true).
      { destruct Hi as [<-|Hi].
        - apply A5. apply B5. apply Hown. exact Hnl.
        - apply in_app_or in Hi. destruct Hi as [Hi|[<-|[]]]; [|contradiction].
          apply in_map_iff in Hi. destruct Hi as (q & <- & Hs). apply in_app_or in Hs. destruct Hs as [Hs|[<-|[]]]; [apply A5; apply B6; exact Hs|exact A6]. }
      unfold has_p in HP. apply memN_In. exact HP. }
  split; [exact L|]. intro Hold.
  destruct (deliver_prepares_facts v h ds x Hv Hds) as (_ & _ & _ & _ & _ & _ & _ & _ & B9 & _). cbn zeta in B9. apply B9; assumption.
Qed.
End Live.
