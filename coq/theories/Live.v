(* Live.v — the core of C05: once a correct member has joined a view and holds its leader's proposal, the PREPAREs and
   COMMITs of a quorum make it prepare and commit, whatever else it has stored. (How the members get into one view -
   view synchronisation through the exponential timeouts - is not part of this file.) *)
From LH Require Import Prims Quorum QuorumFacts Contexts Msg Term TermFacts Own Accept.
Open Scope N_scope.

Section Live.
Variable c : ncfg. Variable wm : option hv. Variable shut : bool.
Notation me := (c_me c).

Lemma handle_c_committed_stays x r s o : t_committed (tc_t x) = true -> t_committed (tc_t (handle_c c wm shut x r s o)) = true.
Proof.
  intro Hc. unfold handle_c. repeat (match goal with |- context [if ?b then _ else _] => destruct b end); try exact Hc;
  unfold check_committed; cbn [tc_set_t tc_t store_c t_committed]; rewrite Hc; cbn [tc_set_t tc_t store_c t_committed]; exact Hc.
Qed.

Lemma is_preprepared_ext t t' v h : t_pp t' = t_pp t -> is_preprepared t' v h = is_preprepared t v h.
Proof. intro E0. unfold is_preprepared. rewrite (get_pp_ext _ _ v E0). reflexivity. Qed.

(* COMMIT phase, one delivery: the commit is stored; if the stored commits of (v, h) now weigh a quorum and the proposal
   is there, the term commits *)
Lemma handle_c_step x r s : r_type r = T_COMMIT -> isMember (t_cm (tc_t x)) (s_id s) = true -> s_ok s = true ->
  let x' := handle_c c wm shut x r s true in
  t_pp (tc_t x') = t_pp (tc_t x) /\ t_cm (tc_t x') = t_cm (tc_t x) /\ t_h (tc_t x') = t_h (tc_t x) /\
  (forall v h i, has_c (tc_t x) v h i = true -> has_c (tc_t x') v h i = true) /\
  has_c (tc_t x') (r_view r) (r_hash r) (s_id s) = true /\
  (t_committed (tc_t x) = true -> t_committed (tc_t x') = true) /\
  (forall en, is_preprepared (tc_t x) (r_view r) (r_hash r) = Some en -> ctx_ok wm shut (t_h (tc_t x), MAXVIEW) = true ->
     isQ_ids (t_cm (tc_t x)) (map s_id (bucket (t_c (tc_t x')) (r_view r) (r_hash r))) = true ->
     t_committed (tc_t x') = true /\ (t_committed (tc_t x) = false -> In (r_view r, r_hash r) (D x'))) /\
  incl (D x) (D x').
Proof.
  intros Ty Mem Sok. cbn zeta.
  pose proof (handle_c_own c wm shut x r s true None false) as S.
  destruct (ss_hc _ _ _ _ S) as [Hh Hcm].
  split.
  { unfold handle_c. cbn [negb]. rewrite Ty, N.eqb_refl, Mem, Sok. cbn [negb]. set (xa := tc_set_t _ _).
    destruct (check_committed_own c wm shut xa (r_view r) (r_hash r)) as ([_ _ _ _ _ P _ _ _] & _). cbn zeta in P. rewrite P. subst xa. reflexivity. }
  split; [exact Hcm|]. split; [exact Hh|]. split.
  { intros v h i Hc. unfold has_c in *. apply memN_In. apply memN_In in Hc. apply in_map_iff in Hc. destruct Hc as (s0 & E0 & Hs0).
    apply in_map_iff. exists s0. split; [exact E0|]. apply In_bucket. apply (ss_cmono _ _ _ _ S). apply In_bucket. exact Hs0. }
  split; [apply commit_counted; assumption|]. split; [apply handle_c_committed_stays|].
  split; [|intros q Hq; unfold D in *; apply in_flat_map in Hq; destruct Hq as (o & Ho & Hq); apply in_flat_map; exists o; split; [apply (ss_out _ _ _ _ S); exact Ho|exact Hq]].
  intros en Hpp Hctx Q. unfold handle_c in *. cbn [negb] in *. rewrite Ty, N.eqb_refl, Mem, Sok in *. cbn [negb] in *.
  set (xa := tc_set_t _ _) in *.
  assert (Tc : t_c (tc_t (check_committed c wm shut xa (r_view r) (r_hash r))) = t_c (tc_t xa)) by (destruct (check_committed_own c wm shut xa (r_view r) (r_hash r)) as (_ & Tc & _); exact Tc).
  rewrite Tc in Q. unfold check_committed.
  assert (Ec0 : t_committed (tc_t xa) = t_committed (tc_t x)) by (subst xa; reflexivity).
  destruct (t_committed (tc_t xa)) eqn:Ec; [split; [exact Ec|intro Hf; rewrite Hf in Ec0; discriminate]|].
  assert (Hpa : is_preprepared (tc_t xa) (r_view r) (r_hash r) = Some en) by (subst xa; cbn [tc_set_t tc_t]; rewrite (is_preprepared_ext (tc_t x)); [exact Hpp|reflexivity]).
  rewrite Hpa. destruct (is_preprepared_some _ _ _ _ Hpa) as (_ & _ & b & Gb).
  assert (Ecm : t_cm (tc_t xa) = t_cm (tc_t x)) by (subst xa; reflexivity). assert (Eh : t_h (tc_t xa) = t_h (tc_t x)) by (subst xa; reflexivity).
  rewrite Ecm, Q, Eh, Hctx, Gb. cbn [negb]. split; [reflexivity|]. intros _. unfold D, tc_committed. cbn [tc_out tc_emit flat_map decided_of mk_ref r_view r_hash app]. left. reflexivity.
Qed.

Lemma handle_c_commits_vh x r s : r_type r = T_COMMIT -> isMember (t_cm (tc_t x)) (s_id s) = true -> s_ok s = true ->
  t_committed (tc_t x) = false -> t_committed (tc_t (handle_c c wm shut x r s true)) = true -> In (r_view r, r_hash r) (D (handle_c c wm shut x r s true)).
Proof.
  intros Ty Mem Sok Ec0. unfold handle_c. cbn [negb]. rewrite Ty, N.eqb_refl, Mem, Sok. cbn [negb].
  set (xa := tc_set_t _ _). unfold check_committed. assert (Ea : t_committed (tc_t xa) = false) by (subst xa; exact Ec0). rewrite Ea.
  destruct (is_preprepared (tc_t xa) (r_view r) (r_hash r)) as [e0|]; [|congruence].
  destruct (negb (isQ_ids _ _)); [congruence|]. destruct (negb (ctx_ok _ _ _)); [congruence|]. destruct (pe_blk e0); [|congruence].
  intros _. unfold D, tc_committed. cbn [tc_out tc_emit flat_map decided_of mk_ref r_view r_hash app]. left. reflexivity.
Qed.

(* COMMIT phase: the COMMITs [ds] (reference, signature) for (v, h), delivered in any order, duplicates allowed *)
Definition is_for (ty v h : N) (q : bref * ssig) : Prop := r_type (fst q) = ty /\ r_view (fst q) = v /\ r_hash (fst q) = h.
Definition deliver_commits (x : tc) (ds : list (bref * ssig)) : tc := fold_left (fun x q => handle_c c wm shut x (fst q) (snd q) true) ds x.

Lemma deliver_commits_facts v h ds : forall x,
  (forall q, In q ds -> is_for T_COMMIT v h q /\ isMember (t_cm (tc_t x)) (s_id (snd q)) = true /\ s_ok (snd q) = true) ->
  let x' := deliver_commits x ds in
  t_pp (tc_t x') = t_pp (tc_t x) /\ t_cm (tc_t x') = t_cm (tc_t x) /\ t_h (tc_t x') = t_h (tc_t x) /\
  (forall v h i, has_c (tc_t x) v h i = true -> has_c (tc_t x') v h i = true) /\
  (forall q, In q ds -> has_c (tc_t x') v h (s_id (snd q)) = true) /\
  (t_committed (tc_t x) = true -> t_committed (tc_t x') = true) /\ incl (D x) (D x').
Proof.
  induction ds as [|[r s] ds IH]; intros x Hds; cbn zeta; cbn [deliver_commits fold_left].
  - repeat split; auto; try apply incl_refl; intros s [].
  - destruct (Hds (r, s) (or_introl eq_refl)) as ((Ty & Ev & Eh) & Mem & Sok). cbn [fst snd] in *.
    destruct (handle_c_step x r s Ty Mem Sok) as (A1 & A2 & A3 & A4 & A5 & A6 & _ & A8). cbn zeta in *. rewrite Ev, Eh in A5.
    set (x1 := handle_c c wm shut x r s true) in *.
    assert (Hds1 : forall q, In q ds -> is_for T_COMMIT v h q /\ isMember (t_cm (tc_t x1)) (s_id (snd q)) = true /\ s_ok (snd q) = true) by (intros q H0; rewrite A2; apply Hds; right; exact H0).
    destruct (IH x1 Hds1) as (B1 & B2 & B3 & B4 & B5 & B6 & B7). cbn zeta in *. fold (deliver_commits x1 ds).
    split; [congruence|]. split; [congruence|]. split; [congruence|]. split; [auto|]. split; [|split; [auto|eapply incl_tran; eauto]].
    intros q [<-|H0]; [apply B4; exact A5|apply B5; exact H0].
Qed.

(* ... and if, together with the member's own stored commit, they weigh a quorum, the proposal is there and the term's
   context is live, the term has committed - and committed (v, h) if it had not committed before *)
Theorem commit_quorum_commits x v h ds en : ds <> [] ->
  (forall q, In q ds -> is_for T_COMMIT v h q /\ isMember (t_cm (tc_t x)) (s_id (snd q)) = true /\ s_ok (snd q) = true) ->
  is_preprepared (tc_t x) v h = Some en -> ctx_ok wm shut (t_h (tc_t x), MAXVIEW) = true ->
  has_c (tc_t x) v h me = true ->
  isQ_ids (t_cm (tc_t x)) (me :: map (fun q => s_id (snd q)) ds) = true -> total (t_cm (tc_t x)) < W64 ->
  t_committed (tc_t (deliver_commits x ds)) = true /\ (t_committed (tc_t x) = false -> In (v, h) (D (deliver_commits x ds))).
Proof.
  intros Hne Hds Hpp Hctx Hown Q Hw.
  destruct (exists_last Hne) as (ds0 & [rl sl] & ->).
  unfold deliver_commits. rewrite fold_left_app. cbn [fold_left fst snd]. fold (deliver_commits x ds0).
  assert (Hds0 : forall q, In q ds0 -> is_for T_COMMIT v h q /\ isMember (t_cm (tc_t x)) (s_id (snd q)) = true /\ s_ok (snd q) = true) by (intros q H0; apply Hds; apply in_or_app; left; exact H0).
  destruct (deliver_commits_facts v h ds0 x Hds0) as (B1 & B2 & B3 & B4 & B5 & B6 & B7). cbn zeta in *.
  set (x1 := deliver_commits x ds0) in *.
  assert (Hsl : In (rl, sl) (ds0 ++ [(rl, sl)])) by (apply in_or_app; right; left; reflexivity).
  destruct (Hds _ Hsl) as ((Ty & Ev & Eh) & Mem & Sok). cbn [fst snd] in *. rewrite <- B2 in Mem.
  destruct (handle_c_step x1 rl sl Ty Mem Sok) as (A1 & A2 & A3 & A4 & A5 & A6 & A7 & A8). cbn zeta in *. rewrite Ev, Eh in *.
  destruct (t_committed (tc_t x)) eqn:Ec0.
  { split; [apply A6; apply B6; reflexivity|discriminate]. }
  destruct (A7 en) as [R1 R2].
  - rewrite (is_preprepared_ext (tc_t x)); [exact Hpp|exact B1].
  - rewrite B3. exact Hctx.
  - rewrite B2. eapply isQ_mono; [exact Hw| |exact Q]. intros i Hi. apply memN_In.
    assert (HC : has_c (tc_t (handle_c c wm shut x1 rl sl true)) v h i = true).
    { destruct Hi as [<-|Hi].
      - apply A4. apply B4. exact Hown.
      - apply in_map_iff in Hi. destruct Hi as (q & <- & Hs). apply in_app_or in Hs. destruct Hs as [Hs|[<-|[]]]; [apply A4; apply B5; exact Hs|exact A5]. }
    unfold has_c in HC. exact HC.
  - split; [exact R1|]. intros _. destruct (t_committed (tc_t x1)) eqn:Ec1; [|apply R2; reflexivity].
    (* committed during the earlier deliveries: by the same argument on the prefix that committed *)
    apply A8. clear - Ec0 Ec1 Hds0 Hpp Hctx. subst x1. revert x Ec0 Ec1 Hds0 Hpp Hctx.
    induction ds0 as [|[r s] ds0 IH]; intros x Ec0 Ec1 Hds0 Hpp Hctx; cbn [deliver_commits fold_left] in *; [congruence|].
    destruct (Hds0 (r, s) (or_introl eq_refl)) as ((Ty & Ev & Eh) & Mem & Sok). cbn [fst snd] in *.
    destruct (handle_c_step x r s Ty Mem Sok) as (A1 & A2 & A3 & A4 & A5 & A6 & A7 & A8). cbn zeta in *. rewrite Ev, Eh in *.
    set (x1 := handle_c c wm shut x r s true) in *. fold (deliver_commits x1 ds0) in *.
    assert (Hds1 : forall q, In q ds0 -> is_for T_COMMIT v h q /\ isMember (t_cm (tc_t x1)) (s_id (snd q)) = true /\ s_ok (snd q) = true) by (intros q H0; rewrite A2; apply Hds0; right; exact H0).
    destruct (t_committed (tc_t x1)) eqn:Ec2.
    + destruct (deliver_commits_facts v h ds0 x1 Hds1) as (_ & _ & _ & _ & _ & _ & B7). apply B7.
      pose proof (handle_c_commits_vh x r s Ty Mem Sok Ec0 Ec2) as HH. rewrite Ev, Eh in HH. exact HH.
    + apply (IH x1 Ec2 Ec1 Hds1); [rewrite (is_preprepared_ext (tc_t x)); [exact Hpp|exact A1]|rewrite A3; exact Hctx].
Qed.

(* PREPARE phase, one delivery *)
Lemma handle_p_step x r s : r_type r = T_PREPARE -> isMember (t_cm (tc_t x)) (s_id s) = true -> s_ok s = true ->
  tc_v x <= r_view r -> s_id s <> leaderOf (t_cm (tc_t x)) (r_view r) ->
  let x' := handle_p c wm shut x r s in
  t_pp (tc_t x') = t_pp (tc_t x) /\ t_cm (tc_t x') = t_cm (tc_t x) /\ t_h (tc_t x') = t_h (tc_t x) /\ tc_v x' = tc_v x /\
  (forall v h i, has_p (tc_t x) v h i = true -> has_p (tc_t x') v h i = true) /\
  has_p (tc_t x') (r_view r) (r_hash r) (s_id s) = true /\
  (lockv x = Some (r_view r) -> lockv x' = Some (r_view r)) /\
  (forall en, is_preprepared (tc_t x) (r_view r) (r_hash r) = Some en ->
     isQ_ids (t_cm (tc_t x)) (map s_id (bucket (t_p (tc_t x')) (r_view r) (r_hash r)) ++ [s_id (pe_snd en)]) = true -> lockv x' = Some (r_view r)) /\
  (forall v h i, has_c (tc_t x) v h i = true -> has_c (tc_t x') v h i = true) /\
  (lockv x' = Some (r_view r) -> (lockv x = Some (r_view r) -> has_c (tc_t x) (r_view r) (r_hash r) me = true) ->
     has_c (tc_t x') (r_view r) (r_hash r) me = true) /\
  incl (tc_out x) (tc_out x') /\ (t_committed (tc_t x) = true -> t_committed (tc_t x') = true).
Proof.
  intros Ty Mem Sok Hv Hl. cbn zeta.
  assert (UN : handle_p c wm shut x r s = check_prepared c wm shut (tc_set_t (store_p (r_view r) (r_hash r) s (tc_t x))
      (if has_p (tc_t x) (r_view r) (r_hash r) (s_id s) then x else tc_emit (OStore T_PREPARE (t_h (tc_t x)) (r_view r) (r_hash r) (s_id s)) x)) (r_view r) (r_hash r)).
  { unfold handle_p. rewrite Ty, N.eqb_refl, Mem, Sok. cbn [negb]. destruct (N.ltb_spec (r_view r) (tc_v x)); [lia|].
    destruct (N.eqb_spec (s_id s) (leaderOf (t_cm (tc_t x)) (r_view r))); [contradiction|reflexivity]. }
  rewrite UN. set (xa := tc_set_t _ _).
  assert (Ea : t_pp (tc_t xa) = t_pp (tc_t x) /\ t_cm (tc_t xa) = t_cm (tc_t x) /\ t_h (tc_t xa) = t_h (tc_t x) /\ tc_v xa = tc_v x /\ lockv xa = lockv x /\
               t_p (tc_t xa) = store_in (t_p (tc_t x)) (r_view r) (r_hash r) s /\ t_c (tc_t xa) = t_c (tc_t x) /\ t_committed (tc_t xa) = t_committed (tc_t x)).
  { subst xa. unfold lockv. cbn [tc_set_t tc_t tc_v store_p t_pp t_cm t_h t_prepared t_p t_c t_committed]. destruct (has_p _ _ _ _); cbn [tc_emit tc_v]; auto 10. }
  destruct Ea as (E1 & E2 & E3 & E4 & E5 & E6 & E7 & E8).
  destruct (check_prepared_own c wm shut xa (r_view r) (r_hash r)) as (_ & P2 & _ & _ & P5 & P6 & [P7 P7'] & _ & _ & _ & Pout & P11). cbn zeta in *.
  split; [congruence|]. split; [congruence|]. split; [congruence|]. split; [congruence|]. split.
  { intros v h i Hc. unfold has_p in *. rewrite P6, E6. apply memN_In. apply memN_In in Hc. apply in_map_iff in Hc. destruct Hc as (s0 & E0 & Hs0).
    apply in_map_iff. exists s0. split; [exact E0|]. apply In_bucket. apply incl_store_in. apply In_bucket. exact Hs0. }
  split. { unfold has_p. rewrite P6, E6. apply in_bucket_after_store. }
  split.
  { intro Hlk. destruct P11 as [(Q1 & _)|(_ & Q2 & _)]; [rewrite Q1, E5; exact Hlk|exact Q2]. }
  split.
  { intros en Hpp Q. unfold check_prepared.
    destruct (match t_prepared (tc_t xa) with Some pv => pv =? r_view r | None => false end) eqn:Epv.
    { unfold lockv. destruct (t_prepared (tc_t xa)) as [pv|]; [|discriminate]. apply N.eqb_eq in Epv. subst pv. reflexivity. }
    assert (Hpa : is_preprepared (tc_t xa) (r_view r) (r_hash r) = Some en) by (rewrite (is_preprepared_ext (tc_t x)); [exact Hpp|exact E1]).
    rewrite Hpa. rewrite P6 in Q. rewrite E2, Q.
    match goal with |- lockv (check_committed _ _ _ ?xx _ _) = _ => destruct (check_committed_own c wm shut xx (r_view r) (r_hash r)) as ([_ _ SL _ _ _ _ _ _] & _) end.
    cbn zeta in SL. rewrite SL. unfold lockv, send_all. cbn [tc_emit tc_set_t tc_t store_c set_prepared t_prepared]. reflexivity. }
  split.
  { intros v h i Hc. unfold has_c in *. apply memN_In. apply memN_In in Hc. apply in_map_iff in Hc. destruct Hc as (s0 & E0 & Hs0).
    apply in_map_iff. exists s0. split; [exact E0|]. apply In_bucket. apply In_bucket in Hs0. rewrite <- E7 in Hs0.
    destruct P11 as [(_ & Q2 & _)|(_ & _ & _ & _ & _ & _ & Q7 & _)]; [rewrite Q2; exact Hs0|apply Q7; exact Hs0]. }
  split.
  { intros Hlk Hold. destruct P11 as [(Q1 & Q2 & _)|(_ & _ & _ & _ & _ & _ & _ & Q8)].
    - unfold has_c. rewrite Q2, E7. apply Hold. rewrite <- E5, <- Q1. exact Hlk.
    - unfold has_c. rewrite Q8. apply (in_bucket_after_store _ (r_view r) (r_hash r) (my_sig c)). }
  split; [eapply incl_tran; [|exact Pout]; subst xa; cbn [tc_set_t tc_out]; destruct (has_p _ _ _ _); [apply incl_refl|cbn [tc_emit tc_out]; apply incl_tl, incl_refl]|].
  intro Hc. rewrite <- E8 in Hc. revert Hc. generalize xa. intros y Hc. unfold check_prepared.
  repeat (match goal with |- context [if ?b then _ else _] => destruct b | |- context [match ?b with Some _ => _ | None => _ end] => destruct b end); try exact Hc.
  all: unfold check_committed, send_all; cbn [tc_emit tc_set_t tc_t store_c set_prepared t_committed]; rewrite Hc; cbn [tc_emit tc_set_t tc_t store_c set_prepared t_committed]; exact Hc.
Qed.

Lemma handle_p_commits_vh x r s : t_committed (tc_t x) = false -> t_committed (tc_t (handle_p c wm shut x r s)) = true ->
  In (r_view r, r_hash r) (D (handle_p c wm shut x r s)).
Proof.
  intros Ec0. unfold handle_p.
  repeat (match goal with |- context [if ?b then _ else _] => destruct b end); try congruence.
  all: unfold check_prepared; cbn [tc_set_t tc_t store_p t_prepared].
  all: repeat (match goal with |- context [if ?b then _ else _] => destruct b | |- context [match ?b with Some _ => _ | None => _ end] => destruct b end);
       cbn [tc_set_t tc_t tc_emit store_p t_committed]; try congruence.
  all: unfold check_committed, send_all; cbn [tc_set_t tc_t tc_emit store_p store_c set_prepared t_committed]; rewrite ?Ec0.
  all: repeat (match goal with |- context [if ?b then _ else _] => destruct b | |- context [match ?b with Some _ => _ | None => _ end] => destruct b end);
       cbn [tc_set_t tc_t tc_emit store_p store_c set_prepared t_committed]; try congruence.
  all: intros _; unfold D, tc_committed; cbn [tc_out tc_emit tc_set_t flat_map decided_of mk_ref r_view r_hash app]; left; reflexivity.
Qed.

Definition deliver_prepares (x : tc) (ds : list (bref * ssig)) : tc := fold_left (fun x q => handle_p c wm shut x (fst q) (snd q)) ds x.

Definition p_ok (x : tc) (v h : N) (q : bref * ssig) : Prop :=
  is_for T_PREPARE v h q /\ isMember (t_cm (tc_t x)) (s_id (snd q)) = true /\ s_ok (snd q) = true /\ s_id (snd q) <> leaderOf (t_cm (tc_t x)) v.

Lemma deliver_prepares_facts v h ds : forall x,
  tc_v x <= v -> (forall q, In q ds -> p_ok x v h q) ->
  let x' := deliver_prepares x ds in
  t_pp (tc_t x') = t_pp (tc_t x) /\ t_cm (tc_t x') = t_cm (tc_t x) /\ t_h (tc_t x') = t_h (tc_t x) /\ tc_v x' = tc_v x /\
  (forall v h i, has_p (tc_t x) v h i = true -> has_p (tc_t x') v h i = true) /\
  (forall q, In q ds -> has_p (tc_t x') v h (s_id (snd q)) = true) /\
  (lockv x = Some v -> lockv x' = Some v) /\
  (forall v h i, has_c (tc_t x) v h i = true -> has_c (tc_t x') v h i = true) /\
  ((lockv x = Some v -> has_c (tc_t x) v h me = true) -> (lockv x' = Some v -> has_c (tc_t x') v h me = true)) /\
  incl (tc_out x) (tc_out x') /\ (t_committed (tc_t x) = true -> t_committed (tc_t x') = true) /\
  (t_committed (tc_t x) = false -> t_committed (tc_t x') = true -> In (v, h) (D x')).
Proof.
  induction ds as [|[r s] ds IH]; intros x Hv Hds; cbn zeta; cbn [deliver_prepares fold_left].
  - repeat split; auto; try apply incl_refl; try congruence; intros s [].
  - destruct (Hds (r, s) (or_introl eq_refl)) as ((Ty & Ev & Eh) & Mem & Sok & Nl). cbn [fst snd] in *. subst v h.
    destruct (handle_p_step x r s Ty Mem Sok Hv Nl) as (A1 & A2 & A3 & A4 & A5 & A6 & A7 & _ & A9 & A10 & A11 & A12). cbn zeta in *.
    set (x1 := handle_p c wm shut x r s) in *.
    assert (Hds1 : forall q, In q ds -> p_ok x1 (r_view r) (r_hash r) q) by (intros q H0; unfold p_ok; rewrite A2; apply Hds; right; exact H0).
    assert (Hv1 : tc_v x1 <= r_view r) by (rewrite A4; exact Hv).
    destruct (IH x1 Hv1 Hds1) as (B1 & B2 & B3 & B4 & B5 & B6 & B7 & B8 & B9 & B10 & B11 & B12). cbn zeta in *. fold (deliver_prepares x1 ds).
    split; [congruence|]. split; [congruence|]. split; [congruence|]. split; [congruence|]. split; [auto|]. split.
    { intros q [<-|H0]; [apply B5; exact A6|apply B6; exact H0]. }
    split; [auto|]. split; [auto|]. split; [|split; [eapply incl_tran; eauto|split; [auto|]]].
    { intros Hold Hlk. apply B9; [|exact Hlk]. intro Hlk1. apply A10; assumption. }
    intros Ec0 Ec1. destruct (t_committed (tc_t x1)) eqn:Ec2; [|apply B12; [reflexivity|exact Ec1]].
    pose proof (handle_p_commits_vh x r s Ec0 Ec2) as HH. fold x1 in HH.
    unfold D in *. apply in_flat_map in HH. destruct HH as (o & Ho & HH). apply in_flat_map. exists o. split; [apply B10; exact Ho|exact HH].
Qed.

(* PREPARE phase: a member in view v that holds the proposal (v, h) and receives the PREPAREs of members that, together
   with itself and the proposal's leader, weigh a quorum, is prepared in v afterwards - and has stored its own COMMIT *)
Theorem prepare_quorum_prepares x v h ds en : ds <> [] -> tc_v x <= v ->
  (forall q, In q ds -> p_ok x v h q) ->
  is_preprepared (tc_t x) v h = Some en ->
  (me <> s_id (pe_snd en) -> has_p (tc_t x) v h me = true) ->
  isQ_ids (t_cm (tc_t x)) (me :: map (fun q => s_id (snd q)) ds ++ [s_id (pe_snd en)]) = true -> total (t_cm (tc_t x)) < W64 ->
  lockv (deliver_prepares x ds) = Some v /\
  ((lockv x = Some v -> has_c (tc_t x) v h me = true) -> has_c (tc_t (deliver_prepares x ds)) v h me = true).
Proof.
  intros Hne Hv Hds Hpp Hown Q Hw.
  assert (L : lockv (deliver_prepares x ds) = Some v).
  { destruct (exists_last Hne) as (ds0 & [rl sl] & ->).
    unfold deliver_prepares. rewrite fold_left_app. cbn [fold_left fst snd]. fold (deliver_prepares x ds0).
    assert (Hds0 : forall q, In q ds0 -> p_ok x v h q) by (intros q H0; apply Hds; apply in_or_app; left; exact H0).
    destruct (deliver_prepares_facts v h ds0 x Hv Hds0) as (B1 & B2 & B3 & B4 & B5 & B6 & B7 & _). cbn zeta in *.
    set (x1 := deliver_prepares x ds0) in *.
    assert (Hsl : In (rl, sl) (ds0 ++ [(rl, sl)])) by (apply in_or_app; right; left; reflexivity).
    destruct (Hds _ Hsl) as ((Ty & Ev & Eh) & Mem & Sok & Nl). cbn [fst snd] in *. subst v h. rewrite <- B2 in Mem, Nl.
    assert (Hv1 : tc_v x1 <= r_view rl) by (rewrite B4; exact Hv).
    destruct (handle_p_step x1 rl sl Ty Mem Sok Hv1 Nl) as (A1 & A2 & A3 & A4 & A5 & A6 & A7 & A8 & _). cbn zeta in *.
    apply (A8 en).
    - rewrite (is_preprepared_ext (tc_t x)); [exact Hpp|exact B1].
    - rewrite B2. eapply isQ_mono; [exact Hw| |exact Q]. intros i Hi. apply in_or_app.
      destruct (N.eq_dec i (s_id (pe_snd en))) as [->|Hnl]; [right; left; reflexivity|left].
      assert (HP : has_p (tc_t (handle_p c wm shut x1 rl sl)) (r_view rl) (r_hash rl) i = true).
      { destruct Hi as [<-|Hi].
        - apply A5. apply B5. apply Hown. exact Hnl.
        - apply in_app_or in Hi. destruct Hi as [Hi|[<-|[]]]; [|contradiction].
          apply in_map_iff in Hi. destruct Hi as (q & <- & Hs). apply in_app_or in Hs. destruct Hs as [Hs|[<-|[]]]; [apply A5; apply B6; exact Hs|exact A6]. }
      unfold has_p in HP. apply memN_In. exact HP. }
  split; [exact L|]. intro Hold.
  destruct (deliver_prepares_facts v h ds x Hv Hds) as (_ & _ & _ & _ & _ & _ & _ & _ & B9 & _). cbn zeta in B9. apply B9; assumption.
Qed.

(* ---- accepting a proposal: what "joined view v and holds its proposal" means at one member ---- *)
Definition accepted (x : tc) (v h : N) : Prop :=
  tc_v x = v /\ (exists en, is_preprepared (tc_t x) v h = Some en /\ s_id (pe_snd en) = leaderOf (t_cm (tc_t x)) v) /\
  has_p (tc_t x) v h me = true /\ exists to, In (OSend to (MP (mk_ref T_PREPARE c (t_h (tc_t x)) v h) (my_sig c))) (tc_out x).

Lemma process_pp_joins x r s blk : tc_v x = r_view r -> get_pp (tc_t x) (r_view r) = None -> r_height r = t_h (tc_t x) ->
  s_id s = leaderOf (t_cm (tc_t x)) (r_view r) ->
  accepted (process_pp c wm shut x r s (Some blk)) (r_view r) (r_hash r).
Proof.
  intros Ev Hnone Hh Hl. unfold process_pp. rewrite Ev, N.eqb_refl. cbn [negb]. unfold send_all.
  set (v := r_view r) in *. set (h := r_hash r) in *. set (ent := {| pe_ref := r; pe_snd := s; pe_blk := Some blk |}).
  set (t0 := store_pp v ent (tc_t x)). set (t1 := store_p v h (my_sig c) t0).
  set (x0 := if has_pp (tc_t x) v then x else _). set (x0' := if has_p t0 v h me then x0 else _).
  assert (F0 : tc_t x0' = tc_t x /\ tc_v x0' = tc_v x).
  { subst x0' x0. destruct (has_p _ _ _ _), (has_pp _ _); split; reflexivity. }
  destruct F0 as (A1 & A2).
  set (x1 := tc_emit _ (tc_set_t t1 x0')).
  assert (T1 : t_h t1 = t_h (tc_t x) /\ t_cm t1 = t_cm (tc_t x) /\ t_p t1 = store_in (t_p (tc_t x)) v h (my_sig c) /\ get_pp t1 v = Some ent).
  { subst t1 t0. rewrite get_pp_store_p, get_pp_store_pp, Hnone, N.eqb_refl. unfold store_pp. rewrite Hnone. cbn. auto. }
  destruct T1 as (U1 & U2 & U3 & U4).
  destruct (check_prepared_own c wm shut x1 v h) as (_ & P2 & _ & _ & P5 & P6 & [P7 P7'] & _ & _ & _ & Pout & _). cbn zeta in *.
  assert (B1 : tc_t x1 = t1) by reflexivity. assert (B2 : tc_v x1 = tc_v x) by (subst x1; exact A2).
  split; [rewrite P2, B2; exact Ev|]. split.
  - exists ent. split; [|cbn [pe_snd]; rewrite P7', B1, U2; exact Hl].
    unfold is_preprepared. rewrite (get_pp_ext _ _ v P5), B1, U4. cbn [pe_blk pe_ref]. fold h. rewrite N.eqb_refl. reflexivity.
  - split.
    + unfold has_p. rewrite P6, B1, U3. apply (in_bucket_after_store _ v h (my_sig c)).
    + eexists. apply Pout. subst x1. cbn [tc_emit tc_out]. left. rewrite P7, B1, U1, <- Hh. reflexivity.
Qed.

(* a standalone PREPREPARE of the view's leader, received in that view with no proposal stored for it *)
Theorem preprepare_accepted x r s blk : tc_v x = r_view r -> get_pp (tc_t x) (r_view r) = None -> r_height r = t_h (tc_t x) ->
  r_type r = T_PREPREPARE -> r_inst r = c_inst c -> s_ok s = true -> s_id s = leaderOf (t_cm (tc_t x)) (r_view r) ->
  ctx_ok wm shut (r_height r, r_view r) = true -> validProposal me (r_height r) (Some blk) (r_hash r) = true ->
  accepted (handle_pp c wm shut x r s (Some blk)) (r_view r) (r_hash r).
Proof.
  intros Ev Hnone Hh Ty Hi Sok Hl Hctx Hvp. unfold handle_pp, validate_pp. rewrite Hnone, Ty, Hi, Sok, Hl, Ev, !N.eqb_refl, Hctx, Hvp. cbn [negb andb].
  apply process_pp_joins; assumption.
Qed.

(* a NEW_VIEW with a well-formed certificate, received in a view not above it with no proposal stored for it *)
Theorem new_view_accepted x ninst nh nvw vs sg pp pps blk :
  tc_v x <= nvw -> s_ok sg = true -> s_id sg = leaderOf (t_cm (tc_t x)) nvw ->
  votes_ok (tc_t x) nh nvw vs = true -> r_view pp = nvw -> r_height pp = nh -> nh = t_h (tc_t x) ->
  forallb (vote_valid c (t_cm (tc_t x)) (t_h (tc_t x))) vs = true ->
  validate_pp c (tc_t x) pp pps = true ->
  match latest_vote vs with
  | Some lv => exists p, v_proof lv = Some p /\ commitsTo nh (Some blk) (r_hash (pf_ppref p)) = true /\ r_hash pp = r_hash (pf_ppref p)
  | None => ctx_ok wm shut (t_h (tc_t x), tc_v x) = true /\ validProposal (c_me c) (r_height pp) (Some blk) (r_hash pp) = true
  end ->
  accepted (handle_nv c wm shut x T_NEW_VIEW ninst nh nvw vs sg pp pps (Some blk)) nvw (r_hash pp).
Proof.
  intros Hv Sok Sid VO Pv Ph Hnh VV VP BL. unfold handle_nv.
  destruct (N.ltb_spec nvw (tc_v x)); [lia|]. rewrite N.eqb_refl, Sok, Sid, N.eqb_refl, VO, Pv, Ph, !N.eqb_refl, VV, VP. cbn [negb].
  assert (K : accepted (match init_view nvw (tc_set_t (set_latest nvw (tc_t x)) x) with Some x1 => process_pp c wm shut x1 pp pps (Some blk) | None => tc_set_t (set_latest nvw (tc_t x)) x end) nvw (r_hash pp)).
  { unfold init_view. cbn [tc_set_t tc_v]. destruct (N.ltb_spec nvw (tc_v x)); [lia|].
    set (x1 := tc_emit _ _).
    assert (Hn0 : get_pp (tc_t x) (r_view pp) = None) by (apply (validate_pp_none c (tc_t x) pp pps VP)).
    rewrite <- Pv. apply process_pp_joins.
    - subst x1. cbn [tc_emit tc_set_v tc_v]. symmetry. exact Pv.
    - subst x1; cbn [tc_emit tc_set_v tc_set_t tc_t]. exact Hn0.
    - subst x1; cbn [tc_emit tc_set_v tc_set_t tc_t set_latest t_h]. congruence.
    - subst x1; cbn [tc_emit tc_set_v tc_set_t tc_t set_latest t_cm].
      unfold validate_pp in VP. rewrite Hn0 in VP. apply andb_true_iff in VP. destruct VP as [_ VP]. apply N.eqb_eq in VP. exact VP. }
  destruct (latest_vote vs) as [lv|].
  - destruct BL as (p & Ep & Cm & Eh). rewrite Ep, Cm, Eh, N.eqb_refl. cbn [negb]. rewrite <- Eh. exact K.
  - destruct BL as [Cx Vp]. rewrite ?Ph in Vp. rewrite Cx, Vp. cbn [negb]. exact K.
Qed.

(* the leader's side: the NEW_VIEW it sends on being elected leaves it in the view, holding its own proposal *)
Lemma on_elected_leader_holds x v vs o : is_mnv o = true -> In o (tc_out (on_elected c wm shut x v vs)) -> ~ In o (tc_out x) ->
  get_pp (tc_t x) v = None ->
  let x' := on_elected c wm shut x v vs in
  tc_v x' = v /\ exists b h, o = OSend (others c (t_cm (tc_t x))) (MNV T_NEW_VIEW (c_inst c) (t_h (tc_t x)) v (map fst vs) (my_sig c) (mk_ref T_PREPREPARE c (t_h (tc_t x)) v h) (my_sig c) (Some b)) /\
    is_preprepared (tc_t x') v h = Some {| pe_ref := mk_ref T_PREPREPARE c (t_h (tc_t x)) v h; pe_snd := my_sig c; pe_blk := Some b |}.
Proof.
  intros Ho Hin Hnot Hnone. cbn zeta. revert Hin. unfold on_elected, init_view. cbn [tc_set_t tc_v].
  destruct (N.ltb _ _); [intro Hin; contradiction|].
  assert (G : forall en t, get_pp t v = None -> is_preprepared (store_pp v en t) v (r_hash (pe_ref en)) = match pe_blk en with Some _ => Some en | None => None end).
  { intros en t Hn. unfold is_preprepared. rewrite get_pp_store_pp, Hn, N.eqb_refl. destruct (pe_blk en); [rewrite N.eqb_refl|]; reflexivity. }
  destruct (latest_block vs) as [[b h]|] eqn:El.
  - unfold send_all. cbn [tc_emit tc_set_t tc_set_v tc_out tc_t set_latest t_h t_cm tc_v].
    match goal with |- context [store_pp v ?en ?t0] => assert (Ecm : t_cm (store_pp v en t0) = t_cm (tc_t x)) by (unfold store_pp; destruct (get_pp _ _); reflexivity) end.
    rewrite Ecm. intros [<-|Hin].
    + split; [destruct (has_pp _ _); reflexivity|]. exists b, h. split; [reflexivity|]. apply (G {| pe_ref := mk_ref T_PREPREPARE c (t_h (tc_t x)) v h; pe_snd := my_sig c; pe_blk := Some b |}). exact Hnone.
    + exfalso. destruct (has_pp _ _); cbn [tc_emit tc_out] in Hin; repeat (destruct Hin as [Hin|Hin]; [subst o; discriminate Ho|]); contradiction.
  - destruct (negb _).
    + cbn [tc_emit tc_set_v tc_set_t tc_out]. intros [Hin|Hin]; [subst o; discriminate Ho|contradiction].
    + unfold send_all. cbn [tc_bump tc_emit tc_set_t tc_set_v tc_out tc_t set_latest t_h t_cm tc_fresh tc_v].
      match goal with |- context [store_pp v ?en ?t0] => assert (Ecm : t_cm (store_pp v en t0) = t_cm (tc_t x)) by (unfold store_pp; destruct (get_pp _ _); reflexivity) end.
      rewrite Ecm. intros [<-|Hin].
      * split; [destruct (has_pp _ _); reflexivity|]. eexists; eexists. split; [reflexivity|].
        match goal with |- is_preprepared (store_pp v ?en ?t0) _ _ = _ => apply (G en t0) end. exact Hnone.
      * exfalso. destruct (has_pp _ _); cbn [tc_emit tc_out] in Hin; repeat (destruct Hin as [Hin|Hin]; [subst o; discriminate Ho|]); contradiction.
Qed.
End Live.

(* sender and receiver together: the NEW_VIEW a correct elected leader sends makes every correct member whose view is
   not higher and that has no proposal for the view accept it (move to the view, store the proposal, PREPARE it) *)
Theorem honest_new_view_is_accepted cs cr wm shut xa v o wm' shut' xr :
  SInv cs xa -> vinv (tc_t xa) -> is_mnv o = true ->
  In o (tc_out (check_elected cs wm shut xa v)) -> ~ In o (tc_out xa) ->
  leaderOf (t_cm (tc_t xa)) v = c_me cs ->
  c_inst cr = c_inst cs -> t_cm (tc_t xr) = t_cm (tc_t xa) -> t_h (tc_t xr) = t_h (tc_t xa) ->
  tc_v xr <= v -> get_pp (tc_t xr) v = None ->
  exists to ty i h vs s pp pps b, o = OSend to (MNV ty i h v vs s pp pps b) /\
    (((forall vt, In vt vs -> v_proof vt = None) -> ctx_ok wm' shut' (t_h (tc_t xr), tc_v xr) = true /\ validProposal (c_me cr) h b (r_hash pp) = true) ->
     accepted cr (handle_nv cr wm' shut' xr ty i h v vs s pp pps b) v (r_hash pp)).
Proof.
  intros SI VI Ho Hin Hnot Hl Hinst Hcm Hh Hv Hnone.
  unfold check_elected in Hin. destruct (N.leb _ _); [contradiction|].
  destruct (votes_of (tc_t xa) v) as [|e0 r0] eqn:Ev; [contradiction|]. rewrite <- Ev in *.
  destruct (isQ_ids (t_cm (tc_t xa)) (map (fun e => s_id (v_snd (fst e))) (votes_of (tc_t xa) v))) eqn:Q; [|contradiction].
  destruct (on_elected_nv_shape cs wm shut xa v (votes_of (tc_t xa) v) o Ho Hin) as [?|(b & h & -> & LB)]; [contradiction|].
  set (vs := votes_of (tc_t xa) v) in *.
  do 9 eexists. split; [reflexivity|]. intros HB.
  assert (VG : forall vt ob, In (vt, ob) vs -> vc_good cs (tc_t xa) v vt ob) by (intros vt ob Hi; apply (si_vc _ _ SI); apply votes_of_In; exact Hi).
  change v with (r_view (mk_ref T_PREPREPARE cs (t_h (tc_t xa)) v h)) at 4.
  apply new_view_accepted; auto.
  - cbn. rewrite Hcm. symmetry. exact Hl.
  - unfold votes_ok. rewrite Hcm, map_map. rewrite Q. cbn [andb]. apply andb_true_iff. split.
    + apply forallb_forall. intros vt Hvt. apply in_map_iff in Hvt. destruct Hvt as ([vt' ob] & <- & Hi). destruct (VG _ _ Hi) as (A & B & _). cbn [fst]. rewrite A, B, !N.eqb_refl. reflexivity.
    + apply nodupN_NoDup. rewrite ?map_map. apply VI.
  - apply forallb_forall. intros vt Hvt. apply in_map_iff in Hvt. destruct Hvt as ([vt' ob] & <- & Hi). destruct (VG _ _ Hi) as (A & B & VS & _). cbn [fst].
    rewrite Hcm, Hh. apply vote_spec_valid. rewrite A. apply (vote_spec_inst cs cr); auto.
  - unfold validate_pp. cbn [mk_ref r_view r_type r_inst]. rewrite Hnone, !N.eqb_refl, Hinst, N.eqb_refl. cbn. rewrite Hcm, Hl, N.eqb_refl. reflexivity.
  - assert (CS : forall vt ob, In (vt, ob) vs -> (ob = None <-> v_proof vt = None)).
    { intros vt ob Hi. destruct (VG _ _ Hi) as (_ & _ & _ & M). destruct ob, (v_proof vt); try contradiction; split; intro; try discriminate; reflexivity. }
    pose proof (latest_same vs CS) as LS. unfold latest_block in LB.
    destruct (latest_block_aux vs) as [[[w q] b']|] eqn:Ea.
    + destruct LS as [LS1 LS2]. rewrite LS1. destruct LB as [LB|LB]; [|discriminate]. inversion LB; subst b' h. exists q. split; [exact LS2|].
      pose proof (latest_block_aux_spec vs) as SP. rewrite Ea in SP. destruct SP as (Hi & _ & _). destruct (VG _ _ Hi) as (_ & _ & VS & M). rewrite LS2 in M.
      destruct (vs_proof _ _ _ _ _ VS q LS2) as [_ _ _ [_ Sh] _ _ _ _ _]. split; [exact M|]. cbn [mk_ref r_hash]. exact Sh.
    + rewrite LS. apply HB. pose proof (latest_vote_spec (map fst vs)) as SP. rewrite LS in SP. exact SP.
Qed.
