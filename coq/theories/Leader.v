(* Leader.v — model of calcLeaderOfViewAndCommittee (term_in_committee.go), as repaired
   (unsigned modulo) and as originally coded (int(view) % len, two's-complement reinterpretation). *)
From LH Require Import Prims Quorum.
Open Scope N_scope.

(* index := uint64(view) % uint64(len(committee)) ; Go panics on modulo by zero *)
Definition leaderIndex (n : nat) (v : N) : option nat :=
  match n with O => None | _ => Some (N.to_nat (v mod N.of_nat n)) end.

Definition leader (cm : committee) (v : N) : option N :=
  match leaderIndex (length cm) v with
  | None => None
  | Some i => nth_error (ids cm) i
  end.

(* v0: index := int(view) % len(committee); committee[index] panics for a negative index.
   For view >= 2^63 int(view) = view - 2^64 < 0 and Go's % truncates toward zero. *)
Definition leaderIndex_v0 (n : nat) (v : N) : option nat :=
  match n with O => None | _ =>
    if N.ltb v (2^63) then Some (N.to_nat (v mod N.of_nat n))
    else if N.eqb ((W64 - v) mod N.of_nat n) 0 then Some O else None end.

Lemma leaderIndex_lt n v i : leaderIndex n v = Some i -> (i < n)%nat.
Proof.
  destruct n as [|n]; cbn [leaderIndex]; [discriminate|]. intro H; inversion H; subst; clear H.
  assert (Hlt : v mod N.of_nat (S n) < N.of_nat (S n)) by (apply N.mod_lt; lia).
  revert Hlt. generalize (v mod N.of_nat (S n)). intros m Hm. lia.
Qed.

Theorem leader_total cm v : cm <> [] -> exists id, leader cm v = Some id /\ In id (ids cm).
Proof.
  intro Hne. unfold leader. destruct (leaderIndex (length cm) v) as [i|] eqn:E.
  - pose proof (leaderIndex_lt _ _ _ E) as Hi.
    destruct (nth_error (ids cm) i) as [id|] eqn:En.
    + exists id. split; [reflexivity|]. eapply nth_error_In; exact En.
    + apply nth_error_None in En. unfold ids in En. rewrite map_length in En. exfalso. exact (Nat.lt_irrefl _ (Nat.lt_le_trans _ _ _ Hi En)).
  - destruct cm; [congruence|]. discriminate.
Qed.

Theorem leader_is_position cm v : cm <> [] ->
  leader cm v = nth_error (ids cm) (N.to_nat (v mod N.of_nat (length cm))).
Proof. intro Hne. unfold leader, leaderIndex. destruct cm; [congruence|]. reflexivity. Qed.

(* round robin: in any window of n consecutive views each position is hit exactly once *)
Lemma mod_window_inj n s j j' : 0 < n -> j < n -> j' < n ->
  (s + j) mod n = (s + j') mod n -> j = j'.
Proof.
  intros Hn Hj Hj' E.
  pose proof (N.div_mod (s + j) n ltac:(lia)) as D1.
  pose proof (N.div_mod (s + j') n ltac:(lia)) as D2.
  pose proof (N.mod_lt (s + j) n ltac:(lia)) as L1.
  rewrite E in D1. set (r := (s + j') mod n) in *. set (q1 := (s + j) / n) in *. set (q2 := (s + j') / n) in *.
  assert (q1 = q2) by nia. subst q1. nia.
Qed.

Lemma mod_window_surj n s k : 0 < n -> k < n -> exists j, j < n /\ (s + j) mod n = k.
Proof.
  intros Hn Hk. exists ((k + (n - s mod n)) mod n). split; [apply N.mod_lt; lia|].
  rewrite N.add_mod_idemp_r by lia.
  pose proof (N.div_mod s n ltac:(lia)) as D. pose proof (N.mod_lt s n ltac:(lia)) as L.
  replace (s + (k + (n - s mod n))) with (k + (s / n + 1) * n) by nia.
  rewrite N.mod_add by lia. apply N.mod_small. exact Hk.
Qed.

Theorem round_robin_exactly_once (cm : committee) (s : N) : cm <> [] ->
  forall n k, n = length cm -> (k < n)%nat ->
    exists j, (j < n)%nat /\ leaderIndex n (s + N.of_nat j) = Some k /\
      forall j', (j' < n)%nat -> leaderIndex n (s + N.of_nat j') = Some k -> j' = j.
Proof.
  intros Hne n k En Hk. assert (Hn : 0 < N.of_nat n) by (destruct cm; [congruence|subst n; cbn [length]; lia]).
  destruct (mod_window_surj (N.of_nat n) s (N.of_nat k) Hn ltac:(lia)) as [j [Hj Ej]].
  exists (N.to_nat j). split; [lia|]. rewrite N2Nat.id.
  assert (forall x, leaderIndex n x = Some (N.to_nat (x mod N.of_nat n))) as LI.
  { intro x. unfold leaderIndex. destruct n; [lia|reflexivity]. }
  split.
  - rewrite LI, Ej. f_equal. lia.
  - intros j' Hj' E'. rewrite LI in E'. inversion E' as [E2].
    assert ((s + N.of_nat j') mod N.of_nat n = N.of_nat k) as E3.
    { pose proof (N.mod_lt (s + N.of_nat j') (N.of_nat n) ltac:(lia)). lia. }
    assert (N.of_nat j' = j) by (apply (mod_window_inj (N.of_nat n) s); try lia; congruence). lia.
Qed.

Theorem leaderIndex_v0_refuted : exists n v, (4 <= n)%nat /\ v < W64 /\ leaderIndex_v0 n v = None.
Proof. exists 4%nat, (2^63 + 1). split; [lia|]. split; reflexivity. Qed.

Theorem leaderIndex_v0_agrees_below_2_63 n v : v < 2^63 -> leaderIndex_v0 n v = leaderIndex n v.
Proof. intro H. unfold leaderIndex_v0, leaderIndex. destruct n; [reflexivity|]. apply N.ltb_lt in H. rewrite H. reflexivity. Qed.

Example leader_nonvacuous :
  leader [(10,1);(11,1);(12,1);(13,1)] (W64 - 1) = Some 13 /\ leader [(10,1);(11,1);(12,1);(13,1)] 6 = Some 12.
Proof. split; reflexivity. Qed.
