(* ContextsFacts.v — registry laws for every operation sequence (C15a) and State monotonicity (C13a). *)
From LH Require Import Prims Contexts.
Open Scope N_scope.

Lemma hv_eqb_eq a b : hv_eqb a b = true <-> a = b.
Proof.
  destruct a as [a1 a2], b as [b1 b2]; unfold hv_eqb; cbn [fst snd].
  rewrite andb_true_iff, !N.eqb_eq. split; [intros [-> ->]; reflexivity|intro H; inversion H; auto].
Qed.

Lemma memHV_In x l : memHV x l = true <-> In x l.
Proof.
  induction l as [|y r IH]; cbn [memHV In]; [split; [discriminate|tauto]|].
  rewrite orb_true_iff, IH, hv_eqb_eq. split; intros [H|H]; auto.
Qed.

Definition hv_le (a b : hv) : Prop := hv_lt b a = false.

Lemma hv_lt_spec a b : hv_lt a b = true <-> (fst a < fst b \/ (fst a = fst b /\ snd a < snd b)).
Proof. unfold hv_lt. rewrite orb_true_iff, andb_true_iff, !N.ltb_lt, N.eqb_eq. tauto. Qed.

Lemma hv_lt_false a b : hv_lt a b = false <-> ~ (fst a < fst b \/ (fst a = fst b /\ snd a < snd b)).
Proof. rewrite <- hv_lt_spec. destruct (hv_lt a b); split; congruence. Qed.

Lemma hv_lt_trans a b c : hv_lt a b = true -> hv_lt b c = true -> hv_lt a c = true.
Proof. rewrite !hv_lt_spec. lia. Qed.

Lemma hv_lt_le_trans a b c : hv_lt a b = true -> hv_lt c b = false -> hv_lt a c = true.
Proof. rewrite hv_lt_false, !hv_lt_spec. lia. Qed.

Lemma hv_le_lt_trans a b c : hv_lt b a = false -> hv_lt b c = true -> hv_lt a c = true.
Proof. rewrite hv_lt_false, !hv_lt_spec. lia. Qed.

(* the arguments of the CancelOlderThan operations of a sequence *)
Fixpoint cancel_args (ops : list rop) : list hv :=
  match ops with [] => [] | RCancelOlder k :: r => k :: cancel_args r | _ :: r => cancel_args r end.
Fixpoint has_shutdown (ops : list rop) : bool :=
  match ops with [] => false | RShutdown :: _ => true | _ :: r => has_shutdown r end.

Lemma cancel_args_app a b : cancel_args (a ++ b) = cancel_args a ++ cancel_args b.
Proof. induction a as [|o a IH]; cbn; [reflexivity|]. destruct o; cbn; rewrite IH; reflexivity. Qed.
Lemma has_shutdown_app a b : has_shutdown (a ++ b) = has_shutdown a || has_shutdown b.
Proof. induction a as [|o a IH]; cbn; [reflexivity|]. destruct o; cbn; auto. Qed.

(* invariant of every reachable registry *)
Record reg_inv (ops : list rop) (r : registry) : Prop := {
  inv_shut : shut r = has_shutdown ops;
  inv_wm_none : wm r = None -> cancel_args ops = [];
  inv_wm_in : forall w, wm r = Some w -> In w (cancel_args ops);
  inv_wm_max : forall w x, wm r = Some w -> In x (cancel_args ops) -> hv_lt w x = false;
  inv_live_fresh : forall c w, In c (live r) -> wm r = Some w -> hv_lt c w = false;
  inv_live_issued : forall c, In c (live r) -> In c (issued r);
  inv_issued_split : forall c, In c (issued r) -> In c (live r) \/ In c (cancelled r);
  inv_cancelled_old : forall c, In c (cancelled r) -> exists x, In x (cancel_args ops) /\ hv_lt c x = true;
  inv_cancelled_issued : forall c, In c (cancelled r) -> In c (issued r);
  inv_live_nodup : NoDup (live r);
  inv_issued_nodup : NoDup (issued r)
}.

Lemma reg_inv_init : reg_inv [] reg_init.
Proof. constructor; cbn; try tauto; try discriminate; try constructor. Qed.

Lemma reg_for_new_state k r :
  snd (reg_for k r) = r \/
  (shut r = false /\ memHV k (live r) = false /\ (forall w, wm r = Some w -> hv_lt k w = false) /\
   snd (reg_for k r) = {| live := k :: live r; wm := wm r; shut := shut r; cancelled := cancelled r; issued := k :: issued r |}).
Proof.
  unfold reg_for. destruct (shut r) eqn:Es; [left; reflexivity|].
  destruct (wm r) as [w|] eqn:Ew.
  - destruct (hv_lt k w) eqn:El; [left; reflexivity|]. cbn [snd].
    destruct (memHV k (live r)) eqn:Em; [left; reflexivity|]. right. repeat split; auto.
    intros w' Hw'. inversion Hw'; subst; exact El.
  - cbn [snd]. destruct (memHV k (live r)) eqn:Em; [left; reflexivity|]. right. repeat split; auto. discriminate.
Qed.

Lemma reg_inv_step ops r o : reg_inv ops r -> reg_inv (ops ++ [o]) (reg_step r o).
Proof.
  intros I. destruct I. destruct o as [k|k|]; cbn [reg_step].
  - (* For *)
    assert (CA : cancel_args (ops ++ [RFor k]) = cancel_args ops) by (rewrite cancel_args_app; cbn; apply app_nil_r).
    assert (SH : has_shutdown (ops ++ [RFor k]) = has_shutdown ops) by (rewrite has_shutdown_app; cbn; apply orb_false_r).
    destruct (reg_for_new_state k r) as [E|(Es & Em & Ew & E)]; rewrite E.
    + constructor; rewrite ?CA, ?SH; auto.
    + assert (Hk : ~ In k (live r)) by (rewrite <- memHV_In; congruence).
      assert (Hki : ~ In k (issued r)).
      { intro Hi. destruct (inv_issued_split0 _ Hi) as [H|H]; [auto|].
        destruct (inv_cancelled_old0 _ H) as [x [Hx Hlt]].
        destruct (wm r) as [w|] eqn:Ewm.
        - pose proof (inv_wm_max0 w x eq_refl Hx) as Hm. pose proof (Ew w eq_refl) as Hkw.
          pose proof (hv_lt_le_trans _ _ _ Hlt Hm) as C. congruence.
        - rewrite (inv_wm_none0 eq_refl) in Hx. destruct Hx. }
      constructor; cbn [live wm shut cancelled issued]; rewrite ?CA, ?SH; auto.
      * intros c w [<-|Hc] Hw; [apply Ew; exact Hw|eapply inv_live_fresh0; eauto].
      * intros c [<-|Hc]; [left; reflexivity|right; auto].
      * intros c [<-|Hc]; [left; left; reflexivity|]. destruct (inv_issued_split0 _ Hc); [left; right; auto|right; auto].
      * intros c Hc. right. auto.
      * constructor; auto.
      * constructor; auto.
  - (* CancelOlderThan *)
    assert (CA : cancel_args (ops ++ [RCancelOlder k]) = cancel_args ops ++ [k]) by (rewrite cancel_args_app; reflexivity).
    assert (SH : has_shutdown (ops ++ [RCancelOlder k]) = has_shutdown ops) by (rewrite has_shutdown_app; cbn; apply orb_false_r).
    unfold reg_cancel_older.
    constructor; cbn [live wm shut cancelled issued]; rewrite ?CA, ?SH; auto.
    + destruct (wm r) as [w|]; [destruct (hv_lt w k)|]; discriminate.
    + intros w Hw. apply in_or_app. destruct (wm r) as [w0|] eqn:E.
      * destruct (hv_lt w0 k); inversion Hw; subst; [right; left; reflexivity|left; apply inv_wm_in0; reflexivity].
      * inversion Hw; subst. right; left; reflexivity.
    + intros w x Hw Hx. apply in_app_or in Hx. destruct (wm r) as [w0|] eqn:E.
      * destruct (hv_lt w0 k) eqn:El; inversion Hw; subst.
        -- destruct Hx as [Hx|[<-|[]]].
           ++ pose proof (inv_wm_max0 w0 x eq_refl Hx) as Hm.
              rewrite hv_lt_false in *. rewrite hv_lt_spec in El. lia.
           ++ rewrite hv_lt_false. lia.
        -- destruct Hx as [Hx|[<-|[]]]; [eapply inv_wm_max0; eauto|exact El].
      * inversion Hw; subst. destruct Hx as [Hx|[<-|[]]].
        -- rewrite (inv_wm_none0 eq_refl) in Hx. destruct Hx.
        -- rewrite hv_lt_false. lia.
    + intros c w Hc Hw. apply filter_In in Hc. destruct Hc as [Hc Hf]. apply negb_true_iff in Hf.
      destruct (wm r) as [w0|] eqn:E.
      * destruct (hv_lt w0 k) eqn:El; inversion Hw; subst; [exact Hf|eapply inv_live_fresh0; eauto].
      * inversion Hw; subst. exact Hf.
    + intros c Hc. apply filter_In in Hc. destruct Hc as [Hc _]. auto.
    + intros c Hc. destruct (inv_issued_split0 _ Hc) as [H|H].
      * destruct (hv_lt c k) eqn:El.
        -- right. apply in_or_app. left. apply filter_In. split; auto.
        -- left. apply filter_In. split; auto. rewrite El. reflexivity.
      * right. apply in_or_app. right. exact H.
    + intros c Hc. apply in_app_or in Hc. destruct Hc as [Hc|Hc].
      * apply filter_In in Hc. destruct Hc as [_ Hlt]. exists k. split; [apply in_or_app; right; left; reflexivity|exact Hlt].
      * destruct (inv_cancelled_old0 _ Hc) as [x [Hx Hlt]]. exists x. split; [apply in_or_app; left; exact Hx|exact Hlt].
    + intros c Hc. apply in_app_or in Hc. destruct Hc as [Hc|Hc]; [|auto].
      apply filter_In in Hc. destruct Hc as [Hc _]. auto.
    + apply NoDup_filter. exact inv_live_nodup0.
  - (* Shutdown *)
    assert (CA : cancel_args (ops ++ [RShutdown]) = cancel_args ops) by (rewrite cancel_args_app; cbn; apply app_nil_r).
    assert (SH : has_shutdown (ops ++ [RShutdown]) = true) by (rewrite has_shutdown_app; cbn; apply orb_true_r).
    unfold reg_shutdown. constructor; cbn [live wm shut cancelled issued]; rewrite ?CA, ?SH; auto.
Qed.

Theorem reg_inv_reachable ops : reg_inv ops (reg_run ops).
Proof.
  unfold reg_run. induction ops as [|o ops IH] using rev_ind; [apply reg_inv_init|].
  rewrite fold_left_app. cbn [fold_left]. apply reg_inv_step. exact IH.
Qed.

(* ---- the laws, for every operation sequence ---- *)

(* For fails iff shut down, or the key is older than some earlier CancelOlderThan argument *)
Theorem for_fails_iff ops k :
  fst (reg_for k (reg_run ops)) = false <->
  (has_shutdown ops = true \/ exists x, In x (cancel_args ops) /\ hv_lt k x = true).
Proof.
  pose proof (reg_inv_reachable ops) as I. destruct I. set (r := reg_run ops) in *.
  unfold reg_for. rewrite <- inv_shut0. destruct (shut r) eqn:Es.
  - cbn. split; auto.
  - destruct (wm r) as [w|] eqn:Ew.
    + destruct (hv_lt k w) eqn:El; cbn [fst].
      * split; [intros _; right; exists w; split; [apply inv_wm_in0; reflexivity|exact El]|reflexivity].
      * split; [discriminate|]. intros [H|[x [Hx Hlt]]]; [discriminate|].
        pose proof (inv_wm_max0 w x eq_refl Hx) as Hm. pose proof (hv_lt_le_trans _ _ _ Hlt Hm). congruence.
    + cbn [fst]. split; [discriminate|]. intros [H|[x [Hx _]]]; [discriminate|].
      rewrite (inv_wm_none0 eq_refl) in Hx. destruct Hx.
Qed.

(* a context is done iff Shutdown happened, or a CancelOlderThan with a newer argument came after it was created.
   Stated on states: after every sequence, an issued context is done iff shut down or it left the live set,
   and it leaves the live set exactly by a CancelOlderThan whose argument is newer. *)
Theorem ctx_done_iff ops k : In k (issued (reg_run ops)) ->
  (ctx_done (reg_run ops) k = true <-> (has_shutdown ops = true \/ ~ In k (live (reg_run ops)))).
Proof.
  intro Hi. pose proof (reg_inv_reachable ops) as I. destruct I. set (r := reg_run ops) in *.
  unfold ctx_done. rewrite orb_true_iff, andb_true_iff, !memHV_In, inv_shut0. split.
  - intros [Hc|[Hs _]]; [|left; exact Hs]. right. intro Hl.
    destruct (inv_cancelled_old0 _ Hc) as [x [Hx Hlt]].
    destruct (wm r) as [w|] eqn:Ew.
    + pose proof (inv_live_fresh0 _ _ Hl eq_refl) as F1. pose proof (inv_wm_max0 w x eq_refl Hx) as F2.
      pose proof (hv_lt_le_trans _ _ _ Hlt F2). congruence.
    + rewrite (inv_wm_none0 eq_refl) in Hx. destruct Hx.
  - intros [Hs|Hn]; [right; split; [exact Hs|exact Hi]|].
    destruct (inv_issued_split0 _ Hi); [contradiction|left; assumption].
Qed.

(* one CancelOlderThan step: exactly the live contexts older than the argument are cancelled and removed;
   contexts at or above the argument are untouched *)
Theorem cancel_older_effect k r c : In c (live r) ->
  (hv_lt c k = true -> ~ In c (live (reg_cancel_older k r)) /\ In c (cancelled (reg_cancel_older k r))) /\
  (hv_lt c k = false -> In c (live (reg_cancel_older k r)) /\ (In c (cancelled (reg_cancel_older k r)) -> In c (cancelled r))).
Proof.
  intro Hc. unfold reg_cancel_older. cbn [live cancelled]. split; intro Hlt.
  - split.
    + intro H. apply filter_In in H. destruct H as [_ H]. rewrite Hlt in H. discriminate.
    + apply in_or_app. left. apply filter_In. auto.
  - split.
    + apply filter_In. split; auto. rewrite Hlt. reflexivity.
    + intro H. apply in_app_or in H. destruct H as [H|H]; [|exact H].
      apply filter_In in H. destruct H as [_ H]. congruence.
Qed.

(* the watermark is the maximum of all CancelOlderThan arguments *)
Theorem watermark_is_max ops :
  match wm (reg_run ops) with
  | None => cancel_args ops = []
  | Some w => In w (cancel_args ops) /\ forall x, In x (cancel_args ops) -> hv_lt w x = false
  end.
Proof.
  pose proof (reg_inv_reachable ops) as I. destruct I. destruct (wm (reg_run ops)) as [w|] eqn:E.
  - split; [apply inv_wm_in0; reflexivity|intros x Hx; eapply inv_wm_max0; eauto].
  - apply inv_wm_none0. reflexivity.
Qed.

(* a context handed out is never stale: For never succeeds for a key below an earlier watermark, and a key
   gets at most one context in the whole run *)
Theorem one_context_per_key ops : NoDup (issued (reg_run ops)).
Proof. apply (reg_inv_reachable ops). Qed.

(* For and Shutdown cancel nothing that was not cancelled (Shutdown cancels through the parent, see ctx_done) *)
Theorem for_cancels_nothing k r : cancelled (snd (reg_for k r)) = cancelled r.
Proof. destruct (reg_for_new_state k r) as [E|(_ & _ & _ & E)]; rewrite E; reflexivity. Qed.

(* ---- State ---- *)
Definition st_le (a b : hvstate) : Prop := st_h a < st_h b \/ (st_h a = st_h b /\ st_v a <= st_v b).

Theorem st_step_monotone s o :
  st_le s (st_step s o) /\
  (st_h s < st_h (st_step s o) -> st_v (st_step s o) = 0) /\
  (st_h (st_step s o) = st_h s -> st_v s <= st_v (st_step s o)).
Proof.
  unfold st_le. destruct o as [h|v]; cbn [st_step].
  - unfold st_set_height. destruct (N.leb_spec h (st_h s)); cbn [snd st_h st_v]; lia.
  - unfold st_set_view. destruct (N.ltb_spec v (st_v s)); cbn [snd st_h st_v]; lia.
Qed.

Lemma st_le_trans a b c : st_le a b -> st_le b c -> st_le a c.
Proof. unfold st_le. lia. Qed.
Lemma st_le_refl a : st_le a a.
Proof. unfold st_le. lia. Qed.

Theorem st_run_monotone ops s : st_le s (fold_left st_step ops s).
Proof.
  revert s. induction ops as [|o ops IH]; intro s; cbn [fold_left]; [apply st_le_refl|].
  eapply st_le_trans; [apply st_step_monotone|apply IH].
Qed.

Example registry_nonvacuous :
  let r := reg_run [RFor (3,0); RFor (3,5); RCancelOlder (3,1); RFor (3,0); RFor (4,0)] in
  live r = [(4,0); (3,5)] /\ ctx_done r (3,0) = true /\ ctx_done r (3,5) = false /\ fst (reg_for (3,0) r) = false.
Proof. vm_compute. repeat split; reflexivity. Qed.

(* after Shutdown every request is refused, however many follow and whatever else happens in between (the model's
   operations are total functions: nothing is left locked; the registry engine watches the real ones return) *)
Theorem refused_after_shutdown ops1 ops2 k : fst (reg_for k (reg_run (ops1 ++ RShutdown :: ops2))) = false.
Proof.
  apply for_fails_iff. left. rewrite has_shutdown_app. cbn [has_shutdown]. apply orb_true_r.
Qed.
