(* WireLH.v — the lean-helix schemas (spec/types/go/protocol/lean_helix.mb.go) over Wire.v: typed encoders that
   mirror the generated builders / message factory, and typed decoders that mirror the generated readers as the
   handlers use them (interfaces.ToConsensusMessage, BlockProofReader). Member ids, hashes, signatures and shares
   are byte strings here. *)
From LH Require Import Prims Wire.
Open Scope N_scope.

Record wsig := { ws_id : bytes; ws_sig : bytes }.                                    (* SenderSignature *)
Record wref := { wr_inst : N; wr_type : N; wr_height : N; wr_view : N; wr_hash : bytes }.   (* BlockRef *)
Record wproof := { wp_ppref : wref; wp_ppsnd : wsig; wp_pref : wref; wp_psnds : list wsig }.
Record wvote := { wv_inst : N; wv_type : N; wv_height : N; wv_view : N; wv_proof : option wproof; wv_snd : wsig }.
Inductive wmsg :=
| WPP (r : wref) (s : wsig)
| WP (r : wref) (s : wsig)
| WC (r : wref) (s : wsig) (share : bytes)
| WVC (v : wvote)
| WNV (inst ty height view : N) (votes : list wvote) (s : wsig) (pp : wref) (pps : wsig).
Record wblockproof := { bp_ref : wref; bp_nodes : list wsig; bp_seed : bytes }.

Definition SIG_SCH := [TBytes; TBytes].
Definition REF_SCH := [TU64; TU16; TU64; TU64; TBytes].
Definition PROOF_SCH := [TMsg; TMsg; TMsg; TMsgArr].
Definition VCHDR_SCH := [TU64; TU16; TU64; TU64; TMsg].
Definition VOTE_SCH := [TMsg; TMsg].
Definition NVHDR_SCH := [TU64; TU16; TU64; TU64; TMsgArr].
Definition PP_SCH := [TMsg; TMsg].
Definition C_SCH := [TMsg; TMsg; TBytes].
Definition NV_SCH := [TMsg; TMsg; TMsg].
Definition BP_SCH := [TMsg; TMsgArr; TBytes].

(* ---- builders ---- *)
Definition enc_sig (s : wsig) : bytes := encode [VBytes (ws_id s); VBytes (ws_sig s)].
Definition enc_ref (r : wref) : bytes :=
  encode [VU64 (wr_inst r); VU16 (wr_type r); VU64 (wr_height r); VU64 (wr_view r); VBytes (wr_hash r)].
Definition enc_proof (op : option wproof) : bytes :=
  match op with
  | None => []                                            (* nil builder: nothing is written *)
  | Some p => encode [VMsg (enc_ref (wp_ppref p)); VMsg (enc_sig (wp_ppsnd p)); VMsg (enc_ref (wp_pref p));
                      VMsgArr (map enc_sig (wp_psnds p))]
  end.
Definition enc_vchdr (v : wvote) : bytes :=
  encode [VU64 (wv_inst v); VU16 (wv_type v); VU64 (wv_height v); VU64 (wv_view v); VMsg (enc_proof (wv_proof v))].
Definition enc_vote (v : wvote) : bytes := encode [VMsg (enc_vchdr v); VMsg (enc_sig (wv_snd v))].
Definition enc_nvhdr (inst ty height view : N) (votes : list wvote) : bytes :=
  encode [VU64 inst; VU16 ty; VU64 height; VU64 view; VMsgArr (map enc_vote votes)].
Definition enc_ppcontent (r : wref) (s : wsig) : bytes := encode [VMsg (enc_ref r); VMsg (enc_sig s)].

(* CreateConsensusRawMessage(...).Content *)
Definition enc_msg (m : wmsg) : bytes :=
  match m with
  | WPP r s => encode_union 0 (enc_ppcontent r s)
  | WP r s => encode_union 1 (enc_ppcontent r s)
  | WC r s sh => encode_union 2 (encode [VMsg (enc_ref r); VMsg (enc_sig s); VBytes sh])
  | WVC v => encode_union 3 (enc_vote v)
  | WNV i t h v vs s pp pps =>
      encode_union 4 (encode [VMsg (enc_nvhdr i t h v vs); VMsg (enc_sig s); VMsg (enc_ppcontent pp pps)])
  end.
Definition enc_blockproof (p : wblockproof) : bytes :=
  encode [VMsg (enc_ref (bp_ref p)); VMsgArr (map enc_sig (bp_nodes p)); VBytes (bp_seed p)].

(* the bytes a signature is made over / verified over: header.Raw() *)
Definition signed_bytes_ref (r : wref) : bytes := enc_ref r.
Definition signed_bytes_vote (v : wvote) : bytes := enc_vchdr v.
Definition signed_bytes_nv (i t h v : N) (vs : list wvote) : bytes := enc_nvhdr i t h v vs.

(* ---- readers ---- *)
Definition dec_sig (bs : bytes) : wsig := {| ws_id := get_dyn bs SIG_SCH 0; ws_sig := get_dyn bs SIG_SCH 1 |}.
Definition dec_ref (bs : bytes) : wref :=
  {| wr_inst := get_u64 bs REF_SCH 0; wr_type := get_u16 bs REF_SCH 1; wr_height := get_u64 bs REF_SCH 2;
     wr_view := get_u64 bs REF_SCH 3; wr_hash := get_dyn bs REF_SCH 4 |}.
Definition dec_proof (bs : bytes) : option wproof :=
  match bs with
  | [] => None                                            (* len(Raw()) == 0: no proof *)
  | _ => Some {| wp_ppref := dec_ref (get_dyn bs PROOF_SCH 0); wp_ppsnd := dec_sig (get_dyn bs PROOF_SCH 1);
                 wp_pref := dec_ref (get_dyn bs PROOF_SCH 2); wp_psnds := map dec_sig (get_arr bs PROOF_SCH 3) |}
  end.
Definition dec_vote (bs : bytes) : wvote :=
  let h := get_dyn bs VOTE_SCH 0 in
  {| wv_inst := get_u64 h VCHDR_SCH 0; wv_type := get_u16 h VCHDR_SCH 1; wv_height := get_u64 h VCHDR_SCH 2;
     wv_view := get_u64 h VCHDR_SCH 3; wv_proof := dec_proof (get_dyn h VCHDR_SCH 4); wv_snd := dec_sig (get_dyn bs VOTE_SCH 1) |}.
(* interfaces.ToConsensusMessage *)
Definition dec_msg (bs : bytes) : option wmsg :=
  match decode_union bs with
  | None => None
  | Some (idx, c) =>
    if N.eqb idx 0 then Some (WPP (dec_ref (get_dyn c PP_SCH 0)) (dec_sig (get_dyn c PP_SCH 1)))
    else if N.eqb idx 1 then Some (WP (dec_ref (get_dyn c PP_SCH 0)) (dec_sig (get_dyn c PP_SCH 1)))
    else if N.eqb idx 2 then Some (WC (dec_ref (get_dyn c C_SCH 0)) (dec_sig (get_dyn c C_SCH 1)) (get_dyn c C_SCH 2))
    else if N.eqb idx 3 then Some (WVC (dec_vote c))
    else let h := get_dyn c NV_SCH 0 in let pp := get_dyn c NV_SCH 2 in
         Some (WNV (get_u64 h NVHDR_SCH 0) (get_u16 h NVHDR_SCH 1) (get_u64 h NVHDR_SCH 2) (get_u64 h NVHDR_SCH 3)
                   (map dec_vote (get_arr h NVHDR_SCH 4)) (dec_sig (get_dyn c NV_SCH 1))
                   (dec_ref (get_dyn pp PP_SCH 0)) (dec_sig (get_dyn pp PP_SCH 1)))
  end.
Definition dec_blockproof (bs : bytes) : wblockproof :=
  {| bp_ref := dec_ref (get_dyn bs BP_SCH 0); bp_nodes := map dec_sig (get_arr bs BP_SCH 1); bp_seed := get_dyn bs BP_SCH 2 |}.
