(* LiveElectEx.v — the hypotheses of LiveElect.synchronised_view_change_commits_fresh are satisfiable: in the four-member
   world of WorldKF1 (member 1 Byzantine) the correct members 0, 2, 3 time out of view 0 (their votes go to the Byzantine
   leader of view 1 and are lost); they sit in view 1, unprepared, and the leader of view 2 - member 2 - holds no vote.
   The theorem yields a continuation (their timeouts of view 1, their votes to member 2, its NEW_VIEW, the PREPAREs, the
   COMMITs) at whose end all three have committed. *)
From LH Require Import Prims Quorum QuorumFacts Contexts Msg Term TermFacts AbsSafety Own World WorldKF1 Live LiveWorld LiveWorldEx Elect LiveElect LiveRound.
Open Scope N_scope.

Definition stuck_run : list (N * tev) := timeouts 1 0 Q3.

Lemma stuck_is_a_run : wrun 1 cm4 honest4 cfg4 nowm noshut fresh0 lead1 stuck_run.
Proof.
  assert (Qnd : NoDup Q3) by (repeat constructor; cbn; intuition discriminate).
  assert (Qgood : forall i, In i Q3 -> good cm4 honest4 i) by (intros i [<-|[<-|[<-|[]]]]; split; reflexivity).
  destruct (fire_all 1 cm4 total4 honest4 cfg4 (fun _ => eq_refl) nowm noshut fresh0 lead1 0 Q3 [] (wrun_nil _ _ _ _ _ _ _ _) Qnd Qgood) as (A & _). exact A.
Qed.

Example fresh_view_change_example :
  exists ext, wrun 1 cm4 honest4 cfg4 nowm noshut fresh0 lead1 (stuck_run ++ ext) /\
    forall i, In i Q3 -> t_committed (tc_t (nstate 1 cm4 cfg4 nowm noshut fresh0 lead1 i stuck_run)) = false /\
                        t_committed (tc_t (nstate 1 cm4 cfg4 nowm noshut fresh0 lead1 i (stuck_run ++ ext))) = true.
Proof.
  assert (Qnd : NoDup Q3) by (repeat constructor; cbn; intuition discriminate).
  assert (Qgood : forall i, In i Q3 -> good cm4 honest4 i) by (intros i [<-|[<-|[<-|[]]]]; split; reflexivity).
  assert (Qq : isQ_ids cm4 Q3 = true) by (vm_compute; reflexivity).
  assert (LdQ : In (leaderOf cm4 (1 + 1)) Q3) by (vm_compute; auto).
  assert (Qthird : forall i, In i Q3 -> exists j, In j Q3 /\ j <> i /\ j <> leaderOf cm4 (1 + 1)).
  { intros i [<-|[<-|[<-|[]]]]; [exists 3|exists 0|exists 0]; cbn [Q3 In]; (split; [auto|split; [discriminate|vm_compute; discriminate]]). }
  destruct (synchronised_view_change_commits_fresh 1 cm4 total4 honest4 cfg4 (fun _ => eq_refl) nowm noshut fresh0 lead1 Q3 1 ltac:(vm_compute; reflexivity)
              Qnd Qgood Qq LdQ ltac:(intros i _; reflexivity) Qthird stuck_run stuck_is_a_run) as (ext & A & _ & C0).
  - intros i [<-|[<-|[<-|[]]]]; split; vm_compute; reflexivity.
  - vm_compute. reflexivity.
  - exists ext. split; [exact A|]. intros i Hi. split; [|apply (C0 i Hi)].
    destruct Hi as [<-|[<-|[<-|[]]]]; vm_compute; reflexivity.
Qed.

(* from the very start of height 1 in the four-member world (member 1 Byzantine): the three correct members are idle in
   view 0; the leader of view 1 is the Byzantine member, the leader of view 2 is member 2: the theorem's continuation -
   two rounds of timeouts, the votes, the NEW_VIEW, PREPAREs, COMMITs - ends with all three committed *)
Example lockstep_example :
  exists ext, wrun 1 cm4 honest4 cfg4 nowm noshut fresh0 lead1 ([] ++ ext) /\
    forall i, In i Q3 -> t_committed (tc_t (nstate 1 cm4 cfg4 nowm noshut fresh0 lead1 i ([] ++ ext))) = true.
Proof.
  assert (Qnd : NoDup Q3) by (repeat constructor; cbn; intuition discriminate).
  assert (Qgood : forall i, In i Q3 -> good cm4 honest4 i) by (intros i [<-|[<-|[<-|[]]]]; split; reflexivity).
  assert (Qq : isQ_ids cm4 Q3 = true) by (vm_compute; reflexivity).
  assert (Qthree : forall i l, In i Q3 -> exists j, In j Q3 /\ j <> i /\ j <> l).
  { intros i l Hi. destruct (N.eq_dec l 0) as [->|L0]; [destruct (N.eq_dec i 2) as [->|I2]; [exists 3|exists 2]|destruct (N.eq_dec i 0) as [->|I0]; [destruct (N.eq_dec l 2) as [->|L2]; [exists 3|exists 2]|exists 0]];
    cbn [Q3 In]; repeat split; auto; try discriminate; try congruence.
    all: destruct Hi as [<-|[<-|[<-|[]]]]; congruence. }
  destruct (lockstep_timeouts_commit_within_n_views 1 cm4 total4 honest4 cfg4 (fun _ => eq_refl) nowm noshut fresh0 lead1 Q3 Qnd Qgood Qq
              ltac:(intros; reflexivity) Qthree 0 [] (wrun_nil _ _ _ _ _ _ _ _) ltac:(discriminate) ltac:(vm_compute; reflexivity)) as (ext & A & _ & C0).
  - intros i [<-|[<-|[<-|[]]]]; (split; [vm_compute; reflexivity|split; [vm_compute; reflexivity|intros w Hw; vm_compute; reflexivity]]).
  - exists ext. split; [exact A|exact C0].
Qed.
