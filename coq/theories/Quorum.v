(* Quorum.v — executable model of services/quorum/quorum.go (as repaired: integer calcF).
   A committee is a list of (member id, weight); ids are interned to N by the harness.
   Go's `uint` sums wrap modulo 2^64 and the model writes the wrap explicitly. *)
From LH Require Import Prims.
Open Scope N_scope.

Definition member := (N * N)%type.          (* id, weight *)
Definition committee := list member.

Definition ids (cm : committee) : list N := map fst cm.
Definition weights (cm : committee) : list N := map snd cm.

(* sum += uint(weight), with wrap *)
Definition sum64 (ws : list N) : N := fold_left add64 ws 0.

(* calcF(totalWeight) = (totalWeight-1)/3 ; only called with totalWeight > 0 *)
Definition calcF (total : N) : N := (total - 1) / 3.

Definition calcQuorumWeight (ws : list N) : N :=
  let s := sum64 ws in if N.eqb s 0 then 1 else s - calcF s.

Definition calcByzMaxWeight (ws : list N) : N :=
  let s := sum64 ws in if N.eqb s 0 then 0 else calcF s.

(* getCommitteeSubsetWeight: every committee entry whose id occurs in the subset adds its weight *)
Definition subsetWeight (subset : list N) (cm : committee) : N :=
  sum64 (map snd (filter (fun m => memN (fst m) subset) cm)).

Definition isQuorum (subset : list N) (cm : committee) : bool * N * N :=
  let w := subsetWeight subset cm in
  let q := calcQuorumWeight (weights cm) in (N.leb q w, w, q).

Definition hasHonest (subset : list N) (cm : committee) : bool * N * N :=
  let w := subsetWeight subset cm in
  let b := calcByzMaxWeight (weights cm) in (N.ltb b w, w, b).

Definition isQ (subset : list N) (cm : committee) : bool := fst (fst (isQuorum subset cm)).
Definition hasH (subset : list N) (cm : committee) : bool := fst (fst (hasHonest subset cm)).

(* ---- the function as coded before the repair (float64 path), kept as a regression witness ---- *)
(* nearest integer to p/q, ties to even (q > 0) *)
Definition rne_div (p q : N) : N :=
  let d := p / q in let r := p mod q in
  match N.compare (2 * r) q with
  | Lt => d | Gt => d + 1 | Eq => if N.even d then d else d + 1 end.

(* p / (q * 2^e) as a fraction of naturals *)
Definition scaled (p q : N) (e : Z) : N * N :=
  match e with Z0 => (p, q) | Zpos k => (p, q * 2 ^ (Npos k)) | Zneg k => (p * 2 ^ (Npos k), q) end.

(* round the positive rational p/q to 53 significant bits (round to nearest, ties to even);
   the result (m, e) stands for m * 2^e with 2^52 <= m <= 2^53 *)
Definition rne53 (p q : N) : N * Z :=
  if N.eqb p 0 then (0, 0%Z) else
  let e0 := (Z.of_N (N.log2 p) - Z.of_N (N.log2 q) - 53)%Z in
  let ab := scaled p q e0 in
  let e := if N.leb (2 ^ 53) (fst ab / snd ab) then (e0 + 1)%Z else e0 in
  let ab' := scaled p q e in
  (rne_div (fst ab') (snd ab'), e).

Definition fl_value_floor (me : N * Z) : N :=
  match snd me with
  | Z0 => fst me
  | Zpos k => fst me * 2 ^ (Npos k)
  | Zneg k => fst me / 2 ^ (Npos k) end.

(* uint(math.Floor(float64(total-1) / 3)) *)
Definition calcF_float (total : N) : N :=
  let x := rne53 (total - 1) 1 in                       (* float64(total-1) *)
  let xv_m := fst x in let xv_e := snd x in
  (* x / 3 rounded: value = m*2^e / 3 *)
  let ab := scaled xv_m 3 (- xv_e)%Z in
  let y := rne53 (fst ab) (snd ab) in
  fl_value_floor y.
