(* TimerFacts.v — trigger discipline of the election timer for every interleaving of RegisterOnElection / Stop calls
   with timer expiry and (slow or absent) channel readers: C19 part (b). *)
From LH Require Import Prims Timer.
Open Scope N_scope.

Lemma nth_upd_same {A} (l : list A) i f x : nth_error l i = Some x -> nth_error (upd l i f) i = Some (f x).
Proof. revert i; induction l as [|a r IH]; intros [|i] H; cbn in *; try discriminate; [inversion H; reflexivity|apply IH; exact H]. Qed.
Lemma nth_upd_other {A} (l : list A) i j f : i <> j -> nth_error (upd l i f) j = nth_error l j.
Proof. revert i j; induction l as [|a r IH]; intros [|i] [|j] H; cbn; try reflexivity; try congruence. apply IH. congruence. Qed.
Lemma upd_length {A} (l : list A) i f : length (upd l i f) = length l.
Proof. revert i; induction l as [|a r IH]; intros [|i]; cbn; try reflexivity. rewrite IH. reflexivity. Qed.
Lemma nth_upd {A} (l : list A) i j f : nth_error (upd l i f) j = if Nat.eqb i j then option_map f (nth_error l j) else nth_error l j.
Proof.
  destruct (Nat.eqb_spec i j) as [->|Hne]; [|apply nth_upd_other; exact Hne].
  destruct (nth_error l j) as [x|] eqn:E; [apply nth_upd_same; exact E|].
  apply nth_error_None. rewrite upd_length. apply nth_error_None. exact E.
Qed.

(* an instance that can no longer hand over a trigger *)
Definition dead (x : tinst) : Prop :=
  ti_phase x = TStoppedBeforeFire \/ (ti_cancelled x = true /\ ti_phase x = TRunning) \/ ti_phase x = TDone.
(* an instance that was cancelled after it passed the first select: the second select may still pick the send *)
Definition limbo (x : tinst) : Prop := ti_phase x = TSending /\ ti_cancelled x = true.

Record TmInv (s : tstate) : Prop := {
  tv_cur : forall i, tm_cur s = Some i -> exists x, nth_error (tm_insts s) i = Some x /\ ti_h x = tm_h s /\ ti_v x = tm_v s /\ tm_handler s = true;
  tv_dead : forall j x, nth_error (tm_insts s) j = Some x -> tm_cur s <> Some j -> dead x \/ limbo x;
  tv_deliv : forall i h v, In (i, h, v) (tm_delivered s) -> exists x, nth_error (tm_insts s) i = Some x /\ ti_h x = h /\ ti_v x = v /\ ti_phase x = TDone;
  tv_nodup : NoDup (map (fun d => fst (fst d)) (tm_delivered s));
  tv_pending : forall j x, nth_error (tm_insts s) j = Some x -> ti_phase x = TPending -> ti_cancelled x = false
}.

Lemma TmInv_init : TmInv tm_init.
Proof.
  constructor; cbn [tm_init tm_cur tm_insts tm_delivered map]; try (intros; discriminate); try (intros; contradiction); try constructor.
  all: try (match goal with H : nth_error [] ?j = Some _ |- _ => destruct j; discriminate H end).
  all: intros j x H; destruct j; discriminate H.
Qed.

Lemma stop_inv s : TmInv s -> TmInv (tm_stop s).
Proof.
  intros [H1 H2 H3 H4 H5]. unfold tm_stop. destruct (tm_cur s) as [i|] eqn:Ec.
  - destruct (H1 i eq_refl) as (x & Ex & _).
    constructor; cbn [tm_cur tm_insts tm_delivered tm_handler tm_h tm_v]; auto; try (intros; discriminate).
    + intros j y Ey _. rewrite nth_upd in Ey. destruct (Nat.eqb_spec i j) as [->|Hne].
      * rewrite Ex in Ey. cbn in Ey. inversion Ey; subst. unfold dead, limbo. destruct (ti_phase x) eqn:Ep; cbn; rewrite ?Ep; auto.
      * apply (H2 j y Ey). congruence.
    + intros j h v Hd. destruct (H3 j h v Hd) as (y & Ey & A & B & C). rewrite nth_upd. destruct (Nat.eqb_spec i j) as [->|Hne]; [|exists y; auto].
      rewrite Ey. cbn. eexists; split; [reflexivity|]. rewrite C. cbn. auto.
    + intros j y Ey Hp. rewrite nth_upd in Ey. destruct (Nat.eqb_spec i j) as [->|Hne]; [|apply (H5 j y Ey Hp)].
      rewrite Ex in Ey. cbn in Ey. inversion Ey; subst. destruct (ti_phase x) eqn:Ep; cbn in Hp; rewrite ?Ep in Hp; discriminate.
  - constructor; cbn [tm_cur tm_insts tm_delivered tm_handler tm_h tm_v]; auto; try (intros; discriminate).
    all: try (intros j y Ey _; apply (H2 j y Ey); congruence).
Qed.

Lemma register_inv h v s : TmInv s -> TmInv (tm_register h v s).
Proof.
  intro I. unfold tm_register. destruct (_ && _ && _); [exact I|].
  pose proof (stop_inv s I) as [H1 H2 H3 H4 H5]. set (s1 := tm_stop s) in *.
  assert (Ec1 : tm_cur s1 = None) by (subst s1; unfold tm_stop; destruct (tm_cur s); reflexivity).
  constructor; cbn [tm_cur tm_insts tm_delivered tm_handler tm_h tm_v]; auto.
  - intros i Ei. inversion Ei; subst. eexists. rewrite nth_error_app2 by lia. rewrite Nat.sub_diag. cbn. repeat split; reflexivity.
  - intros j y Ey Hne. destruct (Nat.lt_ge_cases j (length (tm_insts s1))) as [L|L].
    + rewrite nth_error_app1 in Ey by exact L. apply (H2 j y Ey). rewrite Ec1. discriminate.
    + rewrite nth_error_app2 in Ey by exact L. destruct (j - length (tm_insts s1))%nat as [|k] eqn:Ek; [|destruct k; discriminate].
      exfalso. apply Hne. f_equal. lia.
  - intros i h' v' Hd. destruct (H3 i h' v' Hd) as (y & Ey & A). exists y. split; [|exact A].
    rewrite nth_error_app1; [exact Ey|]. apply nth_error_Some. congruence.
  - intros j y Ey Hp. destruct (Nat.lt_ge_cases j (length (tm_insts s1))) as [L|L].
    + rewrite nth_error_app1 in Ey by exact L. apply (H5 j y Ey Hp).
    + rewrite nth_error_app2 in Ey by exact L. destruct (j - length (tm_insts s1))%nat as [|k] eqn:Ek; [|destruct k; discriminate].
      cbn in Ey. inversion Ey; subst. reflexivity.
Qed.

(* a step that rewrites instance i from x to (f x), leaving everything else alone, keeps the invariant when f is harmless *)
Lemma upd_inv s i x f dl :
  TmInv s -> nth_error (tm_insts s) i = Some x ->
  ti_h (f x) = ti_h x -> ti_v (f x) = ti_v x ->
  (dead x \/ limbo x -> dead (f x) \/ limbo (f x)) ->
  (ti_phase x = TDone -> ti_phase (f x) = TDone) ->
  (ti_phase (f x) = TPending -> ti_phase x = TPending /\ ti_cancelled (f x) = ti_cancelled x) ->
  (dl = tm_delivered s \/ (dl = (i, ti_h x, ti_v x) :: tm_delivered s /\ ti_phase x <> TDone /\ ti_phase (f x) = TDone)) ->
  TmInv {| tm_handler := tm_handler s; tm_h := tm_h s; tm_v := tm_v s; tm_cur := tm_cur s; tm_insts := upd (tm_insts s) i f; tm_delivered := dl |}.
Proof.
  intros [H1 H2 H3 H4 H5] Ex Fh Fv Fd Fdone Fp Hdl.
  constructor; cbn [tm_cur tm_insts tm_delivered tm_handler tm_h tm_v].
  - intros j Ej. destruct (H1 j Ej) as (y & Ey & A & B & C). rewrite nth_upd. destruct (Nat.eqb_spec i j) as [->|]; [|exists y; auto].
    rewrite Ey. cbn. eexists; split; [reflexivity|]. rewrite Ey in Ex. inversion Ex; subst. rewrite Fh, Fv. auto.
  - intros j y Ey Hne. rewrite nth_upd in Ey. destruct (Nat.eqb_spec i j) as [->|]; [|apply (H2 j y Ey Hne)].
    rewrite Ex in Ey. cbn in Ey. inversion Ey; subst. apply Fd. apply (H2 j x Ex Hne).
  - assert (K : forall j h v, In (j, h, v) (tm_delivered s) -> exists x0, nth_error (upd (tm_insts s) i f) j = Some x0 /\ ti_h x0 = h /\ ti_v x0 = v /\ ti_phase x0 = TDone).
    { intros j h v Hd. destruct (H3 j h v Hd) as (y & Ey & A & B & C). rewrite nth_upd. destruct (Nat.eqb_spec i j) as [->|]; [|exists y; auto].
      rewrite Ey. cbn. eexists; split; [reflexivity|]. rewrite Ey in Ex. inversion Ex; subst. rewrite Fh, Fv. auto. }
    destruct Hdl as [->|(-> & Hnd & Hdone)]; [exact K|]. intros j h v [E|Hd]; [|apply K; exact Hd].
    inversion E; subst. rewrite (nth_upd_same _ _ _ _ Ex). eexists; split; [reflexivity|]. auto.
  - destruct Hdl as [->|(-> & Hnd & Hdone)]; [exact H4|]. cbn [map fst]. constructor; [|exact H4].
    intro Hi. apply in_map_iff in Hi. destruct Hi as [[[j h] v] [E Hd]]. cbn in E. subst j.
    destruct (H3 i h v Hd) as (y & Ey & _ & _ & C). rewrite Ey in Ex. inversion Ex; subst. congruence.
  - intros j y Ey Hp. rewrite nth_upd in Ey. destruct (Nat.eqb_spec i j) as [->|]; [|apply (H5 j y Ey Hp)].
    rewrite Ex in Ey. cbn in Ey. inversion Ey; subst. destruct (Fp Hp) as [P Q]. rewrite Q. apply (H5 j x Ex P).
Qed.

Lemma step_inv s o : TmInv s -> TmInv (tm_step s o).
Proof.
  intro I. destruct o as [h v| |i|i|i|i]; cbn [tm_step]; [apply register_inv; exact I|apply stop_inv; exact I| | | |].
  - (* fire *) destruct (nth_error (tm_insts s) i) as [x|] eqn:Ex; [|exact I]. destruct (ti_phase x) eqn:Ep; try exact I.
    apply (upd_inv s i x _ _ I Ex); cbn; auto; try discriminate; try congruence.
    pose proof (tv_pending _ I i x Ex Ep) as Hc. unfold dead, limbo. rewrite Ep, Hc. intros [[A|[[A _]|A]]|[A _]]; discriminate.
  - (* check *) destruct (nth_error (tm_insts s) i) as [x|] eqn:Ex; [|exact I]. destruct (ti_phase x) eqn:Ep; try exact I.
    apply (upd_inv s i x _ _ I Ex); cbn; auto; try congruence.
    + unfold dead, limbo. cbn. rewrite Ep. intros [[A|[[A _]|A]]|[A _]]; try discriminate. rewrite A. left; right; right; reflexivity.
    + destruct (ti_cancelled x); discriminate.
  - (* deliver *) destruct (nth_error (tm_insts s) i) as [x|] eqn:Ex; [|exact I]. destruct (ti_phase x) eqn:Ep; try exact I.
    apply (upd_inv s i x _ _ I Ex); cbn; auto; try discriminate; try congruence.
    + intros _. left; right; right; reflexivity.
    + right. split; [reflexivity|]. split; [congruence|reflexivity].
  - (* abort *) destruct (nth_error (tm_insts s) i) as [x|] eqn:Ex; [|exact I]. destruct (ti_phase x) eqn:Ep; try exact I.
    destruct (ti_cancelled x) eqn:Ecn; [|exact I].
    apply (upd_inv s i x _ _ I Ex); cbn; auto; try discriminate; try congruence.
    intros _. left; right; right; reflexivity.
Qed.

Theorem run_inv ops : TmInv (tm_run ops).
Proof.
  unfold tm_run. induction ops as [|o ops IH] using rev_ind; [apply TmInv_init|].
  rewrite fold_left_app. cbn [fold_left]. apply step_inv. exact IH.
Qed.

(* (1) an arming yields at most one trigger, and it carries exactly the armed pair *)
Theorem at_most_one_trigger_per_arming ops : NoDup (map (fun d => fst (fst d)) (tm_delivered (tm_run ops))).
Proof. apply (tv_nodup _ (run_inv ops)). Qed.

Theorem trigger_carries_the_armed_pair ops i h v : In (i, h, v) (tm_delivered (tm_run ops)) ->
  exists x, nth_error (tm_insts (tm_run ops)) i = Some x /\ ti_h x = h /\ ti_v x = v.
Proof. intro H. destruct (tv_deliv _ (run_inv ops) i h v H) as (x & A & B & C & _). exists x. auto. Qed.

(* (2) an instance that was stopped or superseded before it fired, or before it got past the first select of
   triggerElections, never hands over a trigger *)
Lemma dead_step s o j x : nth_error (tm_insts s) j = Some x -> dead x ->
  (exists y, nth_error (tm_insts (tm_step s o)) j = Some y /\ dead y) /\
  (forall h v, In (j, h, v) (tm_delivered (tm_step s o)) -> In (j, h, v) (tm_delivered s)).
Proof.
  intros Ex D.
  assert (U : forall i f, (i = j -> dead (f x)) -> exists y, nth_error (upd (tm_insts s) i f) j = Some y /\ dead y).
  { intros i f Hf. rewrite nth_upd. destruct (Nat.eqb_spec i j) as [E|]; [|exists x; auto]. rewrite Ex. cbn. exists (f x). split; [reflexivity|apply Hf; exact E]. }
  assert (ST : (exists y, nth_error (tm_insts (tm_stop s)) j = Some y /\ dead y) /\ tm_delivered (tm_stop s) = tm_delivered s).
  { unfold tm_stop. destruct (tm_cur s) as [i|]; cbn [tm_insts tm_delivered]; [|split; [exists x; auto|reflexivity]]. split; [|reflexivity].
    apply U. intros _. unfold dead in *. destruct (ti_phase x) eqn:Ep; cbn; rewrite ?Ep; auto; destruct D as [A|[[A B]|A]]; try congruence; auto. }
  destruct o as [h v| |i|i|i|i]; cbn [tm_step].
  - unfold tm_register. destruct (_ && _ && _); [split; [exists x; auto|auto]|]. cbn [tm_insts tm_delivered]. destruct ST as [(y & Ey & Dy) Ed]. split.
    + exists y. split; [|exact Dy]. rewrite nth_error_app1; [exact Ey|]. apply nth_error_Some. congruence.
    + rewrite Ed. auto.
  - destruct ST as [A Ed]. split; [exact A|rewrite Ed; auto].
  - destruct (nth_error (tm_insts s) i) as [z|] eqn:Ez; [|split; [exists x; auto|auto]]. destruct (ti_phase z) eqn:Ep; try (split; [exists x; auto|auto]; fail).
    cbn [tm_insts tm_delivered]. split; [|auto]. apply U. intros ->. rewrite Ex in Ez. inversion Ez; subst. unfold dead in D.
    destruct D as [A|[[A B]|A]]; congruence.
  - destruct (nth_error (tm_insts s) i) as [z|] eqn:Ez; [|split; [exists x; auto|auto]]. destruct (ti_phase z) eqn:Ep; try (split; [exists x; auto|auto]; fail).
    cbn [tm_insts tm_delivered]. split; [|auto]. apply U. intros ->. rewrite Ex in Ez. inversion Ez; subst. unfold dead in *. cbn.
    destruct D as [A|[[A B]|A]]; try congruence. rewrite A. right; right; reflexivity.
  - destruct (nth_error (tm_insts s) i) as [z|] eqn:Ez; [|split; [exists x; auto|auto]]. destruct (ti_phase z) eqn:Ep; try (split; [exists x; auto|auto]; fail).
    cbn [tm_insts tm_delivered].
    assert (Hij : i <> j). { intros ->. rewrite Ex in Ez. inversion Ez; subst. unfold dead in D. destruct D as [A|[[A B]|A]]; congruence. }
    split; [apply U; intro; congruence|]. intros h v [E|Hd]; [inversion E; congruence|exact Hd].
  - destruct (nth_error (tm_insts s) i) as [z|] eqn:Ez; [|split; [exists x; auto|auto]]. destruct (ti_phase z) eqn:Ep; try (split; [exists x; auto|auto]; fail).
    destruct (ti_cancelled z) eqn:Ecn; [|split; [exists x; auto|auto]]. cbn [tm_insts tm_delivered]. split; [|auto].
    apply U. intros _. right; right; reflexivity.
Qed.

Theorem dead_instance_never_triggers s ops j x h v :
  nth_error (tm_insts s) j = Some x -> dead x ->
  In (j, h, v) (tm_delivered (fold_left tm_step ops s)) -> In (j, h, v) (tm_delivered s).
Proof.
  revert s x. induction ops as [|o ops IH]; intros s x Ex D; cbn [fold_left]; [auto|].
  intro Hd. destruct (dead_step s o j x Ex D) as [(y & Ey & Dy) Hk]. apply Hk. apply (IH _ y Ey Dy Hd).
Qed.

(* a superseded or stopped instance: either it can never trigger, or it was caught in the window between the two
   selects of triggerElections (it then delivers at most once - at_most_one_trigger_per_arming - and with its own,
   old pair - trigger_carries_the_armed_pair - which the worker compares with its current position) *)
Theorem superseded_instance ops1 j x :
  nth_error (tm_insts (tm_run ops1)) j = Some x -> tm_cur (tm_run ops1) <> Some j ->
  (forall ops2 h v, In (j, h, v) (tm_delivered (tm_run (ops1 ++ ops2))) -> In (j, h, v) (tm_delivered (tm_run ops1)))
  \/ limbo x.
Proof.
  intros Ex Hc. destruct (tv_dead _ (run_inv ops1) j x Ex Hc) as [D|L]; [left|right; exact L].
  intros ops2 h v. unfold tm_run. rewrite fold_left_app. apply (dead_instance_never_triggers _ ops2 j x h v Ex D).
Qed.

(* stopping or re-arming before the timer fired (timer.Stop() returned true) is final *)
Theorem stopped_before_fire_never_triggers ops1 ops2 j x h v :
  nth_error (tm_insts (tm_run ops1)) j = Some x -> ti_phase x = TStoppedBeforeFire ->
  ~ In (j, h, v) (tm_delivered (tm_run (ops1 ++ ops2))).
Proof.
  intros Ex Hp Hd. unfold tm_run in Hd. rewrite fold_left_app in Hd.
  apply (dead_instance_never_triggers _ ops2 j x h v Ex (or_introl Hp)) in Hd.
  destruct (tv_deliv _ (run_inv ops1) j h v Hd) as (y & Ey & _ & _ & C). rewrite Ex in Ey. inversion Ey; subst. congruence.
Qed.

(* after Stop() nothing is armed; after (re)arming, the current instance carries the armed pair *)
Theorem stop_disarms ops : tm_cur (tm_run (ops ++ [TStop])) = None.
Proof. unfold tm_run. rewrite fold_left_app. cbn [fold_left tm_step]. unfold tm_stop. destruct (tm_cur (fold_left tm_step ops tm_init)); reflexivity. Qed.

Theorem current_instance_carries_the_armed_pair ops i : tm_cur (tm_run ops) = Some i ->
  exists x, nth_error (tm_insts (tm_run ops)) i = Some x /\ ti_h x = tm_h (tm_run ops) /\ ti_v x = tm_v (tm_run ops).
Proof. intro H. destruct (tv_cur _ (run_inv ops) i H) as (x & A & B & C & _). exists x. auto. Qed.

(* (3) liveness ingredient: a fired, un-superseded instance gets past the first select and then stays able to hand
   over its trigger until a reader takes it *)
Theorem live_instance_can_deliver s i x : nth_error (tm_insts s) i = Some x -> ti_phase x = TRunning -> ti_cancelled x = false ->
  In (i, ti_h x, ti_v x) (tm_delivered (tm_step (tm_step s (TCheck i)) (TDeliver i))).
Proof.
  intros Ex Ep Ec. cbn [tm_step]. rewrite Ex, Ep, Ec. cbn [tm_insts tm_delivered tm_handler tm_h tm_v tm_cur].
  rewrite (nth_upd_same _ _ _ _ Ex). cbn. left. reflexivity.
Qed.

Example timer_nonvacuous :
  tm_delivered (tm_run [TRegister 1 0; TFire 0; TRegister 1 1; TCheck 0; TDeliver 0; TAbort 0; TFire 1; TCheck 1; TDeliver 1; TStop; TRegister 2 0; TStop; TFire 2]) = [(1%nat, 1, 1)].
Proof. vm_compute. reflexivity. Qed.

(* the select race: an instance cancelled after its first select can still hand over its (old) trigger *)
Example timer_select_race :
  tm_delivered (tm_run [TRegister 1 0; TFire 0; TCheck 0; TRegister 1 1; TDeliver 0]) = [(0%nat, 1, 0)].
Proof. vm_compute. reflexivity. Qed.

(* ---- the trigger as its user sees it (tm_register / tm_stop / tm_settle, engine `trigger`) ---- *)
Lemma nth_error_app_len {A} (l : list A) x : nth_error (l ++ [x]) (length l) = Some x.
Proof. induction l; cbn; auto. Qed.
Lemma upd_app_len {A} (l : list A) x f : upd (l ++ [x]) (length l) f = l ++ [f x].
Proof. induction l; cbn; [reflexivity|]. rewrite IHl. reflexivity. Qed.

(* a registration that really arms (handler cleared or another pair), left alone until time passes, delivers its pair -
   in particular after Stop the same pair can be armed again *)
Theorem armed_then_settled_delivers s h v :
  (tm_handler s && N.eqb (tm_v s) v && N.eqb (tm_h s) h = false) ->
  exists i, tm_delivered (tm_settle (tm_register h v s)) = (i, h, v) :: tm_delivered (tm_stop s).
Proof.
  intro Hn. unfold tm_register. rewrite Hn. set (s1 := tm_stop s).
  unfold tm_settle. cbn [tm_cur tm_insts]. rewrite nth_error_app_len. cbn [ti_phase].
  exists (length (tm_insts s1)).
  unfold tm_step at 3. cbn [tm_insts]. rewrite nth_error_app_len. cbn [ti_phase]. cbn [tm_handler tm_h tm_v tm_cur tm_insts tm_delivered].
  rewrite upd_app_len.
  unfold tm_step at 2. cbn [tm_insts]. rewrite nth_error_app_len. cbn [set_phase ti_phase ti_cancelled ti_h ti_v ti_sent].
  cbn [tm_handler tm_h tm_v tm_cur tm_insts tm_delivered]. rewrite upd_app_len.
  unfold tm_step. cbn [tm_insts]. rewrite nth_error_app_len. cbn [set_phase ti_phase ti_cancelled ti_h ti_v ti_sent tm_delivered].
  reflexivity.
Qed.

Corollary rearm_after_stop_delivers s h v :
  exists i, tm_delivered (tm_settle (tm_register h v (tm_stop s))) = (i, h, v) :: tm_delivered (tm_stop s).
Proof.
  assert (E : tm_stop (tm_stop s) = tm_stop s).
  { unfold tm_stop at 1. assert (C : tm_cur (tm_stop s) = None) by (unfold tm_stop; destruct (tm_cur s); reflexivity).
    rewrite C. unfold tm_stop; destruct (tm_cur s); reflexivity. }
  destruct (armed_then_settled_delivers (tm_stop s) h v) as (i & Hi).
  - assert (Hh : tm_handler (tm_stop s) = false) by (unfold tm_stop; destruct (tm_cur s); reflexivity). rewrite Hh. reflexivity.
  - exists i. rewrite Hi, E. reflexivity.
Qed.

(* ---- public operations: invariant, and what is left parked (C16, C19) ---- *)
(* public-operation invariant: no instance is left between fire and check; every instance but the current one is
   finished, stopped before it fired, or parked and cancelled *)
Definition inst_ok (cur : bool) (x : tinst) : Prop :=
  match ti_phase x with
  | TRunning => False
  | TSending => cur = true \/ ti_cancelled x = true
  | TPending => cur = true /\ ti_cancelled x = false
  | _ => True
  end.
Definition pinv (s : tstate) : Prop :=
  forall i x, nth_error (tm_insts s) i = Some x -> inst_ok (match tm_cur s with Some c => Nat.eqb c i | None => false end) x.


Lemma pinv_init : pinv tm_init.
Proof. intros i x H. destruct i; discriminate. Qed.

Lemma pinv_stop s : pinv s -> pinv (tm_stop s) /\ tm_cur (tm_stop s) = None.
Proof.
  intro I. unfold tm_stop. destruct (tm_cur s) as [c|] eqn:Ec; cbn [tm_cur tm_insts]; [|split; [|reflexivity]].
  - split; [|reflexivity]. intros i x H. cbn [tm_insts tm_cur] in *. rewrite nth_upd in H. destruct (Nat.eqb_spec c i) as [->|Hne].
    + destruct (nth_error (tm_insts s) i) as [y|] eqn:Ey; [|discriminate]. cbn in H. inversion H; subst x. clear H.
      specialize (I i y Ey). rewrite Ec, Nat.eqb_refl in I. unfold inst_ok in *.
      destruct (ti_phase y) eqn:Ep; cbn; rewrite ?Ep; auto.
    + specialize (I i x H). rewrite Ec in I. destruct (Nat.eqb_spec c i); [contradiction|]. exact I.
  - intros i x H. cbn [tm_insts tm_cur] in *. specialize (I i x H). rewrite Ec in I. exact I.
Qed.

Lemma nth_error_app_len2 {A} (l : list A) x : nth_error (l ++ [x]) (length l) = Some x.
Proof. induction l; cbn; auto. Qed.

Lemma pinv_register s h v : pinv s -> pinv (tm_register h v s).
Proof.
  intro I. unfold tm_register. destruct (tm_handler s && N.eqb (tm_v s) v && N.eqb (tm_h s) h); [exact I|].
  destruct (pinv_stop s I) as [I1 C1]. set (s1 := tm_stop s) in *.
  intros i x H. cbn [tm_insts tm_cur] in *.
  destruct (Nat.eqb_spec (length (tm_insts s1)) i) as [<-|Hne].
  - rewrite nth_error_app_len2 in H. inversion H; subst x. cbn. auto.
  - assert (Hi : nth_error (tm_insts s1) i = Some x).
    { destruct (Nat.lt_ge_cases i (length (tm_insts s1))) as [Hl|Hl].
      - rewrite nth_error_app1 in H by exact Hl. exact H.
      - rewrite nth_error_app2 in H by exact Hl. destruct (i - length (tm_insts s1))%nat eqn:Ed; [lia|]. destruct n; discriminate. }
    specialize (I1 i x Hi). rewrite C1 in I1. exact I1.
Qed.

(* the three internal steps on the current pending instance *)
Lemma step_on s i x (f : tinst -> tinst) (s' : tstate) :
  nth_error (tm_insts s) i = Some x ->
  tm_insts s' = upd (tm_insts s) i f -> tm_cur s' = tm_cur s ->
  (forall c, inst_ok c x -> c = true -> inst_ok true (f x)) ->
  tm_cur s = Some i -> pinv s -> pinv s'.
Proof.
  intros Hx Hi Hc Hf Hcur I j y H. rewrite Hi, nth_upd in H. rewrite Hc, Hcur.
  destruct (Nat.eqb_spec i j) as [<-|Hne].
  - rewrite Hx in H. cbn in H. inversion H; subst y. specialize (I i x Hx). rewrite Hcur, Nat.eqb_refl in I. apply (Hf true I eq_refl).
  - specialize (I j y H). rewrite Hcur in I. destruct (Nat.eqb_spec i j); [contradiction|]. exact I.
Qed.

Lemma upd_upd {A} (l : list A) i f g : upd (upd l i f) i g = upd l i (fun x => g (f x)).
Proof. revert i. induction l as [|a l IH]; intro i; cbn; [reflexivity|]. destruct i; cbn; [reflexivity|]. rewrite IH. reflexivity. Qed.
Lemma upd_ext {A} (l : list A) i f g x : nth_error l i = Some x -> f x = g x -> upd l i f = upd l i g.
Proof. revert i. induction l as [|a l IH]; intros i H E; cbn; [reflexivity|]. destruct i; cbn in *; [inversion H; subst; rewrite E; reflexivity|]. rewrite (IH i H E). reflexivity. Qed.

Lemma fire_eq s i x : nth_error (tm_insts s) i = Some x -> ti_phase x = TPending ->
  tm_step s (TFire i) = {| tm_handler := tm_handler s; tm_h := tm_h s; tm_v := tm_v s; tm_cur := tm_cur s;
                           tm_insts := upd (tm_insts s) i (set_phase TRunning); tm_delivered := tm_delivered s |}.
Proof. intros Hx Hp. unfold tm_step. rewrite Hx, Hp. reflexivity. Qed.
Lemma check_eq s i y : nth_error (tm_insts s) i = Some y -> ti_phase y = TRunning ->
  tm_step s (TCheck i) = {| tm_handler := tm_handler s; tm_h := tm_h s; tm_v := tm_v s; tm_cur := tm_cur s;
                            tm_insts := upd (tm_insts s) i (set_phase (if ti_cancelled y then TDone else TSending)); tm_delivered := tm_delivered s |}.
Proof. intros Hx Hp. unfold tm_step. rewrite Hx, Hp. reflexivity. Qed.

Lemma fire_check s i x : nth_error (tm_insts s) i = Some x -> ti_phase x = TPending -> ti_cancelled x = false ->
  let s' := tm_step (tm_step s (TFire i)) (TCheck i) in
  tm_insts s' = upd (tm_insts s) i (set_phase TSending) /\ tm_cur s' = tm_cur s /\ tm_delivered s' = tm_delivered s /\ tm_handler s' = tm_handler s.
Proof.
  intros Hx Hp Hc. cbn zeta. rewrite (fire_eq s i x Hx Hp).
  rewrite (check_eq _ i (set_phase TRunning x)); [|cbn [tm_insts]; rewrite nth_upd, Nat.eqb_refl, Hx; reflexivity|reflexivity].
  cbn [tm_insts tm_cur tm_delivered tm_handler set_phase ti_cancelled]. rewrite Hc, upd_upd. split; [|auto].
  apply (upd_ext _ _ _ _ x Hx). reflexivity.
Qed.

Lemma pinv_fire_noreader s : pinv s -> pinv (tm_fire_noreader s).
Proof.
  intro I. unfold tm_fire_noreader. destruct (tm_cur s) as [i|] eqn:Ec; [|exact I].
  destruct (nth_error (tm_insts s) i) as [x|] eqn:Ex; [|exact I].
  destruct (ti_phase x) eqn:Ep; try exact I.
  pose proof (I i x Ex) as Ix. rewrite Ec, Nat.eqb_refl in Ix. unfold inst_ok in Ix. rewrite Ep in Ix. destruct Ix as [_ Hc].
  destruct (fire_check s i x Ex Ep Hc) as (A & B & _). cbn zeta in *.
  eapply (step_on s i x (set_phase TSending)); eauto.
  intros c _ _. unfold inst_ok. cbn. auto.
Qed.

Lemma pinv_settle s : pinv s -> pinv (tm_settle s).
Proof.
  intro I. unfold tm_settle. destruct (tm_cur s) as [i|] eqn:Ec; [|exact I].
  destruct (nth_error (tm_insts s) i) as [x|] eqn:Ex; [|exact I].
  destruct (ti_phase x) eqn:Ep; try exact I.
  pose proof (I i x Ex) as Ix. rewrite Ec, Nat.eqb_refl in Ix. unfold inst_ok in Ix. rewrite Ep in Ix. destruct Ix as [_ Hc].
  destruct (fire_check s i x Ex Ep Hc) as (A & B & _). cbn zeta in *.
  set (s1 := tm_step (tm_step s (TFire i)) (TCheck i)) in *.
  assert (I1 : pinv s1).
  { eapply (step_on s i x (set_phase TSending)); eauto. intros c _ _. unfold inst_ok. cbn. auto. }
  assert (Ex1 : nth_error (tm_insts s1) i = Some (set_phase TSending x)) by (rewrite A, nth_upd, Nat.eqb_refl, Ex; reflexivity).
  assert (Ec1 : tm_cur s1 = Some i) by (rewrite B; exact Ec).
  assert (DE : tm_step s1 (TDeliver i) = {| tm_handler := tm_handler s1; tm_h := tm_h s1; tm_v := tm_v s1; tm_cur := tm_cur s1;
                 tm_insts := upd (tm_insts s1) i set_sent; tm_delivered := (i, ti_h (set_phase TSending x), ti_v (set_phase TSending x)) :: tm_delivered s1 |})
    by (unfold tm_step; rewrite Ex1; reflexivity).
  rewrite DE.
  eapply (step_on s1 i (set_phase TSending x) set_sent); eauto.
  intros c _ _. unfold inst_ok. cbn. auto.
Qed.

(* ---- the reader comes back: nothing stays parked ---- *)
Definition quiet (x : tinst) : bool := match ti_phase x with TSending | TRunning => false | _ => true end.
Definition norun (x : tinst) : bool := match ti_phase x with TRunning => false | _ => true end.

Lemma upd_app_mid {A} (pre : list A) x l f : upd (pre ++ x :: l) (length pre) f = pre ++ f x :: l.
Proof. induction pre as [|a pre IH]; cbn; [reflexivity|]. rewrite IH. reflexivity. Qed.
Lemma nth_app_mid {A} (pre : list A) x l : nth_error (pre ++ x :: l) (length pre) = Some x.
Proof. induction pre; cbn; auto. Qed.

Lemma resume_from_quiet : forall l pre s, tm_insts s = pre ++ l -> forallb quiet pre = true -> forallb norun l = true ->
  forallb quiet (tm_insts (tm_resume_from (length pre) l s)) = true.
Proof.
  induction l as [|x l IH]; intros pre s Hs Hp Hl; cbn [tm_resume_from].
  - rewrite Hs, app_nil_r. exact Hp.
  - cbn [forallb] in Hl. apply andb_true_iff in Hl. destruct Hl as [Hx Hl].
    assert (Ex : nth_error (tm_insts s) (length pre) = Some x) by (rewrite Hs; apply nth_app_mid).
    set (s' := match ti_phase x with TSending => if ti_cancelled x then tm_step s (TAbort (length pre)) else tm_step s (TDeliver (length pre)) | _ => s end).
    assert (Hs' : exists x', tm_insts s' = pre ++ x' :: l /\ quiet x' = true).
    { subst s'. destruct (ti_phase x) eqn:Ep.
      - exists x. split; [exact Hs|unfold quiet; rewrite Ep; reflexivity].
      - exists x. split; [exact Hs|unfold quiet; rewrite Ep; reflexivity].
      - unfold norun in Hx. rewrite Ep in Hx. discriminate.
      - destruct (ti_cancelled x) eqn:Ec.
        + exists (set_phase TDone x). unfold tm_step. rewrite Ex, Ep, Ec. cbn [tm_insts]. rewrite Hs, upd_app_mid. split; reflexivity.
        + exists (set_sent x). unfold tm_step. rewrite Ex, Ep. cbn [tm_insts]. rewrite Hs, upd_app_mid. split; reflexivity.
      - exists x. split; [exact Hs|unfold quiet; rewrite Ep; reflexivity]. }
    destruct Hs' as (x' & Hi & Hq).
    replace (S (length pre)) with (length (pre ++ [x'])) by (rewrite app_length; cbn; lia).
    apply IH.
    + rewrite Hi, <- app_assoc. reflexivity.
    + rewrite forallb_app, Hp. cbn. rewrite Hq. reflexivity.
    + exact Hl.
Qed.

Lemma pinv_norun s : pinv s -> forallb norun (tm_insts s) = true.
Proof.
  intro I. apply forallb_forall. intros x Hx. apply In_nth_error in Hx. destruct Hx as (i & Hi).
  specialize (I i x Hi). unfold inst_ok, norun in *. destruct (ti_phase x); auto.
Qed.

Lemma parked_zero s : forallb quiet (tm_insts s) = true -> tm_parked s = 0%nat.
Proof.
  unfold tm_parked. induction (tm_insts s) as [|x l IH]; cbn; [reflexivity|]. intro H. apply andb_true_iff in H. destruct H as [Hx Hl].
  unfold quiet in Hx. destruct (ti_phase x); try discriminate; cbn; apply IH; exact Hl.
Qed.

Theorem resume_leaves_nothing_parked s : pinv s -> tm_parked (tm_resume s) = 0%nat.
Proof.
  intro I. apply parked_zero. unfold tm_resume. apply (resume_from_quiet (tm_insts s) [] s); [reflexivity|reflexivity|apply pinv_norun; exact I].
Qed.

Lemma pinv_set_done s s' k x f : nth_error (tm_insts s) k = Some x -> tm_insts s' = upd (tm_insts s) k f -> tm_cur s' = tm_cur s ->
  ti_phase (f x) = TDone -> pinv s -> pinv s'.
Proof.
  intros Hx Hi Hc Hd I j y H. rewrite Hi, nth_upd in H. rewrite Hc.
  destruct (Nat.eqb_spec k j) as [<-|Hne].
  - rewrite Hx in H. cbn in H. inversion H; subst y. unfold inst_ok. rewrite Hd. exact Logic.I.
  - exact (I j y H).
Qed.

Lemma pinv_resume_from : forall l pre s, tm_insts s = pre ++ l -> pinv s -> pinv (tm_resume_from (length pre) l s).
Proof.
  induction l as [|x l IH]; intros pre s Hs I; cbn [tm_resume_from]; [exact I|].
  assert (Ex : nth_error (tm_insts s) (length pre) = Some x) by (rewrite Hs; apply nth_app_mid).
  set (s' := match ti_phase x with TSending => if ti_cancelled x then tm_step s (TAbort (length pre)) else tm_step s (TDeliver (length pre)) | _ => s end).
  assert (Hs' : (exists x', tm_insts s' = pre ++ x' :: l) /\ pinv s').
  { subst s'. destruct (ti_phase x) eqn:Ep; try (split; [exists x; exact Hs|exact I]).
    destruct (ti_cancelled x) eqn:Ec.
    - assert (E : tm_step s (TAbort (length pre)) = {| tm_handler := tm_handler s; tm_h := tm_h s; tm_v := tm_v s; tm_cur := tm_cur s;
                    tm_insts := upd (tm_insts s) (length pre) (set_phase TDone); tm_delivered := tm_delivered s |})
        by (unfold tm_step; rewrite Ex, Ep, Ec; reflexivity).
      rewrite E. split; [exists (set_phase TDone x); cbn [tm_insts]; rewrite Hs, upd_app_mid; reflexivity|].
      eapply (pinv_set_done s _ (length pre) x (set_phase TDone)); eauto.
    - assert (E : tm_step s (TDeliver (length pre)) = {| tm_handler := tm_handler s; tm_h := tm_h s; tm_v := tm_v s; tm_cur := tm_cur s;
                    tm_insts := upd (tm_insts s) (length pre) set_sent; tm_delivered := (length pre, ti_h x, ti_v x) :: tm_delivered s |})
        by (unfold tm_step; rewrite Ex, Ep; reflexivity).
      rewrite E. split; [exists (set_sent x); cbn [tm_insts]; rewrite Hs, upd_app_mid; reflexivity|].
      eapply (pinv_set_done s _ (length pre) x set_sent); eauto. }
  destruct Hs' as ((x' & Hi) & I').
  replace (S (length pre)) with (length (pre ++ [x'])) by (rewrite app_length; cbn; lia).
  apply IH; [rewrite Hi, <- app_assoc; reflexivity|exact I'].
Qed.

(* ---- time passes with no reader (shutdown): cancelled parked instances return ---- *)
Definition cancq (x : tinst) : bool := match ti_phase x with TSending => ti_cancelled x | TRunning => false | _ => true end.

Lemma giveup_from_quiet : forall l pre s, tm_insts s = pre ++ l -> forallb quiet pre = true -> forallb cancq l = true ->
  forallb quiet (tm_insts (tm_giveup_from (length pre) l s)) = true.
Proof.
  induction l as [|x l IH]; intros pre s Hs Hp Hl; cbn [tm_giveup_from].
  - rewrite Hs, app_nil_r. exact Hp.
  - cbn [forallb] in Hl. apply andb_true_iff in Hl. destruct Hl as [Hx Hl].
    assert (Ex : nth_error (tm_insts s) (length pre) = Some x) by (rewrite Hs; apply nth_app_mid).
    set (s' := match ti_phase x with TSending => if ti_cancelled x then tm_step s (TAbort (length pre)) else s | _ => s end).
    assert (Hs' : exists x', tm_insts s' = pre ++ x' :: l /\ quiet x' = true).
    { subst s'. unfold cancq in Hx. destruct (ti_phase x) eqn:Ep.
      - exists x. split; [exact Hs|unfold quiet; rewrite Ep; reflexivity].
      - exists x. split; [exact Hs|unfold quiet; rewrite Ep; reflexivity].
      - discriminate.
      - rewrite Hx. exists (set_phase TDone x). unfold tm_step. rewrite Ex, Ep, Hx. cbn [tm_insts]. rewrite Hs, upd_app_mid. split; reflexivity.
      - exists x. split; [exact Hs|unfold quiet; rewrite Ep; reflexivity]. }
    destruct Hs' as (x' & Hi & Hq).
    replace (S (length pre)) with (length (pre ++ [x'])) by (rewrite app_length; cbn; lia).
    apply IH.
    + rewrite Hi, <- app_assoc. reflexivity.
    + rewrite forallb_app, Hp. cbn. rewrite Hq. reflexivity.
    + exact Hl.
Qed.

Lemma pinv_giveup_from : forall l pre s, tm_insts s = pre ++ l -> pinv s -> pinv (tm_giveup_from (length pre) l s).
Proof.
  induction l as [|x l IH]; intros pre s Hs I; cbn [tm_giveup_from]; [exact I|].
  assert (Ex : nth_error (tm_insts s) (length pre) = Some x) by (rewrite Hs; apply nth_app_mid).
  set (s' := match ti_phase x with TSending => if ti_cancelled x then tm_step s (TAbort (length pre)) else s | _ => s end).
  assert (Hs' : (exists x', tm_insts s' = pre ++ x' :: l) /\ pinv s').
  { subst s'. destruct (ti_phase x) eqn:Ep; try (split; [exists x; exact Hs|exact I]).
    destruct (ti_cancelled x) eqn:Ec; [|split; [exists x; exact Hs|exact I]].
    assert (E : tm_step s (TAbort (length pre)) = {| tm_handler := tm_handler s; tm_h := tm_h s; tm_v := tm_v s; tm_cur := tm_cur s;
                  tm_insts := upd (tm_insts s) (length pre) (set_phase TDone); tm_delivered := tm_delivered s |})
      by (unfold tm_step; rewrite Ex, Ep, Ec; reflexivity).
    rewrite E. split; [exists (set_phase TDone x); cbn [tm_insts]; rewrite Hs, upd_app_mid; reflexivity|].
    eapply (pinv_set_done s _ (length pre) x (set_phase TDone)); eauto. }
  destruct Hs' as ((x' & Hi) & I').
  replace (S (length pre)) with (length (pre ++ [x'])) by (rewrite app_length; cbn; lia).
  apply IH; [rewrite Hi, <- app_assoc; reflexivity|exact I'].
Qed.

Lemma pinv_pstep s o : pinv s -> pinv (tm_pstep s o).
Proof.
  intro I. destruct o; cbn [tm_pstep].
  - apply pinv_register; exact I.
  - apply (pinv_stop s I).
  - apply pinv_settle; exact I.
  - apply pinv_fire_noreader; exact I.
  - unfold tm_resume. apply (pinv_resume_from (tm_insts s) [] s); [reflexivity|exact I].
  - unfold tm_giveup. apply (pinv_giveup_from (tm_insts s) [] s); [reflexivity|exact I].
Qed.

Lemma pinv_run ops : pinv (fold_left tm_pstep ops tm_init).
Proof.
  assert (G : forall s, pinv s -> pinv (fold_left tm_pstep ops s)).
  { induction ops as [|o ops IH]; intros s I; cbn [fold_left]; [exact I|]. apply IH. apply pinv_pstep. exact I. }
  apply G. exact pinv_init.
Qed.

(* whatever was registered, stopped, fired with or without a reader: once the reader is back nothing is parked in
   triggerElections - in particular after the final Stop of a shutdown *)
Theorem nothing_parked_once_the_reader_is_back ops : tm_public_parked (ops ++ [PResume]) = 0%nat.
Proof.
  unfold tm_public_parked. rewrite fold_left_app. cbn [fold_left tm_pstep]. apply resume_leaves_nothing_parked. apply pinv_run.
Qed.

(* ... and after Stop every instance that is still parked has been cancelled, so it gives up (TAbort) without any
   reader: the shutdown case, where the main loop never reads the channel again *)
Theorem after_stop_every_parked_instance_gives_up ops i x :
  nth_error (tm_insts (fold_left tm_pstep (ops ++ [PStop]) tm_init)) i = Some x ->
  (ti_phase x = TSending -> ti_cancelled x = true) /\ ti_phase x <> TRunning /\ ti_phase x <> TPending.
Proof.
  rewrite fold_left_app. cbn [fold_left tm_pstep]. intro H.
  destruct (pinv_stop _ (pinv_run ops)) as [I C]. specialize (I i x H). rewrite C in I. unfold inst_ok in I.
  destruct (ti_phase x) eqn:Ep.
  - destruct I; discriminate.
  - repeat split; congruence.
  - contradiction.
  - destruct I as [I|I]; [discriminate|]. repeat split; congruence.
  - repeat split; congruence.
Qed.

(* the shutdown case in full: whatever happened before, after Stop and with NO reader ever coming back, no goroutine of
   the trigger stays parked in triggerElections *)
Theorem shutdown_leaves_nothing_parked ops : tm_public_parked (ops ++ [PStop; PGiveUp]) = 0%nat.
Proof.
  unfold tm_public_parked. rewrite fold_left_app. cbn [fold_left tm_pstep].
  destruct (pinv_stop _ (pinv_run ops)) as [I C]. set (s := tm_stop (fold_left tm_pstep ops tm_init)) in *.
  apply parked_zero. unfold tm_giveup. apply (giveup_from_quiet (tm_insts s) [] s); [reflexivity|reflexivity|].
  apply forallb_forall. intros x Hx. apply In_nth_error in Hx. destruct Hx as (i & Hi).
  specialize (I i x Hi). rewrite C in I. unfold inst_ok in I. unfold cancq.
  destruct (ti_phase x) eqn:Ep; try reflexivity.
  - contradiction.
  - destruct I as [I|I]; [discriminate|exact I].
Qed.

(* without the Stop an instance that fired while nobody reads stays parked: the Stop is what releases it *)
Example parked_without_stop : tm_public_parked [PRegister 1 0; PFire; PGiveUp] = 1%nat /\ tm_public_parked [PRegister 1 0; PFire; PStop; PGiveUp] = 0%nat.
Proof. split; vm_compute; reflexivity. Qed.
