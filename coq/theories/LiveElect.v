(* LiveElect.v — C05, a synchronised view change on the global model of World.v.
   Correct members of quorum weight Q sit in one view u of height H; the leader of u+1 is one of them. Their timers
   fire (nothing else happens in between), their votes are delivered to that leader until it is elected, its NEW_VIEW
   is delivered, then the PREPAREs and the COMMITs (LiveWorld.v): at the end every member of Q has committed.
   The state they start from is any reachable one.
   Authenticity of what is re-sent: World.auth_msg asks of a prepared proof that its signed references are the very
   references the signers sent. World.v does not track the instance id of a PREPARE a member stored (the raw-message
   filter does that in the code, Filter.v / C17 in the model), so for members that are prepared when their timer fires
   the authenticity of their own proof is a hypothesis here (votes_authentic); for members that are not prepared and a
   leader that holds no early votes it is vacuous (synchronised_view_change_commits_fresh). *)
From Coq Require Import Lia.
From LH Require Import Prims Quorum QuorumFacts Contexts Msg Term TermFacts AbsSafety Own Accept World Live LiveWorld Elect.
Open Scope N_scope.

Section LE.
Variable H : N.
Variable cm : committee.
Hypothesis Hw : total cm < W64.
Variable honest : N -> bool.
Variable cfg : N -> ncfg.
Hypothesis cfg_me : forall i, c_me (cfg i) = i.
Variable st_wm : N -> option hv.
Variable st_shut : N -> bool.
Variable st_fresh : N -> N.
Variable st_lead : N -> bool.

Local Notation nstate := (World.nstate H cm cfg st_wm st_shut st_fresh st_lead).
Local Notation wrun := (World.wrun H cm honest cfg st_wm st_shut st_fresh st_lead).
Local Notation good := (World.good cm honest).
Local Notation auth_msg := (World.auth_msg H cm honest cfg st_wm st_shut st_fresh st_lead).
Local Notation auth_ref := (World.auth_ref H cm honest cfg st_wm st_shut st_fresh st_lead).
Local Notation auth_vote := (World.auth_vote H cm honest cfg st_wm st_shut st_fresh st_lead).
Local Notation auth_proof := (World.auth_proof H cm honest cfg st_wm st_shut st_fresh st_lead).
Local Notation node_inv := (World.node_inv H cm Hw honest cfg cfg_me st_wm st_shut st_fresh st_lead).
Local Notation snoc_same := (World.nstate_snoc_same H cm cfg st_wm st_shut st_fresh st_lead).
Local Notation snoc_other := (World.nstate_snoc_other H cm cfg st_wm st_shut st_fresh st_lead).
Local Notation deliver_run := (LiveWorld.deliver_run H cm Hw honest cfg cfg_me st_wm st_shut st_fresh st_lead).
Local Notation step_grows := (LiveWorld.step_grows H cm Hw honest cfg cfg_me st_wm st_shut st_fresh st_lead).
Local Notation auth_vote_mono := (LiveWorld.auth_vote_mono H cm Hw honest cfg cfg_me st_wm st_shut st_fresh st_lead).
Local Notation auth_proof_mono := (LiveWorld.auth_proof_mono H cm Hw honest cfg cfg_me st_wm st_shut st_fresh st_lead).
Local Notation gev := (N * tev)%type.

(* ---- the timers of the members of a list fire, one after the other ---- *)
Definition timeouts (u : N) (Q' : list N) : list gev := map (fun i => (i, TElect H u None false)) Q'.

Lemma fire_all u : forall Q' run0, wrun run0 -> NoDup Q' -> (forall i, In i Q' -> good i) ->
  wrun (run0 ++ timeouts u Q') /\
  (forall j, ~ In j Q' -> nstate j (run0 ++ timeouts u Q') = nstate j run0) /\
  (forall i, In i Q' -> nstate i (run0 ++ timeouts u Q') = move_to_next_leader (cfg i) None false (nstate i run0) H u) /\
  (forall vt, auth_vote run0 vt -> auth_vote (run0 ++ timeouts u Q') vt) /\
  (forall p, auth_proof run0 p -> auth_proof (run0 ++ timeouts u Q') p).
Proof.
  induction Q' as [|i Q' IH]; intros run0 Hr Hnd Hg; cbn [timeouts map].
  - rewrite app_nil_r. split; [exact Hr|]. split; [auto|]. split; [intros i []|]. split; auto.
  - inversion Hnd as [|? ? Hni Hnd']; subst.
    assert (Hok : tev_ok (cfg i) H (TElect H u None false)) by exact I.
    assert (Hgi : good i) by (apply Hg; left; reflexivity).
    assert (Hr1 : wrun (run0 ++ [(i, TElect H u None false)])).
    { constructor; auto. intros m wm' sh' Em. discriminate Em. }
    destruct (IH _ Hr1 Hnd' (fun j Hj => Hg j (or_intror Hj))) as (A1 & A2 & A3 & A4 & A5). fold (timeouts u Q') in *.
    replace (run0 ++ (i, TElect H u None false) :: timeouts u Q') with ((run0 ++ [(i, TElect H u None false)]) ++ timeouts u Q') by (rewrite <- app_assoc; reflexivity).
    split; [exact A1|]. split; [|split; [|split]].
    + intros j Hj. rewrite A2 by (intro Hj'; apply Hj; right; exact Hj'). apply snoc_other. intro Ej. apply Hj. left. symmetry. exact Ej.
    + intros j [<-|Hj].
      * rewrite (A2 i Hni). rewrite snoc_same. reflexivity.
      * rewrite (A3 j Hj). rewrite snoc_other; [reflexivity|]. intro Ej; subst j. contradiction.
    + intros vt Hvt. apply A4. apply auth_vote_mono; assumption.
    + intros p Hp. apply A5. apply auth_proof_mono; assumption.
Qed.

(* ---- the setting: quorum weight of correct members in view u, the leader of u+1 among them ---- *)
Variable Q : list N.
Variable u : N.
Hypothesis Hu : u + 1 < W64.
Local Notation v := (u + 1).
Local Notation Ld := (leaderOf cm (u + 1)).
Hypothesis Qnd : NoDup Q.
Hypothesis Qgood : forall i, In i Q -> good i.
Hypothesis Qquorum : isQ_ids cm Q = true.
Hypothesis LdQ : In Ld Q.
Hypothesis cfg_inst : forall i, In i Q -> c_inst (cfg i) = c_inst (cfg Ld).

Definition vote_of (run : list gev) (i : N) : vote := own_vote (cfg i) (nstate i run).
Definition vote_block (run : list gev) (i : N) : option block := own_vote_block (cfg i) (nstate i run).

(* what the vote of a member of Q looks like to the leader of u+1 *)
Lemma follower_vote_ok run i : wrun run -> In i Q -> i <> Ld -> tc_v (nstate i run) = u ->
  vote_spec (cfg Ld) cm H v (vote_of run i) /\ v_view (vote_of run i) = v /\ v_height (vote_of run i) = H /\
  v_snd (vote_of run i) = my_sig (cfg i) /\
  match vote_block run i, v_proof (vote_of run i) with
  | None, None => True
  | Some _, Some p => commitsTo (v_height (vote_of run i)) (vote_block run i) (r_hash (pf_ppref p)) = true
  | _, _ => False
  end.
Proof.
  intros Hr Hi Hne Hv. destruct (node_inv run i Hr (Qgood i Hi)) as (TI & SI & Hh & Hcm & _).
  set (x := nstate i run) in *.
  assert (Hl : leaderOf (t_cm (tc_t x)) (tc_v x + 1) <> c_me (cfg i)) by (rewrite Hcm, Hv, cfg_me; congruence).
  assert (Hs : tc_v x + 1 < W64) by (rewrite Hv; exact Hu).
  destruct (timeout_follower (cfg i) None false x SI TI Hs Hl) as (A1 & A2 & A3 & A4). cbn zeta in *.
  assert (Hin : In (OSend [leaderOf (t_cm (tc_t x)) (tc_v x + 1)] (MVC (own_vote (cfg i) x) (own_vote_block (cfg i) x)))
                   (tc_out (move_to_next_leader (cfg i) None false x (t_h (tc_t x)) (tc_v x)))) by (rewrite A3; left; reflexivity).
  destruct (vote_carries_lock (cfg i) None false x _ _ _ _ _ SI Hin A4) as (Vv & Vh & Vty & Vin & Vs & _ & VP).
  unfold vote_of, vote_block. fold x.
  assert (VS : vote_spec (cfg i) cm H v (own_vote (cfg i) x)).
  { rewrite <- Hcm, <- Hh. replace v with (v_view (own_vote (cfg i) x)) by (rewrite Vv, Hv; reflexivity). constructor; auto.
    - cbn. apply (si_me _ _ SI).
    - intros p Ep. destruct (t_prepared (tc_t x)); [destruct VP as (p' & b & E1 & PS & _); assert (E2 : p = p') by congruence; subst p; exact PS|destruct VP as [E1 _]; congruence]. }
  split; [apply (vote_spec_inst (cfg i) (cfg Ld)); [apply cfg_inst; exact Hi|exact VS]|].
  split; [rewrite Vv, Hv; reflexivity|]. split; [rewrite Vh; exact Hh|]. split; [exact Vs|].
  destruct (t_prepared (tc_t x)).
  - destruct VP as (p' & b & E1 & _ & _ & -> & Cm). rewrite E1, Vh. exact Cm.
  - destruct VP as [-> ->]. exact Logic.I.
Qed.

(* ---- the leader of u+1 between its own timeout and its election ---- *)
Definition nv_old (x : tc) : Prop :=
  forall to ty i h0 v0 vs sg pp pps b, In (OSend to (MNV ty i h0 v0 vs sg pp pps b)) (tc_out x) -> r_view pp < v.

Record waiting (r : list gev) : Prop := {
  w_v : tc_v (nstate Ld r) = v;
  w_latest : t_latest (tc_t (nstate Ld r)) < v;
  w_pp : get_pp (tc_t (nstate Ld r)) v = None;
  w_nq : isQ_ids cm (voters (tc_t (nstate Ld r)) v) = false;
  w_auth : forall vt b, In (vt, b) (votes_of (tc_t (nstate Ld r)) v) -> auth_vote r vt
}.

Record elected_from (r : list gev) (xa : tc) : Prop := {
  e_state : nstate Ld r = check_elected (cfg Ld) None false xa v;
  e_on : check_elected (cfg Ld) None false xa v = on_elected (cfg Ld) None false xa v (votes_of (tc_t xa) v);
  e_sinv : SInv (cfg Ld) xa;
  e_vinv : vinv (tc_t xa);
  e_v : tc_v xa = v;
  e_pp : get_pp (tc_t xa) v = None;
  e_h : t_h (tc_t xa) = H;
  e_cm : t_cm (tc_t xa) = cm;
  e_old : nv_old xa;
  e_auth : forall vt b, In (vt, b) (votes_of (tc_t xa) v) -> auth_vote r vt
}.

Lemma vinv_store_vc t v0 vt b : vinv t -> vinv (store_vc v0 vt b t).
Proof.
  intros V v1. unfold store_vc. destruct (memN _ _) eqn:Em; [apply V|].
  unfold votes_of. cbn [t_vc]. rewrite filter_app, map_app, map_app. cbn [filter fst].
  destruct (N.eqb_spec v0 v1) as [->|]; cbn [map snd fst]; [|rewrite app_nil_r; apply V].
  apply NoDup_app_one; [apply V|]. apply memN_false_In. exact Em.
Qed.

Lemma node_vinv r i : wrun r -> good i -> vinv (tc_t (nstate i r)).
Proof.
  intros Hr [Hh Hm]. rewrite (World.nstate_trun H cm cfg st_wm st_shut st_fresh st_lead). apply trun_vinv; [exact Hw|rewrite cfg_me; exact Hm|].
  apply (World.wrun_evs_ok H cm honest cfg st_wm st_shut st_fresh st_lead); exact Hr.
Qed.

Lemma nv_old_from x xa : TInv (cfg Ld) x -> t_latest (tc_t x) < v ->
  (forall o, In o (tc_out xa) -> is_mnv o = true -> In o (tc_out x)) -> nv_old xa.
Proof.
  intros TI Hl Hsub to ty i h0 v0 vs sg pp pps b Hi.
  pose proof (Hsub _ Hi eq_refl) as Hx. apply In_props in Hx.
  pose proof (ti_prop_le _ _ TI) as F. rewrite Forall_forall in F. specialize (F _ Hx). cbn beta in F. lia.
Qed.

(* the common end of the leader's own timeout and of every vote it stores: checkElected on a state with the vote in *)
Lemma check_step r xa : nstate Ld r = check_elected (cfg Ld) None false xa v ->
  SInv (cfg Ld) xa -> vinv (tc_t xa) -> tc_v xa = v -> get_pp (tc_t xa) v = None -> t_latest (tc_t xa) < v ->
  t_h (tc_t xa) = H -> t_cm (tc_t xa) = cm -> nv_old xa -> voters (tc_t xa) v <> [] ->
  (forall vt b, In (vt, b) (votes_of (tc_t xa) v) -> auth_vote r vt) ->
  (waiting r /\ nstate Ld r = xa) \/ elected_from r xa.
Proof.
  intros Es SI VI Hv Hpp Hl Hh Hcm Hold Hne Ha.
  destruct (check_elected_cases (cfg Ld) None false xa v Hl Hne) as [[Q0 E0]|[Q1 E1]].
  - left. split; [|rewrite Es; exact E0]. rewrite Hcm in Q0. constructor; rewrite Es, E0; auto.
  - right. constructor; auto.
Qed.

Definition vote_facts (vt : vote) (b : option block) (j : N) : Prop :=
  vote_spec (cfg Ld) cm H v vt /\ v_view vt = v /\ v_height vt = H /\ v_snd vt = my_sig (cfg j) /\
  match b, v_proof vt with
  | None, None => True
  | Some _, Some p => commitsTo (v_height vt) b (r_hash (pf_ppref p)) = true
  | _, _ => False
  end.

Lemma Ld_good : good Ld. Proof. apply Qgood. exact LdQ. Qed.

(* one more vote reaches the waiting leader *)
Lemma deliver_vote r j vt b : wrun r -> waiting r -> j <> Ld -> vote_facts vt b j -> auth_vote r vt ->
  let r' := r ++ [(Ld, TMsg (MVC vt b) None false)] in
  wrun r' /\ (forall k, k <> Ld -> nstate k r' = nstate k r) /\
  ((waiting r' /\ incl (j :: voters (tc_t (nstate Ld r)) v) (voters (tc_t (nstate Ld r')) v)) \/ exists xa, elected_from r' xa).
Proof.
  intros Hr [W1 W2 W3 W4 W5] Hne (VS & Vv & Vh & Vs & Vm) Ha. cbn zeta.
  destruct (node_inv r Ld Hr Ld_good) as (TI & SI & Hh & Hcm & _).
  set (x := nstate Ld r) in *.
  assert (Hok : tev_ok (cfg Ld) H (TMsg (MVC vt b) None false)).
  { cbn [tev_ok msg_height msg_sender]. split; [exact Vh|]. rewrite Vs. cbn. rewrite !cfg_me. exact Hne. }
  assert (Hr' : wrun (r ++ [(Ld, TMsg (MVC vt b) None false)])).
  { constructor; [exact Hr|apply Ld_good|exact Hok|]. intros m wm' sh' Em. injection Em as <- _ _. exact Ha. }
  split; [exact Hr'|]. split; [intros k Hk; apply snoc_other; exact Hk|].
  assert (Es : nstate Ld (r ++ [(Ld, TMsg (MVC vt b) None false)]) = check_elected (cfg Ld) None false (after_store x vt b) v).
  { rewrite snoc_same. cbn [tstep thandle]. fold x. rewrite <- Vv. apply handle_vc_shape.
    - rewrite Hcm, Vv. symmetry. apply cfg_me.
    - rewrite Vv, W1. lia.
    - rewrite Hcm, Hh, Vv. exact VS.
    - exact Vm. }
  destruct (after_store_facts x vt b) as (F1 & F2 & F3 & F4 & F5 & F6 & F7 & F8). rewrite Vv in F8.
  assert (Sj : s_id (v_snd vt) = j) by (rewrite Vs; cbn; apply cfg_me). rewrite Sj in F8.
  assert (VG : vc_good (cfg Ld) (tc_t x) (v_view vt) vt b).
  { unfold vc_good. split; [reflexivity|]. split; [rewrite Vh, Hh; reflexivity|]. split; [rewrite Hcm, Hh, Vv; exact VS|].
    rewrite Hh, <- Vh. exact Vm. }
  destruct (check_step _ (after_store x vt b) Es) as [Wt|El]; auto.
  - apply after_store_sinv; assumption.
  - unfold after_store. cbn [tc_set_t tc_t]. apply vinv_store_vc. apply node_vinv; [exact Hr|apply Ld_good].
  - rewrite F1. exact W1.
  - unfold get_pp in *. rewrite F4. exact W3.
  - rewrite F5. exact W2.
  - rewrite F2. exact Hh.
  - rewrite F3. exact Hcm.
  - apply (nv_old_from x); [exact TI|exact W2|exact F7].
  - intro E0. assert (Hin : In j (voters (tc_t (after_store x vt b)) v)) by (apply F8; left; reflexivity). rewrite E0 in Hin. destruct Hin.
  - intros vt' b' Hi. unfold after_store in Hi. cbn [tc_set_t tc_t] in Hi. rewrite <- Vv in Hi. rewrite votes_of_store_vc in Hi.
    assert (Hold : forall vt0 b0, In (vt0, b0) (votes_of (tc_t x) (v_view vt)) -> auth_vote (r ++ [(Ld, TMsg (MVC vt b) None false)]) vt0).
    { intros vt0 b0 H0. apply auth_vote_mono; [exact Hr|apply Ld_good|exact Hok|]. rewrite Vv in H0. apply (W5 vt0 b0 H0). }
    destruct (memN _ _); [apply (Hold vt' b' Hi)|]. apply in_app_or in Hi. destruct Hi as [Hi|[Hi|[]]]; [apply (Hold vt' b' Hi)|].
    injection Hi as <- _. apply auth_vote_mono; [exact Hr|apply Ld_good|exact Hok|exact Ha].
  - destruct Wt as [Wt Ex]. left. split; [exact Wt|]. rewrite Ex. exact F8.
  - right. exists (after_store x vt b). exact El.
Qed.

(* the votes of the members of a list are delivered to the waiting leader, one after the other, until it is elected:
   it is, at the latest, when the stored voters include all of Q *)
Lemma votes_elect (vt_of : N -> vote) (b_of : N -> option block) : forall l r, wrun r -> waiting r -> NoDup l ->
  (forall j, In j l -> j <> Ld /\ vote_facts (vt_of j) (b_of j) j /\ auth_vote r (vt_of j)) ->
  (forall j, In j Q -> In j l \/ In j (voters (tc_t (nstate Ld r)) v)) ->
  exists l', let ext := deliveries Ld (map (fun j => MVC (vt_of j) (b_of j)) l') in
    wrun (r ++ ext) /\ (forall k, k <> Ld -> nstate k (r ++ ext) = nstate k r) /\ (exists xa, elected_from (r ++ ext) xa) /\
    (forall vt, auth_vote r vt -> auth_vote (r ++ ext) vt) /\
    (forall g, In g ext -> fst g = Ld /\ exists m, snd g = TMsg m None false).
Proof.
  induction l as [|j l IH]; intros r Hr Wt Hnd Hl Hcov.
  - exfalso. assert (Hq : isQ_ids cm (voters (tc_t (nstate Ld r)) v) = true).
    { unfold isQ_ids. apply (isQ_mono Q); [exact Hw| |exact Qquorum]. intros k Hk. destruct (Hcov k Hk) as [[]|Hv]. exact Hv. }
    rewrite (w_nq _ Wt) in Hq. discriminate.
  - inversion Hnd as [|? ? Hnj Hnd']; subst.
    destruct (Hl j (or_introl eq_refl)) as (Hne & VF & Ha).
    destruct (deliver_vote r j (vt_of j) (b_of j) Hr Wt Hne VF Ha) as (Hr' & Hoth & Hcase). cbn zeta in *.
    set (e := (Ld, TMsg (MVC (vt_of j) (b_of j)) None false)) in *.
    assert (Hok : tev_ok (cfg Ld) H (snd e)).
    { destruct VF as (_ & _ & Vh & Vs & _). cbn [snd e tev_ok msg_height msg_sender]. split; [exact Vh|]. rewrite Vs. cbn. rewrite !cfg_me. exact Hne. }
    assert (Hmono : forall vt, auth_vote r vt -> auth_vote (r ++ [e]) vt) by (intros vt Hvt; apply auth_vote_mono; [exact Hr|apply Ld_good|exact Hok|exact Hvt]).
    destruct Hcase as [[Wt' Hinc]|Hel].
    + destruct (IH (r ++ [e]) Hr' Wt' Hnd') as (l' & A1 & A2 & A3 & A4 & A5).
      * intros k Hk. destruct (Hl k (or_intror Hk)) as (B1 & B2 & B3). split; [exact B1|]. split; [exact B2|]. apply Hmono. exact B3.
      * intros k Hk. destruct (Hcov k Hk) as [[<-|Hk']|Hv]; [right; apply Hinc; left; reflexivity|left; exact Hk'|right; apply Hinc; right; exact Hv].
      * exists (j :: l'). cbn zeta in *. cbn [map deliveries]. fold e. fold (deliveries Ld (map (fun j0 => MVC (vt_of j0) (b_of j0)) l')).
        replace (r ++ e :: deliveries Ld (map (fun j0 => MVC (vt_of j0) (b_of j0)) l')) with ((r ++ [e]) ++ deliveries Ld (map (fun j0 => MVC (vt_of j0) (b_of j0)) l')) by (rewrite <- app_assoc; reflexivity).
        split; [exact A1|]. split; [intros k Hk; rewrite (A2 k Hk); apply Hoth; exact Hk|]. split; [exact A3|]. split; [intros vt Hvt; apply A4, Hmono; exact Hvt|].
        intros g [<-|Hg]; [split; [reflexivity|eexists; reflexivity]|apply A5; exact Hg].
    + exists [j]. cbn zeta. cbn [map deliveries]. fold e. split; [exact Hr'|]. split; [exact Hoth|]. split; [exact Hel|]. split; [exact Hmono|].
      intros g [<-|[]]. split; [reflexivity|eexists; reflexivity].
Qed.

(* ---- from the election to the commit ---- *)
Hypothesis Qthird : forall i, In i Q -> exists j, In j Q /\ j <> i /\ j <> Ld.

Local Notation joined := (LiveWorld.joined H cm cfg st_wm st_shut st_fresh st_lead).

Lemma elected_commits r xa : wrun r -> elected_from r xa ->
  (forall i, In i Q -> i <> Ld -> tc_v (nstate i r) = v /\ get_pp (tc_t (nstate i r)) v = None) ->
  exists h m ext, msg_sender m = Ld /\ wrun (r ++ deliveries_of_proposal cm v Q m ++ ext) /\
    (forall g, In g (deliveries_of_proposal cm v Q m ++ ext) -> In (fst g) Q /\ exists m', snd g = TMsg m' None false) /\
    forall i, In i Q -> t_committed (tc_t (nstate i (r ++ deliveries_of_proposal cm v Q m ++ ext))) = true /\
                        (t_committed (tc_t (nstate i (r ++ deliveries_of_proposal cm v Q m))) = false ->
                         In (v, h) (D (nstate i (r ++ deliveries_of_proposal cm v Q m ++ ext)))).
Proof.
  intros Hr [E1 E2 E3 E4 E5 E6 E7 E8 E9 E10] Hfol.
  set (vs := votes_of (tc_t xa) v) in *.
  destruct (on_elected_elects (cfg Ld) None false xa v vs) as (A1 & A2 & A3 & A4 & h & b & A5 & A6 & A7); [lia|exact E6|intros _; reflexivity|].
  cbn zeta in *. rewrite <- E2, <- E1 in A1, A2, A3, A4, A5, A6. rewrite E7, E8 in *.
  set (m := nv_of (cfg Ld) xa v vs h b) in *.
  exists h, m.
  assert (Hs : msg_sender m = Ld) by (subst m; unfold nv_of; cbn [msg_sender my_sig s_id]; apply cfg_me).
  assert (Hh : msg_height m = H) by (subst m; unfold nv_of; cbn [msg_height]; exact E7).
  assert (JL : joined v h r Ld).
  { apply (LiveWorld.leader_joined H cm cfg cfg_me st_wm st_shut st_fresh st_lead); [exact A1|]. eexists. split; [exact A5|reflexivity]. }
  assert (Ha : auth_msg r m).
  { subst m. unfold nv_of. cbn [World.auth_msg]. split.
    - intros vt Hvt. apply in_map_iff in Hvt. destruct Hvt as ([vt' b'] & <- & Hi). cbn [fst]. apply (E10 vt' b' Hi).
    - intros _ _. cbn [my_sig s_id]. rewrite cfg_me. exists (others (cfg Ld) cm). right; right; right.
      do 8 eexists. exact A6. }
  assert (Hacc : forall i, In i Q -> i <> Ld -> accepted (cfg i) (thandle (cfg i) None false (nstate i r) m) v h).
  { intros i Hi Hne. destruct (Hfol i Hi Hne) as [F1 F2]. destruct (node_inv r i Hr (Qgood i Hi)) as (_ & _ & Hhi & Hcmi & _).
    set (o := OSend (others (cfg Ld) cm) m).
    assert (P1 : In o (tc_out (check_elected (cfg Ld) None false xa v))) by (rewrite <- E1; exact A6).
    assert (P2 : ~ In o (tc_out xa)) by (intro Hin; subst o m; unfold nv_of in Hin; apply E9 in Hin; cbn [mk_ref r_view] in Hin; lia).
    assert (P3 : leaderOf (t_cm (tc_t xa)) v = c_me (cfg Ld)) by (rewrite E8; symmetry; apply cfg_me).
    assert (P4 : c_inst (cfg i) = c_inst (cfg Ld)) by (apply cfg_inst; exact Hi).
    assert (P5 : t_cm (tc_t (nstate i r)) = t_cm (tc_t xa)) by (rewrite Hcmi, E8; reflexivity).
    assert (P6 : t_h (tc_t (nstate i r)) = t_h (tc_t xa)) by (rewrite Hhi, E7; reflexivity).
    assert (P7 : tc_v (nstate i r) <= v) by (rewrite F1; lia).
    destruct (honest_new_view_is_accepted (cfg Ld) (cfg i) None false xa v o None false (nstate i r) E3 E4 eq_refl P1 P2 P3 P4 P5 P6 P7 F2)
      as (to & ty & i0 & h0 & vs0 & s0 & pp & pps & b0 & Eo & Hacc).
    subst o m. unfold nv_of in Eo. injection Eo as _ <- <- <- <- <- <- <- <-. cbn [thandle mk_ref r_hash] in *. apply Hacc.
      intros Hnone. split; [reflexivity|].
      destruct (A7 (latest_block_none vs Hnone)) as (B1 & B2 & B3).
      unfold validProposal. rewrite B1, B2, B3. cbn [memN negb andb]. rewrite ?E7, !N.eqb_refl. reflexivity. }
  destruct (LiveWorld.proposal_delivered_then_commits H cm Hw honest cfg cfg_me st_wm st_shut st_fresh st_lead v h Q Qnd Qgood Qquorum Qthird r m Hr LdQ JL Hh Hs Ha Hacc) as (ext & C1 & C2 & C3).
  exists ext. split; [exact Hs|]. split; [exact C1|]. split; [exact C2|exact C3].
Qed.

(* ---- the timeouts ---- *)
Lemma no_pp_above run i : wrun run -> good i -> tc_v (nstate i run) = u -> get_pp (tc_t (nstate i run)) v = None.
Proof.
  intros Hr Hg Hv. destruct (node_inv run i Hr Hg) as (_ & SI & _).
  destruct (get_pp (tc_t (nstate i run)) v) as [e|] eqn:Eg; [|reflexivity].
  destruct (si_pp _ _ SI v e Eg) as [_ L]. rewrite Hv in L. lia.
Qed.

Lemma follower_after_timeout run i : wrun run -> In i Q -> i <> Ld -> tc_v (nstate i run) = u ->
  let x' := move_to_next_leader (cfg i) None false (nstate i run) H u in
  tc_v x' = v /\ get_pp (tc_t x') v = None /\ In (vote_of run i) (Vt i x').
Proof.
  intros Hr Hi Hne Hv. cbn zeta. destruct (node_inv run i Hr (Qgood i Hi)) as (TI & SI & Hh & Hcm & _).
  pose proof (no_pp_above run i Hr (Qgood i Hi) Hv) as Hn.
  set (x := nstate i run) in *.
  assert (Hl : leaderOf (t_cm (tc_t x)) (tc_v x + 1) <> c_me (cfg i)) by (rewrite Hcm, Hv, cfg_me; congruence).
  assert (Hs : tc_v x + 1 < W64) by (rewrite Hv; exact Hu).
  destruct (timeout_follower (cfg i) None false x SI TI Hs Hl) as (A1 & A2 & A3 & A4). cbn zeta in *.
  rewrite Hh, Hv in A1, A2, A3. rewrite A1, A2. split; [reflexivity|]. split; [exact Hn|].
  unfold Vt. apply in_or_app. left. rewrite A3. unfold sent_of. cbn [flat_map app voted_of]. left. reflexivity.
Qed.

Lemma In_own_stored me t v0 vt b : In (v0, (vt, b)) (t_vc t) -> s_id (v_snd vt) = me -> In vt (own_stored me t).
Proof.
  intros Hi Hs. unfold own_stored. apply in_flat_map. exists (v0, (vt, b)). split; [exact Hi|]. cbn [snd fst]. rewrite Hs, N.eqb_refl. left. reflexivity.
Qed.

Lemma votes_of_In t v0 vt b : In (vt, b) (votes_of t v0) -> In (v0, (vt, b)) (t_vc t).
Proof.
  unfold votes_of. intro Hi. apply in_map_iff in Hi. destruct Hi as ([v1 e] & E0 & Hf). cbn [snd] in E0. subst e.
  apply filter_In in Hf. destruct Hf as [Hf Hb]. cbn [fst] in Hb. apply N.eqb_eq in Hb. subst v1. exact Hf.
Qed.

(* ---- the theorem ---- *)
Definition votes_authentic (run : list gev) : Prop :=
  (forall i p, In i Q -> v_proof (vote_of run i) = Some p -> auth_proof run p) /\
  (forall vt b, In (vt, b) (votes_of (tc_t (nstate Ld run)) v) -> auth_vote run vt).

Theorem synchronised_view_change_commits run : wrun run -> (forall i, In i Q -> tc_v (nstate i run) = u) -> votes_authentic run ->
  exists ext, wrun (run ++ ext) /\ (forall g, In g ext -> In (fst g) Q) /\
    forall i, In i Q -> t_committed (tc_t (nstate i (run ++ ext))) = true.
Proof.
  intros Hr Hview [HA1 HA2].
  destruct (fire_all u Q run Hr Qnd Qgood) as (R1 & R2 & R3 & R4 & R5).
  set (run1 := run ++ timeouts u Q) in *.
  (* the followers after their timeouts *)
  assert (Hfol1 : forall i, In i Q -> i <> Ld -> tc_v (nstate i run1) = v /\ get_pp (tc_t (nstate i run1)) v = None /\ auth_vote run1 (vote_of run i)).
  { intros i Hi Hne. rewrite (R3 i Hi). destruct (follower_after_timeout run i Hr Hi Hne (Hview i Hi)) as (B1 & B2 & B3). cbn zeta in *.
    split; [exact B1|]. split; [exact B2|]. split.
    - intros _ _. destruct (follower_vote_ok run i Hr Hi Hne (Hview i Hi)) as (_ & _ & _ & Vs & _). rewrite Vs. cbn [my_sig s_id]. rewrite cfg_me, (R3 i Hi). exact B3.
    - intros p Hp. apply R5. apply (HA1 i p Hi Hp). }
  (* the leader after its own *)
  destruct (node_inv run Ld Hr Ld_good) as (TI & SI & Hh & Hcm & _).
  pose proof (no_pp_above run Ld Hr Ld_good (Hview Ld LdQ)) as HnL.
  set (xL := nstate Ld run) in *.
  assert (HvL : tc_v xL = u) by (apply Hview; exact LdQ).
  assert (EL : nstate Ld run1 = check_elected (cfg Ld) None false (after_own_vote (cfg Ld) xL) v).
  { rewrite (R3 Ld LdQ). fold xL. pose proof (timeout_leader (cfg Ld) None false xL SI) as TL. rewrite Hh, HvL, Hcm in TL. apply TL; [exact Hu|symmetry; apply cfg_me]. }
  destruct (after_own_vote_facts (cfg Ld) xL) as (F1 & F2 & F3 & F4 & F5 & F6 & F7 & F8). rewrite HvL, cfg_me in *.
  assert (Hlat : t_latest (tc_t xL) < v) by (pose proof (ti_latest _ _ TI) as L0; rewrite HvL in L0; lia).
  assert (Hstep : (waiting run1 /\ nstate Ld run1 = after_own_vote (cfg Ld) xL) \/ elected_from run1 (after_own_vote (cfg Ld) xL)).
  { apply check_step; auto.
    - apply after_own_vote_sinv; [exact SI|rewrite HvL; exact Hu].
    - unfold after_own_vote. cbn zeta. cbn [tc_set_t tc_t]. apply vinv_store_vc. apply node_vinv; [exact Hr|apply Ld_good].
    - unfold get_pp in *. rewrite F4. exact HnL.
    - rewrite F5. exact Hlat.
    - rewrite F2. exact Hh.
    - rewrite F3. exact Hcm.
    - apply (nv_old_from xL); [exact TI|exact Hlat|exact F7].
    - intro E0. assert (Hin : In Ld (voters (tc_t (after_own_vote (cfg Ld) xL)) v)) by (apply F8; left; reflexivity). rewrite E0 in Hin. destruct Hin.
    - intros vt b Hi. unfold after_own_vote in Hi. cbn zeta in Hi. cbn [tc_set_t tc_t] in Hi. rewrite HvL in Hi.
      assert (Vv : v_view (own_vote (cfg Ld) xL) = v) by (cbn [own_vote v_view]; rewrite HvL; reflexivity).
      rewrite votes_of_store_vc in Hi.
      assert (Hold : forall vt0 b0, In (vt0, b0) (votes_of (tc_t xL) v) -> auth_vote run1 vt0) by (intros vt0 b0 H0; apply R4; apply (HA2 vt0 b0 H0)).
      destruct (memN _ _) eqn:Em; [apply (Hold vt b Hi)|]. apply in_app_or in Hi. destruct Hi as [Hi|[Hi|[]]]; [apply (Hold vt b Hi)|].
      injection Hi as <- <-. split.
      + intros _ _. cbn [own_vote v_snd my_sig s_id]. rewrite cfg_me. unfold Vt. apply in_or_app. right.
        assert (Evc : t_vc (tc_t (nstate Ld run1)) = t_vc (tc_t (after_own_vote (cfg Ld) xL))).
        { rewrite EL. destruct (check_elected_own (cfg Ld) None false (after_own_vote (cfg Ld) xL) v) as [->|[_ ES]]; [reflexivity|apply (es_vc _ _ _ _ ES)]. }
        apply (In_own_stored Ld _ v _ (own_vote_block (cfg Ld) xL)); [|cbn; apply cfg_me].
        rewrite Evc. unfold after_own_vote. cbn zeta. cbn [tc_set_t tc_t]. rewrite HvL. unfold store_vc. fold (voters (tc_t xL) v).
        cbn [own_vote v_snd my_sig s_id] in Em. rewrite cfg_me in Em. cbn [own_vote v_snd my_sig s_id]. rewrite cfg_me, Em. cbn [t_vc]. apply in_or_app. right. left. reflexivity.
      + intros p Hp. apply R5. apply (HA1 Ld p LdQ). exact Hp. }
  (* from an elected leader to the commit *)
  assert (Fin : forall r xa, wrun r -> elected_from r xa -> (forall k, k <> Ld -> nstate k r = nstate k run1) ->
     exists ext, wrun (r ++ ext) /\ (forall g, In g ext -> In (fst g) Q) /\ forall i, In i Q -> t_committed (tc_t (nstate i (r ++ ext))) = true).
  { intros r xa Hrr Hel Hsame.
    destruct (elected_commits r xa Hrr Hel) as (h & m & ext & _ & C1 & C2 & C3).
    - intros i Hi Hne. rewrite (Hsame i Hne). destruct (Hfol1 i Hi Hne) as (B1 & B2 & _). split; assumption.
    - exists (deliveries_of_proposal cm v Q m ++ ext). split; [exact C1|]. split; [intros g Hg; apply (C2 g Hg)|]. intros i Hi. apply (C3 i Hi). }
  destruct Hstep as [[Wt Ex]|Hel].
  - set (l := filter (fun j => negb (j =? Ld)) Q).
    destruct (votes_elect (vote_of run) (vote_block run) l run1 R1 Wt) as (l' & D1 & D2 & (xa & D3) & _ & D5).
    + apply NoDup_filter. exact Qnd.
    + intros j Hj. apply filter_In in Hj. destruct Hj as [Hj Hb]. apply negb_true_iff, N.eqb_neq in Hb.
      split; [exact Hb|]. split; [|apply (Hfol1 j Hj Hb)].
      destruct (follower_vote_ok run j Hr Hj Hb (Hview j Hj)) as (G1 & G2 & G3 & G4 & G5). exact (conj G1 (conj G2 (conj G3 (conj G4 G5)))).
    + intros j Hj. destruct (N.eq_dec j Ld) as [->|Hne].
      * right. rewrite Ex. apply F8. left. reflexivity.
      * left. apply filter_In. split; [exact Hj|]. apply negb_true_iff, N.eqb_neq. exact Hne.
    + cbn zeta in *. set (ext2 := deliveries Ld (map (fun j => MVC (vote_of run j) (vote_block run j)) l')) in *.
      destruct (Fin (run1 ++ ext2) xa D1 D3 D2) as (ext3 & G1 & G2 & G3).
      exists (timeouts u Q ++ ext2 ++ ext3). subst run1. rewrite <- !app_assoc in *. split; [exact G1|]. split; [|exact G3].
      intros g Hg. apply in_app_or in Hg. destruct Hg as [Hg|Hg].
      * unfold timeouts in Hg. apply in_map_iff in Hg. destruct Hg as (i & <- & Hi). exact Hi.
      * apply in_app_or in Hg. destruct Hg as [Hg|Hg]; [destruct (D5 g Hg) as [-> _]; exact LdQ|apply G2; exact Hg].
  - destruct (Fin run1 _ R1 Hel (fun k _ => eq_refl)) as (ext3 & G1 & G2 & G3).
    exists (timeouts u Q ++ ext3). subst run1. rewrite <- !app_assoc in *. split; [exact G1|]. split; [|exact G3].
    intros g Hg. apply in_app_or in Hg. destruct Hg as [Hg|Hg]; [|apply G2; exact Hg].
    unfold timeouts in Hg. apply in_map_iff in Hg. destruct Hg as (i & <- & Hi). exact Hi.
Qed.

(* no hypothesis about authenticity is left when nobody in Q is prepared and the leader holds no early vote for u+1 *)
Corollary synchronised_view_change_commits_fresh run : wrun run ->
  (forall i, In i Q -> tc_v (nstate i run) = u /\ t_prepared (tc_t (nstate i run)) = None) ->
  votes_of (tc_t (nstate Ld run)) v = [] ->
  exists ext, wrun (run ++ ext) /\ (forall g, In g ext -> In (fst g) Q) /\
    forall i, In i Q -> t_committed (tc_t (nstate i (run ++ ext))) = true.
Proof.
  intros Hr Hq Hnov. apply synchronised_view_change_commits; [exact Hr|intros i Hi; apply (Hq i Hi)|]. split.
  - intros i p Hi Hp. destruct (Hq i Hi) as [_ Hn]. unfold vote_of, own_vote, vote_res in Hp. cbn [v_proof] in Hp. rewrite Hn in Hp. discriminate.
  - intros vt b Hi. rewrite Hnov in Hi. destruct Hi.
Qed.
End LE.
