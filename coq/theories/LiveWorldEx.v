(* LiveWorldEx.v — the hypotheses of LiveWorld.good_view_commits are satisfiable: in the four-member world of WorldKF1
   (member 1 Byzantine) the correct members 0, 2, 3 join view 0 as soon as 2 and 3 received member 0's proposal, and the
   theorem then yields a continuation without election triggers in which all three commit that proposal. *)
From LH Require Import Prims Quorum QuorumFacts Contexts Msg Term TermFacts AbsSafety Own World WorldKF1 Live LiveWorld.
Open Scope N_scope.

Definition join_run : list (N * tev) :=
  ([] ++ [ev 2 (MPP (rf T_PREPREPARE 0 hA) (sg 0) (Some blkA))]) ++ [ev 3 (MPP (rf T_PREPREPARE 0 hA) (sg 0) (Some blkA))].
Definition Q3 : list N := [0; 2; 3].

Lemma join_is_a_run : wrun 1 cm4 honest4 cfg4 nowm noshut fresh0 lead1 join_run.
Proof. unfold join_run. do 2 wstep. apply wrun_nil. Qed.

Lemma total4 : total cm4 < W64. Proof. vm_compute. reflexivity. Qed.

Lemma all_joined i : In i Q3 -> joined 1 cm4 cfg4 nowm noshut fresh0 lead1 0 hA join_run i.
Proof.
  intros [<-|[<-|[<-|[]]]]; constructor; try (vm_compute; reflexivity).
  all: try (eexists; split; vm_compute; reflexivity).
  - intro Hx. exfalso. apply Hx. vm_compute. reflexivity.
  - intros _. split; [vm_compute; reflexivity|]. eexists. vm_compute. left. reflexivity.
  - intros _. split; [vm_compute; reflexivity|]. eexists. vm_compute. left. reflexivity.
Qed.

Example good_view_example :
  exists ext, wrun 1 cm4 honest4 cfg4 nowm noshut fresh0 lead1 (join_run ++ ext) /\
    (forall g, In g ext -> exists m, snd g = TMsg m None false) /\
    forall i, In i Q3 -> t_committed (tc_t (nstate 1 cm4 cfg4 nowm noshut fresh0 lead1 i join_run)) = false /\
                        In (0, hA) (D (nstate 1 cm4 cfg4 nowm noshut fresh0 lead1 i (join_run ++ ext))).
Proof.
  assert (Qnd : NoDup Q3) by (repeat constructor; cbn; intuition discriminate).
  assert (Qgood : forall i, In i Q3 -> good cm4 honest4 i) by (intros i [<-|[<-|[<-|[]]]]; split; reflexivity).
  assert (Qq : isQ_ids cm4 Q3 = true) by (vm_compute; reflexivity).
  assert (Qthird : forall i, In i Q3 -> exists j, In j Q3 /\ j <> i /\ j <> leaderOf cm4 0).
  { intros i [<-|[<-|[<-|[]]]]; [exists 2|exists 3|exists 2]; cbn [Q3 In]; (split; [auto|split; [discriminate|vm_compute; discriminate]]). }
  destruct (good_view_commits 1 cm4 total4 honest4 cfg4 (fun _ => eq_refl) nowm noshut fresh0 lead1 0 hA Q3 Qnd Qgood Qq Qthird join_run join_is_a_run all_joined)
    as (ext & A & B & _ & D0).
  exists ext. split; [exact A|]. split; [intros g Hg; apply (B g Hg)|].
  intros i Hi. assert (Hf : t_committed (tc_t (nstate 1 cm4 cfg4 nowm noshut fresh0 lead1 i join_run)) = false)
    by (destruct Hi as [<-|[<-|[<-|[]]]]; vm_compute; reflexivity).
  split; [exact Hf|]. apply (D0 i Hi). exact Hf.
Qed.

(* ... and so are those of proposal_delivered_then_commits: from the very start of the height, member 0's PREPREPARE
   delivered to members 2 and 3 makes them accept, and the theorem yields the rest of the schedule *)
Definition ppA : msg := MPP (rf T_PREPREPARE 0 hA) (sg 0) (Some blkA).
Example proposal_example :
  exists ext, wrun 1 cm4 honest4 cfg4 nowm noshut fresh0 lead1 ([] ++ deliveries_of_proposal cm4 0 Q3 ppA ++ ext) /\
    forall i, In i Q3 -> In (0, hA) (D (nstate 1 cm4 cfg4 nowm noshut fresh0 lead1 i ([] ++ deliveries_of_proposal cm4 0 Q3 ppA ++ ext))).
Proof.
  assert (Qnd : NoDup Q3) by (repeat constructor; cbn; intuition discriminate).
  assert (Qgood : forall i, In i Q3 -> good cm4 honest4 i) by (intros i [<-|[<-|[<-|[]]]]; split; reflexivity).
  assert (Qq : isQ_ids cm4 Q3 = true) by (vm_compute; reflexivity).
  assert (Qthird : forall i, In i Q3 -> exists j, In j Q3 /\ j <> i /\ j <> leaderOf cm4 0).
  { intros i [<-|[<-|[<-|[]]]]; [exists 2|exists 3|exists 2]; cbn [Q3 In]; (split; [auto|split; [discriminate|vm_compute; discriminate]]). }
  assert (JL : joined 1 cm4 cfg4 nowm noshut fresh0 lead1 0 hA [] (leaderOf cm4 0)).
  { constructor; [vm_compute; reflexivity|eexists; split; vm_compute; reflexivity|intro Hx; exfalso; apply Hx; vm_compute; reflexivity]. }
  assert (Ha : auth_msg 1 cm4 honest4 cfg4 nowm noshut fresh0 lead1 [] ppA).
  { cbn [auth_msg ppA]. unfold auth_ref. intros _ _. genuine. }
  assert (Hacc : forall i, In i Q3 -> i <> leaderOf cm4 0 ->
            accepted (cfg4 i) (thandle (cfg4 i) None false (nstate 1 cm4 cfg4 nowm noshut fresh0 lead1 i []) ppA) 0 hA).
  { intros i [<-|[<-|[<-|[]]]] Hne; [exfalso; apply Hne; vm_compute; reflexivity| |].
    all: unfold accepted; split; [vm_compute; reflexivity|]; split; [eexists; split; vm_compute; reflexivity|]; split; [vm_compute; reflexivity|].
    all: eexists; vm_compute; left; reflexivity. }
  destruct (proposal_delivered_then_commits 1 cm4 total4 honest4 cfg4 (fun _ => eq_refl) nowm noshut fresh0 lead1 0 hA Q3 Qnd Qgood Qq Qthird
              [] ppA (wrun_nil _ _ _ _ _ _ _ _) ltac:(vm_compute; auto) JL eq_refl ltac:(vm_compute; reflexivity) Ha Hacc) as (ext & A & _ & C0).
  exists ext. split; [exact A|]. intros i Hi. destruct (C0 i Hi) as [_ C2]. apply C2.
  destruct Hi as [<-|[<-|[<-|[]]]]; vm_compute; reflexivity.
Qed.
