(* World.v — the correct members of one height's committee as a global transition system, and agreement (C01).
   Every correct member runs the executable term model (Term.v: startTerm, then deliveries and election triggers).
   The network and the Byzantine members are one adversary: any message whatsoever may be delivered to any correct
   member at any time, any number of times, or never - subject only to the unforgeability discipline [auth_msg]:
   a signature flag that says "verifies under correct member j" is only set on content j really signed. Election
   triggers fire in any order. The theorem is proved by mapping every run to an abstract history (AbsSafety.v) and
   showing it valid; it needs the hypothesis that no standalone PREPREPARE for a view above 0 is delivered, because the
   code adopts those (known finding KF-1, refuted without the hypothesis in props/C01.v). *)
From Coq Require Import Lia.
From LH Require Import Prims Quorum QuorumFacts Contexts Msg Term TermFacts AbsSafety Own.
Open Scope N_scope.

Section World.
Variable H : N.
Variable cm : committee.
Hypothesis Hw : total cm < W64.
Variable honest : N -> bool.
Hypothesis Hbyz : (Z.of_N (wsum (fun i => negb (honest i)) cm) <= specF cm)%Z.
Variable cfg : N -> ncfg.
Hypothesis cfg_me : forall i, c_me (cfg i) = i.
Variable st_wm : N -> option hv.
Variable st_shut : N -> bool.
Variable st_fresh : N -> N.
Variable st_lead : N -> bool.

Definition good (i : N) : Prop := honest i = true /\ isMember cm i = true.
Definition goodb (i : N) : bool := honest i && isMember cm i.
Lemma goodb_good i : goodb i = true <-> good i.
Proof. unfold goodb, good. rewrite andb_true_iff. tauto. Qed.

Notation gev := (N * tev)%type.
Definition nevs (i : N) (run : list gev) : list tev := map snd (filter (fun g => N.eqb (fst g) i) run).
Definition nstart (i : N) : tc := tstart (cfg i) (st_wm i) (st_shut i) H cm (st_fresh i) (st_lead i).
Definition nstate (i : N) (run : list gev) : tc := fold_left (tstep (cfg i)) (nevs i run) (nstart i).

Lemma nstate_trun i run : nstate i run = trun (cfg i) (st_wm i) (st_shut i) H cm (st_fresh i) (st_lead i) (nevs i run).
Proof. reflexivity. Qed.
Lemma nstate_snoc_same i e run : nstate i (run ++ [(i, e)]) = tstep (cfg i) (nstate i run) e.
Proof. unfold nstate, nevs. rewrite filter_app, map_app. cbn [filter fst]. rewrite N.eqb_refl. cbn [map snd]. rewrite fold_left_app. reflexivity. Qed.
Lemma nstate_snoc_other i j e run : j <> i -> nstate j (run ++ [(i, e)]) = nstate j run.
Proof.
  intro Hne. unfold nstate, nevs. rewrite filter_app, map_app. cbn [filter fst].
  destruct (N.eqb_spec i j); [congruence|]. cbn [map]. rewrite app_nil_r. reflexivity.
Qed.

(* ---- the unforgeability discipline ---- *)
(* what a node has signed: read off its outputs (and, for votes, its own stored vote when it leads the view) *)
Definition signed_ref (x : tc) (r : bref) : Prop :=
  exists to, (exists sg b, In (OSend to (MPP r sg b)) (tc_out x)) \/ (exists sg, In (OSend to (MP r sg)) (tc_out x)) \/
             (exists sg o, In (OSend to (MC r sg o)) (tc_out x)) \/
             (exists ty i h v vs sg pps b, In (OSend to (MNV ty i h v vs sg r pps b)) (tc_out x)).
Definition auth_ref (run : list gev) (r : bref) (s : ssig) : Prop :=
  s_ok s = true -> good (s_id s) -> signed_ref (nstate (s_id s) run) r.
Definition auth_proof (run : list gev) (p : pproof) : Prop :=
  auth_ref run (pf_ppref p) (pf_ppsnd p) /\ forall s, In s (pf_psnds p) -> auth_ref run (pf_pref p) s.
Definition auth_vote (run : list gev) (vt : vote) : Prop :=
  (s_ok (v_snd vt) = true -> good (s_id (v_snd vt)) -> In vt (Vt (s_id (v_snd vt)) (nstate (s_id (v_snd vt)) run))) /\
  (forall p, v_proof vt = Some p -> auth_proof run p).
Definition auth_msg (run : list gev) (m : msg) : Prop :=
  match m with
  | MPP r s _ | MP r s | MC r s _ => auth_ref run r s
  | MVC vt _ => auth_vote run vt
  | MNV _ _ _ _ vs _ pp pps _ => (forall vt, In vt vs -> auth_vote run vt) /\ auth_ref run pp pps
  end.

(* runs: any correct member takes any step, on any authentic input *)
Inductive wrun : list gev -> Prop :=
| wrun_nil : wrun []
| wrun_snoc run i e : wrun run -> good i -> tev_ok (cfg i) H e ->
    (forall m wm' sh', e = TMsg m wm' sh' -> auth_msg run m) -> wrun (run ++ [(i, e)]).

(* the hypothesis that excludes known finding KF-1 *)
Definition no_standalone_preprepare_above_view0 (run : list gev) : Prop :=
  forall i r s b wm' sh', In (i, TMsg (MPP r s b) wm' sh') run -> r_view r = 0.

(* ---- node invariants along a run ---- *)
Lemma wrun_evs_ok run : wrun run -> forall i, Forall (tev_ok (cfg i) H) (nevs i run).
Proof.
  induction 1 as [|run i e Hr IH Hg Hok Ha]; intro j; [constructor|].
  unfold nevs. rewrite filter_app, map_app. apply Forall_app. split; [apply IH|]. cbn [filter fst].
  destruct (N.eqb_spec i j) as [->|]; cbn [map snd]; [constructor; [exact Hok|constructor]|constructor].
Qed.

Lemma node_inv run i : wrun run -> good i ->
  TInv (cfg i) (nstate i run) /\ SInv (cfg i) (nstate i run) /\ t_h (tc_t (nstate i run)) = H /\ t_cm (tc_t (nstate i run)) = cm /\ outs_typed (nstate i run).
Proof.
  intros Hr [_ Hm]. rewrite nstate_trun. pose proof (wrun_evs_ok run Hr i) as F.
  destruct (trun_inv (cfg i) (st_wm i) (st_shut i) H cm (st_fresh i) (st_lead i) (nevs i run) Hw F) as (A & B & C0).
  split; [exact A|]. split; [|split; [exact B|split; [exact C0|apply trun_outs_typed]]].
  apply trun_sinv; auto. rewrite cfg_me. exact Hm.
Qed.

Lemma node_step run i e : wrun run -> good i -> tev_ok (cfg i) H e -> step_sum (cfg i) e (nstate i run) (tstep (cfg i) (nstate i run) e).
Proof.
  intros Hr Hg Hok. destruct (node_inv run i Hr Hg) as (A & B & C0 & _). apply (tstep_sum (cfg i) H); assumption.
Qed.


Lemma node_inv2 run i : wrun run -> good i -> outs_lead cm i (nstate i run).
Proof. intros _ _. rewrite nstate_trun. rewrite <- (cfg_me i) at 1. apply trun_outs_lead. Qed.

(* ---- facts ---- *)
Definition fE (run : list gev) (j v y : N) : Prop := In (v, y) (E (nstate j run)).
Definition fC (run : list gev) (j v y : N) : Prop := In (v, y) (C (nstate j run)).
Definition fV (run : list gev) (j : N) (vt : vote) : Prop := In vt (Vt j (nstate j run)).
Definition proofF (run : list gev) (p : pproof) : Prop :=
  (s_ok (pf_ppsnd p) = true -> good (s_id (pf_ppsnd p)) -> fE run (s_id (pf_ppsnd p)) (r_view (pf_ppref p)) (r_hash (pf_ppref p))) /\
  (forall s, In s (pf_psnds p) -> s_ok s = true -> good (s_id s) -> fE run (s_id s) (r_view (pf_pref p)) (r_hash (pf_pref p))).
Definition voteF (run : list gev) (vt : vote) : Prop :=
  (s_ok (v_snd vt) = true -> good (s_id (v_snd vt)) -> fV run (s_id (v_snd vt)) vt) /\
  (forall p, v_proof vt = Some p -> proofF run p).

Lemma in_flat_map_incl {A B} (f : A -> list B) l l' b : incl l l' -> In b (flat_map f l) -> In b (flat_map f l').
Proof. intros Hi Hb. apply in_flat_map in Hb. destruct Hb as (a & Ha & Hb). apply in_flat_map. exists a. split; [apply Hi; exact Ha|exact Hb]. Qed.

Lemma step_facts_mono c e x x' : step_sum c e x x' ->
  incl (E x) (E x') /\ incl (C x) (C x') /\ incl (D x) (D x') /\ incl (Vt (c_me c) x) (Vt (c_me c) x').
Proof.
  intros S. pose proof (ss_out _ _ _ _ S) as Ho. pose proof (ss_vcmono _ _ _ _ S) as Hv.
  assert (Hs : incl (sent_of (tc_out x)) (sent_of (tc_out x'))) by (apply sent_of_incl; exact Ho).
  split; [intros a Ha; unfold E in *; eapply in_flat_map_incl; eauto|].
  split; [intros a Ha; unfold C in *; eapply in_flat_map_incl; eauto|].
  split; [intros a Ha; unfold D in *; eapply in_flat_map_incl; eauto|].
  intros a Ha. unfold Vt in *. apply in_app_or in Ha. apply in_or_app. destruct Ha as [Ha|Ha]; [left; eapply in_flat_map_incl; eauto|right].
  unfold own_stored in *. eapply in_flat_map_incl; eauto.
Qed.

Lemma facts_mono run i e : wrun (run ++ [(i, e)]) -> wrun run -> good i -> tev_ok (cfg i) H e ->
  (forall j v y, fE run j v y -> fE (run ++ [(i, e)]) j v y) /\
  (forall j v y, fC run j v y -> fC (run ++ [(i, e)]) j v y) /\
  (forall j vt, fV run j vt -> fV (run ++ [(i, e)]) j vt).
Proof.
  intros _ Hr Hg Hok. pose proof (node_step run i e Hr Hg Hok) as S. destruct (step_facts_mono _ _ _ _ S) as (A & B & _ & D0). rewrite cfg_me in D0.
  unfold fE, fC, fV. repeat split; intros j; destruct (N.eq_dec j i) as [->|Hne]; intros; rewrite ?nstate_snoc_same, ?(nstate_snoc_other i j e run Hne); auto.
Qed.

Lemma proofF_mono run g p : (forall j v y, fE run j v y -> fE (run ++ [g]) j v y) -> proofF run p -> proofF (run ++ [g]) p.
Proof. intros M [A B]. split; [intros; apply M; auto|intros; apply M; auto]. Qed.
Lemma voteF_mono run g vt : (forall j v y, fE run j v y -> fE (run ++ [g]) j v y) -> (forall j vt', fV run j vt' -> fV (run ++ [g]) j vt') -> voteF run vt -> voteF (run ++ [g]) vt.
Proof. intros M1 M2 [A B]. split; [intros; apply M2; auto|intros p Hp; apply proofF_mono; auto]. Qed.

(* what a verified signature of a correct member means *)
Lemma signed_ref_E run j r : wrun run -> good j -> signed_ref (nstate j run) r -> r_type r <> T_COMMIT -> fE run j (r_view r) (r_hash r).
Proof.
  intros Hr Hg (to & Hs) Hty. destruct (node_inv run j Hr Hg) as (TI & _ & _ & _ & _). unfold fE, E.
  assert (G : forall m, In (OSend to m) (tc_out (nstate j run)) -> In (r_view r, r_hash r) (endorsed_of m) -> In (r_view r, r_hash r) (flat_map endorsed_of (sent_of (tc_out (nstate j run))))).
  { intros m Ho He. apply in_flat_map. exists m. split; [|exact He]. unfold sent_of. apply in_flat_map. exists (OSend to m). split; [exact Ho|left; reflexivity]. }
  destruct Hs as [(sg & b & Ho)|[(sg & Ho)|[(sg & o & Ho)|(ty & i & h & v & vs & sg & pps & b & Ho)]]].
  - apply (G _ Ho). left; reflexivity.
  - apply (G _ Ho). left; reflexivity.
  - exfalso. apply Hty. destruct (ti_mc _ _ TI _ _ _ _ Ho) as (A & _). exact A.
  - apply (G _ Ho). left; reflexivity.
Qed.
Lemma signed_ref_C run j r : wrun run -> good j -> signed_ref (nstate j run) r -> r_type r = T_COMMIT -> fC run j (r_view r) (r_hash r).
Proof.
  intros Hr Hg (to & Hs) Hty. destruct (node_inv run j Hr Hg) as (TI & _ & _ & _ & OT). unfold fC, C. unfold outs_typed in OT. rewrite Forall_forall in OT.
  destruct Hs as [(sg & b & Ho)|[(sg & Ho)|[(sg & o & Ho)|(ty & i & h & v & vs & sg & pps & b & Ho)]]].
  - exfalso. specialize (OT _ Ho). cbn in OT. rewrite Hty in OT. discriminate.
  - exfalso. destruct (ti_mp _ _ TI _ _ _ Ho) as (A & _). rewrite Hty in A. discriminate.
  - apply in_flat_map. exists (MC r sg o). split; [|left; reflexivity]. unfold sent_of. apply in_flat_map. exists (OSend to (MC r sg o)). split; [exact Ho|left; reflexivity].
  - exfalso. specialize (OT _ Ho). cbn in OT. rewrite Hty in OT. discriminate.
Qed.

Lemma auth_proof_F run p : wrun run -> auth_proof run p -> r_type (pf_ppref p) = T_PREPREPARE -> r_type (pf_pref p) = T_PREPARE -> proofF run p.
Proof.
  intros Hr [A B] T1 T2. split.
  - intros Hs Hg. apply signed_ref_E; auto. rewrite T1. discriminate.
  - intros s Hin Hs Hg. apply signed_ref_E; auto; [apply (B s Hin Hs Hg)|rewrite T2; discriminate].
Qed.
Lemma auth_vote_F run c0 h v vt : wrun run -> auth_vote run vt -> vote_spec c0 cm h v vt -> voteF run vt.
Proof.
  intros Hr [A B] VS. split; [exact A|]. intros p Hp. destruct (vs_proof _ _ _ _ _ VS p Hp) as [[T1 T2] _ _ _ _ _ _ _ _].
  apply auth_proof_F; auto.
Qed.

(* ---- everything a correct member has stored is backed by what correct members did ---- *)
Record SA (run : list gev) (i : N) : Prop := {
  sa_p : forall v h s, In (v, h, s) (t_p (tc_t (nstate i run))) -> good (s_id s) -> fE run (s_id s) v h;
  sa_pp : forall v en, get_pp (tc_t (nstate i run)) v = Some en -> good (s_id (pe_snd en)) -> fE run (s_id (pe_snd en)) v (r_hash (pe_ref en));
  sa_c : forall v h s, In (v, h, s) (t_c (tc_t (nstate i run))) -> good (s_id s) -> fC run (s_id s) v h;
  sa_vc : forall v vt b, In (v, (vt, b)) (t_vc (tc_t (nstate i run))) -> voteF run vt;
  sa_own : forall vt p, In vt (Vt i (nstate i run)) -> v_proof vt = Some p -> proofF run p
}.

Lemma SA_start i : good i -> SA [] i.
Proof.
  intro Hg. destruct (tstart_own (cfg i) (st_wm i) (st_shut i) H cm (st_fresh i) (st_lead i)) as (_ & _ & VT & _ & P & Cc & V & _ & _ & PP). cbn zeta in *. rewrite cfg_me in VT.
  constructor; unfold nstate, nevs; cbn [filter map fold_left]; fold (nstart i); unfold nstart.
  - intros v h s Hin. rewrite P in Hin. destruct Hin.
  - intros v en Hin _. destruct (PP v en Hin) as (A & B & C0). rewrite A. cbn [my_sig s_id]. rewrite cfg_me. unfold fE, nstate, nevs. cbn [filter map fold_left]. exact C0.
  - intros v h s Hin. rewrite Cc in Hin. destruct Hin.
  - intros v vt b Hin. rewrite V in Hin. destruct Hin.
  - intros vt p Hin. rewrite VT in Hin. destruct Hin.
Qed.

Theorem SA_holds run : wrun run -> forall i, good i -> SA run i.
Proof.
  induction 1 as [|run i0 e Hr IH Hg0 Hok Hauth]; intros i Hg; [apply SA_start; exact Hg|].
  assert (Hr' : wrun (run ++ [(i0, e)])) by (constructor; assumption).
  destruct (facts_mono run i0 e Hr' Hr Hg0 Hok) as (ME & MC & MV).
  destruct (N.eq_dec i i0) as [->|Hne].
  2:{ specialize (IH i Hg). destruct IH as [A B C0 D0 F0]. pose proof (nstate_snoc_other i0 i e run Hne) as Q. constructor; rewrite Q.
      - intros; apply ME; eauto.
      - intros; apply ME; eauto.
      - intros; apply MC; eauto.
      - intros v vt b Hin. apply voteF_mono; eauto.
      - intros vt p Hin Hp. apply proofF_mono; eauto. }
  pose proof (node_step run i0 e Hr Hg0 Hok) as S.
  destruct (node_inv _ i0 Hr' Hg0) as (TI' & SI' & Hh' & Hcm' & _).
  specialize (IH i0 Hg0). destruct IH as [A B C0 D0 F0].
  pose proof (ss_Vt _ _ _ _ S) as SV. rewrite cfg_me in SV.
  assert (NEWV : forall vt p, In vt (Vt i0 (tstep (cfg i0) (nstate i0 run) e)) -> v_proof vt = Some p -> proofF (run ++ [(i0, e)]) p).
  { intros vt p Hv Hp. destruct (SV vt Hv) as [Hold|(_ & _ & _ & _ & _ & OPF)].
    - apply proofF_mono; auto. eapply F0; eauto.
    - destruct (OPF p Hp) as ((en & G1 & G2 & G3) & G4). apply proofF_mono with (run := run); auto. split.
      + intros Hs Hgl. rewrite <- G2, <- G3. apply B; [exact G1|rewrite G2; exact Hgl].
      + intros s Hs Hsok Hgl. apply (A _ _ s (G4 s Hs) Hgl). }
  rewrite nstate_snoc_same in *. set (x := nstate i0 run) in *. set (x' := tstep (cfg i0) x e) in *.
  assert (OWN : forall s, s = my_sig (cfg i0) -> s_id s = i0) by (intros s ->; cbn; apply cfg_me).
  constructor; rewrite nstate_snoc_same; fold x x'.
  - intros v h s Hin Hgs. destruct (ss_p _ _ _ _ S v h s Hin) as [Hold|[[Hs He]|(r & wm' & sh' & -> & Ty & <- & <-)]].
    + apply ME. apply A; assumption.
    + rewrite (OWN s Hs). unfold fE. rewrite nstate_snoc_same. exact He.
    + apply ME. destruct (si_p _ _ SI' _ _ _ Hin) as (Hsok & _). apply signed_ref_E; auto; [apply (Hauth _ _ _ eq_refl); assumption|rewrite Ty; discriminate].
  - intros v en Hin Hgs. destruct (ss_pp _ _ _ _ S v en Hin) as [Hold|[(Hs & Hv & He)|[(r & s & b & wm' & sh' & -> & -> & Hv)|(nty & ninst & nh & nvw & vs & sg & pp & pps & b & wm' & sh' & -> & -> & Hv)]]].
    + apply ME. apply B; assumption.
    + rewrite (OWN _ Hs). unfold fE. rewrite nstate_snoc_same. exact He.
    + destruct (si_pp _ _ SI' _ _ Hin) as [[PV PT _ _ PS _ _] _]. cbn [pe_ref pe_snd] in *. apply ME. rewrite <- Hv.
      apply signed_ref_E; auto; [apply (Hauth _ _ _ eq_refl); assumption|rewrite PT; discriminate].
    + destruct (si_pp _ _ SI' _ _ Hin) as [[PV PT _ _ PS _ _] _]. cbn [pe_ref pe_snd] in *. apply ME. rewrite <- Hv.
      apply signed_ref_E; auto; [apply (proj2 (Hauth _ _ _ eq_refl)); assumption|rewrite PT; discriminate].
  - intros v h s Hin Hgs. destruct (ss_c _ _ _ _ S v h s Hin) as [Hold|[(Hs & He & _)|(r & o & wm' & sh' & -> & Ty & <- & <- & Hsok)]].
    + apply MC. apply C0; assumption.
    + rewrite (OWN s Hs). unfold fC. rewrite nstate_snoc_same. exact He.
    + apply MC. apply signed_ref_C; auto. apply (Hauth _ _ _ eq_refl); assumption.
  - intros v vt b Hin. destruct (ss_vc _ _ _ _ S v vt b Hin) as [Hold|[[Hme Hv]|(wm' & sh' & ->)]].
    + apply voteF_mono; auto. eapply D0; eauto.
    + (* the node's own vote, stored because it leads the view: its proof is made of what the node had stored *)
      rewrite cfg_me in *. split; [intros _ _; rewrite Hme; unfold fV; rewrite nstate_snoc_same; exact Hv|].
      intros p Hp. apply (NEWV vt p Hv Hp).
    + destruct (si_vc _ _ SI' _ _ _ Hin) as (_ & _ & VS & _). apply voteF_mono; auto.
      apply (auth_vote_F run (cfg i0) (t_h (tc_t x')) v vt); auto; [apply (Hauth _ _ _ eq_refl)|rewrite <- Hcm'; exact VS].
  - intros vt p Hv Hp. apply (NEWV vt p Hv Hp).
Qed.

End World.
