(* World.v — the correct members of one height's committee as a global transition system, and agreement (C01).
   Every correct member runs the executable term model (Term.v: startTerm, then deliveries and election triggers).
   The network and the Byzantine members are one adversary: any message whatsoever may be delivered to any correct
   member at any time, any number of times, or never - subject only to the unforgeability discipline [auth_msg]:
   a signature flag that says "verifies under correct member j" is only set on content j really signed. Election
   triggers fire in any order. The theorem is proved by mapping every run to an abstract history (AbsSafety.v) and
   showing it valid; it needs the hypothesis that no standalone PREPREPARE for a view above 0 is delivered, because the
   code adopts those (known finding KF-1, refuted without the hypothesis in props/C01.v). *)
From Coq Require Import Lia.
From LH Require Import Prims Quorum QuorumFacts Contexts Msg Term TermFacts AbsSafety Own.
Open Scope N_scope.

Section World.
Variable H : N.
Variable cm : committee.
Hypothesis Hw : total cm < W64.
Variable honest : N -> bool.
Hypothesis Hbyz : (Z.of_N (wsum (fun i => negb (honest i)) cm) <= specF cm)%Z.
Variable cfg : N -> ncfg.
Hypothesis cfg_me : forall i, c_me (cfg i) = i.
Variable st_wm : N -> option hv.
Variable st_shut : N -> bool.
Variable st_fresh : N -> N.
Variable st_lead : N -> bool.

Definition good (i : N) : Prop := honest i = true /\ isMember cm i = true.
Definition goodb (i : N) : bool := honest i && isMember cm i.
Lemma goodb_good i : goodb i = true <-> good i.
Proof. unfold goodb, good. rewrite andb_true_iff. tauto. Qed.

Notation gev := (N * tev)%type.
Definition nevs (i : N) (run : list gev) : list tev := map snd (filter (fun g => N.eqb (fst g) i) run).
Definition nstart (i : N) : tc := tstart (cfg i) (st_wm i) (st_shut i) H cm (st_fresh i) (st_lead i).
Definition nstate (i : N) (run : list gev) : tc := fold_left (tstep (cfg i)) (nevs i run) (nstart i).

Lemma nstate_trun i run : nstate i run = trun (cfg i) (st_wm i) (st_shut i) H cm (st_fresh i) (st_lead i) (nevs i run).
Proof. reflexivity. Qed.
Lemma nstate_snoc_same i e run : nstate i (run ++ [(i, e)]) = tstep (cfg i) (nstate i run) e.
Proof. unfold nstate, nevs. rewrite filter_app, map_app. cbn [filter fst]. rewrite N.eqb_refl. cbn [map snd]. rewrite fold_left_app. reflexivity. Qed.
Lemma nstate_snoc_other i j e run : j <> i -> nstate j (run ++ [(i, e)]) = nstate j run.
Proof.
  intro Hne. unfold nstate, nevs. rewrite filter_app, map_app. cbn [filter fst].
  destruct (N.eqb_spec i j); [congruence|]. cbn [map]. rewrite app_nil_r. reflexivity.
Qed.

(* ---- the unforgeability discipline ---- *)
(* what a node has signed: read off its outputs (and, for votes, its own stored vote when it leads the view) *)
Definition signed_ref (x : tc) (r : bref) : Prop :=
  exists to, (exists sg b, In (OSend to (MPP r sg b)) (tc_out x)) \/ (exists sg, In (OSend to (MP r sg)) (tc_out x)) \/
             (exists sg o, In (OSend to (MC r sg o)) (tc_out x)) \/
             (exists ty i h v vs sg pps b, In (OSend to (MNV ty i h v vs sg r pps b)) (tc_out x)).
Definition auth_ref (run : list gev) (r : bref) (s : ssig) : Prop :=
  s_ok s = true -> good (s_id s) -> signed_ref (nstate (s_id s) run) r.
Definition auth_proof (run : list gev) (p : pproof) : Prop :=
  auth_ref run (pf_ppref p) (pf_ppsnd p) /\ forall s, In s (pf_psnds p) -> auth_ref run (pf_pref p) s.
Definition auth_vote (run : list gev) (vt : vote) : Prop :=
  (s_ok (v_snd vt) = true -> good (s_id (v_snd vt)) -> In vt (Vt (s_id (v_snd vt)) (nstate (s_id (v_snd vt)) run))) /\
  (forall p, v_proof vt = Some p -> auth_proof run p).
Definition auth_msg (run : list gev) (m : msg) : Prop :=
  match m with
  | MPP r s _ | MP r s | MC r s _ => auth_ref run r s
  | MVC vt _ => auth_vote run vt
  | MNV _ _ _ _ vs _ pp pps _ => (forall vt, In vt vs -> auth_vote run vt) /\ auth_ref run pp pps
  end.

(* runs: any correct member takes any step, on any authentic input *)
Inductive wrun : list gev -> Prop :=
| wrun_nil : wrun []
| wrun_snoc run i e : wrun run -> good i -> tev_ok (cfg i) H e ->
    (forall m wm' sh', e = TMsg m wm' sh' -> auth_msg run m) -> wrun (run ++ [(i, e)]).

(* the hypothesis that excludes known finding KF-1 *)
Definition no_standalone_preprepare_above_view0 (run : list gev) : Prop :=
  forall i r s b wm' sh', In (i, TMsg (MPP r s b) wm' sh') run -> r_view r = 0.

(* ---- node invariants along a run ---- *)
Lemma wrun_evs_ok run : wrun run -> forall i, Forall (tev_ok (cfg i) H) (nevs i run).
Proof.
  induction 1 as [|run i e Hr IH Hg Hok Ha]; intro j; [constructor|].
  unfold nevs. rewrite filter_app, map_app. apply Forall_app. split; [apply IH|]. cbn [filter fst].
  destruct (N.eqb_spec i j) as [->|]; cbn [map snd]; [constructor; [exact Hok|constructor]|constructor].
Qed.

Lemma node_inv run i : wrun run -> good i ->
  TInv (cfg i) (nstate i run) /\ SInv (cfg i) (nstate i run) /\ t_h (tc_t (nstate i run)) = H /\ t_cm (tc_t (nstate i run)) = cm /\ outs_typed (nstate i run).
Proof.
  intros Hr [_ Hm]. rewrite nstate_trun. pose proof (wrun_evs_ok run Hr i) as F.
  destruct (trun_inv (cfg i) (st_wm i) (st_shut i) H cm (st_fresh i) (st_lead i) (nevs i run) Hw F) as (A & B & C0).
  split; [exact A|]. split; [|split; [exact B|split; [exact C0|apply trun_outs_typed]]].
  apply trun_sinv; auto. rewrite cfg_me. exact Hm.
Qed.

Lemma node_step run i e : wrun run -> good i -> tev_ok (cfg i) H e -> step_sum (cfg i) e (nstate i run) (tstep (cfg i) (nstate i run) e).
Proof.
  intros Hr Hg Hok. destruct (node_inv run i Hr Hg) as (A & B & C0 & _). apply (tstep_sum (cfg i) H); assumption.
Qed.


Lemma node_inv2 run i : wrun run -> good i -> outs_lead cm i (nstate i run).
Proof. intros _ _. rewrite nstate_trun. rewrite <- (cfg_me i) at 1. apply trun_outs_lead. Qed.

(* ---- facts ---- *)
Definition fE (run : list gev) (j v y : N) : Prop := In (v, y) (E (nstate j run)).
Definition fC (run : list gev) (j v y : N) : Prop := In (v, y) (C (nstate j run)).
Definition fV (run : list gev) (j : N) (vt : vote) : Prop := In vt (Vt j (nstate j run)).
Definition proofF (run : list gev) (p : pproof) : Prop :=
  (s_ok (pf_ppsnd p) = true -> good (s_id (pf_ppsnd p)) -> fE run (s_id (pf_ppsnd p)) (r_view (pf_ppref p)) (r_hash (pf_ppref p))) /\
  (forall s, In s (pf_psnds p) -> s_ok s = true -> good (s_id s) -> fE run (s_id s) (r_view (pf_pref p)) (r_hash (pf_pref p))).
Definition voteF (run : list gev) (vt : vote) : Prop :=
  (s_ok (v_snd vt) = true -> good (s_id (v_snd vt)) -> fV run (s_id (v_snd vt)) vt) /\
  (forall p, v_proof vt = Some p -> proofF run p).

Lemma in_flat_map_incl {A B} (f : A -> list B) l l' b : incl l l' -> In b (flat_map f l) -> In b (flat_map f l').
Proof. intros Hi Hb. apply in_flat_map in Hb. destruct Hb as (a & Ha & Hb). apply in_flat_map. exists a. split; [apply Hi; exact Ha|exact Hb]. Qed.

Lemma step_facts_mono c e x x' : step_sum c e x x' ->
  incl (E x) (E x') /\ incl (C x) (C x') /\ incl (D x) (D x') /\ incl (Vt (c_me c) x) (Vt (c_me c) x').
Proof.
  intros S. pose proof (ss_out _ _ _ _ S) as Ho. pose proof (ss_vcmono _ _ _ _ S) as Hv.
  assert (Hs : incl (sent_of (tc_out x)) (sent_of (tc_out x'))) by (apply sent_of_incl; exact Ho).
  split; [intros a Ha; unfold E in *; eapply in_flat_map_incl; eauto|].
  split; [intros a Ha; unfold C in *; eapply in_flat_map_incl; eauto|].
  split; [intros a Ha; unfold D in *; eapply in_flat_map_incl; eauto|].
  intros a Ha. unfold Vt in *. apply in_app_or in Ha. apply in_or_app. destruct Ha as [Ha|Ha]; [left; eapply in_flat_map_incl; eauto|right].
  unfold own_stored in *. eapply in_flat_map_incl; eauto.
Qed.

Lemma facts_mono run i e : wrun (run ++ [(i, e)]) -> wrun run -> good i -> tev_ok (cfg i) H e ->
  (forall j v y, fE run j v y -> fE (run ++ [(i, e)]) j v y) /\
  (forall j v y, fC run j v y -> fC (run ++ [(i, e)]) j v y) /\
  (forall j vt, fV run j vt -> fV (run ++ [(i, e)]) j vt).
Proof.
  intros _ Hr Hg Hok. pose proof (node_step run i e Hr Hg Hok) as S. destruct (step_facts_mono _ _ _ _ S) as (A & B & _ & D0). rewrite cfg_me in D0.
  unfold fE, fC, fV. repeat split; intros j; destruct (N.eq_dec j i) as [->|Hne]; intros; rewrite ?nstate_snoc_same, ?(nstate_snoc_other i j e run Hne); auto.
Qed.

Lemma proofF_mono run g p : (forall j v y, fE run j v y -> fE (run ++ [g]) j v y) -> proofF run p -> proofF (run ++ [g]) p.
Proof. intros M [A B]. split; [intros; apply M; auto|intros; apply M; auto]. Qed.
Lemma voteF_mono run g vt : (forall j v y, fE run j v y -> fE (run ++ [g]) j v y) -> (forall j vt', fV run j vt' -> fV (run ++ [g]) j vt') -> voteF run vt -> voteF (run ++ [g]) vt.
Proof. intros M1 M2 [A B]. split; [intros; apply M2; auto|intros p Hp; apply proofF_mono; auto]. Qed.

(* what a verified signature of a correct member means *)
Lemma signed_ref_E run j r : wrun run -> good j -> signed_ref (nstate j run) r -> r_type r <> T_COMMIT -> fE run j (r_view r) (r_hash r).
Proof.
  intros Hr Hg (to & Hs) Hty. destruct (node_inv run j Hr Hg) as (TI & _ & _ & _ & _). unfold fE, E.
  assert (G : forall m, In (OSend to m) (tc_out (nstate j run)) -> In (r_view r, r_hash r) (endorsed_of m) -> In (r_view r, r_hash r) (flat_map endorsed_of (sent_of (tc_out (nstate j run))))).
  { intros m Ho He. apply in_flat_map. exists m. split; [|exact He]. unfold sent_of. apply in_flat_map. exists (OSend to m). split; [exact Ho|left; reflexivity]. }
  destruct Hs as [(sg & b & Ho)|[(sg & Ho)|[(sg & o & Ho)|(ty & i & h & v & vs & sg & pps & b & Ho)]]].
  - apply (G _ Ho). left; reflexivity.
  - apply (G _ Ho). left; reflexivity.
  - exfalso. apply Hty. destruct (ti_mc _ _ TI _ _ _ _ Ho) as (A & _). exact A.
  - apply (G _ Ho). left; reflexivity.
Qed.
Lemma signed_ref_C run j r : wrun run -> good j -> signed_ref (nstate j run) r -> r_type r = T_COMMIT -> fC run j (r_view r) (r_hash r).
Proof.
  intros Hr Hg (to & Hs) Hty. destruct (node_inv run j Hr Hg) as (TI & _ & _ & _ & OT). unfold fC, C. unfold outs_typed in OT. rewrite Forall_forall in OT.
  destruct Hs as [(sg & b & Ho)|[(sg & Ho)|[(sg & o & Ho)|(ty & i & h & v & vs & sg & pps & b & Ho)]]].
  - exfalso. specialize (OT _ Ho). cbn in OT. rewrite Hty in OT. discriminate.
  - exfalso. destruct (ti_mp _ _ TI _ _ _ Ho) as (A & _). rewrite Hty in A. discriminate.
  - apply in_flat_map. exists (MC r sg o). split; [|left; reflexivity]. unfold sent_of. apply in_flat_map. exists (OSend to (MC r sg o)). split; [exact Ho|left; reflexivity].
  - exfalso. specialize (OT _ Ho). cbn in OT. rewrite Hty in OT. discriminate.
Qed.

Lemma auth_proof_F run p : wrun run -> auth_proof run p -> r_type (pf_ppref p) = T_PREPREPARE -> r_type (pf_pref p) = T_PREPARE -> proofF run p.
Proof.
  intros Hr [A B] T1 T2. split.
  - intros Hs Hg. apply signed_ref_E; auto. rewrite T1. discriminate.
  - intros s Hin Hs Hg. apply signed_ref_E; auto; [apply (B s Hin Hs Hg)|rewrite T2; discriminate].
Qed.
Lemma auth_vote_F run c0 h v vt : wrun run -> auth_vote run vt -> vote_spec c0 cm h v vt -> voteF run vt.
Proof.
  intros Hr [A B] VS. split; [exact A|]. intros p Hp. destruct (vs_proof _ _ _ _ _ VS p Hp) as [[T1 T2] _ _ _ _ _ _ _ _].
  apply auth_proof_F; auto.
Qed.

(* ---- everything a correct member has stored is backed by what correct members did ---- *)
Record SA (run : list gev) (i : N) : Prop := {
  sa_p : forall v h s, In (v, h, s) (t_p (tc_t (nstate i run))) -> good (s_id s) -> fE run (s_id s) v h;
  sa_pp : forall v en, get_pp (tc_t (nstate i run)) v = Some en -> good (s_id (pe_snd en)) -> fE run (s_id (pe_snd en)) v (r_hash (pe_ref en));
  sa_c : forall v h s, In (v, h, s) (t_c (tc_t (nstate i run))) -> good (s_id s) -> fC run (s_id s) v h;
  sa_vc : forall v vt b, In (v, (vt, b)) (t_vc (tc_t (nstate i run))) -> voteF run vt;
  sa_own : forall vt p, In vt (Vt i (nstate i run)) -> v_proof vt = Some p -> proofF run p
}.

Lemma SA_start i : good i -> SA [] i.
Proof.
  intro Hg. destruct (tstart_own (cfg i) (st_wm i) (st_shut i) H cm (st_fresh i) (st_lead i)) as (_ & _ & VT & _ & P & Cc & V & _ & _ & PP). cbn zeta in *. rewrite cfg_me in VT.
  constructor; unfold nstate, nevs; cbn [filter map fold_left]; fold (nstart i); unfold nstart.
  - intros v h s Hin. rewrite P in Hin. destruct Hin.
  - intros v en Hin _. destruct (PP v en Hin) as (A & B & C0). rewrite A. cbn [my_sig s_id]. rewrite cfg_me. unfold fE, nstate, nevs. cbn [filter map fold_left]. exact C0.
  - intros v h s Hin. rewrite Cc in Hin. destruct Hin.
  - intros v vt b Hin. rewrite V in Hin. destruct Hin.
  - intros vt p Hin. rewrite VT in Hin. destruct Hin.
Qed.

Theorem SA_holds run : wrun run -> forall i, good i -> SA run i.
Proof.
  induction 1 as [|run i0 e Hr IH Hg0 Hok Hauth]; intros i Hg; [apply SA_start; exact Hg|].
  assert (Hr' : wrun (run ++ [(i0, e)])) by (constructor; assumption).
  destruct (facts_mono run i0 e Hr' Hr Hg0 Hok) as (ME & MC & MV).
  destruct (N.eq_dec i i0) as [->|Hne].
  2:{ specialize (IH i Hg). destruct IH as [A B C0 D0 F0]. pose proof (nstate_snoc_other i0 i e run Hne) as Q. constructor; rewrite Q.
      - intros; apply ME; eauto.
      - intros; apply ME; eauto.
      - intros; apply MC; eauto.
      - intros v vt b Hin. apply voteF_mono; eauto.
      - intros vt p Hin Hp. apply proofF_mono; eauto. }
  pose proof (node_step run i0 e Hr Hg0 Hok) as S.
  destruct (node_inv _ i0 Hr' Hg0) as (TI' & SI' & Hh' & Hcm' & _).
  specialize (IH i0 Hg0). destruct IH as [A B C0 D0 F0].
  pose proof (ss_Vt _ _ _ _ S) as SV. rewrite cfg_me in SV.
  assert (NEWV : forall vt p, In vt (Vt i0 (tstep (cfg i0) (nstate i0 run) e)) -> v_proof vt = Some p -> proofF (run ++ [(i0, e)]) p).
  { intros vt p Hv Hp. destruct (SV vt Hv) as [Hold|(_ & _ & _ & _ & _ & OPF)].
    - apply proofF_mono; auto. eapply F0; eauto.
    - destruct (OPF p Hp) as ((en & G1 & G2 & G3) & G4). apply proofF_mono with (run := run); auto. split.
      + intros Hs Hgl. rewrite <- G2, <- G3. apply B; [exact G1|rewrite G2; exact Hgl].
      + intros s Hs Hsok Hgl. apply (A _ _ s (G4 s Hs) Hgl). }
  rewrite nstate_snoc_same in *. set (x := nstate i0 run) in *. set (x' := tstep (cfg i0) x e) in *.
  assert (OWN : forall s, s = my_sig (cfg i0) -> s_id s = i0) by (intros s ->; cbn; apply cfg_me).
  constructor; rewrite nstate_snoc_same; fold x x'.
  - intros v h s Hin Hgs. destruct (ss_p _ _ _ _ S v h s Hin) as [Hold|[[Hs He]|(r & wm' & sh' & -> & Ty & <- & <-)]].
    + apply ME. apply A; assumption.
    + rewrite (OWN s Hs). unfold fE. rewrite nstate_snoc_same. exact He.
    + apply ME. destruct (si_p _ _ SI' _ _ _ Hin) as (Hsok & _). apply signed_ref_E; auto; [apply (Hauth _ _ _ eq_refl); assumption|rewrite Ty; discriminate].
  - intros v en Hin Hgs. destruct (ss_pp _ _ _ _ S v en Hin) as [Hold|[(Hs & Hv & He)|[(r & s & b & wm' & sh' & -> & -> & Hv & _)|(nty & ninst & nh & nvw & vs & sg & pp & pps & b & wm' & sh' & -> & -> & Hv & _)]]].
    + apply ME. apply B; assumption.
    + rewrite (OWN _ Hs). unfold fE. rewrite nstate_snoc_same. exact He.
    + destruct (si_pp _ _ SI' _ _ Hin) as [[PV PT _ _ PS _ _] _]. cbn [pe_ref pe_snd] in *. apply ME. rewrite <- Hv.
      apply signed_ref_E; auto; [apply (Hauth _ _ _ eq_refl); assumption|rewrite PT; discriminate].
    + destruct (si_pp _ _ SI' _ _ Hin) as [[PV PT _ _ PS _ _] _]. cbn [pe_ref pe_snd] in *. apply ME. rewrite <- Hv.
      apply signed_ref_E; auto; [apply (proj2 (Hauth _ _ _ eq_refl)); assumption|rewrite PT; discriminate].
  - intros v h s Hin Hgs. destruct (ss_c _ _ _ _ S v h s Hin) as [Hold|[(Hs & He & _)|(r & o & wm' & sh' & -> & Ty & <- & <- & Hsok)]].
    + apply MC. apply C0; assumption.
    + rewrite (OWN s Hs). unfold fC. rewrite nstate_snoc_same. exact He.
    + apply MC. apply signed_ref_C; auto. apply (Hauth _ _ _ eq_refl); assumption.
  - intros v vt b Hin. destruct (ss_vc _ _ _ _ S v vt b Hin) as [Hold|[[Hme Hv]|(wm' & sh' & ->)]].
    + apply voteF_mono; auto. eapply D0; eauto.
    + (* the node's own vote, stored because it leads the view: its proof is made of what the node had stored *)
      rewrite cfg_me in *. split; [intros _ _; rewrite Hme; unfold fV; rewrite nstate_snoc_same; exact Hv|].
      intros p Hp. apply (NEWV vt p Hv Hp).
    + destruct (si_vc _ _ SI' _ _ _ Hin) as (_ & _ & VS & _). apply voteF_mono; auto.
      apply (auth_vote_F run (cfg i0) (t_h (tc_t x')) v vt); auto; [apply (Hauth _ _ _ eq_refl)|rewrite <- Hcm'; exact VS].
  - intros vt p Hv Hp. apply (NEWV vt p Hv Hp).
Qed.


(* ---- the abstract history of a run ---- *)
Definition pair_dec : forall a b : N * N, {a = b} + {a <> b}.
Proof. decide equality; apply N.eq_dec. Defined.
Definition ssig_dec : forall a b : ssig, {a = b} + {a <> b}.
Proof. decide equality; [apply Bool.bool_dec|apply N.eq_dec]. Defined.
Definition bref_dec : forall a b : bref, {a = b} + {a <> b}.
Proof. decide equality; apply N.eq_dec. Defined.
Definition pproof_dec : forall a b : pproof, {a = b} + {a <> b}.
Proof. decide equality; [apply list_eq_dec, ssig_dec|apply bref_dec|apply ssig_dec|apply bref_dec]. Defined.
Definition vote_dec : forall a b : vote, {a = b} + {a <> b}.
Proof. decide equality; [apply ssig_dec|decide equality; apply pproof_dec|apply N.eq_dec|apply N.eq_dec|apply N.eq_dec|apply N.eq_dec]. Defined.

Definition newl {A} (dec : forall a b : A, {a = b} + {a <> b}) (l' l : list A) : list A :=
  filter (fun a => if in_dec dec a l then false else true) l'.
Lemma In_newl {A} dec (l' l : list A) a : In a (newl dec l' l) <-> In a l' /\ ~ In a l.
Proof. unfold newl. rewrite filter_In. destruct (in_dec dec a l); split; intros [A0 B]; try discriminate; try contradiction; auto. Qed.

Definition lock_ev (i : N) (x x' : tc) : hist :=
  match lockv x', lockv x with
  | Some v, Some u => if N.eqb v u then [] else [ALock i v (hash_at (tc_t x') v)]
  | Some v, None => [ALock i v (hash_at (tc_t x') v)]
  | None, _ => []
  end.
Definition evD i x x' : hist := map (fun p => ADecide i (fst p) (snd p)) (newl pair_dec (D x') (D x)).
Definition evC i x x' : hist := map (fun p => ACom i (fst p) (snd p)) (newl pair_dec (C x') (C x)).
Definition evE i x x' : hist := map (fun p => AEndorse i (fst p) (snd p)) (newl pair_dec (E x') (E x)).
Definition evV i x x' : hist := map (fun vt => AVote i (v_view vt) (lock_of vt)) (nodup vote_dec (newl vote_dec (Vt i x') (Vt i x))).
Definition new_events (i : N) (x x' : tc) : hist := evD i x x' ++ evC i x x' ++ lock_ev i x x' ++ evE i x x' ++ evV i x x'.

Definition init_evs : hist :=
  flat_map (fun i => map (fun p => AEndorse i (fst p) (snd p)) (E (nstart i))) (filter goodb (ids cm)).
Fixpoint absr (pre rest : list gev) (acc : hist) : hist :=
  match rest with
  | [] => acc
  | g :: r => absr (pre ++ [g]) r (new_events (fst g) (nstate (fst g) pre) (nstate (fst g) (pre ++ [g])) ++ acc)
  end.
Definition abs (run : list gev) : hist := absr [] run init_evs.

Lemma absr_snoc rest : forall pre acc g,
  absr pre (rest ++ [g]) acc = new_events (fst g) (nstate (fst g) (pre ++ rest)) (nstate (fst g) ((pre ++ rest) ++ [g])) ++ absr pre rest acc.
Proof.
  induction rest as [|g0 rest IH]; intros pre acc g; cbn [app absr].
  - rewrite app_nil_r. reflexivity.
  - rewrite IH. rewrite <- !app_assoc. reflexivity.
Qed.
Lemma abs_snoc run i e : abs (run ++ [(i, e)]) = new_events i (nstate i run) (tstep (cfg i) (nstate i run) e) ++ abs run.
Proof. unfold abs. rewrite absr_snoc. cbn [app fst]. rewrite nstate_snoc_same. reflexivity. Qed.

Lemma valid_app h evs : valid cm honest h -> (forall a e b, evs = a ++ e :: b -> guard cm honest (b ++ h) e) -> valid cm honest (evs ++ h).
Proof.
  intro Hv. induction evs as [|e evs IH]; intro G; [exact Hv|]. cbn [app]. constructor.
  - apply IH. intros a e0 b Hs. apply (G (e :: a) e0 b). rewrite Hs. reflexivity.
  - apply (G [] e evs). reflexivity.
Qed.

Lemma ccert_mono h e v x : ccert cm honest h v x -> ccert cm honest (e :: h) v x.
Proof. intros (S & Q & F). exists S. split; [exact Q|]. intros i A0 B C0. right. apply F; assumption. Qed.
Lemma pcert_app h p v x : pcert cm honest h v x -> pcert cm honest (p ++ h) v x.
Proof. intros (S & Q & F). exists S. split; [exact Q|]. intros i A0 B C0. apply in_or_app. right. apply F; assumption. Qed.
Lemma ccert_app h p v x : ccert cm honest h v x -> ccert cm honest (p ++ h) v x.
Proof. intros (S & Q & F). exists S. split; [exact Q|]. intros i A0 B C0. apply in_or_app. right. apply F; assumption. Qed.
Lemma nvcert_app h p v x : nvcert cm honest h v x -> nvcert cm honest (p ++ h) v x.
Proof.
  intros (V & Q & F1 & F2 & F3). exists V. split; [exact Q|]. split; [|split; [|exact F3]].
  - intros i lk A0 B C0. apply in_or_app. right. apply F1; assumption.
  - intros i u y A0. destruct (F2 i u y A0) as [L0 P]. split; [exact L0|apply pcert_app; exact P].
Qed.

(* membership in the events of one step *)
Lemma in_evD i x x' j v y : In (ADecide j v y) (new_events i x x') <-> j = i /\ In (v, y) (D x') /\ ~ In (v, y) (D x).
Proof.
  unfold new_events, evD, evC, lock_ev, evE, evV. rewrite !in_app_iff, !in_map_iff. split.
  - intros [((v0, y0) & E0 & Hn)|[(p & E0 & _)|[Hl|[(p & E0 & _)|(p & E0 & _)]]]]; try discriminate.
    + inversion E0; subst. apply In_newl in Hn. tauto.
    + destruct (lockv x'), (lockv x); try destruct (N.eqb _ _); cbn in Hl; intuition discriminate.
  - intros (-> & A & B). left. exists (v, y). split; [reflexivity|apply In_newl; auto].
Qed.
Lemma in_evC i x x' j v y : In (ACom j v y) (new_events i x x') <-> j = i /\ In (v, y) (C x') /\ ~ In (v, y) (C x).
Proof.
  unfold new_events, evD, evC, lock_ev, evE, evV. rewrite !in_app_iff, !in_map_iff. split.
  - intros [(p & E0 & _)|[((v0, y0) & E0 & Hn)|[Hl|[(p & E0 & _)|(p & E0 & _)]]]]; try discriminate.
    + inversion E0; subst. apply In_newl in Hn. tauto.
    + destruct (lockv x'), (lockv x); try destruct (N.eqb _ _); cbn in Hl; intuition discriminate.
  - intros (-> & A & B). right; left. exists (v, y). split; [reflexivity|apply In_newl; auto].
Qed.
Lemma in_evE i x x' j v y : In (AEndorse j v y) (new_events i x x') <-> j = i /\ In (v, y) (E x') /\ ~ In (v, y) (E x).
Proof.
  unfold new_events, evD, evC, lock_ev, evE, evV. rewrite !in_app_iff, !in_map_iff. split.
  - intros [(p & E0 & _)|[(p & E0 & _)|[Hl|[((v0, y0) & E0 & Hn)|(p & E0 & _)]]]]; try discriminate.
    + destruct (lockv x'), (lockv x); try destruct (N.eqb _ _); cbn in Hl; intuition discriminate.
    + inversion E0; subst. apply In_newl in Hn. tauto.
  - intros (-> & A & B). right; right; right; left. exists (v, y). split; [reflexivity|apply In_newl; auto].
Qed.
Lemma in_evV i x x' j v lk : In (AVote j v lk) (new_events i x x') <->
  j = i /\ exists vt, In vt (Vt i x') /\ ~ In vt (Vt i x) /\ v_view vt = v /\ lock_of vt = lk.
Proof.
  unfold new_events, evD, evC, lock_ev, evE, evV. rewrite !in_app_iff, !in_map_iff. split.
  - intros [(p & E0 & _)|[(p & E0 & _)|[Hl|[(p & E0 & _)|(vt & E0 & Hn)]]]]; try discriminate.
    + destruct (lockv x'), (lockv x); try destruct (N.eqb _ _); cbn in Hl; intuition discriminate.
    + inversion E0; subst. apply nodup_In in Hn. apply In_newl in Hn. split; [reflexivity|]. exists vt. tauto.
  - intros (-> & vt & A & B & <- & <-). right; right; right; right. exists vt. split; [reflexivity|apply nodup_In, In_newl; auto].
Qed.
Lemma in_evL i x x' j u y : In (ALock j u y) (new_events i x x') <-> j = i /\ lockv x' = Some u /\ lockv x <> Some u /\ y = hash_at (tc_t x') u.
Proof.
  unfold new_events, evD, evC, lock_ev, evE, evV. rewrite !in_app_iff, !in_map_iff. split.
  - intros [(p & E0 & _)|[(p & E0 & _)|[Hl|[(p & E0 & _)|(p & E0 & _)]]]]; try discriminate.
    destruct (lockv x') as [v'|], (lockv x) as [u'|]; try (destruct (N.eqb_spec v' u')); cbn in Hl; try contradiction.
    + destruct Hl as [Hl|[]]. inversion Hl; subst. repeat split; auto. congruence.
    + destruct Hl as [Hl|[]]. inversion Hl; subst. repeat split; auto. discriminate.
  - intros (-> & A & B & ->). right; right; left. rewrite A. destruct (lockv x) as [u'|].
    + destruct (N.eqb_spec u u') as [->|]; [congruence|left; reflexivity].
    + left; reflexivity.
Qed.

(* the history and the nodes' states tell the same story *)
Record CI (run : list gev) : Prop := {
  ci_E : forall j v y, In (AEndorse j v y) (abs run) <-> good j /\ fE run j v y;
  ci_C : forall j v y, In (ACom j v y) (abs run) <-> good j /\ fC run j v y;
  ci_D : forall j v y, In (ADecide j v y) (abs run) <-> good j /\ In (v, y) (D (nstate j run));
  ci_V : forall j v lk, In (AVote j v lk) (abs run) <-> good j /\ exists vt, fV run j vt /\ v_view vt = v /\ lock_of vt = lk;
  ci_Vv : forall j vt, good j -> fV run j vt -> v_view vt <= tc_v (nstate j run);
  ci_L : forall j, good j -> last_lock j (abs run) = L (nstate j run);
  ci_Lv : forall j u y, In (ALock j u y) (abs run) -> good j /\ u <= tc_v (nstate j run);
  ci_ownc : forall i v h s, good i -> In (v, h, s) (t_c (tc_t (nstate i run))) -> s_id s = i -> In (ALock i v h) (abs run)
}.

Lemma last_lock_app_other (p h : hist) j : (forall u y, ~ In (ALock j u y) p) -> last_lock j (p ++ h) = last_lock j h.
Proof.
  induction p as [|e p IH]; intro Hn; [reflexivity|]. cbn [app last_lock].
  assert (IH' : last_lock j (p ++ h) = last_lock j h) by (apply IH; intros u y Hi; apply (Hn u y); right; exact Hi).
  destruct e as [k v x|k v x|k v x|k v lk|k v x]; try exact IH'.
  destruct (N.eqb_spec k j) as [->|]; [exfalso; apply (Hn v x); left; reflexivity|exact IH'].
Qed.

(* ---- from what a node has stored to certificates over the history ---- *)
Lemma good_of j : In j (ids cm) -> honest j = true -> good j.
Proof. intros A B. split; [exact B|]. unfold isMember. apply memN_In. exact A. Qed.

Lemma certP_pcert run i h v : wrun run -> good i -> SA run i ->
  certP (tc_t (nstate i run)) v (hash_at (tc_t (nstate i run)) v) ->
  (forall j, good j -> fE run j v (hash_at (tc_t (nstate i run)) v) -> In (AEndorse j v (hash_at (tc_t (nstate i run)) v)) h) ->
  pcert cm honest h v (hash_at (tc_t (nstate i run)) v).
Proof.
  intros Hr Hg [SP SPP _ _ _] (en & G & Q) LB. destruct (node_inv run i Hr Hg) as (_ & _ & _ & Hcm & _).
  set (y := hash_at (tc_t (nstate i run)) v) in *.
  assert (Hy : r_hash (pe_ref en) = y) by (subst y; unfold hash_at; rewrite G; reflexivity).
  exists (map s_id (bucket (t_p (tc_t (nstate i run))) v y) ++ [s_id (pe_snd en)]). split; [rewrite <- Hcm; exact Q|].
  intros j Hj Hm Hh. pose proof (good_of j Hm Hh) as Hgj. apply LB; [exact Hgj|].
  apply in_app_or in Hj. destruct Hj as [Hj|[<-|[]]].
  - apply in_map_iff in Hj. destruct Hj as (s & <- & Hs). apply In_bucket in Hs. apply (SP _ _ _ Hs Hgj).
  - rewrite <- Hy. apply (SPP _ _ G Hgj).
Qed.

Lemma certC_ccert run i h v y : wrun run -> good i -> SA run i -> certC (tc_t (nstate i run)) v y ->
  (forall j, good j -> In j (map s_id (bucket (t_c (tc_t (nstate i run))) v y)) -> fC run j v y -> In (ACom j v y) h) ->
  ccert cm honest h v y.
Proof.
  intros Hr Hg [_ _ SC _ _] Q LB. destruct (node_inv run i Hr Hg) as (_ & _ & _ & Hcm & _).
  exists (map s_id (bucket (t_c (tc_t (nstate i run))) v y)). split; [rewrite <- Hcm; exact Q|].
  intros j Hj Hm Hh. pose proof (good_of j Hm Hh) as Hgj. apply LB; [exact Hgj|exact Hj|].
  apply in_map_iff in Hj. destruct Hj as (s & <- & Hs). apply In_bucket in Hs. apply (SC _ _ _ Hs Hgj).
Qed.

(* the votes of a NEW_VIEW certificate, as the abstract certificate sees them *)
Definition absV (vs : list vote) : list (N * option (N * N)) := map (fun vt => (s_id (v_snd vt), lock_of vt)) vs.

Lemma votes_nvcert run h c0 v y vs :
  isQ_ids cm (map (fun vt => s_id (v_snd vt)) vs) = true ->
  (forall vt, In vt vs -> v_view vt = v /\ vote_spec c0 cm H v vt /\ voteF run vt) ->
  ((exists vt p, In vt vs /\ v_proof vt = Some p /\ (forall vt' q, In vt' vs -> v_proof vt' = Some q -> r_view (pf_ppref q) <= r_view (pf_ppref p)) /\ y = r_hash (pf_ppref p))
   \/ (forall vt, In vt vs -> v_proof vt = None)) ->
  (forall j vt, good j -> fV run j vt -> v_view vt = v -> In (AVote j v (lock_of vt)) h) ->
  (forall j u y', good j -> u < v -> fE run j u y' -> In (AEndorse j u y') h) ->
  nvcert cm honest h v y.
Proof.
  intros Q VS MX LBV LBE. exists (absV vs). split; [unfold absV; rewrite map_map; exact Q|]. split; [|split].
  - intros j lk Hin Hm Hh. unfold absV in Hin. apply in_map_iff in Hin. destruct Hin as (vt & E0 & Hvt). inversion E0; subst j lk.
    destruct (VS vt Hvt) as (Ev & Sp & [VF _]). pose proof (good_of _ Hm Hh) as Hg. apply LBV; auto. apply VF; [apply (vs_sig _ _ _ _ _ Sp)|exact Hg].
  - intros j u y' Hin. unfold absV in Hin. apply in_map_iff in Hin. destruct Hin as (vt & E0 & Hvt). inversion E0 as [[Ej Elk]]. clear E0.
    destruct (VS vt Hvt) as (Ev & Sp & [_ PF]). unfold lock_of in Elk. destruct (v_proof vt) as [p|] eqn:Ep; [|discriminate]. inversion Elk; subst u y'. clear Elk.
    destruct (vs_proof _ _ _ _ _ Sp p Ep) as [_ _ _ [Sv Sh] Hearlier [Lok Lid] Pr _ Qp]. destruct (PF p eq_refl) as [PF1 PF2].
    split; [exact Hearlier|].
    exists (map s_id (pf_psnds p) ++ [s_id (pf_ppsnd p)]). split; [exact Qp|].
    intros k Hk Hm Hh. pose proof (good_of _ Hm Hh) as Hg. apply LBE; [exact Hg|exact Hearlier|].
    apply in_app_or in Hk. destruct Hk as [Hk|[<-|[]]].
    + apply in_map_iff in Hk. destruct Hk as (s & <- & Hs). rewrite <- Sv, <- Sh. apply PF2; [exact Hs|apply (Pr s Hs)|exact Hg].
    + apply PF1; [exact Lok|exact Hg].
  - destruct MX as [(vt & p & Hvt & Ep & Hmax & ->)|Hnone].
    + left. exists (s_id (v_snd vt)), (r_view (pf_ppref p)). split.
      * unfold absV. apply in_map_iff. exists vt. split; [|exact Hvt]. unfold lock_of. rewrite Ep. reflexivity.
      * intros j u' y' Hin. unfold absV in Hin. apply in_map_iff in Hin. destruct Hin as (vt' & E0 & Hvt'). inversion E0 as [[Ej Elk]].
        unfold lock_of in Elk. destruct (v_proof vt') as [q|] eqn:Eq; [|discriminate]. inversion Elk; subst. apply (Hmax vt' q Hvt' Eq).
    + right. intros j lk Hin. unfold absV in Hin. apply in_map_iff in Hin. destruct Hin as (vt & E0 & Hvt). inversion E0. unfold lock_of. rewrite (Hnone vt Hvt). reflexivity.
Qed.

(* ---- the start ---- *)
Lemma in_init j v y : In (AEndorse j v y) init_evs <-> good j /\ In (v, y) (E (nstart j)).
Proof.
  unfold init_evs. rewrite in_flat_map. split.
  - intros (k & Hk & Hin). apply filter_In in Hk. destruct Hk as [_ Hg]. apply in_map_iff in Hin. destruct Hin as ((v0, y0) & E0 & Hin).
    inversion E0; subst. split; [apply goodb_good; exact Hg|exact Hin].
  - intros [Hg Hin]. exists j. split; [apply filter_In; split; [apply memN_In; apply Hg|apply goodb_good; exact Hg]|].
    apply in_map_iff. exists (v, y). auto.
Qed.
Lemma init_only_endorse e : In e init_evs -> exists j v y, e = AEndorse j v y.
Proof. unfold init_evs. rewrite in_flat_map. intros (k & _ & Hin). apply in_map_iff in Hin. destruct Hin as ((v0, y0) & <- & _). eauto. Qed.

Lemma nstate_nil i : nstate i [] = nstart i. Proof. reflexivity. Qed.

Lemma valid_init : valid cm honest init_evs.
Proof.
  assert (G : forall l, (forall e, In e l -> In e init_evs) -> valid cm honest l).
  { induction l as [|e l IH]; intro Hs; [constructor|]. constructor; [apply IH; intros e0 H0; apply Hs; right; exact H0|].
    destruct (init_only_endorse e (Hs e (or_introl eq_refl))) as (j & v & y & ->). cbn [guard].
    assert (Hin : In (AEndorse j v y) init_evs) by (apply Hs; left; reflexivity). apply in_init in Hin. destruct Hin as [Hg Hin].
    destruct (tstart_own (cfg j) (st_wm j) (st_shut j) H cm (st_fresh j) (st_lead j)) as (_ & _ & _ & _ & _ & _ & _ & _ & V0 & _). cbn zeta in V0. fold (nstart j) in V0.
    split.
    - intros y' Hy'. assert (Hin' : In (AEndorse j v y') init_evs) by (apply Hs; right; exact Hy'). apply in_init in Hin'. destruct Hin' as [_ Hin'].
      destruct (node_inv [] j wrun_nil Hg) as (TI & _ & _ & Hcm & _). pose proof (node_inv2 [] j wrun_nil Hg) as OL. rewrite nstate_nil in *.
      symmetry. apply (E_unique (cfg j) (nstart j) v y y' TI); [rewrite Hcm, cfg_me; exact OL|exact Hin|exact Hin'].
    - intro Hv. rewrite (V0 v y Hin) in Hv. lia. }
  apply G. auto.
Qed.

Lemma CI_nil : CI [].
Proof.
  assert (NOEV : forall e, In e (abs []) -> exists j v y, e = AEndorse j v y) by (intros e He; apply init_only_endorse; exact He).
  assert (ST : forall j, C (nstart j) = [] /\ D (nstart j) = [] /\ Vt j (nstart j) = [] /\ lockv (nstart j) = None /\ t_c (tc_t (nstart j)) = []).
  { intro j. destruct (tstart_own (cfg j) (st_wm j) (st_shut j) H cm (st_fresh j) (st_lead j)) as (A & B & C0 & D0 & _ & F & _). cbn zeta in *. rewrite cfg_me in C0. auto. }
  constructor; unfold fE, fC, fV; try rewrite nstate_nil.
  - intros j v y. rewrite nstate_nil. apply in_init.
  - intros j v y. rewrite nstate_nil. destruct (ST j) as (A & _). rewrite A. split; [intro Hin; destruct (NOEV _ Hin) as (? & ? & ? & ?); discriminate|intros [_ []]].
  - intros j v y. rewrite nstate_nil. destruct (ST j) as (_ & B & _). rewrite B. split; [intro Hin; destruct (NOEV _ Hin) as (? & ? & ? & ?); discriminate|intros [_ []]].
  - intros j v lk. split; [intro Hin; destruct (NOEV _ Hin) as (? & ? & ? & ?); discriminate|]. intros [_ (vt & Hvt & _)]. rewrite nstate_nil in Hvt. destruct (ST j) as (_ & _ & C0 & _). rewrite C0 in Hvt. destruct Hvt.
  - intros j vt _ Hvt. rewrite nstate_nil in Hvt. destruct (ST j) as (_ & _ & C0 & _). rewrite C0 in Hvt. destruct Hvt.
  - intros j _. rewrite nstate_nil. unfold L. destruct (ST j) as (_ & _ & _ & D0 & _). rewrite D0.
    unfold abs. cbn [absr]. assert (G : forall l, (forall e, In e l -> exists j v y, e = AEndorse j v y) -> last_lock j l = None).
    { induction l as [|e l IH]; intro Hs; [reflexivity|]. destruct (Hs e (or_introl eq_refl)) as (? & ? & ? & ->). cbn [last_lock]. apply IH. intros e0 H0. apply Hs. right. exact H0. }
    apply G. apply init_only_endorse.
  - intros j u y Hin. destruct (NOEV _ Hin) as (? & ? & ? & ?); discriminate.
  - intros i v h s _ Hin. rewrite nstate_nil in Hin. destruct (ST i) as (_ & _ & _ & _ & F). rewrite F in Hin. destruct Hin.
Qed.

Lemma nodup_all_eq {A} (l : list A) : NoDup l -> (forall a b, In a l -> In b l -> a = b) -> l = [] \/ exists a, l = [a].
Proof.
  intros ND EQ. destruct l as [|a [|b r]]; [left; reflexivity|right; exists a; reflexivity|exfalso].
  assert (a = b) by (apply EQ; [left; reflexivity|right; left; reflexivity]). subst. inversion ND as [|? ? Hn _]. apply Hn. left. reflexivity.
Qed.

Lemma CI_step run i0 e : wrun run -> good i0 -> tev_ok (cfg i0) H e -> (forall m wm' sh', e = TMsg m wm' sh' -> auth_msg run m) ->
  CI run -> CI (run ++ [(i0, e)]).
Proof.
  intros Hr Hg0 Hok Hauth [cE cC cD cV cVv cL cLv cO].
  assert (Hr' : wrun (run ++ [(i0, e)])) by (constructor; assumption).
  destruct (facts_mono run i0 e Hr' Hr Hg0 Hok) as (ME & MC & MV).
  pose proof (node_step run i0 e Hr Hg0 Hok) as S.
  destruct (node_inv _ i0 Hr' Hg0) as (TI' & SI' & Hh' & Hcm' & _). rewrite nstate_snoc_same in *.
  set (x := nstate i0 run) in *. set (x' := tstep (cfg i0) x e) in *.
  destruct (step_facts_mono _ _ _ _ S) as (IE & IC & ID & IV). rewrite cfg_me in IV.
  pose proof (ss_Vt _ _ _ _ S) as SV. rewrite cfg_me in SV.
  pose proof (ss_lock _ _ _ _ S) as SL. rewrite cfg_me in SL.
  pose proof (ss_c _ _ _ _ S) as SC.
  constructor; rewrite ?abs_snoc; fold x x'.
  - intros j v y. rewrite in_app_iff, in_evE, cE. unfold fE. destruct (N.eq_dec j i0) as [->|Hne].
    + rewrite nstate_snoc_same. fold x x'. split; [intros [(_ & A & _)|[A B]]; split; auto|].
      intros [A B]. destruct (in_dec pair_dec (v, y) (E x)); [right; auto|left; auto].
    + rewrite (nstate_snoc_other i0 j e run Hne). split; [intros [(A & _)|A]; [contradiction|exact A]|intro A; right; exact A].
  - intros j v y. rewrite in_app_iff, in_evC, cC. unfold fC. destruct (N.eq_dec j i0) as [->|Hne].
    + rewrite nstate_snoc_same. fold x x'. split; [intros [(_ & A & _)|[A B]]; split; auto|].
      intros [A B]. destruct (in_dec pair_dec (v, y) (C x)); [right; auto|left; auto].
    + rewrite (nstate_snoc_other i0 j e run Hne). split; [intros [(A & _)|A]; [contradiction|exact A]|intro A; right; exact A].
  - intros j v y. rewrite in_app_iff, in_evD, cD. destruct (N.eq_dec j i0) as [->|Hne].
    + rewrite nstate_snoc_same. fold x x'. split; [intros [(_ & A & _)|[A B]]; split; auto|].
      intros [A B]. destruct (in_dec pair_dec (v, y) (D x)); [right; auto|left; auto].
    + rewrite (nstate_snoc_other i0 j e run Hne). split; [intros [(A & _)|A]; [contradiction|exact A]|intro A; right; exact A].
  - intros j v lk. rewrite in_app_iff, in_evV, cV. unfold fV. destruct (N.eq_dec j i0) as [->|Hne].
    + rewrite nstate_snoc_same. fold x x'. split.
      * intros [(_ & vt & A & _ & B & C0)|[A (vt & B & C0 & D0)]]; split; auto; exists vt; auto.
      * intros [A (vt & B & C0 & D0)]. destruct (in_dec vote_dec vt (Vt i0 x)); [right; split; auto; exists vt; auto|left; split; auto; exists vt; auto].
    + rewrite (nstate_snoc_other i0 j e run Hne). split; [intros [(A & _)|A]; [contradiction|exact A]|intro A; right; exact A].
  - intros j vt Hgj. unfold fV. destruct (N.eq_dec j i0) as [->|Hne].
    + rewrite nstate_snoc_same. fold x x'. intro Hv. destruct (SV vt Hv) as [Hold|(A & _)]; [|exact A].
      pose proof (cVv i0 vt Hgj Hold). pose proof (ss_v _ _ _ _ S). fold x in H0. lia.
    + rewrite (nstate_snoc_other i0 j e run Hne). apply cVv. exact Hgj.
  - intros j Hgj. destruct (N.eq_dec j i0) as [->|Hne].
    + rewrite nstate_snoc_same. fold x x'. unfold L.
      destruct SL as [SL|(v & L1 & L2 & L3 & L4 & L5 & L6 & L7)].
      * (* no lock in this step *)
        rewrite last_lock_app_other; [|intros u y Hin; apply in_evL in Hin; destruct Hin as (_ & A & B & _); rewrite SL in A; contradiction].
        rewrite (cL i0 Hgj). unfold L. fold x. rewrite SL. destruct (lockv x) as [u|] eqn:El; [|reflexivity].
        f_equal. f_equal. unfold hash_at. unfold lockv in El. destruct (si_prep _ _ (proj1 (proj2 (node_inv run i0 Hr Hg0))) u El) as (en & _ & G & _). fold x in G.
        rewrite G, (ss_ppmono _ _ _ _ S u en G). reflexivity.
      * rewrite L1. unfold new_events. 
        assert (ED : forall l, last_lock i0 ((evD i0 x x' ++ l)) = last_lock i0 l).
        { intro l. apply last_lock_app_other. intros u y Hin. unfold evD in Hin. apply in_map_iff in Hin. destruct Hin as (? & ? & _). discriminate. }
        assert (EC : forall l, last_lock i0 ((evC i0 x x' ++ l)) = last_lock i0 l).
        { intro l. apply last_lock_app_other. intros u y Hin. unfold evC in Hin. apply in_map_iff in Hin. destruct Hin as (? & ? & _). discriminate. }
        rewrite <- !app_assoc. rewrite ED, EC. unfold lock_ev. rewrite L1.
        destruct (lockv x) as [u|] eqn:El; [destruct (N.eqb_spec v u) as [->|]; [congruence|]|]; cbn [app last_lock]; rewrite N.eqb_refl; reflexivity.
    + rewrite (nstate_snoc_other i0 j e run Hne). rewrite last_lock_app_other; [apply cL; exact Hgj|].
      intros u y Hin. apply in_evL in Hin. destruct Hin as (A & _). congruence.
  - intros j u y. rewrite in_app_iff, in_evL. intros [(-> & A & B & C0)|Hin].
    + split; [exact Hg0|]. rewrite nstate_snoc_same. fold x x'. unfold lockv in A. destruct (si_prep _ _ SI' u A) as (en & _ & G & _). apply (si_pp _ _ SI' u en G).
    + destruct (cLv j u y Hin) as [A B]. split; [exact A|]. destruct (N.eq_dec j i0) as [->|Hne].
      * rewrite nstate_snoc_same. fold x x'. pose proof (ss_v _ _ _ _ S). fold x in B. lia.
      * rewrite (nstate_snoc_other i0 j e run Hne). exact B.
  - intros i v h s Hgi Hin Hs. rewrite in_app_iff. destruct (N.eq_dec i i0) as [->|Hne].
    + rewrite nstate_snoc_same in Hin. fold x x' in Hin. destruct (SC v h s Hin) as [Hold|[(A & B & C0 & D0 & F)|(r & o & wm' & sh' & -> & _)]].
      * right. apply (cO i0 v h s Hgi Hold Hs).
      * left. apply in_evL. repeat split; auto.
      * exfalso. cbn [tev_ok msg_sender] in Hok. destruct Hok as [_ Hns]. rewrite cfg_me in Hns. contradiction.
    + rewrite (nstate_snoc_other i0 i e run Hne) in Hin. right. apply (cO i v h s Hgi Hin Hs).
Qed.

Lemma valid_step run i0 e : wrun run -> good i0 -> tev_ok (cfg i0) H e -> (forall m wm' sh', e = TMsg m wm' sh' -> auth_msg run m) ->
  no_standalone_preprepare_above_view0 (run ++ [(i0, e)]) ->
  valid cm honest (abs run) -> CI run -> valid cm honest (abs (run ++ [(i0, e)])).
Proof.
  intros Hr Hg0 Hok Hauth NK VA CIr.
  assert (Hr' : wrun (run ++ [(i0, e)])) by (constructor; assumption).
  pose proof (CI_step run i0 e Hr Hg0 Hok Hauth CIr) as CI'.
  destruct CIr as [cE cC cD cV cVv cL cLv cO].
  destruct (facts_mono run i0 e Hr' Hr Hg0 Hok) as (ME & MC & MV).
  pose proof (node_step run i0 e Hr Hg0 Hok) as S.
  destruct (node_inv _ i0 Hr Hg0) as (TI & SI & Hh & Hcm & _).
  destruct (node_inv _ i0 Hr' Hg0) as (TI' & SI' & Hh' & Hcm' & _). pose proof (node_inv2 _ i0 Hr' Hg0) as OL'.
  pose proof (SA_holds _ Hr' i0 Hg0) as SA'.
  rewrite abs_snoc. rewrite nstate_snoc_same in *.
  set (x := nstate i0 run) in *. set (x' := tstep (cfg i0) x e) in *. set (AH := abs run) in *.
  destruct (step_facts_mono _ _ _ _ S) as (IE & IC & ID & IV). rewrite cfg_me in IV.
  pose proof (ss_Vt _ _ _ _ S) as SV. rewrite cfg_me in SV.
  pose proof (ss_Vt_one _ _ _ _ S) as SV1. rewrite cfg_me in SV1.
  pose proof (ss_lock _ _ _ _ S) as SL. rewrite cfg_me in SL.
  pose proof (ss_v _ _ _ _ S) as Sv.
  set (LV := evV i0 x x'). set (LE := evE i0 x x'). set (LL := lock_ev i0 x x'). set (LC := evC i0 x x'). set (LD := evD i0 x x').
  unfold new_events. fold LV LE LL LC LD.
  (* which events each part holds *)
  assert (inLV : forall ev, In ev LV -> exists vt, ev = AVote i0 (v_view vt) (lock_of vt) /\ In vt (Vt i0 x') /\ ~ In vt (Vt i0 x)).
  { intros ev Hin. subst LV. unfold evV in Hin. apply in_map_iff in Hin. destruct Hin as (vt & <- & Hn). apply nodup_In, In_newl in Hn. exists vt. tauto. }
  assert (inLE : forall ev, In ev LE -> exists v y, ev = AEndorse i0 v y /\ In (v, y) (E x') /\ ~ In (v, y) (E x)).
  { intros ev Hin. subst LE. unfold evE in Hin. apply in_map_iff in Hin. destruct Hin as ((v, y) & <- & Hn). apply In_newl in Hn. exists v, y. tauto. }
  assert (inLC : forall ev, In ev LC -> exists v y, ev = ACom i0 v y /\ In (v, y) (C x') /\ ~ In (v, y) (C x)).
  { intros ev Hin. subst LC. unfold evC in Hin. apply in_map_iff in Hin. destruct Hin as ((v, y) & <- & Hn). apply In_newl in Hn. exists v, y. tauto. }
  assert (inLD : forall ev, In ev LD -> exists v y, ev = ADecide i0 v y /\ In (v, y) (D x') /\ ~ In (v, y) (D x)).
  { intros ev Hin. subst LD. unfold evD in Hin. apply in_map_iff in Hin. destruct Hin as ((v, y) & <- & Hn). apply In_newl in Hn. exists v, y. tauto. }
  assert (inLL : forall ev, In ev LL -> exists v, ev = ALock i0 v (hash_at (tc_t x') v) /\ lockv x' = Some v /\ lockv x <> Some v).
  { intros ev Hin. subst LL. unfold lock_ev in Hin. destruct (lockv x') as [v|] eqn:E1; [|destruct Hin].
    destruct (lockv x) as [u|] eqn:E2; [destruct (N.eqb_spec v u); [destruct Hin|]|]; destruct Hin as [<-|[]]; exists v; repeat split; congruence. }
  (* lower bounds: facts of the new run that are already in the history so far *)
  assert (LBV : forall h, incl (LV ++ AH) h -> forall j vt, good j -> fV (run ++ [(i0, e)]) j vt -> In (AVote j (v_view vt) (lock_of vt)) h).
  { intros h Hi j vt Hgj Hf. apply Hi. apply in_or_app. unfold fV in Hf. destruct (N.eq_dec j i0) as [->|Hne].
    - rewrite nstate_snoc_same in Hf. fold x x' in Hf. destruct (in_dec vote_dec vt (Vt i0 x)) as [Ho|Hn].
      + right. apply cV. split; [exact Hgj|]. exists vt. auto.
      + left. subst LV. unfold evV. apply in_map_iff. exists vt. split; [reflexivity|]. apply nodup_In, In_newl. auto.
    - rewrite (nstate_snoc_other i0 j e run Hne) in Hf. right. apply cV. split; [exact Hgj|]. exists vt. auto. }
  assert (LBEold : forall h, incl AH h -> forall j v y, good j -> fE (run ++ [(i0, e)]) j v y -> (j = i0 -> v < tc_v x') -> In (AEndorse j v y) h).
  { intros h Hi j v y Hgj Hf Hlt. apply Hi. unfold fE in Hf. destruct (N.eq_dec j i0) as [->|Hne].
    - rewrite nstate_snoc_same in Hf. fold x x' in Hf. destruct (ss_E _ _ _ _ S v y Hf) as [Ho|[Hv _]]; [apply cE; split; auto|]. specialize (Hlt eq_refl). lia.
    - rewrite (nstate_snoc_other i0 j e run Hne) in Hf. apply cE. split; auto. }
  assert (LBE : forall h, incl (LE ++ AH) h -> forall j v y, good j -> fE (run ++ [(i0, e)]) j v y -> In (AEndorse j v y) h).
  { intros h Hi j v y Hgj Hf. apply Hi. apply in_or_app. unfold fE in Hf. destruct (N.eq_dec j i0) as [->|Hne].
    - rewrite nstate_snoc_same in Hf. fold x x' in Hf. destruct (in_dec pair_dec (v, y) (E x)) as [Ho|Hn].
      + right. apply cE. split; auto.
      + left. subst LE. unfold evE. apply in_map_iff. exists (v, y). split; [reflexivity|]. apply In_newl. auto.
    - rewrite (nstate_snoc_other i0 j e run Hne) in Hf. right. apply cE. split; auto. }
  assert (LBC : forall h, incl (LC ++ AH) h -> forall j v y, good j -> fC (run ++ [(i0, e)]) j v y -> In (ACom j v y) h).
  { intros h Hi j v y Hgj Hf. apply Hi. apply in_or_app. unfold fC in Hf. destruct (N.eq_dec j i0) as [->|Hne].
    - rewrite nstate_snoc_same in Hf. fold x x' in Hf. destruct (in_dec pair_dec (v, y) (C x)) as [Ho|Hn].
      + right. apply cC. split; auto.
      + left. subst LC. unfold evC. apply in_map_iff. exists (v, y). split; [reflexivity|]. apply In_newl. auto.
    - rewrite (nstate_snoc_other i0 j e run Hne) in Hf. right. apply cC. split; auto. }
  (* ---- votes ---- *)
  assert (V1 : valid cm honest (LV ++ AH)).
  { assert (SH : nodup vote_dec (newl vote_dec (Vt i0 x') (Vt i0 x)) = [] \/ exists a, nodup vote_dec (newl vote_dec (Vt i0 x') (Vt i0 x)) = [a]).
    { apply nodup_all_eq; [apply NoDup_nodup|]. intros a b Ha Hb. apply nodup_In, In_newl in Ha. apply nodup_In, In_newl in Hb. destruct Ha, Hb. apply SV1; auto. }
    subst LV. unfold evV. destruct SH as [->|(vt & E0)]; [exact VA|]. rewrite E0. cbn [map app]. constructor; [exact VA|].
    assert (Hvt : In vt (Vt i0 x') /\ ~ In vt (Vt i0 x)) by (apply In_newl with (dec := vote_dec); apply (nodup_In vote_dec); rewrite E0; left; reflexivity).
    destruct Hvt as [Hv1 Hv2]. destruct (SV vt Hv1) as [?|(A & B & C0 & D0 & _)]; [contradiction|]. cbn [guard].
    split; [subst AH; rewrite (cL i0 Hg0); exact C0|]. split.
    - intros u y Hin. destruct (cLv _ _ _ Hin) as [_ Hle]. fold x in Hle. lia.
    - intros v' lk' Hin. apply cV in Hin. destruct Hin as [_ (vt' & F1 & <- & _)]. pose proof (cVv i0 vt' Hg0 F1) as Hle. fold x in Hle. lia. }
  (* ---- endorsements ---- *)
  assert (V2 : valid cm honest (LE ++ LV ++ AH)).
  { apply valid_app; [exact V1|]. intros la e0 lb Hs.
    assert (He0 : In e0 LE) by (rewrite Hs; apply in_or_app; right; left; reflexivity).
    destruct (inLE e0 He0) as (v & y & -> & N1 & N2). cbn [guard]. split.
    - intros y' Hin. assert (Hy' : In (v, y') (E x')).
      { apply in_app_or in Hin. destruct Hin as [Hin|Hin].
        - assert (Hb : In (AEndorse i0 v y') LE) by (rewrite Hs; apply in_or_app; right; right; exact Hin). destruct (inLE _ Hb) as (v0 & y0 & E0 & A & _). inversion E0; subst. exact A.
        - apply in_app_or in Hin. destruct Hin as [Hin|Hin]; [destruct (inLV _ Hin) as (? & ? & _); discriminate|].
          apply cE in Hin. destruct Hin as [_ Hf]. apply IE. exact Hf. }
      symmetry. apply (E_unique (cfg i0) x' v y y' TI'); [rewrite Hcm', cfg_me; exact OL'|exact N1|exact Hy'].
    - intro Hv0. apply nvcert_app.
      destruct (ss_E _ _ _ _ S v y N1) as [?|[Hvx ORG]]; [contradiction|].
      assert (LBE1 : forall j u y', good j -> u < v -> fE (run ++ [(i0, e)]) j u y' -> In (AEndorse j u y') (LV ++ AH)).
      { intros j u y' Hgj Hu Hf. apply (LBEold (LV ++ AH)); [apply incl_appr, incl_refl|exact Hgj|exact Hf|intros _; lia]. }
      assert (LBV1 : forall j vt, good j -> fV (run ++ [(i0, e)]) j vt -> v_view vt = v -> In (AVote j v (lock_of vt)) (LV ++ AH)).
      { intros j vt Hgj Hf <-. apply (LBV (LV ++ AH)); [apply incl_refl|exact Hgj|exact Hf]. }
      destruct ORG as [(to & r & s & Hin & Hnot & Hrv & Hrh)|(to & ty & ii & hh & vs & sg & pp & pps & b & Hin & F1 & F2 & F3 & F4 & F5)].
      + (* a PREPARE: the step handled a NEW_VIEW with a valid certificate *)
        destruct e as [m wm shut|h0 v0 wm shut].
        2:{ exfalso. apply Hnot. apply (move_nomp (cfg i0) wm shut x h0 v0 (OSend to (MP r s)) eq_refl). exact Hin. }
        cbn [tstep] in *. subst x'.
        destruct (prepare_needs_newview (cfg i0) wm shut x m to r s Hin Hnot) as [(nty & ninst & nh & vs & sg & pp & pps & b & -> & Hh2 & NC)|(r' & s' & b & -> & Hv2 & _)].
        * destruct NC as [_ _ Q _ VS _ BL]. rewrite Hcm in *. rewrite Hh in VS. rewrite Hrv in *.
          destruct (Hauth _ _ _ eq_refl) as [AV _].
          apply (votes_nvcert (run ++ [(i0, TMsg (MNV nty ninst nh v vs sg pp pps b) wm shut)]) (LV ++ AH) (cfg i0) v y vs); auto.
          -- intros vt Hvt. destruct (VS vt Hvt) as (A1 & A2 & A3). split; [exact A2|]. split; [exact A3|].
             apply voteF_mono; auto. apply (auth_vote_F run (cfg i0) H v vt Hr (AV vt Hvt) A3).
          -- destruct BL as [(lv & p & B1 & B2 & B3 & B4 & _)|(B1 & _)]; [left; exists lv, p; repeat split; auto; congruence|right; exact B1].
        * exfalso. assert (r_view r' = 0) by (apply (NK i0 r' s' b wm shut); apply in_or_app; right; left; reflexivity). lia.
      + (* the node's own NEW_VIEW: made of the votes it has stored *)
        assert (Q' : isQ_ids cm (map (fun vt => s_id (v_snd vt)) vs) = true) by (rewrite <- Hcm'; exact F4).
        assert (VS' : forall vt, In vt vs -> v_view vt = v /\ vote_spec (cfg i0) cm H v vt /\ voteF (run ++ [(i0, e)]) vt).
        { intros vt Hvt. destruct (F3 vt Hvt) as (ob & Hst). destruct (si_vc _ _ SI' _ _ _ Hst) as (A & B & VS & _). rewrite Hcm', Hh' in VS.
          split; [exact A|]. split; [exact VS|]. apply (sa_vc _ _ SA' v vt ob). rewrite nstate_snoc_same. exact Hst. }
        assert (MX' : (exists vt p, In vt vs /\ v_proof vt = Some p /\ (forall vt' q, In vt' vs -> v_proof vt' = Some q -> r_view (pf_ppref q) <= r_view (pf_ppref p)) /\ y = r_hash (pf_ppref p))
                      \/ (forall vt, In vt vs -> v_proof vt = None)).
        { destruct F5 as [(vt & p & A & B & C0 & D0)|F5]; [left; exists vt, p; auto|right; exact F5]. }
        exact (votes_nvcert (run ++ [(i0, e)]) (LV ++ AH) (cfg i0) v y vs Q' VS' MX' LBV1 LBE1). }
  (* ---- lock ---- *)
  assert (V3 : valid cm honest (LL ++ LE ++ LV ++ AH)).
  { apply valid_app; [exact V2|]. intros la e0 lb Hs.
    assert (He0 : In e0 LL) by (rewrite Hs; apply in_or_app; right; left; reflexivity).
    assert (Hlb : lb = []).
    { subst LL. unfold lock_ev in Hs. destruct (lockv x'); [destruct (lockv x); [destruct (N.eqb _ _)|]|]; destruct la as [|? [|? ?]]; cbn in Hs; try discriminate; inversion Hs; reflexivity. }
    subst lb. cbn [app]. destruct (inLL e0 He0) as (v & -> & L1 & L2).
    destruct SL as [SL|(v0 & M1 & M2 & M3 & M4 & M5 & M6 & M7)]; [rewrite SL in L1; contradiction|]. rewrite L1 in M1. assert (Ev0 : v0 = v) by congruence. rewrite Ev0 in *. clear M1 Ev0.
    cbn [guard]. split; [|split].
    - assert (P : pcert cm honest (LE ++ LV ++ AH) v (hash_at (tc_t (nstate i0 (run ++ [(i0, e)]))) v)).
      { apply (certP_pcert (run ++ [(i0, e)]) i0 (LE ++ LV ++ AH) v Hr' Hg0 SA'); rewrite nstate_snoc_same; fold x x'; [exact M4|].
        intros j Hgj Hf. apply (LBE (LE ++ LV ++ AH)); auto. intros ev Hev. apply in_app_or in Hev. apply in_or_app. destruct Hev; [left; assumption|right; apply in_or_app; right; assumption]. }
      rewrite nstate_snoc_same in P. exact P.
    - intros u y Hin. apply in_app_or in Hin. destruct Hin as [Hin|Hin]; [destruct (inLE _ Hin) as (? & ? & ? & _); discriminate|].
      apply in_app_or in Hin. destruct Hin as [Hin|Hin]; [destruct (inLV _ Hin) as (? & ? & _); discriminate|].
      destruct (cLv _ _ _ Hin) as [_ Hle]. fold x in Hle. lia.
    - intros v' lk Hin. apply in_app_or in Hin. destruct Hin as [Hin|Hin]; [destruct (inLE _ Hin) as (? & ? & ? & _); discriminate|].
      apply in_app_or in Hin. destruct Hin as [Hin|Hin].
      + destruct (inLV _ Hin) as (vt & _ & A & B). rewrite M5 in A. contradiction.
      + apply cV in Hin. destruct Hin as [_ (vt' & F1 & <- & _)]. pose proof (cVv i0 vt' Hg0 F1) as Hle. fold x in Hle. lia. }
  (* ---- commits ---- *)
  assert (NOLOCK_C : forall u y l, In (ALock i0 u y) (LD ++ LC ++ l) -> In (ALock i0 u y) l).
  { intros u y l Hin. apply in_app_or in Hin. destruct Hin as [Hin|Hin]; [destruct (inLD _ Hin) as (? & ? & ? & _); discriminate|].
    apply in_app_or in Hin. destruct Hin as [Hin|Hin]; [destruct (inLC _ Hin) as (? & ? & ? & _); discriminate|exact Hin]. }
  assert (V4 : valid cm honest (LC ++ LL ++ LE ++ LV ++ AH)).
  { apply valid_app; [exact V3|]. intros la e0 lb Hs.
    assert (He0 : In e0 LC) by (rewrite Hs; apply in_or_app; right; left; reflexivity).
    destruct (inLC e0 He0) as (v & y & -> & N1 & N2). cbn [guard].
    destruct (ss_C _ _ _ _ S v y N1) as [?|[CC|(K1 & K2 & K3)]]; [contradiction| |].
    + set (Sg := map s_id (bucket (t_c (tc_t x')) v y)).
      destruct (in_dec N.eq_dec i0 Sg) as [Hin0|Hnin0].
      * left. apply in_or_app. right. subst Sg. apply in_map_iff in Hin0. destruct Hin0 as (s & Es & Hs0). apply In_bucket in Hs0.
        assert (HL : In (ALock i0 v y) (abs (run ++ [(i0, e)]))).
        { apply (ci_ownc _ CI' i0 v y s Hg0); [rewrite nstate_snoc_same; exact Hs0|exact Es]. }
        rewrite abs_snoc in HL. unfold new_events in HL. fold LV LE LL LC LD in HL. fold x x' in HL. rewrite <- !app_assoc in HL. apply NOLOCK_C in HL. exact HL.
      * right. apply ccert_app.
        apply (certC_ccert (run ++ [(i0, e)]) i0 (LL ++ LE ++ LV ++ AH) v y Hr' Hg0 SA'); rewrite nstate_snoc_same; fold x x'; [exact CC|].
        intros j Hgj Hj Hf. assert (Hne : j <> i0) by (intro; subst; contradiction).
        unfold fC in Hf. rewrite (nstate_snoc_other i0 j e run Hne) in Hf. apply in_or_app; right; apply in_or_app; right; apply in_or_app; right. apply cC. split; auto.
    + left. apply in_or_app. right. apply in_or_app. left. subst LL. unfold lock_ev. rewrite K1. destruct (lockv x) as [u|]; [destruct (N.eqb_spec v u) as [->|]; [congruence|]|]; rewrite K3; left; reflexivity. }
  (* ---- decisions ---- *)
  assert (V5 : valid cm honest (LD ++ LC ++ LL ++ LE ++ LV ++ AH)).
  { apply valid_app; [exact V4|]. intros la e0 lb Hs.
    assert (He0 : In e0 LD) by (rewrite Hs; apply in_or_app; right; left; reflexivity).
    destruct (inLD e0 He0) as (v & y & -> & N1 & N2). cbn [guard]. apply ccert_app.
    destruct (ss_D _ _ _ _ S v y N1) as [?|[CC _]]; [contradiction|].
    apply (certC_ccert (run ++ [(i0, e)]) i0 (LC ++ LL ++ LE ++ LV ++ AH) v y Hr' Hg0 SA'); rewrite nstate_snoc_same; fold x x'; [exact CC|].
    intros j Hgj _ Hf. apply (LBC (LC ++ LL ++ LE ++ LV ++ AH)); auto.
    intros ev Hev. apply in_app_or in Hev. apply in_or_app. destruct Hev; [left; assumption|right; apply in_or_app; right; apply in_or_app; right; apply in_or_app; right; assumption]. }
  rewrite <- !app_assoc. exact V5.
Qed.


Lemma nokf1_prefix run g : no_standalone_preprepare_above_view0 (run ++ [g]) -> no_standalone_preprepare_above_view0 run.
Proof. intros NK i r s b wm' sh' Hin. apply (NK i r s b wm' sh'). apply in_or_app. left. exact Hin. Qed.

Theorem run_valid run : wrun run -> no_standalone_preprepare_above_view0 run -> valid cm honest (abs run) /\ CI run.
Proof.
  induction 1 as [|run i e Hr IH Hg Hok Ha]; intro NK; [split; [exact valid_init|exact CI_nil]|].
  destruct (IH (nokf1_prefix _ _ NK)) as [VA CIr]. split; [apply valid_step; assumption|apply CI_step; assumption].
Qed.

(* the block a term has committed is recorded as a decision for its hash *)
Lemma commit_recorded run i b : wrun run -> good i -> tc_commit (nstate i run) = Some b ->
  exists v, In (v, b_id b) (D (nstate i run)) /\ b_height b = H.
Proof.
  intros Hr. revert i b. induction Hr as [|run i0 e Hr IH Hg0 Hok Ha]; intros i b Hg Hc.
  - rewrite nstate_nil in Hc. unfold nstart in Hc. rewrite tstart_commit in Hc. discriminate.
  - assert (Hr' : wrun (run ++ [(i0, e)])) by (constructor; assumption).
    destruct (N.eq_dec i i0) as [->|Hne]; [|rewrite (nstate_snoc_other i0 i e run Hne) in *; apply IH; assumption].
    destruct (node_inv _ i0 Hr' Hg) as (_ & SI' & Hh' & _). rewrite nstate_snoc_same in *.
    assert (DS : dstep (nstate i0 run) (tstep (cfg i0) (nstate i0 run) e)) by (destruct e; cbn [tstep]; [apply thandle_dstep|left; apply move_dneutral]).
    destruct DS as [[D1 D2]|(b' & v & en & C1 & C2 & C3 & C4)].
    + rewrite D1. apply IH; [exact Hg|congruence].
    + rewrite C1 in Hc. inversion Hc; subst b'. exists v. rewrite C2.
      destruct (si_pp _ _ SI' v en C3) as [[_ _ _ _ _ _ BC] _]. specialize (BC b C4). unfold commitsTo in BC. apply andb_true_iff in BC. destruct BC as [B1 B2].
      apply N.eqb_eq in B1, B2. rewrite Hh' in B1. split; [left; rewrite B2; reflexivity|exact B1].
Qed.

(* ---- C01: agreement ---- *)
Theorem agreement run i j b1 b2 : wrun run -> no_standalone_preprepare_above_view0 run -> good i -> good j ->
  tc_commit (nstate i run) = Some b1 -> tc_commit (nstate j run) = Some b2 -> b_id b1 = b_id b2 /\ b_height b1 = b_height b2.
Proof.
  intros Hr NK Hi Hj C1 C2. destruct (run_valid run Hr NK) as [VA CIr].
  destruct (commit_recorded run i b1 Hr Hi C1) as (v1 & D1 & H1). destruct (commit_recorded run j b2 Hr Hj C2) as (v2 & D2 & H2).
  split; [|congruence].
  apply (abs_agreement cm Hw honest Hbyz (abs run) VA i v1 (b_id b1) j v2 (b_id b2)); apply (ci_D _ CIr); auto.
Qed.


(* ================= C04: external validity ================= *)
(* a proposal a node stored is one it endorsed *)
Lemma pp_endorsed run : wrun run -> forall j v en, good j -> get_pp (tc_t (nstate j run)) v = Some en -> fE run j v (r_hash (pe_ref en)).
Proof.
  induction 1 as [|run i0 e Hr IH Hg0 Hok Ha]; intros j v en Hg Hpp.
  - rewrite nstate_nil in Hpp. destruct (tstart_own (cfg j) (st_wm j) (st_shut j) H cm (st_fresh j) (st_lead j)) as (_ & _ & _ & _ & _ & _ & _ & _ & _ & PP). cbn zeta in PP.
    destruct (PP v en Hpp) as (_ & _ & A). unfold fE. rewrite nstate_nil. exact A.
  - assert (Hr' : wrun (run ++ [(i0, e)])) by (constructor; assumption).
    destruct (facts_mono run i0 e Hr' Hr Hg0 Hok) as (ME & _ & _).
    destruct (N.eq_dec j i0) as [->|Hne]; [|rewrite (nstate_snoc_other i0 j e run Hne) in Hpp; apply ME; apply IH; assumption].
    pose proof (node_step run i0 e Hr Hg0 Hok) as S. rewrite nstate_snoc_same in Hpp.
    destruct (ss_pp _ _ _ _ S v en Hpp) as [Hold|[(_ & _ & He)|[(r & s & b & wm' & sh' & _ & -> & _ & He)|(nty & ninst & nh & nvw & vs & sg & pp & pps & b & wm' & sh' & _ & -> & _ & He)]]].
    + apply ME. apply IH; assumption.
    + unfold fE. rewrite nstate_snoc_same. exact He.
    + unfold fE. rewrite nstate_snoc_same. exact He.
    + unfold fE. rewrite nstate_snoc_same. exact He.
Qed.

(* "some correct member approved or produced the block with hash y" *)
Definition msg_block (m : msg) : option block :=
  match m with MPP _ _ b | MVC _ b | MNV _ _ _ _ _ _ _ _ b => b | _ => None end.
Inductive vouched (run : list gev) (y : N) : Prop :=
| V_start i : good i -> In (0, y) (E (nstart i)) -> vouched run y
    (* the first leader's own block (RequestNewBlockProposal in startTerm) *)
| V_valid pre i m wm' sh' post b : run = pre ++ (i, TMsg m wm' sh') :: post -> good i -> msg_block m = Some b -> b_id b = y ->
    validProposal i H (Some b) y = true -> vouched run y
    (* ValidateBlockProposal of correct member i accepted the block *)
| V_fresh pre i e post v to ty ii hh vs sg pp pps b : run = pre ++ (i, e) :: post -> good i ->
    In (OSend to (MNV ty ii hh v vs sg pp pps b)) (tc_out (nstate i (pre ++ [(i, e)]))) -> r_hash pp = y ->
    (forall vt, In vt vs -> v_proof vt = None) -> vouched run y.
    (* correct leader i proposed it in a NEW_VIEW none of whose votes carries a lock: a fresh block of its own *)

Lemma vouched_mono run g y : vouched run y -> vouched (run ++ [g]) y.
Proof.
  intros [i A B|pre i m wm' sh' post b A B C0 D0 F|pre i e post v to ty ii hh vs sg pp pps b A B C0 D0 F].
  - eapply V_start; eauto.
  - eapply V_valid with (pre := pre) (post := post ++ [g]); eauto. rewrite A, <- app_assoc. reflexivity.
  - eapply V_fresh with (pre := pre) (post := post ++ [g]); eauto. rewrite A, <- app_assoc. reflexivity.
Qed.

Lemma quorum_good_member S : isQ S cm = true -> exists j, In j S /\ good j.
Proof. intro Q. destruct (quorum_has_honest_member cm Hw honest Hbyz S Q) as (j & A & B & C0). exists j. split; [exact A|apply good_of; assumption]. Qed.

(* a lock carried by a counted vote is backed by the endorsement of a correct member in an earlier view *)
Lemma lock_backed run c0 v vt p : vote_spec c0 cm H v vt -> v_proof vt = Some p -> proofF run p ->
  exists j, good j /\ r_view (pf_ppref p) < v /\ fE run j (r_view (pf_ppref p)) (r_hash (pf_ppref p)).
Proof.
  intros VS Ep [PF1 PF2]. destruct (vs_proof _ _ _ _ _ VS p Ep) as [_ _ _ [Sv Sh] Hearlier [Lok Lid] Pr _ Qp].
  destruct (quorum_good_member _ Qp) as (j & Hj & Hg). exists j. split; [exact Hg|]. split; [exact Hearlier|].
  apply in_app_or in Hj. destruct Hj as [Hj|[<-|[]]].
  - apply in_map_iff in Hj. destruct Hj as (s & <- & Hs). rewrite <- Sv, <- Sh. apply PF2; [exact Hs|apply (Pr s Hs)|exact Hg].
  - apply PF1; [exact Lok|exact Hg].
Qed.

Theorem endorsed_vouched run : wrun run -> forall j v y, good j -> fE run j v y -> vouched run y.
Proof.
  induction 1 as [|run i0 e Hr IH Hg0 Hok Hauth]; intros j v y Hg Hf.
  - unfold fE in Hf. rewrite nstate_nil in Hf.
    destruct (tstart_own (cfg j) (st_wm j) (st_shut j) H cm (st_fresh j) (st_lead j)) as (_ & _ & _ & _ & _ & _ & _ & _ & V0 & _). cbn zeta in V0. fold (nstart j) in V0.
    pose proof (V0 v y Hf) as ->. apply (V_start [] y j Hg Hf).
  - assert (Hr' : wrun (run ++ [(i0, e)])) by (constructor; assumption).
    destruct (facts_mono run i0 e Hr' Hr Hg0 Hok) as (ME & _ & MV).
    unfold fE in Hf. destruct (N.eq_dec j i0) as [->|Hne]; [|rewrite (nstate_snoc_other i0 j e run Hne) in Hf; apply vouched_mono; apply (IH j v y Hg Hf)].
    pose proof (node_step run i0 e Hr Hg0 Hok) as S. rewrite nstate_snoc_same in Hf.
    destruct (node_inv _ i0 Hr Hg0) as (TI & SI & Hh & Hcm & _).
    destruct (node_inv _ i0 Hr' Hg0) as (TI' & SI' & Hh' & Hcm' & _). rewrite nstate_snoc_same in *.
    pose proof (SA_holds _ Hr' i0 Hg0) as SA'.
    set (x := nstate i0 run) in *. set (x' := tstep (cfg i0) x e) in *.
    destruct (ss_E _ _ _ _ S v y Hf) as [Hold|[Hvx ORG]]; [apply vouched_mono; apply (IH i0 v y Hg0 Hold)|].
    (* an endorsement of an earlier view by any correct member is an old fact *)
    assert (OLDER : forall k u y', good k -> u < v -> fE (run ++ [(i0, e)]) k u y' -> fE run k u y').
    { intros k u y' Hgk Hu Hk. unfold fE in *. destruct (N.eq_dec k i0) as [->|Hnk]; [|rewrite (nstate_snoc_other i0 k e run Hnk) in Hk; exact Hk].
      rewrite nstate_snoc_same in Hk. fold x x' in Hk. destruct (ss_E _ _ _ _ S u y' Hk) as [Ho|[Hu' _]]; [exact Ho|lia]. }
    destruct ORG as [(to & r & s & Hin & Hnot & Hrv & Hrh)|(to & ty & ii & hh & vs & sg & pp & pps & b & Hin & F1 & F2 & F3 & F4 & F5)].
    + destruct e as [m wm shut|h0 v0 wm shut].
      2:{ exfalso. apply Hnot. apply (move_nomp (cfg i0) wm shut x h0 v0 (OSend to (MP r s)) eq_refl). exact Hin. }
      cbn [tstep] in *. subst x'.
      destruct (prepare_needs_newview (cfg i0) wm shut x m to r s Hin Hnot) as [(nty & ninst & nh & vs & sg & pp & pps & b & -> & Hh2 & NC)|(r' & s' & b & -> & Hv2 & Hh2 & _ & VP)].
      * destruct NC as [_ _ _ _ VS [_ [_ [_ [Hph _]]]] BL]. rewrite Hcm, Hh in VS. destruct (Hauth _ _ _ eq_refl) as [AV _].
        destruct BL as [(lv & p & B1 & B2 & B3 & B4 & B5)|(B1 & B2)].
        -- destruct (VS lv B1) as (_ & _ & VSl). pose proof (auth_vote_F run (cfg i0) H (r_view r) lv Hr (AV lv B1) VSl) as [_ PF].
           destruct (lock_backed run (cfg i0) (r_view r) lv p VSl B2 (PF p B2)) as (k & Hgk & Hlt & Hk).
           apply vouched_mono. rewrite <- Hrh, Hh2, B4. apply (IH k _ _ Hgk Hk).
        -- rewrite <- Hrh, Hh2. destruct b as [bb|]; [|discriminate B2].
           assert (Hid : b_id bb = r_hash pp) by (unfold validProposal in B2; rewrite !andb_true_iff in B2; destruct B2 as [[_ _] B2]; apply N.eqb_eq; exact B2).
           cbn [tev_ok msg_height] in Hok. destruct Hok as [Hmh _]. rewrite cfg_me, Hph, Hmh in B2.
           apply (V_valid _ _ run i0 (MNV nty ninst nh (r_view r) vs sg pp pps (Some bb)) wm shut [] bb); auto.
      * rewrite <- Hrh, <- Hh2. destruct b as [bb|]; [|discriminate VP].
        assert (Hid : b_id bb = r_hash r') by (unfold validProposal in VP; rewrite !andb_true_iff in VP; destruct VP as [[_ _] VP]; apply N.eqb_eq; exact VP).
        rewrite cfg_me in VP. cbn [tev_ok msg_height] in Hok. destruct Hok as [Hmh _]. rewrite Hmh in VP.
        apply (V_valid _ _ run i0 (MPP r' s' (Some bb)) wm shut [] bb); auto.
    + destruct F5 as [(vt & p & A & B & C0 & D0)|F5].
      * destruct (F3 vt A) as (ob & Hst). destruct (si_vc _ _ SI' _ _ _ Hst) as (_ & _ & VS & _). rewrite Hcm', Hh' in VS.
        assert (VF : voteF (run ++ [(i0, e)]) vt) by (apply (sa_vc _ _ SA' v vt ob); rewrite nstate_snoc_same; exact Hst).
        destruct VF as [_ PF]. destruct (lock_backed _ (cfg i0) v vt p VS B (PF p B)) as (k & Hgk & Hlt & Hk).
        apply vouched_mono. rewrite D0. apply (IH k (r_view (pf_ppref p)) (r_hash (pf_ppref p)) Hgk). apply OLDER; assumption.
      * apply (V_fresh _ _ run i0 e [] v to ty ii hh vs sg pp pps b); auto. rewrite nstate_snoc_same. exact Hin.
Qed.

(* ---- C04 ---- *)
Theorem external_validity run i b : wrun run -> good i -> tc_commit (nstate i run) = Some b ->
  b_height b = H /\
  (exists v en, get_pp (tc_t (nstate i run)) v = Some en /\ pe_blk en = Some b /\ r_hash (pe_ref en) = b_id b /\
                r_type (pe_ref en) = T_PREPREPARE /\ s_ok (pe_snd en) = true /\ s_id (pe_snd en) = leaderOf cm v) /\
  vouched run (b_id b).
Proof.
  intros Hr Hg Hc.
  assert (G : forall run, wrun run -> forall b, tc_commit (nstate i run) = Some b ->
              exists v en, In (v, b_id b) (D (nstate i run)) /\ get_pp (tc_t (nstate i run)) v = Some en /\ pe_blk en = Some b /\ r_hash (pe_ref en) = b_id b).
  { clear run b Hr Hc. intros run Hr. induction Hr as [|run i0 e Hr IH Hg0 Hok Ha]; intros b Hc.
    - rewrite nstate_nil in Hc. unfold nstart in Hc. rewrite tstart_commit in Hc. discriminate.
    - assert (Hr' : wrun (run ++ [(i0, e)])) by (constructor; assumption).
      destruct (N.eq_dec i i0) as [->|Hne]; [|rewrite (nstate_snoc_other i0 i e run Hne) in *; apply IH; assumption].
      destruct (node_inv _ i0 Hr' Hg) as (_ & SI' & Hh' & _). pose proof (node_step run i0 e Hr Hg0 Hok) as S. rewrite nstate_snoc_same in *.
      assert (DS : dstep (nstate i0 run) (tstep (cfg i0) (nstate i0 run) e)) by (destruct e; cbn [tstep]; [apply thandle_dstep|left; apply move_dneutral]).
      destruct DS as [[D1 D2]|(b' & v & en & C1 & C2 & C3 & C4)].
      + rewrite D2 in Hc. destruct (IH b Hc) as (v & en & A & B & C0 & D0). exists v, en. rewrite D1. split; [exact A|]. split; [apply (ss_ppmono _ _ _ _ S); exact B|auto].
      + rewrite C1 in Hc. inversion Hc; subst b'. exists v, en.
        destruct (si_pp _ _ SI' v en C3) as [[_ _ _ _ _ _ BC] _]. specialize (BC b C4). unfold commitsTo in BC. apply andb_true_iff in BC. destruct BC as [_ B2]. apply N.eqb_eq in B2.
        rewrite C2, B2. split; [left; reflexivity|auto]. }
  destruct (G run Hr b Hc) as (v & en & HD & Hpp & Hb & Hh0).
  destruct (node_inv run i Hr Hg) as (_ & SI & Hh & Hcm & _).
  destruct (si_pp _ _ SI v en Hpp) as [[_ PT _ _ PS PL BC] _]. specialize (BC b Hb). unfold commitsTo in BC. apply andb_true_iff in BC. destruct BC as [B1 _]. apply N.eqb_eq in B1.
  split; [congruence|]. split; [exists v, en; rewrite <- Hcm; auto 10|].
  rewrite <- Hh0. apply (endorsed_vouched run Hr i v). exact Hg. apply (pp_endorsed run Hr i v en Hg Hpp).
Qed.

End World.
