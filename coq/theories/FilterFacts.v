(* FilterFacts.v — invariants of Filter.v for every operation sequence, including commits (and hence the start
   of the next height) from inside a delivery: C17. *)
From Coq Require Import Permutation.
From LH Require Import Prims Filter.
Open Scope N_scope.

Section WithIds.
Variables me inst : N.

Definition good (t : N) (m : fmsg) : Prop := m_height m = t /\ m_inst m = inst /\ m_sender m <> me.
Definition tags (l : list fmsg) : list N := map m_tag l.
Definition out_tags (s : fstate) : list N := map (fun d => m_tag (snd d)) (f_out s).
Fixpoint cfut (h : N) (c : list (N * list fmsg)) : list N :=
  match c with [] => [] | (k, l) :: r => (if N.ltb h k then tags l else []) ++ cfut h r end.
Fixpoint call (c : list (N * list fmsg)) : list N :=
  match c with [] => [] | (_, l) :: r => tags l ++ call r end.

(* X: tags of messages captured by a drain in progress and not yet handed over; R: tags received so far *)
Record InvX (R X : list N) (s : fstate) : Prop := {
  i_handler : f_handler s = None \/ f_handler s = Some (f_h s);
  i_cache : forall k l m, In (k, l) (f_cache s) -> In m l -> good k m;
  i_out : forall t m, In (t, m) (f_out s) -> good t m;
  i_keys : forall k l, In (k, l) (f_cache s) -> k = f_latest s;
  i_len : (length (f_cache s) <= 1)%nat;
  i_comm : forall t, In t (f_committed s) -> t <= f_h s;
  i_nodup : NoDup (out_tags s ++ X ++ cfut (f_h s) (f_cache s));
  i_recv : forall x, In x (out_tags s ++ X ++ call (f_cache s)) -> In x R
}.
Definition Inv R s := InvX R [] s.

Lemma NoDup_app_remove_mid {A} (a b c : list A) : NoDup (a ++ b ++ c) -> NoDup (a ++ c).
Proof.
  intro H. induction a as [|x a IH]; cbn in *.
  - induction b as [|y b IHb]; cbn in *; [exact H|]. inversion H; auto.
  - inversion H as [|? ? Hn Hd]; subst. constructor; [|auto].
    intro Hi. apply Hn. apply in_app_or in Hi. apply in_or_app. destruct Hi; [left; auto|right; apply in_or_app; right; auto].
Qed.

Lemma NoDup_app_l {A} (a b : list A) : NoDup (a ++ b) -> NoDup a.
Proof.
  induction a as [|x a IH]; cbn; intro H; [constructor|]. inversion H as [|? ? Hn Hd]; subst.
  constructor; [intro Hi; apply Hn; apply in_or_app; left; exact Hi|auto].
Qed.

Lemma InvX_drop R x X s : InvX R (x :: X) s -> InvX R X s.
Proof.
  intros [H1 H2 H3 H4 H5 H6 H7 H8]. constructor; auto.
  - apply NoDup_remove_1 in H7. exact H7.
  - intros y Hy. apply H8. apply in_app_or in Hy. apply in_or_app. destruct Hy as [Hy|Hy]; [left; exact Hy|right; right; exact Hy].
Qed.

Lemma InvX_nil R X s : InvX R X s -> Inv R s.
Proof. induction X as [|x X IH]; [auto|]. intro H. apply IH. eapply InvX_drop; eauto. Qed.

Lemma InvX_weaken R x X s : InvX R X s -> InvX (x :: R) X s.
Proof. intros [H1 H2 H3 H4 H5 H6 H7 H8]. constructor; auto. intros y Hy. right. auto. Qed.

Lemma InvX_set_oof R X s : InvX R X s -> InvX R X (set_oof s).
Proof. intros [H1 H2 H3 H4 H5 H6 H7 H8]. constructor; auto. Qed.

(* what a continuation (the nested start of the next height) must guarantee *)
Definition adv_ok (R : list N) (adv : fstate -> N -> fstate) : Prop :=
  forall s h, (Inv R s -> Inv R (adv s h)) /\ f_h s <= f_h (adv s h) /\
              (f_h (adv s h) = f_h s -> adv s h = s \/ adv s h = set_oof s).

Lemma process_ok R adv X m s : adv_ok R adv -> InvX R (m_tag m :: X) s ->
  (forall t, f_handler s = Some t -> good t m) ->
  f_h s <= f_h (process adv m s) /\
  (f_h (process adv m s) = f_h s -> InvX R X (process adv m s)) /\
  Inv R (process adv m s).
Proof.
  intros Ha I Hg. unfold process. destruct (f_handler s) as [t|] eqn:Eh.
  2:{ split; [lia|]. split; [intros _; eapply InvX_drop; eauto|eapply InvX_nil; eauto]. }
  assert (Ie : InvX R X (emit t m s)).
  { destruct I as [H1 H2 H3 H4 H5 H6 H7 H8]. constructor; cbn [emit f_handler f_h f_cache f_out f_latest f_committed]; auto.
    - intros t' m' [E|Hi]; [inversion E; subst; apply Hg; reflexivity|auto].
    - unfold out_tags in *. cbn [f_out map snd]. 
      apply (Permutation_NoDup (l := map (fun d => m_tag (snd d)) (f_out s) ++ m_tag m :: X ++ cfut (f_h s) (f_cache s))); [|exact H7].
      symmetry. apply Permutation_middle.
    - intros x Hx. apply H8. unfold out_tags in *. cbn [f_out map snd] in Hx.
      destruct Hx as [<-|Hx]; [apply in_or_app; right; left; reflexivity|].
      apply in_app_or in Hx. apply in_or_app. destruct Hx; [left; auto|right; right; auto]. }
  destruct (m_trigger m && negb (memN t (f_committed (emit t m s)))) eqn:Et.
  - assert (Im : InvX R X (mark_committed t (emit t m s))).
    { destruct Ie as [H1 H2 H3 H4 H5 H6 H7 H8]. constructor; cbn [mark_committed emit f_handler f_h f_cache f_out f_latest f_committed] in *; auto.
      intros t' [<-|Hi]; [|auto]. destruct H1 as [H1|H1]; [congruence|]. rewrite Eh in H1. inversion H1. lia. }
    destruct (Ha (mark_committed t (emit t m s)) (t + 1)) as [A1 [A2 A3]].
    cbn [mark_committed emit f_h] in A2, A3. split; [exact A2|]. split.
    + intro E. destruct (A3 E) as [-> | ->]; [exact Im|apply InvX_set_oof; exact Im].
    + apply A1. eapply InvX_nil; eauto.
  - cbn [emit f_h]. split; [lia|]. split; [intros _; exact Ie|eapply InvX_nil; eauto].
Qed.

Lemma drain_ok R adv h : adv_ok R adv -> forall msgs s,
  InvX R (tags msgs) s -> (forall m, In m msgs -> good h m) -> (f_h s = h -> f_handler s = None \/ f_handler s = Some h) ->
  Inv R (drain_loop adv h msgs s) /\ f_h s <= f_h (drain_loop adv h msgs s).
Proof.
  intros Ha. induction msgs as [|m r IH]; intros s I Hg Hh; cbn [drain_loop].
  - split; [exact I|lia].
  - destruct (N.eqb_spec (f_h s) h) as [E|E].
    2:{ split; [eapply InvX_nil; eauto|lia]. }
    cbn [tags map] in I.
    assert (Hgm : forall t, f_handler s = Some t -> good t m).
    { intros t Ht. destruct (Hh E) as [H|H]; [congruence|]. rewrite H in Ht. inversion Ht; subst. apply Hg. left. reflexivity. }
    destruct (process_ok R adv (tags r) m s Ha I Hgm) as [P1 [P2 P3]].
    destruct (N.eq_dec (f_h (process adv m s)) (f_h s)) as [Eq|Ne].
    + destruct (IH (process adv m s) (P2 Eq) (fun m' Hm' => Hg m' (or_intror Hm'))) as [Q1 Q2].
      * intros _. destruct (P2 Eq) as [H1 _ _ _ _ _ _ _]. rewrite Eq, E in H1. exact H1.
      * split; [exact Q1|lia].
    + (* the height moved: the loop stops at its next test *)
      assert (Hstop : drain_loop adv h r (process adv m s) = process adv m s).
      { destruct r as [|m' r']; [reflexivity|]. cbn [drain_loop]. destruct (N.eqb_spec (f_h (process adv m s)) h); [lia|reflexivity]. }
      rewrite Hstop. split; [exact P3|lia].
Qed.

Ltac triv := try solve [intros; match goal with H : In _ [] |- _ => destruct H end | cbn; lia | auto].

Ltac nd H := unfold out_tags in *; cbn [f_out set_cache tags map cfut call app] in *; rewrite ?app_nil_r in *;
  first [exact H | apply NoDup_app_l in H; exact H].
Ltac inr H := let x := fresh "x" in let Hx := fresh "Hx" in
  intros x Hx; apply H; revert Hx; unfold out_tags; cbn [f_out set_cache tags map cfut call app];
  rewrite ?app_nil_r, ?in_app_iff; tauto.

Lemma cache_shape R X s : InvX R X s -> f_cache s = [] \/ exists l, f_cache s = [(f_latest s, l)].
Proof.
  intros [_ _ _ H4 H5 _ _ _]. destruct (f_cache s) as [|[k l] [|e r]] eqn:E; [left; reflexivity| |cbn [length] in H5; exfalso; lia].
  right. exists l. rewrite <- (H4 k l); [reflexivity|left; reflexivity].
Qed.

Lemma advance_ok R fuel : adv_ok R (advance fuel).
Proof.
  induction fuel as [|f IH]; intros s h; cbn [advance].
  - split; [apply InvX_set_oof|]. split; [cbn; lia|]. intros _. right. reflexivity.
  - destruct (N.leb_spec h (f_h s)) as [Hle|Hlt].
    + split; [auto|]. split; [lia|]. left. reflexivity.
    + set (s1 := start_height h s). set (l := lookup h (f_cache s1)).
      assert (Hmono : forall I1 : InvX R (tags l) s1, (forall m, In m l -> good h m) ->
                 Inv R (set_cache (remove_key h (f_cache (drain_loop (advance f) h l s1))) (drain_loop (advance f) h l s1))
                 /\ h <= f_h (drain_loop (advance f) h l s1)).
      { intros I1 Hg. destruct (drain_ok R (advance f) h IH l s1 I1 Hg) as [D1 D2].
        { intros _. right. reflexivity. }
        split; [|exact D2].
        pose proof (cache_shape _ _ _ D1) as Sh. destruct D1 as [H1 H2 H3 H4 H5 H6 H7 H8].
        set (s2 := drain_loop (advance f) h l s1) in *.
        destruct Sh as [Ec|[l2 Ec]]; rewrite Ec in *; unfold remove_key; cbn [filter fst].
        - constructor; cbn [set_cache f_handler f_h f_cache f_out f_latest f_committed]; rewrite ?Ec; auto.
        - destruct (N.eqb (f_latest s2) h); cbn [negb].
          + constructor; cbn [set_cache f_handler f_h f_cache f_out f_latest f_committed]; triv.
            * nd H7.
            * inr H8.
          + constructor; cbn [set_cache f_handler f_h f_cache f_out f_latest f_committed]; rewrite ?Ec; auto. }
      (* the state right after SetHeightAndResetView + handler installation + clearCacheEarlierThan *)
      split; [|split].
      * intro I. pose proof (cache_shape _ _ _ I) as Sh.
        assert (I1 : InvX R (tags l) s1 /\ (forall m, In m l -> good h m)).
        { destruct I as [H1 H2 H3 H4 H5 H6 H7 H8]. subst l s1. unfold start_height, clear_earlier. cbn [f_cache].
          destruct Sh as [Ec|[l0 Ec]]; rewrite Ec in *; cbn [filter fst lookup].
          - split; [|intros m []]. constructor; cbn [f_handler f_h f_cache f_out f_latest f_committed]; auto.
            + intros t Ht. specialize (H6 t Ht). lia.
          - destruct (N.ltb_spec (f_latest s) h) as [Hk|Hk]; cbn [negb lookup].
            + split; [|intros m []]. constructor; cbn [f_handler f_h f_cache f_out f_latest f_committed]; triv.
              * intros t Ht. specialize (H6 t Ht). lia.
              * nd H7.
              * inr H8.
            + destruct (N.eqb_spec (f_latest s) h) as [Ek|Ek].
              * split; [|intros m Hm; rewrite <- Ek; apply (H2 (f_latest s) l0 m); [left; reflexivity|exact Hm]].
                constructor; cbn [f_handler f_h f_cache f_out f_latest f_committed]; auto.
                -- intros t Ht. specialize (H6 t Ht). lia.
                -- rewrite Ek in *.
                   assert (N.ltb h h = false) as Hhh by (apply N.ltb_ge; lia).
                   assert (N.ltb (f_h s) h = true) as Hl by (apply N.ltb_lt; lia).
                   unfold out_tags in *; cbn [f_out cfut app] in *. rewrite Hhh. rewrite Hl in H7. nd H7.
                -- inr H8.
              * split; [|intros m []]. constructor; cbn [f_handler f_h f_cache f_out f_latest f_committed]; auto.
                -- intros t Ht. specialize (H6 t Ht). lia.
                -- assert (N.ltb h (f_latest s) = true) as Hhl by (apply N.ltb_lt; lia).
                   assert (N.ltb (f_h s) (f_latest s) = true) as Hl by (apply N.ltb_lt; lia).
                   unfold out_tags in *; cbn [f_out tags map cfut app] in *. rewrite Hhl. rewrite Hl in H7. nd H7. }
        destruct I1 as [I1 Hg]. apply (Hmono I1 Hg).
      * (* monotone, without assuming the invariant: by the structure of the loop *)
        cbn [set_cache f_h].
        assert (forall msgs s', f_h s' <= f_h (drain_loop (advance f) h msgs s')) as Hm.
        { induction msgs as [|m r IHr]; intro s'; cbn [drain_loop]; [lia|].
          destruct (N.eqb (f_h s') h); [|lia].
          assert (f_h s' <= f_h (process (advance f) m s')).
          { unfold process. destruct (f_handler s'); [|lia].
            destruct (m_trigger m && _); [|cbn; lia].
            destruct (IH (mark_committed n (emit n m s')) (n + 1)) as [_ [A _]]. cbn [mark_committed emit f_h] in A. exact A. }
          specialize (IHr (process (advance f) m s')). lia. }
        specialize (Hm l s1). subst s1. cbn [start_height f_h] in Hm. lia.
      * cbn [set_cache f_h]. intro E. exfalso.
        assert (forall msgs s', f_h s' <= f_h (drain_loop (advance f) h msgs s')) as Hm.
        { induction msgs as [|m r IHr]; intro s'; cbn [drain_loop]; [lia|].
          destruct (N.eqb (f_h s') h); [|lia].
          assert (f_h s' <= f_h (process (advance f) m s')).
          { unfold process. destruct (f_handler s'); [|lia].
            destruct (m_trigger m && _); [|cbn; lia].
            destruct (IH (mark_committed n (emit n m s')) (n + 1)) as [_ [A _]]. cbn [mark_committed emit f_h] in A. exact A. }
          specialize (IHr (process (advance f) m s')). lia. }
        specialize (Hm l s1). subst s1. cbn [start_height f_h] in Hm. lia.
Qed.

Lemma push_ok R m s : Inv R s -> good (m_height m) m -> f_h s < m_height m -> ~ In (m_tag m) R ->
  Inv (m_tag m :: R) (push_to_cache m s).
Proof.
  intros I Hg Hf Hfresh. pose proof (cache_shape _ _ _ I) as Sh.
  assert (Hnew : ~ In (m_tag m) (out_tags s ++ call (f_cache s))).
  { intro Hi. apply Hfresh. destruct I as [_ _ _ _ _ _ _ H8]. apply H8. cbn [app]. exact Hi. }
  unfold push_to_cache. destruct (N.ltb_spec (m_height m) (f_latest s)) as [Hl|Hl]; [apply InvX_weaken; exact I|].
  destruct I as [H1 H2 H3 H4 H5 H6 H7 H8].
  destruct (N.ltb_spec (f_latest s) (m_height m)) as [Hn|Hn].
  - (* a new, higher height: everything cached is evicted *)
    assert (Ecl : clear_earlier (m_height m) (f_cache s) = []).
    { destruct Sh as [Ec|[l Ec]]; rewrite Ec; unfold clear_earlier; cbn [filter fst]; [reflexivity|].
      assert (N.ltb (f_latest s) (m_height m) = true) as -> by (apply N.ltb_lt; lia). reflexivity. }
    cbn [set_cache f_cache f_h f_handler f_latest f_committed f_out f_oof]. rewrite Ecl. cbn [append_at].
    constructor; cbn [set_cache f_cache f_h f_handler f_latest f_committed f_out]; triv.
    + intros k l m' [E|[]] Hm'. inversion E; subst. destruct Hm' as [<-|[]]. exact Hg.
    + intros k l [E|[]]. inversion E; reflexivity.
    + unfold out_tags in *. cbn [set_cache f_out f_h f_cache cfut tags map app].
      assert (N.ltb (f_h s) (m_height m) = true) as -> by (apply N.ltb_lt; lia). cbn [app] in *. rewrite ?app_nil_r.
      apply NoDup_app_l in H7.
      apply (Permutation_NoDup (l := m_tag m :: map (fun d => m_tag (snd d)) (f_out s))); [apply Permutation_cons_append|].
      constructor; [|exact H7]. intro Hi. apply Hnew. apply in_or_app. left. exact Hi.
    + intros x Hx. unfold out_tags in *. cbn [set_cache f_out f_cache call tags map app] in Hx. rewrite ?app_nil_r in Hx.
      apply in_app_or in Hx. destruct Hx as [Hx|[<-|[]]]; [right; apply H8; apply in_or_app; left; exact Hx|left; reflexivity].
  - (* the cached height itself: append in arrival order *)
    assert (El : m_height m = f_latest s) by lia.
    cbn [set_cache f_cache f_h f_handler f_latest f_committed f_out f_oof].
    destruct Sh as [Ec|[l Ec]]; rewrite Ec in *; cbn [append_at].
    + constructor; cbn [set_cache f_cache f_h f_handler f_latest f_committed f_out]; triv.
      * intros k l m' [E|[]] Hm'. inversion E; subst. destruct Hm' as [<-|[]]. exact Hg.
      * intros k l [E|[]]. inversion E; subst. exact El.
      * unfold out_tags in *. cbn [set_cache f_out f_h f_cache cfut tags map app] in *.
        assert (N.ltb (f_h s) (m_height m) = true) as -> by (apply N.ltb_lt; lia). cbn [app]. rewrite ?app_nil_r in *.
        apply (Permutation_NoDup (l := m_tag m :: map (fun d => m_tag (snd d)) (f_out s))); [apply Permutation_cons_append|].
        constructor; [|exact H7]. intro Hi. apply Hnew. cbn [call]. rewrite ?app_nil_r. exact Hi.
      * intros x Hx. unfold out_tags in *. cbn [set_cache f_out f_h f_cache call tags map app] in *. rewrite ?app_nil_r in *.
        apply in_app_or in Hx. destruct Hx as [Hx|[<-|[]]]; [right; apply H8; exact Hx|left; reflexivity].
    + assert (N.eqb (f_latest s) (m_height m) = true) as -> by (apply N.eqb_eq; lia).
      constructor; cbn [set_cache f_cache f_h f_handler f_latest f_committed f_out]; triv.
      * intros k l' m' [E|[]] Hm'. inversion E; subst. apply in_app_or in Hm'. destruct Hm' as [Hm'|[<-|[]]].
        -- apply (H2 (f_latest s) l m'); [left; reflexivity|exact Hm'].
        -- rewrite <- El. exact Hg.
      * intros k l' [E|[]]. inversion E; reflexivity.
      * unfold out_tags in *. cbn [set_cache f_out f_h f_cache cfut tags map app] in *. rewrite El in Hf.
        assert (N.ltb (f_h s) (f_latest s) = true) as Hlt by (apply N.ltb_lt; lia). rewrite Hlt in *.
        rewrite ?app_nil_r in *. unfold tags. rewrite map_app. cbn [map]. rewrite app_assoc.
        apply (Permutation_NoDup (l := m_tag m :: (map (fun d => m_tag (snd d)) (f_out s) ++ map m_tag l))); [apply Permutation_cons_append|].
        constructor; [|exact H7]. intro Hi. apply Hnew. cbn [call]. rewrite ?app_nil_r. exact Hi.
      * intros x Hx. unfold out_tags in *. cbn [set_cache f_out f_h f_cache call tags map app] in *. rewrite ?app_nil_r in *.
        unfold tags in Hx. rewrite map_app in Hx. cbn [map] in Hx. rewrite !in_app_iff in Hx. cbn [In] in Hx.
        destruct Hx as [Hx|[Hx|[<-|[]]]]; [right; apply H8; apply in_or_app; left; exact Hx|right; apply H8; apply in_or_app; right; exact Hx|left; reflexivity].
Qed.

Lemma receive_ok R fuel m s : Inv R s -> ~ In (m_tag m) R -> Inv (m_tag m :: R) (receive fuel me inst m s).
Proof.
  intros I Hfresh. unfold receive.
  destruct (N.eqb_spec (m_sender m) me) as [Es|Es]; [apply InvX_weaken; exact I|].
  destruct (N.ltb_spec (m_height m) (f_h s)) as [Hp|Hp]; [apply InvX_weaken; exact I|].
  destruct (N.eqb_spec (m_inst m) inst) as [Ei|Ei]; cbn [negb]; [|apply InvX_weaken; exact I].
  destruct (N.ltb_spec (f_h s) (m_height m)) as [Hf|Hf].
  - apply push_ok; auto. repeat split; auto.
  - assert (Eh : m_height m = f_h s) by lia.
    assert (Ix : InvX (m_tag m :: R) [m_tag m] s).
    { destruct I as [H1 H2 H3 H4 H5 H6 H7 H8]. constructor; auto.
      - cbn [app] in *.
        apply (Permutation_NoDup (l := m_tag m :: (out_tags s ++ cfut (f_h s) (f_cache s)))); [apply Permutation_middle|].
        constructor; [|exact H7]. intro Hi. apply Hfresh. apply H8. rewrite in_app_iff in *. destruct Hi as [Hi|Hi]; [left; exact Hi|right].
        clear - Hi. induction (f_cache s) as [|[k l] r IH]; cbn [cfut call] in *; [exact Hi|].
        rewrite in_app_iff in *. destruct Hi as [Hi|Hi]; [left; destruct (N.ltb (f_h s) k); [exact Hi|destruct Hi]|right; auto].
      - intros x Hx. rewrite !in_app_iff in Hx. cbn [In] in Hx. destruct Hx as [Hx|[[<-|[]]|Hx]]; [right; apply H8; apply in_or_app; left; exact Hx|left; reflexivity|right; apply H8; apply in_or_app; right; exact Hx]. }
    assert (Ha : adv_ok (m_tag m :: R) (advance fuel)) by apply advance_ok.
    destruct (process_ok (m_tag m :: R) (advance fuel) [] m s Ha Ix) as [_ [_ P3]]; [|exact P3].
    intros t Ht. destruct I as [H1 _ _ _ _ _ _ _]. destruct H1 as [H1|H1]; [congruence|].
    rewrite H1 in Ht. inversion Ht; subst. repeat split; auto.
Qed.

Fixpoint recv_tags (ops : list fop) : list N :=
  match ops with [] => [] | FReceive m :: r => m_tag m :: recv_tags r | _ :: r => recv_tags r end.

Lemma recv_tags_app a b : recv_tags (a ++ b) = recv_tags a ++ recv_tags b.
Proof. induction a as [|o a IH]; cbn; [reflexivity|]. destruct o; cbn; rewrite IH; reflexivity. Qed.

Lemma Inv_incl R R' s : Inv R s -> incl R R' -> Inv R' s.
Proof. intros [H1 H2 H3 H4 H5 H6 H7 H8] Hi. constructor; auto. Qed.

Lemma Inv_init : Inv [] f_init.
Proof. constructor; cbn; triv; try constructor; try (intros; contradiction). Qed.

Theorem Inv_reachable ops : NoDup (recv_tags ops) -> Inv (recv_tags ops) (frun me inst ops).
Proof.
  unfold frun. induction ops as [|o ops IH] using rev_ind; intro Hn; [apply Inv_init|].
  rewrite fold_left_app. cbn [fold_left]. rewrite recv_tags_app in *.
  specialize (IH (NoDup_app_l _ _ Hn)). destruct o as [m|h]; cbn [fstep recv_tags].
  - eapply Inv_incl; [apply receive_ok; [exact IH|]|].
    + cbn [recv_tags app] in Hn. intro Hi. apply NoDup_remove_2 in Hn. apply Hn. rewrite ?app_nil_r. exact Hi.
    + intros x [<-|Hx]; apply in_or_app; [right; left; reflexivity|left; exact Hx].
  - rewrite ?app_nil_r. apply (advance_ok (recv_tags ops)). exact IH.
Qed.

(* T1: a message reaches a term only if its height is that term's, its instance is ours and its sender is not us *)
Theorem delivery_guard ops t m : NoDup (recv_tags ops) -> In (t, m) (f_out (frun me inst ops)) ->
  m_height m = t /\ m_inst m = inst /\ m_sender m <> me.
Proof. intros Hn Hi. destruct (Inv_reachable ops Hn) as [_ _ H3 _ _ _ _ _]. exact (H3 t m Hi). Qed.

(* T2: no message is delivered twice (arrivals identified by their tag) *)
Theorem delivered_at_most_once ops : NoDup (recv_tags ops) -> NoDup (out_tags (frun me inst ops)).
Proof. intros Hn. destruct (Inv_reachable ops Hn) as [_ _ _ _ _ _ H7 _]. exact (NoDup_app_l _ _ H7). Qed.

(* only received messages are delivered *)
Theorem delivered_were_received ops x : NoDup (recv_tags ops) -> In x (out_tags (frun me inst ops)) -> In x (recv_tags ops).
Proof. intros Hn Hi. destruct (Inv_reachable ops Hn) as [_ _ _ _ _ _ _ H8]. apply H8. apply in_or_app. left. exact Hi. Qed.

(* ---- what the start of a height delivers ---- *)
Lemma advance_S f s h : advance (S f) s h =
  if N.leb h (f_h s) then s else
  let s1 := start_height h s in
  let s2 := drain_loop (advance f) h (lookup h (f_cache s1)) s1 in
  set_cache (remove_key h (f_cache s2)) s2.
Proof. reflexivity. Qed.

Fixpoint until_trigger (l : list fmsg) : list fmsg :=
  match l with [] => [] | m :: r => if m_trigger m then [m] else m :: until_trigger r end.

Definition core_eq (a b : fstate) : Prop :=
  f_out a = f_out b /\ f_oof a = f_oof b.

Lemma drain_spec f h : forall l s, f_h s = h -> f_handler s = Some h -> ~ In h (f_committed s) ->
  lookup (h + 1) (clear_earlier (h + 1) (f_cache s)) = [] ->
  let s' := drain_loop (advance (S f)) h l s in
  f_out s' = rev (map (pair h) (until_trigger l)) ++ f_out s /\ f_oof s' = f_oof s /\
  (f_h s' = h \/ f_h s' = h + 1).
Proof.
  induction l as [|m r IH]; intros s Eh Ehd Hc Hl; cbn [drain_loop until_trigger].
  - cbn. auto.
  - rewrite Eh, N.eqb_refl. unfold process. rewrite Ehd.
    assert (memN h (f_committed (emit h m s)) = false) as Hm by (apply memN_false_In; exact Hc).
    rewrite Hm. cbn [negb]. rewrite andb_true_r. destruct (m_trigger m) eqn:Et.
    + (* commit inside the delivery: the next height starts, nothing is cached for it, the loop stops *)
      rewrite advance_S. cbn [mark_committed emit f_h]. rewrite Eh.
      assert (N.leb (h + 1) h = false) as -> by (apply N.leb_gt; lia).
      cbn [start_height f_cache mark_committed emit]. rewrite Hl. cbn [drain_loop].
      set (sN := set_cache _ _).
      assert (EN : f_h sN = h + 1) by reflexivity.
      assert (Hstop : drain_loop (advance (S f)) h r sN = sN).
      { destruct r; [reflexivity|]. cbn [drain_loop]. rewrite EN. assert (N.eqb (h + 1) h = false) as -> by (apply N.eqb_neq; lia). reflexivity. }
      rewrite Hstop. subst sN. cbn. auto.
    + destruct (IH (emit h m s)) as [I1 [I2 I3]]; auto.
      cbn zeta in *. rewrite I1, I2. cbn [emit f_out f_oof map rev]. rewrite <- app_assoc. cbn. auto.
Qed.

Lemma lookup_clear_earlier_same h c : lookup h (clear_earlier h c) = lookup h c.
Proof.
  unfold clear_earlier. induction c as [|[k l] r IH]; cbn [filter fst lookup]; [reflexivity|].
  destruct (N.ltb_spec k h) as [Hk|Hk]; cbn [negb lookup].
  - assert (N.eqb k h = false) as -> by (apply N.eqb_neq; lia). exact IH.
  - destruct (N.eqb k h); [reflexivity|exact IH].
Qed.

Theorem advance_delivers R s h f : Inv R s -> f_h s < h ->
  let s' := advance (S (S f)) s h in
  f_out s' = rev (map (pair h) (until_trigger (lookup h (f_cache s)))) ++ f_out s /\ f_oof s' = f_oof s /\
  (f_h s' = h \/ f_h s' = h + 1).
Proof.
  intros I Hlt. pose proof (cache_shape _ _ _ I) as Sh. destruct I as [H1 H2 H3 H4 H5 H6 H7 H8].
  cbn zeta. rewrite advance_S. assert (N.leb h (f_h s) = false) as -> by (apply N.leb_gt; lia).
  cbn zeta. set (s1 := start_height h s).
  assert (El : lookup h (f_cache s1) = lookup h (f_cache s)) by apply lookup_clear_earlier_same.
  rewrite El. destruct (lookup h (f_cache s)) as [|m0 l0] eqn:Elk.
  - cbn. auto.
  - destruct (drain_spec f h (m0 :: l0) s1) as [D1 [D2 D3]]; try reflexivity.
    + intro Hi. specialize (H6 h Hi). lia.
    + subst s1. cbn [start_height f_cache]. destruct Sh as [Ec|[lc Ec]]; rewrite Ec in *; [discriminate|].
      cbn [lookup] in Elk. destruct (N.eqb_spec (f_latest s) h) as [Ek|Ek]; [|discriminate].
      unfold clear_earlier. cbn [filter fst]. rewrite Ek.
      assert (N.ltb h h = false) as -> by (apply N.ltb_ge; lia). cbn [negb filter fst].
      assert (N.ltb h (h + 1) = true) as -> by (apply N.ltb_lt; lia). reflexivity.
    + cbn zeta in *. cbn [set_cache f_out f_oof f_h]. rewrite D1, D2. auto.
Qed.

Lemma advance_no_oof R s h f : Inv R s -> f_oof (advance (S (S f)) s h) = f_oof s.
Proof.
  intro I. destruct (N.le_gt_cases h (f_h s)) as [Hle|Hgt].
  - rewrite advance_S. assert (N.leb h (f_h s) = true) as -> by (apply N.leb_le; lia). reflexivity.
  - destruct (advance_delivers R s h f I Hgt) as [_ [E _]]. exact E.
Qed.

(* a message accepted for caching is appended behind the earlier ones of its height; a higher height evicts *)
Theorem receive_cached R fuel m s : Inv R s -> m_sender m <> me -> m_inst m = inst -> f_h s < m_height m ->
  f_latest s <= m_height m ->
  let s' := receive fuel me inst m s in
  lookup (m_height m) (f_cache s') = (if N.ltb (f_latest s) (m_height m) then [] else lookup (m_height m) (f_cache s)) ++ [m]
  /\ f_out s' = f_out s /\ f_h s' = f_h s /\ f_latest s' = m_height m /\ f_oof s' = f_oof s /\ f_handler s' = f_handler s /\ f_committed s' = f_committed s.
Proof.
  intros I Hs Hi Hf Hl. pose proof (cache_shape _ _ _ I) as Sh. cbn zeta. unfold receive.
  assert (N.eqb (m_sender m) me = false) as -> by (apply N.eqb_neq; exact Hs).
  assert (N.ltb (m_height m) (f_h s) = false) as -> by (apply N.ltb_ge; lia).
  assert (N.eqb (m_inst m) inst = true) as -> by (apply N.eqb_eq; exact Hi). cbn [negb].
  assert (N.ltb (f_h s) (m_height m) = true) as -> by (apply N.ltb_lt; lia).
  unfold push_to_cache. assert (N.ltb (m_height m) (f_latest s) = false) as -> by (apply N.ltb_ge; lia).
  destruct (N.ltb_spec (f_latest s) (m_height m)) as [Hn|Hn]; cbn [set_cache f_cache f_out f_h f_latest f_oof f_handler f_committed].
  - assert (Ecl : clear_earlier (m_height m) (f_cache s) = []).
    { destruct Sh as [Ec|[l Ec]]; rewrite Ec; unfold clear_earlier; cbn [filter fst]; [reflexivity|].
      assert (N.ltb (f_latest s) (m_height m) = true) as -> by (apply N.ltb_lt; lia). reflexivity. }
    rewrite Ecl. cbn [append_at lookup]. rewrite N.eqb_refl. repeat split; reflexivity.
  - assert (El : m_height m = f_latest s) by lia.
    destruct Sh as [Ec|[l Ec]]; rewrite Ec; cbn [append_at lookup].
    + rewrite N.eqb_refl. repeat split; auto.
    + rewrite El, N.eqb_refl. cbn [lookup]. rewrite N.eqb_refl. repeat split; auto.
Qed.

(* a rejected message (own, past, foreign instance) or one below the cached height changes nothing *)
Theorem receive_dropped fuel m s :
  m_sender m = me \/ m_height m < f_h s \/ m_inst m <> inst \/ (f_h s < m_height m /\ m_height m < f_latest s) ->
  receive fuel me inst m s = s.
Proof.
  intro H. unfold receive.
  destruct (N.eqb_spec (m_sender m) me) as [Es|Es]; [reflexivity|].
  destruct (N.ltb_spec (m_height m) (f_h s)) as [Hp|Hp]; [reflexivity|].
  destruct (N.eqb_spec (m_inst m) inst) as [Ei|Ei]; cbn [negb]; [|reflexivity].
  destruct H as [H|[H|[H|[H1 H2]]]]; try congruence; try lia.
  assert (N.ltb (f_h s) (m_height m) = true) as -> by (apply N.ltb_lt; lia).
  unfold push_to_cache. assert (N.ltb (m_height m) (f_latest s) = true) as -> by (apply N.ltb_lt; lia). reflexivity.
Qed.

Example filter_nonvacuous :
  let mk h t tr := {| m_height := h; m_inst := 5; m_sender := 1; m_tag := t; m_trigger := tr |} in
  map (fun d => (fst d, m_tag (snd d)))
      (rev (f_out (frun 7 5 [FAdvance 1; FReceive (mk 2 1 false); FReceive (mk 2 2 true); FReceive (mk 2 3 false);
                             FReceive (mk 1 4 true); FReceive (mk 3 5 false)])))
  = [(1, 4); (2, 1); (2, 2); (3, 5)].
Proof. vm_compute. reflexivity. Qed.
End WithIds.
