(* LiveWorld.v — the "good view" half of C05 on the global model of World.v.
   If correct members of quorum weight are in one view v, hold its (correct) leader's proposal (v, h) and are still
   deciding the height, then delivering their PREPAREs and then their COMMITs among them - no election trigger fires in
   between, which is what "every message is delivered before any timer fires" buys - makes every one of them commit,
   and commit (v, h) unless it had committed already. The state they start from is any reachable one: whatever the
   adversary stored at them earlier does not matter.
   What this file does not prove is the other half, view synchronisation: that the exponentially growing timeouts
   bring quorum weight of correct members into one view led by a correct member. *)
From Coq Require Import Lia.
From LH Require Import Prims Quorum QuorumFacts Contexts Msg Term TermFacts AbsSafety Own Accept World Live.
Open Scope N_scope.

Section LW.
Variable H : N.
Variable cm : committee.
Hypothesis Hw : total cm < W64.
Variable honest : N -> bool.
Variable cfg : N -> ncfg.
Hypothesis cfg_me : forall i, c_me (cfg i) = i.
Variable st_wm : N -> option hv.
Variable st_shut : N -> bool.
Variable st_fresh : N -> N.
Variable st_lead : N -> bool.

Local Notation nstate := (World.nstate H cm cfg st_wm st_shut st_fresh st_lead).
Local Notation wrun := (World.wrun H cm honest cfg st_wm st_shut st_fresh st_lead).
Local Notation good := (World.good cm honest).
Local Notation auth_msg := (World.auth_msg H cm honest cfg st_wm st_shut st_fresh st_lead).
Local Notation auth_ref := (World.auth_ref H cm honest cfg st_wm st_shut st_fresh st_lead).
Local Notation auth_vote := (World.auth_vote H cm honest cfg st_wm st_shut st_fresh st_lead).
Local Notation auth_proof := (World.auth_proof H cm honest cfg st_wm st_shut st_fresh st_lead).
Local Notation node_inv := (World.node_inv H cm Hw honest cfg cfg_me st_wm st_shut st_fresh st_lead).
Local Notation node_step := (World.node_step H cm Hw honest cfg cfg_me st_wm st_shut st_fresh st_lead).
Local Notation snoc_same := (World.nstate_snoc_same H cm cfg st_wm st_shut st_fresh st_lead).
Local Notation snoc_other := (World.nstate_snoc_other H cm cfg st_wm st_shut st_fresh st_lead).
Local Notation gev := (N * tev)%type.

(* ---- authenticity only grows ---- *)
Lemma signed_ref_mono x x' r : incl (tc_out x) (tc_out x') -> signed_ref x r -> signed_ref x' r.
Proof.
  intros Hi (to & Hs). exists to.
  destruct Hs as [(sg & b & Hs)|[(sg & Hs)|[(sg & o & Hs)|(ty & i & h & v & vs & sg & pps & b & Hs)]]].
  - left. exists sg, b. apply Hi. exact Hs.
  - right; left. exists sg. apply Hi. exact Hs.
  - right; right; left. exists sg, o. apply Hi. exact Hs.
  - right; right; right. exists ty, i, h, v, vs, sg, pps, b. apply Hi. exact Hs.
Qed.

Lemma step_grows run i e : wrun run -> good i -> tev_ok (cfg i) H e -> forall j,
  incl (tc_out (nstate j run)) (tc_out (nstate j (run ++ [(i, e)]))) /\ incl (Vt j (nstate j run)) (Vt j (nstate j (run ++ [(i, e)]))).
Proof.
  intros Hr Hg Hok j. destruct (N.eq_dec j i) as [->|Hne].
  - rewrite snoc_same. pose proof (node_step run i e Hr Hg Hok) as S. split; [apply (ss_out _ _ _ _ S)|].
    destruct (step_facts_mono _ _ _ _ S) as (_ & _ & _ & D0). rewrite cfg_me in D0. exact D0.
  - rewrite (snoc_other i j e run Hne). split; apply incl_refl.
Qed.

Lemma auth_ref_mono run i e r s : wrun run -> good i -> tev_ok (cfg i) H e -> auth_ref run r s -> auth_ref (run ++ [(i, e)]) r s.
Proof.
  intros Hr Hg Hok Ha Hs Hgs. eapply signed_ref_mono; [apply (step_grows run i e Hr Hg Hok)|]. apply Ha; assumption.
Qed.
Lemma auth_proof_mono run i e p : wrun run -> good i -> tev_ok (cfg i) H e -> auth_proof run p -> auth_proof (run ++ [(i, e)]) p.
Proof. intros Hr Hg Hok [A B]. split; [apply auth_ref_mono; assumption|intros s Hs; apply auth_ref_mono; auto]. Qed.
Lemma auth_vote_mono run i e vt : wrun run -> good i -> tev_ok (cfg i) H e -> auth_vote run vt -> auth_vote (run ++ [(i, e)]) vt.
Proof.
  intros Hr Hg Hok [A B]. split; [|intros p Hp; apply auth_proof_mono; auto].
  intros Hs Hgs. apply (step_grows run i e Hr Hg Hok). apply A; assumption.
Qed.
Lemma auth_msg_mono run i e m : wrun run -> good i -> tev_ok (cfg i) H e -> auth_msg run m -> auth_msg (run ++ [(i, e)]) m.
Proof.
  intros Hr Hg Hok. destruct m; cbn [World.auth_msg]; try (apply auth_ref_mono; assumption); [apply auth_vote_mono; assumption|].
  intros [A B]. split; [intros vt Hvt; apply auth_vote_mono; auto|apply auth_ref_mono; assumption].
Qed.

(* ---- delivering a list of authentic messages to one member, nothing else happening ---- *)
Definition deliveries (i : N) (ms : list msg) : list gev := map (fun m => (i, TMsg m None false)) ms.

Lemma deliver_run i ms : forall run, wrun run -> good i ->
  (forall m, In m ms -> msg_height m = H /\ msg_sender m <> i /\ auth_msg run m) ->
  wrun (run ++ deliveries i ms) /\
  nstate i (run ++ deliveries i ms) = fold_left (fun x m => thandle (cfg i) None false x m) ms (nstate i run) /\
  (forall j, j <> i -> nstate j (run ++ deliveries i ms) = nstate j run) /\
  (forall m, auth_msg run m -> auth_msg (run ++ deliveries i ms) m).
Proof.
  induction ms as [|m ms IH]; intros run Hr Hg Hms; cbn [deliveries map fold_left].
  - rewrite app_nil_r. auto.
  - destruct (Hms m (or_introl eq_refl)) as (Hh & Hs & Ha).
    assert (Hok : tev_ok (cfg i) H (TMsg m None false)) by (cbn [tev_ok]; rewrite cfg_me; auto).
    assert (Hr1 : wrun (run ++ [(i, TMsg m None false)])).
    { constructor; auto. intros m0 wm' sh' Em. inversion Em; subst. exact Ha. }
    assert (Hms1 : forall m0, In m0 ms -> msg_height m0 = H /\ msg_sender m0 <> i /\ auth_msg (run ++ [(i, TMsg m None false)]) m0).
    { intros m0 H0. destruct (Hms m0 (or_intror H0)) as (A & B & C0). split; [exact A|]. split; [exact B|]. apply auth_msg_mono; assumption. }
    destruct (IH _ Hr1 Hg Hms1) as (A & B & C0 & D0). fold (deliveries i ms) in *.
    replace (run ++ (i, TMsg m None false) :: deliveries i ms) with ((run ++ [(i, TMsg m None false)]) ++ deliveries i ms) by (rewrite <- app_assoc; reflexivity).
    split; [exact A|]. split; [rewrite B, snoc_same; reflexivity|]. split.
    + intros j Hne. rewrite (C0 j Hne). apply snoc_other. exact Hne.
    + intros m0 H0. apply D0. apply auth_msg_mono; assumption.
Qed.

(* ---- what a correct member's lock carries along a run ---- *)
Definition LC (c : ncfg) (x : tc) : Prop :=
  forall v, lockv x = Some v ->
    (exists en, get_pp (tc_t x) v = Some en) /\ In (v, hash_at (tc_t x) v) (C x) /\ has_c (tc_t x) v (hash_at (tc_t x) v) (c_me c) = true.

Lemma has_c_mono t t' v h i : incl (t_c t) (t_c t') -> has_c t v h i = true -> has_c t' v h i = true.
Proof.
  intros Hi Hc. unfold has_c in *. apply memN_In. apply memN_In in Hc. apply in_map_iff in Hc. destruct Hc as (s0 & E0 & Hs0).
  apply in_map_iff. exists s0. split; [exact E0|]. apply In_bucket. apply Hi. apply In_bucket. exact Hs0.
Qed.

Lemma LC_step c e x x' : step_sum c e x x' -> LC c x -> LC c x'.
Proof.
  intros S HL v Hv. destruct (ss_lock _ _ _ _ S) as [Heq|(v0 & L1 & L2 & L3 & L4 & L5 & L6 & L7)].
  - rewrite Heq in Hv. destruct (HL v Hv) as ((en & G) & HC & Hh).
    assert (G' : get_pp (tc_t x') v = Some en) by (apply (ss_ppmono _ _ _ _ S); exact G).
    assert (Eh : hash_at (tc_t x') v = hash_at (tc_t x) v) by (unfold hash_at; rewrite G, G'; reflexivity).
    rewrite Eh. split; [exists en; exact G'|]. split.
    + unfold C in *. apply in_flat_map in HC. destruct HC as (m & Hm & HC). apply in_flat_map. exists m. split; [|exact HC].
      revert Hm. apply sent_of_incl. apply (ss_out _ _ _ _ S).
    + eapply has_c_mono; [apply (ss_cmono _ _ _ _ S)|exact Hh].
  - rewrite L1 in Hv. assert (Hv0 : v0 = v) by congruence. rewrite <- Hv0. clear Hv Hv0. destruct L4 as (en & G & _). split; [exists en; exact G|]. split; assumption.
Qed.

Lemma LC_holds run : wrun run -> forall i, good i -> LC (cfg i) (nstate i run).
Proof.
  induction 1 as [|run i0 e Hr IH Hg0 Hok Ha]; intros i Hg.
  - rewrite World.nstate_nil. intros v Hv. exfalso. revert Hv. unfold World.nstart, tstart, start_term, init_view, lockv.
    cbn [tc_v N.ltb N.compare tc_t new_tstate t_h t_cm].
    repeat (match goal with |- context [if ?b then _ else _] => destruct b end); cbn; discriminate.
  - destruct (N.eq_dec i i0) as [->|Hne]; [|rewrite (snoc_other i0 i e run Hne); apply IH; exact Hg].
    rewrite snoc_same. eapply LC_step; [apply (node_step run i0 e Hr Hg0 Hok)|apply IH; exact Hg].
Qed.

(* ---- one phase: every member of Q' gets its own list of messages, one member after the other ---- *)
Lemma deliver_all (ms : N -> list msg) : forall Q' run0, wrun run0 -> NoDup Q' ->
  (forall i, In i Q' -> good i /\ forall m, In m (ms i) -> msg_height m = H /\ msg_sender m <> i /\ auth_msg run0 m) ->
  let ext := flat_map (fun i => deliveries i (ms i)) Q' in
  wrun (run0 ++ ext) /\
  (forall i, In i Q' -> nstate i (run0 ++ ext) = fold_left (fun x m => thandle (cfg i) None false x m) (ms i) (nstate i run0)) /\
  (forall j, ~ In j Q' -> nstate j (run0 ++ ext) = nstate j run0) /\
  (forall m, auth_msg run0 m -> auth_msg (run0 ++ ext) m).
Proof.
  induction Q' as [|i Q' IH]; intros run0 Hr Hnd HQ; cbn zeta; cbn [flat_map].
  - rewrite app_nil_r. split; [exact Hr|]. split; [intros i []|]. split; auto.
  - inversion Hnd as [|? ? Hni Hnd']; subst.
    destruct (HQ i (or_introl eq_refl)) as (Hg & Hms).
    destruct (deliver_run i (ms i) run0 Hr Hg Hms) as (A1 & A2 & A3 & A4).
    set (run1 := run0 ++ deliveries i (ms i)) in *.
    assert (HQ1 : forall j, In j Q' -> good j /\ forall m, In m (ms j) -> msg_height m = H /\ msg_sender m <> j /\ auth_msg run1 m).
    { intros j Hj. destruct (HQ j (or_intror Hj)) as (Hgj & Hmj). split; [exact Hgj|]. intros m Hm. destruct (Hmj m Hm) as (B1 & B2 & B3). auto. }
    destruct (IH run1 A1 Hnd' HQ1) as (C1 & C2 & C3 & C4). cbn zeta in *.
    replace (run0 ++ deliveries i (ms i) ++ flat_map (fun i0 => deliveries i0 (ms i0)) Q') with (run1 ++ flat_map (fun i0 => deliveries i0 (ms i0)) Q') by (subst run1; rewrite <- app_assoc; reflexivity).
    split; [exact C1|]. split; [|split].
    + intros j [<-|Hj]; [rewrite (C3 i Hni); exact A2|].
      rewrite (C2 j Hj). rewrite (A3 j); [reflexivity|]. intro Ej; subst j. contradiction.
    + intros j Hj. rewrite C3; [|intro Hj'; apply Hj; right; exact Hj']. apply A3. intro Ej; subst j. apply Hj. left. reflexivity.
    + intros m Hm. apply C4. apply A4. exact Hm.
Qed.

Lemma fold_left_map {A B X} (f : X -> B -> X) (g : A -> B) l x : fold_left f (map g l) x = fold_left (fun a y => f a (g y)) l x.
Proof. revert x. induction l as [|a l IH]; intro x; cbn [map fold_left]; [reflexivity|apply IH]. Qed.

Lemma choose_list {A B} (P : A -> B -> Prop) l : (forall a, In a l -> exists b, P a b) -> exists lb, Forall2 P l lb.
Proof.
  induction l as [|a l IH]; intro Hl; [exists []; constructor|].
  destruct (Hl a (or_introl eq_refl)) as (b & Hb). destruct IH as (lb & Hlb); [intros a0 H0; apply Hl; right; exact H0|].
  exists (b :: lb). constructor; assumption.
Qed.

Lemma C_sent x v h : In (v, h) (C x) -> exists to r s o, In (OSend to (MC r s o)) (tc_out x) /\ r_view r = v /\ r_hash r = h.
Proof.
  unfold C, sent_of. intro HC. apply in_flat_map in HC. destruct HC as (m & Hm & HC). apply in_flat_map in Hm. destruct Hm as (o & Ho & Hm).
  destruct o as [to m0| | | | | |]; try contradiction; cbn in Hm; try contradiction.
  destruct Hm as [<-|[]]. destruct m0; cbn in HC; try contradiction. destruct HC as [HC|[]]. inversion HC; subst. eauto 10.
Qed.

(* ---- the good view ---- *)
Variable v h : N.
Variable Q : list N.
Hypothesis Qnd : NoDup Q.
Hypothesis Qgood : forall i, In i Q -> good i.
Hypothesis Qquorum : isQ_ids cm Q = true.
Notation Ld := (leaderOf cm v).
Hypothesis Qthird : forall i, In i Q -> exists j, In j Q /\ j <> i /\ j <> Ld.

(* member i is in view v, holds the proposal (v, h) of v's leader and (unless it leads v itself) has answered it with
   its PREPARE: what the code does on accepting a proposal *)
Record joined (run : list gev) (i : N) : Prop := {
  j_view : tc_v (nstate i run) = v;
  j_pp : exists en, is_preprepared (tc_t (nstate i run)) v h = Some en /\ s_id (pe_snd en) = Ld;
  j_prep : i <> Ld -> has_p (tc_t (nstate i run)) v h i = true /\
            exists to, In (OSend to (MP (mk_ref T_PREPARE (cfg i) H v h) (my_sig (cfg i)))) (tc_out (nstate i run))
}.

(* what the code does on accepting the proposal (Live.accepted) is what [joined] asks of a member *)
Lemma accepted_joined run i : wrun run -> good i -> accepted (cfg i) (nstate i run) v h -> joined run i.
Proof.
  intros Hr Hg (A1 & (en & A2 & A2') & A3 & to & A4). destruct (node_inv run i Hr Hg) as (_ & _ & Hh & Hcm & _).
  rewrite Hcm in A2'. rewrite Hh, cfg_me in *. constructor; [exact A1|exists en; auto|intros _; split; [exact A3|exists to; exact A4]].
Qed.
(* ... and the leader of v needs only to be in v holding its own proposal *)
Lemma leader_joined run : tc_v (nstate Ld run) = v ->
  (exists en, is_preprepared (tc_t (nstate Ld run)) v h = Some en /\ pe_snd en = my_sig (cfg Ld)) -> joined run Ld.
Proof.
  intros A1 (en & A2 & A3). constructor; [exact A1|exists en; split; [exact A2|rewrite A3; cbn; apply cfg_me]|intro Hx; contradiction].
Qed.

Definition prep_pair (j : N) : bref * ssig := (mk_ref T_PREPARE (cfg j) H v h, my_sig (cfg j)).
Definition preps_for (i : N) : list (bref * ssig) := map prep_pair (filter (fun j => negb (j =? i) && negb (j =? Ld)) Q).
Definition prep_msgs (i : N) : list msg := map (fun q => MP (fst q) (snd q)) (preps_for i).

Lemma in_preps_for i q : In q (preps_for i) <-> exists j, q = prep_pair j /\ In j Q /\ j <> i /\ j <> Ld.
Proof.
  unfold preps_for. rewrite in_map_iff. split.
  - intros (j & <- & Hj). apply filter_In in Hj. destruct Hj as (Hj & Hb). apply andb_true_iff in Hb. destruct Hb as [B1 B2].
    apply negb_true_iff in B1, B2. apply N.eqb_neq in B1, B2. eauto.
  - intros (j & -> & Hj & N1 & N2). exists j. split; [reflexivity|]. apply filter_In. split; [exact Hj|].
    apply andb_true_iff. split; apply negb_true_iff; apply N.eqb_neq; assumption.
Qed.

Theorem prepare_phase run : wrun run -> (forall i, In i Q -> joined run i) ->
  let ext := flat_map (fun i => deliveries i (prep_msgs i)) Q in
  wrun (run ++ ext) /\ (forall j, ~ In j Q -> nstate j (run ++ ext) = nstate j run) /\
  forall i, In i Q -> joined (run ++ ext) i /\ lockv (nstate i (run ++ ext)) = Some v /\
                      has_c (tc_t (nstate i (run ++ ext))) v h i = true /\
                      (t_committed (tc_t (nstate i run)) = false -> t_committed (tc_t (nstate i (run ++ ext))) = true -> In (v, h) (D (nstate i (run ++ ext)))) /\
                      incl (D (nstate i run)) (D (nstate i (run ++ ext))).
Proof.
  intros Hr HJ. cbn zeta.
  assert (HQ : forall i, In i Q -> good i /\ forall m, In m (prep_msgs i) -> msg_height m = H /\ msg_sender m <> i /\ auth_msg run m).
  { intros i Hi. split; [apply Qgood; exact Hi|]. intros m Hm. unfold prep_msgs in Hm. apply in_map_iff in Hm. destruct Hm as (q & <- & Hq).
    apply in_preps_for in Hq. destruct Hq as (j & -> & Hj & N1 & N2). cbn [prep_pair fst snd msg_height msg_sender mk_ref r_height my_sig s_id].
    split; [reflexivity|]. split; [rewrite cfg_me; exact N1|]. cbn [World.auth_msg]. intros _ _. cbn [my_sig s_id]. rewrite cfg_me.
    destruct (j_prep _ _ (HJ j Hj) N2) as (_ & to & Hs). exists to. right; left. eexists. exact Hs. }
  destruct (deliver_all prep_msgs Q run Hr Qnd HQ) as (A1 & A2 & A3 & A4). cbn zeta in *.
  set (ext := flat_map (fun i => deliveries i (prep_msgs i)) Q) in *.
  split; [exact A1|]. split; [exact A3|]. intros i Hi.
  assert (EQ : fold_left (fun x m => thandle (cfg i) None false x m) (prep_msgs i) (nstate i run) = deliver_prepares (cfg i) None false (nstate i run) (preps_for i))
    by (unfold prep_msgs, deliver_prepares; rewrite fold_left_map; reflexivity).
  assert (Ex : nstate i (run ++ ext) = deliver_prepares (cfg i) None false (nstate i run) (preps_for i)) by (rewrite (A2 i Hi); exact EQ). clear EQ.
  pose proof (Qgood i Hi) as Hg. destruct (node_inv run i Hr Hg) as (TI & SI & Hh & Hcm & _).
  destruct (HJ i Hi) as [J1 (en & J2 & J2') J3].
  assert (Hds : forall q, In q (preps_for i) -> p_ok (nstate i run) v h q).
  { intros q Hq. apply in_preps_for in Hq. destruct Hq as (j & -> & Hj & N1 & N2). unfold p_ok, is_for. cbn [prep_pair fst snd mk_ref r_type r_view r_hash my_sig s_id s_ok].
    rewrite Hcm, cfg_me. split; [auto|]. split; [apply (Qgood j Hj)|]. split; [reflexivity|exact N2]. }
  assert (Hv : tc_v (nstate i run) <= v) by lia.
  destruct (deliver_prepares_facts (cfg i) None false v h (preps_for i) (nstate i run) Hv Hds) as (B1 & B2 & B3 & B4 & B5 & B6 & B7 & B8 & B9 & B10 & B11 & B12). cbn zeta in *.
  assert (Hne : preps_for i <> []).
  { destruct (Qthird i Hi) as (j & Hj & N1 & N2). intro E0. assert (Hin : In (prep_pair j) (preps_for i)) by (apply in_preps_for; eauto). rewrite E0 in Hin. exact Hin. }
  destruct (prepare_quorum_prepares (cfg i) None false (nstate i run) v h (preps_for i) en Hne Hv Hds J2) as [R1 R2].
  - rewrite cfg_me, J2'. intro Hnl. apply (J3 Hnl).
  - rewrite Hcm. unfold isQ_ids in *. eapply isQ_mono; [exact Hw| |exact Qquorum]. intros j Hj. rewrite cfg_me, J2'.
    destruct (N.eq_dec j i) as [->|N1]; [left; reflexivity|right]. apply in_or_app.
    destruct (N.eq_dec j Ld) as [->|N2]; [right; left; reflexivity|left].
    apply in_map_iff. exists (prep_pair j). split; [cbn; apply cfg_me|]. apply in_preps_for. eauto.
  - rewrite Hcm. exact Hw.
  - rewrite Ex. split; [|split; [exact R1|split; [|split; [exact B12|]]]].
    + constructor; rewrite Ex.
      * rewrite B4. exact J1.
      * exists en. split; [|exact J2']. rewrite (is_preprepared_ext _ _ _ _ B1). exact J2.
      * intro Hnl. destruct (J3 Hnl) as (P1 & to & P2). split; [apply B5; exact P1|]. exists to. apply B10. exact P2.
    + rewrite (cfg_me i) in R2. apply R2. intro Hlk. destruct (LC_holds run Hr i Hg v Hlk) as (_ & _ & L3). rewrite (cfg_me i) in L3.
      destruct (is_preprepared_some _ _ _ _ J2) as (G1 & G2 & _). unfold hash_at in L3. rewrite G1, G2 in L3. exact L3.
    + intros q Hq. unfold D in *. apply in_flat_map in Hq. destruct Hq as (o & Ho & Hq). apply in_flat_map. exists o. split; [apply B10; exact Ho|exact Hq].
Qed.

Lemma Forall2_in_l {A B} (P : A -> B -> Prop) l lb a : Forall2 P l lb -> In a l -> exists b, In b lb /\ P a b.
Proof. induction 1 as [|a0 b0 l lb H0 HF IH]; intros []; [subst; eauto using in_eq|destruct IH as (b & Hb & Pb); eauto using in_cons]. Qed.
Lemma Forall2_in_r {A B} (P : A -> B -> Prop) l lb b : Forall2 P l lb -> In b lb -> exists a, In a l /\ P a b.
Proof. induction 1 as [|a0 b0 l lb H0 HF IH]; intros []; [subst; eauto using in_eq|destruct IH as (a & Ha & Pa); eauto using in_cons]. Qed.

Definition commit_of (run : list gev) (j : N) (q : bref * ssig) : Prop :=
  snd q = my_sig (cfg j) /\ is_for T_COMMIT v h q /\ r_height (fst q) = H /\ exists to, In (OSend to (MC (fst q) (snd q) true)) (tc_out (nstate j run)).

Definition prepared_in (run : list gev) (i : N) : Prop :=
  joined run i /\ lockv (nstate i run) = Some v /\ has_c (tc_t (nstate i run)) v h i = true.

Lemma prepared_has_commit run j : wrun run -> good j -> prepared_in run j -> exists q, commit_of run j q.
Proof.
  intros Hr Hg ([J1 (en & J2 & J2') J3] & Hlk & Hc).
  destruct (LC_holds run Hr j Hg v Hlk) as (_ & L2 & _).
  destruct (is_preprepared_some _ _ _ _ J2) as (G1 & G2 & _). unfold hash_at in L2. rewrite G1, G2 in L2.
  destruct (C_sent _ _ _ L2) as (to & r & s & o & Hs & Ev & Eh).
  destruct (node_inv run j Hr Hg) as (TI & _ & Hh & _).
  destruct (ti_mc _ _ TI _ _ _ _ Hs) as (Ty & Ht & _).
  assert (OM : outs_mine (cfg j) (nstate j run)) by (rewrite World.nstate_trun; apply trun_outs_mine).
  unfold outs_mine in OM. rewrite Forall_forall in OM. destruct (OM _ Hs) as [-> ->].
  exists (r, my_sig (cfg j)). unfold commit_of, is_for. cbn [fst snd]. split; [reflexivity|]. split; [auto|]. split; [congruence|]. exists to. exact Hs.
Qed.

Definition commit_msgs (cs : list (bref * ssig)) (i : N) : list msg :=
  map (fun q => MC (fst q) (snd q) true) (filter (fun q => negb (s_id (snd q) =? i)) cs).

Theorem commit_phase run : wrun run -> (forall i, In i Q -> prepared_in run i) ->
  exists cs, let ext := flat_map (fun i => deliveries i (commit_msgs cs i)) Q in
  wrun (run ++ ext) /\ (forall j, ~ In j Q -> nstate j (run ++ ext) = nstate j run) /\
  forall i, In i Q -> t_committed (tc_t (nstate i (run ++ ext))) = true /\
                      (t_committed (tc_t (nstate i run)) = false -> In (v, h) (D (nstate i (run ++ ext)))) /\
                      incl (D (nstate i run)) (D (nstate i (run ++ ext))).
Proof.
  intros Hr HP.
  destruct (choose_list (commit_of run) Q) as (cs & Hcs); [intros j Hj; apply prepared_has_commit; auto|].
  exists cs. cbn zeta.
  assert (HQ : forall i, In i Q -> good i /\ forall m, In m (commit_msgs cs i) -> msg_height m = H /\ msg_sender m <> i /\ auth_msg run m).
  { intros i Hi. split; [apply Qgood; exact Hi|]. intros m Hm. unfold commit_msgs in Hm. apply in_map_iff in Hm. destruct Hm as (q & <- & Hq).
    apply filter_In in Hq. destruct Hq as (Hq & Hb). apply negb_true_iff, N.eqb_neq in Hb.
    destruct (Forall2_in_r _ _ _ _ Hcs Hq) as (j & Hj & Sq & _ & Hq3 & to & Hs). cbn [msg_height msg_sender].
    split; [exact Hq3|]. split; [exact Hb|]. cbn [World.auth_msg]. intros _ _. rewrite Sq in *. cbn [my_sig s_id]. rewrite cfg_me.
    exists to. right; right; left. eexists _, _. exact Hs. }
  destruct (deliver_all (commit_msgs cs) Q run Hr Qnd HQ) as (A1 & A2 & A3 & A4). cbn zeta in *.
  set (ext := flat_map (fun i => deliveries i (commit_msgs cs i)) Q) in *.
  split; [exact A1|]. split; [exact A3|]. intros i Hi.
  set (ds := filter (fun q => negb (s_id (snd q) =? i)) cs).
  assert (Ex : nstate i (run ++ ext) = deliver_commits (cfg i) None false (nstate i run) ds)
    by (rewrite (A2 i Hi); unfold commit_msgs, deliver_commits; rewrite fold_left_map; reflexivity).
  rewrite Ex.
  pose proof (Qgood i Hi) as Hg. destruct (node_inv run i Hr Hg) as (TI & SI & Hh & Hcm & _).
  destruct (HP i Hi) as ([J1 (en & J2 & J2') J3] & Hlk & Hc).
  assert (Hds : forall q, In q ds -> is_for T_COMMIT v h q /\ isMember (t_cm (tc_t (nstate i run))) (s_id (snd q)) = true /\ s_ok (snd q) = true).
  { intros q Hq. apply filter_In in Hq. destruct Hq as (Hq & _). destruct (Forall2_in_r _ _ _ _ Hcs Hq) as (j & Hj & Sq & Fq & _).
    split; [exact Fq|]. rewrite Sq, Hcm. cbn [my_sig s_id s_ok]. rewrite cfg_me. split; [apply (Qgood j Hj)|reflexivity]. }
  assert (Hne : ds <> []).
  { destruct (Qthird i Hi) as (j & Hj & N1 & _). destruct (Forall2_in_l _ _ _ _ Hcs Hj) as (q & Hq & Sq & _).
    intro E0. assert (Hin : In q ds) by (apply filter_In; split; [exact Hq|]; rewrite Sq; cbn [my_sig s_id]; rewrite cfg_me; apply negb_true_iff, N.eqb_neq; exact N1).
    rewrite E0 in Hin. exact Hin. }
  destruct (commit_quorum_commits (cfg i) None false (nstate i run) v h ds en Hne Hds J2) as [R1 R2].
  - reflexivity.
  - rewrite cfg_me. exact Hc.
  - rewrite Hcm. unfold isQ_ids in *. eapply isQ_mono; [exact Hw| |exact Qquorum]. intros j Hj. rewrite cfg_me.
    destruct (N.eq_dec j i) as [->|N1]; [left; reflexivity|right].
    destruct (Forall2_in_l _ _ _ _ Hcs Hj) as (q & Hq & Sq & _).
    apply in_map_iff. exists q. split; [rewrite Sq; cbn; apply cfg_me|]. apply filter_In. split; [exact Hq|].
    rewrite Sq. cbn [my_sig s_id]. rewrite cfg_me. apply negb_true_iff, N.eqb_neq. exact N1.
  - rewrite Hcm. exact Hw.
  - split; [exact R1|]. split; [exact R2|].
    destruct (deliver_commits_facts (cfg i) None false v h ds (nstate i run) Hds) as (_ & _ & _ & _ & _ & _ & B7). exact B7.
Qed.

(* the two phases together: from members of quorum weight that joined view v and hold its proposal, with no election
   trigger firing, every one of them commits; and commits (v, h) unless it had committed before *)
Theorem good_view_commits run : wrun run -> (forall i, In i Q -> joined run i) ->
  exists ext, wrun (run ++ ext) /\
    (forall g, In g ext -> In (fst g) Q /\ exists m, snd g = TMsg m None false) /\
    (forall j, ~ In j Q -> nstate j (run ++ ext) = nstate j run) /\
    forall i, In i Q -> t_committed (tc_t (nstate i (run ++ ext))) = true /\
                        (t_committed (tc_t (nstate i run)) = false -> In (v, h) (D (nstate i (run ++ ext)))).
Proof.
  intros Hr HJ. destruct (prepare_phase run Hr HJ) as (A1 & A2 & A3). cbn zeta in *.
  set (ext1 := flat_map (fun i => deliveries i (prep_msgs i)) Q) in *.
  destruct (commit_phase (run ++ ext1) A1) as (cs & B1 & B2 & B3); [intros i Hi; destruct (A3 i Hi) as (C1 & C2 & C3 & _); split; [exact C1|split; [exact C2|exact C3]]|]. cbn zeta in *.
  set (ext2 := flat_map (fun i => deliveries i (commit_msgs cs i)) Q) in *.
  exists (ext1 ++ ext2). rewrite app_assoc. split; [exact B1|]. split; [|split].
  - intros g Hg. apply in_app_or in Hg. destruct Hg as [Hg|Hg]; apply in_flat_map in Hg; destruct Hg as (i & Hi & Hg);
      unfold deliveries in Hg; apply in_map_iff in Hg; destruct Hg as (m & <- & _); cbn [fst snd]; eauto.
  - intros j Hj. rewrite (B2 j Hj). apply A2. exact Hj.
  - intros i Hi. destruct (B3 i Hi) as (C1 & C2 & C3). destruct (A3 i Hi) as (_ & _ & _ & D1 & D2). split; [exact C1|]. intro Hf.
    destruct (t_committed (tc_t (nstate i (run ++ ext1)))) eqn:Ec; [|apply C2; reflexivity].
    apply C3. apply D1; [exact Hf|reflexivity].
Qed.

(* ---- from the leader's NEW_VIEW to the commit ----
   The leader of v is in v holding its proposal (v, h) and has sent the message m that carries it (its NEW_VIEW, or its
   PREPREPARE in view 0). Whenever m, delivered to the other members of Q in their present states, makes them accept the
   proposal - which is what C11 / Live.honest_new_view_is_accepted establish for a correct elected leader's NEW_VIEW
   and members whose view is not higher and that hold no proposal for v - the schedule "m to every member, then their
   PREPAREs, then their COMMITs" is a run at whose end all of Q have committed. *)
Definition prop_msgs (m : msg) (i : N) : list msg := if N.eqb i Ld then [] else [m].
Definition deliveries_of_proposal (m : msg) : list gev := flat_map (fun i => deliveries i (prop_msgs m i)) Q.

Lemma joined_ext run run' i : nstate i run' = nstate i run -> joined run i -> joined run' i.
Proof. intros E0 [J1 J2 J3]. constructor; rewrite E0; assumption. Qed.

Theorem proposal_delivered_then_commits run m :
  wrun run -> In Ld Q -> joined run Ld ->
  msg_height m = H -> msg_sender m = Ld -> auth_msg run m ->
  (forall i, In i Q -> i <> Ld -> accepted (cfg i) (thandle (cfg i) None false (nstate i run) m) v h) ->
  exists ext, wrun (run ++ deliveries_of_proposal m ++ ext) /\
    (forall g, In g (deliveries_of_proposal m ++ ext) -> In (fst g) Q /\ exists m', snd g = TMsg m' None false) /\
    forall i, In i Q -> t_committed (tc_t (nstate i (run ++ deliveries_of_proposal m ++ ext))) = true /\
                        (t_committed (tc_t (nstate i (run ++ deliveries_of_proposal m))) = false ->
                         In (v, h) (D (nstate i (run ++ deliveries_of_proposal m ++ ext)))).
Proof.
  intros Hr HL JL Hh Hs Ha Hacc.
  assert (HQ : forall i, In i Q -> good i /\ forall m', In m' (prop_msgs m i) -> msg_height m' = H /\ msg_sender m' <> i /\ auth_msg run m').
  { intros i Hi. split; [apply Qgood; exact Hi|]. intros m' Hm'. unfold prop_msgs in Hm'. destruct (N.eqb_spec i Ld) as [->|Hne]; [destruct Hm'|].
    destruct Hm' as [<-|[]]. split; [exact Hh|]. split; [rewrite Hs; congruence|exact Ha]. }
  destruct (deliver_all (prop_msgs m) Q run Hr Qnd HQ) as (A1 & A2 & A3 & A4). cbn zeta in *.
  fold (deliveries_of_proposal m) in *. set (run1 := run ++ deliveries_of_proposal m) in *.
  assert (HJ : forall i, In i Q -> joined run1 i).
  { intros i Hi. destruct (N.eq_dec i Ld) as [->|Hne].
    - apply (joined_ext run run1); [|exact JL]. rewrite (A2 _ Hi). unfold prop_msgs. rewrite N.eqb_refl. reflexivity.
    - apply (accepted_joined run1 i A1 (Qgood i Hi)). rewrite (A2 _ Hi). unfold prop_msgs. destruct (N.eqb_spec i Ld); [contradiction|].
      cbn [fold_left]. apply Hacc; assumption. }
  destruct (good_view_commits run1 A1 HJ) as (ext & B1 & B2 & _ & B4).
  exists ext. subst run1. rewrite <- app_assoc in *. split; [exact B1|]. split.
  - intros g Hg. apply in_app_or in Hg. destruct Hg as [Hg|Hg]; [|apply B2; exact Hg].
    unfold deliveries_of_proposal in Hg. apply in_flat_map in Hg. destruct Hg as (i & Hi & Hg). unfold deliveries in Hg. apply in_map_iff in Hg.
    destruct Hg as (m' & <- & _). cbn [fst snd]. eauto.
  - intros i Hi. destruct (B4 i Hi) as [C1 C2]. split; [exact C1|exact C2].
Qed.
End LW.
