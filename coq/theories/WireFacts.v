(* WireFacts.v — round-trip theorems for the wire model: what the reader returns on the builder's bytes (C20). *)
From LH Require Import Prims Wire.
Open Scope N_scope.

(* ---------- little-endian words ---------- *)
Lemma le_length k n : length (le k n) = k.
Proof. revert n; induction k as [|k IH]; intro n; cbn [le length]; [reflexivity|]. rewrite IH. reflexivity. Qed.

Lemma unle_le k n : n < 256 ^ N.of_nat k -> unle (le k n) = n.
Proof.
  revert n; induction k as [|k IH]; intros n H; cbn [le unle].
  - cbn in H. lia.
  - rewrite IH.
    + pose proof (N.div_mod n 256 ltac:(lia)). lia.
    + replace (N.of_nat (S k)) with (N.succ (N.of_nat k)) in H by lia. rewrite N.pow_succ_r' in H.
      apply N.div_lt_upper_bound; lia.
Qed.

(* ---------- slicing ---------- *)
Lemma sub_app_exact (a m r : bytes) : sub (a ++ m ++ r) (length a) (length m) = m.
Proof.
  unfold sub. rewrite skipn_app, skipn_all, Nat.sub_diag. cbn [skipn app].
  rewrite firstn_app, firstn_all, Nat.sub_diag. cbn [firstn]. apply app_nil_r.
Qed.

Lemma rd_app_exact (a : bytes) k n r : n < 256 ^ N.of_nat k -> rd (a ++ le k n ++ r) (length a) k = Some n.
Proof.
  intro H. unfold rd. rewrite !app_length, le_length.
  assert (Nat.leb (length a + k) (length a + (k + length r)) = true) as -> by (apply Nat.leb_le; lia).
  f_equal. rewrite <- (le_length k n) at 2. rewrite sub_app_exact. apply unle_le. exact H.
Qed.

Lemma padto_length acc a : length (padto acc a) = alignN (length acc) a.
Proof. unfold padto, alignN, zeros. rewrite app_length, repeat_length. reflexivity. Qed.

Lemma alignN_ge off a : (off <= alignN off a)%nat.
Proof. unfold alignN. lia. Qed.

(* ---------- the builder only appends ---------- *)
Definition enc_from (acc : bytes) (vs : list fval) : bytes := fold_left put vs acc.

Definition field_bytes (v : fval) : bytes :=
  match v with
  | VU16 n => le 2 n
  | VU64 n => le 8 n
  | VBytes b | VMsg b => le 4 (blen b) ++ b
  | VMsgArr l => le 4 (blen (arr_body l)) ++ arr_body l
  end.
Definition valign (v : fval) : nat := falign (ty_of v).

Lemma put_shape acc v : put acc v = padto acc (valign v) ++ field_bytes v.
Proof. destruct v; reflexivity. Qed.

Lemma enc_from_prefix vs : forall acc, exists tail, enc_from acc vs = acc ++ tail.
Proof.
  induction vs as [|v vs IH]; intro acc; cbn [enc_from fold_left]; [exists []; symmetry; apply app_nil_r|].
  destruct (IH (put acc v)) as [t E]. unfold enc_from in E. rewrite E. rewrite put_shape. unfold padto.
  eexists. rewrite <- !app_assoc. reflexivity.
Qed.

(* builder offsets: where each field starts *)
Fixpoint boffs (acc : bytes) (vs : list fval) : list nat :=
  match vs with [] => [] | v :: r => alignN (length acc) (valign v) :: boffs (put acc v) r end.

(* well-formed values: scalars fit their width, every dynamic size fits 32 bits *)
Definition wf_val (v : fval) : Prop :=
  match v with
  | VU16 n => n < 2 ^ 16
  | VU64 n => n < 2 ^ 64
  | VBytes b | VMsg b => blen b < 2 ^ 32
  | VMsgArr l => blen (arr_body l) < 2 ^ 32
  end.

Lemma field_bytes_nonempty v : (2 <= length (field_bytes v))%nat.
Proof. destruct v; cbn [field_bytes]; rewrite ?app_length, ?le_length; lia. Qed.

(* what the reader finds at offset o for value v *)
Definition field_at (bs : bytes) (o : nat) (v : fval) : Prop :=
  match v with
  | VU16 n => rd bs o 2 = Some n
  | VU64 n => rd bs o 8 = Some n
  | VBytes b | VMsg b => rd bs o 4 = Some (blen b) /\ sub bs (o + 4) (length b) = b /\ (o + 4 + length b <= length bs)%nat
  | VMsgArr l => rd bs o 4 = Some (blen (arr_body l)) /\ sub bs (o + 4) (length (arr_body l)) = arr_body l /\ (o + 4 + length (arr_body l) <= length bs)%nat
  end.

Lemma field_at_put acc v r : wf_val v -> field_at (put acc v ++ r) (alignN (length acc) (valign v)) v.
Proof.
  intro W. rewrite put_shape, <- padto_length. set (p := padto acc (valign v)).
  destruct v; cbn [field_bytes field_at wf_val] in *.
  - rewrite <- app_assoc. apply rd_app_exact. exact W.
  - rewrite <- app_assoc. apply rd_app_exact. exact W.
  - rewrite <- !app_assoc. split; [apply rd_app_exact; exact W|]. split.
    + replace (length p + 4)%nat with (length (p ++ le 4 (blen b))) by (rewrite app_length, le_length; reflexivity).
      rewrite (app_assoc p (le 4 (blen b))). apply sub_app_exact.
    + rewrite !app_length, le_length. lia.
  - rewrite <- !app_assoc. split; [apply rd_app_exact; exact W|]. split.
    + replace (length p + 4)%nat with (length (p ++ le 4 (blen b))) by (rewrite app_length, le_length; reflexivity).
      rewrite (app_assoc p (le 4 (blen b))). apply sub_app_exact.
    + rewrite !app_length, le_length. lia.
  - rewrite <- !app_assoc. split; [apply rd_app_exact; exact W|]. split.
    + replace (length p + 4)%nat with (length (p ++ le 4 (blen (arr_body l)))) by (rewrite app_length, le_length; reflexivity).
      rewrite (app_assoc p (le 4 (blen (arr_body l)))). apply sub_app_exact.
    + rewrite !app_length, le_length. lia.
Qed.

Lemma put_length acc v : length (put acc v) = (alignN (length acc) (valign v) + length (field_bytes v))%nat.
Proof. rewrite put_shape, app_length, padto_length. reflexivity. Qed.

(* the reader's offset table on the builder's bytes is the builder's offset table *)
Lemma offsets_from_enc vs : forall acc tail, Forall wf_val vs ->
  offsets_from (enc_from acc vs ++ tail) (length acc) (map ty_of vs) = Some (boffs acc vs, length (enc_from acc vs)).
Proof.
  induction vs as [|v vs IH]; intros acc tail W; cbn [enc_from fold_left map offsets_from boffs]; [reflexivity|].
  inversion W as [|? ? Wv Wr]; subst.
  destruct (enc_from_prefix vs (put acc v)) as [t Et]. unfold enc_from in Et, IH.
  set (bs := fold_left put vs (put acc v) ++ tail).
  assert (Ebs : bs = put acc v ++ (t ++ tail)) by (subst bs; rewrite Et, <- app_assoc; reflexivity).
  pose proof (field_at_put acc v (t ++ tail) Wv) as FA. rewrite <- Ebs in FA.
  pose proof (put_length acc v) as PL. pose proof (field_bytes_nonempty v) as NE. pose proof (alignN_ge (length acc) (valign v)) as AG.
  assert (Lbs : (length (put acc v) <= length bs)%nat) by (rewrite Ebs, app_length; lia).
  assert (Nat.eqb (length acc) (length bs) = false) as -> by (apply Nat.eqb_neq; lia).
  fold (valign v). assert (Nat.ltb (length bs) (alignN (length acc) (valign v)) = false) as -> by (apply Nat.ltb_ge; lia).
  specialize (IH (put acc v) tail Wr). fold bs in IH.
  destruct v; cbn [ty_of field_at field_bytes] in *; rewrite ?app_length, ?le_length in PL.
  - replace (alignN (length acc) (valign (VU16 n)) + 2)%nat with (length (put acc (VU16 n))) by lia. rewrite IH. reflexivity.
  - replace (alignN (length acc) (valign (VU64 n)) + 8)%nat with (length (put acc (VU64 n))) by lia. rewrite IH. reflexivity.
  - destruct FA as (F1 & F2 & F3). rewrite F1. unfold blen in *. assert (N.ltb (N.of_nat (length bs)) (N.of_nat (alignN (length acc) (valign (VBytes b)) + 4) + N.of_nat (length b)) = false) as -> by (apply N.ltb_ge; lia).
    rewrite Nat2N.id. replace (alignN (length acc) (valign (VBytes b)) + 4 + length b)%nat with (length (put acc (VBytes b))) by lia. rewrite IH. reflexivity.
  - destruct FA as (F1 & F2 & F3). rewrite F1. unfold blen in *. assert (N.ltb (N.of_nat (length bs)) (N.of_nat (alignN (length acc) (valign (VMsg b)) + 4) + N.of_nat (length b)) = false) as -> by (apply N.ltb_ge; lia).
    rewrite Nat2N.id. replace (alignN (length acc) (valign (VMsg b)) + 4 + length b)%nat with (length (put acc (VMsg b))) by lia. rewrite IH. reflexivity.
  - destruct FA as (F1 & F2 & F3). rewrite F1. unfold blen in *. assert (N.ltb (N.of_nat (length bs)) (N.of_nat (alignN (length acc) (valign (VMsgArr l)) + 4) + N.of_nat (length (arr_body l))) = false) as -> by (apply N.ltb_ge; lia).
    rewrite Nat2N.id. replace (alignN (length acc) (valign (VMsgArr l)) + 4 + length (arr_body l))%nat with (length (put acc (VMsgArr l))) by lia. rewrite IH. reflexivity.
Qed.

Theorem offsets_encode vs : vs <> [] -> Forall wf_val vs -> offsets (encode vs) (map ty_of vs) = Some (boffs [] vs).
Proof.
  intros Hne W. unfold offsets, encode. pose proof (offsets_from_enc vs [] [] W) as E. rewrite app_nil_r in E.
  cbn [length] in E. unfold enc_from in E. rewrite E.
  assert (Nat.ltb (length (fold_left put vs [])) (length (fold_left put vs [])) = false) as -> by (apply Nat.ltb_irrefl).
  destruct vs as [|v vs]; [congruence|]. cbn [fold_left].
  destruct (enc_from_prefix vs (put [] v)) as [t Et]. unfold enc_from in Et. rewrite Et, app_length, put_length.
  pose proof (field_bytes_nonempty v).
  assert (Nat.eqb (alignN (length (@nil N)) (valign v) + length (field_bytes v) + length t) 0 = false) as -> by (apply Nat.eqb_neq; lia).
  reflexivity.
Qed.

(* every field is found where the builder put it *)
Lemma fields_at_enc vs : forall acc tail i v, Forall wf_val vs -> nth_error vs i = Some v ->
  exists o, nth_error (boffs acc vs) i = Some o /\ field_at (enc_from acc vs ++ tail) o v.
Proof.
  induction vs as [|w vs IH]; intros acc tail i v W Hn; [destruct i; discriminate|].
  inversion W as [|? ? Ww Wr]; subst. cbn [enc_from fold_left boffs].
  destruct i as [|i]; cbn [nth_error] in *.
  - inversion Hn; subst. eexists; split; [reflexivity|].
    destruct (enc_from_prefix vs (put acc v)) as [t Et]. unfold enc_from in Et. rewrite Et, <- app_assoc. apply field_at_put. exact Ww.
  - apply (IH (put acc w) tail i v Wr Hn).
Qed.

(* ---------- accessors on encoded messages ---------- *)
Theorem get_u16_encode vs i n : Forall wf_val vs -> nth_error vs i = Some (VU16 n) -> get_u16 (encode vs) (map ty_of vs) i = n.
Proof.
  intros W Hn. assert (Hne : vs <> []) by (destruct vs; [destruct i; discriminate|discriminate]).
  unfold get_u16, get_scalar. rewrite offsets_encode by assumption.
  destruct (fields_at_enc vs [] [] i _ W Hn) as [o [Ho F]]. rewrite app_nil_r in F. unfold enc_from in F. fold (encode vs) in F.
  rewrite Ho. cbn [field_at] in F. rewrite F. reflexivity.
Qed.
Theorem get_u64_encode vs i n : Forall wf_val vs -> nth_error vs i = Some (VU64 n) -> get_u64 (encode vs) (map ty_of vs) i = n.
Proof.
  intros W Hn. assert (Hne : vs <> []) by (destruct vs; [destruct i; discriminate|discriminate]).
  unfold get_u64, get_scalar. rewrite offsets_encode by assumption.
  destruct (fields_at_enc vs [] [] i _ W Hn) as [o [Ho F]]. rewrite app_nil_r in F. unfold enc_from in F. fold (encode vs) in F.
  rewrite Ho. cbn [field_at] in F. rewrite F. reflexivity.
Qed.

Definition dyn_content (v : fval) : bytes :=
  match v with VBytes b | VMsg b => b | VMsgArr l => arr_body l | _ => [] end.
Definition is_dyn (v : fval) : bool := match v with VU16 _ | VU64 _ => false | _ => true end.

Theorem get_dyn_encode vs i v : Forall wf_val vs -> nth_error vs i = Some v -> is_dyn v = true ->
  get_dyn (encode vs) (map ty_of vs) i = dyn_content v.
Proof.
  intros W Hn Hd. assert (Hne : vs <> []) by (destruct vs; [destruct i; discriminate|discriminate]).
  unfold get_dyn. rewrite offsets_encode by assumption.
  destruct (fields_at_enc vs [] [] i _ W Hn) as [o [Ho F]]. rewrite app_nil_r in F. unfold enc_from in F. fold (encode vs) in F.
  rewrite Ho. destruct v; try discriminate; cbn [field_at dyn_content] in *; destruct F as (F1 & F2 & F3); rewrite F1; unfold blen in *.
  - assert (N.ltb (N.of_nat (length (encode vs))) (N.of_nat (o + 4) + N.of_nat (length b)) = false) as -> by (apply N.ltb_ge; lia). rewrite Nat2N.id. exact F2.
  - assert (N.ltb (N.of_nat (length (encode vs))) (N.of_nat (o + 4) + N.of_nat (length b)) = false) as -> by (apply N.ltb_ge; lia). rewrite Nat2N.id. exact F2.
  - assert (N.ltb (N.of_nat (length (encode vs))) (N.of_nat (o + 4) + N.of_nat (length (arr_body l))) = false) as -> by (apply N.ltb_ge; lia). rewrite Nat2N.id. exact F2.
Qed.

(* ---------- message arrays ---------- *)
Definition body_from (acc : bytes) (l : list bytes) : bytes := fold_left put_elem l acc.

Lemma body_from_prefix l : forall acc, exists tail, body_from acc l = acc ++ tail.
Proof.
  induction l as [|e l IH]; intro acc; cbn [body_from fold_left]; [exists []; symmetry; apply app_nil_r|].
  destruct (IH (put_elem acc e)) as [t E]. unfold body_from in E. rewrite E. unfold put_elem, padto.
  eexists. rewrite <- !app_assoc. reflexivity.
Qed.

Lemma put_elem_length acc e : length (put_elem acc e) = (alignN (length acc) 4 + 4 + length e)%nat.
Proof. unfold put_elem. rewrite !app_length, padto_length, le_length. lia. Qed.

Lemma iter_msgs_body l : forall acc fuel, Forall (fun e => blen e < 2 ^ 32) l -> (length l < fuel)%nat ->
  iter_msgs fuel (body_from acc l) (alignN (length acc) 4) =
  if Nat.leb (length (body_from acc l)) (alignN (length acc) 4) then [] else l.
Proof.
  induction l as [|e l IH]; intros acc fuel W Hf; cbn [body_from fold_left].
  - destruct fuel; [lia|]. cbn [iter_msgs].
    assert (Nat.leb (length acc) (alignN (length acc) 4) = true) as -> by (apply Nat.leb_le, alignN_ge). reflexivity.
  - inversion W as [|? ? We Wr]; subst. destruct fuel as [|fuel]; [cbn in Hf; lia|]. cbn [iter_msgs].
    destruct (body_from_prefix l (put_elem acc e)) as [t Et]. unfold body_from in Et, IH. rewrite Et.
    pose proof (put_elem_length acc e) as PL.
    set (B := put_elem acc e ++ t). set (o := alignN (length acc) 4).
    assert (LB : length B = (o + 4 + length e + length t)%nat) by (subst B o; rewrite app_length, PL; lia).
    assert (F1 : rd B o 4 = Some (blen e)).
    { subst B o. unfold put_elem. rewrite <- padto_length, <- !app_assoc. apply rd_app_exact. exact We. }
    assert (F2 : sub B (o + 4) (length e) = e).
    { subst B o. unfold put_elem. rewrite <- padto_length, <- !app_assoc.
      replace (length (padto acc 4) + 4)%nat with (length (padto acc 4 ++ le 4 (blen e))) by (rewrite app_length, le_length; reflexivity).
      rewrite (app_assoc (padto acc 4)). apply sub_app_exact. }
    assert (Nat.leb (length B) o = false) as -> by (apply Nat.leb_gt; lia).
    rewrite F1. unfold blen at 1 2.
    assert (N.ltb (N.of_nat (length B)) (N.of_nat (o + 4) + N.of_nat (length e)) = false) as -> by (apply N.ltb_ge; lia).
    unfold blen. rewrite Nat2N.id, F2. f_equal.
    replace (o + 4 + length e)%nat with (length (put_elem acc e)) by (subst o; lia).
    subst B. rewrite <- Et.
    rewrite (IH (put_elem acc e) fuel Wr ltac:(cbn in Hf; lia)).
    destruct l as [|e' l']; cbn [fold_left].
    + destruct (Nat.leb _ _); reflexivity.
    + destruct (body_from_prefix l' (put_elem (put_elem acc e) e')) as [t' Et']. unfold body_from in Et'. rewrite Et', app_length, put_elem_length.
      assert (Nat.leb (alignN (length (put_elem acc e)) 4 + 4 + length e' + length t') (alignN (length (put_elem acc e)) 4) = false) as -> by (apply Nat.leb_gt; lia).
      reflexivity.
Qed.

Lemma body_length_ge l : forall acc, (length acc + 4 * length l <= length (body_from acc l))%nat.
Proof.
  induction l as [|e l IH]; intro acc; cbn [body_from fold_left length]; [lia|].
  specialize (IH (put_elem acc e)). unfold body_from in IH. rewrite put_elem_length in IH. pose proof (alignN_ge (length acc) 4). lia.
Qed.

Theorem iter_msgs_arr_body l : Forall (fun e => blen e < 2 ^ 32) l -> iter_msgs (S (length (arr_body l))) (arr_body l) 0 = l.
Proof.
  intro W. unfold arr_body.
  pose proof (iter_msgs_body l [] (S (length (fold_left put_elem l []))) W) as E. unfold body_from in E.
  pose proof (body_length_ge l []) as BL. unfold body_from in BL. cbn [length] in BL.
  change (alignN (length (@nil N)) 4) with 0%nat in E. rewrite E by lia.
  destruct l as [|e l]; [reflexivity|]. cbn [length] in BL.
  assert (Nat.leb (length (fold_left put_elem (e :: l) [])) 0 = false) as -> by (apply Nat.leb_gt; lia). reflexivity.
Qed.

Theorem get_arr_encode vs i l : Forall wf_val vs -> nth_error vs i = Some (VMsgArr l) -> Forall (fun e => blen e < 2 ^ 32) l ->
  get_arr (encode vs) (map ty_of vs) i = l.
Proof.
  intros W Hn Wl. unfold get_arr. rewrite (get_dyn_encode vs i _ W Hn eq_refl). cbn [dyn_content]. apply iter_msgs_arr_body. exact Wl.
Qed.

(* the union of LeanhelixContent *)
Theorem decode_union_encode idx m : idx < 5 -> blen m < 2 ^ 32 -> decode_union (encode_union idx m) = Some (idx, m).
Proof.
  intros Hi Hm. unfold decode_union, encode_union. cbn [put]. unfold padto.
  change (length (le 2 idx)) with 2%nat. change (padlen 2 4) with 2%nat. cbn [zeros repeat].
  assert (E0 : rd ((le 2 idx ++ [0; 0]) ++ le 4 (blen m) ++ m) 0 2 = Some idx).
  { rewrite <- app_assoc. apply (rd_app_exact [] 2 idx). change (256 ^ N.of_nat 2) with 65536. lia. }
  rewrite E0. assert (N.leb 5 idx = false) as -> by (apply N.leb_gt; exact Hi).
  assert (E4 : rd ((le 2 idx ++ [0; 0]) ++ le 4 (blen m) ++ m) 4 4 = Some (blen m)).
  { apply (rd_app_exact (le 2 idx ++ [0; 0]) 4 (blen m) m). exact Hm. }
  rewrite E4. unfold blen at 1. rewrite !app_length, !le_length. cbn [length].
  assert (N.ltb (N.of_nat (2 + 2 + (4 + length m))) (8 + blen m) = false) as -> by (apply N.ltb_ge; unfold blen; lia).
  f_equal. f_equal. unfold blen. rewrite Nat2N.id.
  replace 8%nat with (length ((le 2 idx ++ [0; 0]) ++ le 4 (N.of_nat (length m)))) by (rewrite !app_length, !le_length; reflexivity).
  rewrite app_assoc. rewrite <- (app_nil_r m) at 2. apply sub_app_exact.
Qed.
