(* Accept.v — C11: what a correct node sends is accepted by correct peers in a matching state.
   Receiver side: for every term state, a message with the stated shape is counted / adopted. Sender side: every
   message a correct node sends has that shape (its own valid signature, the right type tag, instance and height,
   a proof that satisfies the validator) whatever Byzantine input it accepted before. *)
From LH Require Import Prims Quorum QuorumFacts Contexts Msg Term TermFacts Own.
Open Scope N_scope.

Section Receiver.
Variable c : ncfg. Variable wm : option hv. Variable shut : bool.

Lemma in_bucket_after_store l v h s : memN (s_id s) (map s_id (bucket (store_in l v h s) v h)) = true.
Proof.
  rewrite bucket_store_in_same. destruct (memN (s_id s) (map s_id (bucket l v h))) eqn:E0; [exact E0|].
  rewrite map_app. cbn [map]. apply memN_In. apply in_or_app. right. left. reflexivity.
Qed.

(* COMMIT: counted by every peer at that height *)
Theorem commit_counted x r s : r_type r = T_COMMIT -> isMember (t_cm (tc_t x)) (s_id s) = true -> s_ok s = true ->
  has_c (tc_t (handle_c c wm shut x r s true)) (r_view r) (r_hash r) (s_id s) = true.
Proof.
  intros Ty Mem Sok. unfold handle_c. cbn [negb]. rewrite Ty, N.eqb_refl, Mem, Sok. cbn [negb].
  set (xa := tc_set_t _ _). destruct (check_committed_own c wm shut xa (r_view r) (r_hash r)) as (_ & Tc & _). cbn zeta in Tc.
  unfold has_c. rewrite Tc. subst xa. cbn [tc_set_t tc_t store_c t_c]. apply in_bucket_after_store.
Qed.

(* PREPARE: counted unless the peer's view is already higher (or the sender would be that view's leader) *)
Theorem prepare_counted x r s : r_type r = T_PREPARE -> isMember (t_cm (tc_t x)) (s_id s) = true -> s_ok s = true ->
  tc_v x <= r_view r -> s_id s <> leaderOf (t_cm (tc_t x)) (r_view r) ->
  has_p (tc_t (handle_p c wm shut x r s)) (r_view r) (r_hash r) (s_id s) = true.
Proof.
  intros Ty Mem Sok Hv Hl. unfold handle_p. rewrite Ty, N.eqb_refl, Mem, Sok. cbn [negb].
  destruct (N.ltb_spec (r_view r) (tc_v x)); [lia|]. destruct (N.eqb_spec (s_id s) (leaderOf (t_cm (tc_t x)) (r_view r))); [contradiction|].
  set (xa := tc_set_t _ _). destruct (check_prepared_own c wm shut xa (r_view r) (r_hash r)) as (_ & _ & _ & _ & _ & P6 & _). cbn zeta in P6.
  unfold has_p. rewrite P6. subst xa. cbn [tc_set_t tc_t store_p t_p]. apply in_bucket_after_store.
Qed.

(* completeness of the validators with respect to the declarative specifications *)
Lemma proof_spec_valid cm h target p : proof_spec c cm h target p -> validate_proof cm h target (Some p) = true.
Proof.
  intros [[T1 T2] [I1 I2] [H1 H2] [Sv Sh] Hearlier [Lok Lid] Pr ND Q]. unfold validate_proof.
  rewrite T1, T2, I1, I2, H1, H2, Sv, Sh, Lok, !N.eqb_refl. cbn [andb].
  replace (N.ltb (r_view (pf_ppref p)) target) with true by (symmetry; apply N.ltb_lt; exact Hearlier). cbn [andb].
  rewrite Q. cbn [andb]. rewrite (proj2 (N.eqb_eq _ _) (eq_sym Lid)). cbn [andb].
  assert (F : forallb (fun s => s_ok s && negb (N.eqb (s_id s) (s_id (pf_ppsnd p))) && isMember cm (s_id s)) (pf_psnds p) = true).
  { apply forallb_forall. intros s Hs. destruct (Pr s Hs) as (A & B & C0). rewrite A, B. destruct (N.eqb_spec (s_id s) (s_id (pf_ppsnd p))); [contradiction|reflexivity]. }
  rewrite F. cbn [andb]. apply nodupN_NoDup. exact ND.
Qed.
Lemma vote_spec_valid cm h vt : vote_spec c cm h (v_view vt) vt -> vote_valid c cm h vt = true.
Proof.
  intros [Ty In0 Mem Sok Pf]. unfold vote_valid. rewrite Ty, In0, Mem, Sok, !N.eqb_refl. cbn [andb].
  destruct (v_proof vt) as [p|] eqn:Ep; [|reflexivity]. specialize (Pf p eq_refl).
  rewrite (proof_spec_valid _ _ _ _ Pf). destruct Pf as [_ [I1 _] _ _ _ _ _ _ _]. rewrite I1, N.eqb_refl. reflexivity.
Qed.

Lemma has_vc_after_store t v vt b : has_vc (store_vc v vt b t) v (s_id (v_snd vt)) = true.
Proof.
  unfold has_vc, store_vc. destruct (memN (s_id (v_snd vt)) (map (fun e => s_id (v_snd (fst e))) (votes_of t v))) eqn:Em; [exact Em|].
  unfold votes_of. cbn [t_vc]. rewrite filter_app, map_app, map_app. cbn [filter fst]. rewrite N.eqb_refl. cbn [map snd fst].
  apply memN_In. apply in_or_app. right. left. reflexivity.
Qed.

(* VIEW_CHANGE: counted by the leader it is addressed to, unless that leader already passed the view *)
Theorem view_change_counted x vt b : leaderOf (t_cm (tc_t x)) (v_view vt) = c_me c -> tc_v x <= v_view vt ->
  vote_spec c (t_cm (tc_t x)) (t_h (tc_t x)) (v_view vt) vt ->
  match b, v_proof vt with
  | None, None => True
  | Some _, Some p => commitsTo (v_height vt) b (r_hash (pf_ppref p)) = true
  | _, _ => False
  end ->
  has_vc (tc_t (handle_vc c wm shut x vt b)) (v_view vt) (s_id (v_snd vt)) = true.
Proof.
  intros Hl Hv VS Hb. unfold handle_vc. rewrite Hl, N.eqb_refl. cbn [negb].
  destruct (N.ltb_spec (v_view vt) (tc_v x)); [lia|]. rewrite (vote_spec_valid _ _ _ VS). cbn [negb].
  assert (A : has_vc (tc_t (check_elected c wm shut (tc_set_t (store_vc (v_view vt) vt b (tc_t x))
      (if has_vc (tc_t x) (v_view vt) (s_id (v_snd vt)) then x else tc_emit (OStore T_VIEW_CHANGE (t_h (tc_t x)) (v_view vt) 0 (s_id (v_snd vt))) x)) (v_view vt))) (v_view vt) (s_id (v_snd vt)) = true).
  { set (xa := tc_set_t _ _). destruct (check_elected_own c wm shut xa (v_view vt)) as [->|[_ EL]].
    - subst xa. cbn [tc_set_t tc_t]. apply has_vc_after_store.
    - cbn zeta in EL. unfold has_vc, votes_of. rewrite (es_vc _ _ _ _ EL). subst xa. cbn [tc_set_t tc_t]. apply has_vc_after_store. }
  destruct b as [bb|], (v_proof vt) as [p|] eqn:Ep; try contradiction; [rewrite Hb|]; exact A.
Qed.
End Receiver.

(* ---- sender side: every message of a correct node carries its own valid signature ---- *)
Definition out_mine (c : ncfg) (o : out) : Prop :=
  match o with
  | OSend _ (MPP _ s _) | OSend _ (MP _ s) => s = my_sig c
  | OSend _ (MC _ s o') => s = my_sig c /\ o' = true
  | OSend _ (MVC vt _) => v_snd vt = my_sig c
  | OSend _ (MNV _ _ _ _ _ s _ pps _) => s = my_sig c /\ pps = my_sig c
  | _ => True
  end.
Definition outs_mine (c : ncfg) (x : tc) : Prop := Forall (out_mine c) (tc_out x).

Ltac mleaf := unfold outs_mine in *; cbn [tc_out tc_emit tc_set_t tc_set_v tc_bump tc_committed send_all] in *;
              repeat (constructor; [cbn; auto|]); try assumption.
Ltac mcrush :=
  repeat match goal with
  | |- context [if ?b then _ else _] => destruct b
  | |- context [match ?o with Some _ => _ | None => _ end] => destruct o
  end; mleaf.

Section Mine.
Variable c : ncfg. Variable wm : option hv. Variable shut : bool.
Lemma om_check_committed x v h : outs_mine c x -> outs_mine c (check_committed c wm shut x v h).
Proof. intro I. unfold check_committed, send_all. mcrush. Qed.
Lemma om_check_prepared x v h : outs_mine c x -> outs_mine c (check_prepared c wm shut x v h).
Proof. intro I. unfold check_prepared. destruct (match t_prepared (tc_t x) with Some pv => pv =? v | None => false end); [exact I|].
  destruct (is_preprepared _ _ _); [|exact I]. destruct (isQ_ids _ _); [|exact I]. apply om_check_committed. unfold send_all. mcrush. Qed.
Lemma om_process_pp x r s b : outs_mine c x -> outs_mine c (process_pp c wm shut x r s b).
Proof. intro I. unfold process_pp. destruct (negb _); [exact I|]. apply om_check_prepared. unfold send_all. mcrush. Qed.
Lemma om_on_elected x v vs : outs_mine c x -> outs_mine c (on_elected c wm shut x v vs).
Proof. intro I. unfold on_elected, init_view, send_all. cbn [tc_set_t tc_v]. destruct (N.ltb _ _); [exact I|]. destruct (latest_block vs) as [[b h]|]; mcrush. Qed.
Lemma om_check_elected x v : outs_mine c x -> outs_mine c (check_elected c wm shut x v).
Proof. intro I. unfold check_elected. destruct (N.leb _ _); [exact I|]. destruct (votes_of _ _) eqn:E0; [exact I|]. rewrite <- E0. destruct (isQ_ids _ _); [apply om_on_elected; exact I|exact I]. Qed.
Lemma om_thandle x m : outs_mine c x -> outs_mine c (thandle c wm shut x m).
Proof.
  intro I. destruct m; cbn [thandle].
  - unfold handle_pp. destruct (negb _); [exact I|]. destruct (negb _); [exact I|]. destruct (negb _); [exact I|]. destruct (negb _); [exact I|]. apply om_process_pp; exact I.
  - unfold handle_p. repeat (match goal with |- outs_mine _ (if ?b then _ else _) => destruct b; [exact I|] end). apply om_check_prepared. mcrush.
  - unfold handle_c. repeat (match goal with |- outs_mine _ (if ?b then _ else _) => destruct b; [exact I|] end). apply om_check_committed. mcrush.
  - unfold handle_vc. repeat (match goal with |- outs_mine _ (if ?b then _ else _) => destruct b; [exact I|] end).
    destruct b, (v_proof v); try exact I; try (destruct (commitsTo _ _ _); [|exact I]); apply om_check_elected; mcrush.
  - unfold handle_nv. repeat (match goal with |- outs_mine _ (if ?b then _ else _) => destruct b; [exact I|] end).
    assert (K : outs_mine c (if negb (validate_pp c (tc_t x) pp pps) then x else match init_view nview (tc_set_t (set_latest nview (tc_t x)) x) with Some x1 => process_pp c wm shut x1 pp pps b | None => tc_set_t (set_latest nview (tc_t x)) x end)).
    { destruct (negb _); [exact I|]. unfold init_view. cbn [tc_set_t tc_v]. destruct (N.ltb _ _); [exact I|]. apply om_process_pp. mcrush. }
    destruct (latest_vote votes); [destruct (v_proof v)|]; repeat (match goal with |- outs_mine _ (if ?b then _ else _) => destruct b; try exact I end); try exact K; try exact I.
Qed.
Lemma om_move x h v : outs_mine c x -> outs_mine c (move_to_next_leader c wm shut x h v).
Proof.
  intro I. unfold move_to_next_leader. destruct (negb _); [exact I|]. unfold init_view. destruct (N.ltb _ _); [exact I|].
  destruct (snd _); [mcrush|]. destruct (N.eqb _ _); [apply om_check_elected; mcrush|mcrush].
Qed.
Lemma om_start x lead : outs_mine c x -> outs_mine c (start_term c wm shut x lead).
Proof. intro I. unfold start_term, init_view. destruct (N.ltb _ _); [exact I|]. mcrush. Qed.
End Mine.

Theorem trun_outs_mine c wm shut H cm fresh lead evs : outs_mine c (trun c wm shut H cm fresh lead evs).
Proof.
  unfold trun. assert (S0 : outs_mine c (tstart c wm shut H cm fresh lead)) by (unfold tstart; apply om_start; constructor).
  revert S0. generalize (tstart c wm shut H cm fresh lead). induction evs as [|e evs IH]; intros x S0; cbn [fold_left]; [exact S0|].
  apply IH. destruct e; cbn [tstep]; [apply om_thandle|apply om_move]; exact S0.
Qed.

(* ---- sender and receiver together ---- *)
Section Pair.
(* the sender: a correct member, after any sequence of events; the receiver: any term state of a member with the same
   committee, height and instance *)
Variables (cs cr : ncfg) (wm0 : option hv) (sh0 : bool) (H : N) (cm : committee) (fresh : N) (lead : bool) (evs : list tev).
Hypothesis Hw : total cm < W64.
Hypothesis Hms : isMember cm (c_me cs) = true.
Hypothesis Hev : Forall (tev_ok cs H) evs.
Hypothesis Hinst : c_inst cr = c_inst cs.
Let xs := trun cs wm0 sh0 H cm fresh lead evs.

Theorem honest_commit_is_counted to r s o wm shut xr : In (OSend to (MC r s o)) (tc_out xs) -> t_cm (tc_t xr) = cm ->
  has_c (tc_t (handle_c cr wm shut xr r s o)) (r_view r) (r_hash r) (c_me cs) = true.
Proof.
  intros Hin Hcm. destruct (trun_inv cs wm0 sh0 H cm fresh lead evs Hw Hev) as (TI & _ & _). fold xs in TI.
  pose proof (trun_outs_mine cs wm0 sh0 H cm fresh lead evs) as OM. fold xs in OM. unfold outs_mine in OM. rewrite Forall_forall in OM.
  destruct (OM _ Hin) as [-> ->]. destruct (ti_mc _ _ TI _ _ _ _ Hin) as (Ty & _).
  apply (commit_counted cr wm shut xr r (my_sig cs) Ty); [rewrite Hcm; exact Hms|reflexivity].
Qed.

Theorem honest_prepare_is_counted to r s wm shut xr : In (OSend to (MP r s)) (tc_out xs) -> t_cm (tc_t xr) = cm -> tc_v xr <= r_view r ->
  has_p (tc_t (handle_p cr wm shut xr r s)) (r_view r) (r_hash r) (c_me cs) = true.
Proof.
  intros Hin Hcm Hv. destruct (trun_inv cs wm0 sh0 H cm fresh lead evs Hw Hev) as (TI & _ & Ecm). fold xs in TI, Ecm.
  pose proof (trun_outs_mine cs wm0 sh0 H cm fresh lead evs) as OM. fold xs in OM. unfold outs_mine in OM. rewrite Forall_forall in OM.
  pose proof (OM _ Hin) as Es. cbn in Es. subst s. destruct (ti_mp _ _ TI _ _ _ Hin) as (Ty & _ & _ & en & _ & _ & _ & Hnl).
  apply (prepare_counted cr wm shut xr r (my_sig cs) Ty); [rewrite Hcm; exact Hms|reflexivity|exact Hv|]. rewrite Hcm, <- Ecm. cbn. auto.
Qed.
End Pair.

Lemma proof_spec_inst c1 c2 cm h target p : c_inst c1 = c_inst c2 -> proof_spec c1 cm h target p -> proof_spec c2 cm h target p.
Proof. intros E0 [A [B1 B2] C0 D0 F G I J K]. constructor; auto. rewrite <- E0. auto. Qed.
Lemma vote_spec_inst c1 c2 cm h v vt : c_inst c1 = c_inst c2 -> vote_spec c1 cm h v vt -> vote_spec c2 cm h v vt.
Proof. intros E0 [A B C0 D0 F]. constructor; auto; [congruence|]. intros p Hp. eapply proof_spec_inst; eauto. Qed.

(* the VIEW_CHANGE a correct node sends when its timer fires is counted by the correct leader it is addressed to, unless
   that leader has already passed the view *)
Theorem honest_view_change_is_counted cs cr wm shut xs h v to vt blk wm' shut' xr : SInv cs xs ->
  In (OSend to (MVC vt blk)) (tc_out (move_to_next_leader cs wm shut xs h v)) -> ~ In (OSend to (MVC vt blk)) (tc_out xs) ->
  c_inst cr = c_inst cs -> t_cm (tc_t xr) = t_cm (tc_t xs) -> t_h (tc_t xr) = t_h (tc_t xs) ->
  leaderOf (t_cm (tc_t xr)) (v_view vt) = c_me cr -> tc_v xr <= v_view vt ->
  has_vc (tc_t (handle_vc cr wm' shut' xr vt blk)) (v_view vt) (c_me cs) = true.
Proof.
  intros SI Hin Hnot Hinst Hcm Hh Hl Hv.
  destruct (vote_carries_lock cs wm shut xs h v to vt blk SI Hin Hnot) as (_ & Vh & Vty & Vin & Vs & _ & VP).
  assert (VS : vote_spec cr (t_cm (tc_t xr)) (t_h (tc_t xr)) (v_view vt) vt).
  { apply (vote_spec_inst cs cr); [auto|]. rewrite Hcm, Hh. constructor; auto.
    - rewrite Vs. cbn. apply (si_me _ _ SI).
    - rewrite Vs. reflexivity.
    - intros p Ep. destruct (t_prepared (tc_t xs)); [destruct VP as (p' & b & E1 & PS & _); rewrite Ep in E1; inversion E1; subst; exact PS|destruct VP as [E1 _]; congruence]. }
  replace (c_me cs) with (s_id (v_snd vt)) by (rewrite Vs; reflexivity).
  apply view_change_counted; auto.
  destruct (t_prepared (tc_t xs)).
  - destruct VP as (p' & b & E1 & _ & _ & -> & Cm). rewrite E1, Vh. exact Cm.
  - destruct VP as [-> ->]. exact Logic.I.
Qed.

(* ================= NEW_VIEW ================= *)
(* the vote storage holds one vote per sender and view *)
Definition vinv (t : tstate) : Prop := forall v, NoDup (map (fun e => s_id (v_snd (fst e))) (votes_of t v)).

Lemma votes_of_app l1 l2 t v : t_vc t = l1 ++ l2 -> votes_of t v = map snd (filter (fun e => N.eqb (fst e) v) l1) ++ map snd (filter (fun e => N.eqb (fst e) v) l2).
Proof. intro E0. unfold votes_of. rewrite E0, filter_app, map_app. reflexivity. Qed.

Lemma vinv_step c e x x' : step_sum c e x x' -> vinv (tc_t x) -> vinv (tc_t x').
Proof.
  intros S V. destruct (ss_vceq _ _ _ _ S) as [E0|(v0 & vt & b & E0 & Hn)]; intro v; unfold votes_of; rewrite E0; [apply V|].
  rewrite filter_app, map_app, map_app. cbn [filter fst]. destruct (N.eqb_spec v0 v) as [->|]; cbn [map snd fst]; [|rewrite app_nil_r; apply V].
  apply NoDup_app_one; [apply V|]. unfold has_vc in Hn. apply memN_false_In. exact Hn.
Qed.

Theorem trun_vinv c wm shut H cm fresh lead evs : total cm < W64 -> isMember cm (c_me c) = true -> Forall (tev_ok c H) evs ->
  vinv (tc_t (trun c wm shut H cm fresh lead evs)).
Proof.
  intros Hw Hm F.
  assert (G : forall pre, (exists post, evs = pre ++ post) -> vinv (tc_t (trun c wm shut H cm fresh lead pre))).
  { intros pre. induction pre as [|e pre IH] using rev_ind; intros [post E0].
    - destruct (tstart_own c wm shut H cm fresh lead) as (_ & _ & _ & _ & _ & _ & Vc & _). cbn zeta in Vc. unfold trun. cbn [fold_left]. intro v. unfold votes_of. rewrite Vc. constructor.
    - assert (Fp : Forall (tev_ok c H) pre /\ tev_ok c H e).
      { rewrite E0 in F. apply Forall_app in F. destruct F as [F1 _]. apply Forall_app in F1. destruct F1 as [F1 F2]. inversion F2; auto. }
      destruct Fp as [Fp Fe].
      assert (Ex : exists post0, evs = pre ++ post0) by (exists (e :: post); rewrite E0, <- app_assoc; reflexivity).
      specialize (IH Ex). unfold trun in *. rewrite fold_left_app. cbn [fold_left].
      destruct (trun_inv c wm shut H cm fresh lead pre Hw Fp) as (TI & Hh & _). pose proof (trun_sinv c wm shut H cm fresh lead pre Hw Hm Fp) as SI.
      unfold trun in *. eapply vinv_step; [|exact IH]. apply (tstep_sum c H); assumption. }
  apply (G evs). exists []. symmetry. apply app_nil_r.
Qed.

(* the leader (block extractor over the stored vote/block pairs) and the receiver (over the embedded votes) pick the same vote *)
Lemma latest_same (vs : list (vote * option block)) :
  (forall vt ob, In (vt, ob) vs -> (ob = None <-> v_proof vt = None)) ->
  match latest_block_aux vs with
  | Some (w, q, b) => latest_vote (map fst vs) = Some w /\ v_proof w = Some q
  | None => latest_vote (map fst vs) = None
  end.
Proof.
  induction vs as [|[vt ob] r IH]; intro Hc; [reflexivity|]. cbn [latest_block_aux map fst latest_vote].
  assert (Hc' : forall vt' ob', In (vt', ob') r -> (ob' = None <-> v_proof vt' = None)) by (intros; apply Hc; right; assumption).
  specialize (IH Hc'). pose proof (Hc vt ob (or_introl eq_refl)) as Hhd.
  destruct ob as [b|], (v_proof vt) as [p|] eqn:Ep.
  - destruct (latest_block_aux r) as [[[w q] b']|].
    + destruct IH as [-> Eq]. rewrite Eq. destruct (N.ltb _ _); [auto|split; [reflexivity|exact Ep]].
    + rewrite IH. split; [reflexivity|exact Ep].
  - exfalso. destruct Hhd as [_ Hx]. specialize (Hx eq_refl). discriminate.
  - exfalso. destruct Hhd as [Hx _]. specialize (Hx eq_refl). discriminate.
  - destruct (latest_block_aux r) as [[[w q] b']|]; [destruct IH as [-> Eq]; rewrite Eq; auto|exact IH].
Qed.

Section NewView.
Variable c : ncfg. Variable wm : option hv. Variable shut : bool.

(* receiver side: a NEW_VIEW with a well-formed certificate for a view the node has not passed and has no proposal for
   makes it move to the view and PREPARE the proposal *)
Theorem new_view_adopted x ninst nh nvw vs sg pp pps b :
  tc_v x <= nvw -> s_ok sg = true -> s_id sg = leaderOf (t_cm (tc_t x)) nvw ->
  votes_ok (tc_t x) nh nvw vs = true -> r_view pp = nvw -> r_height pp = nh ->
  forallb (vote_valid c (t_cm (tc_t x)) (t_h (tc_t x))) vs = true ->
  validate_pp c (tc_t x) pp pps = true ->
  match latest_vote vs with
  | Some lv => exists p, v_proof lv = Some p /\ commitsTo nh b (r_hash (pf_ppref p)) = true /\ r_hash pp = r_hash (pf_ppref p)
  | None => ctx_ok wm shut (t_h (tc_t x), tc_v x) = true /\ validProposal (c_me c) (r_height pp) b (r_hash pp) = true
  end ->
  let x' := handle_nv c wm shut x T_NEW_VIEW ninst nh nvw vs sg pp pps b in
  tc_v x' = nvw /\ In (nvw, r_hash pp) (E x') /\ exists en, get_pp (tc_t x') nvw = Some en /\ pe_ref en = pp.
Proof.
  intros Hv Sok Sid VO Pv Ph VV VP BL. cbn zeta. unfold handle_nv.
  destruct (N.ltb_spec nvw (tc_v x)); [lia|]. rewrite N.eqb_refl, Sok, Sid, N.eqb_refl, VO, Pv, Ph, !N.eqb_refl, VV, VP. cbn [negb].
  assert (K : let x' := match init_view nvw (tc_set_t (set_latest nvw (tc_t x)) x) with Some x1 => process_pp c wm shut x1 pp pps b | None => tc_set_t (set_latest nvw (tc_t x)) x end in
              tc_v x' = nvw /\ In (nvw, r_hash pp) (E x') /\ exists en, get_pp (tc_t x') nvw = Some en /\ pe_ref en = pp).
  { cbn zeta. unfold init_view. cbn [tc_set_t tc_v]. destruct (N.ltb_spec nvw (tc_v x)); [lia|].
    set (x1 := tc_emit _ _).
    assert (Hn0 : get_pp (tc_t x) (r_view pp) = None) by (apply (validate_pp_none c (tc_t x) pp pps VP)).
    assert (Hn1 : get_pp (tc_t x1) (r_view pp) = None) by (subst x1; cbn [tc_emit tc_set_v tc_set_t tc_t]; exact Hn0).
    destruct (process_pp_own c wm shut x1 pp pps b Hn1) as [[Hne _]|[_ PS]].
    - exfalso. apply Hne. subst x1. cbn [tc_emit tc_set_v tc_v]. symmetry. exact Pv.
    - cbn zeta in PS. pose proof (ps_v _ _ _ _ _ _ PS) as S1. pose proof (ps_E _ _ _ _ _ _ PS) as S2. pose proof (ps_stored _ _ _ _ _ _ PS) as S3. rewrite Pv in *.
      split; [rewrite S1; subst x1; reflexivity|]. split; [rewrite S2; left; reflexivity|]. eexists. split; [exact S3|reflexivity]. }
  destruct (latest_vote vs) as [lv|].
  - destruct BL as (p & Ep & Cm & Eh). rewrite Ep, Cm, Eh, N.eqb_refl. cbn [negb]. rewrite <- Eh. exact K.
  - destruct BL as [Cx Vp]. rewrite ?Ph in Vp. rewrite Cx, Vp. cbn [negb]. exact K.
Qed.
End NewView.

(* the NEW_VIEW an elected leader sends, exactly *)
Section NewViewSender.
Variable c : ncfg. Variable wm : option hv. Variable shut : bool.

Definition is_mnv (o : out) : bool := match o with OSend _ (MNV _ _ _ _ _ _ _ _ _) => true | _ => false end.

Lemma on_elected_nv_shape x v vs o : is_mnv o = true -> In o (tc_out (on_elected c wm shut x v vs)) -> In o (tc_out x) \/
  exists b h, o = OSend (others c (t_cm (tc_t x))) (MNV T_NEW_VIEW (c_inst c) (t_h (tc_t x)) v (map fst vs) (my_sig c) (mk_ref T_PREPREPARE c (t_h (tc_t x)) v h) (my_sig c) (Some b)) /\
    (latest_block vs = Some (b, h) \/ latest_block vs = None).
Proof.
  intros Ho Hin. unfold on_elected, init_view in Hin. cbn [tc_set_t tc_v] in Hin.
  destruct (N.ltb _ _); [left; exact Hin|].
  destruct (latest_block vs) as [[b h]|] eqn:El.
  - unfold send_all in Hin. cbn [tc_emit tc_set_t tc_set_v tc_out tc_t set_latest t_h t_cm] in Hin.
    assert (Ecm : t_cm (store_pp v {| pe_ref := mk_ref T_PREPREPARE c (t_h (tc_t x)) v h; pe_snd := my_sig c; pe_blk := Some b |} (set_latest v (tc_t x))) = t_cm (tc_t x))
      by (unfold store_pp; destruct (get_pp _ _); reflexivity).
    rewrite Ecm in Hin. destruct Hin as [<-|Hin]; [right; exists b, h; auto|].
    destruct (has_pp _ _); cbn [tc_emit tc_out] in Hin; repeat (destruct Hin as [Hin|Hin]; [subst o; discriminate Ho|]); left; exact Hin.
  - destruct (negb _).
    + cbn [tc_emit tc_set_v tc_set_t tc_out] in Hin. destruct Hin as [Hin|Hin]; [subst o; discriminate Ho|left; exact Hin].
    + unfold send_all in Hin. cbn [tc_bump tc_emit tc_set_t tc_set_v tc_out tc_t set_latest t_h t_cm tc_fresh] in Hin.
      match type of Hin with context [store_pp v ?en ?t0] => assert (Ecm : t_cm (store_pp v en t0) = t_cm (tc_t x)) by (unfold store_pp; destruct (get_pp _ _); reflexivity) end.
      rewrite Ecm in Hin. destruct Hin as [<-|Hin]; [right; eexists; eexists; split; [reflexivity|right; reflexivity]|].
      destruct (has_pp _ _); cbn [tc_emit tc_out] in Hin; repeat (destruct Hin as [Hin|Hin]; [subst o; discriminate Ho|]); left; exact Hin.
Qed.
End NewViewSender.

(* NEW_VIEW: the certificate a correct leader sends is adopted by every correct member at that height whose view is
   not higher and that has no proposal for the view yet (and, when no vote carries a lock, whose validator accepts the
   leader's fresh block while its context for the view is live) *)
Theorem honest_new_view_is_adopted cs cr wm shut xa v o wm' shut' xr :
  SInv cs xa -> vinv (tc_t xa) -> is_mnv o = true ->
  In o (tc_out (check_elected cs wm shut xa v)) -> ~ In o (tc_out xa) ->
  leaderOf (t_cm (tc_t xa)) v = c_me cs ->
  c_inst cr = c_inst cs -> t_cm (tc_t xr) = t_cm (tc_t xa) -> t_h (tc_t xr) = t_h (tc_t xa) ->
  tc_v xr <= v -> get_pp (tc_t xr) v = None ->
  exists to ty i h vs s pp pps b, o = OSend to (MNV ty i h v vs s pp pps b) /\
    (((forall vt, In vt vs -> v_proof vt = None) -> ctx_ok wm' shut' (t_h (tc_t xr), tc_v xr) = true /\ validProposal (c_me cr) h b (r_hash pp) = true) ->
     let x' := handle_nv cr wm' shut' xr ty i h v vs s pp pps b in tc_v x' = v /\ In (v, r_hash pp) (E x')).
Proof.
  intros SI VI Ho Hin Hnot Hl Hinst Hcm Hh Hv Hnone.
  unfold check_elected in Hin. destruct (N.leb _ _); [contradiction|].
  destruct (votes_of (tc_t xa) v) as [|e0 r0] eqn:Ev; [contradiction|]. rewrite <- Ev in *.
  destruct (isQ_ids (t_cm (tc_t xa)) (map (fun e => s_id (v_snd (fst e))) (votes_of (tc_t xa) v))) eqn:Q; [|contradiction].
  destruct (on_elected_nv_shape cs wm shut xa v (votes_of (tc_t xa) v) o Ho Hin) as [?|(b & h & -> & LB)]; [contradiction|].
  set (vs := votes_of (tc_t xa) v) in *.
  do 9 eexists. split; [reflexivity|]. intros HB. cbn zeta.
  assert (VG : forall vt ob, In (vt, ob) vs -> vc_good cs (tc_t xa) v vt ob) by (intros vt ob Hi; apply (si_vc _ _ SI); apply votes_of_In; exact Hi).
  assert (R : let x' := handle_nv cr wm' shut' xr T_NEW_VIEW (c_inst cs) (t_h (tc_t xa)) v (map fst vs) (my_sig cs) (mk_ref T_PREPREPARE cs (t_h (tc_t xa)) v h) (my_sig cs) (Some b) in
              tc_v x' = v /\ In (v, r_hash (mk_ref T_PREPREPARE cs (t_h (tc_t xa)) v h)) (E x') /\ exists en, get_pp (tc_t x') v = Some en /\ pe_ref en = mk_ref T_PREPREPARE cs (t_h (tc_t xa)) v h).
  { apply new_view_adopted; auto.
    - cbn. rewrite Hcm. symmetry. exact Hl.
    - unfold votes_ok. rewrite Hcm, map_map. rewrite Q. cbn [andb]. apply andb_true_iff. split.
      + apply forallb_forall. intros vt Hvt. apply in_map_iff in Hvt. destruct Hvt as ([vt' ob] & <- & Hi). destruct (VG _ _ Hi) as (A & B & _). cbn [fst]. rewrite A, B, !N.eqb_refl. reflexivity.
      + apply nodupN_NoDup. rewrite ?map_map. apply VI.
    - apply forallb_forall. intros vt Hvt. apply in_map_iff in Hvt. destruct Hvt as ([vt' ob] & <- & Hi). destruct (VG _ _ Hi) as (A & B & VS & _). cbn [fst].
      rewrite Hcm, Hh. apply vote_spec_valid. rewrite A. apply (vote_spec_inst cs cr); auto.
    - unfold validate_pp. cbn [mk_ref r_view r_type r_inst]. rewrite Hnone, !N.eqb_refl, Hinst, N.eqb_refl. cbn. rewrite Hcm, Hl, N.eqb_refl. reflexivity.
    - assert (CS : forall vt ob, In (vt, ob) vs -> (ob = None <-> v_proof vt = None)).
      { intros vt ob Hi. destruct (VG _ _ Hi) as (_ & _ & _ & M). destruct ob, (v_proof vt); try contradiction; split; intro; try discriminate; reflexivity. }
      pose proof (latest_same vs CS) as LS. unfold latest_block in LB.
      destruct (latest_block_aux vs) as [[[w q] b']|] eqn:Ea.
      + destruct LS as [LS1 LS2]. rewrite LS1. destruct LB as [LB|LB]; [|discriminate]. inversion LB; subst b' h. exists q. split; [exact LS2|].
        pose proof (latest_block_aux_spec vs) as SP. rewrite Ea in SP. destruct SP as (Hi & _ & _). destruct (VG _ _ Hi) as (_ & _ & VS & M). rewrite LS2 in M.
        destruct (vs_proof _ _ _ _ _ VS q LS2) as [_ _ _ [_ Sh] _ _ _ _ _]. split; [exact M|]. cbn [mk_ref r_hash]. exact Sh.
      + rewrite LS. apply HB. pose proof (latest_vote_spec (map fst vs)) as SP. rewrite LS in SP. exact SP. }
  cbn zeta in R. destruct R as (A & B & _). split; [exact A|exact B].
Qed.
