(* RuntimeFacts.v — every run of the two-goroutine model (Loops.v), projected to what the worker lets the outside
   see, is accepted by the trace automaton of Runtime.v. The acceptor evaluated on the real runtime's observation
   sequences therefore demands nothing the model does not guarantee; a rejected real trace is behaviour the model
   does not have. (The converse - every accepted sequence is a projection of a model run - is not proved.) *)
From Coq Require Import Sorted.
From LH Require Import Prims Contexts ContextsFacts Loops LoopsFacts Runtime.
Open Scope N_scope.

Definition nr_fires (h : N) (s : lstate) : bool := fst (reg_for (h, 0) (l_reg s)) && negb (N.leb h (l_wh s)).
Definition obs_new_round (h : N) (lead : bool) (s : lstate) : list robs :=
  if nr_fires h s then [RStop; RArm h 0; RNewRound h lead] else [].
Definition obs_block (b : option hv) : list robs := match b with Some k => [RSpi (fst k)] | None => [] end.
Definition obs_effect (e : weffect) (s : lstate) : list robs :=
  match e with
  | ENothing => []
  | EView v => [RArm (l_wh s) v]
  | ECommitNext b => RCommit (l_wh s) :: obs_new_round (l_wh s + 1) true s ++ obs_block b
  | EBlockOn k => [RSpi (fst k)]
  end.
Definition obs_of (s : lstate) (l : label) : list robs :=
  match l with
  | LWorkerMsg e | LSpiReturn e | LSpiReleased e => obs_effect e s
  | LWorkerElect b =>
      match l_elect s with
      | Some (h, v) => if N.eqb h (l_wh s) && N.eqb v (l_wv s) then [RAct h v; RArm h (v + 1)] ++ obs_block b else []
      | None => []
      end
  | LWorkerSync b =>
      match l_upd s with
      | Some hb => if N.leb (l_wh s) hb then obs_new_round (hb + 1) false s ++ obs_block b else []
      | None => []
      end
  | LWorkerExit => [RStop; RExited]
  | _ => []
  end.
Fixpoint lobs (s : lstate) (ls : list label) : list robs :=
  match ls with
  | [] => []
  | l :: rest => obs_of s l ++ match lstep s l with Some s' => lobs s' rest | None => [] end
  end.

Definition is_exited (s : lstate) : bool := match l_worker s with WExited => true | _ => false end.
Definition mk (a : option (N * N)) (s : lstate) : rstate :=
  {| r_h := l_wh s; r_v := l_wv s; r_armed := a; r_pending := None; r_exited := is_exited s |}.
(* the automaton's timer state covers every trigger for the current position that is armed or on its way to the worker *)
Definition covers (s : lstate) (a : option (N * N)) : Prop :=
  is_exited s = false -> forall h v, (l_elect s = Some (h, v) \/ l_main s = MFwdTrig h v \/ l_armed s = Some (h, v)) ->
  h = l_wh s -> v = l_wv s -> a = Some (l_wh s, l_wv s).

Ltac rtc := cbn [rt_run rt_step r_exited r_h r_v r_armed r_pending].

Lemma rt_run_app r os1 os2 r1 : rt_run r os1 = Some r1 -> rt_run r (os1 ++ os2) = rt_run r1 os2.
Proof.
  revert r. induction os1 as [|o os1 IH]; intros r H; cbn [rt_run app] in *; [inversion H; reflexivity|].
  destruct (rt_step r o); [apply IH; exact H|discriminate].
Qed.

Lemma new_round_fires h s : nr_fires h s = true ->
  l_wh (new_round h s) = h /\ l_wv (new_round h s) = 0 /\ l_armed (new_round h s) = Some (h, 0) /\ l_wh s < h /\
  l_worker (new_round h s) = l_worker s /\ l_elect (new_round h s) = l_elect s /\ l_main (new_round h s) = l_main s.
Proof.
  unfold nr_fires, new_round. intro H. apply andb_true_iff in H. destruct H as [H1 H2]. rewrite H1. cbn [negb].
  destruct (N.leb_spec h (l_wh s)); [discriminate|]. cbn. auto 10.
Qed.
Lemma new_round_idle h s : nr_fires h s = false ->
  l_wh (new_round h s) = l_wh s /\ l_wv (new_round h s) = l_wv s /\ l_armed (new_round h s) = l_armed s /\
  l_worker (new_round h s) = l_worker s /\ l_elect (new_round h s) = l_elect s /\ l_main (new_round h s) = l_main s.
Proof.
  unfold nr_fires, new_round. intro H. destruct (fst (reg_for (h, 0) (l_reg s))); cbn [negb andb] in *; [|auto 10].
  destruct (N.leb h (l_wh s)); [cbn; auto 10|discriminate].
Qed.
Lemma enter_spi_fields k s s' : enter_spi k s = Some s' ->
  l_wh s' = l_wh s /\ l_wv s' = l_wv s /\ l_armed s' = l_armed s /\ l_elect s' = l_elect s /\ l_main s' = l_main s /\ l_worker s' = WBusy k.
Proof. unfold enter_spi. destruct (fst _); [|discriminate]. intro H; inversion H; subst. cbn. auto 10. Qed.

Lemma covers_current s a : a = Some (l_wh s, l_wv s) -> covers s a.
Proof. intros -> _ h v _ _ _. reflexivity. Qed.

(* the new-round part of a worker step *)
Lemma new_round_obs h lead s a : is_exited s = false ->
  exists a', rt_run (mk a s) (obs_new_round h lead s) = Some (mk a' (new_round h s)) /\
             (nr_fires h s = true -> a' = Some (h, 0)) /\ (nr_fires h s = false -> a' = a).
Proof.
  intros Hx. unfold obs_new_round. destruct (nr_fires h s) eqn:F.
  - destruct (new_round_fires h s F) as (A & B & C & D & E & _). exists (Some (h, 0)). split; [|split; [reflexivity|discriminate]].
    unfold mk. rewrite Hx. rtc.
    replace (N.eqb h (l_wh s)) with false by (symmetry; apply N.eqb_neq; lia).
    replace (N.ltb (l_wh s) h) with true by (symmetry; apply N.ltb_lt; lia). cbn [andb N.eqb]. rtc. rewrite N.eqb_refl.
    unfold is_exited. rewrite E, A, B. unfold is_exited in Hx. destruct (l_worker s); try discriminate; reflexivity.
  - destruct (new_round_idle h s F) as (A & B & C & E & _). exists a. split; [|split; [discriminate|reflexivity]].
    cbn [rt_run]. unfold mk, is_exited. rewrite A, B, E. reflexivity.
Qed.

Lemma block_obs b s s' a : is_exited s = false -> l_worker s = WSelect ->
  match b with None => Some s | Some k => if N.eqb (fst k) (l_wh s) then enter_spi k s else None end = Some s' ->
  rt_run (mk a s) (obs_block b) = Some (mk a s') /\ l_wh s' = l_wh s /\ l_wv s' = l_wv s /\ l_armed s' = l_armed s /\ l_elect s' = l_elect s /\ l_main s' = l_main s /\ is_exited s' = false.
Proof.
  intros Hx Hw H. destruct b as [k|]; cbn [obs_block rt_run].
  - destruct (N.eqb_spec (fst k) (l_wh s)) as [E|]; [|discriminate]. destruct (enter_spi_fields _ _ _ H) as (A & B & C & D & F & G).
    unfold mk. rewrite Hx. rtc. rewrite E, N.eqb_refl. unfold is_exited. rewrite A, B, G. auto 10.
  - inversion H; subst. auto 10.
Qed.

Lemma effect_obs e s s' a : LInv2 s -> covers s a -> l_worker s = WSelect -> apply_effect e s = Some s' ->
  exists a', rt_run (mk a s) (obs_effect e s) = Some (mk a' s') /\ covers s' a'.
Proof.
  intros I2 Hc Hw H. assert (Hx : is_exited s = false) by (unfold is_exited; rewrite Hw; reflexivity).
  destruct e as [|v|b|k]; cbn [apply_effect obs_effect] in *.
  - inversion H; subst. exists a. split; [reflexivity|exact Hc].
  - destruct (N.ltb_spec v (l_wv s)) as [Hlt|Hge]; [discriminate|]. inversion H; subst; clear H.
    exists (Some (l_wh s, v)). split; [|apply covers_current; reflexivity].
    unfold mk. rewrite Hx. rtc. rewrite N.eqb_refl.
    replace (N.ltb v (l_wv s)) with false by (symmetry; apply N.ltb_ge; exact Hge). unfold is_exited. cbn. reflexivity.
  - destruct (new_round_obs (l_wh s + 1) true s a Hx) as (a1 & R1 & F1 & F2).
    set (s1 := new_round (l_wh s + 1) s) in *.
    assert (Hw1 : l_worker s1 = WSelect).
    { destruct (nr_fires (l_wh s + 1) s) eqn:F; [destruct (new_round_fires _ _ F) as (_ & _ & _ & _ & E & _)|destruct (new_round_idle _ _ F) as (_ & _ & _ & E & _)]; subst s1; rewrite E; exact Hw. }
    assert (Hx1 : is_exited s1 = false) by (unfold is_exited; rewrite Hw1; reflexivity).
    destruct (block_obs b s1 s' a1 Hx1 Hw1 H) as (R2 & A & B & C & D & E & Hx').
    exists a1. split.
    + cbn [rt_run]. assert (S0 : rt_step (mk a s) (RCommit (l_wh s)) = Some (mk a s)).
      { unfold mk. rewrite Hx. rtc. rewrite N.eqb_refl. reflexivity. }
      rewrite S0. rewrite (rt_run_app _ _ _ _ R1). exact R2.
    + intros _ h v Hin Hh Hv. rewrite A, B in *. rewrite D, E, C in Hin.
      destruct (nr_fires (l_wh s + 1) s) eqn:F.
      * destruct (new_round_fires _ _ F) as (P1 & P2 & _). rewrite (F1 eq_refl). subst s1. rewrite P1, P2. reflexivity.
      * destruct (new_round_idle _ _ F) as (P1 & P2 & P3 & P4 & P5 & P6). rewrite (F2 eq_refl). subst s1. rewrite P1, P2 in *. rewrite P3, P5, P6 in Hin.
        apply (Hc Hx h v Hin Hh Hv).
  - destruct (block_obs (Some k) s s' a Hx Hw H) as (R2 & A & B & C & D & E & Hx').
    exists a. split; [exact R2|]. intros _ h v Hin Hh Hv. rewrite A, B in *. rewrite C, D, E in Hin. apply (Hc Hx h v Hin Hh Hv).
Qed.

Lemma unbusy_fields s : l_wh (set_worker WSelect s) = l_wh s /\ l_wv (set_worker WSelect s) = l_wv s. Proof. split; reflexivity. Qed.

Lemma step_obs s l s' a : LInv s -> LInv2 s -> covers s a -> lstep s l = Some s' ->
  exists a', rt_run (mk a s) (obs_of s l) = Some (mk a' s') /\ covers s' a'.
Proof.
  intros I I2 Hc H.
  (* main-loop steps: nothing is observed, the worker's fields stay *)
  assert (MAIN : obs_of s l = [] -> l_wh s' = l_wh s -> l_wv s' = l_wv s -> l_worker s' = l_worker s ->
                 (forall h v, (l_elect s' = Some (h, v) \/ l_main s' = MFwdTrig h v \/ l_armed s' = Some (h, v)) -> h = l_wh s -> v = l_wv s ->
                              (l_elect s = Some (h, v) \/ l_main s = MFwdTrig h v \/ l_armed s = Some (h, v))) ->
                 exists a', rt_run (mk a s) (obs_of s l) = Some (mk a' s') /\ covers s' a').
  { intros Eo E1 E2 E3 K. exists a. rewrite Eo. cbn [rt_run]. unfold mk, is_exited. rewrite E1, E2, E3. split; [reflexivity|].
    intros Hx h v Hin Hh Hv. unfold is_exited in Hx. rewrite E3 in Hx. rewrite E1, E2 in *. apply (Hc Hx h v); auto. }
  destruct l; cbn [lstep] in H.
  - (* LCancel *) inversion H; subst; clear H. apply MAIN; try reflexivity; cbn; auto.
  - (* LApiSync *) destruct (l_main s) eqn:Em; try discriminate.
    destruct (match l_maxsync (gc s) with Some mx => hb <=? mx | None => false end).
    + inversion H; subst; clear H. apply MAIN; try reflexivity; cbn; intros h v [X|[X|X]]; auto; rewrite Em in X; discriminate.
    + destruct (fst (reg_for _ _)); inversion H; subst; clear H; apply MAIN; try reflexivity; cbn; intros h v [X|[X|X]]; auto; try discriminate.
      rewrite Em in X. discriminate.
  - (* LApiMsg *) destruct (l_main s) eqn:Em; try discriminate. inversion H; subst; clear H. apply MAIN; try reflexivity; cbn; intros h v [X|[X|X]]; auto; discriminate.
  - (* LTimerTrig *) destruct (l_main s) eqn:Em; try discriminate. destruct (l_armed s) as [[ah av]|] eqn:Ea; try discriminate.
    destruct (fst (reg_for _ _)); inversion H; subst; clear H; apply MAIN; try reflexivity; cbn; intros h v [X|[X|X]]; auto; try discriminate.
    + inversion X; subst. auto.
    + rewrite Em in X. discriminate.
  - (* LTimerStale *) destruct (l_main s) eqn:Em; try discriminate. destruct (hv_lt (h, v) (l_wh s, l_wv s)) eqn:Eold; cbn [negb] in H; [|discriminate].
    destruct (fst (reg_for _ _)); inversion H; subst; clear H; apply MAIN; try reflexivity; cbn; intros h' v' [X|[X|X]]; auto; try discriminate.
    + inversion X; subst. intros -> ->. apply hv_lt_spec in Eold. cbn in Eold. lia.
    + rewrite Em in X. discriminate.
  - (* LMainFwd *) destruct (l_main s) eqn:Em; try discriminate; inversion H; subst; clear H; apply MAIN; try reflexivity; cbn; intros h' v' [X|[X|X]]; auto; try discriminate.
    inversion X; subst. auto.
  - (* LMainFwdAbort *) destruct (l_cancelled s); [|discriminate]. destruct (l_main s) eqn:Em; try discriminate; inversion H; subst; clear H; apply MAIN; try reflexivity; cbn; intros h' v' [X|[X|X]]; auto; discriminate.
  - (* LMainExit *) destruct (l_cancelled s); [|discriminate]. destruct (l_main s) eqn:Em; try discriminate; inversion H; subst; clear H; apply MAIN; try reflexivity; cbn; intros h' v' [X|[X|X]]; auto; discriminate.
  - (* LWorkerExit *) destruct (l_cancelled s); [|discriminate]. destruct (l_worker s) eqn:Ew; try discriminate. inversion H; subst; clear H.
    exists None. split; [|intros Hx; discriminate Hx].
    cbn [obs_of]. unfold mk, is_exited. rewrite Ew. rtc. reflexivity.
  - (* LWorkerMsg *) destruct (l_worker s) eqn:Ew; try discriminate. destruct (l_msgs s) as [|k] eqn:Ek; try discriminate.
    set (s0 := {| l_cancelled := l_cancelled s; l_main := l_main s; l_worker := WSelect; l_wh := l_wh s; l_wv := l_wv s; l_armed := l_armed s;
                  l_reg := l_reg s; l_maxsync := l_maxsync s; l_upd := l_upd s; l_elect := l_elect s; l_msgs := k; l_rounds := l_rounds s |}) in *.
    assert (I0 : LInv2 s0) by (destruct I2 as [A B C D E F G]; constructor; auto).
    assert (C0 : covers s0 a) by (intros Hx h v Hin Hh Hv; apply (Hc ltac:(unfold is_exited; rewrite Ew; reflexivity) h v Hin Hh Hv)).
    destruct (effect_obs e s0 s' a I0 C0 eq_refl H) as (a' & R & C'). exists a'. split; [|exact C'].
    cbn [obs_of]. replace (obs_effect e s) with (obs_effect e s0) by (destruct e; reflexivity).
    replace (mk a s) with (mk a s0) by (unfold mk, is_exited; rewrite Ew; reflexivity). exact R.
  - (* LWorkerElect *) destruct (l_worker s) eqn:Ew; try discriminate. destruct (l_elect s) as [[h v]|] eqn:Ee; try discriminate. fields.
    assert (Hx : is_exited s = false) by (unfold is_exited; rewrite Ew; reflexivity).
    cbn [obs_of]. rewrite Ee. destruct (N.eqb h (l_wh s) && N.eqb v (l_wv s)) eqn:Ehv.
    + apply andb_true_iff in Ehv. destruct Ehv as [Eh Ev]. apply N.eqb_eq in Eh, Ev. subst h v.
      set (s1 := {| l_cancelled := l_cancelled s; l_main := l_main s; l_worker := WSelect; l_wh := l_wh s; l_wv := l_wv s + 1; l_armed := Some (l_wh s, l_wv s + 1);
                    l_reg := l_reg s; l_maxsync := l_maxsync s; l_upd := l_upd s; l_elect := None; l_msgs := l_msgs s; l_rounds := l_rounds s |}) in *.
      assert (Ha : a = Some (l_wh s, l_wv s)) by (apply (Hc Hx (l_wh s) (l_wv s)); auto).
      assert (Hx1 : is_exited s1 = false) by reflexivity.
      destruct (block_obs block s1 s' (Some (l_wh s, l_wv s + 1)) Hx1 eq_refl H) as (R2 & A & B & C & D & E & Hx').
      exists (Some (l_wh s, l_wv s + 1)). split.
      * assert (S0 : rt_run (mk a s) [RAct (l_wh s) (l_wv s); RArm (l_wh s) (l_wv s + 1)] = Some (mk (Some (l_wh s, l_wv s + 1)) s1)).
        { unfold mk. rewrite Hx, Ha. rtc. rewrite !N.eqb_refl. cbn [andb]. rtc. rewrite N.eqb_refl.
          replace (N.ltb (l_wv s + 1) (l_wv s)) with false by (symmetry; apply N.ltb_ge; lia). reflexivity. }
        rewrite (rt_run_app _ _ _ _ S0). exact R2.
      * apply covers_current. rewrite A, B. reflexivity.
    + destruct block; [discriminate|]. inversion H; subst; clear H. exists a. split; [cbn [rt_run]; unfold mk, is_exited; cbn; rewrite Ew; reflexivity|].
      intros _ h' v' Hin Hh Hv. cbn in *. apply (Hc Hx h' v'); auto. destruct Hin as [X|[X|X]]; auto. discriminate.
  - (* LWorkerSync *) destruct (l_worker s) eqn:Ew; try discriminate. destruct (l_upd s) as [hb|] eqn:Eu; try discriminate.
    set (s0 := {| l_cancelled := l_cancelled s; l_main := l_main s; l_worker := WSelect; l_wh := l_wh s; l_wv := l_wv s; l_armed := l_armed s;
                  l_reg := l_reg s; l_maxsync := l_maxsync s; l_upd := None; l_elect := l_elect s; l_msgs := l_msgs s; l_rounds := l_rounds s |}) in *.
    assert (Hx : is_exited s = false) by (unfold is_exited; rewrite Ew; reflexivity).
    assert (Hx0 : is_exited s0 = false) by reflexivity.
    assert (M0 : mk a s = mk a s0) by (unfold mk, is_exited; rewrite Ew; reflexivity).
    cbn [obs_of]. rewrite Eu. change (l_wh s) with (l_wh s0). destruct (N.leb (l_wh s0) hb).
    + destruct (new_round_obs (hb + 1) false s0 a Hx0) as (a1 & R1 & F1 & F2).
      change (obs_new_round (hb + 1) false s) with (obs_new_round (hb + 1) false s0).
      set (s1 := new_round (hb + 1) s0) in *.
      assert (Hw1 : l_worker s1 = WSelect).
      { destruct (nr_fires (hb + 1) s0) eqn:F; [destruct (new_round_fires _ _ F) as (_ & _ & _ & _ & E & _)|destruct (new_round_idle _ _ F) as (_ & _ & _ & E & _)]; subst s1; rewrite E; reflexivity. }
      assert (Hx1 : is_exited s1 = false) by (unfold is_exited; rewrite Hw1; reflexivity).
      destruct (block_obs block s1 s' a1 Hx1 Hw1 H) as (R2 & A & B & C & D & E & Hx').
      exists a1. split; [rewrite M0, (rt_run_app _ _ _ _ R1); exact R2|].
      intros _ h v Hin Hh Hv. rewrite A, B in *. rewrite D, E, C in Hin.
      destruct (nr_fires (hb + 1) s0) eqn:F.
      * destruct (new_round_fires _ _ F) as (P1 & P2 & _). rewrite (F1 eq_refl). subst s1. rewrite P1, P2. reflexivity.
      * destruct (new_round_idle _ _ F) as (P1 & P2 & P3 & P4 & P5 & P6). rewrite (F2 eq_refl). subst s1. rewrite P1, P2 in *. rewrite P3, P5, P6 in Hin.
        apply (Hc Hx h v Hin Hh Hv).
    + destruct block; [discriminate|]. inversion H; subst; clear H. exists a. split; [rewrite M0; reflexivity|].
      intros _ h' v' Hin Hh Hv. apply (Hc Hx h' v' Hin Hh Hv).
  - (* LSpiReturn *) destruct (l_worker s) eqn:Ew; try discriminate.
    assert (Hx : is_exited s = false) by (unfold is_exited; rewrite Ew; reflexivity).
    assert (I0 : LInv2 (set_worker WSelect s)) by (destruct I2 as [A B C D E F G]; constructor; auto).
    assert (C0 : covers (set_worker WSelect s) a) by (intros _ h v Hin Hh Hv; apply (Hc Hx h v Hin Hh Hv)).
    destruct (effect_obs e _ s' a I0 C0 eq_refl H) as (a' & R & C'). exists a'. split; [|exact C'].
    cbn [obs_of]. replace (obs_effect e s) with (obs_effect e (set_worker WSelect s)) by (destruct e; reflexivity).
    replace (mk a s) with (mk a (set_worker WSelect s)) by (unfold mk, is_exited; cbn; rewrite Ew; reflexivity). exact R.
  - (* LSpiReleased *) destruct (l_worker s) eqn:Ew; try discriminate. destruct (ctx_done (l_reg s) k); [|discriminate].
    assert (Hx : is_exited s = false) by (unfold is_exited; rewrite Ew; reflexivity).
    assert (I0 : LInv2 (set_worker WSelect s)) by (destruct I2 as [A B C D E F G]; constructor; auto).
    assert (C0 : covers (set_worker WSelect s) a) by (intros _ h v Hin Hh Hv; apply (Hc Hx h v Hin Hh Hv)).
    destruct (effect_obs e _ s' a I0 C0 eq_refl H) as (a' & R & C'). exists a'. split; [|exact C'].
    cbn [obs_of]. replace (obs_effect e s) with (obs_effect e (set_worker WSelect s)) by (destruct e; reflexivity).
    replace (mk a s) with (mk a (set_worker WSelect s)) by (unfold mk, is_exited; cbn; rewrite Ew; reflexivity). exact R.
Qed.

Lemma run_obs ls : forall s s' a, LInv s -> LInv2 s -> covers s a -> lrun s ls = Some s' ->
  exists a', rt_run (mk a s) (lobs s ls) = Some (mk a' s') /\ covers s' a'.
Proof.
  induction ls as [|l rest IH]; intros s s' a I I2 Hc H; cbn [lrun lobs] in *.
  - inversion H; subst. exists a. split; [reflexivity|exact Hc].
  - destruct (lstep s l) as [s1|] eqn:E; [|discriminate].
    destruct (step_obs s l s1 a I I2 Hc E) as (a1 & R1 & C1).
    destruct (IH s1 s' a1 (lstep_inv _ _ _ I E) (lstep_inv2 _ _ _ I I2 E) C1 H) as (a' & R' & C').
    exists a'. split; [|exact C']. rewrite (rt_run_app _ _ _ _ R1). exact R'.
Qed.

(* every run of the model is accepted *)
Theorem model_runs_are_accepted ls s : lrun l_init ls = Some s -> rt_check (lobs l_init ls) = true.
Proof.
  intro H. assert (C0 : covers l_init None) by (intros _ h v [X|[X|X]]; discriminate).
  destruct (run_obs ls l_init s None LInv_init LInv2_init C0 H) as (a' & R & _).
  unfold rt_check. change r_init with (mk None l_init). rewrite R. reflexivity.
Qed.

(* the acceptor is not trivial: it rejects a round below the current one, an election for a superseded pair, anything after the exit *)
Example acceptor_rejects :
  rt_check [RArm 3 0; RNewRound 3 false; RArm 2 0] = false /\
  rt_check [RArm 1 0; RNewRound 1 false; RArm 1 1; RAct 1 0] = false /\
  rt_check [RArm 1 0; RNewRound 1 false; RStop; RExited; RCommit 1] = false /\
  rt_check [RArm 1 0; RNewRound 1 false; RExited] = false /\
  rt_check [RArm 1 0; RNewRound 1 false; RAct 1 0; RArm 1 1; RSpi 1; RCommit 1; RStop; RArm 2 0; RSpi 2; RNewRound 2 true; RStop; RExited] = true.
Proof. vm_compute. repeat split. Qed.
