(* VBC.v — model of WorkerLoop.ValidateBlockConsensus (workerloop.go) and GetMemberIdsFromBlockProof (mainloop.go)
   on a decoded block proof. [ap_nodes] carry, per signer, the flag "its signature verifies over the proof's block
   reference bytes" (proofsvalidator.VerifyBlockRefMessage); [ap_seed_ok] is the verdict of VerifyRandomSeed for the
   proof's random-seed signature against the seed derived from the previous proof. A proof whose bytes the readers
   cannot read (they panic; the repaired code recovers) is [None]. *)
From LH Require Import Prims Quorum Msg Term.
Open Scope N_scope.

Record aproof := { ap_ref : bref; ap_nodes : list ssig; ap_seed_nonempty : bool; ap_seed_ok : bool }.

Record vbc_cfg := { vc_inst : N; vc_committee : option committee (* None: Membership returned an error *) }.

Definition vbc (c : vbc_cfg) (ctx_cancelled : bool) (blk : option block) (proof_empty : bool) (proof : option aproof) (soft : bool) : bool :=
  if ctx_cancelled then false else
  match blk with
  | None => false
  | Some b =>
    if proof_empty then false else
    match proof with
    | None => false                                                        (* malformed bytes: recovered, error *)
    | Some p =>
      let r := ap_ref p in
      N.eqb (r_type r) T_COMMIT
      && N.eqb (vc_inst c) (r_inst r)
      && N.eqb (b_height b) (r_height r)
      && commitsTo (b_height b) blk (r_hash r)
      && match vc_committee c with
         | None => false
         | Some cm =>
           forallb (fun s => s_ok s && isMember cm (s_id s)) (ap_nodes p)
           && nodupN (map s_id (ap_nodes p))
           && (if soft then hasH (map s_id (ap_nodes p)) cm else isQ (map s_id (ap_nodes p)) cm)
           && ap_seed_nonempty p && ap_seed_ok p
         end
    end
  end.

(* the certificate of the property statement *)
Record cert_spec (c : vbc_cfg) (b : block) (p : aproof) (cm : committee) (soft : bool) : Prop := {
  cs_type : r_type (ap_ref p) = T_COMMIT;
  cs_inst : r_inst (ap_ref p) = vc_inst c;
  cs_height : r_height (ap_ref p) = b_height b;
  cs_hash : commitsTo (b_height b) (Some b) (r_hash (ap_ref p)) = true;
  cs_distinct : NoDup (map s_id (ap_nodes p));
  cs_members : forall s, In s (ap_nodes p) -> isMember cm (s_id s) = true /\ s_ok s = true;
  cs_weight : if soft then hasH (map s_id (ap_nodes p)) cm = true else isQ (map s_id (ap_nodes p)) cm = true;
  cs_seed : ap_seed_nonempty p = true /\ ap_seed_ok p = true
}.

Theorem vbc_sound c cc blk pe proof soft : vbc c cc blk pe proof soft = true ->
  cc = false /\ pe = false /\ exists b p cm, blk = Some b /\ proof = Some p /\ vc_committee c = Some cm /\ cert_spec c b p cm soft.
Proof.
  unfold vbc. destruct cc; [discriminate|]. destruct blk as [b|]; [|discriminate]. destruct pe; [discriminate|].
  destruct proof as [p|]; [|discriminate]. destruct (vc_committee c) as [cm|] eqn:Ec; [|rewrite !andb_false_r; discriminate].
  rewrite !andb_true_iff, !N.eqb_eq. intros [[[[T I] H] Cm] [[[[F ND] Wt] S1] S2]].
  split; [reflexivity|]. split; [reflexivity|]. exists b, p, cm. repeat split; auto.
  - apply nodupN_NoDup. exact ND.
  - rewrite forallb_forall in F. specialize (F s H0). rewrite andb_true_iff in F. tauto.
  - rewrite forallb_forall in F. specialize (F s H0). rewrite andb_true_iff in F. tauto.
  - destruct soft; exact Wt.
Qed.

(* GetMemberIdsFromBlockProof: the ids of the proof's nodes; an error for empty or unreadable bytes *)
Definition member_ids (proof_empty : bool) (proof : option aproof) : option (list N) :=
  if proof_empty then None else match proof with Some p => Some (map s_id (ap_nodes p)) | None => None end.

Example vbc_nonvacuous :
  vbc {| vc_inst := 7; vc_committee := Some [(0,1);(1,1);(2,1);(3,1)] |} false (Some {| b_height := 3; b_id := 55; b_bad := [] |}) false
      (Some {| ap_ref := {| r_type := 3; r_inst := 7; r_height := 3; r_view := 2; r_hash := 55 |};
               ap_nodes := [{| s_id := 0; s_ok := true |}; {| s_id := 2; s_ok := true |}; {| s_id := 3; s_ok := true |}];
               ap_seed_nonempty := true; ap_seed_ok := true |}) false = true.
Proof. reflexivity. Qed.

(* the weight clause in terms of the specification's Q and f (QuorumFacts): with W the committee's total weight,
   f = floor((W-1)/3), Q = W - f, the accepted signers weigh at least Q (strict) or more than f (soft) *)
From LH Require Import QuorumFacts.
Theorem vbc_weight_spec c b p cm soft : cert_spec c b p cm soft -> total cm < W64 ->
  if soft then 0 < total cm -> (specF cm < Z.of_N (wsum (fun i => memN i (map s_id (ap_nodes p))) cm))%Z
  else (specQ cm <= Z.of_N (wsum (fun i => memN i (map s_id (ap_nodes p))) cm))%Z.
Proof.
  intros CS Hw. pose proof (cs_weight _ _ _ _ _ CS) as Wt. destruct soft.
  - intro H0. apply (hasH_spec _ _ Hw H0). exact Wt.
  - apply (isQ_spec _ _ Hw). exact Wt.
Qed.

(* the function is total: every input yields a verdict; unreadable bytes and every failed check yield "error" *)
Theorem vbc_rejects_unreadable c cc blk pe soft : vbc c cc blk pe None soft = false.
Proof. unfold vbc. destruct cc, blk, pe; reflexivity. Qed.
