(* Cert.v — C03: the (block, proof) pair a correct node hands to its commit callback is a genuine certificate: it is
   accepted by the strict ValidateBlockConsensus model (VBC.v) of any node configured with the same instance and
   committee. Signature verification is a function of (bytes, signer), so a peer computes the same flags. *)
From LH Require Import Prims Quorum QuorumFacts Contexts Msg Term TermFacts VBC Own.
Open Scope N_scope.

(* the commit storage: every stored COMMIT has a valid signature of a committee member, one per member and (view, hash) *)
Definition cinv (t : tstate) : Prop :=
  (forall v h s, In (v, h, s) (t_c t) -> s_ok s = true /\ isMember (t_cm t) (s_id s) = true) /\
  (forall v h, NoDup (map s_id (bucket (t_c t) v h))).

Lemma cinv_step c e x x' : step_sum c e x x' -> cinv (tc_t x) -> cinv (tc_t x').
Proof.
  intros S [A B]. destruct (ss_hc _ _ _ _ S) as [_ Hcm]. unfold cinv. rewrite Hcm.
  destruct (ss_ceq _ _ _ _ S) as [E0|(v & h & s & E0 & Sok & Mem)]; rewrite E0.
  - split; assumption.
  - split.
    + intros v' h' s' Hin. apply In_store_in in Hin. destruct Hin as [Hin|Hin]; [apply (A _ _ _ Hin)|]. inversion Hin; subst. auto.
    + intros v' h'. apply nodup_bucket_store_in. apply B.
Qed.

Theorem trun_cinv c wm shut H cm fresh lead evs : total cm < W64 -> isMember cm (c_me c) = true -> Forall (tev_ok c H) evs ->
  cinv (tc_t (trun c wm shut H cm fresh lead evs)).
Proof.
  intros Hw Hm F.
  assert (G : forall pre, (exists post, evs = pre ++ post) -> cinv (tc_t (trun c wm shut H cm fresh lead pre))).
  { intros pre. induction pre as [|e pre IH] using rev_ind; intros [post E0].
    - destruct (tstart_own c wm shut H cm fresh lead) as (_ & _ & _ & _ & _ & Cc & _). cbn zeta in Cc. unfold trun. cbn [fold_left]. unfold cinv. rewrite Cc.
      split; [intros ? ? ? []|intros; constructor].
    - assert (Fp : Forall (tev_ok c H) pre /\ tev_ok c H e).
      { rewrite E0 in F. apply Forall_app in F. destruct F as [F1 _]. apply Forall_app in F1. destruct F1 as [F1 F2]. inversion F2; auto. }
      destruct Fp as [Fp Fe].
      assert (Ex : exists post0, evs = pre ++ post0) by (exists (e :: post); rewrite E0, <- app_assoc; reflexivity).
      specialize (IH Ex). unfold trun in *. rewrite fold_left_app. cbn [fold_left].
      destruct (trun_inv c wm shut H cm fresh lead pre Hw Fp) as (TI & Hh & _). pose proof (trun_sinv c wm shut H cm fresh lead pre Hw Hm Fp) as SI.
      unfold trun in *. eapply cinv_step; [|exact IH]. apply (tstep_sum c H); assumption. }
  apply (G evs). exists []. symmetry. apply app_nil_r.
Qed.

(* ---- what a commit callback gets ---- *)
Definition commits_out (l : list out) : list (block * bref * list ssig * bool) :=
  flat_map (fun o => match o with OCommit b r sg so => [(b, r, sg, so)] | _ => [] end) l.

Definition oneutral (x x' : tc) : Prop := commits_out (tc_out x') = commits_out (tc_out x).
(* either no new commit callback, or exactly one, made from the state the step ends in *)
Definition ostep (c : ncfg) (x x' : tc) : Prop :=
  oneutral x x' \/
  exists b v h e, commits_out (tc_out x') =
      (b, mk_ref T_COMMIT c (t_h (tc_t x')) v h, sort_by s_id (bucket (t_c (tc_t x')) v h), true) :: commits_out (tc_out x) /\
    get_pp (tc_t x') v = Some e /\ r_hash (pe_ref e) = h /\ pe_blk e = Some b /\
    isQ_ids (t_cm (tc_t x')) (map s_id (bucket (t_c (tc_t x')) v h)) = true.
Lemma oneutral_refl x : oneutral x x. Proof. reflexivity. Qed.
Lemma oneutral_trans a b d : oneutral a b -> oneutral b d -> oneutral a d. Proof. unfold oneutral. congruence. Qed.
Lemma oneutral_then_ostep c a b d : oneutral a b -> ostep c b d -> ostep c a d.
Proof.
  intros A [B|(bb & v & h & e & C1 & C2)]; [left; unfold oneutral in *; congruence|].
  right. exists bb, v, h, e. unfold oneutral in A. rewrite A in C1. auto.
Qed.

Section OStep.
Variable c : ncfg. Variable wm : option hv. Variable shut : bool.
Ltac on_tac :=
  unfold oneutral, commits_out;
  repeat match goal with
  | |- context [if ?b then _ else _] => destruct b
  | |- context [match ?b with Some _ => _ | None => _ end] => destruct b
  | |- context [match ?b with (_, _) => _ end] => destruct b
  | |- context [match ?b with [] => _ | _ :: _ => _ end] => destruct b
  end;
  cbn [tc_commit tc_t tc_out tc_v tc_emit tc_set_t tc_set_v tc_bump send_all flat_map app]; reflexivity.

Lemma check_committed_ostep x v h : ostep c x (check_committed c wm shut x v h).
Proof.
  unfold check_committed. destruct (t_committed (tc_t x)); [left; apply oneutral_refl|].
  destruct (is_preprepared (tc_t x) v h) as [e|] eqn:Ep; [|left; apply oneutral_refl].
  destruct (is_preprepared_some _ _ _ _ Ep) as (G1 & G2 & b & Gb).
  destruct (isQ_ids (t_cm (tc_t x)) (map s_id (bucket (t_c (tc_t x)) v h))) eqn:Eq; cbn [negb]; [|left; apply oneutral_refl].
  destruct (negb _); [left; apply oneutral_refl|].
  rewrite Gb. right. exists b, v, h, e. unfold commits_out. destruct (memN _ _);
    cbn [tc_committed tc_emit tc_set_t send_all tc_t tc_commit tc_out set_committed flat_map app t_h t_c t_cm]; repeat split; auto.
Qed.
Lemma check_prepared_ostep x v h : ostep c x (check_prepared c wm shut x v h).
Proof.
  unfold check_prepared.
  destruct (match t_prepared (tc_t x) with Some pv => pv =? v | None => false end); [left; apply oneutral_refl|].
  destruct (is_preprepared (tc_t x) v h); [|left; apply oneutral_refl].
  destruct (isQ_ids _ _); [|left; apply oneutral_refl].
  eapply oneutral_then_ostep; [|apply check_committed_ostep]. unfold send_all. on_tac.
Qed.
Lemma process_pp_ostep x r s b : ostep c x (process_pp c wm shut x r s b).
Proof.
  unfold process_pp. destruct (negb _); [left; apply oneutral_refl|].
  eapply oneutral_then_ostep; [|apply check_prepared_ostep]. unfold send_all. on_tac.
Qed.
Lemma on_elected_oneutral x v vs : oneutral x (on_elected c wm shut x v vs).
Proof.
  unfold on_elected, init_view. cbn [tc_set_t tc_v]. destruct (N.ltb _ _); [reflexivity|].
  destruct (latest_block vs) as [[b h]|]; [|destruct (negb _)]; unfold send_all; on_tac.
Qed.
Lemma check_elected_oneutral x v : oneutral x (check_elected c wm shut x v).
Proof.
  unfold check_elected. destruct (N.leb _ _); [apply oneutral_refl|]. destruct (votes_of _ _) eqn:E0; [apply oneutral_refl|]. rewrite <- E0.
  destruct (isQ_ids _ _); [apply on_elected_oneutral|apply oneutral_refl].
Qed.
Theorem thandle_ostep x m : ostep c x (thandle c wm shut x m).
Proof.
  destruct m; cbn [thandle].
  - unfold handle_pp. repeat (match goal with |- ostep _ _ (if ?b then _ else _) => destruct b; [left; apply oneutral_refl|] end). apply process_pp_ostep.
  - unfold handle_p. repeat (match goal with |- ostep _ _ (if ?b then _ else _) => destruct b; [left; apply oneutral_refl|] end).
    eapply oneutral_then_ostep; [|apply check_prepared_ostep]. on_tac.
  - unfold handle_c. repeat (match goal with |- ostep _ _ (if ?b then _ else _) => destruct b; [left; apply oneutral_refl|] end).
    eapply oneutral_then_ostep; [|apply check_committed_ostep]. on_tac.
  - left. unfold handle_vc. repeat (match goal with |- oneutral _ (if ?b then _ else _) => destruct b; [apply oneutral_refl|] end).
    assert (A : oneutral x (check_elected c wm shut
      (tc_set_t (store_vc (v_view v) v b (tc_t x))
         (if has_vc (tc_t x) (v_view v) (s_id (v_snd v)) then x
          else tc_emit (OStore T_VIEW_CHANGE (t_h (tc_t x)) (v_view v) 0 (s_id (v_snd v))) x)) (v_view v))).
    { eapply oneutral_trans; [|apply check_elected_oneutral]. on_tac. }
    destruct b, (v_proof v); try apply oneutral_refl; try exact A. destruct (commitsTo _ _ _); [exact A|apply oneutral_refl].
  - unfold handle_nv. repeat (match goal with |- ostep _ _ (if ?b then _ else _) => destruct b; [left; apply oneutral_refl|] end).
    assert (K : ostep c x (if negb (validate_pp c (tc_t x) pp pps) then x else
                    match init_view nview (tc_set_t (set_latest nview (tc_t x)) x) with
                    | None => tc_set_t (set_latest nview (tc_t x)) x
                    | Some x1 => process_pp c wm shut x1 pp pps b end)).
    { destruct (negb _); [left; apply oneutral_refl|]. unfold init_view. cbn [tc_set_t tc_v].
      destruct (N.ltb _ _); [left; reflexivity|].
      eapply oneutral_then_ostep; [|apply process_pp_ostep]. on_tac. }
    destruct (latest_vote votes) as [lv|].
    + destruct (v_proof lv); [|left; apply oneutral_refl].
      repeat (match goal with |- ostep _ _ (if ?b then _ else _) => destruct b; [left; apply oneutral_refl|] end). exact K.
    + repeat (match goal with |- ostep _ _ (if ?b then _ else _) => destruct b; [left; apply oneutral_refl|] end). exact K.
Qed.
Theorem move_oneutral x h v : oneutral x (move_to_next_leader c wm shut x h v).
Proof.
  unfold move_to_next_leader, init_view. destruct (negb _); [apply oneutral_refl|].
  destruct (N.ltb _ _); [apply oneutral_refl|]. destruct (snd _); [on_tac|].
  cbn [tc_v tc_emit tc_set_v]. destruct (N.eqb _ (c_me c)); [|on_tac].
  eapply oneutral_trans; [|apply check_elected_oneutral]. on_tac.
Qed.
End OStep.

(* ---- C03 ---- *)
Theorem committed_pair_passes_strict_validation c wm shut H cm fresh lead evs b r sgs so :
  total cm < W64 -> isMember cm (c_me c) = true -> Forall (tev_ok c H) evs ->
  In (b, r, sgs, so) (commits_out (tc_out (trun c wm shut H cm fresh lead evs))) ->
  vbc {| vc_inst := c_inst c; vc_committee := Some cm |} false (Some b) false
      (Some {| ap_ref := r; ap_nodes := sgs; ap_seed_nonempty := true; ap_seed_ok := so |}) false = true.
Proof.
  intros Hw Hm F.
  assert (G : forall pre, (exists post, evs = pre ++ post) ->
     forall b r sgs so, In (b, r, sgs, so) (commits_out (tc_out (trun c wm shut H cm fresh lead pre))) ->
     vbc {| vc_inst := c_inst c; vc_committee := Some cm |} false (Some b) false
        (Some {| ap_ref := r; ap_nodes := sgs; ap_seed_nonempty := true; ap_seed_ok := so |}) false = true).
  { intros pre. induction pre as [|e pre IH] using rev_ind; intros [post E0] b0 r0 sgs0 so0 Hin.
    - exfalso. unfold trun in Hin. cbn [fold_left] in Hin.
      assert (ON : oneutral {| tc_t := new_tstate H cm; tc_v := 0; tc_fresh := fresh; tc_out := []; tc_commit := None |} (tstart c wm shut H cm fresh lead)).
      { unfold tstart, start_term, init_view. cbn [tc_v N.ltb N.compare].
        unfold oneutral, commits_out. repeat match goal with |- context [if ?q then _ else _] => destruct q end; reflexivity. }
      unfold oneutral in ON. rewrite ON in Hin. destruct Hin.
    - assert (Fp : Forall (tev_ok c H) (pre ++ [e])).
      { rewrite E0 in F. apply Forall_app in F. tauto. }
      assert (Fp0 : Forall (tev_ok c H) pre) by (apply Forall_app in Fp; tauto).
      assert (Ex : exists post0, evs = pre ++ post0) by (exists (e :: post); rewrite E0, <- app_assoc; reflexivity).
      specialize (IH Ex).
      destruct (trun_inv c wm shut H cm fresh lead (pre ++ [e]) Hw Fp) as (_ & Hh & Hcm).
      pose proof (trun_sinv c wm shut H cm fresh lead (pre ++ [e]) Hw Hm Fp) as SI.
      pose proof (trun_cinv c wm shut H cm fresh lead (pre ++ [e]) Hw Hm Fp) as [CA CB].
      unfold trun in *. rewrite fold_left_app in *. cbn [fold_left] in *.
      set (x := fold_left (tstep c) pre (tstart c wm shut H cm fresh lead)) in *. set (x' := tstep c x e) in *.
      assert (OS : ostep c x x') by (subst x'; destruct e; cbn [tstep]; [apply thandle_ostep|left; apply move_oneutral]).
      destruct OS as [ON|(bb & v & h & en & C1 & C2 & C3 & C4 & C5)].
      + unfold oneutral in ON. rewrite ON in Hin. apply (IH _ _ _ _ Hin).
      + rewrite C1 in Hin. destruct Hin as [Hin|Hin]; [|apply (IH _ _ _ _ Hin)]. inversion Hin; subst b0 r0 sgs0 so0. clear Hin.
        destruct (si_pp _ _ SI v en C2) as [[_ _ _ _ _ _ BC] _]. specialize (BC bb C4). rewrite C3 in BC.
        unfold vbc. cbn [ap_ref ap_nodes ap_seed_nonempty ap_seed_ok vc_inst vc_committee mk_ref r_type r_inst r_height r_hash].
        rewrite Hh in *. unfold commitsTo in BC |- *. apply andb_true_iff in BC. destruct BC as [B1 B2]. apply N.eqb_eq in B1. rewrite B1, !N.eqb_refl, B2. cbn [andb].
        rewrite Hcm in *. 
        assert (P1 : forallb (fun s => s_ok s && isMember cm (s_id s)) (sort_by s_id (bucket (t_c (tc_t x')) v h)) = true).
        { apply forallb_forall. intros s Hs. apply (Permutation.Permutation_in _ (sort_by_perm s_id _)) in Hs. apply In_bucket in Hs.
          destruct (CA _ _ _ Hs) as [A1 A2]. rewrite A1, A2. reflexivity. }
        assert (P2 : nodupN (map s_id (sort_by s_id (bucket (t_c (tc_t x')) v h))) = true).
        { apply nodupN_NoDup. eapply Permutation.Permutation_NoDup; [apply Permutation.Permutation_map; apply Permutation.Permutation_sym; apply sort_by_perm|apply CB]. }
        assert (P3 : isQ (map s_id (sort_by s_id (bucket (t_c (tc_t x')) v h))) cm = true).
        { eapply isQ_mono; [exact Hw| |exact C5]. intros i Hi. apply (Permutation.Permutation_in _ (Permutation.Permutation_map s_id (Permutation.Permutation_sym (sort_by_perm s_id _)))). exact Hi. }
        rewrite P1, P2, P3. reflexivity. }
  apply (G evs). exists []. symmetry. apply app_nil_r.
Qed.

Theorem committed_pair_is_a_certificate c wm shut H cm fresh lead evs b r sgs so :
  total cm < W64 -> isMember cm (c_me c) = true -> Forall (tev_ok c H) evs ->
  In (b, r, sgs, so) (commits_out (tc_out (trun c wm shut H cm fresh lead evs))) ->
  cert_spec {| vc_inst := c_inst c; vc_committee := Some cm |} b {| ap_ref := r; ap_nodes := sgs; ap_seed_nonempty := true; ap_seed_ok := so |} cm false.
Proof.
  intros Hw Hm F Hin. pose proof (committed_pair_passes_strict_validation c wm shut H cm fresh lead evs b r sgs so Hw Hm F Hin) as V.
  destruct (vbc_sound _ _ _ _ _ _ V) as (_ & _ & b' & p & cm' & E1 & E2 & E3 & CS). inversion E1; inversion E2; inversion E3; subst. exact CS.
Qed.

(* non-vacuity: in the forking run of WorldKF1 both committers hold certificates (checked there by evaluation) *)
