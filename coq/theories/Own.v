(* Own.v — what one correct node's term (Term.v) has done, read off its state and outputs, and how a step changes it.
   These are the node-local halves of the guards of AbsSafety.v; World.v adds the other nodes through the
   unforgeability discipline. *)
From LH Require Import Prims Quorum QuorumFacts Contexts Msg Term TermFacts.
Open Scope N_scope.

(* ---- facts read off a node ---- *)
Definition endorsed_of (m : msg) : list (N * N) :=
  match m with
  | MPP r _ _ | MP r _ => [(r_view r, r_hash r)]
  | MNV _ _ _ _ _ _ pp _ _ => [(r_view pp, r_hash pp)]
  | _ => []
  end.
Definition committed_of (m : msg) : list (N * N) := match m with MC r _ _ => [(r_view r, r_hash r)] | _ => [] end.
Definition lock_of (vt : vote) : option (N * N) :=
  match v_proof vt with Some p => Some (r_view (pf_ppref p), r_hash (pf_ppref p)) | None => None end.
Definition voted_of (m : msg) : list vote := match m with MVC vt _ => [vt] | _ => [] end.
Definition decided_of (o : out) : list (N * N) := match o with OCommit _ r _ _ => [(r_view r, r_hash r)] | _ => [] end.

Definition E (x : tc) : list (N * N) := flat_map endorsed_of (sent_of (tc_out x)).
Definition C (x : tc) : list (N * N) := flat_map committed_of (sent_of (tc_out x)).
Definition D (x : tc) : list (N * N) := flat_map decided_of (tc_out x).
(* the votes this node signed: sent to another leader, or stored as its own vote when it leads the view itself *)
Definition own_stored (me : N) (t : tstate) : list vote :=
  flat_map (fun e => if N.eqb (s_id (v_snd (fst (snd e)))) me then [fst (snd e)] else []) (t_vc t).
Definition Vt (me : N) (x : tc) : list vote := flat_map voted_of (sent_of (tc_out x)) ++ own_stored me (tc_t x).
Definition lockv (x : tc) : option N := t_prepared (tc_t x).
Definition hash_at (t : tstate) (v : N) : N := match get_pp t v with Some e => r_hash (pe_ref e) | None => 0 end.
Definition L (x : tc) : option (N * N) := match lockv x with Some v => Some (v, hash_at (tc_t x) v) | None => None end.

(* rewriting through the state constructors *)
Lemma E_emit_send to m x : E (tc_emit (OSend to m) x) = endorsed_of m ++ E x.
Proof. unfold E. cbn [tc_emit tc_out]. rewrite sent_of_send. reflexivity. Qed.
Lemma C_emit_send to m x : C (tc_emit (OSend to m) x) = committed_of m ++ C x.
Proof. unfold C. cbn [tc_emit tc_out]. rewrite sent_of_send. reflexivity. Qed.
Lemma E_emit_nonsend o x : is_send o = false -> E (tc_emit o x) = E x.
Proof. intro H. unfold E. cbn [tc_emit tc_out]. rewrite sent_of_cons_nonsend by exact H. reflexivity. Qed.
Lemma C_emit_nonsend o x : is_send o = false -> C (tc_emit o x) = C x.
Proof. intro H. unfold C. cbn [tc_emit tc_out]. rewrite sent_of_cons_nonsend by exact H. reflexivity. Qed.
Lemma D_emit o x : D (tc_emit o x) = decided_of o ++ D x.
Proof. reflexivity. Qed.

Section OwnStep.
Variable c : ncfg.
Variable wm : option hv.
Variable shut : bool.
Notation me := (c_me c).

(* what the tail handlers can change *)
Record same_but_cd (x x' : tc) : Prop := {
  sb_E : E x' = E x;
  sb_v : tc_v x' = tc_v x;
  sb_lock : lockv x' = lockv x;
  sb_sentv : flat_map voted_of (sent_of (tc_out x')) = flat_map voted_of (sent_of (tc_out x));
  sb_vc : t_vc (tc_t x') = t_vc (tc_t x);
  sb_pp : t_pp (tc_t x') = t_pp (tc_t x);
  sb_p : t_p (tc_t x') = t_p (tc_t x);
  sb_hc : t_h (tc_t x') = t_h (tc_t x) /\ t_cm (tc_t x') = t_cm (tc_t x);
  sb_out : incl (tc_out x) (tc_out x')
}.

Lemma check_committed_own x v h :
  let x' := check_committed c wm shut x v h in
  same_but_cd x x' /\ t_c (tc_t x') = t_c (tc_t x) /\
  (C x' = C x \/ (C x' = (v, h) :: C x /\ certC (tc_t x') v h)) /\
  (D x' = D x \/ (D x' = (v, h) :: D x /\ certC (tc_t x') v h /\ exists e b, get_pp (tc_t x') v = Some e /\ r_hash (pe_ref e) = h /\ pe_blk e = Some b /\ tc_commit x' = Some b)).
Proof.
  cbn zeta. unfold check_committed.
  assert (R : same_but_cd x x /\ t_c (tc_t x) = t_c (tc_t x) /\ (C x = C x \/ (C x = (v, h) :: C x /\ certC (tc_t x) v h)) /\
              (D x = D x \/ (D x = (v, h) :: D x /\ certC (tc_t x) v h /\ exists e b, get_pp (tc_t x) v = Some e /\ r_hash (pe_ref e) = h /\ pe_blk e = Some b /\ tc_commit x = Some b)))
    by (split; [constructor; auto; apply incl_refl|split; [reflexivity|split; left; reflexivity]]).
  destruct (t_committed (tc_t x)); [exact R|].
  destruct (is_preprepared (tc_t x) v h) as [e|] eqn:Ep; [|exact R].
  destruct (is_preprepared_some _ _ _ _ Ep) as (G1 & G2 & b & Gb).
  destruct (isQ_ids (t_cm (tc_t x)) (map s_id (bucket (t_c (tc_t x)) v h))) eqn:Eq; cbn [negb]; [|exact R].
  destruct (ctx_ok wm shut (t_h (tc_t x), MAXVIEW)); cbn [negb]; [|exact R].
  rewrite Gb. clear R.
  set (x1 := if memN me _ then x else _).
  assert (F1 : tc_t x1 = tc_t x /\ tc_v x1 = tc_v x /\ E x1 = E x /\ D x1 = D x /\
               flat_map voted_of (sent_of (tc_out x1)) = flat_map voted_of (sent_of (tc_out x)) /\
               (C x1 = C x \/ C x1 = (v, h) :: C x) /\ incl (tc_out x) (tc_out x1)).
  { subst x1. destruct (memN me _); [repeat split; auto; apply incl_refl|]. unfold send_all. repeat split; auto.
    all: try (cbn [tc_emit tc_out]; apply incl_tl, incl_refl).
    all: try (rewrite E_emit_send; reflexivity).
    all: try (unfold tc_emit; cbn [tc_out]; rewrite sent_of_send; reflexivity).
    all: try (right; rewrite C_emit_send; reflexivity). }
  destruct F1 as (A1 & A2 & A3 & A4 & A5 & A6 & A7).
  assert (CC : certC (set_committed (tc_t x)) v h) by exact Eq.
  split; [constructor|].
  all: unfold lockv, E; cbn [tc_committed tc_emit tc_set_t tc_t tc_v tc_out set_committed t_prepared t_vc t_pp t_p t_h t_cm t_c].
  all: rewrite ?sent_of_cons_nonsend by reflexivity.
  all: rewrite ?A1, ?A2; try reflexivity; try exact A3; try exact A5; try (split; reflexivity).
  { apply incl_tl. exact A7. }
  split; [reflexivity|]. split.
  - unfold C in *. cbn [tc_committed tc_emit tc_set_t tc_out]. rewrite sent_of_cons_nonsend by reflexivity.
    destruct A6 as [A6|A6]; [left; exact A6|right; split; [exact A6|exact CC]].
  - right. unfold D in *. cbn [tc_committed tc_emit tc_set_t tc_out flat_map decided_of mk_ref r_view r_hash app]. rewrite A4.
    split; [reflexivity|]. split; [exact CC|]. exists e, b. cbn [tc_commit]. repeat split; auto.
Qed.

Definition grows_by {A} (l l' : list A) (p : A) : Prop := incl l l' /\ forall q, In q l' -> In q l \/ q = p.
Lemma grows_by_refl {A} (l : list A) p : grows_by l l p.
Proof. split; [apply incl_refl|auto]. Qed.
Lemma grows_by_trans {A} (a b d : list A) p : grows_by a b p -> grows_by b d p -> grows_by a d p.
Proof. intros [A1 A2] [B1 B2]. split; [eapply incl_tran; eauto|]. intros q Hq. destruct (B2 q Hq) as [H|H]; auto. Qed.
Lemma grows_by_cons {A} (l : list A) p : grows_by l (p :: l) p.
Proof. split; [apply incl_tl, incl_refl|]. intros q [<-|H]; auto. Qed.

Definition commit_facts (x' : tc) (v h : N) : Prop :=
  certC (tc_t x') v h /\ exists e b, get_pp (tc_t x') v = Some e /\ r_hash (pe_ref e) = h /\ pe_blk e = Some b /\ tc_commit x' = Some b.

Lemma check_committed_own' x v h :
  let x' := check_committed c wm shut x v h in
  same_but_cd x x' /\ t_c (tc_t x') = t_c (tc_t x) /\
  grows_by (C x) (C x') (v, h) /\ (In (v, h) (C x') -> In (v, h) (C x) \/ certC (tc_t x') v h) /\
  grows_by (D x) (D x') (v, h) /\ (In (v, h) (D x') -> In (v, h) (D x) \/ commit_facts x' v h).
Proof.
  cbn zeta. destruct (check_committed_own x v h) as (A & B & [C1|[C1 C2]] & [D1|[D1 D2]]); split; auto; split; auto.
  all: rewrite ?C1, ?D1.
  all: repeat split; try apply grows_by_refl; try apply grows_by_cons; try (apply incl_refl); try (apply incl_tl, incl_refl); auto.
  all: try (intros q Hq; auto; destruct Hq as [<-|Hq]; auto).
  all: try (intros _; right; exact C2); try (intros _; right; exact D2).
Qed.

Lemma incl_store_in l v h s : incl l (store_in l v h s).
Proof. unfold store_in. destruct (memN _ _); [apply incl_refl|apply incl_appl, incl_refl]. Qed.

Lemma in_bucket_after_store0 l v h s : memN (s_id s) (map s_id (bucket (store_in l v h s) v h)) = true.
Proof.
  rewrite bucket_store_in_same. destruct (memN (s_id s) (map s_id (bucket l v h))) eqn:E0; [exact E0|].
  rewrite map_app. cbn [map]. apply memN_In. apply in_or_app. right. left. reflexivity.
Qed.

Lemma check_prepared_own x v h :
  let x' := check_prepared c wm shut x v h in
  E x' = E x /\ tc_v x' = tc_v x /\ flat_map voted_of (sent_of (tc_out x')) = flat_map voted_of (sent_of (tc_out x)) /\
  t_vc (tc_t x') = t_vc (tc_t x) /\ t_pp (tc_t x') = t_pp (tc_t x) /\ t_p (tc_t x') = t_p (tc_t x) /\
  (t_h (tc_t x') = t_h (tc_t x) /\ t_cm (tc_t x') = t_cm (tc_t x)) /\
  grows_by (C x) (C x') (v, h) /\ grows_by (D x) (D x') (v, h) /\
  (In (v, h) (D x') -> In (v, h) (D x) \/ commit_facts x' v h) /\ incl (tc_out x) (tc_out x') /\
  ((lockv x' = lockv x /\ t_c (tc_t x') = t_c (tc_t x) /\ (In (v, h) (C x') -> In (v, h) (C x) \/ certC (tc_t x') v h))
   \/ (lockv x <> Some v /\ lockv x' = Some v /\ hash_at (tc_t x') v = h /\ certP (tc_t x') v h /\ In (v, h) (C x') /\
       (forall q, In q (t_c (tc_t x')) -> In q (t_c (tc_t x)) \/ q = (v, h, my_sig c)) /\ incl (t_c (tc_t x)) (t_c (tc_t x')) /\
       t_c (tc_t x') = store_in (t_c (tc_t x)) v h (my_sig c))).
Proof.
  cbn zeta. unfold check_prepared.
  assert (R : E x = E x /\ tc_v x = tc_v x /\ flat_map voted_of (sent_of (tc_out x)) = flat_map voted_of (sent_of (tc_out x)) /\
    t_vc (tc_t x) = t_vc (tc_t x) /\ t_pp (tc_t x) = t_pp (tc_t x) /\ t_p (tc_t x) = t_p (tc_t x) /\
    (t_h (tc_t x) = t_h (tc_t x) /\ t_cm (tc_t x) = t_cm (tc_t x)) /\
    grows_by (C x) (C x) (v, h) /\ grows_by (D x) (D x) (v, h) /\
    (In (v, h) (D x) -> In (v, h) (D x) \/ commit_facts x v h) /\ incl (tc_out x) (tc_out x) /\
    ((lockv x = lockv x /\ t_c (tc_t x) = t_c (tc_t x) /\ (In (v, h) (C x) -> In (v, h) (C x) \/ certC (tc_t x) v h))
     \/ (lockv x <> Some v /\ lockv x = Some v /\ hash_at (tc_t x) v = h /\ certP (tc_t x) v h /\ In (v, h) (C x) /\
         (forall q, In q (t_c (tc_t x)) -> In q (t_c (tc_t x)) \/ q = (v, h, my_sig c)) /\ incl (t_c (tc_t x)) (t_c (tc_t x)) /\
         t_c (tc_t x) = store_in (t_c (tc_t x)) v h (my_sig c)))).
  { do 7 (split; [try reflexivity; split; reflexivity|]). split; [apply grows_by_refl|]. split; [apply grows_by_refl|]. split; [auto|]. split; [apply incl_refl|]. left. auto. }
  destruct (match t_prepared (tc_t x) with Some pv => pv =? v | None => false end) eqn:Epv; [exact R|].
  destruct (is_preprepared (tc_t x) v h) as [e|] eqn:Ep; [|exact R].
  destruct (is_preprepared_some _ _ _ _ Ep) as (G1 & G2 & b & Gb).
  destruct (isQ_ids _ _) eqn:Eq; [|exact R]. clear R.
  unfold send_all.
  set (t1 := store_c v h (my_sig c) (set_prepared v (tc_t x))).
  set (x0 := if has_c (tc_t x) v h me then x else _).
  assert (F0 : tc_t x0 = tc_t x /\ tc_v x0 = tc_v x /\ E x0 = E x /\ C x0 = C x /\ D x0 = D x /\
               flat_map voted_of (sent_of (tc_out x0)) = flat_map voted_of (sent_of (tc_out x)) /\ incl (tc_out x) (tc_out x0)).
  { subst x0. destruct (has_c _ _ _ _); [repeat split; auto; apply incl_refl|]. repeat split; auto.
    all: try (cbn [tc_emit tc_out]; apply incl_tl, incl_refl).
    all: try (apply E_emit_nonsend; reflexivity); try (apply C_emit_nonsend; reflexivity).
    all: try (unfold tc_emit; cbn [tc_out]; rewrite sent_of_cons_nonsend by reflexivity; reflexivity). }
  destruct F0 as (A1 & A2 & A3 & A4 & A5 & A6 & A7).
  set (x1 := tc_emit (OSend (others c (t_cm (tc_t (tc_set_t t1 x0)))) (MC (mk_ref T_COMMIT c (t_h (tc_t x)) v h) (my_sig c) true)) (tc_set_t t1 x0)).
  assert (F1 : tc_t x1 = t1 /\ tc_v x1 = tc_v x /\ E x1 = E x /\ C x1 = (v, h) :: C x /\ D x1 = D x /\
               flat_map voted_of (sent_of (tc_out x1)) = flat_map voted_of (sent_of (tc_out x))).
  { subst x1. split; [reflexivity|]. split; [exact A2|]. split.
    { rewrite E_emit_send. cbn [endorsed_of app]. unfold E in *. cbn [tc_set_t tc_out]. exact A3. }
    split. { rewrite C_emit_send. cbn [committed_of mk_ref r_view r_hash app]. unfold C in *. cbn [tc_set_t tc_out]. rewrite A4. reflexivity. }
    split. { unfold D in *. cbn [tc_emit tc_set_t tc_out flat_map decided_of app]. exact A5. }
    unfold tc_emit; cbn [tc_out tc_set_t]. rewrite sent_of_send. cbn [voted_of app]. exact A6. }
  destruct F1 as (B1 & B2 & B3 & B4 & B5 & B6).
  destruct (check_committed_own' x1 v h) as (S & Tc & GC & GC' & GD & GD'). cbn zeta in *.
  destruct S as [S1 S2 S3 S4 S5 S6 S7 [S8 S9] S10].
  assert (M : tmono (tc_t x) t1) by (subst t1; eapply tmono_trans; [apply tmono_set_prepared|apply tmono_store_c]).
  split; [rewrite S1; exact B3|]. split; [rewrite S2; exact B2|]. split; [rewrite S4; exact B6|].
  split; [rewrite S5, B1; reflexivity|]. split; [rewrite S6, B1; reflexivity|]. split; [rewrite S7, B1; reflexivity|].
  split; [rewrite S8, S9, B1; split; reflexivity|].
  split; [eapply grows_by_trans; [|exact GC]; rewrite B4; apply grows_by_cons|].
  split; [rewrite <- B5; exact GD|].
  split; [rewrite <- B5; exact GD'|].
  split; [eapply incl_tran; [exact A7|]; eapply incl_tran; [|exact S10]; subst x1; cbn [tc_emit tc_set_t tc_out]; apply incl_tl, incl_refl|].
  right. unfold lockv in *. rewrite S3, B1.
  split.
  - intro Hx. rewrite Hx in Epv. rewrite N.eqb_refl in Epv. discriminate.
  - split; [reflexivity|]. split.
    + unfold hash_at. rewrite (get_pp_ext _ _ v S6). rewrite B1. rewrite (tm_pp _ _ M v e G1). exact G2.
    + split.
      * exists e. split.
        -- rewrite (get_pp_ext _ _ v S6). rewrite B1. apply (tm_pp _ _ M). exact G1.
        -- rewrite S7, S9, B1. exact Eq.
      * split; [apply (proj1 GC); rewrite B4; left; reflexivity|].
        split.
        -- intros [[v' h'] s'] Hq. rewrite Tc, B1 in Hq. subst t1. cbn [store_c set_prepared t_c] in Hq.
           destruct (In_store_in _ _ _ _ _ _ _ Hq) as [Hq'|Hq']; [left; exact Hq'|right; exact Hq'].
        -- split; [rewrite Tc, B1; subst t1; cbn [store_c set_prepared t_c]; apply incl_store_in|].
           rewrite Tc, B1. subst t1. reflexivity.
Qed.

Definition sentv (x : tc) : list vote := flat_map voted_of (sent_of (tc_out x)).

Record pp_sum (x x' : tc) (v h : N) (ent : ppent) : Prop := {
  ps_v : tc_v x' = tc_v x;
  ps_E : E x' = (v, h) :: E x;
  ps_sentv : sentv x' = sentv x;
  ps_vc : t_vc (tc_t x') = t_vc (tc_t x);
  ps_hc : t_h (tc_t x') = t_h (tc_t x) /\ t_cm (tc_t x') = t_cm (tc_t x);
  ps_pp : forall v' e', get_pp (tc_t x') v' = Some e' -> get_pp (tc_t x) v' = Some e' \/ (v' = v /\ e' = ent);
  ps_ppmono : pp_stable (tc_t x) (tc_t x');
  ps_stored : get_pp (tc_t x') v = Some ent;
  ps_p : forall q, In q (t_p (tc_t x')) -> In q (t_p (tc_t x)) \/ q = (v, h, my_sig c);
  ps_pmono : incl (t_p (tc_t x)) (t_p (tc_t x'));
  ps_c : forall q, In q (t_c (tc_t x')) -> In q (t_c (tc_t x)) \/
           (q = (v, h, my_sig c) /\ In (v, h) (C x') /\ lockv x' = Some v /\ lockv x <> Some v /\ hash_at (tc_t x') v = h);
  ps_cmono : incl (t_c (tc_t x)) (t_c (tc_t x'));
  ps_ceq : t_c (tc_t x') = t_c (tc_t x) \/ t_c (tc_t x') = store_in (t_c (tc_t x)) v h (my_sig c);
  ps_C : grows_by (C x) (C x') (v, h);
  ps_D : grows_by (D x) (D x') (v, h);
  ps_Dfacts : In (v, h) (D x') -> In (v, h) (D x) \/ commit_facts x' v h;
  ps_lock : (lockv x' = lockv x /\ (In (v, h) (C x') -> In (v, h) (C x) \/ certC (tc_t x') v h))
            \/ (lockv x <> Some v /\ lockv x' = Some v /\ hash_at (tc_t x') v = h /\ certP (tc_t x') v h /\
                In (v, h) (C x') /\ t_c (tc_t x') = store_in (t_c (tc_t x)) v h (my_sig c));
  ps_out : incl (tc_out x) (tc_out x');
  ps_mp : exists to hh, In (OSend to (MP (mk_ref T_PREPARE c hh v h) (my_sig c))) (tc_out x')
}.

Lemma process_pp_own x r s b : get_pp (tc_t x) (r_view r) = None ->
  let x' := process_pp c wm shut x r s b in
  (tc_v x <> r_view r /\ x' = x) \/ (tc_v x = r_view r /\ pp_sum x x' (r_view r) (r_hash r) {| pe_ref := r; pe_snd := s; pe_blk := b |}).
Proof.
  intro Hnone. cbn zeta. unfold process_pp. destruct (N.eqb_spec (tc_v x) (r_view r)) as [Ev|Ev]; cbn [negb]; [|left; split; [exact Ev|reflexivity]].
  right. split; [exact Ev|]. unfold send_all.
  set (v := r_view r) in *. set (h := r_hash r) in *. set (ent := {| pe_ref := r; pe_snd := s; pe_blk := b |}).
  set (t0 := store_pp v ent (tc_t x)). set (t1 := store_p v h (my_sig c) t0).
  set (x0 := if has_pp (tc_t x) v then x else _). set (x0' := if has_p t0 v h me then x0 else _).
  assert (F0 : tc_t x0' = tc_t x /\ tc_v x0' = tc_v x /\ E x0' = E x /\ C x0' = C x /\ D x0' = D x /\ sentv x0' = sentv x).
  { subst x0' x0. unfold sentv. destruct (has_p _ _ _ _), (has_pp _ _); repeat split; auto.
    all: rewrite ?E_emit_nonsend, ?C_emit_nonsend by reflexivity; try reflexivity.
    all: unfold tc_emit; cbn [tc_out]; rewrite ?sent_of_cons_nonsend by reflexivity; reflexivity. }
  destruct F0 as (A1 & A2 & A3 & A4 & A5 & A6).
  set (x1 := tc_emit (OSend (others c (t_cm (tc_t (tc_set_t t1 x0')))) (MP (mk_ref T_PREPARE c (r_height r) v h) (my_sig c))) (tc_set_t t1 x0')).
  assert (F1 : tc_t x1 = t1 /\ tc_v x1 = tc_v x /\ E x1 = (v, h) :: E x /\ C x1 = C x /\ D x1 = D x /\ sentv x1 = sentv x).
  { subst x1. split; [reflexivity|]. split; [exact A2|]. split.
    { rewrite E_emit_send. cbn [endorsed_of mk_ref r_view r_hash app]. unfold E in *. cbn [tc_set_t tc_out]. rewrite A3. reflexivity. }
    split. { rewrite C_emit_send. cbn [committed_of app]. unfold C in *. cbn [tc_set_t tc_out]. exact A4. }
    split. { unfold D in *. cbn [tc_emit tc_set_t tc_out flat_map decided_of app]. exact A5. }
    unfold sentv in *. unfold tc_emit; cbn [tc_out tc_set_t]. rewrite sent_of_send. cbn [voted_of app]. exact A6. }
  destruct F1 as (B1 & B2 & B3 & B4 & B5 & B6).
  destruct (check_prepared_own x1 v h) as (P1 & P2 & P3 & P4 & P5 & P6 & P7 & P8 & P9 & P10 & Pout & P11). cbn zeta in *.
  assert (Ht0 : get_pp t0 v = Some ent) by (subst t0; rewrite get_pp_store_pp, Hnone, N.eqb_refl; reflexivity).
  assert (Gpp : forall v' e', get_pp t1 v' = Some e' -> get_pp (tc_t x) v' = Some e' \/ (v' = v /\ e' = ent)).
  { intros v' e' H. subst t1. rewrite get_pp_store_p in H. subst t0. rewrite get_pp_store_pp, Hnone in H.
    destruct (N.eqb_spec v' v) as [->|]; [right; inversion H; auto|left; exact H]. }
  assert (T1 : t_vc t1 = t_vc (tc_t x) /\ t_h t1 = t_h (tc_t x) /\ t_cm t1 = t_cm (tc_t x) /\ t_c t1 = t_c (tc_t x) /\
               t_prepared t1 = t_prepared (tc_t x) /\ t_p t1 = store_in (t_p (tc_t x)) v h (my_sig c)).
  { subst t1 t0. unfold store_pp. rewrite Hnone. cbn. auto 10. }
  destruct T1 as (U1 & U2 & U3 & U4 & U5 & U6).
  constructor.
  - rewrite P2. exact B2.
  - rewrite P1. exact B3.
  - unfold sentv in *. rewrite P3. exact B6.
  - rewrite P4, B1. exact U1.
  - destruct P7 as [Q1 Q2]. rewrite Q1, Q2, B1. split; assumption.
  - intros v' e' H. apply Gpp. rewrite <- B1. rewrite <- (get_pp_ext _ _ v' P5). exact H.
  - intros v' e' H. rewrite (get_pp_ext _ _ v' P5), B1. subst t1. rewrite get_pp_store_p. apply pp_stable_store_pp. exact H.
  - rewrite (get_pp_ext _ _ v P5), B1. subst t1. rewrite get_pp_store_p. exact Ht0.
  - intros [[v' h'] s'] Hq. rewrite P6, B1, U6 in Hq. apply In_store_in in Hq. exact Hq.
  - rewrite P6, B1, U6. apply incl_store_in.
  - intros q Hq. destruct P11 as [(Q1 & Q2 & Q3)|(Q1 & Q2 & Q3 & Q4 & Q5 & Q6 & Q7 & Q8)].
    + left. rewrite Q2, B1, U4 in Hq. exact Hq.
    + destruct (Q6 q Hq) as [Hq'|Hq']; [left; rewrite B1, U4 in Hq'; exact Hq'|right]. unfold lockv in *. rewrite B1, U5 in Q1. auto.
  - destruct P11 as [(Q1 & Q2 & Q3)|(Q1 & Q2 & Q3 & Q4 & Q5 & Q6 & Q7 & Q8)].
    + rewrite Q2, B1, U4. apply incl_refl.
    + rewrite B1, U4 in Q7. exact Q7.
  - destruct P11 as [(Q1 & Q2 & Q3)|(Q1 & Q2 & Q3 & Q4 & Q5 & Q6 & Q7 & Q8)].
    + left. rewrite Q2, B1, U4. reflexivity.
    + right. rewrite B1, U4 in Q8. exact Q8.
  - rewrite <- B4. exact P8.
  - rewrite <- B5. exact P9.
  - rewrite <- B5. exact P10.
  - destruct P11 as [(Q1 & Q2 & Q3)|(Q1 & Q2 & Q3 & Q4 & Q5 & Q6 & Q7 & Q8)].
    + left. unfold lockv in *. rewrite Q1, B1. split; [exact U5|]. rewrite <- B4. exact Q3.
    + right. unfold lockv in *. rewrite B1, U5 in Q1. rewrite B1, U4 in Q8. auto 10.
  - eapply incl_tran; [|exact Pout]. subst x1 x0' x0. cbn [tc_emit tc_set_t tc_out]. apply incl_tl.
    destruct (has_p _ _ _ _), (has_pp _ _); cbn [tc_emit tc_out]; repeat apply incl_tl; apply incl_refl.
  - do 2 eexists. apply Pout. subst x1. cbn [tc_emit tc_out]. left. reflexivity.
Qed.


Record el_sum (x x' : tc) (v : N) : Prop := {
  es_C : C x' = C x;
  es_D : D x' = D x;
  es_lock : lockv x' = lockv x;
  es_sentv : sentv x' = sentv x;
  es_vc : t_vc (tc_t x') = t_vc (tc_t x);
  es_p : t_p (tc_t x') = t_p (tc_t x);
  es_c : t_c (tc_t x') = t_c (tc_t x);
  es_hc : t_h (tc_t x') = t_h (tc_t x) /\ t_cm (tc_t x') = t_cm (tc_t x);
  es_v : tc_v x <= tc_v x';
  es_ppmono : pp_stable (tc_t x) (tc_t x');
  es_out : incl (tc_out x) (tc_out x');
  es_commit : tc_commit x' = tc_commit x;
  es_E : (E x' = E x /\ forall v' e', get_pp (tc_t x') v' = Some e' -> get_pp (tc_t x) v' = Some e')
         \/ (exists h, E x' = (v, h) :: E x /\ tc_v x' = v /\
              (forall v' e', get_pp (tc_t x') v' = Some e' -> get_pp (tc_t x) v' = Some e' \/
                   (v' = v /\ pe_snd e' = my_sig c /\ r_view (pe_ref e') = v /\ r_hash (pe_ref e') = h)) /\
              exists to ty i hh vs sg pp pps b, tc_out x' = OSend to (MNV ty i hh v vs sg pp pps b) :: skipn 0 (tl (tc_out x')) /\
                   r_hash pp = h /\ r_view pp = v)
}.

Lemma on_elected_own x v vs : let x' := on_elected c wm shut x v vs in el_sum x x' v.
Proof.
  cbn zeta. unfold on_elected, init_view.
  set (x0 := tc_set_t (set_latest v (tc_t x)) x).
  assert (R0 : el_sum x x0 v).
  { subst x0. constructor; cbn [tc_set_t tc_t tc_v set_latest t_h t_cm]; try reflexivity; try (split; reflexivity); try lia.
    all: try (apply incl_refl).
    all: try (intros v' e' H; exact H).
    all: try (left; split; [reflexivity|intros v' e' H; exact H]). }
  destruct (N.ltb_spec v (tc_v x0)) as [Hlt|Hge]; [exact R0|].
  set (x1 := tc_emit (OArm (t_h (tc_t x0)) v) (tc_set_v v x0)).
  assert (R1 : el_sum x x1 v).
  { subst x1 x0. cbn [tc_set_t tc_v] in Hge. constructor; cbn [tc_emit tc_set_v tc_set_t tc_t tc_v set_latest t_h t_cm]; try reflexivity; try (split; reflexivity); try exact Hge.
    all: try (cbn [tc_out]; apply incl_tl, incl_refl).
    all: try (intros v' e' H; exact H).
    all: try (rewrite C_emit_nonsend by reflexivity; reflexivity).
    all: try (unfold sentv, tc_emit; cbn [tc_out]; rewrite sent_of_cons_nonsend by reflexivity; reflexivity).
    all: try (left; split; [rewrite E_emit_nonsend by reflexivity; reflexivity|intros v' e' H; exact H]). }
  assert (G : forall (b : block) (h : N) (x2 : tc), el_sum x x2 v -> tc_v x2 = v -> E x2 = E x -> (forall v' e', get_pp (tc_t x2) v' = Some e' -> get_pp (tc_t x) v' = Some e') ->
     el_sum x (let t1 := tc_t x2 in
        let ppr := mk_ref T_PREPREPARE c (t_h t1) v h in
        let nv := MNV T_NEW_VIEW (c_inst c) (t_h t1) v (map fst vs) (my_sig c) ppr (my_sig c) (Some b) in
        let t2 := store_pp v {| pe_ref := ppr; pe_snd := my_sig c; pe_blk := Some b |} t1 in
        let x3 := if has_pp t1 v then x2 else tc_emit (OStore T_PREPREPARE (t_h t1) v h me) x2 in
        send_all c nv (tc_set_t t2 x3)) v).
  { intros b h x2 [S1 S2 S3 S4 S5 S6 S7 [S8 S9] S10 S11 So Sc S12] Hv HE Hpp. cbn zeta. unfold send_all.
    set (x3 := if has_pp (tc_t x2) v then x2 else _).
    assert (F3 : tc_t x3 = tc_t x2 /\ tc_v x3 = tc_v x2 /\ E x3 = E x2 /\ C x3 = C x2 /\ D x3 = D x2 /\ sentv x3 = sentv x2 /\ incl (tc_out x2) (tc_out x3) /\ tc_commit x3 = tc_commit x2).
    { subst x3. unfold sentv. destruct (has_pp _ _); repeat split; auto; try apply incl_refl.
      all: try (cbn [tc_emit tc_out]; apply incl_tl, incl_refl).
      all: rewrite ?E_emit_nonsend, ?C_emit_nonsend by reflexivity; try reflexivity.
      all: unfold tc_emit; cbn [tc_out]; rewrite ?sent_of_cons_nonsend by reflexivity; reflexivity. }
    destruct F3 as (A1 & A2 & A3 & A4 & A5 & A6 & A7 & A8).
    constructor; cbn [tc_emit tc_set_t tc_t tc_v].
    - rewrite C_emit_send. cbn [committed_of app]. unfold C in *. cbn [tc_set_t tc_out]. rewrite A4. exact S1.
    - unfold D in *. cbn [tc_emit tc_set_t tc_out flat_map decided_of app]. rewrite A5. exact S2.
    - unfold lockv in *. cbn [tc_emit tc_set_t tc_t]. unfold store_pp. destruct (get_pp (tc_t x2) v); cbn [t_prepared]; exact S3.
    - unfold sentv in *. unfold tc_emit; cbn [tc_out tc_set_t]. rewrite sent_of_send. cbn [flat_map voted_of app]. rewrite A6. exact S4.
    - unfold store_pp. destruct (get_pp (tc_t x2) v); cbn [t_vc]; exact S5.
    - unfold store_pp. destruct (get_pp (tc_t x2) v); cbn [t_p]; exact S6.
    - unfold store_pp. destruct (get_pp (tc_t x2) v); cbn [t_c]; exact S7.
    - unfold store_pp. destruct (get_pp (tc_t x2) v); cbn [t_h t_cm]; split; assumption.
    - rewrite A2. exact S10.
    - intros v' e' H. apply pp_stable_store_pp. apply S11. exact H.
    - cbn [tc_out]. apply incl_tl. eapply incl_tran; [exact So|exact A7].
    - unfold tc_emit, tc_set_t; cbn [tc_commit]. rewrite A8. exact Sc.
    - right. exists h. split.
      { rewrite E_emit_send. cbn [endorsed_of mk_ref r_view r_hash app]. unfold E in *. cbn [tc_set_t tc_out]. rewrite A3, HE. reflexivity. }
      split; [rewrite A2; exact Hv|]. split.
      { intros v' e' H. rewrite get_pp_store_pp in H. destruct (get_pp (tc_t x2) v) eqn:Eg; [left; apply Hpp; exact H|].
        destruct (N.eqb_spec v' v) as [->|]; [right; inversion H; subst; cbn; auto|left; apply Hpp; exact H]. }
      do 9 eexists. split; [reflexivity|]. cbn. auto. }
  destruct (latest_block vs) as [[b h]|].
  - apply G; [exact R1|reflexivity| |].
    + subst x1 x0. rewrite E_emit_nonsend by reflexivity. reflexivity.
    + subst x1 x0. cbn [tc_emit tc_set_v tc_set_t tc_t]. intros v' e' H. exact H.
  - destruct (ctx_ok wm shut (t_h (tc_t x1), tc_v x1)); cbn [negb]; [|exact R1].
    apply G.
    + destruct R1 as [S1 S2 S3 S4 S5 S6 S7 S8 S9 S10 So Sc S11]. constructor; auto.
    + reflexivity.
    + subst x1 x0. unfold tc_bump, E. cbn [tc_out]. unfold E. cbn [tc_emit tc_set_v tc_set_t tc_out]. rewrite sent_of_cons_nonsend by reflexivity. reflexivity.
    + subst x1 x0. cbn [tc_bump tc_emit tc_set_v tc_set_t tc_t]. intros v' e' H. exact H.
Qed.

Lemma check_elected_own x v : let x' := check_elected c wm shut x v in x' = x \/ (t_latest (tc_t x) < v /\ el_sum x x' v).
Proof.
  cbn zeta. unfold check_elected.
  destruct (N.leb_spec v (t_latest (tc_t x))); [left; reflexivity|].
  destruct (votes_of (tc_t x) v) eqn:Ev; [left; reflexivity|]. rewrite <- Ev.
  destruct (isQ_ids _ _); [right; split; [assumption|apply on_elected_own]|left; reflexivity].
Qed.

(* ---- the summary of one step of the term ---- *)
Definition own_nv_facts (x' : tc) (v y : N) (vs : list vote) (pp : bref) (b : option block) : Prop :=
  r_hash pp = y /\ r_view pp = v /\
  (forall vt, In vt vs -> exists ob, In (v, (vt, ob)) (t_vc (tc_t x'))) /\
  isQ_ids (t_cm (tc_t x')) (map (fun vt => s_id (v_snd vt)) vs) = true /\
  ((exists vt p, In vt vs /\ v_proof vt = Some p /\
       (forall vt' q, In vt' vs -> v_proof vt' = Some q -> r_view (pf_ppref q) <= r_view (pf_ppref p)) /\ y = r_hash (pf_ppref p))
   \/ (forall vt', In vt' vs -> v_proof vt' = None)).

Definition origin (x x' : tc) (v y : N) : Prop :=
  (exists to r s, In (OSend to (MP r s)) (tc_out x') /\ ~ In (OSend to (MP r s)) (tc_out x) /\ r_view r = v /\ r_hash r = y)
  \/ (exists to ty i hh vs sg pp pps b, In (OSend to (MNV ty i hh v vs sg pp pps b)) (tc_out x') /\ own_nv_facts x' v y vs pp b).

(* the proof inside a vote this node casts is made of what it has stored *)
Definition own_proof_from (x : tc) (vt : vote) : Prop :=
  forall p, v_proof vt = Some p ->
    (exists en, get_pp (tc_t x) (r_view (pf_ppref p)) = Some en /\ pe_snd en = pf_ppsnd p /\ r_hash (pe_ref en) = r_hash (pf_ppref p)) /\
    (forall s, In s (pf_psnds p) -> In (r_view (pf_pref p), r_hash (pf_pref p), s) (t_p (tc_t x))).

Record step_sum (e : tev) (x x' : tc) : Prop := {
  ss_v : tc_v x <= tc_v x';
  ss_hc : t_h (tc_t x') = t_h (tc_t x) /\ t_cm (tc_t x') = t_cm (tc_t x);
  ss_ppmono : pp_stable (tc_t x) (tc_t x');
  ss_out : incl (tc_out x) (tc_out x');
  ss_vcmono : incl (t_vc (tc_t x)) (t_vc (tc_t x'));
  ss_pmono : incl (t_p (tc_t x)) (t_p (tc_t x'));
  ss_cmono : incl (t_c (tc_t x)) (t_c (tc_t x'));
  ss_E : forall v y, In (v, y) (E x') -> In (v, y) (E x) \/ (v = tc_v x' /\ origin x x' v y);
  ss_C : forall v y, In (v, y) (C x') -> In (v, y) (C x) \/ certC (tc_t x') v y \/
           (lockv x' = Some v /\ lockv x <> Some v /\ hash_at (tc_t x') v = y);
  ss_D : forall v y, In (v, y) (D x') -> In (v, y) (D x) \/ commit_facts x' v y;
  ss_Vt : forall vt, In vt (Vt me x') -> In vt (Vt me x) \/
           (v_view vt <= tc_v x' /\ tc_v x < v_view vt /\ lock_of vt = L x /\ lockv x' = lockv x /\ s_id (v_snd vt) = me /\ own_proof_from x vt);
  ss_Vt_one : forall a b, In a (Vt me x') -> ~ In a (Vt me x) -> In b (Vt me x') -> ~ In b (Vt me x) -> a = b;
  ss_lock : lockv x' = lockv x \/
            (exists v, lockv x' = Some v /\ lockv x <> Some v /\ v = tc_v x' /\ certP (tc_t x') v (hash_at (tc_t x') v) /\ Vt me x' = Vt me x /\
                       In (v, hash_at (tc_t x') v) (C x') /\ has_c (tc_t x') v (hash_at (tc_t x') v) me = true);
  ss_p : forall v h s, In (v, h, s) (t_p (tc_t x')) -> In (v, h, s) (t_p (tc_t x)) \/ (s = my_sig c /\ In (v, h) (E x')) \/
           (exists r wm' sh', e = TMsg (MP r s) wm' sh' /\ r_type r = T_PREPARE /\ r_view r = v /\ r_hash r = h);
  ss_c : forall v h s, In (v, h, s) (t_c (tc_t x')) -> In (v, h, s) (t_c (tc_t x)) \/
           (s = my_sig c /\ In (v, h) (C x') /\ lockv x' = Some v /\ lockv x <> Some v /\ hash_at (tc_t x') v = h) \/
           (exists r o wm' sh', e = TMsg (MC r s o) wm' sh' /\ r_type r = T_COMMIT /\ r_view r = v /\ r_hash r = h /\ s_ok s = true);
  ss_ceq : t_c (tc_t x') = t_c (tc_t x) \/
           exists v h s, t_c (tc_t x') = store_in (t_c (tc_t x)) v h s /\ s_ok s = true /\ isMember (t_cm (tc_t x)) (s_id s) = true;
  ss_pp : forall v en, get_pp (tc_t x') v = Some en -> get_pp (tc_t x) v = Some en \/
           (pe_snd en = my_sig c /\ r_view (pe_ref en) = v /\ In (v, r_hash (pe_ref en)) (E x')) \/
           (exists r s b wm' sh', e = TMsg (MPP r s b) wm' sh' /\ en = {| pe_ref := r; pe_snd := s; pe_blk := b |} /\ r_view r = v /\ In (v, r_hash r) (E x')) \/
           (exists nty ninst nh nvw vs sg pp pps b wm' sh', e = TMsg (MNV nty ninst nh nvw vs sg pp pps b) wm' sh' /\
                en = {| pe_ref := pp; pe_snd := pps; pe_blk := b |} /\ r_view pp = v /\ In (v, r_hash pp) (E x'));
  ss_vceq : t_vc (tc_t x') = t_vc (tc_t x) \/
            exists v vt b, t_vc (tc_t x') = t_vc (tc_t x) ++ [(v, (vt, b))] /\ has_vc (tc_t x) v (s_id (v_snd vt)) = false;
  ss_vc : forall v vt b, In (v, (vt, b)) (t_vc (tc_t x')) -> In (v, (vt, b)) (t_vc (tc_t x)) \/
           (s_id (v_snd vt) = me /\ In vt (Vt me x')) \/ (exists wm' sh', e = TMsg (MVC vt b) wm' sh')
}.

Lemma Vt_same_one x x' : Vt me x' = Vt me x -> forall a b, In a (Vt me x') -> ~ In a (Vt me x) -> In b (Vt me x') -> ~ In b (Vt me x) -> a = b.
Proof. intros E0 a b Ha Hna. rewrite E0 in Ha. contradiction. Qed.

Lemma step_sum_refl e x : step_sum e x x.
Proof.
  constructor; try apply incl_refl; try (split; reflexivity); try lia; auto.
  all: try (intros v en H; exact H).
  all: try (apply Vt_same_one; reflexivity).
Qed.

Lemma flat_map_incl {A B} (f : A -> list B) l l' : incl l l' -> incl (flat_map f l) (flat_map f l').
Proof. intros H b Hb. apply in_flat_map in Hb. destruct Hb as (a & Ha & Hb). apply in_flat_map. exists a. auto. Qed.
Lemma sent_of_incl l l' : incl l l' -> incl (sent_of l) (sent_of l').
Proof. intro H. unfold sent_of. apply flat_map_incl. exact H. Qed.

Lemma own_stored_eq t t' : t_vc t' = t_vc t -> own_stored me t' = own_stored me t.
Proof. unfold own_stored. intros ->. reflexivity. Qed.

Lemma Vt_eq x x' : sentv x' = sentv x -> t_vc (tc_t x') = t_vc (tc_t x) -> Vt me x' = Vt me x.
Proof. intros A B. unfold Vt. fold (sentv x'). fold (sentv x). rewrite A, (own_stored_eq _ _ B). reflexivity. Qed.

Lemma handle_c_own x r s o wm' sh' : step_sum (TMsg (MC r s o) wm' sh') x (handle_c c wm shut x r s o).
Proof.
  unfold handle_c. destruct o; cbn [negb]; [|apply step_sum_refl].
  destruct (N.eqb_spec (r_type r) T_COMMIT) as [Ety|]; cbn [negb]; [|apply step_sum_refl].
  destruct (isMember _ _) eqn:Emem; cbn [negb]; [|apply step_sum_refl].
  destruct (s_ok s) eqn:Esok; cbn [negb]; [|apply step_sum_refl].
  set (v := r_view r). set (h := r_hash r).
  set (x0 := if has_c (tc_t x) v h (s_id s) then x else _).
  assert (F0 : tc_t x0 = tc_t x /\ tc_v x0 = tc_v x /\ E x0 = E x /\ C x0 = C x /\ D x0 = D x /\ sentv x0 = sentv x /\ incl (tc_out x) (tc_out x0)).
  { subst x0. unfold sentv. destruct (has_c _ _ _ _); repeat split; auto; try apply incl_refl.
    all: rewrite ?E_emit_nonsend, ?C_emit_nonsend by reflexivity; try reflexivity.
    all: try (unfold tc_emit; cbn [tc_out]; rewrite ?sent_of_cons_nonsend by reflexivity; reflexivity).
    cbn [tc_emit tc_out]. apply incl_tl, incl_refl. }
  destruct F0 as (A1 & A2 & A3 & A4 & A5 & A6 & A7).
  set (xa := tc_set_t (store_c v h s (tc_t x)) x0).
  destruct (check_committed_own' xa v h) as (S & Tc & GC & GC' & GD & GD'). cbn zeta in *.
  destruct S as [S1 S2 S3 S4 S5 S6 S7 [S8 S9] S10].
  assert (Ea : E xa = E x /\ C xa = C x /\ D xa = D x /\ sentv xa = sentv x) by (subst xa; unfold E, C, D, sentv in *; cbn [tc_set_t tc_out]; auto).
  destruct Ea as (Ea & Ca & Da & Va).
  constructor.
  - rewrite S2. subst xa. cbn [tc_set_t tc_v]. lia.
  - rewrite S8, S9. subst xa. cbn [tc_set_t tc_t store_c t_h t_cm]. rewrite ?A1. split; reflexivity.
  - intros v' e' H. rewrite (get_pp_ext _ _ v' S6). subst xa. cbn [tc_set_t tc_t]. rewrite get_pp_store_c. rewrite ?A1 in *. exact H.
  - eapply incl_tran; [exact A7|]. eapply incl_tran; [|exact S10]. subst xa. cbn [tc_set_t tc_out]. apply incl_refl.
  - rewrite S5. subst xa. cbn [tc_set_t tc_t store_c t_vc]. rewrite ?A1. apply incl_refl.
  - rewrite S7. subst xa. cbn [tc_set_t tc_t store_c t_p]. rewrite ?A1. apply incl_refl.
  - rewrite Tc. subst xa. cbn [tc_set_t tc_t store_c t_c]. rewrite ?A1. apply incl_store_in.
  - intros v' y H. left. rewrite S1, Ea in H. exact H.
  - intros v' y H. destruct (proj2 GC _ H) as [H'|H']; [left; rewrite Ca in H'; exact H'|].
    inversion H'; subst v' y. destruct (GC' H) as [H''|H'']; [left; rewrite Ca in H''; exact H''|right; left; exact H''].
  - intros v' y H. destruct (proj2 GD _ H) as [H'|H']; [left; rewrite Da in H'; exact H'|].
    inversion H'; subst v' y. destruct (GD' H) as [H''|H'']; [left; rewrite Da in H''; exact H''|right; exact H''].
  - intros vt H. left. assert (EV : Vt me (check_committed c wm shut xa v h) = Vt me x).
    { apply Vt_eq; [unfold sentv in *; rewrite S4; exact Va|rewrite S5; subst xa; reflexivity]. }
    rewrite EV in H. exact H.
  - apply Vt_same_one. apply Vt_eq; [unfold sentv in *; rewrite S4; exact Va|rewrite S5; subst xa; reflexivity].
  - left. rewrite S3. subst xa. unfold lockv. cbn [tc_set_t tc_t store_c t_prepared]. rewrite ?A1. reflexivity.
  - intros v' h' s' H. left. rewrite S7 in H. subst xa. cbn [tc_set_t tc_t store_c t_p] in H. rewrite ?A1 in H. exact H.
  - intros v' h' s' H. rewrite Tc in H. subst xa. cbn [tc_set_t tc_t store_c t_c] in H. rewrite ?A1 in H.
    destruct (In_store_in _ _ _ _ _ _ _ H) as [H'|H']; [left; exact H'|]. inversion H'; subst. right; right. do 4 eexists. repeat split; auto.
  - right. exists v, h, s. rewrite Tc. subst xa. cbn [tc_set_t tc_t store_c t_c]. rewrite ?A1. auto.
  - intros v' en H. left. rewrite (get_pp_ext _ _ v' S6) in H. subst xa. cbn [tc_set_t tc_t] in H. rewrite get_pp_store_c, ?A1 in H. exact H.
  - left. rewrite S5. subst xa. cbn [tc_set_t tc_t store_c t_vc]. rewrite ?A1. reflexivity.
  - intros v' vt b H. left. rewrite S5 in H. subst xa. cbn [tc_set_t tc_t store_c t_vc] in H. rewrite ?A1 in H. exact H.
Qed.

Lemma handle_p_own x r s wm' sh' : SInv c x -> step_sum (TMsg (MP r s) wm' sh') x (handle_p c wm shut x r s).
Proof.
  intro SI. unfold handle_p.
  destruct (N.eqb_spec (r_type r) T_PREPARE) as [Ety|]; cbn [negb]; [|apply step_sum_refl].
  destruct (isMember _ _); cbn [negb]; [|apply step_sum_refl].
  destruct (s_ok s); cbn [negb]; [|apply step_sum_refl].
  destruct (N.ltb_spec (r_view r) (tc_v x)) as [|Hge]; [apply step_sum_refl|].
  destruct (N.eqb _ _); [apply step_sum_refl|].
  set (v := r_view r) in *. set (h := r_hash r).
  set (x0 := if has_p (tc_t x) v h (s_id s) then x else _).
  assert (F0 : tc_t x0 = tc_t x /\ tc_v x0 = tc_v x /\ E x0 = E x /\ C x0 = C x /\ D x0 = D x /\ sentv x0 = sentv x /\ incl (tc_out x) (tc_out x0)).
  { subst x0. unfold sentv. destruct (has_p _ _ _ _); repeat split; auto; try apply incl_refl.
    all: rewrite ?E_emit_nonsend, ?C_emit_nonsend by reflexivity; try reflexivity.
    all: try (unfold tc_emit; cbn [tc_out]; rewrite ?sent_of_cons_nonsend by reflexivity; reflexivity).
    cbn [tc_emit tc_out]. apply incl_tl, incl_refl. }
  destruct F0 as (A1 & A2 & A3 & A4 & A5 & A6 & A7).
  set (xa := tc_set_t (store_p v h s (tc_t x)) x0).
  destruct (check_prepared_own xa v h) as (P1 & P2 & P3 & P4 & P5 & P6 & [P7 P7'] & P8 & P9 & P10 & Pout & P11). cbn zeta in *.
  assert (Ea : E xa = E x /\ C xa = C x /\ D xa = D x /\ sentv xa = sentv x /\ tc_v xa = tc_v x) by (subst xa; unfold E, C, D, sentv in *; cbn [tc_set_t tc_out tc_v]; auto).
  destruct Ea as (Ea & Ca & Da & Va & Vv).
  assert (EV : Vt me (check_prepared c wm shut xa v h) = Vt me x).
  { apply Vt_eq; [unfold sentv in *; rewrite P3; exact Va|rewrite P4; subst xa; reflexivity]. }
  assert (Gpp : forall v' en, get_pp (tc_t (check_prepared c wm shut xa v h)) v' = Some en -> get_pp (tc_t x) v' = Some en).
  { intros v' en H. rewrite (get_pp_ext _ _ v' P5) in H. subst xa. cbn [tc_set_t tc_t] in H. rewrite get_pp_store_p in H. exact H. }
  constructor.
  - rewrite P2, Vv. lia.
  - rewrite P7, P7'. subst xa. cbn [tc_set_t tc_t store_p t_h t_cm]. split; reflexivity.
  - intros v' e' H. rewrite (get_pp_ext _ _ v' P5). subst xa. cbn [tc_set_t tc_t]. rewrite get_pp_store_p. exact H.
  - eapply incl_tran; [exact A7|]. eapply incl_tran; [|exact Pout]. subst xa. cbn [tc_set_t tc_out]. apply incl_refl.
  - rewrite P4. subst xa. cbn [tc_set_t tc_t store_p t_vc]. apply incl_refl.
  - rewrite P6. subst xa. cbn [tc_set_t tc_t store_p t_p]. apply incl_store_in.
  - destruct P11 as [(Q1 & Q2 & Q3)|(Q1 & Q2 & Q3 & Q4 & Q5 & Q6 & Q7 & Q8)].
    + rewrite Q2. subst xa. cbn [tc_set_t tc_t store_p t_c]. apply incl_refl.
    + subst xa. cbn [tc_set_t tc_t store_p t_c] in Q7. exact Q7.
  - intros v' y H. left. rewrite P1, Ea in H. exact H.
  - intros v' y H. destruct (proj2 P8 _ H) as [H'|H']; [left; rewrite Ca in H'; exact H'|].
    inversion H'; subst v' y. destruct P11 as [(Q1 & Q2 & Q3)|(Q1 & Q2 & Q3 & Q4 & Q5 & Q6 & Q7 & Q8)].
    + destruct (Q3 H) as [H''|H'']; [left; rewrite Ca in H''; exact H''|right; left; exact H''].
    + right; right. unfold lockv in *. subst xa. cbn [tc_set_t tc_t store_p t_prepared] in Q1. auto.
  - intros v' y H. destruct (proj2 P9 _ H) as [H'|H']; [left; rewrite Da in H'; exact H'|].
    inversion H'; subst v' y. destruct (P10 H) as [H''|H'']; [left; rewrite Da in H''; exact H''|right; exact H''].
  - intros vt H. left. rewrite EV in H. exact H.
  - apply Vt_same_one. exact EV.
  - destruct P11 as [(Q1 & Q2 & Q3)|(Q1 & Q2 & Q3 & Q4 & Q5 & Q6 & Q7 & Q8)].
    + left. rewrite Q1. subst xa. reflexivity.
    + right. exists v. unfold lockv in *. subst xa. cbn [tc_set_t tc_t store_p t_prepared] in Q1. split; [exact Q2|]. split; [exact Q1|].
      destruct Q4 as (en & G1 & G2). pose proof (Gpp v en G1) as G1'. destruct (si_pp _ _ SI v en G1') as [_ Hle].
      split; [rewrite P2; cbn [tc_set_t tc_v]; rewrite A2; lia|]. split; [rewrite Q3; exists en; auto|]. split; [exact EV|]. rewrite Q3. split; [exact Q5|].
      unfold has_c. rewrite Q8. apply (in_bucket_after_store0 _ v h (my_sig c)).
  - intros v' h' s' H. rewrite P6 in H. subst xa. cbn [tc_set_t tc_t store_p t_p] in H.
    destruct (In_store_in _ _ _ _ _ _ _ H) as [H'|H']; [left; exact H'|]. inversion H'; subst. right; right. do 3 eexists. repeat split; auto.
  - intros v' h' s' H. destruct P11 as [(Q1 & Q2 & Q3)|(Q1 & Q2 & Q3 & Q4 & Q5 & Q6 & Q7 & Q8)].
    + left. rewrite Q2 in H. subst xa. exact H.
    + destruct (Q6 _ H) as [H'|H']; [left; subst xa; exact H'|]. inversion H'; subst. right; left. unfold lockv in *. subst xa. cbn [tc_set_t tc_t store_p t_prepared] in Q1. auto.
  - destruct P11 as [(Q1 & Q2 & Q3)|(Q1 & Q2 & Q3 & Q4 & Q5 & Q6 & Q7 & Q8)].
    + left. rewrite Q2. subst xa. reflexivity.
    + right. exists v, h, (my_sig c). subst xa. cbn [tc_set_t tc_t store_p t_c] in Q8. split; [exact Q8|]. split; [reflexivity|]. apply (si_me _ _ SI).
  - intros v' en H. left. apply Gpp. exact H.
  - left. rewrite P4. subst xa. reflexivity.
  - intros v' vt b H. left. rewrite P4 in H. subst xa. exact H.
Qed.

(* a state that differs from x only by a higher view, the vote/new-view watermark and non-send outputs *)
Record like (x xin : tc) : Prop := {
  lk_v : tc_v x <= tc_v xin;
  lk_E : E xin = E x; lk_C : C xin = C x; lk_D : D xin = D x; lk_sentv : sentv xin = sentv x;
  lk_out : incl (tc_out x) (tc_out xin);
  lk_mp : forall to r s, In (OSend to (MP r s)) (tc_out xin) -> In (OSend to (MP r s)) (tc_out x);
  lk_pp : t_pp (tc_t xin) = t_pp (tc_t x); lk_p : t_p (tc_t xin) = t_p (tc_t x); lk_c : t_c (tc_t xin) = t_c (tc_t x);
  lk_vc : t_vc (tc_t xin) = t_vc (tc_t x); lk_prep : t_prepared (tc_t xin) = t_prepared (tc_t x);
  lk_hc : t_h (tc_t xin) = t_h (tc_t x) /\ t_cm (tc_t xin) = t_cm (tc_t x)
}.
Lemma like_refl x : like x x.
Proof. constructor; auto; try lia; try apply incl_refl. Qed.

Lemma process_pp_step e x xin r s b : TInv c x -> isMember (t_cm (tc_t x)) me = true -> like x xin -> get_pp (tc_t x) (r_view r) = None ->
  (forall en, en = {| pe_ref := r; pe_snd := s; pe_blk := b |} ->
     (exists r0 s0 b0 wm' sh', e = TMsg (MPP r0 s0 b0) wm' sh' /\ en = {| pe_ref := r0; pe_snd := s0; pe_blk := b0 |} /\ r_view r0 = r_view r) \/
     (exists nty ninst nh nvw vs sg pp pps b0 wm' sh', e = TMsg (MNV nty ninst nh nvw vs sg pp pps b0) wm' sh' /\
          en = {| pe_ref := pp; pe_snd := pps; pe_blk := b0 |} /\ r_view pp = r_view r)) ->
  step_sum e x xin -> step_sum e x (process_pp c wm shut xin r s b).
Proof.
  intros TI Hme [K1 K2 K3 K4 K5 K6 Kmp K7 K8 K9 K10 K11 [K12 K13]] Hnone Horig Sin.
  assert (Hnone' : get_pp (tc_t xin) (r_view r) = None) by (rewrite (get_pp_ext _ _ _ K7); exact Hnone).
  destruct (process_pp_own xin r s b Hnone') as [[_ ->]|[Ev PS]]; [exact Sin|]. cbn zeta in *.
  set (x' := process_pp c wm shut xin r s b) in *. set (v := r_view r) in *. set (h := r_hash r) in *.
  destruct PS as [S1 S2 S3 S4 [S5 S5'] S6 S7 Sst S8 S9 S10 S11 Sceq S12 S13 S14 S15 S16 S17].
  assert (EV : Vt me x' = Vt me x) by (apply Vt_eq; [rewrite S3; exact K5|rewrite S4; exact K10]).
  assert (GP : forall v' en, get_pp (tc_t xin) v' = Some en -> get_pp (tc_t x) v' = Some en) by (intros v' en H; rewrite <- (get_pp_ext _ _ v' K7); exact H).
  assert (GP' : forall v' en, get_pp (tc_t x) v' = Some en -> get_pp (tc_t xin) v' = Some en) by (intros v' en H; rewrite (get_pp_ext _ _ v' K7); exact H).
  constructor.
  - rewrite S1. exact K1.
  - rewrite S5, S5'. split; assumption.
  - intros v' e' H. apply S7. apply GP'. exact H.
  - eapply incl_tran; [exact K6|exact S16].
  - rewrite S4, K10. apply incl_refl.
  - rewrite <- K8. exact S9.
  - rewrite <- K9. exact S11.
  - intros v' y H. rewrite S2 in H. destruct H as [H|H]; [|left; rewrite K2 in H; exact H].
    inversion H; subst v' y. right. split; [rewrite S1; symmetry; exact Ev|].
    left. destruct S17 as (to & hh & Hmp). exists to, (mk_ref T_PREPARE c hh v h), (my_sig c). split; [exact Hmp|]. split; [|cbn; auto].
    intro Hold. destruct (ti_mp _ _ TI _ _ _ Hold) as (_ & _ & _ & en & G & _). cbn [mk_ref r_view] in G. rewrite Hnone in G. discriminate.
  - intros v' y H. destruct (proj2 S12 _ H) as [H'|H']; [left; rewrite K3 in H'; exact H'|].
    inversion H'; subst v' y. destruct S15 as [(Q1 & Q2)|(Q1 & Q2 & Q3 & Q4 & Q5 & Q6)].
    + destruct (Q2 H) as [H''|H'']; [left; rewrite K3 in H''; exact H''|right; left; exact H''].
    + right; right. unfold lockv in *. rewrite K11 in Q1. auto.
  - intros v' y H. destruct (proj2 S13 _ H) as [H'|H']; [left; rewrite K4 in H'; exact H'|].
    inversion H'; subst v' y. destruct (S14 H) as [H''|H'']; [left; rewrite K4 in H''; exact H''|right; exact H''].
  - intros vt H. left. rewrite EV in H. exact H.
  - apply Vt_same_one. exact EV.
  - destruct S15 as [(Q1 & Q2)|(Q1 & Q2 & Q3 & Q4 & Q5 & Q6)].
    + left. rewrite Q1. unfold lockv. exact K11.
    + right. exists v. unfold lockv in *. rewrite K11 in Q1. split; [exact Q2|]. split; [exact Q1|]. split; [rewrite S1; symmetry; exact Ev|]. split; [rewrite Q3; exact Q4|]. split; [exact EV|]. rewrite Q3.
      split; [exact Q5|]. unfold has_c. rewrite Q6. apply (in_bucket_after_store0 _ v h (my_sig c)).
  - intros v' h' s' H. destruct (S8 _ H) as [H'|H']; [left; rewrite K8 in H'; exact H'|]. inversion H'; subst. right; left. split; [reflexivity|]. rewrite S2. left; reflexivity.
  - intros v' h' s' H. destruct (S10 _ H) as [H'|(H' & H1 & H2 & H3 & H4)]; [left; rewrite K9 in H'; exact H'|]. inversion H'; subst. right; left. unfold lockv in *. rewrite K11 in H3. auto.
  - destruct Sceq as [Sceq|Sceq]; [left; rewrite Sceq; exact K9|right]. exists v, h, (my_sig c). rewrite K9 in Sceq. auto.
  - intros v' en H. destruct (S6 _ _ H) as [H'|[-> ->]]; [left; apply GP; exact H'|].
    right; right. destruct (Horig _ eq_refl) as [(r0 & s0 & b0 & wm' & sh' & A & B & C0)|(nty & ninst & nh & nvw & vs & sg & pp & pps & b0 & wm' & sh' & A & B & C0)].
    + left. exists r0, s0, b0, wm', sh'. repeat split; auto. inversion B; subst. rewrite S2. left; reflexivity.
    + right. exists nty, ninst, nh, nvw, vs, sg, pp, pps, b0, wm', sh'. repeat split; auto. inversion B; subst. rewrite S2. left; reflexivity.
  - left. rewrite S4, K10. reflexivity.
  - intros v' vt b' H. left. rewrite S4, K10 in H. exact H.
Qed.

Lemma validate_pp_none t r s : validate_pp c t r s = true -> get_pp t (r_view r) = None.
Proof. unfold validate_pp. destruct (get_pp t (r_view r)); [discriminate|reflexivity]. Qed.

Lemma handle_pp_own x r s b wm' sh' : TInv c x -> SInv c x -> step_sum (TMsg (MPP r s b) wm' sh') x (handle_pp c wm shut x r s b).
Proof.
  intros TI SI. unfold handle_pp. destruct (validate_pp c (tc_t x) r s) eqn:Ev; cbn [negb]; [|apply step_sum_refl].
  destruct (N.eqb (tc_v x) (r_view r)); cbn [negb]; [|apply step_sum_refl].
  destruct (ctx_ok _ _ _); cbn [negb]; [|apply step_sum_refl].
  destruct (validProposal _ _ _ _); cbn [negb]; [|apply step_sum_refl].
  apply process_pp_step; [exact TI|apply (si_me _ _ SI)|apply like_refl|apply validate_pp_none with s; exact Ev| |apply step_sum_refl].
  intros en ->. left. exists r, s, b, wm', sh'. auto.
Qed.

Lemma handle_nv_own x nty ninst nh nvw vs sg pp pps b wm' sh' : TInv c x -> SInv c x ->
  step_sum (TMsg (MNV nty ninst nh nvw vs sg pp pps b) wm' sh') x (handle_nv c wm shut x nty ninst nh nvw vs sg pp pps b).
Proof.
  intros TI SI. unfold handle_nv.
  destruct (N.ltb_spec nvw (tc_v x)) as [|Hge]; [apply step_sum_refl|].
  destruct (N.eqb nty T_NEW_VIEW); cbn [negb]; [|apply step_sum_refl].
  destruct (s_ok sg); cbn [negb]; [|apply step_sum_refl].
  destruct (N.eqb (s_id sg) _); cbn [negb]; [|apply step_sum_refl].
  destruct (votes_ok _ _ _ _); cbn [negb]; [|apply step_sum_refl].
  destruct (N.eqb_spec (r_view pp) nvw) as [Evw|]; cbn [negb]; [|apply step_sum_refl].
  destruct (N.eqb (r_height pp) nh); cbn [negb]; [|apply step_sum_refl].
  destruct (forallb _ vs); cbn [negb]; [|apply step_sum_refl].
  assert (CONT : step_sum (TMsg (MNV nty ninst nh nvw vs sg pp pps b) wm' sh') x
     (if negb (validate_pp c (tc_t x) pp pps) then x else
      match init_view nvw (tc_set_t (set_latest nvw (tc_t x)) x) with
      | Some x1 => process_pp c wm shut x1 pp pps b
      | None => tc_set_t (set_latest nvw (tc_t x)) x
      end)).
  { destruct (validate_pp c (tc_t x) pp pps) eqn:Ev; cbn [negb]; [|apply step_sum_refl].
    unfold init_view. cbn [tc_set_t tc_v]. destruct (N.ltb_spec nvw (tc_v x)) as [|_]; [lia|].
    set (x1 := tc_emit (OArm _ nvw) (tc_set_v nvw (tc_set_t (set_latest nvw (tc_t x)) x))).
    assert (LK : like x x1).
    { subst x1. constructor; try reflexivity; try (split; reflexivity).
      all: try (cbn [tc_emit tc_set_v tc_set_t tc_v]; exact Hge).
      all: try (cbn [tc_emit tc_set_v tc_set_t tc_out]; apply incl_tl, incl_refl).
      all: try (intros to r0 s0 [H|H]; [discriminate|exact H]). }
    assert (S1 : step_sum (TMsg (MNV nty ninst nh nvw vs sg pp pps b) wm' sh') x x1).
    { destruct LK as [K1 K2 K3 K4 K5 K6 Kmp K7 K8 K9 K10 K11 [K12 K13]].
      constructor; auto.
      all: try (intros v' e' H; rewrite (get_pp_ext _ _ v' K7); exact H).
      all: try (rewrite K10; apply incl_refl); try (rewrite K8; apply incl_refl); try (rewrite K9; apply incl_refl).
      all: try (intros v' y H; left; rewrite ?K2, ?K3, ?K4 in H; exact H).
      all: try (intros vt H; left; rewrite (Vt_eq x x1 K5 K10) in H; exact H).
      all: try (apply Vt_same_one; apply (Vt_eq x x1 K5 K10)).
      all: try (left; unfold lockv; exact K11).
      all: try (intros v' h' s' H; left; rewrite ?K8, ?K9 in H; exact H).
      all: try (intros v' en H; left; rewrite (get_pp_ext _ _ v' K7) in H; exact H).
      all: try (intros v' vt b' H; left; rewrite K10 in H; exact H).
      all: try (left; exact K9).
      all: try (left; exact K10). }
    apply process_pp_step; [exact TI|apply (si_me _ _ SI)|exact LK|apply validate_pp_none with pps; exact Ev| |exact S1].
    intros en ->. right. exists nty, ninst, nh, nvw, vs, sg, pp, pps, b, wm', sh'. auto. }
  destruct (latest_vote vs) as [lv|].
  - destruct (v_proof lv) as [p|]; [|apply step_sum_refl].
    destruct (commitsTo _ _ _); cbn [negb]; [|apply step_sum_refl].
    destruct (N.eqb _ _); cbn [negb]; [exact CONT|apply step_sum_refl].
  - destruct (ctx_ok _ _ _); cbn [negb]; [|apply step_sum_refl].
    destruct (validProposal _ _ _ _); cbn [negb]; [exact CONT|apply step_sum_refl].
Qed.

(* the part of a step that ends in checkElected: used by HandleViewChange and by the election of a node that leads the next view *)
Lemma elected_step e x xa v : TInv c x -> SInv c xa ->
  incl (tc_out x) (tc_out xa) -> (forall to ty i hh nv vs sg pp pps b, In (OSend to (MNV ty i hh nv vs sg pp pps b)) (tc_out xa) -> In (OSend to (MNV ty i hh nv vs sg pp pps b)) (tc_out x)) ->
  t_latest (tc_t xa) = t_latest (tc_t x) -> E xa = E x -> lockv xa = lockv x ->
  step_sum e x xa -> step_sum e x (check_elected c wm shut xa v).
Proof.
  intros TI SIa Hout Hnv Hlat HE Hlock Sa.
  destruct (check_elected_own xa v) as [->|[Hlt EL]]; [exact Sa|]. cbn zeta in *.
  set (x' := check_elected c wm shut xa v) in *.
  destruct EL as [S1 S2 S3 S4 S5 S6 S7 [S8 S8'] S9 S10 So Sc S11].
  destruct Sa as [T1 [T2 T2'] T3 T4 T5 T6 T7 T8 T9 T10 T11 T11' T12 T13 T14 Tceq T15 Tvceq T16].
  assert (EV : Vt me x' = Vt me xa) by (apply Vt_eq; assumption).
  constructor.
  - lia.
  - rewrite S8, S8'. split; assumption.
  - intros v' e' H. apply S10. apply T3. exact H.
  - eapply incl_tran; [exact T4|exact So].
  - rewrite S5. exact T5.
  - rewrite S6. exact T6.
  - rewrite S7. exact T7.
  - intros v' y H. destruct S11 as [[Ee _]|(h & Ee & Ev & Hpp & to & ty & i & hh & vs & sg & pp & pps & b & Eo & Hh & Hv)].
    + rewrite Ee, HE in H. left. exact H.
    + rewrite Ee, HE in H. destruct H as [H|H]; [|left; exact H]. inversion H; subst v' y. right. split; [symmetry; exact Ev|].
      right.
      assert (Hin : In (OSend to (MNV ty i hh v vs sg pp pps b)) (tc_out x')) by (rewrite Eo; left; reflexivity).
      assert (Hnot : ~ In (OSend to (MNV ty i hh v vs sg pp pps b)) (tc_out xa)).
      { intro Hold. apply Hnv in Hold.
        assert (Hp : In (r_view pp, r_hash pp) (props (tc_out x))).
        { unfold props. apply in_flat_map. exists (MNV ty i hh v vs sg pp pps b). split; [|left; reflexivity].
          unfold sent_of. apply in_flat_map. exists (OSend to (MNV ty i hh v vs sg pp pps b)). split; [exact Hold|left; reflexivity]. }
        pose proof (ti_prop_le _ _ TI) as PL. rewrite Forall_forall in PL.
        specialize (PL (r_view pp)). rewrite Hv in PL. assert (v <= t_latest (tc_t x)) by (apply PL; apply in_map_iff; exists (r_view pp, r_hash pp); split; [exact Hv|exact Hp]).
        rewrite Hlat in Hlt. lia. }
      destruct (newview_embeds_counted_votes c wm shut xa v to ty i hh v vs sg pp pps b SIa Hin Hnot) as (_ & Evs & _ & _ & _ & _ & _ & Q & _ & _ & _ & HB).
      exists to, ty, i, hh, vs, sg, pp, pps, b. split; [exact Hin|]. unfold own_nv_facts. split; [exact Hh|]. split; [exact Hv|]. split.
      { intros vt Hvt. rewrite Evs in Hvt. apply in_map_iff in Hvt. destruct Hvt as ([vt' ob] & <- & Hi). exists ob. rewrite S5. apply votes_of_In. exact Hi. }
      split. { rewrite S8'. rewrite Evs. rewrite map_map. exact Q. }
      destruct HB as [(vt & p & bb & B1 & B2 & B3 & B4 & _)|(B1 & _)].
      * left. exists vt, p. split; [rewrite Evs; apply in_map_iff; exists (vt, Some bb); auto|]. split; [exact B2|]. split; [rewrite Evs; exact B3|]. rewrite <- Hh. exact B4.
      * right. rewrite Evs. exact B1.
  - intros v' y H. rewrite S1 in H. apply T9 in H. destruct H as [H|[H|(H1 & H2 & H3)]]; auto.
    + right; left. unfold certC in *. rewrite S7, S8'. exact H.
    + right; right. unfold lockv in *. rewrite S3. split; [exact H1|]. split; [exact H2|].
      unfold hash_at in *. destruct (get_pp (tc_t xa) v') as [en|] eqn:G; [rewrite (S10 _ _ G); exact H3|].
      (* a lock view always has its proposal stored *)
      destruct (si_prep _ _ SIa v' H1) as (en & _ & G' & _). congruence.
  - intros v' y H. rewrite S2 in H. apply T10 in H. destruct H as [H|(H1 & en & b & G1 & G2 & G3 & G4)]; auto.
    right. split; [unfold certC in *; rewrite S7, S8'; exact H1|]. exists en, b. split; [apply S10; exact G1|]. split; [exact G2|]. split; [exact G3|].
    rewrite Sc. exact G4.
  - intros vt H. rewrite EV in H. apply T11 in H. destruct H as [H|(H1 & H2 & H3 & H4 & H5 & H6)]; auto.
    right. split; [lia|]. split; [exact H2|]. split; [exact H3|]. split; [rewrite S3; exact H4|]. split; [exact H5|exact H6].
  - rewrite EV. exact T11'.
  - left. rewrite S3. exact Hlock.
  - intros v' h' s' H. rewrite S6 in H. apply T13 in H. destruct H as [H|[[H1 H2]|H]]; auto.
    right; left. split; [exact H1|]. destruct S11 as [[Ee _]|(h & Ee & _)]; rewrite Ee; [exact H2|right; exact H2].
  - intros v' h' s' H. rewrite S7 in H. apply T14 in H. destruct H as [H|[(H1 & H2 & H3 & H4 & H5)|H]]; auto.
    right; left. split; [exact H1|]. rewrite S1. split; [exact H2|]. rewrite S3. split; [exact H3|]. split; [exact H4|].
    unfold hash_at in *. destruct (get_pp (tc_t xa) v') as [en|] eqn:G; [rewrite (S10 _ _ G); exact H5|]. destruct (si_prep _ _ SIa v' H3) as (en & _ & G' & _). congruence.
  - rewrite S7. exact Tceq.
  - intros v' en H.
    assert (INCL : incl (E xa) (E x')) by (destruct S11 as [[Ee _]|(h & Ee & _)]; rewrite Ee; [apply incl_refl|apply incl_tl, incl_refl]).
    assert (OLD : get_pp (tc_t xa) v' = Some en -> get_pp (tc_t x) v' = Some en \/
           (pe_snd en = my_sig c /\ r_view (pe_ref en) = v' /\ In (v', r_hash (pe_ref en)) (E x')) \/
           (exists r s b wm' sh', e = TMsg (MPP r s b) wm' sh' /\ en = {| pe_ref := r; pe_snd := s; pe_blk := b |} /\ r_view r = v' /\ In (v', r_hash r) (E x')) \/
           (exists nty ninst nh nvw vs sg pp pps b wm' sh', e = TMsg (MNV nty ninst nh nvw vs sg pp pps b) wm' sh' /\
                en = {| pe_ref := pp; pe_snd := pps; pe_blk := b |} /\ r_view pp = v' /\ In (v', r_hash pp) (E x'))).
    { intro H'. apply T15 in H'. destruct H' as [H'|[(K1 & K2 & K3)|[(r & s & b & wm' & sh' & A & B & C0 & D0)|(nty & ninst & nh & nvw & vs & sg & pp & pps & b & wm' & sh' & A & B & C0 & D0)]]].
      - left; exact H'.
      - right; left. split; [exact K1|]. split; [exact K2|apply INCL; exact K3].
      - right; right; left. exists r, s, b, wm', sh'. repeat split; auto.
      - right; right; right. exists nty, ninst, nh, nvw, vs, sg, pp, pps, b, wm', sh'. repeat split; auto. }
    destruct S11 as [[Ee Hpp]|(h & Ee & Ev & Hpp & _)].
    + apply OLD. apply Hpp. exact H.
    + destruct (Hpp _ _ H) as [H'|(-> & H1 & H2 & H3)]; [apply OLD; exact H'|].
      right; left. split; [exact H1|]. split; [exact H2|]. rewrite Ee, H3. left; reflexivity.
  - rewrite S5. exact Tvceq.
  - intros v' vt b H. rewrite S5 in H. apply T16 in H. destruct H as [H|[[H1 H2]|H]]; auto.
    right; left. split; [exact H1|]. rewrite EV. exact H2.
Qed.

Lemma store_vc_cases v vt b t :
  store_vc v vt b t = t \/ (t_vc (store_vc v vt b t) = t_vc t ++ [(v, (vt, b))] /\ t_pp (store_vc v vt b t) = t_pp t /\ t_p (store_vc v vt b t) = t_p t /\
     t_c (store_vc v vt b t) = t_c t /\ t_prepared (store_vc v vt b t) = t_prepared t /\ t_latest (store_vc v vt b t) = t_latest t /\
     t_h (store_vc v vt b t) = t_h t /\ t_cm (store_vc v vt b t) = t_cm t /\ has_vc t v (s_id (v_snd vt)) = false).
Proof. unfold store_vc, has_vc. destruct (memN _ _) eqn:E0; [left; reflexivity|right; cbn; auto 10]. Qed.

Lemma own_stored_app t l : own_stored me {| t_h := t_h t; t_cm := t_cm t; t_pp := t_pp t; t_p := t_p t; t_c := t_c t; t_vc := t_vc t ++ l;
    t_prepared := t_prepared t; t_latest := t_latest t; t_committed := t_committed t |} = own_stored me t ++ flat_map (fun e => if N.eqb (s_id (v_snd (fst (snd e)))) me then [fst (snd e)] else []) l.
Proof. unfold own_stored. cbn [t_vc]. apply flat_map_app. Qed.

(* the state after storing a vote (a received one, or the node's own when it leads the next view) and before checkElected *)
Lemma stored_vote_step e x x0 v vt b : TInv c x -> SInv c x ->
  tc_t x0 = tc_t x -> tc_v x <= tc_v x0 -> E x0 = E x -> C x0 = C x -> D x0 = D x -> sentv x0 = sentv x ->
  incl (tc_out x) (tc_out x0) ->
  (forall to ty i hh nv vs sg pp pps b', In (OSend to (MNV ty i hh nv vs sg pp pps b')) (tc_out x0) -> In (OSend to (MNV ty i hh nv vs sg pp pps b')) (tc_out x)) ->
  SInv c x0 -> vc_good c (tc_t x) v vt b ->
  ((exists wm' sh', e = TMsg (MVC vt b) wm' sh') /\ s_id (v_snd vt) <> me \/
   (s_id (v_snd vt) = me /\ v_view vt <= tc_v x0 /\ tc_v x < v_view vt /\ lock_of vt = L x /\ own_proof_from x vt)) ->
  step_sum e x (check_elected c wm shut (tc_set_t (store_vc v vt b (tc_t x)) x0) v).
Proof.
  intros TI SI Et Ev EE EC ED ES Hout Hnv SI0 VG Horig.
  set (xa := tc_set_t (store_vc v vt b (tc_t x)) x0).
  assert (SIa : SInv c xa) by (subst xa; rewrite <- Et; apply SInv_store_vc; [exact SI0|rewrite Et; exact VG]).
  apply elected_step; try assumption.
  - subst xa. cbn [tc_set_t tc_t]. destruct (store_vc_cases v vt b (tc_t x)) as [->|(_ & _ & _ & _ & _ & L & _)]; [reflexivity|exact L].
  - subst xa. unfold lockv. cbn [tc_set_t tc_t]. destruct (store_vc_cases v vt b (tc_t x)) as [->|(_ & _ & _ & _ & P & _)]; [reflexivity|exact P].
  - destruct (store_vc_cases v vt b (tc_t x)) as [Es|(V1 & V2 & V3 & V4 & V5 & V6 & V7 & V8 & V9)].
    + (* nothing stored: the state is x0 *)
      subst xa. rewrite Es.
      assert (EV : Vt me (tc_set_t (tc_t x) x0) = Vt me x) by (apply Vt_eq; [exact ES|reflexivity]).
      constructor; cbn [tc_set_t tc_t tc_v tc_out]; try apply incl_refl; try (split; reflexivity); auto.
      all: try (intros v' e' H; exact H).
      all: try (intros v' y H; left; unfold E, C, D in *; cbn [tc_set_t tc_out] in *; rewrite ?EE, ?EC, ?ED in H; exact H).
      all: try (intros vt' H; left; rewrite EV in H; exact H).
      all: try (apply Vt_same_one; exact EV).
      all: try (left; reflexivity).
    + subst xa.
      assert (EVa : own_stored me (store_vc v vt b (tc_t x)) = own_stored me (tc_t x) ++ (if N.eqb (s_id (v_snd vt)) me then [vt] else [])).
      { unfold own_stored. rewrite V1, flat_map_app. cbn [flat_map fst snd]. rewrite app_nil_r. reflexivity. }
      constructor; cbn [tc_set_t tc_t tc_v tc_out].
      * exact Ev.
      * split; assumption.
      * intros v' e' H. rewrite (get_pp_ext _ _ v' V2). exact H.
      * exact Hout.
      * rewrite V1. apply incl_appl, incl_refl.
      * rewrite V3. apply incl_refl.
      * rewrite V4. apply incl_refl.
      * intros v' y H. left. unfold E in *. cbn [tc_set_t tc_out] in H. rewrite EE in H. exact H.
      * intros v' y H. left. unfold C in *. cbn [tc_set_t tc_out] in H. rewrite EC in H. exact H.
      * intros v' y H. left. unfold D in *. cbn [tc_set_t tc_out] in H. rewrite ED in H. exact H.
      * intros vt' H. unfold Vt in H. cbn [tc_set_t tc_out tc_t] in H. fold (sentv x0) in H. rewrite ES, EVa in H.
        apply in_app_or in H. destruct H as [H|H]; [left; unfold Vt; apply in_or_app; left; exact H|].
        apply in_app_or in H. destruct H as [H|H]; [left; unfold Vt; apply in_or_app; right; exact H|].
        destruct (N.eqb_spec (s_id (v_snd vt)) me) as [Eme|Nme]; [|destruct H].
        destruct H as [<-|[]]. destruct Horig as [[_ Hne]|(_ & H2 & H3 & H4 & H5)]; [contradiction|].
        right. unfold lockv. cbn [tc_set_t tc_t]. rewrite V5. auto 10.
      * assert (NEW : forall a, In a (Vt me (tc_set_t (store_vc v vt b (tc_t x)) x0)) -> ~ In a (Vt me x) -> a = vt).
        { intros a H Hn. unfold Vt in H. cbn [tc_set_t tc_out tc_t] in H. fold (sentv x0) in H. rewrite ES, EVa in H.
          apply in_app_or in H. destruct H as [H|H]; [exfalso; apply Hn; unfold Vt; apply in_or_app; left; exact H|].
          apply in_app_or in H. destruct H as [H|H]; [exfalso; apply Hn; unfold Vt; apply in_or_app; right; exact H|].
          destruct (N.eqb (s_id (v_snd vt)) me); [destruct H as [<-|[]]; reflexivity|destruct H]. }
        intros a b' Ha Hna Hb Hnb. rewrite (NEW a Ha Hna), (NEW b' Hb Hnb). reflexivity.
      * left. unfold lockv. cbn [tc_set_t tc_t]. exact V5.
      * intros v' h' s' H. left. rewrite V3 in H. exact H.
      * intros v' h' s' H. left. rewrite V4 in H. exact H.
      * left. exact V4.
      * intros v' en H. left. rewrite (get_pp_ext _ _ v' V2) in H. exact H.
      * right. exists v, vt, b. split; [exact V1|exact V9].
      * intros v' vt' b' H. rewrite V1 in H. apply in_app_or in H. destruct H as [H|[H|[]]]; [left; exact H|]. inversion H; subst v' vt' b'.
        destruct Horig as [[Hm _]|(Hme & _)]; [right; right; exact Hm|].
        right; left. split; [exact Hme|]. unfold Vt. cbn [tc_set_t tc_out tc_t]. apply in_or_app. right. rewrite EVa. apply in_or_app. right.
        rewrite Hme, N.eqb_refl. left; reflexivity.
Qed.

Lemma handle_vc_own x vt b wm' sh' : TInv c x -> SInv c x -> v_height vt = t_h (tc_t x) -> s_id (v_snd vt) <> me ->
  step_sum (TMsg (MVC vt b) wm' sh') x (handle_vc c wm shut x vt b).
Proof.
  intros TI SI Hh Hne. unfold handle_vc.
  destruct (N.eqb _ me); cbn [negb]; [|apply step_sum_refl].
  destruct (N.ltb _ _); [apply step_sum_refl|].
  destruct (vote_valid _ _ _ _) eqn:Ev; cbn [negb]; [|apply step_sum_refl].
  pose proof (vote_valid_sound _ _ _ _ Ev) as VS.
  assert (A : vc_good c (tc_t x) (v_view vt) vt b -> step_sum (TMsg (MVC vt b) wm' sh') x (check_elected c wm shut
      (tc_set_t (store_vc (v_view vt) vt b (tc_t x))
         (if has_vc (tc_t x) (v_view vt) (s_id (v_snd vt)) then x
          else tc_emit (OStore T_VIEW_CHANGE (t_h (tc_t x)) (v_view vt) 0 (s_id (v_snd vt))) x)) (v_view vt))).
  { intro G. set (x0 := if has_vc _ _ _ then x else _).
    assert (F0 : SInv c x0 /\ tc_t x0 = tc_t x /\ tc_v x0 = tc_v x /\ E x0 = E x /\ C x0 = C x /\ D x0 = D x /\ sentv x0 = sentv x /\ incl (tc_out x) (tc_out x0) /\
       (forall to ty i hh nv vs sg pp pps b', In (OSend to (MNV ty i hh nv vs sg pp pps b')) (tc_out x0) -> In (OSend to (MNV ty i hh nv vs sg pp pps b')) (tc_out x))).
    { subst x0. unfold sentv. destruct (has_vc _ _ _).
      - split; [exact SI|]. repeat split; auto; apply incl_refl.
      - split; [apply SInv_emit; exact SI|]. repeat split; auto.
        all: rewrite ?E_emit_nonsend, ?C_emit_nonsend by reflexivity; try reflexivity.
        all: try (unfold tc_emit; cbn [tc_out]; rewrite ?sent_of_cons_nonsend by reflexivity; reflexivity).
        + cbn [tc_emit tc_out]. apply incl_tl, incl_refl.
        + intros to ty i hh nv vs sg pp pps b' [H|H]; [discriminate|exact H]. }
    destruct F0 as (I0 & A1 & A2 & A3 & A4 & A5 & A6 & A7 & A8).
    apply stored_vote_step; auto; try lia. left. split; [eauto|exact Hne]. }
  destruct b as [bb|], (v_proof vt) as [p|] eqn:Ep; try apply step_sum_refl.
  - destruct (commitsTo _ _ _) eqn:Ec; [|apply step_sum_refl]. apply A. unfold vc_good. rewrite Ep. rewrite Hh in Ec. auto.
  - apply A. unfold vc_good. rewrite Ep. auto.
Qed.

Lemma hash_at_extract t pv p ob : get_pp t pv <> None -> extract_proof c t pv = (Some (p, ob), false) ->
  r_view (pf_ppref p) = r_view (match get_pp t pv with Some e => pe_ref e | None => pf_ppref p end) /\ r_hash (pf_ppref p) = hash_at t pv.
Proof.
  unfold extract_proof, hash_at. destruct (get_pp t pv) as [e|]; [|congruence]. intros _.
  destruct (negb _); [discriminate|]. destruct (negb _); [discriminate|]. destruct (bucket _ _ _); [discriminate|].
  intro H. inversion H; subst. cbn. auto.
Qed.

Lemma move_own x h v : TInv c x -> SInv c x -> step_sum (TElect h v wm shut) x (move_to_next_leader c wm shut x h v).
Proof.
  intros TI SI. unfold move_to_next_leader.
  destruct (N.eqb_spec h (t_h (tc_t x))) as [Eh|Eh]; cbn [andb negb]; [|apply step_sum_refl].
  destruct (N.eqb_spec v (tc_v x)) as [Ev|Ev]; cbn [negb]; [|apply step_sum_refl].
  unfold init_view. destruct (N.ltb_spec (wrap64 (v + 1)) (tc_v x)) as [Hw|Hw]; [apply step_sum_refl|].
  assert (Ew : wrap64 (v + 1) = v + 1) by (apply wrap64_succ_ge; lia).
  set (v1 := wrap64 (v + 1)) in *.
  set (x1 := tc_emit (OArm _ _) (tc_set_v v1 x)).
  assert (I1 : SInv c x1) by (apply SInv_emit, SInv_set_v; [exact Hw|exact SI]).
  assert (F1 : tc_t x1 = tc_t x /\ tc_v x1 = v1 /\ E x1 = E x /\ C x1 = C x /\ D x1 = D x /\ sentv x1 = sentv x /\ incl (tc_out x) (tc_out x1) /\
       (forall to ty i hh nv vs sg pp pps b', In (OSend to (MNV ty i hh nv vs sg pp pps b')) (tc_out x1) -> In (OSend to (MNV ty i hh nv vs sg pp pps b')) (tc_out x))).
  { subst x1. unfold sentv. repeat split; auto.
    all: rewrite ?E_emit_nonsend, ?C_emit_nonsend by reflexivity; try reflexivity.
    all: try (unfold tc_emit; cbn [tc_out]; rewrite ?sent_of_cons_nonsend by reflexivity; reflexivity).
    - cbn [tc_emit tc_out tc_set_v]. apply incl_tl, incl_refl.
    - intros to ty i hh nv vs sg pp pps b' [H|H]; [discriminate|exact H]. }
  destruct F1 as (A1 & A2 & A3 & A4 & A5 & A6 & A7 & A8).
  (* a state like x with a higher view and more non-send outputs *)
  assert (VIEWONLY : forall xx, tc_t xx = tc_t x -> tc_v x <= tc_v xx -> E xx = E x -> C xx = C x -> D xx = D x -> sentv xx = sentv x -> incl (tc_out x) (tc_out xx) ->
            step_sum (TElect h v wm shut) x xx).
  { intros xx B1 B2 B3 B4 B5 B6 B7.
    assert (EV : Vt me xx = Vt me x) by (apply Vt_eq; [exact B6|rewrite B1; reflexivity]).
    constructor; rewrite ?B1; try apply incl_refl; try (split; reflexivity); auto.
    all: try (intros v' e' H; exact H).
    all: try (intros v' y H; left; rewrite ?B3, ?B4, ?B5 in H; exact H).
    all: try (intros vt' H; left; rewrite EV in H; exact H).
    all: try (apply Vt_same_one; exact EV).
    all: try (left; unfold lockv; rewrite B1; reflexivity).
    all: try (left; reflexivity). }
  set (res := match t_prepared (tc_t x) with Some pv => extract_proof c (tc_t x) pv | None => (None, false) end).
  destruct (snd res) eqn:Epanic.
  { apply VIEWONLY.
    - exact A1.
    - cbn [tc_emit tc_v]. rewrite A2. exact Hw.
    - rewrite E_emit_nonsend by reflexivity. exact A3.
    - rewrite C_emit_nonsend by reflexivity. exact A4.
    - exact A5.
    - unfold sentv, tc_emit; cbn [tc_out]. rewrite sent_of_cons_nonsend by reflexivity. exact A6.
    - cbn [tc_emit tc_out]. apply incl_tl. exact A7. }
  cbn [tc_v x1 tc_emit tc_set_v].
  set (prf := match fst res with Some (p, _) => Some p | None => None end).
  set (blk := match fst res with Some (_, ob) => ob | None => None end).
  set (vt := {| v_type := T_VIEW_CHANGE; v_inst := c_inst c; v_height := t_h (tc_t x); v_view := v1; v_proof := prf; v_snd := my_sig c |}).
  assert (LK : lock_of vt = L x /\ vc_good c (tc_t x) v1 vt blk /\ own_proof_from x vt).
  { unfold lock_of, L, lockv, vc_good. cbn [vt v_proof v_view v_height]. subst prf blk res.
    destruct (t_prepared (tc_t x)) as [pv|] eqn:Ep.
    - assert (Hpv : pv < v1).
      { destruct (si_prep _ _ SI pv Ep) as (e & b & G1 & _). destruct (si_pp _ _ SI pv e G1) as [_ L0]. lia. }
      destruct (extract_proof_spec c x pv v1 SI Ep Hpv) as (p & b & E0 & PS & Pv & Cm). rewrite E0. cbn [fst snd].
      destruct (si_prep _ _ SI pv Ep) as (e & b0 & G1 & _).
      destruct (hash_at_extract (tc_t x) pv p (Some b) ltac:(congruence) E0) as [_ Hh].
      split; [rewrite Pv, Hh; reflexivity|]. split; [split; [reflexivity|]; split; [reflexivity|];
      split; [|exact Cm]; constructor; cbn [v_type v_inst v_snd my_sig s_id s_ok v_proof]; auto|].
      + apply (si_me _ _ SI).
      + intros p' Ep'. cbn [vt v_proof] in Ep'. rewrite ?Ep, ?E0 in Ep'. cbn [fst snd] in Ep'. inversion Ep'; subst. exact PS.
      + intros p' Ep'. cbn [vt v_proof] in Ep'. rewrite ?Ep, ?E0 in Ep'. cbn [fst snd] in Ep'. inversion Ep'; subst p'. clear Ep'.
        unfold extract_proof in E0. rewrite G1 in E0. destruct (negb _); [discriminate|]. destruct (negb _); [discriminate|].
        destruct (bucket (t_p (tc_t x)) pv (r_hash (pe_ref e))) eqn:Eb; [discriminate|]. inversion E0; subst p. cbn [pf_ppref pf_ppsnd pf_pref pf_psnds r_view r_hash].
        destruct (si_pp _ _ SI pv e G1) as [[PV _ _ _ _ _ _] _]. split.
        * exists e. rewrite PV. auto.
        * intros s0 Hs0. apply In_bucket. rewrite Eb. apply (Permutation.Permutation_in _ (sort_by_perm s_id _)). exact Hs0.
    - cbn [fst snd]. split; [reflexivity|]. split; [split; [reflexivity|]; split; [reflexivity|]; split; [|exact Logic.I];
      constructor; cbn [v_type v_inst v_snd my_sig s_id s_ok v_proof]; auto|].
      + apply (si_me _ _ SI).
      + intros p' Ep'. discriminate.
      + intros p' Ep'. discriminate. }
  destruct LK as (LK & VG & OPF).
  destruct (N.eqb_spec (leaderOf (t_cm (tc_t x)) v1) me) as [El|Nl].
  - set (x2 := if has_vc _ _ _ then x1 else _).
    assert (F2 : SInv c x2 /\ tc_t x2 = tc_t x /\ tc_v x2 = v1 /\ E x2 = E x /\ C x2 = C x /\ D x2 = D x /\ sentv x2 = sentv x /\ incl (tc_out x) (tc_out x2) /\
       (forall to ty i hh nv vs sg pp pps b', In (OSend to (MNV ty i hh nv vs sg pp pps b')) (tc_out x2) -> In (OSend to (MNV ty i hh nv vs sg pp pps b')) (tc_out x))).
    { subst x2. unfold sentv in *. destruct (has_vc _ _ _).
      - split; [exact I1|]. repeat split; auto.
      - split; [apply SInv_emit; exact I1|]. repeat split; auto.
        all: rewrite ?E_emit_nonsend, ?C_emit_nonsend by reflexivity; auto.
        all: try (unfold tc_emit at 1; cbn [tc_out]; rewrite ?sent_of_cons_nonsend by reflexivity; exact A6).
        + cbn [tc_emit tc_out]. apply incl_tl. exact A7.
        + intros to ty i hh nv vs sg pp pps b' [H|H]; [discriminate|apply A8; exact H]. }
    destruct F2 as (I2 & B1 & B2 & B3 & B4 & B5 & B6 & B7 & B8).
    apply stored_vote_step; auto; try lia.
    right. cbn [vt v_snd my_sig s_id v_view]. split; [reflexivity|]. split; [lia|]. split; [lia|]. split; [exact LK|exact OPF].
  - (* the vote goes to the leader of the next view *)
    set (x' := tc_emit (OSend [leaderOf (t_cm (tc_t x)) v1] (MVC vt blk)) x1).
    assert (EV : forall vt', In vt' (Vt me x') -> In vt' (Vt me x) \/ vt' = vt).
    { intros vt' H. unfold Vt in *. subst x'. cbn [tc_emit tc_out tc_t] in H. rewrite sent_of_send in H. cbn [flat_map voted_of app] in H.
      destruct H as [<-|H]; [right; reflexivity|left]. fold (sentv x1) in H. rewrite A6, A1 in H. exact H. }
    constructor; subst x'; cbn [tc_emit tc_t tc_v]; rewrite ?A1, ?A2; try apply incl_refl; try (split; reflexivity); try lia.
    + intros v' e' H; exact H.
    + cbn [tc_out]. apply incl_tl. exact A7.
    + intros v' y H. left. rewrite E_emit_send in H. cbn [endorsed_of app] in H. rewrite A3 in H. exact H.
    + intros v' y H. left. rewrite C_emit_send in H. cbn [committed_of app] in H. rewrite A4 in H. exact H.
    + intros v' y H. left. unfold D in *. cbn [tc_emit tc_out flat_map decided_of app] in H. exact H.
    + intros vt' H. destruct (EV vt' H) as [H'|H']; [left; exact H'|subst vt']. right. cbn [vt v_view v_snd my_sig s_id]. unfold lockv. cbn [tc_emit tc_t]. rewrite A1.
      split; [lia|]. split; [lia|]. split; [exact LK|]. split; [reflexivity|]. split; [reflexivity|exact OPF].
    + intros a b' Ha Hna Hb Hnb. destruct (EV a Ha) as [Hx|Hx]; [contradiction|]. destruct (EV b' Hb) as [Hy|Hy]; [contradiction|]. congruence.
    + left. unfold lockv. cbn [tc_emit tc_t]. rewrite A1. reflexivity.
    + intros v' h' s' H. left. exact H.
    + intros v' h' s' H. left. exact H.
    + left. reflexivity.
    + intros v' en H. left. exact H.
    + left. reflexivity.
    + intros v' vt' b' H. left. exact H.
Qed.
End OwnStep.

Theorem tstep_sum c H x e : TInv c x -> SInv c x -> t_h (tc_t x) = H -> tev_ok c H e -> step_sum c e x (tstep c x e).
Proof.
  intros TI SI Hh Hok. destruct e as [m wm shut|h v wm shut]; cbn [tstep tev_ok] in *.
  - destruct Hok as [Hmh Hms]. destruct m as [r s b|r s|r s o|vt b|nty ninst nh nvw vs sg pp pps b]; cbn [thandle msg_height msg_sender] in *.
    + apply handle_pp_own; assumption.
    + apply handle_p_own. exact SI.
    + apply handle_c_own.
    + apply handle_vc_own; auto. congruence.
    + apply handle_nv_own; assumption.
  - apply move_own; assumption.
Qed.

(* the state a term starts in *)
Lemma tstart_own c wm shut H cm fresh lead :
  let x := tstart c wm shut H cm fresh lead in
  C x = [] /\ D x = [] /\ Vt (c_me c) x = [] /\ lockv x = None /\ t_p (tc_t x) = [] /\ t_c (tc_t x) = [] /\ t_vc (tc_t x) = [] /\ tc_v x = 0 /\
  (forall v y, In (v, y) (E x) -> v = 0) /\
  (forall v en, get_pp (tc_t x) v = Some en -> pe_snd en = my_sig c /\ r_view (pe_ref en) = v /\ In (v, r_hash (pe_ref en)) (E x)).
Proof.
  cbn zeta. unfold tstart, start_term, init_view. cbn [tc_v N.ltb N.compare tc_t new_tstate t_h t_cm].
  set (x1 := tc_emit (OArm H 0) _).
  assert (B : C x1 = [] /\ D x1 = [] /\ Vt (c_me c) x1 = [] /\ lockv x1 = None /\ t_p (tc_t x1) = [] /\ t_c (tc_t x1) = [] /\ t_vc (tc_t x1) = [] /\ tc_v x1 = 0 /\
    (forall v y, In (v, y) (E x1) -> v = 0) /\
    (forall v en, get_pp (tc_t x1) v = Some en -> pe_snd en = my_sig c /\ r_view (pe_ref en) = v /\ In (v, r_hash (pe_ref en)) (E x1))).
  { subst x1. cbn. repeat split; auto; try (intros ? ? []); try (intros; discriminate). }
  destruct (N.ltb 1 H && negb lead); [exact B|].
  destruct (negb (N.eqb _ _)); [exact B|]. destruct (negb (ctx_ok _ _ _)); [exact B|].
  cbn. do 8 (split; [reflexivity|]). split.
  - intros v y [Hx|[]]. inversion Hx. reflexivity.
  - intros v en. unfold get_pp. cbn [t_pp find fst snd]. destruct (N.eqb_spec 0 v) as [<-|]; [|discriminate]. intro Hx. inversion Hx; subst. cbn. auto.
Qed.

(* ---- own proposals are PREPREPARE-typed (so a signature of this node on a COMMIT-typed header can only come from a COMMIT) ---- *)
Definition out_typed (o : out) : Prop :=
  match o with
  | OSend _ (MPP r _ _) => r_type r = T_PREPREPARE
  | OSend _ (MNV _ _ _ _ _ _ pp _ _) => r_type pp = T_PREPREPARE
  | _ => True
  end.
Definition outs_typed (x : tc) : Prop := Forall out_typed (tc_out x).

Ltac leaf := unfold outs_typed in *; cbn [tc_out tc_emit tc_set_t tc_set_v tc_bump tc_committed send_all] in *;
             repeat (constructor; [cbn; auto|]); try assumption.
Ltac crush :=
  repeat match goal with
  | |- context [if ?b then _ else _] => destruct b
  | |- context [match ?o with Some _ => _ | None => _ end] => destruct o
  end; leaf.

Section T.
Variable c : ncfg. Variable wm : option hv. Variable shut : bool.
Lemma ot_check_committed x v h : outs_typed x -> outs_typed (check_committed c wm shut x v h).
Proof. intro I. unfold check_committed, send_all. crush. Qed.
Lemma ot_check_prepared x v h : outs_typed x -> outs_typed (check_prepared c wm shut x v h).
Proof. intro I. unfold check_prepared. destruct (match t_prepared (tc_t x) with Some pv => pv =? v | None => false end); [exact I|].
  destruct (is_preprepared _ _ _); [|exact I]. destruct (isQ_ids _ _); [|exact I]. apply ot_check_committed. unfold send_all. crush. Qed.
Lemma ot_process_pp x r s b : outs_typed x -> outs_typed (process_pp c wm shut x r s b).
Proof. intro I. unfold process_pp. destruct (negb _); [exact I|]. apply ot_check_prepared. unfold send_all. crush. Qed.
Lemma ot_on_elected x v vs : outs_typed x -> outs_typed (on_elected c wm shut x v vs).
Proof. intro I. unfold on_elected, init_view, send_all. cbn [tc_set_t tc_v]. destruct (N.ltb _ _); [exact I|]. destruct (latest_block vs) as [[b h]|]; crush. Qed.
Lemma ot_check_elected x v : outs_typed x -> outs_typed (check_elected c wm shut x v).
Proof. intro I. unfold check_elected. destruct (N.leb _ _); [exact I|]. destruct (votes_of _ _) eqn:E; [exact I|]. rewrite <- E. destruct (isQ_ids _ _); [apply ot_on_elected; exact I|exact I]. Qed.
Lemma ot_thandle x m : outs_typed x -> outs_typed (thandle c wm shut x m).
Proof.
  intro I. destruct m; cbn [thandle].
  - unfold handle_pp. destruct (negb _); [exact I|]. destruct (negb _); [exact I|]. destruct (negb _); [exact I|]. destruct (negb _); [exact I|]. apply ot_process_pp; exact I.
  - unfold handle_p. repeat (match goal with |- outs_typed (if ?b then _ else _) => destruct b; [exact I|] end). apply ot_check_prepared. crush.
  - unfold handle_c. repeat (match goal with |- outs_typed (if ?b then _ else _) => destruct b; [exact I|] end). apply ot_check_committed. crush.
  - unfold handle_vc. repeat (match goal with |- outs_typed (if ?b then _ else _) => destruct b; [exact I|] end).
    destruct b, (v_proof v); try exact I; try (destruct (commitsTo _ _ _); [|exact I]); apply ot_check_elected; crush.
  - unfold handle_nv. repeat (match goal with |- outs_typed (if ?b then _ else _) => destruct b; [exact I|] end).
    assert (K : outs_typed (if negb (validate_pp c (tc_t x) pp pps) then x else match init_view nview (tc_set_t (set_latest nview (tc_t x)) x) with Some x1 => process_pp c wm shut x1 pp pps b | None => tc_set_t (set_latest nview (tc_t x)) x end)).
    { destruct (negb _); [exact I|]. unfold init_view. cbn [tc_set_t tc_v]. destruct (N.ltb _ _); [exact I|]. apply ot_process_pp. crush. }
    destruct (latest_vote votes); [destruct (v_proof v)|]; repeat (match goal with |- outs_typed (if ?b then _ else _) => destruct b; try exact I end); try exact K; try exact I.
Qed.
Lemma ot_move x h v : outs_typed x -> outs_typed (move_to_next_leader c wm shut x h v).
Proof.
  intro I. unfold move_to_next_leader. destruct (negb _); [exact I|]. unfold init_view. destruct (N.ltb _ _); [exact I|].
  destruct (snd _); [crush|]. destruct (N.eqb _ _); [apply ot_check_elected; crush|crush].
Qed.
Lemma ot_start x lead : outs_typed x -> outs_typed (start_term c wm shut x lead).
Proof. intro I. unfold start_term, init_view. destruct (N.ltb _ _); [exact I|]. crush. Qed.
End T.

Theorem trun_outs_typed c wm shut H cm fresh lead evs : outs_typed (trun c wm shut H cm fresh lead evs).
Proof.
  unfold trun. assert (S0 : outs_typed (tstart c wm shut H cm fresh lead)) by (unfold tstart; apply ot_start; constructor).
  revert S0. generalize (tstart c wm shut H cm fresh lead). induction evs as [|e evs IH]; intros x S0; cbn [fold_left]; [exact S0|].
  apply IH. destruct e; cbn [tstep]; [apply ot_thandle|apply ot_move]; exact S0.
Qed.

(* ---- a node only proposes (PREPREPARE, or the one inside its NEW_VIEW) in views it leads ---- *)
Definition out_lead (cm : committee) (me : N) (o : out) : Prop :=
  match o with
  | OSend _ (MPP r _ _) => leaderOf cm (r_view r) = me
  | OSend _ (MNV _ _ _ _ _ _ pp _ _) => leaderOf cm (r_view pp) = me
  | _ => True
  end.
Definition outs_lead (cm : committee) (me : N) (x : tc) : Prop := t_cm (tc_t x) = cm /\ Forall (out_lead cm me) (tc_out x).

Ltac lleaf := unfold outs_lead in *; cbn [tc_out tc_t tc_emit tc_set_t tc_set_v tc_bump tc_committed send_all store_c store_p set_prepared set_committed set_latest t_cm] in *;
  match goal with H : _ /\ _ |- _ => destruct H as [?Hc ?Hf] end; split; [try assumption|repeat (constructor; [cbn; auto|]); try assumption].
Ltac lcrush :=
  repeat match goal with
  | |- context [if ?b then _ else _] => destruct b
  | |- context [match ?o with Some _ => _ | None => _ end] => destruct o
  end; lleaf.

Section Lead.
Variable c : ncfg. Variable wm : option hv. Variable shut : bool. Variable cm : committee.
Notation me := (c_me c).
Lemma ol_store_pp x v e : outs_lead cm me x -> outs_lead cm me (tc_set_t (store_pp v e (tc_t x)) x).
Proof. intros [A B]. split; [|exact B]. cbn [tc_set_t tc_t]. unfold store_pp. destruct (get_pp _ _); exact A. Qed.
Lemma ol_store_vc x v vt b : outs_lead cm me x -> outs_lead cm me (tc_set_t (store_vc v vt b (tc_t x)) x).
Proof. intros [A B]. split; [|exact B]. cbn [tc_set_t tc_t]. destruct (store_vc_hc v vt b (tc_t x)) as [_ E0]. rewrite E0. exact A. Qed.
Lemma ol_check_committed x v h : outs_lead cm me x -> outs_lead cm me (check_committed c wm shut x v h).
Proof. intro I. unfold check_committed, send_all. lcrush. Qed.
Lemma ol_check_prepared x v h : outs_lead cm me x -> outs_lead cm me (check_prepared c wm shut x v h).
Proof. intro I. unfold check_prepared. destruct (match t_prepared (tc_t x) with Some pv => pv =? v | None => false end); [exact I|].
  destruct (is_preprepared _ _ _); [|exact I]. destruct (isQ_ids _ _); [|exact I]. apply ol_check_committed. unfold send_all. lcrush. Qed.
Lemma ol_process_pp x r s b : outs_lead cm me x -> outs_lead cm me (process_pp c wm shut x r s b).
Proof.
  intro I. unfold process_pp. destruct (negb _); [exact I|]. apply ol_check_prepared. unfold send_all.
  set (t0 := store_pp _ _ _). assert (E0 : t_cm t0 = t_cm (tc_t x)) by (subst t0; unfold store_pp; destruct (get_pp _ _); reflexivity).
  destruct I as [A B]. split; [cbn [tc_emit tc_set_t tc_t store_p t_cm]; rewrite E0; exact A|].
  cbn [tc_emit tc_set_t tc_out]. constructor; [exact Logic.I|]. destruct (has_p _ _ _ _), (has_pp _ _); cbn [tc_emit tc_out]; repeat (constructor; [exact Logic.I|]); exact B.
Qed.
Lemma ol_on_elected x v vs : leaderOf cm v = me -> outs_lead cm me x -> outs_lead cm me (on_elected c wm shut x v vs).
Proof.
  intros Hl I. unfold on_elected, init_view, send_all. cbn [tc_set_t tc_v]. destruct (N.ltb _ _); [destruct I; split; assumption|].
  destruct I as [A B].
  assert (G : forall b h x2, outs_lead cm me x2 -> outs_lead cm me
     (tc_emit (OSend (others c (t_cm (tc_t (tc_set_t (store_pp v {| pe_ref := mk_ref T_PREPREPARE c (t_h (tc_t x2)) v h; pe_snd := my_sig c; pe_blk := Some b |} (tc_t x2))
         (if has_pp (tc_t x2) v then x2 else tc_emit (OStore T_PREPREPARE (t_h (tc_t x2)) v h me) x2)))))
        (MNV T_NEW_VIEW (c_inst c) (t_h (tc_t x2)) v (map fst vs) (my_sig c) (mk_ref T_PREPREPARE c (t_h (tc_t x2)) v h) (my_sig c) (Some b)))
        (tc_set_t (store_pp v {| pe_ref := mk_ref T_PREPREPARE c (t_h (tc_t x2)) v h; pe_snd := my_sig c; pe_blk := Some b |} (tc_t x2))
         (if has_pp (tc_t x2) v then x2 else tc_emit (OStore T_PREPREPARE (t_h (tc_t x2)) v h me) x2)))).
  { intros b h x2 [A2 B2]. split.
    - cbn [tc_emit tc_set_t tc_t]. unfold store_pp. destruct (get_pp _ _); exact A2.
    - cbn [tc_emit tc_set_t tc_out]. constructor; [cbn; exact Hl|]. destruct (has_pp _ _); cbn [tc_emit tc_out]; repeat (constructor; [exact Logic.I|]); exact B2. }
  destruct (latest_block vs) as [[b h]|].
  - apply G. split; [exact A|]. cbn [tc_emit tc_set_v tc_set_t tc_out]. constructor; [exact Logic.I|exact B].
  - destruct (negb _).
    + split; [exact A|]. cbn [tc_emit tc_set_v tc_set_t tc_out]. constructor; [exact Logic.I|exact B].
    + apply G. split; [exact A|]. cbn [tc_bump tc_emit tc_set_v tc_set_t tc_out]. constructor; [exact Logic.I|exact B].
Qed.
Lemma ol_check_elected x v : leaderOf cm v = me -> outs_lead cm me x -> outs_lead cm me (check_elected c wm shut x v).
Proof. intros Hl I. unfold check_elected. destruct (N.leb _ _); [exact I|]. destruct (votes_of _ _) eqn:E0; [exact I|]. rewrite <- E0. destruct (isQ_ids _ _); [apply ol_on_elected; assumption|exact I]. Qed.
Lemma ol_thandle x m : outs_lead cm me x -> outs_lead cm me (thandle c wm shut x m).
Proof.
  intro I. destruct m; cbn [thandle].
  - unfold handle_pp. destruct (negb _); [exact I|]. destruct (negb _); [exact I|]. destruct (negb _); [exact I|]. destruct (negb _); [exact I|]. apply ol_process_pp; exact I.
  - unfold handle_p. repeat (match goal with |- outs_lead _ _ (if ?b then _ else _) => destruct b; [exact I|] end). apply ol_check_prepared. lcrush.
  - unfold handle_c. repeat (match goal with |- outs_lead _ _ (if ?b then _ else _) => destruct b; [exact I|] end). apply ol_check_committed. lcrush.
  - unfold handle_vc. destruct (N.eqb_spec (leaderOf (t_cm (tc_t x)) (v_view v)) me) as [El|]; cbn [negb]; [|exact I].
    assert (El' : leaderOf cm (v_view v) = me) by (destruct I as [A _]; rewrite <- A; exact El).
    repeat (match goal with |- outs_lead _ _ (if ?b then _ else _) => destruct b; [exact I|] end).
    assert (K : outs_lead cm me (check_elected c wm shut (tc_set_t (store_vc (v_view v) v b (tc_t x)) (if has_vc (tc_t x) (v_view v) (s_id (v_snd v)) then x else tc_emit (OStore T_VIEW_CHANGE (t_h (tc_t x)) (v_view v) 0 (s_id (v_snd v))) x)) (v_view v))).
    { apply ol_check_elected; [exact El'|]. destruct (has_vc _ _ _).
      - apply ol_store_vc. exact I.
      - destruct I as [A B]. split; [cbn [tc_set_t tc_t]; destruct (store_vc_hc (v_view v) v b (tc_t x)) as [_ E0]; rewrite E0; exact A|].
        cbn [tc_set_t tc_emit tc_out]. constructor; [exact Logic.I|exact B]. }
    destruct b, (v_proof v); try exact I; try (destruct (commitsTo _ _ _); [|exact I]); exact K.
  - unfold handle_nv. repeat (match goal with |- outs_lead _ _ (if ?b then _ else _) => destruct b; [exact I|] end).
    assert (K : outs_lead cm me (if negb (validate_pp c (tc_t x) pp pps) then x else match init_view nview (tc_set_t (set_latest nview (tc_t x)) x) with Some x1 => process_pp c wm shut x1 pp pps b | None => tc_set_t (set_latest nview (tc_t x)) x end)).
    { destruct (negb _); [exact I|]. unfold init_view. cbn [tc_set_t tc_v]. destruct (N.ltb _ _); [destruct I; split; assumption|]. apply ol_process_pp.
      destruct I as [A B]. split; [exact A|]. cbn [tc_emit tc_set_v tc_set_t tc_out]. constructor; [exact Logic.I|exact B]. }
    destruct (latest_vote votes); [destruct (v_proof v)|]; repeat (match goal with |- outs_lead _ _ (if ?b then _ else _) => destruct b; try exact I end); try exact K; try exact I.
Qed.
Lemma ol_move x h v : outs_lead cm me x -> outs_lead cm me (move_to_next_leader c wm shut x h v).
Proof.
  intro I. unfold move_to_next_leader. destruct (negb _); [exact I|]. unfold init_view. destruct (N.ltb _ _); [exact I|].
  destruct I as [A B].
  destruct (snd _); [split; [exact A|cbn [tc_emit tc_set_v tc_out]; repeat (constructor; [exact Logic.I|]); exact B]|].
  cbn [tc_v tc_emit tc_set_v]. destruct (N.eqb_spec (leaderOf (t_cm (tc_t x)) (wrap64 (v + 1))) me) as [El|].
  - apply ol_check_elected; [rewrite <- A; exact El|]. split.
    + cbn [tc_set_t tc_t]. match goal with |- t_cm (store_vc ?a ?b0 ?c0 ?d) = _ => destruct (store_vc_hc a b0 c0 d) as [_ E0]; rewrite E0 end. exact A.
    + cbn [tc_set_t tc_out]. destruct (has_vc _ _ _); cbn [tc_emit tc_set_v tc_out]; repeat (constructor; [exact Logic.I|]); exact B.
  - split; [exact A|]. cbn [tc_emit tc_set_v tc_out]. repeat (constructor; [exact Logic.I|]). exact B.
Qed.
Lemma ol_start wm0 shut0 H fresh lead : outs_lead cm me (tstart c wm0 shut0 H cm fresh lead).
Proof.
  unfold tstart, start_term, init_view. cbn [tc_v N.ltb N.compare tc_t new_tstate t_h t_cm].
  destruct (N.ltb 1 H && negb lead); [split; [reflexivity|repeat constructor]|].
  destruct (N.eqb_spec (leaderOf cm 0) me) as [El|]; cbn [negb]; [|split; [reflexivity|repeat constructor]].
  destruct (negb _); [split; [reflexivity|repeat constructor]|].
  split; [reflexivity|]. cbn [tc_emit tc_set_t tc_bump tc_set_v tc_out]. constructor; [cbn; exact El|]. repeat constructor.
Qed.
End Lead.

Theorem trun_outs_lead c wm shut H cm fresh lead evs : outs_lead cm (c_me c) (trun c wm shut H cm fresh lead evs).
Proof.
  unfold trun. pose proof (ol_start c cm wm shut H fresh lead) as S0.
  revert S0. generalize (tstart c wm shut H cm fresh lead). induction evs as [|e evs IH]; intros x S0; cbn [fold_left]; [exact S0|].
  apply IH. destruct e; cbn [tstep]; [apply ol_thandle|apply ol_move]; exact S0.
Qed.

(* one endorsement per view: a PREPARE and an own proposal cannot meet in one view *)
Lemma E_cases x v y : In (v, y) (E x) ->
  (exists to m, In (OSend to m) (tc_out x) /\ In (v, y) (prop_of m)) \/
  (exists to r s, In (OSend to (MP r s)) (tc_out x) /\ r_view r = v /\ r_hash r = y).
Proof.
  unfold E. intro H1. apply in_flat_map in H1. destruct H1 as (m1 & M1 & K1).
  unfold sent_of in M1. apply in_flat_map in M1. destruct M1 as (o1 & O1 & P1).
  destruct o1 as [to1 mm1| | | | | |]; cbn in P1; try contradiction. destruct P1 as [<-|[]].
  destruct mm1 as [r1 s1 b1|r1 s1|r1 s1 o1|vt1 b1|? ? ? ? ? ? pp1 ? ?]; cbn [endorsed_of] in K1; try contradiction.
  - left. exists to1, (MPP r1 s1 b1). split; [exact O1|exact K1].
  - right. destruct K1 as [K1|[]]. inversion K1. exists to1, r1, s1. auto.
  - left. eexists to1, _. split; [exact O1|exact K1].
Qed.

Lemma E_unique c x v y y' : TInv c x -> outs_lead (t_cm (tc_t x)) (c_me c) x -> In (v, y) (E x) -> In (v, y') (E x) -> y = y'.
Proof.
  intros TI [_ OL] H1 H2. rewrite Forall_forall in OL.
  assert (PROPS : forall to m z, In (OSend to m) (tc_out x) -> In (v, z) (prop_of m) -> In (v, z) (props (tc_out x))).
  { intros to m z Ho Hp. unfold props. apply in_flat_map. exists m. split; [|exact Hp]. unfold sent_of. apply in_flat_map. exists (OSend to m). split; [exact Ho|left; reflexivity]. }
  assert (LEAD : forall to m z, In (OSend to m) (tc_out x) -> In (v, z) (prop_of m) -> leaderOf (t_cm (tc_t x)) v = c_me c).
  { intros to m z Ho Hp. specialize (OL _ Ho). destruct m; cbn [prop_of] in Hp; try contradiction; destruct Hp as [Hp|[]]; inversion Hp; subst; exact OL. }
  destruct (E_cases x v y H1) as [(to1 & m1 & O1 & P1)|(to1 & r1 & s1 & O1 & V1 & Y1)];
  destruct (E_cases x v y' H2) as [(to2 & m2 & O2 & P2)|(to2 & r2 & s2 & O2 & V2 & Y2)].
  - apply (proposal_once_per_view c x v); [exact TI|apply (PROPS to1 m1 y O1 P1)|apply (PROPS to2 m2 y' O2 P2)].
  - exfalso. destruct (ti_mp _ _ TI _ _ _ O2) as (_ & _ & _ & en & _ & _ & _ & Hn). apply Hn. rewrite V2. apply (LEAD to1 m1 y O1 P1).
  - exfalso. destruct (ti_mp _ _ TI _ _ _ O1) as (_ & _ & _ & en & _ & _ & _ & Hn). apply Hn. rewrite V1. apply (LEAD to2 m2 y' O2 P2).
  - subst. apply (prepare_once_per_view c x _ _ _ _ _ _ TI O1 O2). congruence.
Qed.

(* ---- the committed block and the decision record move together ---- *)
Definition dneutral (x x' : tc) : Prop := D x' = D x /\ tc_commit x' = tc_commit x.
Definition dstep (x x' : tc) : Prop :=
  dneutral x x' \/ (exists b v e, tc_commit x' = Some b /\ D x' = (v, r_hash (pe_ref e)) :: D x /\ get_pp (tc_t x') v = Some e /\ pe_blk e = Some b).
Lemma dneutral_refl x : dneutral x x. Proof. split; reflexivity. Qed.
Lemma dneutral_trans a b d : dneutral a b -> dneutral b d -> dneutral a d.
Proof. intros [A1 A2] [B1 B2]. split; congruence. Qed.
Lemma dneutral_then_dstep a b d : dneutral a b -> dstep b d -> dstep a d.
Proof.
  intros [A1 A2] [[B1 B2]|(bb & v & e & C1 & C2 & C3 & C4)]; [left; split; congruence|].
  right. exists bb, v, e. repeat split; congruence.
Qed.

Section DStep.
Variable c : ncfg. Variable wm : option hv. Variable shut : bool.
Ltac dn_tac :=
  unfold dneutral, D;
  repeat match goal with
  | |- context [if ?b then _ else _] => destruct b
  | |- context [match ?b with Some _ => _ | None => _ end] => destruct b
  | |- context [match ?b with (_, _) => _ end] => destruct b
  | |- context [match ?b with [] => _ | _ :: _ => _ end] => destruct b
  end;
  cbn [tc_commit tc_t tc_out tc_v tc_emit tc_set_t tc_set_v tc_bump send_all flat_map decided_of app]; split; reflexivity.

Lemma check_committed_dstep x v h : dstep x (check_committed c wm shut x v h).
Proof.
  unfold check_committed. destruct (t_committed (tc_t x)); [left; apply dneutral_refl|].
  destruct (is_preprepared (tc_t x) v h) as [e|] eqn:Ep; [|left; apply dneutral_refl].
  destruct (is_preprepared_some _ _ _ _ Ep) as (G1 & G2 & b & Gb).
  destruct (negb _); [left; apply dneutral_refl|]. destruct (negb _); [left; apply dneutral_refl|].
  rewrite Gb. right. exists b, v, e. unfold D. destruct (memN _ _);
    cbn [tc_committed tc_emit tc_set_t send_all tc_t tc_commit tc_out set_committed flat_map decided_of app mk_ref r_view r_hash]; rewrite G2; repeat split; auto.
Qed.
Lemma check_prepared_dstep x v h : dstep x (check_prepared c wm shut x v h).
Proof.
  unfold check_prepared.
  destruct (match t_prepared (tc_t x) with Some pv => pv =? v | None => false end); [left; apply dneutral_refl|].
  destruct (is_preprepared (tc_t x) v h); [|left; apply dneutral_refl].
  destruct (isQ_ids _ _); [|left; apply dneutral_refl].
  eapply dneutral_then_dstep; [|apply check_committed_dstep]. unfold send_all. dn_tac.
Qed.
Lemma process_pp_dstep x r s b : dstep x (process_pp c wm shut x r s b).
Proof.
  unfold process_pp. destruct (negb _); [left; apply dneutral_refl|].
  eapply dneutral_then_dstep; [|apply check_prepared_dstep]. unfold send_all. dn_tac.
Qed.
Lemma on_elected_dneutral x v vs : dneutral x (on_elected c wm shut x v vs).
Proof.
  unfold on_elected, init_view. cbn [tc_set_t tc_v]. destruct (N.ltb _ _); [split; reflexivity|].
  destruct (latest_block vs) as [[b h]|]; [|destruct (negb _)]; unfold send_all; dn_tac.
Qed.
Lemma check_elected_dneutral x v : dneutral x (check_elected c wm shut x v).
Proof.
  unfold check_elected. destruct (N.leb _ _); [apply dneutral_refl|]. destruct (votes_of _ _) eqn:E0; [apply dneutral_refl|]. rewrite <- E0.
  destruct (isQ_ids _ _); [apply on_elected_dneutral|apply dneutral_refl].
Qed.
Theorem thandle_dstep x m : dstep x (thandle c wm shut x m).
Proof.
  destruct m; cbn [thandle].
  - unfold handle_pp. repeat (match goal with |- dstep _ (if ?b then _ else _) => destruct b; [left; apply dneutral_refl|] end). apply process_pp_dstep.
  - unfold handle_p. repeat (match goal with |- dstep _ (if ?b then _ else _) => destruct b; [left; apply dneutral_refl|] end).
    eapply dneutral_then_dstep; [|apply check_prepared_dstep]. dn_tac.
  - unfold handle_c. repeat (match goal with |- dstep _ (if ?b then _ else _) => destruct b; [left; apply dneutral_refl|] end).
    eapply dneutral_then_dstep; [|apply check_committed_dstep]. dn_tac.
  - left. unfold handle_vc. repeat (match goal with |- dneutral _ (if ?b then _ else _) => destruct b; [apply dneutral_refl|] end).
    assert (A : dneutral x (check_elected c wm shut
      (tc_set_t (store_vc (v_view v) v b (tc_t x))
         (if has_vc (tc_t x) (v_view v) (s_id (v_snd v)) then x
          else tc_emit (OStore T_VIEW_CHANGE (t_h (tc_t x)) (v_view v) 0 (s_id (v_snd v))) x)) (v_view v))).
    { eapply dneutral_trans; [|apply check_elected_dneutral]. dn_tac. }
    destruct b, (v_proof v); try apply dneutral_refl; try exact A. destruct (commitsTo _ _ _); [exact A|apply dneutral_refl].
  - unfold handle_nv. repeat (match goal with |- dstep _ (if ?b then _ else _) => destruct b; [left; apply dneutral_refl|] end).
    assert (K : dstep x (if negb (validate_pp c (tc_t x) pp pps) then x else
                    match init_view nview (tc_set_t (set_latest nview (tc_t x)) x) with
                    | None => tc_set_t (set_latest nview (tc_t x)) x
                    | Some x1 => process_pp c wm shut x1 pp pps b end)).
    { destruct (negb _); [left; apply dneutral_refl|]. unfold init_view. cbn [tc_set_t tc_v].
      destruct (N.ltb _ _); [left; split; reflexivity|].
      eapply dneutral_then_dstep; [|apply process_pp_dstep]. dn_tac. }
    destruct (latest_vote votes) as [lv|].
    + destruct (v_proof lv); [|left; apply dneutral_refl].
      repeat (match goal with |- dstep _ (if ?b then _ else _) => destruct b; [left; apply dneutral_refl|] end). exact K.
    + repeat (match goal with |- dstep _ (if ?b then _ else _) => destruct b; [left; apply dneutral_refl|] end). exact K.
Qed.
Theorem move_dneutral x h v : dneutral x (move_to_next_leader c wm shut x h v).
Proof.
  unfold move_to_next_leader, init_view. destruct (negb _); [apply dneutral_refl|].
  destruct (N.ltb _ _); [apply dneutral_refl|]. destruct (snd _); [dn_tac|].
  cbn [tc_v tc_emit tc_set_v]. destruct (N.eqb _ (c_me c)); [|dn_tac].
  eapply dneutral_trans; [|apply check_elected_dneutral]. dn_tac.
Qed.
End DStep.

Lemma tstart_commit c wm shut H cm fresh lead : tc_commit (tstart c wm shut H cm fresh lead) = None.
Proof.
  unfold tstart, start_term, init_view. cbn [tc_v N.ltb N.compare tc_t new_tstate t_h t_cm].
  repeat match goal with |- context [if ?b then _ else _] => destruct b end; reflexivity.
Qed.
