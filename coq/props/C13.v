(* C13 — Heights and views only move forward; each height is committed at most once.
   Model: Term.step over every sequence of events a node can be fed (deliveries of arbitrary messages incl. garbage,
   election triggers for any (h, v), syncs to older, equal and newer heights, failing commit callbacks via the
   configuration). [n_out (nrun c evs)] is everything the node output, newest first; [commits_of] / [rounds_of] are
   the arguments of the commit / new-consensus-round callbacks. [cfg_ok]: committee totals fit 64 bits.
   Concurrency: all State writes, term logic and callbacks run on the worker goroutine, so every interleaving of
   the real runtime induces such an event sequence (the runtime engine checks that on real goroutines; C14-C16).
   "View reset to 0 exactly when the height increases" is [install] in onNewConsensusRound: the only place the height
   changes sets the view to 0 (Term.new_round). *)
From LH Require Import Prims Quorum QuorumFacts Contexts ContextsFacts Msg Term TermFacts NodeFacts.

Theorem C13_commit_heights_strictly_increase : forall c evs, cfg_ok c -> strictly_desc (map b_height (commits_of (n_out (nrun c evs)))).
Proof. exact commit_heights_strictly_increase. Qed.
Print Assumptions C13_commit_heights_strictly_increase.

Theorem C13_round_heights_strictly_increase : forall c evs, cfg_ok c -> strictly_desc (rounds_of (n_out (nrun c evs))).
Proof. exact round_heights_strictly_increase. Qed.
Print Assumptions C13_round_heights_strictly_increase.

Theorem C13_state_never_decreases : forall c evs e, cfg_ok c -> hv_le (nrun c evs) (nrun c (evs ++ [e])).
Proof. exact state_never_decreases. Qed.
Print Assumptions C13_state_never_decreases.

Theorem C13_rounds_after_a_commit_are_higher : forall c evs a b rr ss oo r, cfg_ok c ->
  n_out (nrun c evs) = a ++ OCommit b rr ss oo :: r -> Forall (fun h => (b_height b < h)%N) (rounds_of a).
Proof. exact rounds_after_commit_are_higher. Qed.
Print Assumptions C13_rounds_after_a_commit_are_higher.

Theorem C13_node_invariant_always : forall c evs, cfg_ok c -> NInv c (nrun c evs).
Proof. exact nrun_inv. Qed.
Print Assumptions C13_node_invariant_always.

Theorem C13_one_term_per_height : forall c evs t, cfg_ok c -> n_term (nrun c evs) = Some t -> t_h t = n_h (nrun c evs).
Proof. exact term_height_is_state_height. Qed.
Print Assumptions C13_one_term_per_height.

(* the State object itself: any sequence of its two production setters is lexicographically monotone *)
Theorem C13_state_setters_monotone : forall ops s, st_le s (fold_left st_step ops s).
Proof. exact st_run_monotone. Qed.
Print Assumptions C13_state_setters_monotone.

(* tie to the real runtime: the acceptor that the check evaluates on every node's recorded observation sequence
   (callbacks, SPI calls, timer arming, elections, exit) accepts every run of the two-goroutine model *)
From LH Require Import Loops Runtime RuntimeFacts.
Theorem C13_model_runs_are_accepted : forall ls s, lrun l_init ls = Some s -> rt_check (lobs l_init ls) = true.
Proof. exact model_runs_are_accepted. Qed.
Print Assumptions C13_model_runs_are_accepted.
