(* C07 — A node acts in a view above 0 only on a valid NEW_VIEW certificate.
   [nv_cert] is the certificate of the property statement. The theorem covers every view (0 included): a new
   PREPARE is caused either by a NEW_VIEW with a valid certificate for exactly that view and hash, or by a
   standalone PREPREPARE of that view's leader. The second case in a view above 0 is known finding KF-1
   (DESIGN.md §7): it is real (C07_standalone_preprepare_refuted and the replay in known_findings.jsonl) and
   cannot be repaired without editing pinned tests, so the full statement is refuted and the proved theorem is
   the partial one. The leader side (proposing in v>0 only after collecting such votes) is C09. *)
From LH Require Import Prims Quorum Msg Term TermFacts.

Theorem C07_partial_prepare_needs_newview_or_standalone_preprepare : forall c wm shut x m to r s,
  In (OSend to (MP r s)) (tc_out (thandle c wm shut x m)) -> ~ In (OSend to (MP r s)) (tc_out x) ->
  (exists nty ninst nh vs sg pp pps b, m = MNV nty ninst nh (r_view r) vs sg pp pps b /\ r_hash r = r_hash pp /\
        nv_cert c x nty ninst nh (r_view r) vs sg pp pps b)
  \/ (exists r' s' b, m = MPP r' s' b /\ r_view r' = r_view r /\ r_hash r' = r_hash r /\
        validate_pp c (tc_t x) r' s' = true /\ validProposal (c_me c) (r_height r') b (r_hash r') = true).
Proof. exact prepare_needs_newview. Qed.
Print Assumptions C07_partial_prepare_needs_newview_or_standalone_preprepare.

(* the full statement is false of the faithful model: KF-1 *)
Theorem C07_standalone_preprepare_refuted :
  exists to r s, In (OSend to (MP r s)) (tc_out (thandle kf1_cfg None false kf1_state kf1_msg)) /\ r_view r = 1%N /\ r_hash r = 99%N.
Proof. exact standalone_preprepare_adopted_in_view_1. Qed.
Print Assumptions C07_standalone_preprepare_refuted.

(* no other kind of message makes the node prepare *)
Theorem C07_other_messages_never_cause_prepare : forall c wm shut x,
  (forall r s, no_new_mp x (handle_p c wm shut x r s)) /\ (forall r s o, no_new_mp x (handle_c c wm shut x r s o)) /\
  (forall vt b, no_new_mp x (handle_vc c wm shut x vt b)) /\ (forall h v, no_new_mp x (move_to_next_leader c wm shut x h v)).
Proof. exact others_never_prepare. Qed.
Print Assumptions C07_other_messages_never_cause_prepare.
