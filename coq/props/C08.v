(* C08 — Only authentic, in-committee, role- and height-correct messages change state.
   [thandle c wm shut x m <> x] = the message influenced the term (stored, counted, sent, moved the view);
   [accept_spec] / [vote_spec] / [proof_spec] are the reference predicates, stated independently of the code. *)
From LH Require Import Prims Quorum Msg Term TermFacts.

Theorem C08_influence_only_if_acceptable : forall c wm shut x m, thandle c wm shut x m <> x -> accept_spec c x m.
Proof. exact influence_sound. Qed.
Print Assumptions C08_influence_only_if_acceptable.

(* what reaches the term at all: this instance, the node's current height, not its own message (and see C17) *)
Theorem C08_filter_guard : forall c next n m, n_hasterm n = true ->
  filter_handle c next n m <> n -> ~ (n_h n < msg_height m)%N ->
  msg_sender m <> c_me c /\ msg_height m = n_h n /\ msg_inst m = c_inst c.
Proof. exact filter_guard. Qed.
Print Assumptions C08_filter_guard.

(* a vote (and the prepared proof inside it) that passes the code's validation satisfies the reference predicate *)
Theorem C08_vote_and_proof_sound : forall c cm h vt, vote_valid c cm h vt = true -> vote_spec c cm h (v_view vt) vt.
Proof. exact vote_valid_sound. Qed.
Print Assumptions C08_vote_and_proof_sound.

(* the leader a PREPREPARE / NEW_VIEW must come from is a committee member *)
Theorem C08_leader_is_member : forall cm v, cm <> [] -> isMember cm (leaderOf cm v) = true.
Proof. exact leader_is_member. Qed.
Print Assumptions C08_leader_is_member.
