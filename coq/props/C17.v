(* C17 — Height filter and future cache deliver each message to its own height only.
   Model: Filter.v = RawMessageFilter + State height + installation of the next term's handler, with a
   handler that may commit (and start the next height) from inside a delivery. [frun me inst ops] runs any
   sequence of FReceive m / FAdvance h; [f_out] lists the deliveries (term, message), newest first.
   Arrivals are identified by their tag; [NoDup (recv_tags ops)] only says that tags are identifiers.
   Reading of "provided no message for a higher height had been received before it": before the node
   starts H (DESIGN.md §6 C17); the one-height bound of the cache is [receive_cached]'s eviction branch. *)
From LH Require Import Prims Filter FilterFacts.

(* delivered only to its own height, our instance, not our own message — for every operation sequence *)
Theorem C17_delivery_guard : forall me inst ops t m, NoDup (recv_tags ops) ->
  In (t, m) (f_out (frun me inst ops)) -> m_height m = t /\ m_inst m = inst /\ m_sender m <> me.
Proof. exact delivery_guard. Qed.
Print Assumptions C17_delivery_guard.

(* never twice *)
Theorem C17_at_most_once : forall me inst ops, NoDup (recv_tags ops) -> NoDup (out_tags (frun me inst ops)).
Proof. exact delivered_at_most_once. Qed.
Print Assumptions C17_at_most_once.

(* nothing is invented *)
Theorem C17_only_received : forall me inst ops x, NoDup (recv_tags ops) ->
  In x (out_tags (frun me inst ops)) -> In x (recv_tags ops).
Proof. exact delivered_were_received. Qed.
Print Assumptions C17_only_received.

(* starting height h (from any reachable state, any fuel >= 2 as fstep uses) delivers exactly the messages cached
   for h, in arrival order, each once, to the term of h, up to and including the first one that makes the term
   commit (the rest then belongs to a past height and is dropped); nothing else is delivered *)
Theorem C17_start_delivers_cached_in_order : forall me inst R s h f, Inv me inst R s -> (f_h s < h)%N ->
  let s' := advance (S (S f)) s h in
  f_out s' = rev (map (pair h) (until_trigger (lookup h (f_cache s)))) ++ f_out s /\ f_oof s' = f_oof s /\
  (f_h s' = h \/ f_h s' = (h + 1)%N).
Proof. exact advance_delivers. Qed.
Print Assumptions C17_start_delivers_cached_in_order.

(* the invariant used above holds in every reachable state *)
Theorem C17_invariant_reachable : forall me inst ops, NoDup (recv_tags ops) -> Inv me inst (recv_tags ops) (frun me inst ops).
Proof. exact Inv_reachable. Qed.
Print Assumptions C17_invariant_reachable.

(* a future message accepted for caching goes behind the earlier ones of its height (a higher height evicts) and
   causes no delivery *)
Theorem C17_cached_in_arrival_order : forall me inst R fuel m s, Inv me inst R s -> m_sender m <> me -> m_inst m = inst ->
  (f_h s < m_height m)%N -> (f_latest s <= m_height m)%N ->
  let s' := receive fuel me inst m s in
  lookup (m_height m) (f_cache s') = (if N.ltb (f_latest s) (m_height m) then [] else lookup (m_height m) (f_cache s)) ++ [m]
  /\ f_out s' = f_out s /\ f_h s' = f_h s /\ f_latest s' = m_height m /\ f_oof s' = f_oof s /\ f_handler s' = f_handler s /\ f_committed s' = f_committed s.
Proof. exact receive_cached. Qed.
Print Assumptions C17_cached_in_arrival_order.

(* own, past, foreign-instance messages and messages below the cached height are dropped without any effect *)
Theorem C17_dropped_without_effect : forall me inst fuel m s,
  m_sender m = me \/ (m_height m < f_h s)%N \/ m_inst m <> inst \/ ((f_h s < m_height m)%N /\ (m_height m < f_latest s)%N) ->
  receive fuel me inst m s = s.
Proof. exact receive_dropped. Qed.
Print Assumptions C17_dropped_without_effect.

(* whatever the order in which the two loops get to act - a sync accepted by the main loop, then anything handled by the
   worker, then the worker's half of the sync - a message that is handed to "the current term" is handed to the term of
   the node's current height: the installed term's height is the node's height after every event sequence *)
From LH Require Import Quorum Msg Term TermFacts NodeFacts.
Theorem C17_installed_term_is_for_the_node_height : forall c evs t, cfg_ok c -> n_term (nrun c evs) = Some t -> t_h t = n_h (nrun c evs).
Proof. exact installed_term_height. Qed.
Print Assumptions C17_installed_term_is_for_the_node_height.
