(* C20 — Wire format round trip preserves every field and every signature.
   Model: Wire.v (the membuffers builder and reader for the field kinds used) and WireLH.v (the lean-helix schemas,
   builders as the message factory / CreateConsensusRawMessage use them, readers as ToConsensusMessage and the
   handlers use them). [wf_*] say that scalars fit their width and every encoded part is below 2^32 bytes. *)
From LH Require Import Prims Wire WireFacts WireLH WireLHFacts.

(* converting to a raw message and parsing it back yields the same message: type, instance, height, view, hash,
   sender, share, nested proofs and votes — for all five kinds *)
Theorem C20_message_roundtrip : forall m, wf_msg m -> dec_msg (enc_msg m) = Some m.
Proof. exact msg_roundtrip. Qed.
Print Assumptions C20_message_roundtrip.

Theorem C20_blockproof_roundtrip : forall p, wf_blockproof p -> dec_blockproof (enc_blockproof p) = p.
Proof. exact blockproof_roundtrip. Qed.
Print Assumptions C20_blockproof_roundtrip.

(* every signature that verified before still verifies over the re-read bytes: the signed header a verifier reads
   out of a message / vote / block proof is byte-identical to the standalone encoding the signer signed *)
Theorem C20_signed_header_bytes_preserved : forall r s, wf_ref r -> wf_sig s -> get_dyn (enc_ppcontent r s) PP_SCH 0 = enc_ref r.
Proof. exact nested_header_is_signed_bytes. Qed.
Print Assumptions C20_signed_header_bytes_preserved.
Theorem C20_signed_vote_bytes_preserved : forall v, wf_vote v -> get_dyn (enc_vote v) VOTE_SCH 0 = enc_vchdr v.
Proof. exact nested_vote_header_is_signed_bytes. Qed.
Print Assumptions C20_signed_vote_bytes_preserved.
Theorem C20_blockproof_ref_bytes_preserved : forall p, wf_blockproof p -> get_dyn (enc_blockproof p) BP_SCH 0 = enc_ref (bp_ref p).
Proof. exact blockproof_ref_is_signed_bytes. Qed.
Print Assumptions C20_blockproof_ref_bytes_preserved.

(* the generic layer: on the builder's bytes the reader's offset table is the builder's, every scalar, dynamic
   field and message array is read back exactly — for every schema and all values *)
Theorem C20_generic_offsets : forall vs, vs <> [] -> Forall wf_val vs -> offsets (encode vs) (map ty_of vs) = Some (boffs [] vs).
Proof. exact offsets_encode. Qed.
Print Assumptions C20_generic_offsets.
Theorem C20_generic_dynamic_field : forall vs i v, Forall wf_val vs -> nth_error vs i = Some v -> is_dyn v = true ->
  get_dyn (encode vs) (map ty_of vs) i = dyn_content v.
Proof. exact get_dyn_encode. Qed.
Print Assumptions C20_generic_dynamic_field.
Theorem C20_generic_message_array : forall vs i l, Forall wf_val vs -> nth_error vs i = Some (VMsgArr l) ->
  Forall (fun e => (blen e < 2 ^ 32)%N) l -> get_arr (encode vs) (map ty_of vs) i = l.
Proof. exact get_arr_encode. Qed.
Print Assumptions C20_generic_message_array.

(* regression (finding F11): the reader accepts encodings the builder never produces, so decode-then-re-encode is
   not the identity on received bytes — which is why votes are embedded byte for byte and PREPREPARE / PREPARE /
   COMMIT headers must be canonical *)
Theorem C20_reencoding_is_not_identity_refuted :
  dec_ref noncanonical_ref = {| wr_inst := 7; wr_type := 2; wr_height := 1; wr_view := 0; wr_hash := [1; 2; 3]%N |}
  /\ enc_ref (dec_ref noncanonical_ref) <> noncanonical_ref.
Proof. exact reencode_is_not_identity. Qed.
Print Assumptions C20_reencoding_is_not_identity_refuted.
