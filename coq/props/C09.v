(* C09 — View change carries the lock: the highest prepared block is re-proposed.
   [SInv] is the storage invariant of a term; it holds after startTerm followed by any sequence of deliveries and
   election triggers (C09_storage_invariant_always), i.e. in every reachable node state, whatever honest or
   Byzantine members sent. *)
From LH Require Import Prims Quorum QuorumFacts Msg Term TermFacts.

Theorem C09_storage_invariant_always : forall c wm shut H cm fresh lead evs, (total cm < W64)%N ->
  isMember cm (c_me c) = true -> Forall (tev_ok c H) evs -> SInv c (trun c wm shut H cm fresh lead evs).
Proof. exact trun_sinv. Qed.
Print Assumptions C09_storage_invariant_always.

(* a prepared node's VIEW_CHANGE contains a valid prepared proof for its prepared view and the matching block;
   an unprepared node's contains neither *)
Theorem C09_vote_carries_lock : forall c wm shut x h v to vt blk, SInv c x ->
  In (OSend to (MVC vt blk)) (tc_out (move_to_next_leader c wm shut x h v)) -> ~ In (OSend to (MVC vt blk)) (tc_out x) ->
  v_view vt = (tc_v x + 1)%N /\ v_height vt = t_h (tc_t x) /\ v_type vt = T_VIEW_CHANGE /\ v_inst vt = c_inst c /\
  v_snd vt = my_sig c /\ to = [leaderOf (t_cm (tc_t x)) (v_view vt)] /\
  match t_prepared (tc_t x) with
  | Some pv => exists p b, v_proof vt = Some p /\ proof_spec c (t_cm (tc_t x)) (t_h (tc_t x)) (v_view vt) p /\
                           r_view (pf_ppref p) = pv /\ blk = Some b /\ commitsTo (t_h (tc_t x)) blk (r_hash (pf_ppref p)) = true
  | None => v_proof vt = None /\ blk = None
  end.
Proof. exact vote_carries_lock. Qed.
Print Assumptions C09_vote_carries_lock.

(* the proof extractor neither fails nor panics in a reachable prepared state, for any later view *)
Theorem C09_extractor_total : forall c x pv target, SInv c x -> t_prepared (tc_t x) = Some pv -> (pv < target)%N ->
  exists p b, extract_proof c (tc_t x) pv = (Some (p, Some b), false) /\
              proof_spec c (t_cm (tc_t x)) (t_h (tc_t x)) target p /\ r_view (pf_ppref p) = pv /\
              commitsTo (t_h (tc_t x)) (Some b) (r_hash (pf_ppref p)) = true.
Proof. exact extract_proof_spec. Qed.
Print Assumptions C09_extractor_total.

(* the NEW_VIEW of an elected node embeds exactly the votes it stored (= counted) for that view, which pass the
   quorum test, and proposes the block of a stored vote with the highest-view proof; a fresh proposal is requested
   only if no stored vote carries a proof *)
Theorem C09_newview_reproposes_highest_lock : forall c wm shut x v to ty i h nv vs s pp pps b, SInv c x ->
  In (OSend to (MNV ty i h nv vs s pp pps b)) (tc_out (check_elected c wm shut x v)) ->
  ~ In (OSend to (MNV ty i h nv vs s pp pps b)) (tc_out x) ->
  nv = v /\ vs = map fst (votes_of (tc_t x) v) /\ ty = T_NEW_VIEW /\ i = c_inst c /\ h = t_h (tc_t x) /\ s = my_sig c /\ pps = my_sig c /\
  isQ_ids (t_cm (tc_t x)) (map (fun e => s_id (v_snd (fst e))) (votes_of (tc_t x) v)) = true /\
  r_type pp = T_PREPREPARE /\ r_view pp = v /\ r_height pp = t_h (tc_t x) /\
  ((exists vt p bb, In (vt, Some bb) (votes_of (tc_t x) v) /\ v_proof vt = Some p /\
        (forall vt' q, In vt' (map fst (votes_of (tc_t x) v)) -> v_proof vt' = Some q -> (r_view (pf_ppref q) <= r_view (pf_ppref p))%N) /\
        r_hash pp = r_hash (pf_ppref p) /\ b = Some bb /\ commitsTo (t_h (tc_t x)) b (r_hash pp) = true)
   \/ ((forall vt', In vt' (map fst (votes_of (tc_t x) v)) -> v_proof vt' = None) /\
       b = Some {| b_height := t_h (tc_t x); b_id := fresh_id (c_me c) (tc_fresh x); b_bad := [] |} /\ r_hash pp = fresh_id (c_me c) (tc_fresh x))).
Proof. exact newview_embeds_counted_votes. Qed.
Print Assumptions C09_newview_reproposes_highest_lock.

(* every stored (= counted) vote is a valid vote of a committee member for exactly this height and view, carrying
   its block iff it carries a proof — whoever sent it (this is also the leader half of C07) *)
Theorem C09_counted_votes_are_valid : forall c x v vt b, SInv c x -> In (v, (vt, b)) (t_vc (tc_t x)) -> vc_good c (tc_t x) v vt b.
Proof. exact counted_votes_valid. Qed.
Print Assumptions C09_counted_votes_are_valid.
