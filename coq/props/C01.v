(* C01 — Agreement: no two correct nodes commit different blocks at one height.
   Model: World.v. The correct members of the committee of one height each run the executable term model (Term.v:
   startTerm, then any deliveries and election triggers); the network and the Byzantine members are one adversary that
   may deliver ANY message to any correct member at any time, any number of times or never, constrained only by
   unforgeability: a signature flag "verifies under correct member j" is only set on content j really signed
   ([auth_msg]). Committees are arbitrary (any size, weights and leader order with total weight below 2^64), the
   Byzantine members hold at most f = floor((W-1)/3) of the weight.
   The full statement is false of the code: a correct node adopts a standalone PREPREPARE in a view above 0 without a
   NEW_VIEW certificate (known finding KF-1, C07), and that forks (C01_full_statement_refuted). The theorem proved is
   the partial one, under the hypothesis that no such message is delivered. *)
From LH Require Import Prims Quorum QuorumFacts Contexts Msg Term TermFacts AbsSafety Own World.
Open Scope N_scope.

Theorem C01_agreement_partial :
  forall (H : N) (cm : committee), total cm < W64 ->
  forall (honest : N -> bool), (Z.of_N (wsum (fun i => negb (honest i)) cm) <= specF cm)%Z ->
  forall (cfg : N -> ncfg), (forall i, c_me (cfg i) = i) ->
  forall (st_wm : N -> option hv) (st_shut : N -> bool) (st_fresh : N -> N) (st_lead : N -> bool)
         (run : list (N * tev)) (i j : N) (b1 b2 : block),
  wrun H cm honest cfg st_wm st_shut st_fresh st_lead run ->
  no_standalone_preprepare_above_view0 run ->
  good cm honest i -> good cm honest j ->
  tc_commit (nstate H cm cfg st_wm st_shut st_fresh st_lead i run) = Some b1 ->
  tc_commit (nstate H cm cfg st_wm st_shut st_fresh st_lead j run) = Some b2 ->
  b_id b1 = b_id b2 /\ b_height b1 = b_height b2.
Proof. exact agreement. Qed.
Print Assumptions C01_agreement_partial.

(* the abstract core: every valid history of protocol actions of the correct members decides one value *)
Theorem C01_abstract_agreement :
  forall (cm : committee), total cm < W64 ->
  forall (honest : N -> bool), (Z.of_N (wsum (fun i => negb (honest i)) cm) <= specF cm)%Z ->
  forall h, valid cm honest h -> forall i v x j v' x', In (ADecide i v x) h -> In (ADecide j v' x') h -> x = x'.
Proof. exact abs_agreement. Qed.
Print Assumptions C01_abstract_agreement.

(* every run maps to a valid abstract history that tells the same story as the nodes' states *)
Theorem C01_runs_are_valid_histories :
  forall (H : N) (cm : committee), total cm < W64 ->
  forall (honest : N -> bool) (cfg : N -> ncfg), (forall i, c_me (cfg i) = i) ->
  forall st_wm st_shut st_fresh st_lead run,
  wrun H cm honest cfg st_wm st_shut st_fresh st_lead run -> no_standalone_preprepare_above_view0 run ->
  valid cm honest (abs H cm honest cfg st_wm st_shut st_fresh st_lead run) /\ CI H cm honest cfg st_wm st_shut st_fresh st_lead run.
Proof. exact run_valid. Qed.
Print Assumptions C01_runs_are_valid_histories.

(* the full statement is refuted: a run of the model (four members of weight 1, member 1 Byzantine, every signature of
   a correct member genuine) in which members 2 and 3 commit different blocks at one height. The same script forks
   the real nodes (harness stream "worldkf1"; known finding KF-1). *)
From LH Require Import WorldKF1.
Theorem C01_full_statement_refuted :
  exists H cm honest cfg st_wm st_shut st_fresh st_lead run i j b1 b2,
    total cm < W64 /\ (Z.of_N (wsum (fun i => negb (honest i)) cm) <= specF cm)%Z /\ (forall k, c_me (cfg k) = k) /\
    wrun H cm honest cfg st_wm st_shut st_fresh st_lead run /\ good cm honest i /\ good cm honest j /\
    tc_commit (nstate H cm cfg st_wm st_shut st_fresh st_lead i run) = Some b1 /\
    tc_commit (nstate H cm cfg st_wm st_shut st_fresh st_lead j run) = Some b2 /\ b_id b1 <> b_id b2.
Proof. exact agreement_refuted. Qed.
Print Assumptions C01_full_statement_refuted.

Theorem C01_refuting_run_is_excluded_by_the_hypothesis : ~ no_standalone_preprepare_above_view0 fork_run.
Proof. exact fork_run_has_standalone_preprepare. Qed.
Print Assumptions C01_refuting_run_is_excluded_by_the_hypothesis.
