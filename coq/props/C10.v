(* C10 — A correct node never equivocates and respects phase order.
   Model: the term state machine of Term.v (one height of one node): startTerm, then any sequence of delivered
   messages and election triggers, under any state of the context registry. [tev_ok] is what the raw-message
   filter guarantees for a delivered message (its height is the term's, its sender is not this node; C17).
   [tc_out] is everything the node output during the term, newest first; views of sent messages are read off it.
   The node-level lift (a height gets at most one term: C13) is stated in props/C13.v. *)
From LH Require Import Prims Quorum QuorumFacts Msg Term TermFacts.

(* the invariant below holds after every event sequence *)
Theorem C10_invariant_always : forall c wm shut H cm fresh lead evs, (total cm < W64)%N -> Forall (tev_ok c H) evs ->
  TInv c (trun c wm shut H cm fresh lead evs) /\ t_h (tc_t (trun c wm shut H cm fresh lead evs)) = H
  /\ t_cm (tc_t (trun c wm shut H cm fresh lead evs)) = cm.
Proof. exact trun_inv. Qed.
Print Assumptions C10_invariant_always.

(* at most one PREPARE hash per view *)
Theorem C10_one_prepare_per_view : forall c x to1 r1 s1 to2 r2 s2, TInv c x ->
  In (OSend to1 (MP r1 s1)) (tc_out x) -> In (OSend to2 (MP r2 s2)) (tc_out x) -> r_view r1 = r_view r2 -> r_hash r1 = r_hash r2.
Proof. exact prepare_once_per_view. Qed.
Print Assumptions C10_one_prepare_per_view.

(* at most one COMMIT hash per view *)
Theorem C10_one_commit_per_view : forall c x to1 r1 s1 o1 to2 r2 s2 o2, TInv c x ->
  In (OSend to1 (MC r1 s1 o1)) (tc_out x) -> In (OSend to2 (MC r2 s2 o2)) (tc_out x) -> r_view r1 = r_view r2 -> r_hash r1 = r_hash r2.
Proof. exact commit_once_per_view. Qed.
Print Assumptions C10_one_commit_per_view.

(* at most one proposal (PREPREPARE as first leader, or inside NEW_VIEW) per view *)
Theorem C10_one_proposal_per_view : forall c x v h1 h2, TInv c x ->
  In (v, h1) (props (tc_out x)) -> In (v, h2) (props (tc_out x)) -> h1 = h2.
Proof. exact proposal_once_per_view. Qed.
Print Assumptions C10_one_proposal_per_view.

Theorem C10_prepare_and_commit_agree : forall c x to1 r1 s1 to2 r2 s2 o2, TInv c x ->
  In (OSend to1 (MP r1 s1)) (tc_out x) -> In (OSend to2 (MC r2 s2 o2)) (tc_out x) -> r_view r1 = r_view r2 -> r_hash r1 = r_hash r2.
Proof. exact prepare_commit_same_hash. Qed.
Print Assumptions C10_prepare_and_commit_agree.

(* PREPARE only for the proposal accepted from that view's leader, never as the leader ([mp_ok]);
   COMMIT only while holding a prepared certificate or a commit quorum for exactly that (view, hash) ([mc_ok]) *)
Theorem C10_prepare_justified : forall c x to r s, TInv c x -> In (OSend to (MP r s)) (tc_out x) -> mp_ok c (tc_t x) r.
Proof. exact prepare_justified. Qed.
Print Assumptions C10_prepare_justified.
Theorem C10_commit_justified : forall c x to r s o, TInv c x -> In (OSend to (MC r s o)) (tc_out x) -> mc_ok c (tc_t x) r.
Proof. exact commit_justified. Qed.
Print Assumptions C10_commit_justified.

(* the views of its VIEW_CHANGE messages strictly increase (list is newest first) *)
Theorem C10_view_change_views_increase : forall c x, TInv c x -> strictly_desc (mvc_views (tc_out x)).
Proof. exact vc_views_increase. Qed.
Print Assumptions C10_view_change_views_increase.

(* PREPREPARE / PREPARE / NEW_VIEW are only ever sent for the current view, which never decreases: after moving to
   view v nothing of that kind is sent for a view below v *)
Theorem C10_no_phase_message_for_an_older_view : forall c x, TInv c x ->
  weakly_desc (phase_views (tc_out x)) /\ Forall (fun v => (v <= tc_v x)%N) (phase_views (tc_out x)).
Proof. exact phase_order. Qed.
Print Assumptions C10_no_phase_message_for_an_older_view.
