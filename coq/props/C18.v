(* C18 — Leader rotation is a total round-robin function of the view. *)
From LH Require Import Prims Quorum Leader.

Theorem C18_total : forall cm v, cm <> [] -> exists id, leader cm v = Some id /\ In id (ids cm).
Proof. exact leader_total. Qed.
Print Assumptions C18_total.

Theorem C18_position : forall cm v, cm <> [] ->
  leader cm v = nth_error (ids cm) (N.to_nat (v mod N.of_nat (length cm))).
Proof. exact leader_is_position. Qed.
Print Assumptions C18_position.

Theorem C18_round_robin : forall (cm : committee) (s : N), cm <> [] ->
  forall n k, n = length cm -> (k < n)%nat ->
    exists j, (j < n)%nat /\ leaderIndex n (s + N.of_nat j) = Some k /\
      forall j', (j' < n)%nat -> leaderIndex n (s + N.of_nat j') = Some k -> j' = j.
Proof. exact round_robin_exactly_once. Qed.
Print Assumptions C18_round_robin.

(* regression: int(view) % n of the unrepaired code (finding F4) panics for some 64-bit view *)
Theorem C18_signed_index_refuted : exists n v, (4 <= n)%nat /\ (v < W64)%N /\ leaderIndex_v0 n v = None.
Proof. exact leaderIndex_v0_refuted. Qed.
Print Assumptions C18_signed_index_refuted.
