(* C06 — Quorum arithmetic. Only property theorems: statement / exact / Print Assumptions.
   cm : list (id, weight) is the committee as Membership returns it; the hypothesis
   [total cm < W64] is the property's "total fits in 64 bits". f, Q are the specification's
   integers specF = floor((W-1)/3), specQ = W - specF; [isQ]/[hasH] are the model of the Go tests. *)
From LH Require Import Prims Quorum QuorumFacts.

Theorem C06_intersection : forall A B cm, (total cm < W64)%N ->
  isQ A cm = true -> isQ B cm = true -> (specF cm < Z.of_N (subsetWeight (interN A B) cm))%Z.
Proof. exact quorum_intersection. Qed.
Print Assumptions C06_intersection.

Theorem C06_quorum_has_honest : forall A cm, (total cm < W64)%N -> isQ A cm = true -> hasH A cm = true.
Proof. exact quorum_has_honest. Qed.
Print Assumptions C06_quorum_has_honest.

Theorem C06_complement_attainable : forall S cm, (total cm < W64)%N ->
  (Z.of_N (subsetWeight S cm) <= specF cm)%Z -> isQ (complN S cm) cm = true.
Proof. exact complement_is_quorum. Qed.
Print Assumptions C06_complement_attainable.

Theorem C06_duplicate_adds_nothing : forall a A cm, In a A -> subsetWeight (a :: A) cm = subsetWeight A cm.
Proof. exact weight_duplicate. Qed.
Print Assumptions C06_duplicate_adds_nothing.

Theorem C06_outsider_adds_nothing : forall a A cm, ~ In a (ids cm) -> subsetWeight (a :: A) cm = subsetWeight A cm.
Proof. exact weight_outsider. Qed.
Print Assumptions C06_outsider_adds_nothing.

Theorem C06_zero_weight_adds_nothing : forall a A cm, (total cm < W64)%N ->
  (forall w, In (a, w) cm -> w = 0%N) -> subsetWeight (a :: A) cm = subsetWeight A cm.
Proof. exact weight_zero_member. Qed.
Print Assumptions C06_zero_weight_adds_nothing.

Theorem C06_quorum_monotone : forall A B cm, (total cm < W64)%N -> incl A B -> isQ A cm = true -> isQ B cm = true.
Proof. exact isQ_mono. Qed.
Print Assumptions C06_quorum_monotone.

Theorem C06_honest_monotone : forall A B cm, (total cm < W64)%N -> incl A B -> hasH A cm = true -> hasH B cm = true.
Proof. exact hasH_mono. Qed.
Print Assumptions C06_honest_monotone.

Theorem C06_code_f_is_spec : forall W, (0 < W)%N -> Z.of_N (calcF W) = ((Z.of_N W - 1) / 3)%Z.
Proof. exact calcF_is_spec. Qed.
Print Assumptions C06_code_f_is_spec.

(* regression: the float64 formula of the unrepaired code (finding F5) is not the specified f *)
Theorem C06_float_formula_refuted : exists W, (W < W64)%N /\ calcF_float W <> calcF W.
Proof. exact calcF_float_refuted. Qed.
Print Assumptions C06_float_formula_refuted.
