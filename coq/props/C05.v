(* C05 — Liveness after stabilisation: an honest leader's view ends in commit.   PARTIAL.
   The property has two halves. (a) View synchronisation: because the election timeout of view v is base*2^v, once
   messages are timely some view led by a correct member is joined by correct members of quorum weight. (b) The good
   view: once they are in that view, its proposal is prepared and committed by every one of them that accepted it.
   What is proved here, for every reachable state of the global model (World.v: any run under the unforgeability
   discipline, i.e. whatever the at most f-weight Byzantine members and the earlier asynchrony left in the members'
   storage), is half (b) and the steps that lead into it:
     - a correct elected leader is in the view holding its own proposal (C05_elected_leader_holds_its_proposal);
     - its NEW_VIEW (resp. its PREPREPARE in view 0) is accepted by every correct member whose view is not higher and
       that has no proposal for the view: the member moves to the view, stores the proposal and sends its PREPARE
       (C05_honest_new_view_is_accepted, C05_preprepare_accepted), which is what [joined] asks (C05_accepting_is_joining);
     - from correct members Q of quorum weight that joined view v on proposal (v, h), the schedule "deliver their
       PREPAREs among them, then their COMMITs among them" - no election trigger, no other input - is a run, and at its
       end every member of Q has committed, and has committed (v, h) unless it had committed before
       (C05_good_view_commits_partial; non-vacuity: C05_good_view_example).
     - a whole view change among them: correct members Q of quorum weight in one view u, the leader of u+1 among
       them; their timers fire, their votes reach that leader until it is elected, its NEW_VIEW reaches the others, then
       PREPAREs and COMMITs: a run at whose end all of Q have committed (C05_synchronised_view_change_commits_partial,
       with one hypothesis about the model's authenticity bookkeeping for members that are prepared; without it when
       nobody is prepared and the leader holds no early vote: C05_synchronised_view_change_commits_fresh; non-vacuity:
       C05_fresh_view_change_example);
     - timeouts in lockstep: while the leader of the next view is none of them, their votes are lost and they time out
       again, all together; the first view led by one of them commits, and by round robin that is one of the next n
       views (C05_lockstep_timeouts_commit_within_n_views for members that are not prepared; C05_lockstep_example).
   Of half (a) - that the timeouts bring them into one view TOGETHER - only the arithmetic core is proved, in an abstract timed picture that is NOT connected to World.v (which
   has no clock: election triggers are free events): with T = the CalcTimeout model, members that leave views by their
   own timeouts keep a constant distance between their entry times, so once T(v) covers that distance plus what a view
   needs, all of them are in v together for that long, in v and in every later view (theorems C05_sync_...).
   Not proved: half (a) as a statement about the protocol model, and (b) only
   for the canonical delivery order (PREPAREs before COMMITs; any order inside each phase, any duplicates), not for
   every fair order. The harness's liveness stream runs the real nodes from random adversarial prefixes through a timely
   schedule and searches for a stall. *)
From Coq Require Import Lia.
From LH Require Import Prims Quorum QuorumFacts Contexts Msg Term TermFacts AbsSafety Own Accept World Live LiveWorld LiveWorldEx WorldKF1 Timeout Sync Elect LiveElect LiveRound LiveElectEx.
Open Scope N_scope.

Theorem C05_good_view_commits_partial :
  forall (H : N) (cm : committee), total cm < W64 ->
  forall (honest : N -> bool) (cfg : N -> ncfg), (forall i, c_me (cfg i) = i) ->
  forall st_wm st_shut st_fresh st_lead (v h : N) (Q : list N),
  NoDup Q -> (forall i, In i Q -> good cm honest i) -> isQ_ids cm Q = true ->
  (forall i, In i Q -> exists j, In j Q /\ j <> i /\ j <> leaderOf cm v) ->
  forall run, wrun H cm honest cfg st_wm st_shut st_fresh st_lead run ->
  (forall i, In i Q -> joined H cm cfg st_wm st_shut st_fresh st_lead v h run i) ->
  exists ext, wrun H cm honest cfg st_wm st_shut st_fresh st_lead (run ++ ext) /\
    (forall g, In g ext -> In (fst g) Q /\ exists m, snd g = TMsg m None false) /\
    (forall j, ~ In j Q -> nstate H cm cfg st_wm st_shut st_fresh st_lead j (run ++ ext) = nstate H cm cfg st_wm st_shut st_fresh st_lead j run) /\
    forall i, In i Q ->
      t_committed (tc_t (nstate H cm cfg st_wm st_shut st_fresh st_lead i (run ++ ext))) = true /\
      (t_committed (tc_t (nstate H cm cfg st_wm st_shut st_fresh st_lead i run)) = false ->
       In (v, h) (D (nstate H cm cfg st_wm st_shut st_fresh st_lead i (run ++ ext)))).
Proof. exact good_view_commits. Qed.
Print Assumptions C05_good_view_commits_partial.

Theorem C05_accepting_is_joining :
  forall (H : N) (cm : committee), total cm < W64 ->
  forall (honest : N -> bool) (cfg : N -> ncfg), (forall i, c_me (cfg i) = i) ->
  forall st_wm st_shut st_fresh st_lead (v h : N) run i,
  wrun H cm honest cfg st_wm st_shut st_fresh st_lead run -> good cm honest i ->
  accepted (cfg i) (nstate H cm cfg st_wm st_shut st_fresh st_lead i run) v h ->
  joined H cm cfg st_wm st_shut st_fresh st_lead v h run i.
Proof. exact accepted_joined. Qed.
Print Assumptions C05_accepting_is_joining.

Theorem C05_honest_new_view_is_accepted :
  forall cs cr wm shut xa v o wm' shut' xr, SInv cs xa -> vinv (tc_t xa) -> is_mnv o = true ->
  In o (tc_out (check_elected cs wm shut xa v)) -> ~ In o (tc_out xa) ->
  leaderOf (t_cm (tc_t xa)) v = c_me cs ->
  c_inst cr = c_inst cs -> t_cm (tc_t xr) = t_cm (tc_t xa) -> t_h (tc_t xr) = t_h (tc_t xa) ->
  tc_v xr <= v -> get_pp (tc_t xr) v = None ->
  exists to ty i h vs s pp pps b, o = OSend to (MNV ty i h v vs s pp pps b) /\
    (((forall vt, In vt vs -> v_proof vt = None) -> ctx_ok wm' shut' (t_h (tc_t xr), tc_v xr) = true /\ validProposal (c_me cr) h b (r_hash pp) = true) ->
     accepted cr (handle_nv cr wm' shut' xr ty i h v vs s pp pps b) v (r_hash pp)).
Proof. exact honest_new_view_is_accepted. Qed.
Print Assumptions C05_honest_new_view_is_accepted.

Theorem C05_preprepare_accepted :
  forall c wm shut x r s blk, tc_v x = r_view r -> get_pp (tc_t x) (r_view r) = None -> r_height r = t_h (tc_t x) ->
  r_type r = T_PREPREPARE -> r_inst r = c_inst c -> s_ok s = true -> s_id s = leaderOf (t_cm (tc_t x)) (r_view r) ->
  ctx_ok wm shut (r_height r, r_view r) = true -> validProposal (c_me c) (r_height r) (Some blk) (r_hash r) = true ->
  accepted c (handle_pp c wm shut x r s (Some blk)) (r_view r) (r_hash r).
Proof. exact preprepare_accepted. Qed.
Print Assumptions C05_preprepare_accepted.

Theorem C05_elected_leader_holds_its_proposal :
  forall c wm shut x v vs o, is_mnv o = true -> In o (tc_out (on_elected c wm shut x v vs)) -> ~ In o (tc_out x) ->
  get_pp (tc_t x) v = None ->
  let x' := on_elected c wm shut x v vs in
  tc_v x' = v /\ exists b h, o = OSend (others c (t_cm (tc_t x))) (MNV T_NEW_VIEW (c_inst c) (t_h (tc_t x)) v (map fst vs) (my_sig c) (mk_ref T_PREPREPARE c (t_h (tc_t x)) v h) (my_sig c) (Some b)) /\
    is_preprepared (tc_t x') v h = Some {| pe_ref := mk_ref T_PREPREPARE c (t_h (tc_t x)) v h; pe_snd := my_sig c; pe_blk := Some b |}.
Proof. exact on_elected_leader_holds. Qed.
Print Assumptions C05_elected_leader_holds_its_proposal.

(* from the leader's proposal message to the commit: the leader of v is in v holding (v, h) and has sent m; whenever m
   makes the other members of Q accept the proposal in their present states (which the two acceptance theorems above
   establish for a correct leader's NEW_VIEW / PREPREPARE and members whose view is not higher and that hold no
   proposal for v), "m to every member, then their PREPAREs, then their COMMITs" is a run at whose end all of Q committed *)
Theorem C05_proposal_delivered_then_commits_partial :
  forall (H : N) (cm : committee), total cm < W64 ->
  forall (honest : N -> bool) (cfg : N -> ncfg), (forall i, c_me (cfg i) = i) ->
  forall st_wm st_shut st_fresh st_lead (v h : N) (Q : list N),
  NoDup Q -> (forall i, In i Q -> good cm honest i) -> isQ_ids cm Q = true ->
  (forall i, In i Q -> exists j, In j Q /\ j <> i /\ j <> leaderOf cm v) ->
  forall run m, wrun H cm honest cfg st_wm st_shut st_fresh st_lead run -> In (leaderOf cm v) Q ->
  joined H cm cfg st_wm st_shut st_fresh st_lead v h run (leaderOf cm v) ->
  msg_height m = H -> msg_sender m = leaderOf cm v -> auth_msg H cm honest cfg st_wm st_shut st_fresh st_lead run m ->
  (forall i, In i Q -> i <> leaderOf cm v ->
     accepted (cfg i) (thandle (cfg i) None false (nstate H cm cfg st_wm st_shut st_fresh st_lead i run) m) v h) ->
  exists ext, wrun H cm honest cfg st_wm st_shut st_fresh st_lead (run ++ deliveries_of_proposal cm v Q m ++ ext) /\
    (forall g, In g (deliveries_of_proposal cm v Q m ++ ext) -> In (fst g) Q /\ exists m', snd g = TMsg m' None false) /\
    forall i, In i Q ->
      t_committed (tc_t (nstate H cm cfg st_wm st_shut st_fresh st_lead i (run ++ deliveries_of_proposal cm v Q m ++ ext))) = true /\
      (t_committed (tc_t (nstate H cm cfg st_wm st_shut st_fresh st_lead i (run ++ deliveries_of_proposal cm v Q m))) = false ->
       In (v, h) (D (nstate H cm cfg st_wm st_shut st_fresh st_lead i (run ++ deliveries_of_proposal cm v Q m ++ ext)))).
Proof. exact proposal_delivered_then_commits. Qed.
Print Assumptions C05_proposal_delivered_then_commits_partial.

(* the two phases at one member, for every term state *)
Theorem C05_prepare_quorum_prepares :
  forall c wm shut x v h ds en, ds <> [] -> tc_v x <= v -> (forall q, In q ds -> p_ok x v h q) ->
  is_preprepared (tc_t x) v h = Some en -> (c_me c <> s_id (pe_snd en) -> has_p (tc_t x) v h (c_me c) = true) ->
  isQ_ids (t_cm (tc_t x)) (c_me c :: map (fun q => s_id (snd q)) ds ++ [s_id (pe_snd en)]) = true -> total (t_cm (tc_t x)) < W64 ->
  lockv (deliver_prepares c wm shut x ds) = Some v /\
  ((lockv x = Some v -> has_c (tc_t x) v h (c_me c) = true) -> has_c (tc_t (deliver_prepares c wm shut x ds)) v h (c_me c) = true).
Proof. exact prepare_quorum_prepares. Qed.
Print Assumptions C05_prepare_quorum_prepares.

Theorem C05_commit_quorum_commits :
  forall c wm shut x v h ds en, ds <> [] ->
  (forall q, In q ds -> is_for T_COMMIT v h q /\ isMember (t_cm (tc_t x)) (s_id (snd q)) = true /\ s_ok (snd q) = true) ->
  is_preprepared (tc_t x) v h = Some en -> ctx_ok wm shut (t_h (tc_t x), MAXVIEW) = true ->
  has_c (tc_t x) v h (c_me c) = true ->
  isQ_ids (t_cm (tc_t x)) (c_me c :: map (fun q => s_id (snd q)) ds) = true -> total (t_cm (tc_t x)) < W64 ->
  t_committed (tc_t (deliver_commits c wm shut x ds)) = true /\
  (t_committed (tc_t x) = false -> In (v, h) (D (deliver_commits c wm shut x ds))).
Proof. exact commit_quorum_commits. Qed.
Print Assumptions C05_commit_quorum_commits.

(* a correct member's lock always comes with its own COMMIT, sent and stored: the link between the two phases *)
Theorem C05_lock_carries_own_commit :
  forall (H : N) (cm : committee), total cm < W64 ->
  forall (honest : N -> bool) (cfg : N -> ncfg), (forall i, c_me (cfg i) = i) ->
  forall st_wm st_shut st_fresh st_lead run, wrun H cm honest cfg st_wm st_shut st_fresh st_lead run ->
  forall i, good cm honest i -> LC (cfg i) (nstate H cm cfg st_wm st_shut st_fresh st_lead i run).
Proof. exact LC_holds. Qed.
Print Assumptions C05_lock_carries_own_commit.

(* the hypotheses of the good-view theorem are met by a concrete reachable state *)
Theorem C05_good_view_example :
  exists ext, wrun 1 cm4 honest4 cfg4 nowm noshut fresh0 lead1 (join_run ++ ext) /\
    (forall g, In g ext -> exists m, snd g = TMsg m None false) /\
    forall i, In i Q3 -> t_committed (tc_t (nstate 1 cm4 cfg4 nowm noshut fresh0 lead1 i join_run)) = false /\
                        In (0, hA) (D (nstate 1 cm4 cfg4 nowm noshut fresh0 lead1 i (join_run ++ ext))).
Proof. exact good_view_example. Qed.
Print Assumptions C05_good_view_example.

(* ---- half (a), arithmetic core only (abstract timed picture over the CalcTimeout model; see Sync.v) ---- *)
Theorem C05_sync_spread_constant :
  forall base a b v w, (fst a <= v)%nat -> (fst b <= v)%nat -> (v <= w)%nat ->
  (enter base a w - enter base b w = enter base a v - enter base b v)%Z.
Proof. exact spread_constant. Qed.
Print Assumptions C05_sync_spread_constant.

Theorem C05_sync_window_opens_and_stays :
  forall base, (0 < base)%Z -> (base <= MAXD)%Z -> forall ms V D need, (forall m, In m ms -> (fst m <= V)%nat) ->
  (forall a b, In a ms -> In b ms -> enter base a V - enter base b V <= D)%Z ->
  forall v w, (V <= v)%nat -> (v <= w)%nat -> (D + need <= T base v)%Z -> window base ms w need.
Proof. exact window_stays. Qed.
Print Assumptions C05_sync_window_opens_and_stays.

Theorem C05_sync_window_eventually :
  forall base, (0 < base)%Z -> (base <= MAXD)%Z -> forall ms V D need, (forall m, In m ms -> (fst m <= V)%nat) ->
  (forall a b, In a ms -> In b ms -> enter base a V - enter base b V <= D)%Z -> (D + need <= MAXD)%Z ->
  forall w, (V <= w)%nat -> (63 <= w)%nat -> window base ms w need.
Proof. exact window_eventually. Qed.
Print Assumptions C05_sync_window_eventually.

Theorem C05_sync_catch_up :
  forall base, (0 < base)%Z -> (base <= MAXD)%Z -> forall m V, (fst m <= V)%nat -> (base * 2 ^ Z.of_nat V <= MAXD)%Z ->
  (enter base m V <= snd m + T base V - T base (fst m))%Z.
Proof. exact catch_up. Qed.
Print Assumptions C05_sync_catch_up.

Theorem C05_proposal_example :
  exists ext, wrun 1 cm4 honest4 cfg4 nowm noshut fresh0 lead1 ([] ++ deliveries_of_proposal cm4 0 Q3 ppA ++ ext) /\
    forall i, In i Q3 -> In (0, hA) (D (nstate 1 cm4 cfg4 nowm noshut fresh0 lead1 i ([] ++ deliveries_of_proposal cm4 0 Q3 ppA ++ ext))).
Proof. exact proposal_example. Qed.
Print Assumptions C05_proposal_example.

(* ---- a whole view change among correct members (LiveElect.v) ----
   what a timeout does at one member (Elect.v) *)
Theorem C05_timeout_sends_the_vote :
  forall c wm shut x, SInv c x -> TInv c x -> tc_v x + 1 < W64 -> leaderOf (t_cm (tc_t x)) (tc_v x + 1) <> c_me c ->
  let x' := move_to_next_leader c wm shut x (t_h (tc_t x)) (tc_v x) in
  tc_v x' = tc_v x + 1 /\ tc_t x' = tc_t x /\
  tc_out x' = OSend [leaderOf (t_cm (tc_t x)) (tc_v x + 1)] (MVC (own_vote c x) (own_vote_block c x)) :: OArm (t_h (tc_t x)) (tc_v x + 1) :: tc_out x /\
  ~ In (OSend [leaderOf (t_cm (tc_t x)) (tc_v x + 1)] (MVC (own_vote c x) (own_vote_block c x))) (tc_out x).
Proof. exact timeout_follower. Qed.
Print Assumptions C05_timeout_sends_the_vote.

(* what the election does at the leader: it enters the view, stores its proposal and sends the NEW_VIEW *)
Theorem C05_election_sends_the_new_view :
  forall c wm shut x v vs, tc_v x <= v -> get_pp (tc_t x) v = None ->
  (latest_block vs = None -> ctx_ok wm shut (t_h (tc_t x), v) = true) ->
  let x' := on_elected c wm shut x v vs in
  tc_v x' = v /\ t_latest (tc_t x') = v /\ t_h (tc_t x') = t_h (tc_t x) /\ t_cm (tc_t x') = t_cm (tc_t x) /\
  exists h b,
    is_preprepared (tc_t x') v h = Some {| pe_ref := mk_ref T_PREPREPARE c (t_h (tc_t x)) v h; pe_snd := my_sig c; pe_blk := Some b |} /\
    In (OSend (others c (t_cm (tc_t x))) (nv_of c x v vs h b)) (tc_out x') /\
    (latest_block vs = None -> b_bad b = [] /\ b_height b = t_h (tc_t x) /\ b_id b = h).
Proof. exact on_elected_elects. Qed.
Print Assumptions C05_election_sends_the_new_view.

(* correct members Q of quorum weight in one view u - any reachable state - with the leader of u+1 among them: their
   timeouts, their votes to that leader until it is elected, its NEW_VIEW, the PREPAREs, the COMMITs form a run at whose
   end all of Q have committed. [votes_authentic]: the proofs inside the votes they send and the votes the leader
   already holds are authentic in the sense of World.auth_msg (a fact about the model's bookkeeping, see LiveElect.v) *)
Theorem C05_synchronised_view_change_commits_partial :
  forall (H : N) (cm : committee), total cm < W64 ->
  forall (honest : N -> bool) (cfg : N -> ncfg), (forall i, c_me (cfg i) = i) ->
  forall st_wm st_shut st_fresh st_lead (Q : list N) (u : N), u + 1 < W64 ->
  NoDup Q -> (forall i, In i Q -> good cm honest i) -> isQ_ids cm Q = true ->
  In (leaderOf cm (u + 1)) Q ->
  (forall i, In i Q -> c_inst (cfg i) = c_inst (cfg (leaderOf cm (u + 1)))) ->
  (forall i, In i Q -> exists j, In j Q /\ j <> i /\ j <> leaderOf cm (u + 1)) ->
  forall run, wrun H cm honest cfg st_wm st_shut st_fresh st_lead run ->
  (forall i, In i Q -> tc_v (nstate H cm cfg st_wm st_shut st_fresh st_lead i run) = u) ->
  votes_authentic H cm honest cfg st_wm st_shut st_fresh st_lead Q u run ->
  exists ext, wrun H cm honest cfg st_wm st_shut st_fresh st_lead (run ++ ext) /\
    (forall g, In g ext -> In (fst g) Q) /\
    forall i, In i Q -> t_committed (tc_t (nstate H cm cfg st_wm st_shut st_fresh st_lead i (run ++ ext))) = true.
Proof. exact synchronised_view_change_commits. Qed.
Print Assumptions C05_synchronised_view_change_commits_partial.

(* ... without that hypothesis when nobody in Q is prepared and the leader of u+1 holds no vote for it yet *)
Theorem C05_synchronised_view_change_commits_fresh :
  forall (H : N) (cm : committee), total cm < W64 ->
  forall (honest : N -> bool) (cfg : N -> ncfg), (forall i, c_me (cfg i) = i) ->
  forall st_wm st_shut st_fresh st_lead (Q : list N) (u : N), u + 1 < W64 ->
  NoDup Q -> (forall i, In i Q -> good cm honest i) -> isQ_ids cm Q = true ->
  In (leaderOf cm (u + 1)) Q ->
  (forall i, In i Q -> c_inst (cfg i) = c_inst (cfg (leaderOf cm (u + 1)))) ->
  (forall i, In i Q -> exists j, In j Q /\ j <> i /\ j <> leaderOf cm (u + 1)) ->
  forall run, wrun H cm honest cfg st_wm st_shut st_fresh st_lead run ->
  (forall i, In i Q -> tc_v (nstate H cm cfg st_wm st_shut st_fresh st_lead i run) = u /\
                        t_prepared (tc_t (nstate H cm cfg st_wm st_shut st_fresh st_lead i run)) = None) ->
  votes_of (tc_t (nstate H cm cfg st_wm st_shut st_fresh st_lead (leaderOf cm (u + 1)) run)) (u + 1) = [] ->
  exists ext, wrun H cm honest cfg st_wm st_shut st_fresh st_lead (run ++ ext) /\
    (forall g, In g ext -> In (fst g) Q) /\
    forall i, In i Q -> t_committed (tc_t (nstate H cm cfg st_wm st_shut st_fresh st_lead i (run ++ ext))) = true.
Proof. exact synchronised_view_change_commits_fresh. Qed.
Print Assumptions C05_synchronised_view_change_commits_fresh.

(* the hypotheses are satisfiable: the three correct members of the four-member world, timed out of view 0 towards a
   Byzantine leader, are in view 1 unprepared; the theorem's continuation ends with all three committed *)
Theorem C05_fresh_view_change_example :
  exists ext, wrun 1 cm4 honest4 cfg4 nowm noshut fresh0 lead1 (stuck_run ++ ext) /\
    forall i, In i Q3 -> t_committed (tc_t (nstate 1 cm4 cfg4 nowm noshut fresh0 lead1 i stuck_run)) = false /\
                        t_committed (tc_t (nstate 1 cm4 cfg4 nowm noshut fresh0 lead1 i (stuck_run ++ ext))) = true.
Proof. exact fresh_view_change_example. Qed.
Print Assumptions C05_fresh_view_change_example.

(* ---- timeouts in lockstep reach a view that commits (LiveRound.v) ----
   [idle u run]: every member of Q is in view u, not prepared, and holds no vote for a later view *)
Theorem C05_lockstep_timeouts_commit_within_n_views :
  forall (H : N) (cm : committee), total cm < W64 ->
  forall (honest : N -> bool) (cfg : N -> ncfg), (forall i, c_me (cfg i) = i) ->
  forall st_wm st_shut st_fresh st_lead (Q : list N),
  NoDup Q -> (forall i, In i Q -> good cm honest i) -> isQ_ids cm Q = true ->
  (forall i j, In i Q -> In j Q -> c_inst (cfg i) = c_inst (cfg j)) ->
  (forall i l, In i Q -> exists j, In j Q /\ j <> i /\ j <> l) ->
  forall u run, wrun H cm honest cfg st_wm st_shut st_fresh st_lead run -> Q <> [] ->
  u + N.of_nat (length cm) + 1 < W64 ->
  idle H cm cfg st_wm st_shut st_fresh st_lead Q u run ->
  exists ext, wrun H cm honest cfg st_wm st_shut st_fresh st_lead (run ++ ext) /\
    (forall g, In g ext -> In (fst g) Q) /\
    forall i, In i Q -> t_committed (tc_t (nstate H cm cfg st_wm st_shut st_fresh st_lead i (run ++ ext))) = true.
Proof. exact lockstep_timeouts_commit_within_n_views. Qed.
Print Assumptions C05_lockstep_timeouts_commit_within_n_views.

(* from the very start of a height in the four-member world: two rounds of timeouts (the leader of view 1 is the
   Byzantine member), then view 2 commits at all three correct members *)
Theorem C05_lockstep_example :
  exists ext, wrun 1 cm4 honest4 cfg4 nowm noshut fresh0 lead1 ([] ++ ext) /\
    forall i, In i Q3 -> t_committed (tc_t (nstate 1 cm4 cfg4 nowm noshut fresh0 lead1 i ([] ++ ext))) = true.
Proof. exact lockstep_example. Qed.
Print Assumptions C05_lockstep_example.
