(* C04 — External validity: only proposals the consumer validated can be committed.
   Model: World.v (see C01). Theorem, for every run (any adversarial schedule and message construction under the
   unforgeability discipline, Byzantine weight at most f; NO hypothesis about standalone PREPREPAREs is needed: that
   path validates the block too): a block b committed by a correct member i has the height of the term, is the block
   of the proposal i stored for the committed view - a PREPREPARE-typed header with the block's hash and a valid
   signature of that view's leader - and is vouched for: some correct member's ValidateBlockProposal accepted a block
   with that hash, or a correct leader produced it itself (the first leader in startTerm, or a NEW_VIEW none of whose
   votes carries a lock: RequestNewBlockProposal). Proof: the committer stored and endorsed the proposal; every
   endorsement of a correct member either validated the block, produced it, or adopted the maximal lock of a
   NEW_VIEW, whose prepared proof contains - quorum weight exceeds f - a correct endorser of an earlier view
   (induction over the run). Blocks are identified by the hash the consumer's commitment check binds. *)
From LH Require Import Prims Quorum QuorumFacts Contexts Msg Term TermFacts AbsSafety Own World.
Open Scope N_scope.

Theorem C04_external_validity :
  forall (H : N) (cm : committee), total cm < W64 ->
  forall (honest : N -> bool), (Z.of_N (wsum (fun i => negb (honest i)) cm) <= specF cm)%Z ->
  forall (cfg : N -> ncfg), (forall i, c_me (cfg i) = i) ->
  forall st_wm st_shut st_fresh st_lead (run : list (N * tev)) (i : N) (b : block),
  wrun H cm honest cfg st_wm st_shut st_fresh st_lead run -> good cm honest i ->
  tc_commit (nstate H cm cfg st_wm st_shut st_fresh st_lead i run) = Some b ->
  b_height b = H /\
  (exists v en, get_pp (tc_t (nstate H cm cfg st_wm st_shut st_fresh st_lead i run)) v = Some en /\ pe_blk en = Some b /\ r_hash (pe_ref en) = b_id b /\
                r_type (pe_ref en) = T_PREPREPARE /\ s_ok (pe_snd en) = true /\ s_id (pe_snd en) = leaderOf cm v) /\
  vouched H cm honest cfg st_wm st_shut st_fresh st_lead run (b_id b).
Proof. exact external_validity. Qed.
Print Assumptions C04_external_validity.

(* every endorsement (own proposal or PREPARE) of a correct member is for a vouched block *)
Theorem C04_endorsed_blocks_are_vouched :
  forall (H : N) (cm : committee), total cm < W64 ->
  forall (honest : N -> bool), (Z.of_N (wsum (fun i => negb (honest i)) cm) <= specF cm)%Z ->
  forall (cfg : N -> ncfg), (forall i, c_me (cfg i) = i) ->
  forall st_wm st_shut st_fresh st_lead run,
  wrun H cm honest cfg st_wm st_shut st_fresh st_lead run -> forall j v y, good cm honest j ->
  fE H cm cfg st_wm st_shut st_fresh st_lead run j v y -> vouched H cm honest cfg st_wm st_shut st_fresh st_lead run y.
Proof. exact endorsed_vouched. Qed.
Print Assumptions C04_endorsed_blocks_are_vouched.
