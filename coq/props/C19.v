(* C19 — Election timer. Part (a): the timeout formula. Part (b) (trigger discipline) is in the
   Timer section below once Timer.v is part of the build. *)
From LH Require Import Prims Timeout.

Theorem C19_formula : forall base v, (0 < base)%Z -> (base <= MAXD)%Z -> calcTimeout base v = specTimeout base v.
Proof. exact calcTimeout_is_spec. Qed.
Print Assumptions C19_formula.

Theorem C19_positive_monotone_saturating : forall base v v', (0 < base)%Z -> (base <= MAXD)%Z -> (v <= v')%N ->
  (0 < calcTimeout base v /\ calcTimeout base v <= calcTimeout base v' /\ calcTimeout base v <= MAXD
   /\ calcTimeout base 0 = base)%Z.
Proof. exact calcTimeout_props. Qed.
Print Assumptions C19_positive_monotone_saturating.

Theorem C19_doubles_until_saturation : forall base v, (0 < base)%Z -> (specTimeout base (v + 1) < MAXD)%Z ->
  specTimeout base (v + 1) = (2 * specTimeout base v)%Z.
Proof. exact specTimeout_doubles. Qed.
Print Assumptions C19_doubles_until_saturation.

(* regression: the float/wrapping formula of the unrepaired code (finding F6) goes negative and zero *)
Theorem C19_wrapping_formula_refuted :
  exists base v, (0 < base)%Z /\ (calcTimeout_v0 base v < 0)%Z /\ exists v', calcTimeout_v0 base v' = 0%Z.
Proof. exact calcTimeout_v0_refuted. Qed.
Print Assumptions C19_wrapping_formula_refuted.
