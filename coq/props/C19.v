(* C19 — Election timer. Part (a): the timeout formula. Part (b): the trigger discipline of
   timer_based_election_trigger.go for every interleaving of RegisterOnElection / Stop with timer expiry and a slow
   or absent channel reader (Timer.v), and what the loops do with a trigger (Loops.v). Time itself ("not before the
   timeout", "eventually fires") is time.AfterFunc's contract and is observed by the runtime engine of the check. *)
From LH Require Import Prims Timeout Timer TimerFacts Contexts Loops LoopsFacts.

Theorem C19_formula : forall base v, (0 < base)%Z -> (base <= MAXD)%Z -> calcTimeout base v = specTimeout base v.
Proof. exact calcTimeout_is_spec. Qed.
Print Assumptions C19_formula.

Theorem C19_positive_monotone_saturating : forall base v v', (0 < base)%Z -> (base <= MAXD)%Z -> (v <= v')%N ->
  (0 < calcTimeout base v /\ calcTimeout base v <= calcTimeout base v' /\ calcTimeout base v <= MAXD
   /\ calcTimeout base 0 = base)%Z.
Proof. exact calcTimeout_props. Qed.
Print Assumptions C19_positive_monotone_saturating.

Theorem C19_doubles_until_saturation : forall base v, (0 < base)%Z -> (specTimeout base (v + 1) < MAXD)%Z ->
  specTimeout base (v + 1) = (2 * specTimeout base v)%Z.
Proof. exact specTimeout_doubles. Qed.
Print Assumptions C19_doubles_until_saturation.

(* regression: the float/wrapping formula of the unrepaired code (finding F6) goes negative and zero *)
Theorem C19_wrapping_formula_refuted :
  exists base v, (0 < base)%Z /\ (calcTimeout_v0 base v < 0)%Z /\ exists v', calcTimeout_v0 base v' = 0%Z.
Proof. exact calcTimeout_v0_refuted. Qed.
Print Assumptions C19_wrapping_formula_refuted.

(* ---- part (b) ---- *)
Theorem C19_at_most_one_trigger_per_arming : forall ops, NoDup (map (fun d => fst (fst d)) (tm_delivered (tm_run ops))).
Proof. exact at_most_one_trigger_per_arming. Qed.
Print Assumptions C19_at_most_one_trigger_per_arming.

Theorem C19_trigger_carries_the_armed_pair : forall ops i h v, In (i, h, v) (tm_delivered (tm_run ops)) ->
  exists x, nth_error (tm_insts (tm_run ops)) i = Some x /\ ti_h x = h /\ ti_v x = v.
Proof. exact trigger_carries_the_armed_pair. Qed.
Print Assumptions C19_trigger_carries_the_armed_pair.

Theorem C19_current_instance_carries_the_armed_pair : forall ops i, tm_cur (tm_run ops) = Some i ->
  exists x, nth_error (tm_insts (tm_run ops)) i = Some x /\ ti_h x = tm_h (tm_run ops) /\ ti_v x = tm_v (tm_run ops).
Proof. exact current_instance_carries_the_armed_pair. Qed.
Print Assumptions C19_current_instance_carries_the_armed_pair.

(* re-arming or stopping: the old instance never triggers again, except when it was cancelled in the window between
   the two selects of triggerElections (then it may still hand over its old pair once) ... *)
Theorem C19_superseded_instance : forall ops1 j x,
  nth_error (tm_insts (tm_run ops1)) j = Some x -> tm_cur (tm_run ops1) <> Some j ->
  (forall ops2 h v, In (j, h, v) (tm_delivered (tm_run (ops1 ++ ops2))) -> In (j, h, v) (tm_delivered (tm_run ops1)))
  \/ limbo x.
Proof. exact superseded_instance. Qed.
Print Assumptions C19_superseded_instance.

Theorem C19_stopped_before_fire_never_triggers : forall ops1 ops2 j x h v,
  nth_error (tm_insts (tm_run ops1)) j = Some x -> ti_phase x = TStoppedBeforeFire ->
  ~ In (j, h, v) (tm_delivered (tm_run (ops1 ++ ops2))).
Proof. exact stopped_before_fire_never_triggers. Qed.
Print Assumptions C19_stopped_before_fire_never_triggers.

(* ... and such a late trigger, like every trigger whose pair is not the worker's current (height, view), is not acted upon *)
Theorem C19_stale_trigger_not_acted_upon : forall s h v s' block, l_elect s = Some (h, v) -> (h, v) <> (l_wh s, l_wv s) ->
  lstep s (LWorkerElect block) = Some s' ->
  block = None /\ l_wh s' = l_wh s /\ l_wv s' = l_wv s /\ l_rounds s' = l_rounds s /\ l_armed s' = l_armed s /\ l_reg s' = l_reg s /\ l_worker s' = WSelect.
Proof. exact stale_trigger_changes_nothing. Qed.
Print Assumptions C19_stale_trigger_not_acted_upon.

Theorem C19_timer_armed_for_current_position : forall s h v, reach s -> l_armed s = Some (h, v) -> h = l_wh s /\ v = l_wv s.
Proof. exact timer_armed_for_current_position. Qed.
Print Assumptions C19_timer_armed_for_current_position.

(* an armed, un-superseded instance that has fired can hand over its trigger whenever a reader comes *)
Theorem C19_live_instance_can_deliver : forall s i x, nth_error (tm_insts s) i = Some x -> ti_phase x = TRunning -> ti_cancelled x = false ->
  In (i, ti_h x, ti_v x) (tm_delivered (tm_step (tm_step s (TCheck i)) (TDeliver i))).
Proof. exact live_instance_can_deliver. Qed.
Print Assumptions C19_live_instance_can_deliver.

Theorem C19_select_race_witness :
  tm_delivered (tm_run [TRegister 1 0; TFire 0; TCheck 0; TRegister 1 1; TDeliver 0]) = [(0%nat, 1, 0)].
Proof. exact timer_select_race. Qed.
Print Assumptions C19_select_race_witness.

(* the trigger as its user sees it: a registration that really arms - the handler was cleared by Stop, or the pair is
   another one - delivers its pair once time passes; in particular the pair that was armed before Stop can be armed again *)
Theorem C19_armed_then_settled_delivers : forall s h v,
  (tm_handler s && N.eqb (tm_v s) v && N.eqb (tm_h s) h = false) ->
  exists i, tm_delivered (tm_settle (tm_register h v s)) = (i, h, v) :: tm_delivered (tm_stop s).
Proof. exact armed_then_settled_delivers. Qed.
Print Assumptions C19_armed_then_settled_delivers.

Theorem C19_rearm_after_stop_delivers : forall s h v,
  exists i, tm_delivered (tm_settle (tm_register h v (tm_stop s))) = (i, h, v) :: tm_delivered (tm_stop s).
Proof. exact rearm_after_stop_delivers. Qed.
Print Assumptions C19_rearm_after_stop_delivers.

(* the election trigger under any sequence of public operations (register, stop, time passing with or without a reader
   of the channel): once the reader is back nothing is parked in triggerElections, and after Stop every callback that is
   still parked has been cancelled and gives up without any reader - nothing of the trigger outlives a shutdown *)
Theorem C19_trigger_nothing_parked_once_the_reader_is_back : forall ops, tm_public_parked (ops ++ [PResume]) = 0%nat.
Proof. exact nothing_parked_once_the_reader_is_back. Qed.
Print Assumptions C19_trigger_nothing_parked_once_the_reader_is_back.

Theorem C19_trigger_after_stop_every_parked_callback_gives_up : forall ops i x,
  nth_error (tm_insts (fold_left tm_pstep (ops ++ [PStop]) tm_init)) i = Some x ->
  (ti_phase x = TSending -> ti_cancelled x = true) /\ ti_phase x <> TRunning /\ ti_phase x <> TPending.
Proof. exact after_stop_every_parked_instance_gives_up. Qed.
Print Assumptions C19_trigger_after_stop_every_parked_callback_gives_up.
