(* C03 — Every committed (block, proof) pair passes strict ValidateBlockConsensus.
   The commit callback of the term model (Term.v, output OCommit) gets the block of the stored proposal and a proof
   made of the COMMIT reference (type COMMIT, this instance, the term's height, the committed view and hash), the
   stored COMMIT senders of that (view, hash) and the aggregated random-seed signature. Theorem: for startTerm
   followed by ANY sequence of deliveries (arbitrary field values, Byzantine and outsider senders, any signature
   flags) and election triggers, every such pair is accepted by the strict validator model (VBC.v, proved sound in
   C02) of any node with the same instance id and committee: verification flags are a function of (bytes, signer),
   so a peer computes the same ones. No hypothesis on the other nodes is needed (a fork still yields individually
   valid certificates). The seed flag of the callback is the model's [true]: shares are verified before a COMMIT is
   stored (share_ok guard of handle_c), aggregation itself is the key manager's. *)
From LH Require Import Prims Quorum QuorumFacts Contexts Msg Term TermFacts VBC Own Cert.
Open Scope N_scope.

Theorem C03_committed_pair_passes_strict_validation :
  forall c wm shut H cm fresh lead evs b r sgs so,
  total cm < W64 -> isMember cm (c_me c) = true -> Forall (tev_ok c H) evs ->
  In (b, r, sgs, so) (commits_out (tc_out (trun c wm shut H cm fresh lead evs))) ->
  vbc {| vc_inst := c_inst c; vc_committee := Some cm |} false (Some b) false
      (Some {| ap_ref := r; ap_nodes := sgs; ap_seed_nonempty := true; ap_seed_ok := so |}) false = true.
Proof. exact committed_pair_passes_strict_validation. Qed.
Print Assumptions C03_committed_pair_passes_strict_validation.

(* hence (C02) the pair is a certificate in the sense of the statement: COMMIT-typed reference of this instance and the
   block's height whose hash the block satisfies, pairwise distinct signers, all committee members with valid
   signatures, of quorum weight *)
Theorem C03_committed_pair_is_a_certificate :
  forall c wm shut H cm fresh lead evs b r sgs so,
  total cm < W64 -> isMember cm (c_me c) = true -> Forall (tev_ok c H) evs ->
  In (b, r, sgs, so) (commits_out (tc_out (trun c wm shut H cm fresh lead evs))) ->
  cert_spec {| vc_inst := c_inst c; vc_committee := Some cm |} b {| ap_ref := r; ap_nodes := sgs; ap_seed_nonempty := true; ap_seed_ok := so |} cm false.
Proof. exact committed_pair_is_a_certificate. Qed.
Print Assumptions C03_committed_pair_is_a_certificate.

(* the stored COMMITs are all verified, from members, one per member and (view, hash) - whatever was delivered *)
Theorem C03_commit_storage_invariant :
  forall c wm shut H cm fresh lead evs, total cm < W64 -> isMember cm (c_me c) = true -> Forall (tev_ok c H) evs ->
  cinv (tc_t (trun c wm shut H cm fresh lead evs)).
Proof. exact trun_cinv. Qed.
Print Assumptions C03_commit_storage_invariant.
