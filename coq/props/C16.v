(* C16 — Shutdown is complete: loops end, nothing fires afterwards, nothing leaks.
   Model: Loops.v (interleavings of the two goroutines) and Timer.v (the timer goroutines). The theorems give, for
   every reachable state: the exit steps are enabled once the Run context is cancelled, a bounded number of them ends
   both loops wherever the cancellation hits, and after the exit no worker step exists. "Within a bounded time"
   additionally needs the Go scheduler to run enabled steps; goroutine accounting is a runtime observation
   (runtime engine of the check). *)
From Coq Require Import Sorted.
From LH Require Import Prims Contexts ContextsFacts Loops LoopsFacts Timer TimerFacts.
Open Scope N_scope.

Theorem C16_shutdown_completes : forall s, reach s -> l_cancelled s = true ->
  exists ls s', lrun s ls = Some s' /\ (length ls <= 4)%nat /\ forallb own_exit_label ls = true /\ l_main s' = MExited /\ l_worker s' = WExited.
Proof. exact shutdown_completes. Qed.
Print Assumptions C16_shutdown_completes.

Theorem C16_nothing_after_shutdown : forall s, reach s -> l_worker s = WExited ->
  l_armed s = None /\ l_cancelled s = true /\
  (forall l, worker_label l = true -> lstep s l = None) /\
  (forall l s', lstep s l = Some s' -> l_worker s' = WExited /\ l_wh s' = l_wh s /\ l_wv s' = l_wv s /\ l_rounds s' = l_rounds s /\ l_armed s' = None).
Proof. exact nothing_after_shutdown. Qed.
Print Assumptions C16_nothing_after_shutdown.

(* the terminal flag of the context registry is set by the main loop's exit only, i.e. only after cancellation *)
Theorem C16_shutdown_flag_only_after_cancel : forall s, reach s -> shut (l_reg s) = true -> l_main s = MExited /\ l_cancelled s = true.
Proof. exact shutdown_flag_only_after_cancel. Qed.
Print Assumptions C16_shutdown_flag_only_after_cancel.

(* a worker inside an SPI call that waits on its context is released by the main loop's exit *)
Theorem C16_exit_releases_blocked_worker : forall s k, reach s -> l_worker s = WBusy k -> l_main s = MExited ->
  ctx_done (l_reg s) k = true /\ exists s', lstep s (LSpiReleased ENothing) = Some s' /\ l_worker s' = WSelect.
Proof. exact spi_released_by_shutdown. Qed.
Print Assumptions C16_exit_releases_blocked_worker.

(* the election timer after Stop() (Dispose of the term on worker exit): nothing is armed, and an instance that had
   not fired will never trigger *)
Theorem C16_timer_stopped : forall ops, tm_cur (tm_run (ops ++ [TStop])) = None.
Proof. exact stop_disarms. Qed.
Print Assumptions C16_timer_stopped.

Theorem C16_stopped_timer_never_triggers : forall ops1 ops2 j x h v,
  nth_error (tm_insts (tm_run ops1)) j = Some x -> ti_phase x = TStoppedBeforeFire ->
  ~ In (j, h, v) (tm_delivered (tm_run (ops1 ++ ops2))).
Proof. exact stopped_before_fire_never_triggers. Qed.
Print Assumptions C16_stopped_timer_never_triggers.

(* tie to the real runtime: the acceptor that the check evaluates on every node's recorded observation sequence
   (callbacks, SPI calls, timer arming, elections, exit) accepts every run of the two-goroutine model *)
From LH Require Import Loops Runtime RuntimeFacts.
Theorem C16_model_runs_are_accepted : forall ls s, lrun l_init ls = Some s -> rt_check (lobs l_init ls) = true.
Proof. exact model_runs_are_accepted. Qed.
Print Assumptions C16_model_runs_are_accepted.

(* the election trigger under any sequence of public operations (register, stop, time passing with or without a reader
   of the channel): once the reader is back nothing is parked in triggerElections, and after Stop every callback that is
   still parked has been cancelled and gives up without any reader - nothing of the trigger outlives a shutdown *)
Theorem C16_trigger_nothing_parked_once_the_reader_is_back : forall ops, tm_public_parked (ops ++ [PResume]) = 0%nat.
Proof. exact nothing_parked_once_the_reader_is_back. Qed.
Print Assumptions C16_trigger_nothing_parked_once_the_reader_is_back.

Theorem C16_trigger_after_stop_every_parked_callback_gives_up : forall ops i x,
  nth_error (tm_insts (fold_left tm_pstep (ops ++ [PStop]) tm_init)) i = Some x ->
  (ti_phase x = TSending -> ti_cancelled x = true) /\ ti_phase x <> TRunning /\ ti_phase x <> TPending.
Proof. exact after_stop_every_parked_instance_gives_up. Qed.
Print Assumptions C16_trigger_after_stop_every_parked_callback_gives_up.

(* the shutdown case in one statement: Stop, then time passes and no reader ever comes back (the main loop is gone) -
   no goroutine of the trigger is left in triggerElections; without the Stop one would be (the example) *)
Theorem C16_trigger_shutdown_leaves_nothing_parked : forall ops, tm_public_parked (ops ++ [PStop; PGiveUp]) = 0%nat.
Proof. exact shutdown_leaves_nothing_parked. Qed.
Print Assumptions C16_trigger_shutdown_leaves_nothing_parked.

Theorem C16_trigger_stop_is_what_releases :
  tm_public_parked [PRegister 1 0; PFire; PGiveUp] = 1%nat /\ tm_public_parked [PRegister 1 0; PFire; PStop; PGiveUp] = 0%nat.
Proof. exact parked_without_stop. Qed.
Print Assumptions C16_trigger_stop_is_what_releases.

(* the context registry after Shutdown: every later request is refused, any number of them, in any order with other
   operations - the worker on its way out gets an error each time it asks and never a live context *)
From LH Require Import Contexts ContextsFacts.
Theorem C16_registry_refuses_after_shutdown : forall ops1 ops2 k, fst (reg_for k (reg_run (ops1 ++ RShutdown :: ops2))) = false.
Proof. exact refused_after_shutdown. Qed.
Print Assumptions C16_registry_refuses_after_shutdown.
