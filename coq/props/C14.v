(* C14 — Node sync: the newest UpdateState always takes effect, stale ones never do.
   Model: Loops.v — the two goroutines (mainloop.go, workerloop.go) as an interleaving transition system: [reach s] is
   "s is reachable by some sequence of labels", i.e. by some schedule of API calls, timer triggers, main-loop steps,
   worker steps and SPI calls that block until released. What a fair scheduler adds (an enabled step is eventually
   taken) is the Go runtime's business and is exercised by the runtime engine of the check. *)
From Coq Require Import Sorted.
From LH Require Import Prims Contexts ContextsFacts Loops LoopsFacts Msg Term TermFacts.
Open Scope N_scope.

(* UpdateState never blocks while the main loop runs: in its select state the main loop accepts every sync and every
   message, and a forward to the worker it has started can always complete, whatever the worker is doing *)
Theorem C14_main_loop_never_blocks : forall s, l_main s <> MExited ->
  (l_main s = MSelect /\ (forall hb, lstep s (LApiSync hb) <> None) /\ lstep s LApiMsg <> None) \/
  (exists s', lstep s LMainFwd = Some s' /\ l_main s' = MSelect /\ l_worker s' = l_worker s).
Proof. exact main_never_blocks. Qed.
Print Assumptions C14_main_loop_never_blocks.

(* an accepted UpdateState is on its way to the worker, unless it is superseded already *)
Theorem C14_sync_accepted_or_superseded : forall s hb s1, reach s -> lstep s (LApiSync hb) = Some s1 ->
  l_main s1 = MFwdSync hb \/ (exists mx, l_maxsync s1 = Some mx /\ hb <= mx) \/ hb < l_wh s1 \/ l_cancelled s1 = true.
Proof. exact sync_accepted_or_superseded. Qed.
Print Assumptions C14_sync_accepted_or_superseded.

Theorem C14_forward_fills_slot : forall s hb, l_main s = MFwdSync hb ->
  exists s', lstep s LMainFwd = Some s' /\ l_upd s' = Some hb /\ l_maxsync s' = Some hb /\ l_main s' = MSelect.
Proof. exact sync_forward_fills_slot. Qed.
Print Assumptions C14_forward_fills_slot.

(* the one-slot hand-off always holds the newest sync ever forwarded; the filter never goes down *)
Theorem C14_slot_holds_newest : forall s hb, reach s -> l_upd s = Some hb -> l_maxsync s = Some hb.
Proof. exact slot_holds_newest. Qed.
Print Assumptions C14_slot_holds_newest.

Theorem C14_maxsync_monotone : forall s l s' mx, reach s -> lstep s l = Some s' -> l_maxsync s = Some mx ->
  exists mx', l_maxsync s' = Some mx' /\ mx <= mx'.
Proof. exact maxsync_monotone. Qed.
Print Assumptions C14_maxsync_monotone.

(* the pending sync takes effect as soon as the worker is back in its select *)
Theorem C14_pending_sync_takes_effect : forall s hb, reach s -> l_upd s = Some hb -> l_worker s = WSelect ->
  exists s', lstep s (LWorkerSync None) = Some s' /\ l_upd s' = None /\
    (hb < l_wh s' \/ (exists mx, syncbound s' = Some mx /\ hb < mx) \/ l_cancelled s' = true).
Proof. exact pending_sync_takes_effect. Qed.
Print Assumptions C14_pending_sync_takes_effect.

(* ... and a worker inside a long SPI call is released by the sync: its context is done as soon as the main loop has
   processed the UpdateState, before the forward *)
Theorem C14_sync_releases_blocked_worker : forall s k hb, reach s -> l_worker s = WBusy k ->
  (l_upd s = Some hb \/ l_main s = MFwdSync hb) -> hv_lt k (hb + 1, 0) = true ->
  ctx_done (l_reg s) k = true /\ exists s', lstep s (LSpiReleased ENothing) = Some s' /\ l_worker s' = WSelect.
Proof. exact spi_released_by_sync. Qed.
Print Assumptions C14_sync_releases_blocked_worker.

(* syncs below the current height change nothing *)
Theorem C14_stale_sync_changes_nothing : forall s hb s' block, l_upd s = Some hb -> hb < l_wh s -> lstep s (LWorkerSync block) = Some s' ->
  block = None /\ l_wh s' = l_wh s /\ l_wv s' = l_wv s /\ l_rounds s' = l_rounds s /\ l_armed s' = l_armed s /\ l_reg s' = l_reg s /\ l_worker s' = WSelect.
Proof. exact stale_sync_changes_nothing. Qed.
Print Assumptions C14_stale_sync_changes_nothing.

(* the round entered by sync above height 1 has no first leader: startTerm arms the timer and sends nothing *)
Theorem C14_sync_round_sends_no_proposal : forall c wm shut (x : tc), 1 < t_h (tc_t x) -> tc_v x = 0 ->
  tc_out (start_term c wm shut x false) = OArm (t_h (tc_t x)) 0 :: tc_out x /\ tc_t (start_term c wm shut x false) = tc_t x.
Proof. exact sync_round_sends_no_proposal. Qed.
Print Assumptions C14_sync_round_sends_no_proposal.

(* non-vacuity: the commit-entered round of a view-0 leader does propose *)
Theorem C14_commit_round_leader_proposes : forall c wm shut (x : tc), tc_v x = 0 -> leaderOf (t_cm (tc_t x)) 0 = c_me c ->
  ctx_ok wm shut (t_h (tc_t x), 0) = true ->
  exists r b, In (OSend (others c (t_cm (tc_t x))) (MPP r (my_sig c) (Some b))) (tc_out (start_term c wm shut x true)) /\ r_view r = 0 /\ r_height r = t_h (tc_t x).
Proof. exact commit_round_leader_proposes. Qed.
Print Assumptions C14_commit_round_leader_proposes.

Theorem C14_witness :
  exists s, lrun l_init [LApiSync 0; LMainFwd; LWorkerSync (Some (1, 0)); LApiSync 5; LSpiReleased ENothing; LMainFwd; LWorkerSync (Some (6, 0)); LCancel; LMainExit; LSpiReleased ENothing; LWorkerExit] = Some s
    /\ l_wh s = 6 /\ l_rounds s = [6; 1] /\ l_main s = MExited /\ l_worker s = WExited /\ l_armed s = None.
Proof. exact loops_witness. Qed.
Print Assumptions C14_witness.

(* tie to the real runtime: the acceptor that the check evaluates on every node's recorded observation sequence
   (callbacks, SPI calls, timer arming, elections, exit) accepts every run of the two-goroutine model *)
From LH Require Import Loops Runtime RuntimeFacts.
Theorem C14_model_runs_are_accepted : forall ls s, lrun l_init ls = Some s -> rt_check (lobs l_init ls) = true.
Proof. exact model_runs_are_accepted. Qed.
Print Assumptions C14_model_runs_are_accepted.
