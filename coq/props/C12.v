(* C12 — No received bytes can crash, wedge or permanently disable a node.
   Three layers. (1) Bytes: the loops and the two proof readers go through guarded parsing (fix F7); in the model
   unreadable content is the event EGarbage, which has no effect, and an unreadable proof is rejected (C02). The
   reader-level panics of membuffers on hostile size words are not modelled (DESIGN.md §8); the wire, vbc and world
   engines feed such bytes to the real entry points and check that nothing escapes and the node keeps working.
   (2) Fields: every partial operation of the term logic (leader index, prepareMessages[0]) is an explicit OPanic
   in the model and is proved unreachable for every input sequence. (3) Supervision: see the Loops model (C16). *)
From LH Require Import Prims Quorum QuorumFacts Leader Msg Term TermFacts VBC.

(* no sequence of deliveries (any field values: views and heights up to 2^64-1 and beyond, empty ids, empty proofs,
   missing blocks, any sender) and election triggers makes the term logic panic *)
Theorem C12_term_logic_never_panics : forall c wm shut H cm fresh lead evs, (total cm < W64)%N -> isMember cm (c_me c) = true ->
  Forall (tev_ok c H) evs -> ~ In OPanic (tc_out (trun c wm shut H cm fresh lead evs)).
Proof. exact trun_never_panics. Qed.
Print Assumptions C12_term_logic_never_panics.

(* a single delivery never panics, in any state whatsoever (no invariant needed) *)
Theorem C12_delivery_never_panics : forall c wm shut x m, no_new_panic x (thandle c wm shut x m).
Proof. exact thandle_never_panics. Qed.
Print Assumptions C12_delivery_never_panics.

(* the leader computation is defined for every view value (finding F4 repaired) *)
Theorem C12_leader_defined_for_every_view : forall cm v, cm <> [] -> exists id, leader cm v = Some id /\ In id (ids cm).
Proof. exact leader_total. Qed.
Print Assumptions C12_leader_defined_for_every_view.

(* unreadable content bytes change nothing (the only effect of the event is the main loop's routine context GC) *)
Theorem C12_unreadable_content_has_no_effect : forall c n, step c n EGarbage = cancel_older (n_h n, 0) n.
Proof. exact garbage_has_no_effect. Qed.
Print Assumptions C12_unreadable_content_has_no_effect.

(* unreadable proof bytes are an error for ValidateBlockConsensus *)
Theorem C12_unreadable_proof_is_an_error : forall c cc blk pe soft, vbc c cc blk pe None soft = false.
Proof. exact vbc_rejects_unreadable. Qed.
Print Assumptions C12_unreadable_proof_is_an_error.
