(* C15 — Blocking SPI calls are always released when their (height, view) is over.
   Part (a): laws of the context registry (state/view_contexts.go) for every order of For / CancelOlderThan /
   Shutdown. A context is identified by its key (one context per key for the whole run, C15_one_context_per_key). *)
From LH Require Import Prims Contexts ContextsFacts.

(* For refuses exactly when shut down or when the key is older than some earlier CancelOlderThan argument:
   a context is never handed out for a superseded (height, view), and always for a current or future one *)
Theorem C15_for_fails_iff : forall ops k,
  fst (reg_for k (reg_run ops)) = false <->
  (has_shutdown ops = true \/ exists x, In x (cancel_args ops) /\ hv_lt k x = true).
Proof. exact for_fails_iff. Qed.
Print Assumptions C15_for_fails_iff.

(* a handed-out context is done exactly when Shutdown happened or it was removed by a CancelOlderThan *)
Theorem C15_done_iff : forall ops k, In k (issued (reg_run ops)) ->
  (ctx_done (reg_run ops) k = true <-> (has_shutdown ops = true \/ ~ In k (live (reg_run ops)))).
Proof. exact ctx_done_iff. Qed.
Print Assumptions C15_done_iff.

(* CancelOlderThan k cancels exactly the live contexts older than k; contexts at or above k are untouched *)
Theorem C15_cancel_older_exact : forall k r c, In c (live r) ->
  (hv_lt c k = true -> ~ In c (live (reg_cancel_older k r)) /\ In c (cancelled (reg_cancel_older k r))) /\
  (hv_lt c k = false -> In c (live (reg_cancel_older k r)) /\ (In c (cancelled (reg_cancel_older k r)) -> In c (cancelled r))).
Proof. exact cancel_older_effect. Qed.
Print Assumptions C15_cancel_older_exact.

Theorem C15_watermark_is_max : forall ops,
  match wm (reg_run ops) with
  | None => cancel_args ops = []
  | Some w => In w (cancel_args ops) /\ forall x, In x (cancel_args ops) -> hv_lt w x = false
  end.
Proof. exact watermark_is_max. Qed.
Print Assumptions C15_watermark_is_max.

Theorem C15_one_context_per_key : forall ops, NoDup (issued (reg_run ops)).
Proof. exact one_context_per_key. Qed.
Print Assumptions C15_one_context_per_key.

Theorem C15_for_cancels_nothing : forall k r, cancelled (snd (reg_for k r)) = cancelled r.
Proof. exact for_cancels_nothing. Qed.
Print Assumptions C15_for_cancels_nothing.

(* Part (b): on the two-goroutine model (Loops.v), for every interleaving: an SPI call in flight always runs under a
   context of the worker's current height that the registry handed out, and that context is done - the call is
   released - as soon as the main loop has processed an election trigger for its (height, view) or a later one, a sync
   to a higher height, or its own exit. *)
From LH Require Import Loops LoopsFacts.
Open Scope N_scope.

Theorem C15_spi_context_is_current : forall s k, reach s -> l_worker s = WBusy k -> fst k = l_wh s /\ In k (issued (l_reg s)).
Proof. exact spi_context_is_current. Qed.
Print Assumptions C15_spi_context_is_current.

Theorem C15_released_by_election : forall s k h v, reach s -> l_worker s = WBusy k -> (l_elect s = Some (h, v) \/ l_main s = MFwdTrig h v) ->
  hv_lt k (h, v + 1) = true -> ctx_done (l_reg s) k = true /\ exists s', lstep s (LSpiReleased ENothing) = Some s' /\ l_worker s' = WSelect.
Proof. exact spi_released_by_election. Qed.
Print Assumptions C15_released_by_election.

Theorem C15_released_by_sync : forall s k hb, reach s -> l_worker s = WBusy k -> (l_upd s = Some hb \/ l_main s = MFwdSync hb) ->
  hv_lt k (hb + 1, 0) = true -> ctx_done (l_reg s) k = true /\ exists s', lstep s (LSpiReleased ENothing) = Some s' /\ l_worker s' = WSelect.
Proof. exact spi_released_by_sync. Qed.
Print Assumptions C15_released_by_sync.

Theorem C15_released_by_shutdown : forall s k, reach s -> l_worker s = WBusy k -> l_main s = MExited ->
  ctx_done (l_reg s) k = true /\ exists s', lstep s (LSpiReleased ENothing) = Some s' /\ l_worker s' = WSelect.
Proof. exact spi_released_by_shutdown. Qed.
Print Assumptions C15_released_by_shutdown.

(* ---- protocol side (Term.v): the consumer's verdict on a proposed block takes effect only in the proposal's own view
   and under a live context of the position the node is in (the repair of F15 is what makes this true of the code) ---- *)
From LH Require Import Quorum Msg Term TermFacts.
Theorem C15_preprepare_takes_effect_only_in_its_own_view_under_a_live_context :
  forall c wm shut x r s b, handle_pp c wm shut x r s b <> x ->
  tc_v x = r_view r /\ ctx_ok wm shut (r_height r, tc_v x) = true /\ validProposal (c_me c) (r_height r) b (r_hash r) = true.
Proof. exact handle_pp_effect. Qed.
Print Assumptions C15_preprepare_takes_effect_only_in_its_own_view_under_a_live_context.

Theorem C15_new_view_fresh_block_validated_under_the_context_of_the_own_position :
  forall c wm shut x nty ninst nh nvw vs sg pp pps b,
  latest_vote vs = None -> handle_nv c wm shut x nty ninst nh nvw vs sg pp pps b <> x ->
  ctx_ok wm shut (t_h (tc_t x), tc_v x) = true /\ validProposal (c_me c) (r_height pp) b (r_hash pp) = true.
Proof. exact handle_nv_fresh_effect. Qed.
Print Assumptions C15_new_view_fresh_block_validated_under_the_context_of_the_own_position.
