(* C15 — Blocking SPI calls are always released when their (height, view) is over.
   Part (a): laws of the context registry (state/view_contexts.go) for every order of For / CancelOlderThan /
   Shutdown. A context is identified by its key (one context per key for the whole run, C15_one_context_per_key). *)
From LH Require Import Prims Contexts ContextsFacts.

(* For refuses exactly when shut down or when the key is older than some earlier CancelOlderThan argument:
   a context is never handed out for a superseded (height, view), and always for a current or future one *)
Theorem C15_for_fails_iff : forall ops k,
  fst (reg_for k (reg_run ops)) = false <->
  (has_shutdown ops = true \/ exists x, In x (cancel_args ops) /\ hv_lt k x = true).
Proof. exact for_fails_iff. Qed.
Print Assumptions C15_for_fails_iff.

(* a handed-out context is done exactly when Shutdown happened or it was removed by a CancelOlderThan *)
Theorem C15_done_iff : forall ops k, In k (issued (reg_run ops)) ->
  (ctx_done (reg_run ops) k = true <-> (has_shutdown ops = true \/ ~ In k (live (reg_run ops)))).
Proof. exact ctx_done_iff. Qed.
Print Assumptions C15_done_iff.

(* CancelOlderThan k cancels exactly the live contexts older than k; contexts at or above k are untouched *)
Theorem C15_cancel_older_exact : forall k r c, In c (live r) ->
  (hv_lt c k = true -> ~ In c (live (reg_cancel_older k r)) /\ In c (cancelled (reg_cancel_older k r))) /\
  (hv_lt c k = false -> In c (live (reg_cancel_older k r)) /\ (In c (cancelled (reg_cancel_older k r)) -> In c (cancelled r))).
Proof. exact cancel_older_effect. Qed.
Print Assumptions C15_cancel_older_exact.

Theorem C15_watermark_is_max : forall ops,
  match wm (reg_run ops) with
  | None => cancel_args ops = []
  | Some w => In w (cancel_args ops) /\ forall x, In x (cancel_args ops) -> hv_lt w x = false
  end.
Proof. exact watermark_is_max. Qed.
Print Assumptions C15_watermark_is_max.

Theorem C15_one_context_per_key : forall ops, NoDup (issued (reg_run ops)).
Proof. exact one_context_per_key. Qed.
Print Assumptions C15_one_context_per_key.

Theorem C15_for_cancels_nothing : forall k r, cancelled (snd (reg_for k r)) = cancelled r.
Proof. exact for_cancels_nothing. Qed.
Print Assumptions C15_for_cancels_nothing.
