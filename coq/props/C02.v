(* C02 — ValidateBlockConsensus never accepts a block without a genuine commit quorum.
   Model: VBC.v over the decoded proof (reference, signers with their verification flags, seed flags); decoding of
   the bytes is WireLH.dec_blockproof (C20); unreadable bytes are [None]. *)
From LH Require Import Prims Quorum QuorumFacts Msg Term VBC.

(* acceptance implies the certificate of the statement: a COMMIT reference of this instance and the block's height
   whose hash the block satisfies, pairwise distinct signers, all committee members with valid signatures, the
   quorum test (strict) or the has-honest test (soft), a non-empty random-seed signature that verifies *)
Theorem C02_acceptance_implies_certificate : forall c cc blk pe proof soft, vbc c cc blk pe proof soft = true ->
  cc = false /\ pe = false /\ exists b p cm, blk = Some b /\ proof = Some p /\ vc_committee c = Some cm /\ cert_spec c b p cm soft.
Proof. exact vbc_sound. Qed.
Print Assumptions C02_acceptance_implies_certificate.

(* the weight clause against the specification's integers Q = W - floor((W-1)/3) and f = floor((W-1)/3) *)
Theorem C02_weight_reaches_quorum_or_exceeds_f : forall c b p cm soft, cert_spec c b p cm soft -> (total cm < W64)%N ->
  if soft then (0 < total cm)%N -> (specF cm < Z.of_N (wsum (fun i => memN i (map s_id (ap_nodes p))) cm))%Z
  else (specQ cm <= Z.of_N (wsum (fun i => memN i (map s_id (ap_nodes p))) cm))%Z.
Proof. exact vbc_weight_spec. Qed.
Print Assumptions C02_weight_reaches_quorum_or_exceeds_f.

(* anything unreadable yields an error, never acceptance (and never a crash: the verdict is a total function) *)
Theorem C02_unreadable_bytes_rejected : forall c cc blk pe soft, vbc c cc blk pe None soft = false.
Proof. exact vbc_rejects_unreadable. Qed.
Print Assumptions C02_unreadable_bytes_rejected.
