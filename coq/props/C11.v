(* C11 — Whatever a correct node emits, correct peers in a matching state accept.
   For each of the four message kinds: the receiver-side theorem says which shape of message is counted / adopted
   in which states (for EVERY term state, i.e. whatever the receiver accepted before), the sender-side theorem says
   every message a correct node sends has that shape (for every sequence of events it handled before, i.e. whatever
   Byzantine or outsider input it accepted). Sender and receiver share committee, height and instance id; signature
   verification is a function of (bytes, signer), so the receiver computes the same flags the sender's own
   validation saw. *)
From LH Require Import Prims Quorum QuorumFacts Contexts Msg Term TermFacts Own Accept.
Open Scope N_scope.

(* COMMIT of a correct node: counted by every peer at that height *)
Theorem C11_honest_commit_is_counted :
  forall cs cr wm0 sh0 H cm fresh lead evs, total cm < W64 -> isMember cm (c_me cs) = true -> Forall (tev_ok cs H) evs ->
  forall to r s o wm shut xr, In (OSend to (MC r s o)) (tc_out (trun cs wm0 sh0 H cm fresh lead evs)) -> t_cm (tc_t xr) = cm ->
  has_c (tc_t (handle_c cr wm shut xr r s o)) (r_view r) (r_hash r) (c_me cs) = true.
Proof. exact honest_commit_is_counted. Qed.
Print Assumptions C11_honest_commit_is_counted.

(* PREPARE of a correct node: counted unless the peer's view is already higher *)
Theorem C11_honest_prepare_is_counted :
  forall cs cr wm0 sh0 H cm fresh lead evs, total cm < W64 -> isMember cm (c_me cs) = true -> Forall (tev_ok cs H) evs ->
  forall to r s wm shut xr, In (OSend to (MP r s)) (tc_out (trun cs wm0 sh0 H cm fresh lead evs)) -> t_cm (tc_t xr) = cm -> tc_v xr <= r_view r ->
  has_p (tc_t (handle_p cr wm shut xr r s)) (r_view r) (r_hash r) (c_me cs) = true.
Proof. exact honest_prepare_is_counted. Qed.
Print Assumptions C11_honest_prepare_is_counted.

(* VIEW_CHANGE sent on a timeout: counted by the correct leader it is addressed to unless that leader passed the view;
   this includes the prepared proof the sender built from storage that may hold Byzantine and outsider input *)
Theorem C11_honest_view_change_is_counted :
  forall cs cr wm shut xs h v to vt blk wm' shut' xr, SInv cs xs ->
  In (OSend to (MVC vt blk)) (tc_out (move_to_next_leader cs wm shut xs h v)) -> ~ In (OSend to (MVC vt blk)) (tc_out xs) ->
  c_inst cr = c_inst cs -> t_cm (tc_t xr) = t_cm (tc_t xs) -> t_h (tc_t xr) = t_h (tc_t xs) ->
  leaderOf (t_cm (tc_t xr)) (v_view vt) = c_me cr -> tc_v xr <= v_view vt ->
  has_vc (tc_t (handle_vc cr wm' shut' xr vt blk)) (v_view vt) (c_me cs) = true.
Proof. exact honest_view_change_is_counted. Qed.
Print Assumptions C11_honest_view_change_is_counted.

(* NEW_VIEW of an elected correct leader: adopted (the receiver moves to the view and PREPAREs the proposal) by every
   peer whose view is not higher and that has no proposal for the view; when no counted vote carries a lock the
   receiver's consumer must accept the leader's fresh block and its context for the position it is in must be live *)
Theorem C11_honest_new_view_is_adopted :
  forall cs cr wm shut xa v o wm' shut' xr, SInv cs xa -> vinv (tc_t xa) -> is_mnv o = true ->
  In o (tc_out (check_elected cs wm shut xa v)) -> ~ In o (tc_out xa) ->
  leaderOf (t_cm (tc_t xa)) v = c_me cs ->
  c_inst cr = c_inst cs -> t_cm (tc_t xr) = t_cm (tc_t xa) -> t_h (tc_t xr) = t_h (tc_t xa) ->
  tc_v xr <= v -> get_pp (tc_t xr) v = None ->
  exists to ty i h vs s pp pps b, o = OSend to (MNV ty i h v vs s pp pps b) /\
    (((forall vt, In vt vs -> v_proof vt = None) -> ctx_ok wm' shut' (t_h (tc_t xr), tc_v xr) = true /\ validProposal (c_me cr) h b (r_hash pp) = true) ->
     let x' := handle_nv cr wm' shut' xr ty i h v vs s pp pps b in tc_v x' = v /\ In (v, r_hash pp) (E x')).
Proof. exact honest_new_view_is_adopted. Qed.
Print Assumptions C11_honest_new_view_is_adopted.

(* the state invariants the sender-side theorems rest on hold after every sequence of events *)
Theorem C11_vote_storage_invariant :
  forall c wm shut H cm fresh lead evs, total cm < W64 -> isMember cm (c_me c) = true -> Forall (tev_ok c H) evs ->
  vinv (tc_t (trun c wm shut H cm fresh lead evs)).
Proof. exact trun_vinv. Qed.
Print Assumptions C11_vote_storage_invariant.

(* completeness of the validators: whatever satisfies the declarative specification (C08) is accepted *)
Theorem C11_vote_spec_is_accepted : forall c cm h vt, vote_spec c cm h (v_view vt) vt -> vote_valid c cm h vt = true.
Proof. exact vote_spec_valid. Qed.
Print Assumptions C11_vote_spec_is_accepted.
