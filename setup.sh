#!/bin/sh
# Build the framework from files on disk only (offline): full .vo build of the Coq development, Go harness.
set -e
cd "$(dirname "$0")"
export GOFLAGS=-mod=mod GOPROXY=off GOSUMDB=off GOTOOLCHAIN=local CGO_ENABLED=0
( cd coq && coq_makefile -f _CoqProject -o Makefile >/dev/null 2>&1 && timeout 3000 make -j16 >/dev/null 2>coq_build.err || { tail -30 coq_build.err; exit 1; } )
cp /repo/go.sum harness/go.sum
( cd harness && mkdir -p bin && go build -tags verif -o bin/lhverif . )
echo "setup ok"
