package main

// proofs engine (C08, C04, C07, C09): the real proofsvalidator.ValidatePreparedProof, called directly on prepared proofs
// that are built valid and then mutated field by field, against the model's validate_proof (Term.v) and against a
// reference written from the text of C08: valid signatures over ONE (instance, height, earlier view, hash) by that
// view's leader and by pairwise distinct other committee members, together reaching quorum weight.
// The world engine exercises the validator only through votes that reach a leader; here every field of the proof is
// swept on its own and in pairs, for committees with unequal and zero weights.

import (
	"fmt"
	"math/rand"
	"path/filepath"

	"github.com/orbs-network/lean-helix-go/services/interfaces"
	"github.com/orbs-network/lean-helix-go/services/proofsvalidator"
	"github.com/orbs-network/lean-helix-go/services/termincommittee"
	"github.com/orbs-network/lean-helix-go/spec/types/go/primitives"
)

func init() { engines["proofs"] = runProofs }

type pvCase struct {
	ids, ws   []uint64
	h, target uint64
	p         *aProof
	muts      []string
}

func pvMembers(ids, ws []uint64) []interfaces.CommitteeMember {
	ms := make([]interfaces.CommitteeMember, len(ids))
	for i := range ids {
		ms[i] = interfaces.CommitteeMember{Id: idBytes(ids[i]), Weight: primitives.MemberWeight(ws[i])}
	}
	return ms
}

// pvRef: the reference predicate, from the property text (total weight > 0 and below 2^64 by construction)
func pvRef(c *pvCase) (bool, string) {
	p := c.p
	if p == nil {
		return true, "no proof"
	}
	n := uint64(len(c.ids))
	w := map[uint64]uint64{}
	var total uint64
	for i, id := range c.ids {
		w[id] = c.ws[i]
		total += c.ws[i]
	}
	pp, pr := p.PPRef, p.PRef
	if pp.Type != 1 || pr.Type != 2 {
		return false, "types"
	}
	if pp.Inst != pr.Inst || pp.Height != pr.Height || pp.View != pr.View || pp.Hash != pr.Hash {
		return false, "the two halves do not name one (instance, height, view, hash)"
	}
	if pp.Height != c.h {
		return false, "height"
	}
	if pp.View >= c.target {
		return false, "view not earlier"
	}
	leader := c.ids[pp.View%n]
	if !p.PPSnd.Ok || p.PPSnd.Id != leader {
		return false, "PREPREPARE half not signed by the view's leader"
	}
	got := w[leader]
	seen := map[uint64]bool{}
	for _, s := range p.PSnds {
		_, member := w[s.Id]
		if !s.Ok || s.Id == leader || !member || seen[s.Id] {
			return false, "preparer"
		}
		seen[s.Id] = true
		got += w[s.Id]
	}
	f := (total - 1) / 3
	if got < total-f {
		return false, "below quorum"
	}
	return true, ""
}

func (c *pvCase) coq() string {
	cm := make([]string, len(c.ids))
	for i := range c.ids {
		cm[i] = fmt.Sprintf("(%d, %d)", c.ids[i], c.ws[i])
	}
	return fmt.Sprintf("%s, %d, %d, %s", cList(cm), c.h, c.target, c.p.coq())
}

func runProofs(cfg *runCfg) error {
	r := rand.New(rand.NewSource(cfg.seed))
	rep := newReport("proofs", cfg)
	n := 3000
	if cfg.tier == "thorough" {
		n = 40000
	}
	if cfg.n > 0 {
		n = cfg.n
	}
	kr := newKeyring(cfg.seed)
	cd := newCodec(kr)
	km := &keyManager{kr: kr, me: idBytes(0)}
	var cases []string
	distinct := map[string]bool{}
	accepted := 0
	for i := 0; i < n; i++ {
		size := 1 + r.Intn(7)
		c := &pvCase{}
		for j := 0; j < size; j++ {
			c.ids = append(c.ids, uint64(j))
			switch r.Intn(6) {
			case 0:
				c.ws = append(c.ws, 0)
			case 1:
				c.ws = append(c.ws, uint64(2+r.Intn(3)))
			default:
				c.ws = append(c.ws, 1)
			}
		}
		var total uint64
		for _, x := range c.ws {
			total += x
		}
		if total == 0 {
			c.ws[r.Intn(size)] = 1
		}
		if r.Intn(3) == 0 { // the ordered committee is a permutation of the ids
			r.Shuffle(size, func(a, b int) { c.ids[a], c.ids[b] = c.ids[b], c.ids[a] })
		}
		c.h = uint64(1 + r.Intn(3))
		views := []uint64{0, 0, 1, 2, 3, 5, uint64(size), uint64(size) + 1, 1 << 32, 1<<63 + 1}
		pv := views[r.Intn(len(views))]
		c.target = pv + 1 + uint64(r.Intn(3))
		leader := c.ids[pv%uint64(size)]
		hash := uint64(4100 + r.Intn(3))
		p := &aProof{PPRef: aRef{1, worldInst, c.h, pv, hash}, PPSnd: aSig{leader, true}, PRef: aRef{2, worldInst, c.h, pv, hash}}
		for _, id := range c.ids {
			if id != leader && r.Intn(5) != 0 {
				p.PSnds = append(p.PSnds, aSig{id, true})
			}
		}
		r.Shuffle(len(p.PSnds), func(a, b int) { p.PSnds[a], p.PSnds[b] = p.PSnds[b], p.PSnds[a] })
		c.p = p
		other := func(x uint64) uint64 {
			switch r.Intn(4) {
			case 0:
				return x + 1
			case 1:
				if x > 0 {
					return x - 1
				}
				return x + 2
			case 2:
				return x + uint64(size)
			}
			return uint64(r.Intn(4))
		}
		nm := []int{0, 1, 1, 1, 2}[r.Intn(5)]
		for k := 0; k < nm; k++ {
			var m string
			switch r.Intn(22) {
			case 0:
				m = "pref.view"
				p.PRef.View = other(p.PRef.View)
			case 1:
				m = "ppref.view"
				p.PPRef.View = other(p.PPRef.View)
			case 2:
				m = "pref.hash"
				p.PRef.Hash++
			case 3:
				m = "ppref.hash"
				p.PPRef.Hash++
			case 4:
				m = "pref.height"
				p.PRef.Height = other(p.PRef.Height)
			case 5:
				m = "ppref.height"
				p.PPRef.Height = other(p.PPRef.Height)
			case 6:
				m = "pref.inst"
				p.PRef.Inst++
			case 7:
				m = "ppref.inst"
				p.PPRef.Inst++
			case 8:
				m = "both.inst"
				p.PRef.Inst++
				p.PPRef.Inst++
			case 9:
				m = "types"
				switch r.Intn(3) {
				case 0:
					p.PPRef.Type, p.PRef.Type = 2, 1
				case 1:
					p.PRef.Type = 1
				case 2:
					p.PPRef.Type = uint64(3 + r.Intn(3))
				}
			case 10:
				m = "ppsnd.other-member"
				p.PPSnd.Id = c.ids[r.Intn(size)]
			case 11:
				m = "ppsnd.bad-signature"
				p.PPSnd.Ok = false
			case 12:
				if len(p.PSnds) > 0 {
					m = "psnd.bad-signature"
					p.PSnds[r.Intn(len(p.PSnds))].Ok = false
				}
			case 13:
				if len(p.PSnds) > 0 {
					m = "psnd.duplicate"
					p.PSnds = append(p.PSnds, p.PSnds[r.Intn(len(p.PSnds))])
				}
			case 14:
				m = "psnd.leader"
				p.PSnds = append(p.PSnds, aSig{p.PPSnd.Id, true})
			case 15:
				m = "psnd.outsider"
				p.PSnds = append(p.PSnds, aSig{uint64(40 + r.Intn(3)), true})
			case 16:
				if len(p.PSnds) > 0 {
					m = "psnd.dropped"
					k := 1 + r.Intn(len(p.PSnds))
					p.PSnds = p.PSnds[:len(p.PSnds)-k]
				}
			case 17:
				m = "target.not-later"
				c.target = p.PPRef.View - uint64(r.Intn(2))
				if p.PPRef.View == 0 {
					c.target = 0
				}
			case 18:
				m = "height.other"
				c.h = other(c.h)
			case 19:
				m = "psnd.all-added"
				have := map[uint64]bool{}
				for _, s := range p.PSnds {
					have[s.Id] = true
				}
				for _, id := range c.ids {
					if !have[id] && id != p.PPSnd.Id {
						p.PSnds = append(p.PSnds, aSig{id, true})
					}
				}
			case 20:
				m = "no-proof"
				c.p = nil
			case 21:
				m = "both.view" // a consistent proof of another view: the leader changes with it
				v := other(p.PPRef.View)
				p.PPRef.View, p.PRef.View = v, v
			}
			if m != "" {
				c.muts = append(c.muts, m)
				rep.count("mutation:" + m)
			}
			if c.p == nil {
				break
			}
		}
		if len(c.muts) == 0 {
			rep.count("mutation:none")
		}
		members := pvMembers(c.ids, c.ws)
		var got, panicked bool
		func() {
			defer func() {
				if e := recover(); e != nil {
					panicked = true
				}
			}()
			var pb = cd.encProof(c.p)
			if pb == nil {
				got = proofsvalidator.ValidatePreparedProof(primitives.BlockHeight(c.h), primitives.View(c.target), nil, km, members, func(v primitives.View) primitives.MemberId { return termincommittee.VerifLeaderOf(v, members) })
				return
			}
			got = proofsvalidator.ValidatePreparedProof(primitives.BlockHeight(c.h), primitives.View(c.target), pb.Build(), km, members, func(v primitives.View) primitives.MemberId { return termincommittee.VerifLeaderOf(v, members) })
		}()
		want, why := pvRef(c)
		in := map[string]interface{}{"committee_ids": c.ids, "weights": c.ws, "height": c.h, "target_view": c.target, "proof": c.coq(), "mutations": c.muts}
		if panicked {
			rep.count("result:panic")
			rep.finding("C08", "proof-validator-panicked", fmt.Sprintf("ValidatePreparedProof panics on %s", c.coq()), in)
		} else if got && !want {
			rep.finding("C08", "invalid-proof-accepted", fmt.Sprintf("ValidatePreparedProof accepts a proof that is none (%s): %s (mutations %v)", why, c.coq(), c.muts), in)
		} else if !got && want {
			rep.finding("C11", "valid-proof-rejected", fmt.Sprintf("ValidatePreparedProof rejects a proof that satisfies the description: %s (mutations %v)", c.coq(), c.muts), in)
		}
		if got {
			accepted++
			rep.count("result:accepted")
		} else {
			rep.count("result:rejected")
		}
		if !want {
			rep.count("reference-rejects:" + why)
		}
		obs := cBool(got)
		if panicked {
			obs = "true" // never what the model says for a panic: see the finding
			if want {
				obs = "false"
			}
		}
		cs := c.coq()
		distinct[cs] = true
		cases = append(cases, fmt.Sprintf("(%s, %s)", cs, obs))
		if i < 3 {
			rep.sample(in, 3)
		}
	}
	rep.Evaluations = len(cases)
	rep.DistinctNontr = len(distinct)
	rep.Extra["accepted"] = accepted
	rep.Rule = "prepared proofs built valid (committee of 1-7 members in a possibly permuted order with weights 0-4, heights 1-3, proof views incl. n, n+1, 2^32, 2^63+1, preparers a random subset of the non-leaders in random order) and then 0-2 of 22 field mutations applied (each half's view / hash / height / instance / type, leader half signed by another member or badly, preparer badly signed / duplicated / the leader / an outsider / dropped, target view not later, other height, no proof); real ValidatePreparedProof with the harness key manager and the real leader function; observable = accepted or not"
	cf := newCaseFile("From LH Require Import Prims Quorum Msg Term Corr.\nOpen Scope N_scope.")
	cf.addShards("pv", "pvcase", "pv_ok", cases, 500)
	p := filepath.Join(cfg.outDir, "cases_proofs.v")
	if err := cf.write(p); err != nil {
		return err
	}
	rep.CaseFiles = []string{p}
	return rep.write(cfg.outDir)
}
