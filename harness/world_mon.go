package main

// Reference predicates and per-event monitors for the world engine (C07, C08, C09, C11): independent Go
// renderings of the property statements, evaluated on what the implementation did on each event.

import (
	"fmt"
	"sort"
	"strings"

	"github.com/orbs-network/lean-helix-go/services/interfaces"
	"github.com/orbs-network/lean-helix-go/services/storage"
	"github.com/orbs-network/lean-helix-go/spec/types/go/primitives"
)

// ---- recording storage ----
type recStorage struct {
	*storage.InMemoryStorage
	node *simNode
}

// The in-memory storage hands out map contents in Go's random map order. To keep an engine run a function of its seed
// the wrapper puts each returned list into a canonical order and then permutes it with a PRNG derived from the world
// seed: every order remains possible, none depends on the process.
func (s *recStorage) perm(n int) []int { return s.node.w.ord.Perm(n) }

func (s *recStorage) GetPrepareMessages(h primitives.BlockHeight, v primitives.View, x primitives.BlockHash) ([]*interfaces.PrepareMessage, bool) {
	l, ok := s.InMemoryStorage.GetPrepareMessages(h, v, x)
	sort.SliceStable(l, func(i, j int) bool {
		return string(l[i].Content().SignedHeader().BlockHash())+"|"+string(l[i].Content().Sender().MemberId()) < string(l[j].Content().SignedHeader().BlockHash())+"|"+string(l[j].Content().Sender().MemberId())
	})
	out := make([]*interfaces.PrepareMessage, len(l))
	for i, k := range s.perm(len(l)) {
		out[i] = l[k]
	}
	return out, ok
}
func (s *recStorage) GetPrepareMessagesFromView(h primitives.BlockHeight, v primitives.View) ([]*interfaces.PrepareMessage, bool) {
	l, ok := s.InMemoryStorage.GetPrepareMessagesFromView(h, v)
	sort.SliceStable(l, func(i, j int) bool {
		return string(l[i].Content().SignedHeader().BlockHash())+"|"+string(l[i].Content().Sender().MemberId()) < string(l[j].Content().SignedHeader().BlockHash())+"|"+string(l[j].Content().Sender().MemberId())
	})
	out := make([]*interfaces.PrepareMessage, len(l))
	for i, k := range s.perm(len(l)) {
		out[i] = l[k]
	}
	return out, ok
}
func (s *recStorage) GetCommitMessages(h primitives.BlockHeight, v primitives.View, x primitives.BlockHash) ([]*interfaces.CommitMessage, bool) {
	l, ok := s.InMemoryStorage.GetCommitMessages(h, v, x)
	sort.SliceStable(l, func(i, j int) bool {
		return string(l[i].Content().SignedHeader().BlockHash())+"|"+string(l[i].Content().Sender().MemberId()) < string(l[j].Content().SignedHeader().BlockHash())+"|"+string(l[j].Content().Sender().MemberId())
	})
	out := make([]*interfaces.CommitMessage, len(l))
	for i, k := range s.perm(len(l)) {
		out[i] = l[k]
	}
	return out, ok
}
func (s *recStorage) GetCommitMessagesFromView(h primitives.BlockHeight, v primitives.View) ([]*interfaces.CommitMessage, bool) {
	l, ok := s.InMemoryStorage.GetCommitMessagesFromView(h, v)
	sort.SliceStable(l, func(i, j int) bool {
		return string(l[i].Content().SignedHeader().BlockHash())+"|"+string(l[i].Content().Sender().MemberId()) < string(l[j].Content().SignedHeader().BlockHash())+"|"+string(l[j].Content().Sender().MemberId())
	})
	out := make([]*interfaces.CommitMessage, len(l))
	for i, k := range s.perm(len(l)) {
		out[i] = l[k]
	}
	return out, ok
}
func (s *recStorage) GetViewChangeMessages(h primitives.BlockHeight, v primitives.View) ([]*interfaces.ViewChangeMessage, bool) {
	l, ok := s.InMemoryStorage.GetViewChangeMessages(h, v)
	sort.SliceStable(l, func(i, j int) bool {
		return string(l[i].Content().Sender().MemberId()) < string(l[j].Content().Sender().MemberId())
	})
	out := make([]*interfaces.ViewChangeMessage, len(l))
	for i, k := range s.perm(len(l)) {
		out[i] = l[k]
	}
	return out, ok
}
func (s *recStorage) GetPrepareSendersIds(h primitives.BlockHeight, v primitives.View, x primitives.BlockHash) []primitives.MemberId {
	l := s.InMemoryStorage.GetPrepareSendersIds(h, v, x)
	sort.SliceStable(l, func(i, j int) bool { return string(l[i]) < string(l[j]) })
	out := make([]primitives.MemberId, len(l))
	for i, k := range s.perm(len(l)) {
		out[i] = l[k]
	}
	return out
}
func (s *recStorage) GetCommitSendersIds(h primitives.BlockHeight, v primitives.View, x primitives.BlockHash) []primitives.MemberId {
	l := s.InMemoryStorage.GetCommitSendersIds(h, v, x)
	sort.SliceStable(l, func(i, j int) bool { return string(l[i]) < string(l[j]) })
	out := make([]primitives.MemberId, len(l))
	for i, k := range s.perm(len(l)) {
		out[i] = l[k]
	}
	return out
}

func (s *recStorage) StorePreprepare(m *interfaces.PreprepareMessage) bool {
	ok := s.InMemoryStorage.StorePreprepare(m)
	if ok {
		h := m.Content().SignedHeader()
		s.node.outs = append(s.node.outs, fmt.Sprintf("OStore 1 %d %d %d %d", uint64(h.BlockHeight()), uint64(h.View()), s.node.w.codec.hashTok(h.BlockHash()), memberTok(m.Content().Sender().MemberId())))
	}
	return ok
}
func (s *recStorage) StorePrepare(m *interfaces.PrepareMessage) bool {
	ok := s.InMemoryStorage.StorePrepare(m)
	if ok {
		h := m.Content().SignedHeader()
		s.node.outs = append(s.node.outs, fmt.Sprintf("OStore 2 %d %d %d %d", uint64(h.BlockHeight()), uint64(h.View()), s.node.w.codec.hashTok(h.BlockHash()), memberTok(m.Content().Sender().MemberId())))
	}
	return ok
}
func (s *recStorage) StoreCommit(m *interfaces.CommitMessage) bool {
	ok := s.InMemoryStorage.StoreCommit(m)
	if ok {
		h := m.Content().SignedHeader()
		s.node.outs = append(s.node.outs, fmt.Sprintf("OStore 3 %d %d %d %d", uint64(h.BlockHeight()), uint64(h.View()), s.node.w.codec.hashTok(h.BlockHash()), memberTok(m.Content().Sender().MemberId())))
	}
	return ok
}
func (s *recStorage) StoreViewChange(m *interfaces.ViewChangeMessage) bool {
	ok := s.InMemoryStorage.StoreViewChange(m)
	if ok {
		h := m.Content().SignedHeader()
		s.node.outs = append(s.node.outs, fmt.Sprintf("OStore 5 %d %d 0 %d", uint64(h.BlockHeight()), uint64(h.View()), memberTok(m.Content().Sender().MemberId())))
	}
	return ok
}

var _ = primitives.BlockHeight(0)

// ---- reference predicates ----
func (w *world) isMemberAt(h, id, forNode uint64) bool {
	for _, m := range w.committeeAt(h, forNode) {
		if memberTok(m.Id) == id {
			return true
		}
	}
	return false
}
func (w *world) weightOf(h uint64, ids []uint64, forNode uint64) uint64 {
	seen := map[uint64]bool{}
	t := uint64(0)
	for _, m := range w.committeeAt(h, forNode) {
		id := memberTok(m.Id)
		for _, x := range ids {
			if x == id && !seen[id] {
				seen[id] = true
				t += uint64(m.Weight)
			}
		}
	}
	return t
}
func (w *world) leaderFor(h, v, forNode uint64) uint64 {
	cm := w.committeeAt(h, forNode)
	return memberTok(cm[v%uint64(len(cm))].Id)
}
func (w *world) quorumAt(h, forNode uint64) uint64 {
	t := uint64(0)
	for _, m := range w.committeeAt(h, forNode) {
		t += uint64(m.Weight)
	}
	return t - (t-1)/3
}

// proofOK: the prepared proof shows valid signatures over one (instance, height, earlier view, hash) by that
// view's leader and by distinct other committee members together reaching quorum weight (C08)
func (w *world) proofOK(p *aProof, h, target, forNode uint64) (bool, string) {
	if p == nil {
		return true, ""
	}
	pp, pr := p.PPRef, p.PRef
	if pp.Type != 1 || pr.Type != 2 {
		return false, "proof ref types"
	}
	if pp.Inst != worldInst || pr.Inst != worldInst {
		return false, "proof instance"
	}
	if pp.Height != h || pr.Height != h || pp.View != pr.View || pp.Hash != pr.Hash {
		return false, "proof refs disagree / height"
	}
	if pp.View >= target {
		return false, "proof view not earlier"
	}
	ld := w.leaderFor(h, pp.View, forNode)
	if !p.PPSnd.Ok || p.PPSnd.Id != ld {
		return false, "proof preprepare not by leader / bad signature"
	}
	ids := []uint64{ld}
	seen := map[uint64]bool{}
	for _, s := range p.PSnds {
		if !s.Ok || s.Id == ld || seen[s.Id] || !w.isMemberAt(h, s.Id, forNode) {
			return false, "proof preparer invalid"
		}
		seen[s.Id] = true
		ids = append(ids, s.Id)
	}
	if w.weightOf(h, ids, forNode) < w.quorumAt(h, forNode) {
		return false, "proof below quorum"
	}
	return true, ""
}

func (w *world) voteOK(v aVote, h, view, forNode uint64) (bool, string) {
	if v.Type != 5 || v.Inst != worldInst || v.Height != h || v.View != view {
		return false, "vote header"
	}
	if !v.Snd.Ok {
		return false, "vote signature"
	}
	if !w.isMemberAt(h, v.Snd.Id, forNode) {
		return false, "vote sender not member"
	}
	return w.proofOK(v.Proof, h, view, forNode)
}

// nvCertOK: the NEW_VIEW certificate of C07 as seen by node n at height h
func (w *world) nvCertOK(n *simNode, m *aMsg, h uint64) (bool, string) {
	if m.Kind != "NV" {
		return false, "not a NEW_VIEW"
	}
	v := m.NVView
	if m.NVType != 4 || m.NVInst != worldInst || m.NVHeight != h {
		return false, "header"
	}
	ld := w.leaderFor(h, v, n.id)
	if !m.Snd.Ok || m.Snd.Id != ld {
		return false, "not signed by the leader of the view"
	}
	seen := map[uint64]bool{}
	var ids []uint64
	var best *aProof
	for _, vt := range m.Votes {
		if ok, why := w.voteOK(vt, h, v, n.id); !ok {
			return false, "vote: " + why
		}
		if seen[vt.Snd.Id] {
			return false, "duplicate voter"
		}
		seen[vt.Snd.Id] = true
		ids = append(ids, vt.Snd.Id)
		if vt.Proof != nil && (best == nil || vt.Proof.PPRef.View > best.PPRef.View) {
			best = vt.Proof
		}
	}
	if w.weightOf(h, ids, n.id) < w.quorumAt(h, n.id) {
		return false, "votes below quorum"
	}
	if m.Ref.Type != 1 || m.Ref.Inst != worldInst || m.Ref.Height != h || m.Ref.View != v || !m.PPSnd.Ok || m.PPSnd.Id != ld {
		return false, "embedded proposal"
	}
	if best != nil {
		if m.Ref.Hash != best.PPRef.Hash {
			return false, "proposal hash is not the hash of the highest prepared proof"
		}
		if m.Block == nil || m.Block.Id != best.PPRef.Hash || m.Block.Height != h {
			return false, "block is not the block of the highest prepared proof"
		}
	} else {
		if m.Block == nil || m.Block.Id != m.Ref.Hash || m.Block.Height != h {
			return false, "fresh block does not match the proposal"
		}
		for _, b := range m.Block.Bad {
			if b == n.id {
				return false, "fresh block rejected by this node's validator"
			}
		}
	}
	return true, ""
}

// acceptOK: the reference predicate of C08 for node n in state (h, v)
func (w *world) acceptOK(n *simNode, m *aMsg, h, v uint64) (bool, string) {
	if m.height() != h {
		return false, "other height"
	}
	if m.sender() == n.id {
		return false, "own message"
	}
	inst := m.Ref.Inst
	if m.Kind == "VC" {
		inst = m.Vote.Inst
	} else if m.Kind == "NV" {
		inst = m.NVInst
	}
	if inst != worldInst {
		return false, "other instance"
	}
	if !w.isMemberAt(h, m.sender(), n.id) {
		return false, "sender not in committee"
	}
	switch m.Kind {
	case "PP":
		if m.Ref.Type != 1 || !m.Snd.Ok {
			return false, "type/signature"
		}
		if m.Snd.Id != w.leaderFor(h, m.Ref.View, n.id) {
			return false, "not the leader"
		}
	case "P":
		if m.Ref.Type != 2 || !m.Snd.Ok {
			return false, "type/signature"
		}
		if m.Ref.View < v {
			return false, "stale view"
		}
		if m.Snd.Id == w.leaderFor(h, m.Ref.View, n.id) {
			return false, "from the leader"
		}
	case "C":
		if m.Ref.Type != 3 || !m.Snd.Ok {
			return false, "type/signature"
		}
		if !m.ShareOk {
			return false, "bad share"
		}
	case "VC":
		if m.Vote.View < v {
			return false, "stale view"
		}
		if w.leaderFor(h, m.Vote.View, n.id) != n.id {
			return false, "not addressed to me as leader"
		}
		if ok, why := w.voteOK(*m.Vote, h, m.Vote.View, n.id); !ok {
			return false, why
		}
	case "NV":
		if m.NVView < v {
			return false, "stale view"
		}
		if m.NVType != 4 || !m.Snd.Ok || m.Snd.Id != w.leaderFor(h, m.NVView, n.id) {
			return false, "type/signature/leader"
		}
	}
	return true, ""
}

type evInfo struct {
	kind    string // deliver | election | sync
	msg     *aMsg
	genuine bool // an honest node's message delivered unmodified to one of its recipients
	h, v    uint64
}

type nodeBefore struct {
	h, v       uint64
	prepared   bool
	pview      uint64
	inTerm     bool
}

func (n *simNode) before() nodeBefore {
	st := n.vn.State()
	b := nodeBefore{h: uint64(st.Height()), v: uint64(st.View())}
	if tic := n.vn.Term(); tic != nil {
		b.inTerm = true
		pv, ok := tic.VerifPreparedView()
		b.prepared, b.pview = ok, uint64(pv)
	}
	return b
}

func storeKey(kind, h, v, x, id uint64) string { return fmt.Sprintf("%d/%d/%d/%d/%d", kind, h, v, x, id) }

// afterEvent: judge what node n did on this event
func (w *world) afterEvent(n *simNode, ev evInfo, bf nodeBefore, outs []string, sent []*aMsg) {
	st := n.vn.State()
	ah, av := uint64(st.Height()), uint64(st.View())
	influenced := len(outs) > 0 || ah != bf.h || av != bf.v
	// ---- C17 / C13: the term that is installed is the term of the node's height (whatever the two loops did in whatever order) ----
	if tic := n.vn.Term(); tic != nil {
		if th := uint64(tic.VerifTermHeight()); th != ah {
			w.rep.finding("C17", "installed-term-of-another-height", fmt.Sprintf("node %d is at height %d while the term it hands its messages to is the term of height %d (after: %s)", n.id, ah, th, ev.kind), w.traceInput())
			w.rep.finding("C13", "height-moved-without-a-term", fmt.Sprintf("node %d: the height is %d, the installed term is of height %d (after: %s)", n.id, ah, th, ev.kind), w.traceInput())
		}
	}
	var stores [][4]uint64
	for _, o := range outs {
		if strings.HasPrefix(o, "OStore ") {
			var k, sh, v, x, id uint64
			fmt.Sscanf(o, "OStore %d %d %d %d %d", &k, &sh, &v, &x, &id)
			if sh == bf.h {
				stores = append(stores, [4]uint64{k, v, x, id})
			}
			n.stored[storeKey(k, sh, v, x, id)] = true
			if k == 1 {
				n.storedPP[fmt.Sprintf("%d/%d", sh, v)] = true
			}
		}
	}
	if ev.kind == "deliver" {
		m := ev.msg
		// ---- C08: influence only if accept_ok ----
		if influenced {
			if ok, why := w.acceptOK(n, m, bf.h, bf.v); !ok {
				w.rep.finding("C08", "influenced-by-unacceptable-"+m.Kind, fmt.Sprintf("node %d (h=%d,v=%d) was influenced by a %s that fails the reference predicate (%s): outs=%v", n.id, bf.h, bf.v, m.Kind, why, clip(outs)), w.traceInput())
				if why == "sender not in committee" && (m.Kind == "PP" || m.Kind == "NV") && m.Snd.Ok {
					w.rep.finding("C18", "outsider-accepted-as-leader", fmt.Sprintf("node %d (h=%d) acted on a %s of view %d signed by %d, which is not in the committee: the leader of a view is a member of the ordered committee: outs=%v", n.id, bf.h, m.Kind, m.view(), m.sender(), clip(outs)), w.traceInput())
				}
				if why == "not the leader" || why == "from the leader" || why == "not addressed to me as leader" || (why == "type/signature/leader" && m.NVType == 4 && m.Snd.Ok) {
					// the only thing wrong with the message is the sender's role in its view: the node's idea of "leader of view v" is not committee[v mod n]
					w.rep.finding("C18", "node-treats-another-member-as-leader", fmt.Sprintf("node %d (h=%d) acted on a %s of view %d as if the leader of that view were not member %d (%s): outs=%v", n.id, bf.h, m.Kind, m.view(), w.leaderFor(bf.h, m.view(), n.id), why, clip(outs)), w.traceInput())
				}
			}
		}
		// ---- C07: PREPARE / adoption in a view above 0 only under a valid NEW_VIEW certificate ----
		for _, s := range sent {
			if s.Kind == "P" && s.Ref.View > 0 && s.Ref.Height == bf.h { // (a commit inside this event may have started the next height and consumed cached messages: those are judged by the model correspondence)
				w.checkC07(n, m, bf, s.Ref.View, s.Ref.Hash)
			}
		}
		for _, sto := range stores {
			if sto[0] == 1 && sto[1] > 0 && sto[3] != n.id {
				w.checkC07(n, m, bf, sto[1], sto[2])
			}
		}
		// ---- C11: genuine honest output is accepted by a correct peer in a matching state ----
		if ev.genuine && bf.inTerm && m.height() == bf.h {
			w.checkC11(n, m, bf, outs, sent, av)
		}
	}
	// ---- C10 (phase order): a COMMIT for (v, x) is sent only over a prepared certificate for exactly (v, x) - the
	// proposal and PREPAREs of quorum weight with the leader's - or over a quorum of COMMITs for it; judged on the
	// harness's own record of what the node stored (per true hash, whatever the storage does with its keys)
	for _, sm := range sent {
		if sm.Kind != "C" || sm.Ref.Height != bf.h {
			continue
		}
		v, x := sm.Ref.View, sm.Ref.Hash
		ld := w.leaderFor(bf.h, v, n.id)
		hasPP := n.stored[storeKey(1, bf.h, v, x, ld)]
		pids, cids := []uint64{ld}, []uint64{}
		for id := uint64(0); id < uint64(w.n); id++ {
			if id != ld && n.stored[storeKey(2, bf.h, v, x, id)] {
				pids = append(pids, id)
			}
			if n.stored[storeKey(3, bf.h, v, x, id)] {
				cids = append(cids, id)
			}
		}
		q := w.quorumAt(bf.h, n.id)
		if !(hasPP && w.weightOf(bf.h, pids, n.id) >= q) && !(w.weightOf(bf.h, cids, n.id) >= q) {
			w.rep.finding("C10", "commit-without-certificate", fmt.Sprintf("node %d sent COMMIT for (h=%d, v=%d, hash %d) holding the proposal: %v, PREPAREs (with the leader) of weight %d and COMMITs of weight %d for exactly that hash; quorum is %d",
				n.id, bf.h, v, x, hasPP, w.weightOf(bf.h, pids, n.id), w.weightOf(bf.h, cids, n.id), q), w.traceInput())
		}
	}
	if ev.kind == "deliver" && ev.msg.Kind == "NV" && ev.msg.NVHeight > bf.h {
		n.aheadNV = append(n.aheadNV, ev.msg)
	}
	if ah > bf.h {
		// ---- C07 for messages taken from the future cache: a PREPARE in a view above 0 at the height just started can
		// only come from a NEW_VIEW delivered ahead of time; if every such NEW_VIEW fails the certificate predicate the
		// node acted without one (a standalone PREPREPARE from the cache is left to the model correspondence)
		for _, s := range sent {
			if s.Kind != "P" || s.Ref.View == 0 || s.Ref.Height != ah {
				continue
			}
			var cands []*aMsg
			for _, m := range n.aheadNV {
				if m.NVHeight == ah && m.NVView == s.Ref.View {
					cands = append(cands, m)
				}
			}
			valid, why := false, ""
			for _, m := range cands {
				ok, y := w.nvCertOK(n, m, ah)
				valid = valid || ok
				why = y
			}
			if len(cands) > 0 && !valid {
				w.rep.finding("C07", "acted-on-invalid-new-view", fmt.Sprintf("node %d started height %d, consumed a cached NEW_VIEW for view %d that is not a valid certificate (%s) and PREPAREd", n.id, ah, s.Ref.View, why), w.traceInput())
			}
		}
	}
	if ev.kind == "election" && av != bf.v {
		// ---- C09 (first sentence): the vote carries the lock ----
		var vt *aVote
		var blk *aBlock
		for _, s := range sent {
			if s.Kind == "VC" {
				vt, blk = s.Vote, s.Block
			}
		}
		if vt != nil {
			// the harness's own record of the lock: a correct member that sent a COMMIT for (h, p) was prepared in p,
			// whatever its internal flags say now
			lockView, locked := uint64(0), false
			for _, sm := range n.sentLog {
				if sm.Kind == "C" && sm.Ref.Height == vt.Height && sm.Ref.View < vt.View && (!locked || sm.Ref.View > lockView) {
					lockView, locked = sm.Ref.View, true
				}
			}
			if locked && !w.committedHeight(n, vt.Height) && (vt.Proof == nil || vt.Proof.PPRef.View < lockView) { // (a term whose commit callback failed may have sent its COMMIT without being prepared)
				w.rep.finding("C09", "vote-does-not-carry-the-lock", fmt.Sprintf("node %d sent a COMMIT in view %d of height %d (so it was prepared there) and now votes for view %d with %s", n.id, lockView, vt.Height, vt.View,
					map[bool]string{true: "no proof", false: "a proof of an earlier view"}[vt.Proof == nil]), w.traceInput())
			}
			if bf.prepared {
				if vt.Proof == nil {
					w.rep.finding("C09", "vote-without-proof-although-prepared", fmt.Sprintf("node %d was prepared in view %d and sent a VIEW_CHANGE for view %d without a proof", n.id, bf.pview, vt.View), w.traceInput())
				} else {
					if ok, why := w.proofOK(vt.Proof, bf.h, vt.View, n.id); !ok {
						w.rep.finding("C09", "vote-carries-invalid-proof", fmt.Sprintf("node %d sent a VIEW_CHANGE whose proof is invalid: %s", n.id, why), w.traceInput())
					}
					if vt.Proof.PPRef.View != bf.pview {
						w.rep.finding("C09", "vote-proof-not-for-highest-prepared-view", fmt.Sprintf("node %d prepared in view %d, proof is for view %d", n.id, bf.pview, vt.Proof.PPRef.View), w.traceInput())
					}
					if blk == nil || blk.Id != vt.Proof.PPRef.Hash {
						w.rep.finding("C09", "vote-block-does-not-match-proof", fmt.Sprintf("node %d: VIEW_CHANGE block does not match its proof", n.id), w.traceInput())
					}
				}
			} else if vt.Proof != nil {
				w.rep.finding("C09", "vote-with-proof-although-not-prepared", fmt.Sprintf("node %d", n.id), w.traceInput())
			}
		}
	}
	// ---- C07 (leader side) and C09 (second sentence): a NEW_VIEW this node sends ----
	for _, s := range sent {
		if s.Kind != "NV" {
			continue
		}
		var best *aProof
		seen := map[uint64]bool{}
		var ids []uint64
		for _, vt := range s.Votes {
			if ok, why := w.voteOK(vt, s.NVHeight, s.NVView, n.id); !ok && vt.Snd.Id != n.id {
				w.rep.finding("C07", "leader-counted-invalid-vote", fmt.Sprintf("node %d sent a NEW_VIEW for view %d embedding an invalid vote of %d: %s", n.id, s.NVView, vt.Snd.Id, why), w.traceInput())
			}
			if seen[vt.Snd.Id] {
				w.rep.finding("C07", "leader-counted-duplicate-voter", fmt.Sprintf("node %d", n.id), w.traceInput())
				w.rep.finding("C09", "new-view-embeds-a-vote-twice", fmt.Sprintf("node %d: the NEW_VIEW for view %d embeds the vote of %d twice (the embedded votes are not the ones it counted)", n.id, s.NVView, vt.Snd.Id), w.traceInput())
			}
			seen[vt.Snd.Id] = true
			ids = append(ids, vt.Snd.Id)
			if vt.Proof != nil && (best == nil || vt.Proof.PPRef.View > best.PPRef.View) {
				best = vt.Proof
			}
			// the embedded votes are exactly the ones it counted: each was stored by this node
			if vt.Snd.Id != n.id && !n.stored[storeKey(5, s.NVHeight, s.NVView, 0, vt.Snd.Id)] {
				w.rep.finding("C09", "new-view-embeds-vote-not-counted", fmt.Sprintf("node %d embeds a vote of %d it never stored", n.id, vt.Snd.Id), w.traceInput())
			}
		}
		if w.weightOf(s.NVHeight, ids, n.id) < w.quorumAt(s.NVHeight, n.id) {
			w.rep.finding("C07", "leader-proposed-without-vote-quorum", fmt.Sprintf("node %d sent a NEW_VIEW for view %d with votes below quorum weight", n.id, s.NVView), w.traceInput())
		}
		if best != nil {
			if s.Ref.Hash != best.PPRef.Hash || s.Block == nil || s.Block.Id != best.PPRef.Hash {
				w.rep.finding("C09", "new-view-does-not-repropose-highest-prepared-block", fmt.Sprintf("node %d: NEW_VIEW for view %d proposes hash %d although a counted vote proves hash %d (view %d)", n.id, s.NVView, s.Ref.Hash, best.PPRef.Hash, best.PPRef.View), w.traceInput())
			}
		} else if _, own := w.proposedBy[s.Ref.Hash]; !own || w.proposedBy[s.Ref.Hash] != n.id {
			w.rep.finding("C09", "new-view-without-proof-not-a-fresh-proposal", fmt.Sprintf("node %d", n.id), w.traceInput())
		}
	}
}

func clip(o []string) string {
	s := strings.Join(o, " | ")
	if len(s) > 300 {
		s = s[:300] + "..."
	}
	return s
}

func (w *world) checkC07(n *simNode, m *aMsg, bf nodeBefore, view, hash uint64) {
	if m.Kind == "PP" {
		w.kf1Adopted = true
		w.rep.finding("C07", "standalone-preprepare-above-view0", fmt.Sprintf("node %d (h=%d) adopted a standalone PREPREPARE for view %d (hash %d) that did not arrive inside a NEW_VIEW", n.id, bf.h, view, hash), w.traceInput())
		return
	}
	if m.Kind != "NV" || m.NVView != view {
		w.rep.finding("C07", "acted-in-view-without-new-view", fmt.Sprintf("node %d adopted a proposal for view %d on a %s", n.id, view, m.Kind), w.traceInput())
		return
	}
	if ok, why := w.nvCertOK(n, m, bf.h); !ok {
		w.rep.finding("C07", "acted-on-invalid-new-view", fmt.Sprintf("node %d (h=%d) adopted the proposal of a NEW_VIEW for view %d that is not a valid certificate: %s", n.id, bf.h, view, why), w.traceInput())
	}
	if m.Ref.Hash != hash {
		w.rep.finding("C07", "prepared-other-hash-than-new-view-proposal", fmt.Sprintf("node %d", n.id), w.traceInput())
	}
}

func (w *world) checkC11(n *simNode, m *aMsg, bf nodeBefore, outs []string, sent []*aMsg, av uint64) {
	has := func(prefix string) bool {
		for _, o := range outs {
			if strings.HasPrefix(o, prefix) {
				return true
			}
		}
		return false
	}
	switch m.Kind {
	case "NV":
		if bf.v <= m.NVView && !n.storedPPBefore(bf.h, m.NVView) && !n.hasCommitted(bf.h) {
			prepared := false
			for _, s := range sent {
				if s.Kind == "P" && s.Ref.View == m.NVView && s.Ref.Hash == m.Ref.Hash {
					prepared = true
				}
			}
			if !prepared || av < m.NVView {
				w.rep.finding("C11", "honest-new-view-not-adopted", fmt.Sprintf("node %d (h=%d,v=%d) did not adopt the NEW_VIEW for view %d of correct leader %d", n.id, bf.h, bf.v, m.NVView, m.Snd.Id), w.traceInput())
			}
		}
	case "VC":
		if bf.v <= m.Vote.View && w.leaderFor(bf.h, m.Vote.View, n.id) == n.id {
			key := storeKey(5, bf.h, m.Vote.View, 0, m.Vote.Snd.Id)
			if !n.storedBefore[key] && !has(fmt.Sprintf("OStore 5 %d %d 0 %d", bf.h, m.Vote.View, m.Vote.Snd.Id)) {
				w.rep.finding("C11", "honest-view-change-not-counted", fmt.Sprintf("leader %d (h=%d,v=%d) did not count the VIEW_CHANGE for view %d of correct node %d", n.id, bf.h, bf.v, m.Vote.View, m.Vote.Snd.Id), w.traceInput())
			}
		}
	case "P":
		if bf.v <= m.Ref.View {
			key := storeKey(2, bf.h, m.Ref.View, m.Ref.Hash, m.Snd.Id)
			if !n.storedBefore[key] && !has(fmt.Sprintf("OStore 2 %d %d %d %d", bf.h, m.Ref.View, m.Ref.Hash, m.Snd.Id)) {
				w.rep.finding("C11", "honest-prepare-not-counted", fmt.Sprintf("node %d (h=%d,v=%d) did not count the PREPARE (v=%d) of correct node %d", n.id, bf.h, bf.v, m.Ref.View, m.Snd.Id), w.traceInput())
			}
		}
	case "C":
		key := storeKey(3, bf.h, m.Ref.View, m.Ref.Hash, m.Snd.Id)
		if !n.storedBefore[key] && !has(fmt.Sprintf("OStore 3 %d %d %d %d", bf.h, m.Ref.View, m.Ref.Hash, m.Snd.Id)) {
			w.rep.finding("C11", "honest-commit-not-counted", fmt.Sprintf("node %d (h=%d) did not count the COMMIT (v=%d) of correct node %d", n.id, bf.h, m.Ref.View, m.Snd.Id), w.traceInput())
		}
	}
}

func (n *simNode) storedPPBefore(h, v uint64) bool { return n.storedPPPrev[fmt.Sprintf("%d/%d", h, v)] }
func (n *simNode) hasCommitted(h uint64) bool {
	for _, c := range n.commits {
		if c.height == h {
			return true
		}
	}
	return false
}
