package main

import (
	"fmt"
)

// ---- C05: liveness after stabilisation ----
// The "live" engine runs the same random adversarial worlds as "world" (every event is still checked against the
// Coq node model), then stabilises: laggards are synced to the height being decided, every held inbox is released,
// and from then on every pending message is delivered before any election trigger fires; when nothing is pending the
// correct members with the lowest view time out together (exponential timeouts: lower views expire first). The
// Byzantine members keep sending. The search looks for a stall: no correct member commits the height within a number
// of views that covers the view spread plus one full leader rotation.

func init() {
	engines["live"] = func(cfg *runCfg) error { return runWorldLive(cfg) }
}

type liveStats struct {
	checked, skipped int
}

// eligible: correct members that are still deciding height h and are in the committee of h by their own Membership
func (w *world) eligible(h uint64) []*simNode {
	var out []*simNode
	for _, n := range w.honest {
		if uint64(n.vn.State().Height()) != h || !n.vn.HasTerm() {
			continue
		}
		ex := false
		for _, eh := range w.excl[n.id] {
			if eh == h {
				ex = true
			}
		}
		if !ex {
			out = append(out, n)
		}
	}
	return out
}

func (w *world) weightNodes(ns []*simNode) uint64 {
	t := uint64(0)
	for _, n := range ns {
		t += w.weights[n.id]
	}
	return t
}

func (w *world) committedHeight(n *simNode, h uint64) bool {
	for _, c := range n.commits {
		if c.height == h {
			return true
		}
	}
	return false
}

// drain delivers what is pending, oldest first, until nothing is pending or stop() holds; with only > 0 it delivers
// the messages of that height alone and discards the rest
func (w *world) drain(limit int, only uint64, stop func() bool) bool {
	for k := 0; len(w.pool) > 0; k++ {
		if k > limit {
			return false
		}
		if stop != nil && stop() {
			return true
		}
		p := w.pool[0]
		w.pool = w.pool[1:]
		if only > 0 && p.msg.height() != only {
			continue
		}
		w.deliverG(w.byId[p.to], p.msg, p.raw, p.genuine)
	}
	return true
}

// stabilise returns ("", true) when the height was committed, (reason, false) when the world does not meet the
// property's premises (skipped), and reports a finding on a stall.
func (w *world) stabilise() (string, bool) {
	r := w.r
	for k := range w.held {
		w.held[k] = false
	}
	w.slowCommits = false
	// the height being decided
	var H uint64
	for _, n := range w.honest {
		if h := uint64(n.vn.State().Height()); h > H {
			H = h
		}
	}
	if H == 0 {
		for _, n := range w.honest {
			w.sync(n, nil)
		}
		H = 1
	}
	// bring the laggards (late starters, members that missed a commit) to H: block sync is the consumer's job
	for _, n := range w.honest {
		h := uint64(n.vn.State().Height())
		if h >= H {
			continue
		}
		if H == 1 {
			w.sync(n, nil)
			continue
		}
		prev := w.chain[H-1]
		if prev == nil {
			prev = w.syncBlocks[H-1] // the consumer synced somebody to a block consensus did not produce here
		}
		if prev == nil {
			return "height reached by a fabricated sync: no committed predecessor to sync the others to", false
		}
		w.sync(n, prev)
	}
	el := w.eligible(H)
	if w.weightNodes(el) < w.quorum() {
		return "correct members deciding the height weigh less than a quorum", false
	}
	for _, n := range el {
		if w.committedHeight(n, H) {
			return "height already committed by a member whose commit callback failed", false
		}
	}
	var minV, maxV uint64
	for i, n := range el {
		v := uint64(n.vn.State().View())
		if i == 0 || v < minV {
			minV = v
		}
		if v > maxV {
			maxV = v
		}
	}
	histMark := len(w.history)
	rounds := int(maxV-minV) + 2*w.n + 3
	w.trace = append(w.trace, fmt.Sprintf("---- stabilisation: height %d, %d correct members deciding it, views %d..%d, %d view rounds allowed ----", H, len(el), minV, maxV, rounds))
	done := func() *simNode {
		for _, n := range el {
			if w.committedHeight(n, H) {
				return n
			}
		}
		return nil
	}
	var winner *simNode
	for round := 0; round <= rounds; round++ {
		// the Byzantine members keep talking; their traffic is timely too
		if len(w.byz) > 0 {
			for k := r.Intn(3); k > 0; k-- {
				w.byzAction()
			}
		}
		if r.Intn(4) == 0 {
			w.mutatedReplay()
		}
		if !w.drain(20000, 0, func() bool { return done() != nil }) {
			w.rep.finding("C05", "message-storm", fmt.Sprintf("more than 20000 deliveries in one view round at height %d", H), w.traceInput())
			return "", true
		}
		if winner = done(); winner != nil {
			break
		}
		// nothing in flight: the lowest view among the deciding members times out, everywhere at once
		first := true
		var lo uint64
		for _, n := range el {
			if uint64(n.vn.State().Height()) != H {
				continue
			}
			v := uint64(n.vn.State().View())
			if first || v < lo {
				lo, first = v, false
			}
		}
		for _, n := range el {
			if uint64(n.vn.State().Height()) == H && uint64(n.vn.State().View()) == lo {
				w.election(n, H, lo)
			}
		}
	}
	if winner == nil {
		views := ""
		for _, n := range el {
			views += fmt.Sprintf(" %d:(%d,%d)", n.id, uint64(n.vn.State().Height()), uint64(n.vn.State().View()))
		}
		w.rep.finding("C05", "stall-after-stabilisation", fmt.Sprintf("height %d not committed by any correct member after %d timely view rounds; members at%s", H, rounds, views), w.traceInput())
		return "", true
	}
	w.rep.count("live:height-committed")
	// the rest of the height's traffic reaches everybody (the next heights' traffic is not part of the question)
	if !w.drain(20000, H, nil) {
		w.rep.finding("C05", "message-storm", fmt.Sprintf("more than 20000 deliveries of height %d after its first commit", H), w.traceInput())
		return "", true
	}
	// every correct member that accepted the committed view's proposal commits it (when that proposal was made after
	// stabilisation, so that none of its PREPAREs and COMMITs was lost)
	var cv, ch uint64
	for _, c := range winner.commits {
		if c.height == H {
			cv, ch = c.view, c.block.Id
		}
	}
	found := true
	for _, m := range w.history[:histMark] {
		if (m.Kind == "PP" || m.Kind == "NV") && m.height() == H && m.view() == cv {
			found = false // the view's proposal predates stabilisation: some of its traffic may have been lost
		}
	}
	if found {
		for _, n := range el {
			acc := false
			for _, m := range n.sentLog {
				if m.height() == H && m.view() == cv && m.Ref.Hash == ch && (m.Kind == "P" || m.Kind == "PP" || m.Kind == "NV") {
					acc = true
				}
			}
			if acc && !w.committedHeight(n, H) {
				w.rep.finding("C05", "acceptor-did-not-commit", fmt.Sprintf("node %d accepted the proposal of view %d at height %d (block %d) but did not commit it although all traffic was delivered", n.id, cv, H, ch), w.traceInput())
			}
			if acc {
				w.rep.count("live:acceptor-committed")
			}
		}
	}
	return "", true
}

func runWorldLive(cfg *runCfg) error {
	return runWorldModeX(cfg, "live", false, true)
}
